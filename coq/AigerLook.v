(* AigerLook.v — C09 for the ASCII AIGER parser (and the tokens it shares with the binary one): the header and every
   section entry (input, latch, output, bad, constraint, justice size, justice literal, fairness, and gate, symbol) is
   handed out without a byte beyond the line break that completes it having been asked for; whatever the outcome, what
   a header / entry reader asked for lies in the line of its final cursor.  The comment section is the rest of the file:
   it is handed out when the input has ended, after the one request beyond the end that discovers it.
   LookW.v is the framework: the bounds are proved over the finished runs (wrt); safety and the invariant KM are
   AigerSafe.v.  The binary and-gate section (binary_uint, delta_code) is not covered here. *)
From Flussab Require Import Base Reader ListN Writer Parsed Prog Text TextSpec ProgProofs ScanProofs DigitsProofs.
From Flussab Require Import ReaderProofs Simulation Consts Cnf CnfProofs ErrProofs Varint Aiger AigerProofs Hoare CnfSafe.
From Flussab Require Import Look LookProofs LookW AigerSafe.
Ltac Zify.zify_post_hook ::= Z.to_euclidean_division_equations.
Local Open Scope N_scope.

Section ALook.
Variable fuel : nat.

Local Notation Wv := (Wv fuel).
Local Notation wrt := (wrt fuel).
Local Notation wt := (wt fuel).
Local Notation LkP := (LkP fuel).

(* ================================================================== *)
(* 1. the `?` operator, fail_with                                       *)

Lemma LkP_rbnd {A B} (m : PM (result A perr)) (f : A -> PM (result B perr)) :
  LkP m -> (forall a, LkP (f a)) -> LkP (rbnd m f).
Proof. intros Hm Hf. unfold rbnd. apply LkP_pbnd; [exact Hm|]. intros [a|e]; [apply Hf|apply LkP_pret]. Qed.

Lemma LkP_fail_with {A} (err : PM perr) : LkP err -> LkP (@fail_with A err).
Proof. intros H. unfold fail_with. apply LkP_pbnd; [exact H|]. intros e. apply LkP_pret. Qed.

(* a step of a sequence of `?`; Q holds of every error *)
Lemma wrt_rstep {A B} (m : PM (result A perr)) (f : A -> PM (result B perr)) lr v0 v
      (Q : result B perr -> lrs -> view -> Prop) :
  Fl v0 v -> LkP m -> (forall e lr1 v1, Q (Err e) lr1 v1) ->
  (forall a lr1 v1, Fl v0 v1 -> wrt (f a) lr1 v1 Q) -> wrt (rbnd m f) lr v Q.
Proof.
  intros Hf Hm He Hk. unfold rbnd. apply (wrt_step fuel m _ lr v0 v); [exact Hf|exact Hm|].
  intros [a|e] lr1 v1 Hf1; [apply Hk; exact Hf1|apply wrt_pret; apply He].
Qed.

(* the step that completes an item *)
Lemma wrt_rstep_item {A B} (m : PM (result A perr)) (f : A -> PM (result B perr)) lr v0 v
      (P : A -> Prop) (Q : result B perr -> lrs -> view -> Prop) :
  Fl v0 v -> LkP m -> wrt m lr v (fun a _ v' => forall x, a = Ok x -> P x -> ItemLk v v') ->
  (forall e lr1 v1, Q (Err e) lr1 v1) ->
  (forall a lr1 v1, Fl v0 v1 -> (P a -> ItemLk v0 v1) -> wrt (f a) lr1 v1 Q) -> wrt (rbnd m f) lr v Q.
Proof.
  intros Hf Hm Hi He Hk. unfold rbnd. apply (wrt_stepQ fuel m _ lr v0 v _ _ Hf Hm Hi).
  intros [a|e] lr1 v1 Hf1 Hi1; [|apply wrt_pret; apply He].
  apply Hk; [exact Hf1|]. intros Hp. eapply Fl_ItemLk; [exact Hf|exact (Hi1 a eq_refl Hp)].
Qed.

Lemma wrt_fail_err {A} (err : PM perr) lr v (Q : result A perr -> lrs -> view -> Prop) :
  (forall e lr' v', Q (Err e) lr' v') -> wrt (fail_with err) lr v Q.
Proof.
  intros H. unfold fail_with. apply wrt_pbnd. eapply wrt_conseq; [apply wrt_true|]. intros e lr1 v1 _. apply wrt_pret. apply H.
Qed.

(* ================================================================== *)
(* 2. token.rs                                                          *)

Lemma LkP_space : LkP space.
Proof.
  unfold space, tok_ok, tok_ft. apply LkP_pbnd; [apply LkP_ppeek0|]. intros o. destruct (is_byte o 32); [|apply LkP_pret].
  apply LkP_pbnd; [apply LkP_padvance|]. intros _. apply LkP_pret.
Qed.

Lemma LkP_required_space : LkP required_space.
Proof. unfold required_space. apply LkP_or_unexpected, LkP_space. Qed.

Lemma LkP_anewline : LkP anewline.
Proof.
  unfold anewline, tok_ok, tok_ft. apply LkP_pbnd; [apply LkP_ppeek0|]. intros o. destruct (is_byte o 10); [|apply LkP_pret].
  apply LkP_pbnd; [apply LkP_padvance|]. intros _. apply LkP_pbnd; [apply LkP_line_at_offset|]. intros _. apply LkP_pret.
Qed.

Lemma LkP_required_newline : LkP required_newline.
Proof. unfold required_newline. apply LkP_or_unexpected, LkP_anewline. Qed.

(* looking at the byte at the cursor: an LF that is then consumed completes an item *)
Lemma lf_consumed v v' : Wv v -> vpeek v 0 = Some 10 -> vreq v' = vreq (after_peek v 0) -> vcur v' = vcur v + 1 -> ItemLk v v'.
Proof.
  intros HW Ep Hr Hc. pose proof (Pk_peek _ _ _ 0 (Pk_W fuel v HW) (N.le_refl 0)) as HP.
  eapply (Pk_ItemLk v (after_peek v 0) 0); [exact HP|exact Ep|exact Hr|cbn [after_peek vcur]; lia].
Qed.

Lemma is_byte_true o c : is_byte o c = true -> o = Some c.
Proof. destruct o as [b|]; cbn [is_byte]; [|discriminate]. intros H. apply N.eqb_eq in H. subst b. reflexivity. Qed.

Lemma anewline_item lr v : wrt anewline lr v (fun a _ v' => forall u, a = Res (Ok u) -> ItemLk v v').
Proof.
  apply wrt_W. intros HW. unfold anewline, tok_ok, tok_ft. apply wrt_pbnd, wrt_ppeek.
  destruct (is_byte (vpeek v 0) 10) eqn:Eb; [|apply wrt_pret; intros u E; discriminate].
  apply is_byte_true in Eb.
  apply wrt_pbnd, wrt_padvance. apply wrt_pbnd, wrt_line_at_offset. intros lr1. apply wrt_pret. intros u _.
  apply (lf_consumed v _ HW Eb); [reflexivity|cbn [v_advance after_peek vcur]; lia].
Qed.

Lemma required_newline_item lr v : wrt required_newline lr v (fun a _ v' => forall u, a = Ok u -> ItemLk v v').
Proof.
  unfold required_newline, or_unexpected. apply wrt_pbnd. eapply wrt_conseq; [apply anewline_item|].
  intros r lr1 v1 Hi. destruct r as [[u|e]|].
  - apply wrt_pret. intros u' _. apply (Hi u). reflexivity.
  - apply wrt_pret. intros u' E. discriminate.
  - apply wrt_pbnd. eapply wrt_conseq; [apply wrt_true|]. intros e lr2 v2 _. apply wrt_pret. intros u' E. discriminate.
Qed.

Lemma LkP_required_newline_or_space : LkP required_newline_or_space.
Proof.
  unfold required_newline_or_space. apply LkP_pbnd; [apply LkP_ppeek0|]. intros o.
  destruct (is_byte o 10).
  - apply LkP_pbnd; [apply LkP_padvance|]. intros _. apply LkP_pbnd; [apply LkP_line_at_offset|]. intros _. apply LkP_pret.
  - destruct (is_byte o 32); [|apply LkP_fail_with, LkP_unexpected].
    apply LkP_pbnd; [apply LkP_padvance|]. intros _. apply LkP_pret.
Qed.

(* Ok false: the field was the last of its line *)
Lemma required_newline_or_space_item lr v :
  wrt required_newline_or_space lr v (fun a _ v' => forall x, a = Ok x -> x = false -> ItemLk v v').
Proof.
  apply wrt_W. intros HW. unfold required_newline_or_space. apply wrt_pbnd, wrt_ppeek.
  destruct (is_byte (vpeek v 0) 10) eqn:Eb.
  - apply is_byte_true in Eb.
    apply wrt_pbnd, wrt_padvance. apply wrt_pbnd, wrt_line_at_offset. intros lr1. apply wrt_pret. intros x _ _.
    apply (lf_consumed v _ HW Eb); [reflexivity|cbn [v_advance after_peek vcur]; lia].
  - destruct (is_byte (vpeek v 0) 32).
    + apply wrt_pbnd, wrt_padvance, wrt_pret. intros x E Hx. inversion E; subst x. discriminate.
    + apply wrt_fail_err. intros e lr' v' x E. discriminate.
Qed.

(* token::uint *)
Lemma LkP_uint : LkP (uint fuel).
Proof.
  intros lr v. unfold uint. apply wrt_pbnd, wrt_digits. intros val v1 HP. cbv beta iota.
  set (d := nlen (digit_prefix (rest_at v 0))) in *.
  destruct (0 + d =? 0); [apply wrt_pret; eapply Pk_Lk; [exact HP|reflexivity|lia]|].
  apply wrt_pbnd, wrt_ppeek. pose proof (Pk_peek _ _ _ 0 HP (N.le_0_l _)) as HP2.
  destruct (negb (is_byte (vpeek v1 0) 48) || (0 + d =? 1));
    [|apply wrt_pret; eapply Pk_Lk; [exact HP2|reflexivity|lia]].
  destruct val as [z|]; [|apply wrt_pret; eapply Pk_Lk; [exact HP2|reflexivity|lia]].
  apply wrt_pbnd, wrt_padvance, wrt_pret. eapply Pk_Lk; [exact HP2|reflexivity|cbn [v_advance vcur]; lia].
Qed.

Lemma LkP_header_field limit : LkP (header_field fuel limit).
Proof.
  unfold header_field. apply LkP_pbnd; [apply LkP_pset_mark|]. intros _.
  apply LkP_pbnd; [apply LkP_located; [apply LkP_uint|apply LkP_give_up_at_mark]|].
  intros [[count|e]|]; [|apply LkP_pret|apply LkP_fail_with, LkP_unexpected].
  destruct (limit <? count); [apply LkP_fail_with, LkP_give_up_at_mark|apply LkP_pret].
Qed.

Lemma LkP_symbol_index limit : LkP (symbol_index fuel limit).
Proof. apply LkP_header_field. Qed.

Lemma LkP_lit limit assigning : LkP (lit fuel limit assigning).
Proof.
  unfold lit. apply LkP_pbnd; [apply LkP_pset_mark|]. intros _.
  apply LkP_pbnd; [apply LkP_located; [apply LkP_uint|apply LkP_give_up_at_mark]|].
  intros [[count|e]|]; [|apply LkP_pret|apply LkP_fail_with, LkP_unexpected].
  destruct (assigning && ((count =? 0) || negb (N.land count 1 =? 0))); [apply LkP_fail_with, LkP_give_up_at_mark|].
  destruct (limit <? count); [apply LkP_fail_with, LkP_give_up_at_mark|apply LkP_pret].
Qed.

(* token::fixed_not_eol: the pattern and the byte behind it *)
Lemma LkP_fixed_not_eol (pat : bytes) : pat <> [] -> ~ In 10 pat -> LkP (fixed_not_eol pat).
Proof.
  intros Hne H10 lr v. unfold fixed_not_eol, tok_ft, tok_ok. apply wrt_pbnd, wrt_fixed; [exact Hne|exact H10|]. intros v1 HP.
  destruct (common_prefix pat (rest_at v 0) =? nlen pat) eqn:Ec.
  - apply N.eqb_eq in Ec. rewrite Ec in HP.
    destruct (0 + nlen pat =? 0); [apply wrt_pret; eapply Pk_Lk; [exact HP|reflexivity|lia]|].
    apply wrt_pbnd, wrt_ppeek. assert (Hle : 0 + nlen pat <= nlen pat) by lia. pose proof (Pk_peek _ _ _ _ HP Hle) as HP2.
    destruct (is_byte (vpeek v1 (0 + nlen pat)) 10); [apply wrt_pret; eapply Pk_Lk; [exact HP2|reflexivity|lia]|].
    apply wrt_pbnd, wrt_padvance, wrt_pret. eapply Pk_Lk; [exact HP2|reflexivity|cbn [v_advance vcur]; lia].
  - change (0 =? 0) with true. cbv iota. apply wrt_pret. eapply Pk_Lk; [exact HP|reflexivity|lia].
Qed.

(* token::remaining_line_content: the rest of the line and its LF, which is consumed *)
Lemma line_scan_w n : forall offset acc lr vi v, Pk v vi offset ->
  wrt (line_scan n offset acc) lr vi (fun r _ v' => Pk v v' (snd r) /\ forall b, vpeek v' (snd r) = Some b -> b = 10).
Proof.
  induction n as [|n IH]; intros offset acc lr vi v HP; cbn [line_scan]; [apply wrt_pnofuel|].
  apply wrt_pbnd, wrt_ppeek. pose proof (Pk_peek _ _ _ _ HP (N.le_refl offset)) as HP1.
  destruct (vpeek vi offset) as [b|] eqn:Ep.
  - destruct (b =? 10) eqn:Eb.
    + apply N.eqb_eq in Eb. subst b. apply wrt_pret. cbn [snd]. split; [exact HP1|].
      intros b Hb. rewrite vpeek_after_peek, Ep in Hb. inversion Hb. reflexivity.
    + apply N.eqb_neq in Eb. apply IH. apply (Pk_ext _ _ _ b); [exact HP1|rewrite vpeek_after_peek; exact Ep|exact Eb].
  - apply wrt_pret. cbn [snd]. split; [exact HP1|]. intros b Hb. rewrite vpeek_after_peek, Ep in Hb. discriminate.
Qed.

Lemma remaining_line_content_w lr v :
  wrt (remaining_line_content fuel) lr v (fun a _ v' => Lk v v' /\ forall x, a = Ok x -> ItemLk v v').
Proof.
  apply wrt_W. intros HW. unfold remaining_line_content. apply wrt_pbnd.
  eapply wrt_conseq; [apply (line_scan_w fuel 0 [] lr v v (Pk_W fuel v HW))|].
  intros [line offset] lr1 v1 [HP Hlf]. cbn [snd] in HP, Hlf. cbv beta iota.
  apply wrt_pbnd, wrt_ppeek. pose proof (Pk_peek _ _ _ _ HP (N.le_refl offset)) as HP2.
  assert (Hfail : forall n lr2 (P : view -> Prop),
            wrt (padvance n ;;;; fail_with unexpected) lr2 (after_peek v1 offset)
                (fun (a : result bytes perr) _ v' => Lk v v' /\ forall x, a = Ok x -> P v')).
  { intros n lr2 P. apply wrt_pbnd, wrt_padvance. unfold fail_with. apply wrt_pbnd.
    eapply wrt_conseq; [apply (wrt_tail fuel unexpected lr2 v); [|apply LkP_unexpected]|].
    - eapply Pk_Fl; [exact HP2|reflexivity|reflexivity|cbn [v_advance vcur]; lia].
    - intros e lr3 v3 Hl. apply wrt_pret. split; [exact Hl|]. intros x E. discriminate. }
  destruct (vpeek v1 offset) as [b|] eqn:Ep; [|apply Hfail].
  destruct (utf8_valid_up_to line) as [vut|]; [apply Hfail|].
  assert (b = 10) by (apply Hlf; reflexivity). subst b.
  apply wrt_pbnd, wrt_line_at_offset. intros lr2. apply wrt_pbnd, wrt_padvance, wrt_pret.
  split; [eapply Pk_Lk; [exact HP2|reflexivity|cbn [v_advance vcur]; lia]|]. intros x _.
  eapply (Pk_ItemLk v _ offset); [exact HP2|rewrite vpeek_after_peek; exact Ep|reflexivity|cbn [v_advance after_peek vcur]; lia].
Qed.

Lemma LkP_remaining_line_content : LkP (remaining_line_content fuel).
Proof. intros lr v. eapply wrt_conseq; [apply remaining_line_content_w|]. intros a lr' v' [H _]. exact H. Qed.

(* token::remaining_file_content: everything up to the end of the input, and the request that finds the end *)
Lemma read_all_w n : forall k acc lr vi v,
  vcur vi = vcur v -> vS vi = vS v -> vreq vi <= N.max (vreq v) (vcur v + k) -> vcur v + k <= nlen (vS v) ->
  wrt (read_all n k acc) lr vi (fun r _ v' =>
    vcur v' = vcur v /\ vreq v' <= N.max (vreq v) (nlen (vS v) + 1) /\ nlen r = nlen acc + (nlen (vS v) - (vcur v + k))).
Proof.
  induction n as [|n IH]; intros k acc lr vi v Hc HS Hr Hk; cbn [read_all]; [apply wrt_pnofuel|].
  apply wrt_pbnd, wrt_ppeek. unfold vpeek. rewrite HS, Hc.
  destruct (nnth (vS v) (vcur v + k)) as [b|] eqn:Ep.
  - pose proof (nnth_some_lt _ _ _ Ep) as Hlt.
    eapply wrt_conseq; [apply (IH (k + 1) (b :: acc) lr (after_peek vi k) v); [exact Hc|exact HS|cbn [after_peek vreq]; lia|lia]|].
    intros r lr1 v1 (c1 & c2 & c3). split; [exact c1|]. split; [exact c2|]. rewrite c3, nlen_cons. lia.
  - assert (Hn : nlen (vS v) <= vcur v + k) by (unfold nnth in Ep; apply nth_error_None in Ep; unfold nlen; lia).
    apply wrt_pret. cbn [after_peek vcur vreq]. split; [exact Hc|]. split; [lia|].
    unfold nlen at 1. rewrite rev_length. fold (nlen acc). lia.
Qed.

Lemma bad_file_content_err content vut lr v (Q : result bytes perr -> lrs -> view -> Prop) :
  (forall e lr' v', Q (Err e) lr' v') -> wrt (bad_file_content content vut) lr v Q.
Proof.
  intros H. unfold bad_file_content.
  destruct (after_last_nl (nfirstn vut content) 0 None) as [adv|].
  - apply wrt_pbnd. eapply wrt_conseq; [apply wrt_true|]. intros _ lr1 v1 _.
    apply wrt_pbnd. eapply wrt_conseq; [apply wrt_true|]. intros _ lr2 v2 _.
    apply wrt_pbnd. eapply wrt_conseq; [apply wrt_true|]. intros _ lr3 v3 _.
    apply wrt_pbnd. eapply wrt_conseq; [apply wrt_true|]. intros _ lr4 v4 _.
    apply wrt_fail_err. exact H.
  - apply wrt_pbnd. eapply wrt_conseq; [apply wrt_true|]. intros _ lr1 v1 _. apply wrt_fail_err. exact H.
Qed.

Lemma remaining_file_content_item lr v :
  wrt (remaining_file_content fuel) lr v (fun a _ v' => forall x, a = Ok x -> ItemLk v v').
Proof.
  apply wrt_W. intros HW. pose proof (Wv_cur_le fuel v HW) as Hle. unfold remaining_file_content. apply wrt_pbnd.
  eapply wrt_conseq; [apply (read_all_w fuel 0 [] lr v v); [reflexivity|reflexivity|lia|lia]|].
  intros content lr1 v1 (c1 & c2 & c3). change (nlen (@nil byte)) with 0 in c3.
  apply wrt_pbnd, wrt_takeerr. destruct (s_take v1) as [io|]; [apply wrt_pret; intros x E; discriminate|].
  assert (Hbad : forall vut lr2 v2, wrt (bad_file_content content vut) lr2 v2 (fun a _ v' => forall x, a = Ok x -> ItemLk v v')).
  { intros vut lr2 v2. apply bad_file_content_err. intros e lr' v' x E. discriminate. }
  destruct (utf8_valid_up_to content) as [vut|]; [apply Hbad|].
  destruct (match last_byte content with Some b => b =? 10 | None => true end); [|apply Hbad].
  apply wrt_pbnd, wrt_padvance, wrt_pret. intros x _. right. cbn [v_advance v_take vcur vreq]. split; lia.
Qed.

(* ================================================================== *)
(* 3. the header                                                        *)

Lemma LkP_magic (magic : bytes) : magic <> [] -> ~ In 10 magic -> LkP (or_unexpected (tfixed magic)).
Proof. intros Hne H10. apply LkP_or_unexpected, LkP_tfixed; assumption. Qed.

(* what follows a field that may be the last of the header line *)
Lemma nl_or_space_step {B} (f : bool -> PM (result B perr)) lr v0 v (Q : result B perr -> lrs -> view -> Prop) :
  Fl v0 v -> (forall e lr1 v1, Q (Err e) lr1 v1) ->
  (forall lr1 v1, Fl v0 v1 -> ItemLk v0 v1 -> wrt (f false) lr1 v1 Q) ->
  (forall lr1 v1, Fl v0 v1 -> wrt (f true) lr1 v1 Q) ->
  wrt (rbnd required_newline_or_space f) lr v Q.
Proof.
  intros Hf He Hfalse Htrue.
  apply (wrt_rstep_item required_newline_or_space f lr v0 v (fun x => x = false) Q Hf LkP_required_newline_or_space
           (required_newline_or_space_item lr v) He).
  intros [|] lr1 v1 Hf1 Hi; [apply Htrue; exact Hf1|apply Hfalse; [exact Hf1|apply Hi; reflexivity]].
Qed.

Lemma newline_step {B} (f : unit -> PM (result B perr)) lr v0 v (Q : result B perr -> lrs -> view -> Prop) :
  Fl v0 v -> (forall e lr1 v1, Q (Err e) lr1 v1) ->
  (forall u lr1 v1, Fl v0 v1 -> ItemLk v0 v1 -> wrt (f u) lr1 v1 Q) ->
  wrt (rbnd required_newline f) lr v Q.
Proof.
  intros Hf He Hk.
  apply (wrt_rstep_item required_newline f lr v0 v (fun _ => True) Q Hf LkP_required_newline).
  - eapply wrt_conseq; [apply required_newline_item|]. intros a lr1 v1 H x E _. exact (H x E).
  - exact He.
  - intros u lr1 v1 Hf1 Hi. apply Hk; [exact Hf1|apply Hi; exact I].
Qed.

Lemma LkP_parse_aheader (magic : bytes) maxc : magic <> [] -> ~ In 10 magic -> LkP (parse_aheader fuel magic maxc).
Proof.
  intros Hne H10. unfold parse_aheader.
  apply LkP_rbnd; [apply LkP_magic; assumption|]. intros _.
  apply LkP_rbnd; [apply LkP_required_space|]. intros _. apply LkP_rbnd; [apply LkP_header_field|]. intros m.
  apply LkP_rbnd; [apply LkP_required_space|]. intros _. apply LkP_rbnd; [apply LkP_header_field|]. intros i.
  apply LkP_rbnd; [apply LkP_required_space|]. intros _. apply LkP_rbnd; [apply LkP_header_field|]. intros l.
  apply LkP_rbnd; [apply LkP_required_space|]. intros _. apply LkP_rbnd; [apply LkP_header_field|]. intros o.
  apply LkP_rbnd; [apply LkP_required_space|]. intros _. apply LkP_rbnd; [apply LkP_header_field|]. intros a.
  apply LkP_rbnd; [apply LkP_required_newline_or_space|]. intros s1. destruct (negb s1); [apply LkP_pret|].
  apply LkP_rbnd; [apply LkP_header_field|]. intros b.
  apply LkP_rbnd; [apply LkP_required_newline_or_space|]. intros s2. destruct (negb s2); [apply LkP_pret|].
  apply LkP_rbnd; [apply LkP_header_field|]. intros c.
  apply LkP_rbnd; [apply LkP_required_newline_or_space|]. intros s3. destruct (negb s3); [apply LkP_pret|].
  apply LkP_rbnd; [apply LkP_header_field|]. intros j.
  apply LkP_rbnd; [apply LkP_required_newline_or_space|]. intros s4. destruct (negb s4); [apply LkP_pret|].
  apply LkP_rbnd; [apply LkP_header_field|]. intros f.
  apply LkP_rbnd; [apply LkP_required_newline|]. intros _. apply LkP_pret.
Qed.

Lemma parse_aheader_item (magic : bytes) maxc lr v : magic <> [] -> ~ In 10 magic ->
  wrt (parse_aheader fuel magic maxc) lr v (fun a _ v' => forall hd, a = Ok hd -> ItemLk v v').
Proof.
  intros Hne H10. unfold parse_aheader.
  set (Q := fun (a : result aheader perr) (_ : lrs) (v' : view) => forall hd, a = Ok hd -> ItemLk v v').
  assert (HE : forall e lr1 v1, Q (Err e) lr1 v1) by (intros e lr1 v1 hd E; discriminate).
  assert (Hdone : forall hd lr1 v1, ItemLk v v1 -> wrt (pret (Ok hd)) lr1 v1 Q) by (intros hd lr1 v1 Hi; apply wrt_pret; intros hd' _; exact Hi).
  pose proof (Fl_refl v) as Hf0.
  apply (wrt_rstep _ _ lr v v Q Hf0 (LkP_magic magic Hne H10) HE). intros _ lr1 v1 Hf1.
  apply (wrt_rstep _ _ lr1 v v1 Q Hf1 LkP_required_space HE). intros _ lr2 v2 Hf2.
  apply (wrt_rstep _ _ lr2 v v2 Q Hf2 (LkP_header_field _) HE). intros m lr3 v3 Hf3.
  apply (wrt_rstep _ _ lr3 v v3 Q Hf3 LkP_required_space HE). intros _ lr4 v4 Hf4.
  apply (wrt_rstep _ _ lr4 v v4 Q Hf4 (LkP_header_field _) HE). intros i lr5 v5 Hf5.
  apply (wrt_rstep _ _ lr5 v v5 Q Hf5 LkP_required_space HE). intros _ lr6 v6 Hf6.
  apply (wrt_rstep _ _ lr6 v v6 Q Hf6 (LkP_header_field _) HE). intros l lr7 v7 Hf7.
  apply (wrt_rstep _ _ lr7 v v7 Q Hf7 LkP_required_space HE). intros _ lr8 v8 Hf8.
  apply (wrt_rstep _ _ lr8 v v8 Q Hf8 (LkP_header_field _) HE). intros o lr9 v9 Hf9.
  apply (wrt_rstep _ _ lr9 v v9 Q Hf9 LkP_required_space HE). intros _ lr10 v10 Hf10.
  apply (wrt_rstep _ _ lr10 v v10 Q Hf10 (LkP_header_field _) HE). intros a lr11 v11 Hf11.
  apply (nl_or_space_step _ lr11 v v11 Q Hf11 HE); [intros lr12 v12 Hf12 Hi12; cbn [negb]; apply Hdone; exact Hi12|].
  intros lr12 v12 Hf12. cbn [negb].
  apply (wrt_rstep _ _ lr12 v v12 Q Hf12 (LkP_header_field _) HE). intros b lr13 v13 Hf13.
  apply (nl_or_space_step _ lr13 v v13 Q Hf13 HE); [intros lr14 v14 Hf14 Hi14; cbn [negb]; apply Hdone; exact Hi14|].
  intros lr14 v14 Hf14. cbn [negb].
  apply (wrt_rstep _ _ lr14 v v14 Q Hf14 (LkP_header_field _) HE). intros c lr15 v15 Hf15.
  apply (nl_or_space_step _ lr15 v v15 Q Hf15 HE); [intros lr16 v16 Hf16 Hi16; cbn [negb]; apply Hdone; exact Hi16|].
  intros lr16 v16 Hf16. cbn [negb].
  apply (wrt_rstep _ _ lr16 v v16 Q Hf16 (LkP_header_field _) HE). intros j lr17 v17 Hf17.
  apply (nl_or_space_step _ lr17 v v17 Q Hf17 HE); [intros lr18 v18 Hf18 Hi18; cbn [negb]; apply Hdone; exact Hi18|].
  intros lr18 v18 Hf18. cbn [negb].
  apply (wrt_rstep _ _ lr18 v v18 Q Hf18 (LkP_header_field _) HE). intros f lr19 v19 Hf19.
  apply (newline_step _ lr19 v v19 Q Hf19 HE). intros _ lr20 v20 Hf20 Hi20. apply Hdone. exact Hi20.
Qed.

(* ================================================================== *)
(* 4. the section entries                                               *)

(* the entry readers return Ok (item, state): an item has been handed out *)
Definition EntryQ {St : Type} (v0 : view) : result (item * St) perr -> lrs -> view -> Prop :=
  fun a _ v' => forall x, a = Ok x -> ItemLk v0 v'.

Lemma EntryQ_err {St : Type} v0 e lr1 v1 : @EntryQ St v0 (Err e) lr1 v1.
Proof. intros x E. discriminate. Qed.

Lemma EntryQ_done {St : Type} v0 (x : item * St) lr1 v1 : ItemLk v0 v1 -> wrt (pret (Ok x)) lr1 v1 (EntryQ v0).
Proof. intros Hi. apply wrt_pret. intros x' _. exact Hi. Qed.

Lemma LkP_lit_line {St : Type} maxc ml asg mk (st : St) : LkP (lit_line fuel maxc ml asg mk st).
Proof.
  unfold lit_line. apply LkP_rbnd; [apply LkP_lit|]. intros c. apply LkP_rbnd; [apply LkP_required_newline|]. intros _. apply LkP_pret.
Qed.

Lemma lit_line_item {St : Type} maxc ml asg mk (st : St) lr v : wrt (lit_line fuel maxc ml asg mk st) lr v (EntryQ v).
Proof.
  unfold lit_line.
  apply (wrt_rstep _ _ lr v v (EntryQ v) (Fl_refl v) (LkP_lit _ _) (EntryQ_err v)). intros c lr1 v1 Hf1.
  apply (newline_step _ lr1 v v1 (EntryQ v) Hf1 (EntryQ_err v)). intros _ lr2 v2 Hf2 Hi2. apply EntryQ_done. exact Hi2.
Qed.

Lemma LkP_justice_size total : LkP (justice_size fuel total).
Proof.
  unfold justice_size. apply LkP_rbnd; [apply LkP_header_field|]. intros c.
  apply LkP_rbnd; [apply LkP_required_newline|]. intros _. apply LkP_pret.
Qed.

Lemma justice_size_item total lr v : wrt (justice_size fuel total) lr v (EntryQ v).
Proof.
  unfold justice_size.
  apply (wrt_rstep _ _ lr v v (EntryQ v) (Fl_refl v) (LkP_header_field _) (EntryQ_err v)). intros c lr1 v1 Hf1.
  apply (newline_step _ lr1 v v1 (EntryQ v) Hf1 (EntryQ_err v)). intros _ lr2 v2 Hf2 Hi2. apply EntryQ_done. exact Hi2.
Qed.

Lemma LkP_latch_init ml sc : LkP (latch_init fuel ml sc).
Proof.
  unfold latch_init. apply LkP_rbnd; [apply LkP_required_newline_or_space|]. intros sp. destruct sp; [|apply LkP_pret].
  apply LkP_rbnd; [apply LkP_lit|]. intros ic.
  destruct (ic <? 2); [apply LkP_rbnd; [apply LkP_required_newline|]; intros _; apply LkP_pret|].
  destruct (ic =? sc); [apply LkP_rbnd; [apply LkP_required_newline|]; intros _; apply LkP_pret|].
  apply LkP_fail_with, LkP_give_up_at_mark.
Qed.

(* the optional third field of a latch line: whichever form, the line has been read to its end *)
Lemma latch_init_item ml sc lr v0 v : Fl v0 v ->
  wrt (latch_init fuel ml sc) lr v (fun a _ v' => forall x, a = Ok x -> ItemLk v0 v').
Proof.
  intros Hf. unfold latch_init.
  set (Q := fun (a : result (option bool) perr) (_ : lrs) (v' : view) => forall x, a = Ok x -> ItemLk v0 v').
  assert (HE : forall e lr1 v1, Q (Err e) lr1 v1) by (intros e lr1 v1 x E; discriminate).
  apply (nl_or_space_step _ lr v0 v Q Hf HE); [intros lr1 v1 Hf1 Hi1; apply wrt_pret; intros x _; exact Hi1|].
  intros lr1 v1 Hf1.
  apply (wrt_rstep _ _ lr1 v0 v1 Q Hf1 (LkP_lit _ _) HE). intros ic lr2 v2 Hf2.
  assert (Hnl : forall (o : option bool), wrt (required_newline ;;? pret (Ok o)) lr2 v2 Q).
  { intros o. apply (newline_step _ lr2 v0 v2 Q Hf2 HE). intros _ lr3 v3 Hf3 Hi3. apply wrt_pret. intros x _. exact Hi3. }
  destruct (ic <? 2); [apply Hnl|]. destruct (ic =? sc); [apply Hnl|]. apply wrt_fail_err. exact HE.
Qed.

Lemma LkP_aag_latch maxc ml (st : unit) : LkP (aag_latch fuel maxc ml st).
Proof.
  unfold aag_latch. apply LkP_rbnd; [apply LkP_lit|]. intros s. apply LkP_rbnd; [apply LkP_required_space|]. intros _.
  apply LkP_rbnd; [apply LkP_lit|]. intros nx. apply LkP_rbnd; [apply LkP_latch_init|]. intros init. apply LkP_pret.
Qed.

Lemma aag_latch_item maxc ml (st : unit) lr v : wrt (aag_latch fuel maxc ml st) lr v (EntryQ v).
Proof.
  unfold aag_latch.
  apply (wrt_rstep _ _ lr v v (EntryQ v) (Fl_refl v) (LkP_lit _ _) (EntryQ_err v)). intros s lr1 v1 Hf1.
  apply (wrt_rstep _ _ lr1 v v1 (EntryQ v) Hf1 LkP_required_space (EntryQ_err v)). intros _ lr2 v2 Hf2.
  apply (wrt_rstep _ _ lr2 v v2 (EntryQ v) Hf2 (LkP_lit _ _) (EntryQ_err v)). intros nx lr3 v3 Hf3.
  unfold rbnd. apply wrt_pbnd. eapply wrt_conseq; [apply (latch_init_item ml s lr3 v v3 Hf3)|].
  intros [init|e] lr4 v4 Hi; [apply EntryQ_done; apply (Hi init); reflexivity|apply wrt_pret; apply EntryQ_err].
Qed.

Lemma LkP_aag_and maxc ml (st : unit) : LkP (aag_and fuel maxc ml st).
Proof.
  unfold aag_and. apply LkP_rbnd; [apply LkP_lit|]. intros o. apply LkP_rbnd; [apply LkP_required_space|]. intros _.
  apply LkP_rbnd; [apply LkP_lit|]. intros a. apply LkP_rbnd; [apply LkP_required_space|]. intros _.
  apply LkP_rbnd; [apply LkP_lit|]. intros b. apply LkP_rbnd; [apply LkP_required_newline|]. intros _. apply LkP_pret.
Qed.

Lemma aag_and_item maxc ml (st : unit) lr v : wrt (aag_and fuel maxc ml st) lr v (EntryQ v).
Proof.
  unfold aag_and.
  apply (wrt_rstep _ _ lr v v (EntryQ v) (Fl_refl v) (LkP_lit _ _) (EntryQ_err v)). intros o lr1 v1 Hf1.
  apply (wrt_rstep _ _ lr1 v v1 (EntryQ v) Hf1 LkP_required_space (EntryQ_err v)). intros _ lr2 v2 Hf2.
  apply (wrt_rstep _ _ lr2 v v2 (EntryQ v) Hf2 (LkP_lit _ _) (EntryQ_err v)). intros a lr3 v3 Hf3.
  apply (wrt_rstep _ _ lr3 v v3 (EntryQ v) Hf3 LkP_required_space (EntryQ_err v)). intros _ lr4 v4 Hf4.
  apply (wrt_rstep _ _ lr4 v v4 (EntryQ v) Hf4 (LkP_lit _ _) (EntryQ_err v)). intros b lr5 v5 Hf5.
  apply (newline_step _ lr5 v v5 (EntryQ v) Hf5 (EntryQ_err v)). intros _ lr6 v6 Hf6 Hi6. apply EntryQ_done. exact Hi6.
Qed.

(* binary latches: the tokens are shared with the ascii format *)
Lemma LkP_aig_latch maxc ml code : LkP (aig_latch fuel maxc ml code).
Proof.
  unfold aig_latch, code_plus_2. apply LkP_rbnd; [apply LkP_lit|]. intros nx.
  apply LkP_rbnd; [apply LkP_latch_init|]. intros init. apply LkP_pret.
Qed.

Lemma aig_latch_item maxc ml code lr v : wrt (aig_latch fuel maxc ml code) lr v (EntryQ v).
Proof.
  unfold aig_latch, code_plus_2.
  apply (wrt_rstep _ _ lr v v (EntryQ v) (Fl_refl v) (LkP_lit _ _) (EntryQ_err v)). intros nx lr1 v1 Hf1.
  unfold rbnd. apply wrt_pbnd. eapply wrt_conseq; [apply (latch_init_item ml code lr1 v v1 Hf1)|].
  intros [init|e] lr4 v4 Hi; [apply EntryQ_done; apply (Hi init); reflexivity|apply wrt_pret; apply EntryQ_err].
Qed.

(* ---------- a whole section ---------- *)
Lemma LkP_sloop {St : Type} (it : St -> PM (result (item * St) perr)) : (forall st, LkP (it st)) ->
  forall n left st acc, LkP (sloop n it left st acc).
Proof.
  intros Hit. induction n as [|n IH]; intros left st acc; cbn [sloop]; (destruct (left =? 0); [apply LkP_pret|]).
  - apply LkP_pnofuel.
  - apply LkP_pbnd; [apply Hit|]. intros [[x st']|e]; [apply IH|apply LkP_pret].
Qed.

(* a section that ran to its end: its last entry has been read to the end of its line and not beyond *)
Lemma sloop_item {St : Type} (it : St -> PM (result (item * St) perr)) :
  (forall st, LkP (it st)) -> (forall st lr v, wrt (it st) lr v (EntryQ v)) ->
  forall n left st acc lr v0 v, Fl v0 v -> (left = 0 -> ItemLk v0 v) ->
  wrt (sloop n it left st acc) lr v (fun r _ v' => snd r = None -> ItemLk v0 v').
Proof.
  intros HL Hit. induction n as [|n IH]; intros left st acc lr v0 v Hf H0; cbn [sloop];
    (destruct (left =? 0) eqn:E0; [apply N.eqb_eq in E0; apply wrt_pret; intros _; exact (H0 E0)|]).
  - apply wrt_pnofuel.
  - apply (wrt_stepQ fuel (it st) _ lr v0 v _ _ Hf (HL st) (Hit st lr v)). intros [[x st']|e] lr1 v1 Hf1 Hi1.
    + apply IH; [exact Hf1|]. intros _. eapply Fl_ItemLk; [exact Hf|apply (Hi1 (x, st')); reflexivity].
    + apply wrt_pret. cbn [snd]. intros E. discriminate.
Qed.

(* ================================================================== *)
(* 5. symbols, comment                                                  *)

Lemma LkP_sym_try count letter not_eol k : letter <> 10 -> LkP (sym_try fuel count letter not_eol k).
Proof.
  intros Hl. unfold sym_try, tok_err, tok_ft. destruct (0 <? count); [|apply LkP_pret].
  assert (Hne : [letter] <> []) by discriminate.
  assert (H10 : ~ In 10 [letter]) by (intros [H|[]]; congruence).
  apply LkP_pbnd; [destruct not_eol; [apply LkP_fixed_not_eol|apply LkP_tfixed]; assumption|].
  intros [[u|e]|]; [|apply LkP_pret..]. apply LkP_pbnd; [apply LkP_symbol_index|]. intros r. apply LkP_pret.
Qed.

Lemma LkP_or_parse_tok {A} (a b : tok A) : LkP a -> LkP b -> LkP (or_parse_tok a b).
Proof. intros Ha Hb. unfold or_parse_tok. apply LkP_pbnd; [exact Ha|]. intros [x|]; [apply LkP_pret|exact Hb]. Qed.

Lemma LkP_symbol_target h : LkP (symbol_target fuel h).
Proof.
  unfold symbol_target. repeat (apply LkP_or_parse_tok; [apply LkP_sym_try; lia|]). apply LkP_sym_try. lia.
Qed.

Lemma next_symbol_w h lr v :
  wrt (next_symbol fuel h) lr v (fun a _ v' => Lk v v' /\ forall s, a = Ok (Some s) -> ItemLk v v').
Proof.
  unfold next_symbol.
  apply (wrt_step fuel _ _ lr v v); [apply Fl_refl|apply LkP_symbol_target|]. intros t lr1 v1 Hf1.
  destruct t as [[[k i]|e]|]; [|apply wrt_pret; split; [apply Fl_Lk; exact Hf1|intros s E; discriminate]..].
  unfold rbnd. apply (wrt_step fuel _ _ lr1 v v1); [exact Hf1|apply LkP_required_space|]. intros [u|e] lr2 v2 Hf2;
    [|apply wrt_pret; split; [apply Fl_Lk; exact Hf2|intros s E; discriminate]].
  apply wrt_pbnd.
  eapply wrt_conseq; [apply wrt_and; [apply (wrt_tail_Fl fuel _ lr2 v v2 Hf2 LkP_remaining_line_content)|apply remaining_line_content_w]|].
  intros [name|e] lr3 v3 [Hf3 [_ Hi]].
  - apply wrt_pret. split; [apply Fl_Lk; exact Hf3|]. intros s _. eapply Fl_ItemLk; [exact Hf2|apply (Hi name); reflexivity].
  - apply wrt_pret. split; [apply Fl_Lk; exact Hf3|intros s E; discriminate].
Qed.

Lemma LkP_next_symbol h : LkP (next_symbol fuel h).
Proof. intros lr v. eapply wrt_conseq; [apply next_symbol_w|]. intros a lr' v' [H _]. exact H. Qed.

Lemma LkP_symbols_loop n : forall h acc, LkP (symbols_loop fuel n h acc).
Proof.
  induction n as [|n IH]; intros h acc; cbn [symbols_loop]; [apply LkP_pnofuel|].
  apply LkP_pbnd; [apply LkP_next_symbol|]. intros [[s|]|e]; [apply IH|apply LkP_pret..].
Qed.

(* the outcome of the rest of the file: when the parse ends well, the input has been read to its end, or to the LF that
   ends its last line, and not beyond *)
Definition FinQ (v0 : view) : list item * final -> lrs -> view -> Prop :=
  fun r _ v' => snd r = FOk -> ItemLk v0 v'.

(* ParseSymbols::comment: the comment is everything up to the end of the input *)
Lemma comment_section_item h lr v0 v : Fl v0 v -> wrt (comment_section fuel h) lr v (FinQ v0).
Proof.
  intros Hf. unfold comment_section.
  apply (wrt_step fuel _ _ lr v0 v); [exact Hf|apply LkP_symbols_loop|]. intros [[items u] oe] lr1 v1 Hf1.
  destruct oe as [err|]; [apply wrt_pret; intros E; discriminate|].
  apply (wrt_step fuel _ _ lr1 v0 v1); [exact Hf1|apply LkP_tfixed; [discriminate|intros [H|[]]; discriminate]|].
  intros c lr2 v2 Hf2. destruct c as [[u2|e]|].
  - apply wrt_pbnd.
    set (Q' := fun (r2 : result bytes perr) (_ : lrs) (v3 : view) => forall x, r2 = Ok x -> ItemLk v0 v3).
    assert (HE' : forall e lr3 v3, Q' (Err e) lr3 v3) by (intros e lr3 v3 x E; discriminate).
    eapply wrt_conseq; [apply (wrt_rstep _ _ lr2 v0 v2 Q' Hf2 LkP_required_newline HE')|].
    + intros _ lr3 v3 Hf3. eapply wrt_conseq; [apply remaining_file_content_item|]. intros a lr4 v4 Hi x E.
      eapply Fl_ItemLk; [exact Hf3|exact (Hi x E)].
    + intros [content|err] lr3 v3 Hq; apply wrt_pret; [intros _; apply (Hq content); reflexivity|intros E; discriminate].
  - apply wrt_pret. intros E. discriminate.
  - apply wrt_pbnd. unfold or_unexpected. apply wrt_pbnd. eapply wrt_conseq; [apply (teof_item fuel)|].
    intros r lr3 v3 Hi. destruct r as [[u3|e]|].
    + apply wrt_pret. apply wrt_pret. intros _. eapply Fl_ItemLk; [exact Hf2|apply (Hi u3); reflexivity].
    + apply wrt_pret. apply wrt_pret. intros E. discriminate.
    + apply wrt_pbnd. eapply wrt_conseq; [apply wrt_true|]. intros e lr4 v4 _. apply wrt_pret. apply wrt_pret. intros E. discriminate.
Qed.

Lemma sect_item {St : Type} (m : PM (list item * St * option perr)) (k : St -> PM (list item * final)) lr v0 v :
  Fl v0 v -> LkP m -> (forall st lr1 v1, Fl v0 v1 -> wrt (k st) lr1 v1 (FinQ v0)) -> wrt (sect m k) lr v (FinQ v0).
Proof.
  intros Hf Hm Hk. unfold sect. apply (wrt_step fuel _ _ lr v0 v); [exact Hf|exact Hm|].
  intros [[items st] e] lr1 v1 Hf1. destruct e as [err|]; [apply wrt_pret; intros E; discriminate|].
  apply wrt_pbnd. eapply wrt_conseq; [apply (Hk st lr1 v1 Hf1)|]. intros [items2 fin] lr2 v2 Hq. apply wrt_pret. exact Hq.
Qed.

(* the whole ascii parse *)
Lemma parse_aag_item maxc lr v : wrt (parse_aag fuel maxc) lr v (fun r _ v' => snd r = FOk -> ItemLk v v').
Proof.
  unfold parse_aag.
  apply (wrt_step fuel _ _ lr v v); [apply Fl_refl|apply LkP_parse_aheader; [discriminate|cbv; intuition discriminate]|].
  intros h lr1 v1 Hf1. unfold finish_parse. destruct h as [hd|e]; [|apply wrt_pret; intros E; discriminate].
  apply wrt_pbnd.
  apply (wrt_conseq fuel _ _ _ (FinQ v)); [|intros [items fin] lr2 v2 Hq; apply wrt_pret; exact Hq].
  apply sect_item; [exact Hf1|apply LkP_sloop; intros; apply LkP_lit_line|]. intros st2 lr2 v2 Hf2.
  apply sect_item; [exact Hf2|apply LkP_sloop; intros; apply LkP_aag_latch|]. intros st3 lr3 v3 Hf3.
  unfold middle_sections.
  apply sect_item; [exact Hf3|apply LkP_sloop; intros; apply LkP_lit_line|]. intros st4 lr4 v4 Hf4.
  apply sect_item; [exact Hf4|apply LkP_sloop; intros; apply LkP_lit_line|]. intros st5 lr5 v5 Hf5.
  apply sect_item; [exact Hf5|apply LkP_sloop; intros; apply LkP_lit_line|]. intros st6 lr6 v6 Hf6.
  apply sect_item; [exact Hf6|apply LkP_sloop; intros; apply LkP_justice_size|]. intros tot lr7 v7 Hf7.
  apply sect_item; [exact Hf7|apply LkP_sloop; intros; apply LkP_lit_line|]. intros st8 lr8 v8 Hf8.
  apply sect_item; [exact Hf8|apply LkP_sloop; intros; apply LkP_lit_line|]. intros st9 lr9 v9 Hf9.
  apply sect_item; [exact Hf9|apply LkP_sloop; intros; apply LkP_aag_and|]. intros st10 lr10 v10 Hf10.
  apply sect_item; [exact Hf10|apply LkP_symbols_loop|]. intros st11 lr11 v11 Hf11.
  apply comment_section_item. exact Hf11.
Qed.

End ALook.

(* ================================================================== *)
(* L1: the theorems, for every admissible run from any state satisfying KM *)

Lemma KM_Wv fuel lr v : KM fuel (vS v) lr v -> Wv fuel v.
Proof. intros HK. apply VOK_Wv. exact (KM_VOK fuel _ _ _ HK). Qed.

(* safety and the invariant from AigerSafe.v, the look-ahead bounds from above *)
Lemma entry_combine fuel {A} (m : PM (result A perr)) lr v (G : A -> lrs -> view -> Prop) (E : perr -> view -> Prop) r :
  Wv fuel v ->
  prt m lr v (fun a lr' v' => frame v v' /\ match a with Ok x => G x lr' v' | Err e => E e v' end) ->
  LkP fuel m -> wrt fuel m lr v (fun a _ v' => forall x, a = Ok x -> ItemLk v v') ->
  aruns (m lr) v r ->
  exists res lr' v', r = ADone (res, lr') v' /\ vS v' = vS v /\ vcur v <= vcur v' /\ Lk v v' /\
    match res with Ok x => G x lr' v' /\ ItemLk v v' | Err _ => True end.
Proof.
  intros HW Hs HL Hi Hr. destruct (prt_elim _ _ _ _ _ Hs Hr) as (res & lr' & v' & -> & (a1 & _ & a3) & Hres).
  exists res, lr', v'. split; [reflexivity|]. split; [exact a1|]. split; [exact a3|].
  split; [exact (HL lr v HW res lr' v' Hr)|]. destruct res as [x|e]; [|exact I].
  split; [exact Hres|exact (Hi HW _ lr' v' Hr x eq_refl)].
Qed.

(* Header::parse: when a header is returned, nothing beyond the LF of the header line has been asked for *)
Theorem aag_header_lookahead fuel (magic : bytes) maxc lr v r :
  magic <> [] -> ~ In 10 magic -> KM fuel (vS v) lr v -> aruns (parse_aheader fuel magic maxc lr) v r ->
  exists res lr' v', r = ADone (res, lr') v' /\ vS v' = vS v /\ vcur v <= vcur v' /\ Lk v v' /\
    match res with
    | Ok hd => (KM fuel (vS v) lr' v' /\ HdrOK maxc hd) /\ ItemLk v v'
    | Err _ => True
    end.
Proof.
  intros Hne H10 HK Hr.
  apply (entry_combine fuel (parse_aheader fuel magic maxc) lr v (fun hd lr' v' => KM fuel (vS v) lr' v' /\ HdrOK maxc hd)
           (EP (vS v)) r (KM_Wv fuel lr v HK)); [|apply LkP_parse_aheader; assumption|apply parse_aheader_item; assumption|exact Hr].
  exact (parse_aheader_ok fuel (vS v) magic maxc lr v Hne H10 HK).
Qed.
Print Assumptions aag_header_lookahead.

Corollary aag_header_lookahead_ascii fuel maxc lr v r :
  KM fuel (vS v) lr v -> aruns (parse_aheader fuel magic_ascii maxc lr) v r ->
  exists res lr' v', r = ADone (res, lr') v' /\ vS v' = vS v /\ vcur v <= vcur v' /\ Lk v v' /\
    match res with
    | Ok hd => (KM fuel (vS v) lr' v' /\ HdrOK maxc hd) /\ ItemLk v v'
    | Err _ => True
    end.
Proof. apply aag_header_lookahead; [discriminate|cbv; intuition discriminate]. Qed.
Print Assumptions aag_header_lookahead_ascii.

(* what an entry reader establishes besides the bound: the invariant again, progress *)
Definition EntryG (fuel : nat) {St : Type} (v : view) : item * St -> lrs -> view -> Prop :=
  fun _ lr' v' => KM fuel (vS v) lr' v' /\ vcur v < vcur v'.

(* a section of one literal per line: inputs, outputs, bad, constraints, justice literals, fairness *)
Theorem aag_entry_lookahead_lit_line fuel {St : Type} maxc ml asg mk (st : St) lr v r :
  KM fuel (vS v) lr v -> aruns (lit_line fuel maxc ml asg mk st lr) v r ->
  exists res lr' v', r = ADone (res, lr') v' /\ vS v' = vS v /\ vcur v <= vcur v' /\ Lk v v' /\
    match res with Ok x => EntryG fuel v x lr' v' /\ ItemLk v v' | Err _ => True end.
Proof.
  intros HK Hr.
  apply (entry_combine fuel (lit_line fuel maxc ml asg mk st) lr v (EntryG fuel v) (EP (vS v)) r (KM_Wv fuel lr v HK));
    [|apply LkP_lit_line|apply lit_line_item|exact Hr].
  eapply prt_conseq; [apply (lit_line_it fuel (vS v) maxc ml asg mk (fun _ => True) st [] lr v HK); [constructor|exact I]|].
  intros a lr' v' [Hf Ha]. split; [exact Hf|]. destruct a as [[x st']|e]; [|exact Ha].
  destruct Ha as (h1 & h2 & _). split; [exact h1|exact h2].
Qed.
Print Assumptions aag_entry_lookahead_lit_line.

Corollary aag_entry_lookahead_input fuel maxc ml (st : unit) lr v r :
  KM fuel (vS v) lr v -> aruns (lit_line fuel maxc ml true IInput st lr) v r ->
  exists res lr' v', r = ADone (res, lr') v' /\ vS v' = vS v /\ vcur v <= vcur v' /\ Lk v v' /\
    match res with Ok x => EntryG fuel v x lr' v' /\ ItemLk v v' | Err _ => True end.
Proof. apply aag_entry_lookahead_lit_line. Qed.
Print Assumptions aag_entry_lookahead_input.

Corollary aag_entry_lookahead_output fuel {St : Type} maxc ml (st : St) lr v r :
  KM fuel (vS v) lr v -> aruns (lit_line fuel maxc ml false IOutput st lr) v r ->
  exists res lr' v', r = ADone (res, lr') v' /\ vS v' = vS v /\ vcur v <= vcur v' /\ Lk v v' /\
    match res with Ok x => EntryG fuel v x lr' v' /\ ItemLk v v' | Err _ => True end.
Proof. apply aag_entry_lookahead_lit_line. Qed.
Print Assumptions aag_entry_lookahead_output.

Corollary aag_entry_lookahead_bad fuel {St : Type} maxc ml (st : St) lr v r :
  KM fuel (vS v) lr v -> aruns (lit_line fuel maxc ml false IBad st lr) v r ->
  exists res lr' v', r = ADone (res, lr') v' /\ vS v' = vS v /\ vcur v <= vcur v' /\ Lk v v' /\
    match res with Ok x => EntryG fuel v x lr' v' /\ ItemLk v v' | Err _ => True end.
Proof. apply aag_entry_lookahead_lit_line. Qed.
Print Assumptions aag_entry_lookahead_bad.

Corollary aag_entry_lookahead_constraint fuel {St : Type} maxc ml (st : St) lr v r :
  KM fuel (vS v) lr v -> aruns (lit_line fuel maxc ml false IConstraint st lr) v r ->
  exists res lr' v', r = ADone (res, lr') v' /\ vS v' = vS v /\ vcur v <= vcur v' /\ Lk v v' /\
    match res with Ok x => EntryG fuel v x lr' v' /\ ItemLk v v' | Err _ => True end.
Proof. apply aag_entry_lookahead_lit_line. Qed.
Print Assumptions aag_entry_lookahead_constraint.

Corollary aag_entry_lookahead_justice fuel {St : Type} maxc ml (st : St) lr v r :
  KM fuel (vS v) lr v -> aruns (lit_line fuel maxc ml false IJustice st lr) v r ->
  exists res lr' v', r = ADone (res, lr') v' /\ vS v' = vS v /\ vcur v <= vcur v' /\ Lk v v' /\
    match res with Ok x => EntryG fuel v x lr' v' /\ ItemLk v v' | Err _ => True end.
Proof. apply aag_entry_lookahead_lit_line. Qed.
Print Assumptions aag_entry_lookahead_justice.

Corollary aag_entry_lookahead_fairness fuel {St : Type} maxc ml (st : St) lr v r :
  KM fuel (vS v) lr v -> aruns (lit_line fuel maxc ml false IFairness st lr) v r ->
  exists res lr' v', r = ADone (res, lr') v' /\ vS v' = vS v /\ vcur v <= vcur v' /\ Lk v v' /\
    match res with Ok x => EntryG fuel v x lr' v' /\ ItemLk v v' | Err _ => True end.
Proof. apply aag_entry_lookahead_lit_line. Qed.
Print Assumptions aag_entry_lookahead_fairness.

(* next_justice_property_size *)
Theorem aag_entry_lookahead_justice_size fuel total lr v r :
  KM fuel (vS v) lr v -> aruns (justice_size fuel total lr) v r ->
  exists res lr' v', r = ADone (res, lr') v' /\ vS v' = vS v /\ vcur v <= vcur v' /\ Lk v v' /\
    match res with Ok x => EntryG fuel v x lr' v' /\ ItemLk v v' | Err _ => True end.
Proof.
  intros HK Hr.
  apply (entry_combine fuel (justice_size fuel total) lr v (EntryG fuel v) (EP (vS v)) r (KM_Wv fuel lr v HK));
    [|apply LkP_justice_size|apply justice_size_item|exact Hr].
  eapply prt_conseq; [apply (justice_size_it fuel (vS v) total [IJusticeSize total] lr v HK)|].
  - constructor; [exists total; reflexivity|constructor].
  - cbn [jsum]. lia.
  - intros a lr' v' [Hf Ha]. split; [exact Hf|]. destruct a as [[x st']|e]; [|exact Ha].
    destruct Ha as (h1 & h2 & _). split; [exact h1|exact h2].
Qed.
Print Assumptions aag_entry_lookahead_justice_size.

(* ascii next_latch: two or three fields *)
Theorem aag_entry_lookahead_latch fuel maxc ml (st : unit) lr v r :
  KM fuel (vS v) lr v -> aruns (aag_latch fuel maxc ml st lr) v r ->
  exists res lr' v', r = ADone (res, lr') v' /\ vS v' = vS v /\ vcur v <= vcur v' /\ Lk v v' /\
    match res with Ok x => EntryG fuel v x lr' v' /\ ItemLk v v' | Err _ => True end.
Proof.
  intros HK Hr.
  apply (entry_combine fuel (aag_latch fuel maxc ml st) lr v (EntryG fuel v) (EP (vS v)) r (KM_Wv fuel lr v HK));
    [|apply LkP_aag_latch|apply aag_latch_item|exact Hr].
  eapply prt_conseq; [apply (aag_latch_it fuel (vS v) maxc ml st [] lr v HK); constructor|].
  intros a lr' v' [Hf Ha]. split; [exact Hf|]. destruct a as [[x st']|e]; [|exact Ha].
  destruct Ha as (h1 & h2 & _). split; [exact h1|exact h2].
Qed.
Print Assumptions aag_entry_lookahead_latch.

(* ascii next_and_gate *)
Theorem aag_entry_lookahead_and fuel maxc ml (st : unit) lr v r :
  KM fuel (vS v) lr v -> aruns (aag_and fuel maxc ml st lr) v r ->
  exists res lr' v', r = ADone (res, lr') v' /\ vS v' = vS v /\ vcur v <= vcur v' /\ Lk v v' /\
    match res with Ok x => EntryG fuel v x lr' v' /\ ItemLk v v' | Err _ => True end.
Proof.
  intros HK Hr.
  apply (entry_combine fuel (aag_and fuel maxc ml st) lr v (EntryG fuel v) (EP (vS v)) r (KM_Wv fuel lr v HK));
    [|apply LkP_aag_and|apply aag_and_item|exact Hr].
  eapply prt_conseq; [apply (aag_and_it fuel (vS v) maxc ml st [] lr v HK); constructor|].
  intros a lr' v' [Hf Ha]. split; [exact Hf|]. destruct a as [[x st']|e]; [|exact Ha].
  destruct Ha as (h1 & h2 & _). split; [exact h1|exact h2].
Qed.
Print Assumptions aag_entry_lookahead_and.

(* binary next_latch (its tokens are those of the ascii format); the code is a u64 *)
Theorem aig_entry_lookahead_latch fuel maxc ml code lr v r :
  code < W64 -> KM fuel (vS v) lr v -> aruns (aig_latch fuel maxc ml code lr) v r ->
  exists res lr' v', r = ADone (res, lr') v' /\ vS v' = vS v /\ vcur v <= vcur v' /\ Lk v v' /\
    match res with Ok x => EntryG fuel v x lr' v' /\ ItemLk v v' | Err _ => True end.
Proof.
  intros Hcode HK Hr.
  apply (entry_combine fuel (aig_latch fuel maxc ml code) lr v (EntryG fuel v) (EP (vS v)) r (KM_Wv fuel lr v HK));
    [|apply LkP_aig_latch|apply aig_latch_item|exact Hr].
  eapply prt_conseq; [apply (aig_latch_it fuel (vS v) maxc ml code code [] lr v HK)|].
  - split; [constructor|]. change (nlen (@nil item)) with 0. rewrite N.mul_0_r, N.add_0_r.
    symmetry. apply N.mod_small. exact Hcode.
  - intros a lr' v' [Hf Ha]. split; [exact Hf|]. destruct a as [[x st']|e]; [|exact Ha].
    destruct Ha as (h1 & h2 & _). split; [exact h1|exact h2].
Qed.
Print Assumptions aig_entry_lookahead_latch.

(* next_symbol: a symbol line *)
Theorem aag_entry_lookahead_symbol fuel h lr v r :
  KM fuel (vS v) lr v -> aruns (next_symbol fuel h lr) v r ->
  exists res lr' v', r = ADone (res, lr') v' /\ vS v' = vS v /\ vcur v <= vcur v' /\ Lk v v' /\
    match res with
    | Ok (Some s) => KM fuel (vS v) lr' v' /\ vcur v < vcur v' /\ ItemLk v v'
    | Ok None => KM fuel (vS v) lr' v'
    | Err _ => True
    end.
Proof.
  intros HK Hr. pose proof (KM_Wv fuel lr v HK) as HW.
  destruct (prt_elim _ _ _ _ _ (next_symbol_ok fuel (vS v) h lr v HK) Hr) as (res & lr' & v' & -> & (a1 & _ & a3) & Hres).
  exists res, lr', v'. split; [reflexivity|]. split; [exact a1|]. split; [exact a3|].
  destruct (next_symbol_w fuel h lr v HW res lr' v' Hr) as [Hl Hi]. split; [exact Hl|].
  destruct res as [[s|]|e]; [|exact Hres|exact I]. destruct Hres as (h1 & h2 & _).
  split; [exact h1|]. split; [exact h2|apply (Hi s); reflexivity].
Qed.
Print Assumptions aag_entry_lookahead_symbol.

(* the comment section (and the end of a file without one): handed out when the input has ended *)
Theorem aag_comment_lookahead fuel h lr v r :
  KM fuel (vS v) lr v -> aruns (comment_section fuel h lr) v r ->
  exists items fin lr' v', r = ADone ((items, fin), lr') v' /\ vS v' = vS v /\ vcur v <= vcur v' /\
    (fin = FOk -> ItemLk v v').
Proof.
  intros HK Hr. pose proof (KM_Wv fuel lr v HK) as HW.
  destruct (prt_elim _ _ _ _ _ (comment_section_ok fuel (vS v) h lr v HK) Hr) as ([items fin] & lr' & v' & -> & (a1 & _ & a3) & Hres).
  exists items, fin, lr', v'. split; [reflexivity|]. split; [exact a1|]. split; [exact a3|].
  exact (comment_section_item fuel h lr v v (Fl_refl v) HW _ lr' v' Hr).
Qed.
Print Assumptions aag_comment_lookahead.

(* a whole section: whatever the outcome it stays in the line of its cursor; when it ran to its end, its last entry has
   been read to the end of its line and not beyond *)
Theorem aag_section_lookahead fuel {St : Type} (it : St -> PM (result (item * St) perr)) n left st lr v items st' oe lr' v' :
  (forall st, LkP fuel (it st)) -> (forall st lr v, wrt fuel (it st) lr v (EntryQ v)) ->
  Wv fuel v -> aruns (sloop n it left st [] lr) v (ADone ((items, st', oe), lr') v') ->
  Lk v v' /\ (oe = None -> 0 < left -> ItemLk v v').
Proof.
  intros HL Hit HW Hr. split; [exact (LkP_sloop fuel it HL n left st [] lr v HW _ lr' v' Hr)|].
  intros Hoe Hleft. assert (H0 : left = 0 -> ItemLk v v) by lia.
  exact (sloop_item fuel it HL Hit n left st [] lr v v (Fl_refl v) H0 HW _ lr' v' Hr Hoe).
Qed.
Print Assumptions aag_section_lookahead.

(* the whole ascii parse, trace free: a parse that ends well has read its input to the end -- the one request beyond the
   end is the one that discovered it -- and never asked for more *)
Theorem parse_aag_lookahead fuel maxc lr v r :
  KM fuel (vS v) lr v -> aruns (parse_aag fuel maxc lr) v r ->
  exists ohd items fin lr' v', r = ADone ((ohd, items, fin), lr') v' /\ vS v' = vS v /\ vcur v <= vcur v' /\
    (fin = FOk -> ItemLk v v').
Proof.
  intros HK Hr. pose proof (KM_Wv fuel lr v HK) as HW.
  destruct (prt_elim _ _ _ _ _ (parse_aag_ok fuel (vS v) maxc lr v HK) Hr) as ([[ohd items] fin] & lr' & v' & -> & (a1 & _ & a3) & Hres).
  exists ohd, items, fin, lr', v'. split; [reflexivity|]. split; [exact a1|]. split; [exact a3|].
  exact (parse_aag_item fuel maxc lr v HW _ lr' v' Hr).
Qed.
Print Assumptions parse_aag_lookahead.

(* ================================================================== *)
(* L2: the concrete reader *)

(* the state between two calls of the parser *)
Definition SessionA (fuel : nat) (lr : lrs) (s : rstate) (v : view) : Prop :=
  Rel s v /\ KM fuel (vS v) lr v /\ LineJ s v /\ Near v.

Lemma SessionA_init fuel (sr : source) (c : N) :
  NoLie (events sr) -> LineSrc sr -> 1 <= c ->
  Forall (fun b => b < 256) (fst (stream_of sr)) -> nlen (fst (stream_of sr)) < 2 ^ 62 -> (length (fst (stream_of sr)) < fuel)%nat ->
  SessionA fuel lrs_init (set_chunk (reader_init sr) c) (view_init (fst (stream_of sr)) (snd (stream_of sr))).
Proof.
  intros HN HL Hc Hb Hl Hf. destruct (Session_init fuel sr c HN HL Hc Hb Hl Hf) as (h1 & _ & h3 & h4).
  split; [exact h1|]. split; [apply KM_init; assumption|]. split; assumption.
Qed.

(* Every concrete run over a line source that hands out an item is an admissible abstract run; with the bound of L1,
   the reader then holds no byte beyond the item's last line: everything the source has delivered has been consumed. *)
Lemma item_line_by_line {A} (p : prog (result A perr * lrs)) (G : A -> lrs -> view -> Prop) s v x lr' s' :
  Rel s v -> LineJ s v -> Near v -> crun p s = CDone (Ok x, lr') s' ->
  (forall r, aruns p v r ->
     exists res lr2 v', r = ADone (res, lr2) v' /\ vS v' = vS v /\ vcur v <= vcur v' /\ Lk v v' /\
       match res with Ok y => G y lr2 v' /\ ItemLk v v' | Err _ => True end) ->
  exists v', aruns p v (ADone (Ok x, lr') v') /\ Rel s' v' /\ LineJ s' v' /\ Near v' /\ vS v' = vS v /\
             G x lr' v' /\ Lk v v' /\ ItemLk v v' /\ valid_len s' = 0 /\ nlen (g_delivered s') = vcur v'.
Proof.
  intros HR HJ HN Hc H.
  destruct (simulation_inv LineJ LineJ_peek LineJ_same p s v HR HJ) as (r & Hr & Href).
  destruct (H r Hr) as (res & lr2 & v' & -> & a1 & a3 & a4 & Hres).
  destruct Href as (s2 & Hc2 & HR' & HJ'). rewrite Hc in Hc2. inversion Hc2; subst res lr2 s2.
  exists v'. split; [exact Hr|]. destruct Hres as [HG Hi].
  split; [exact HR'|]. split; [exact HJ'|]. split; [eapply Near_Lk; eassumption|]. split; [exact a1|].
  split; [exact HG|]. split; [exact a4|]. split; [exact Hi|].
  pose proof (item_buffer_empty s' v v' HR' HJ' a1 HN Hi) as Hv. split; [exact Hv|].
  destruct HR' as [HR0 _]. pose proof (inv_count s' (r_inv _ _ HR0)). rewrite (r_cur _ _ HR0). lia.
Qed.

Theorem aag_header_line_by_line fuel maxc lr s v hd lr' s' :
  SessionA fuel lr s v -> crun (parse_aheader fuel magic_ascii maxc lr) s = CDone (Ok hd, lr') s' ->
  exists v', aruns (parse_aheader fuel magic_ascii maxc lr) v (ADone (Ok hd, lr') v') /\
             SessionA fuel lr' s' v' /\ Lk v v' /\ ItemLk v v' /\ valid_len s' = 0 /\ nlen (g_delivered s') = vcur v'.
Proof.
  intros (HR & HK & HJ & HN) Hc.
  destruct (item_line_by_line _ (fun hd lr2 v' => KM fuel (vS v) lr2 v' /\ HdrOK maxc hd) s v hd lr' s' HR HJ HN Hc)
    as (v' & Hr & HR' & HJ' & HN' & HS & [HK' _] & Hl & Hi & Hv & Hd).
  { intros r Hr. exact (aag_header_lookahead_ascii fuel maxc lr v r HK Hr). }
  exists v'. split; [exact Hr|]. rewrite <- HS in HK'.
  split; [split; [exact HR'|split; [exact HK'|split; assumption]]|]. split; [exact Hl|]. split; [exact Hi|]. split; assumption.
Qed.
Print Assumptions aag_header_line_by_line.

(* an entry reader: any program with the bound of L1 *)
Definition EntryLook (fuel : nat) {St : Type} (m : PM (result (item * St) perr)) : Prop :=
  forall lr v r, KM fuel (vS v) lr v -> aruns (m lr) v r ->
    exists res lr' v', r = ADone (res, lr') v' /\ vS v' = vS v /\ vcur v <= vcur v' /\ Lk v v' /\
      match res with Ok x => EntryG fuel v x lr' v' /\ ItemLk v v' | Err _ => True end.

Theorem aag_entry_line_by_line fuel {St : Type} (m : PM (result (item * St) perr)) lr s v x lr' s' :
  EntryLook fuel m -> SessionA fuel lr s v -> crun (m lr) s = CDone (Ok x, lr') s' ->
  exists v', aruns (m lr) v (ADone (Ok x, lr') v') /\
             SessionA fuel lr' s' v' /\ Lk v v' /\ ItemLk v v' /\ valid_len s' = 0 /\ nlen (g_delivered s') = vcur v'.
Proof.
  intros Hm (HR & HK & HJ & HN) Hc.
  destruct (item_line_by_line _ (EntryG fuel v) s v x lr' s' HR HJ HN Hc)
    as (v' & Hr & HR' & HJ' & HN' & HS & [HK' _] & Hl & Hi & Hv & Hd).
  { intros r Hr. exact (Hm lr v r HK Hr). }
  exists v'. split; [exact Hr|]. rewrite <- HS in HK'.
  split; [split; [exact HR'|split; [exact HK'|split; assumption]]|]. split; [exact Hl|]. split; [exact Hi|]. split; assumption.
Qed.
Print Assumptions aag_entry_line_by_line.

Lemma EntryLook_lit_line fuel {St : Type} maxc ml asg mk (st : St) : EntryLook fuel (lit_line fuel maxc ml asg mk st).
Proof. intros lr v r. apply aag_entry_lookahead_lit_line. Qed.
Lemma EntryLook_justice_size fuel total : EntryLook fuel (justice_size fuel total).
Proof. intros lr v r. apply aag_entry_lookahead_justice_size. Qed.
Lemma EntryLook_latch fuel maxc ml (st : unit) : EntryLook fuel (aag_latch fuel maxc ml st).
Proof. intros lr v r. apply aag_entry_lookahead_latch. Qed.
Lemma EntryLook_and fuel maxc ml (st : unit) : EntryLook fuel (aag_and fuel maxc ml st).
Proof. intros lr v r. apply aag_entry_lookahead_and. Qed.

(* next_symbol *)
Theorem aag_symbol_line_by_line fuel h lr s v sy lr' s' :
  SessionA fuel lr s v -> crun (next_symbol fuel h lr) s = CDone (Ok (Some sy), lr') s' ->
  exists v', aruns (next_symbol fuel h lr) v (ADone (Ok (Some sy), lr') v') /\
             SessionA fuel lr' s' v' /\ Lk v v' /\ ItemLk v v' /\ valid_len s' = 0 /\ nlen (g_delivered s') = vcur v'.
Proof.
  intros (HR & HK & HJ & HN) Hc.
  destruct (simulation_inv LineJ LineJ_peek LineJ_same (next_symbol fuel h lr) s v HR HJ) as (r & Hr & Href).
  destruct (aag_entry_lookahead_symbol fuel h lr v r HK Hr) as (res & lr2 & v' & -> & a1 & a3 & a4 & Hres).
  destruct Href as (s2 & Hc2 & HR' & HJ'). rewrite Hc in Hc2. inversion Hc2; subst res lr2 s2.
  exists v'. split; [exact Hr|]. destruct Hres as (HK' & _ & Hi). rewrite <- a1 in HK'.
  split; [split; [exact HR'|split; [exact HK'|split; [exact HJ'|eapply Near_Lk; eassumption]]]|]. split; [exact a4|].
  split; [exact Hi|].
  pose proof (item_buffer_empty s' v v' HR' HJ' a1 HN Hi) as Hv. split; [exact Hv|].
  destruct HR' as [HR0 _]. pose proof (inv_count s' (r_inv _ _ HR0)). rewrite (r_cur _ _ HR0). lia.
Qed.
Print Assumptions aag_symbol_line_by_line.

(* any honest source, any chunk size: if everything the call asks for had already been delivered when it began, the call
   does not touch the source *)
Theorem aag_entry_no_read_when_delivered fuel {St : Type} (m : PM (result (item * St) perr)) lr s v x lr' s' :
  EntryLook fuel m -> Rel s v -> KM fuel (vS v) lr v -> crun (m lr) s = CDone (Ok x, lr') s' ->
  exists v', aruns (m lr) v (ADone (Ok x, lr') v') /\ Rel s' v' /\ KM fuel (vS v') lr' v' /\ ItemLk v v' /\
             (vreq v' <= nlen (g_delivered s) -> g_delivered s' = g_delivered s /\ src s' = src s).
Proof.
  intros Hm HR HK Hc.
  destruct (simulation_inv (PQ (g_delivered s) (src s)) (PQ_peek _ _) (PQ_same _ _) (m lr) s v HR) as (r & Hr & Href);
    [intros _; split; reflexivity|].
  destruct (Hm lr v r HK Hr) as (res & lr2 & v' & -> & a1 & a3 & a4 & Hres).
  destruct Href as (s2 & Hc2 & HR' & HP'). rewrite Hc in Hc2. inversion Hc2; subst res lr2 s2.
  exists v'. split; [exact Hr|]. destruct Hres as ([HK' _] & Hi). rewrite <- a1 in HK'.
  split; [exact HR'|]. split; [exact HK'|]. split; [exact Hi|exact HP'].
Qed.
Print Assumptions aag_entry_no_read_when_delivered.

(* ================================================================== *)
(* examples: the bounds are attained, the hypotheses are satisfiable *)

(* "aag 1 1 0 1 0\n2\n2\ni0 x\n": after the header, after each entry and after the symbol the cursor stands behind the LF
   and nothing more has been asked for *)
Definition exa_data : bytes :=
  [97; 97; 103; 32; 49; 32; 49; 32; 48; 32; 49; 32; 48; 10; 50; 10; 50; 10; 105; 48; 32; 120; 10].

Example look_aag_entries :
  match srun (parse_aheader 100 magic_ascii 4294967295 lrs_init) (view_init exa_data None) with
  | ADone (Ok hd, lr) v1 =>
      (vcur v1, vreq v1) = (14, 14) /\
      match srun (lit_line 100 4294967295 3 true IInput tt lr) v1 with
      | ADone (Ok _, lr2) v2 =>
          (vcur v2, vreq v2) = (16, 16) /\
          match srun (lit_line 100 4294967295 3 false IOutput tt lr2) v2 with
          | ADone (Ok _, lr3) v3 =>
              (vcur v3, vreq v3) = (18, 18) /\
              match srun (next_symbol 100 hd lr3) v3 with
              | ADone (Ok (Some _), _) v4 => (vcur v4, vreq v4) = (23, 23)
              | _ => False
              end
          | _ => False
          end
      | _ => False
      end
  | _ => False
  end.
Proof. vm_compute. repeat split. Qed.

(* one line per read: after the header exactly the header line has been read (one read), after the input two lines (two
   reads); the buffer is empty each time *)
Definition exa_lines : source :=
  {| prebuf := []; data := exa_data; events := [Deliver 14; Deliver 2; Deliver 2; Deliver 5] |}.

Example exa_lines_LineSrc : LineSrc exa_lines.
Proof.
  split; [reflexivity|]. cbn [exa_lines events data line_sched].
  split; [apply lf_lastb_ok; vm_compute; reflexivity|].
  split; [apply lf_lastb_ok; vm_compute; reflexivity|].
  split; [apply lf_lastb_ok; vm_compute; reflexivity|].
  split; [apply lf_lastb_ok; vm_compute; reflexivity|].
  apply lf_lastb_ok. vm_compute. reflexivity.
Qed.

Example exa_line_by_line :
  match crun (parse_aheader 100 magic_ascii 4294967295 lrs_init) (set_chunk (reader_init exa_lines) 16384) with
  | CDone (Ok hd, lr) s1 =>
      (nlen (g_delivered s1), g_calls s1, valid_len s1) = (14, 1, 0) /\
      match crun (lit_line 100 4294967295 3 true IInput tt lr) s1 with
      | CDone (Ok _, _) s2 => (nlen (g_delivered s2), g_calls s2, valid_len s2) = (16, 2, 0)
      | _ => False
      end
  | _ => False
  end.
Proof. vm_compute. split; reflexivity. Qed.

(* the comment section is the rest of the file, not a line: "c\nab\ncd" is handed out only when the input has ended; by
   then everything up to the end (and the one position beyond it) has been asked for -- as the format demands, and the
   reason why the comment reader has no per-line bound (an error in it -- invalid UTF-8, an I/O error -- is likewise
   reported only after the whole rest of the file has been requested) *)
Example look_aag_comment :
  let S := [99; 10; 97; 98; 10; 99; 100; 10] in
  match srun (comment_section 100 (mk_header 0 0 0 0 0 0 0 0 0) lrs_init) (view_init S None) with
  | ADone (([IComment _], FOk), _) v1 => (vcur v1, vreq v1, nlen S) = (8, 9, 8)
  | _ => False
  end.
Proof. vm_compute. reflexivity. Qed.
