(* RenumberProofs.v — proofs about the renumbering machine of Renumber.v (property C12). *)
From stdpp Require Import gmap.
From Coq Require Import NArith List Lia Bool.
From Flussab Require Import Aig Renumber.
Import ListNotations.
Local Open Scope N_scope.
Local Arguments N.of_nat : simpl never.
Local Arguments N.add : simpl never.
Local Arguments N.mul : simpl never.
Local Arguments N.sub : simpl never.

(* ------------------------------------------------------------ literal arithmetic *)

Lemma lkey_spec l : lkey l = 2 * N.div2 l.
Proof. destruct l as [|[p|p|]]; reflexivity. Qed.

Lemma lpol_spec l : lpol l = N.b2n (N.odd l).
Proof. destruct l as [|[p|p|]]; reflexivity. Qed.

Lemma lneg_div2 l : N.div2 (lneg l) = N.div2 l.
Proof. destruct l as [|[p|p|]]; reflexivity. Qed.

Lemma lneg_odd l : N.odd (lneg l) = negb (N.odd l).
Proof. destruct l as [|[p|p|]]; reflexivity. Qed.

Lemma lxor_b2n_div2 v b : N.div2 (N.lxor v (N.b2n b)) = N.div2 v.
Proof. destruct b, v as [|[p|p|]]; reflexivity. Qed.

Lemma lxor_b2n_odd v b : N.odd (N.lxor v (N.b2n b)) = xorb (N.odd v) b.
Proof. destruct b, v as [|[p|p|]]; reflexivity. Qed.

Lemma lit_ext a b : N.div2 a = N.div2 b -> N.odd a = N.odd b -> a = b.
Proof.
  intros H1 H2. rewrite (N.div2_odd a), (N.div2_odd b), H1, H2. reflexivity.
Qed.

Lemma div2_double n : N.div2 (2 * n) = n.
Proof. destruct n; reflexivity. Qed.

Lemma odd_double n : N.odd (2 * n) = false.
Proof. destruct n; reflexivity. Qed.

Lemma lit_le_div2 v m : N.div2 v <= m <-> v < 2 * m + 2.
Proof. rewrite (N.div2_odd v) at 2. destruct (N.odd v); simpl N.b2n; lia. Qed.

Lemma even_double v : N.odd v = false -> v = 2 * N.div2 v.
Proof. intros H. rewrite (N.div2_odd v) at 1. rewrite H. simpl. lia. Qed.

(* the value of a literal under a valuation of the variables *)
Definition lit_val (f : N -> bool) (l : lit) : bool := xorb (f (N.div2 l)) (N.odd l).

Lemma lit_val_lxor f v b : lit_val f (N.lxor v (N.b2n b)) = xorb (lit_val f v) b.
Proof.
  unfold lit_val. rewrite lxor_b2n_div2, lxor_b2n_odd. destruct (f (N.div2 v)), (N.odd v), b; reflexivity.
Qed.

(* the returned literal [code ^ lit ^ output] *)
Definition out_ok (l : lit) (d : and_gate) : Prop := g_out d = l \/ g_out d = lneg l.

Lemma lpol_lneg_lxor l : N.lxor (lpol (lneg l)) (lpol l) = 1.
Proof. destruct l as [|[p|p|]]; reflexivity. Qed.

Lemma lxor_same_low c l o :
  out_ok l (AndGate 0 0 o) ->
  N.lxor (N.lxor c l) o = N.lxor (N.lxor c (lpol o)) (lpol l).
Proof.
  unfold out_ok; simpl. intros [->| ->].
  - rewrite !N.lxor_assoc, !N.lxor_nilpotent. reflexivity.
  - rewrite !N.lxor_assoc, lpol_lneg_lxor. unfold lneg.
    rewrite (N.lxor_comm 1 l), <- (N.lxor_assoc l l), N.lxor_nilpotent, N.lxor_0_l. reflexivity.
Qed.

(* ------------------------------------------------------------ LitMap *)

Lemma lkey_eq_iff k l : lkey k = lkey l <-> N.div2 k = N.div2 l.
Proof. rewrite !lkey_spec. lia. Qed.

Lemma lm_get_insert_same m k v l :
  N.div2 l = N.div2 k ->
  lm_get (lm_insert m k v) l = Some (N.lxor (N.lxor v (lpol k)) (lpol l)).
Proof.
  intros H. unfold lm_get, lm_insert. apply lkey_eq_iff in H. rewrite H, lookup_insert. reflexivity.
Qed.

Lemma lm_get_insert_other m k v l :
  N.div2 l <> N.div2 k -> lm_get (lm_insert m k v) l = lm_get m l.
Proof.
  intros H. unfold lm_get, lm_insert. rewrite lookup_insert_ne; [reflexivity|].
  intros E. apply H. symmetry. apply lkey_eq_iff. exact E.
Qed.

Lemma lm_get_Some m l t :
  lm_get m l = Some t <-> exists f, m !! lkey l = Some f /\ t = N.lxor f (lpol l).
Proof.
  unfold lm_get. destruct (m !! lkey l) as [f|].
  - split; [intros [= <-]; eauto | intros (f' & [= <-] & ->); reflexivity].
  - split; [discriminate | intros (f' & [=] & _)].
Qed.

Lemma lm_get_None m l : lm_get m l = None <-> m !! lkey l = None.
Proof. unfold lm_get. destruct (m !! lkey l); split; congruence. Qed.

Lemma lm_get_div2 m l t : lm_get m l = Some t -> exists f, m !! lkey l = Some f /\ N.div2 t = N.div2 f.
Proof.
  intros (f & Hf & ->)%lm_get_Some. exists f. split; [exact Hf|].
  rewrite lpol_spec. apply lxor_b2n_div2.
Qed.

(* ------------------------------------------------------------ definitions found by the machine *)

Definition defs_sound (a : aig) (defs : defs_t) : Prop :=
  forall o x y, defs !! o = Some (DGate x y) -> In (AndGate x y o) (a_gates a).

Lemma find_def_sound a defs l d :
  defs_sound a defs -> find_def defs l = Some d -> In d (a_gates a) /\ out_ok l d.
Proof.
  intros Hd. unfold find_def, out_ok.
  destruct (defs !! lneg l) as [[| |x y]|] eqn:E1;
    try (destruct (defs !! l) as [[| |x' y']|] eqn:E2; try discriminate; intros [= <-]; simpl;
         split; [apply Hd; exact E2 | left; reflexivity]).
  intros [= <-]. simpl. split; [apply Hd; exact E1 | right; reflexivity].
Qed.

(* ------------------------------------------------------------ structure and order invariant *)

Definition maxv (base : N) (r : rstate) : N := base + N.of_nat (length (r_gates r)).

Fixpoint gates_ok (base : N) (gs : list (lit * lit)) : Prop :=
  match gs with
  | [] => True
  | (x, y) :: rest => N.div2 x <= base + N.of_nat (length rest) /\ y <= x /\ gates_ok base rest
  end.

Record ginv (a : aig) (base : N) (r : rstate) : Prop := GInv {
  gi_defs : defs_sound a (r_defs r);
  gi_last : r_last r = 2 * maxv base r;
  gi_map : forall k f, r_map r !! k = Some f -> N.div2 f <= maxv base r;
  gi_index : forall ab c, r_index r !! ab = Some c -> N.div2 c <= maxv base r;
  gi_gates : gates_ok base (r_gates r);
}.

Definition want (k : cont) : lit :=
  match k with KInput0 _ d => g_in0 d | KInput1 _ d => g_in1 d end.

Definition want_top (s : list cont) (l0 : lit) : lit :=
  match s with [] => l0 | k :: _ => want k end.

(* [m] is the current number of variables; it only grows *)
Definition frame_ok (a : aig) (m : N) (k : cont) : Prop :=
  match k with
  | KInput0 l d => In d (a_gates a) /\ out_ok l d
  | KInput1 l d =>
    (exists a0, In (AndGate a0 (g_in1 d) (g_out d)) (a_gates a)) /\ out_ok l d /\ N.div2 (g_in0 d) <= m
  end.

Fixpoint chain_ok (a : aig) (m : N) (l0 : lit) (s : list cont) : Prop :=
  match s with
  | [] => True
  | k :: rest => frame_ok a m k /\ cont_lit k = want_top rest l0 /\ chain_ok a m l0 rest
  end.

Definition state_ok (a : aig) (m : N) (l0 : lit) (s : tstate) (r : rstate) : Prop :=
  chain_ok a m l0 (r_stack r) /\
  match s with
  | STransfer l => l = want_top (r_stack r) l0
  | SInput0 l d t => frame_ok a m (KInput0 l d) /\ l = want_top (r_stack r) l0 /\ N.div2 t <= m
  | SInput1 l d t => frame_ok a m (KInput1 l d) /\ l = want_top (r_stack r) l0 /\ N.div2 t <= m
  | SReturn t => lm_get (r_map r) (want_top (r_stack r) l0) = Some t
  end.

Definition Inv (a : aig) (base : N) (l0 : lit) (s : tstate) (r : rstate) : Prop :=
  ginv a base r /\ state_ok a (maxv base r) l0 s r.

Lemma frame_ok_mono a m m' k : m <= m' -> frame_ok a m k -> frame_ok a m' k.
Proof. intros Hm. destruct k; simpl; [tauto|]. intros (H1 & H2 & H3). repeat split; try assumption. lia. Qed.

Lemma chain_ok_mono a m m' l0 s : m <= m' -> chain_ok a m l0 s -> chain_ok a m' l0 s.
Proof.
  intros Hm. induction s as [|k s IH]; simpl; [trivial|].
  intros (H1 & H2 & H3). eauto using frame_ok_mono.
Qed.

Lemma gate_eta d : AndGate (g_in0 d) (g_in1 d) (g_out d) = d.
Proof. destruct d; reflexivity. Qed.

Lemma sort2_spec x t a b :
  sort2 x t = (a, b) -> b <= a /\ ((a = x /\ b = t) \/ (a = t /\ b = x)).
Proof.
  unfold sort2. destruct (N.ltb_spec x t); intros [= <- <-]; split; try lia; tauto.
Qed.

Lemma fold_gate_spec a b f :
  fold_gate a b = Some f -> f = 0 \/ f = a \/ f = b.
Proof.
  unfold fold_gate.
  destruct (N.eqb a 0 || N.eqb b 0); [intros [= <-]; tauto|].
  destruct (N.eqb a 1 || N.eqb a b); [intros [= <-]; tauto|].
  destruct (N.eqb b 1); [intros [= <-]; tauto|discriminate].
Qed.

Lemma ginv_push a base k r : ginv a base r -> ginv a base (push k r).
Proof. intros [H1 H2 H3 H4 H5]. constructor; assumption. Qed.

Lemma ginv_set_stack a base s r : ginv a base r -> ginv a base (set_stack s r).
Proof. intros [H1 H2 H3 H4 H5]. constructor; assumption. Qed.

(* storing a value for the output of a finished gate *)
Lemma ginv_set_map a base r out v :
  ginv a base r -> N.div2 v <= maxv base r -> ginv a base (set_map (lm_insert (r_map r) out v) r).
Proof.
  intros [H1 H2 H3 H4 H5] Hv. constructor; try assumption.
  intros k f. simpl. unfold lm_insert. destruct (decide (k = lkey out)) as [->|Hne].
  - rewrite lookup_insert. intros [= <-]. unfold maxv; simpl. rewrite lpol_spec, lxor_b2n_div2. exact Hv.
  - rewrite lookup_insert_ne by congruence. apply H3.
Qed.

(* a fresh gate *)
Lemma ginv_emit a base r x y idx :
  ginv a base r -> N.div2 x <= maxv base r -> y <= x ->
  (forall ab c, idx !! ab = Some c -> N.div2 c <= maxv base r + 1) ->
  ginv a base (snd (emit x y r idx)) /\
  fst (emit x y r idx) = 2 * (maxv base r + 1) /\
  maxv base (snd (emit x y r idx)) = maxv base r + 1.
Proof.
  intros [H1 H2 H3 H4 H5] Hx Hy Hidx.
  assert (Hm : maxv base (snd (emit x y r idx)) = maxv base r + 1).
  { unfold maxv, emit; simpl. rewrite Nat2N.inj_succ. lia. }
  split; [|split; [unfold emit; simpl; rewrite H2; lia | exact Hm]].
  constructor.
  - exact H1.
  - rewrite Hm. unfold emit; simpl. rewrite H2. lia.
  - rewrite Hm. intros k f Hk. apply H3 in Hk. lia.
  - rewrite Hm. exact Hidx.
  - simpl. repeat split; assumption.
Qed.

Lemma emit_fields x y r idx code r1 :
  emit x y r idx = (code, r1) -> r_stack r1 = r_stack r /\ r_map r1 = r_map r.
Proof. unfold emit. intros [= <- <-]. split; reflexivity. Qed.

Lemma state_return a base l0 l d r r' code :
  out_ok l d -> l = want_top (r_stack r) l0 ->
  r_stack r' = r_stack r -> r_map r' = lm_insert (r_map r) (g_out d) code ->
  chain_ok a (maxv base r') l0 (r_stack r') ->
  state_ok a (maxv base r') l0 (SReturn (N.lxor (N.lxor code l) (g_out d))) r'.
Proof.
  intros Ho Hl Hs Hm Hc. split; [exact Hc|]. simpl. rewrite Hs, <- Hl, Hm.
  rewrite lm_get_insert_same.
  - f_equal. symmetry. apply lxor_same_low. exact Ho.
  - destruct Ho as [->| ->]; [reflexivity|]. symmetry. apply lneg_div2.
Qed.

Lemma step_inv a base l0 s r s' r' :
  Inv a base l0 s r -> rstep s r = Next s' r' -> Inv a base l0 s' r'.
Proof.
  intros [G S] H. destruct s as [l|l d t|l d t|t]; simpl in H.
  - (* Transfer *)
    destruct S as [Hc Hl].
    destruct (lm_get (r_map r) l) as [t|] eqn:Eg.
    + injection H as <- <-. split; [exact G|]. split; [exact Hc|]. simpl. rewrite <- Hl. exact Eg.
    + destruct (cycle_test (r_stack r) l); [discriminate|].
      destruct (find_def (r_defs r) l) as [d|] eqn:Ed; [|discriminate].
      injection H as <- <-.
      destruct (find_def_sound _ _ _ _ (gi_defs _ _ _ G) Ed) as [Hin Hout].
      split; [apply ginv_push; exact G|].
      split; simpl; [|reflexivity]. repeat split; assumption.
  - (* Input0 *)
    destruct S as (Hc & (Hin & Hout) & Hl & Ht).
    injection H as <- <-.
    split; [apply ginv_push; exact G|].
    split; simpl; [|reflexivity].
    repeat split; try assumption.
    exists (g_in0 d). rewrite gate_eta. exact Hin.
  - (* Input1 *)
    destruct S as (Hc & ((a0 & Hin) & Hout & Hv0) & Hl & Ht).
    destruct (sort2 (g_in0 d) t) as [x y] eqn:Es.
    destruct (sort2_spec _ _ _ _ Es) as [Hyx Hxy].
    assert (Hx : N.div2 x <= maxv base r) by (destruct Hxy as [[-> ->]|[-> ->]]; assumption).
    assert (Hy : N.div2 y <= maxv base r) by (destruct Hxy as [[-> ->]|[-> ->]]; assumption).
    destruct (if c_fold (r_cfg r) then fold_gate x y else None) as [folded|] eqn:Ef.
    + (* const_fold *)
      injection H as <- <-.
      assert (Hfv : N.div2 folded <= maxv base r).
      { destruct (c_fold (r_cfg r)); [|discriminate].
        destruct (fold_gate_spec _ _ _ Ef) as [->|[->| ->]]; try assumption. simpl. lia. }
      split; [apply ginv_set_map; assumption|].
      apply (state_return a base l0 l d r); try assumption; reflexivity.
    + destruct (c_strash (r_cfg r)).
      * destruct (r_index r !! (x, y)) as [c|] eqn:Ei.
        -- (* structural hash hit *)
           injection H as <- <-.
           split; [apply ginv_set_map; [assumption | eapply gi_index; eassumption]|].
           apply (state_return a base l0 l d r); try assumption; reflexivity.
        -- (* fresh gate, remembered *)
           destruct (emit x y r (<[(x, y):=r_last r + 2]> (r_index r))) as [code r1] eqn:Ee.
           injection H as <- <-.
           destruct (ginv_emit a base r x y (<[(x, y):=r_last r + 2]> (r_index r)) G Hx Hyx) as (G1 & Hcode & Hm1).
           { intros ab c. destruct (decide (ab = (x, y))) as [->|Hne].
             - rewrite lookup_insert. intros [= <-]. rewrite (gi_last _ _ _ G).
               replace (2 * maxv base r + 2) with (2 * (maxv base r + 1)) by lia. rewrite div2_double. lia.
             - rewrite lookup_insert_ne by congruence. intros Hc'. eapply gi_index in Hc'; [|exact G]. lia. }
           rewrite Ee in G1, Hcode, Hm1. simpl in G1, Hcode, Hm1.
           split.
           ++ apply ginv_set_map; [exact G1|]. rewrite Hcode, div2_double. lia.
           ++ destruct (emit_fields _ _ _ _ _ _ Ee) as (Hst & Hmp).
              apply (state_return a base l0 l d r); try assumption.
              ** simpl. rewrite Hmp. reflexivity.
              ** simpl. rewrite Hst. change (maxv base (set_map (lm_insert (r_map r1) (g_out d) code) r1)) with (maxv base r1).
                 rewrite Hm1. eapply chain_ok_mono; [|exact Hc]. lia.
      * (* fresh gate *)
        destruct (emit x y r (r_index r)) as [code r1] eqn:Ee.
        injection H as <- <-.
        destruct (ginv_emit a base r x y (r_index r) G Hx Hyx) as (G1 & Hcode & Hm1).
        { intros ab c Hc'. eapply gi_index in Hc'; [|exact G]. lia. }
        rewrite Ee in G1, Hcode, Hm1. simpl in G1, Hcode, Hm1.
        split.
        -- apply ginv_set_map; [exact G1|]. rewrite Hcode, div2_double. lia.
        -- destruct (emit_fields _ _ _ _ _ _ Ee) as (Hst & Hmp).
           apply (state_return a base l0 l d r); try assumption.
           ++ simpl. rewrite Hmp. reflexivity.
           ++ simpl. rewrite Hst. change (maxv base (set_map (lm_insert (r_map r1) (g_out d) code) r1)) with (maxv base r1).
              rewrite Hm1. eapply chain_ok_mono; [|exact Hc]. lia.
  - (* Return *)
    destruct S as [Hc Hg].
    destruct (r_stack r) as [|k rest] eqn:Est; [discriminate|].
    destruct Hc as (Hf & Hk & Hc).
    assert (Ht : N.div2 t <= maxv base r).
    { apply lm_get_div2 in Hg. destruct Hg as (f & Hf' & ->). eapply gi_map; eassumption. }
    destruct k as [l d|l d]; injection H as <- <-.
    + split; [apply ginv_set_stack; exact G|]. split; [exact Hc|]. simpl. repeat split; try assumption; apply Hf.
    + split; [apply ginv_set_stack; exact G|]. split; [exact Hc|]. simpl. repeat split; try assumption; apply Hf.
Qed.

(* ------------------------------------------------------------ what a step never changes *)

Definition ext (r r' : rstate) : Prop :=
  r_cfg r' = r_cfg r /\ r_defs r' = r_defs r /\
  (forall k, is_Some (r_map r !! k) -> is_Some (r_map r' !! k)).

Lemma ext_refl r : ext r r.
Proof. repeat split; auto. Qed.

Lemma ext_trans r1 r2 r3 : ext r1 r2 -> ext r2 r3 -> ext r1 r3.
Proof. intros (A1 & A2 & A3) (B1 & B2 & B3). repeat split; try congruence. auto. Qed.

Lemma insert_keeps (m : gmap N N) k v k' : is_Some (m !! k') -> is_Some (<[k := v]> m !! k').
Proof.
  intros H. destruct (decide (k' = k)) as [->|Hne].
  - rewrite lookup_insert. eauto.
  - rewrite lookup_insert_ne by congruence. exact H.
Qed.

Lemma step_ext s r s' r' : rstep s r = Next s' r' -> ext r r'.
Proof.
  intros H. destruct s as [l|l d t|l d t|t]; simpl in H.
  - destruct (lm_get (r_map r) l); [injection H as <- <-; apply ext_refl|].
    destruct (cycle_test (r_stack r) l); [discriminate|].
    destruct (find_def (r_defs r) l); [|discriminate].
    injection H as <- <-. repeat split; auto.
  - injection H as <- <-. repeat split; auto.
  - destruct (sort2 (g_in0 d) t) as [x y].
    destruct (if c_fold (r_cfg r) then fold_gate x y else None).
    + injection H as <- <-. repeat split; auto. intros k. simpl. apply insert_keeps.
    + destruct (c_strash (r_cfg r)); [destruct (r_index r !! (x, y))|];
        injection H as <- <-; repeat split; auto; intros k; simpl; apply insert_keeps.
  - destruct (r_stack r) as [|[l d|l d] rest]; [discriminate| |]; injection H as <- <-; repeat split; auto.
Qed.

Lemma run_inv a base l0 fuel : forall s r, Inv a base l0 s r ->
  match run fuel s r with
  | TDone t r' => ginv a base r' /\ r_stack r' = [] /\ lm_get (r_map r') l0 = Some t /\ ext r r'
  | TErr e => exists s0 r0, Inv a base l0 s0 r0 /\ rstep s0 r0 = Failed e /\ ext r r0
  | TOutOfFuel => True
  end.
Proof.
  induction fuel as [|fuel IH]; intros s r HI; simpl; [trivial|].
  destruct (rstep s r) as [s' r'|t r'|e] eqn:Hs.
  - specialize (IH s' r' (step_inv _ _ _ _ _ _ _ HI Hs)).
    pose proof (step_ext _ _ _ _ Hs) as He.
    destruct (run fuel s' r') as [t r''|e|]; [| |trivial].
    + destruct IH as (A & B & C & D). exact (conj A (conj B (conj C (ext_trans _ _ _ He D)))).
    + destruct IH as (s0 & r0 & A & B & C). exists s0, r0. exact (conj A (conj B (ext_trans _ _ _ He C))).
  - destruct s as [l|l d t'|l d t'|t']; simpl in Hs.
    + destruct (lm_get (r_map r) l); [discriminate|]. destruct (cycle_test (r_stack r) l); [discriminate|].
      destruct (find_def (r_defs r) l); discriminate.
    + discriminate.
    + destruct (sort2 (g_in0 d) t') as [x y].
      destruct (if c_fold (r_cfg r) then fold_gate x y else None); [discriminate|].
      destruct (c_strash (r_cfg r)); [destruct (r_index r !! (x, y))|]; discriminate.
    + destruct HI as [G [Hc Hg]]. destruct (r_stack r) as [|[l d|l d] rest] eqn:Est; try discriminate.
      injection Hs as <- <-. exact (conj G (conj Est (conj Hg (ext_refl _)))).
  - exists s, r. exact (conj HI (conj Hs (ext_refl _))).
Qed.

(* ------------------------------------------------------------ lit_defs *)

Lemma NoDup_app_intro {A} (l1 l2 : list A) :
  List.NoDup l1 -> List.NoDup l2 -> (forall x, In x l1 -> ~ In x l2) -> List.NoDup (l1 ++ l2).
Proof.
  induction l1 as [|x l1 IH]; simpl; intros H1 H2 H; [exact H2|].
  inversion H1; subst. constructor.
  - intros Hin. apply in_app_or in Hin. destruct Hin as [Hin|Hin]; [contradiction|]. apply (H x); [left; reflexivity|exact Hin].
  - apply IH; [assumption|assumption|]. intros y Hy. apply H. right. exact Hy.
Qed.

Lemma same_var k l : N.div2 k = N.div2 l -> k = l \/ k = lneg l.
Proof.
  intros H. destruct (Bool.bool_dec (N.odd k) (N.odd l)) as [E|E].
  - left. apply lit_ext; assumption.
  - right. apply lit_ext; [rewrite lneg_div2; exact H|].
    rewrite lneg_odd. destruct (N.odd k), (N.odd l); try reflexivity; exfalso; apply E; reflexivity.
Qed.

(* variable [v] has an entry in the table *)
Definition has_var (d : gmap N lit_def) (v : N) : Prop := exists k, is_Some (d !! k) /\ N.div2 k = v.

Lemma def_insert_ok d l x d' :
  def_insert d l x = ROk d' -> ~ has_var d (N.div2 l) /\ d' = <[l := x]> d.
Proof.
  unfold def_insert. destruct (d !! lneg l) eqn:E1; [discriminate|].
  destruct (d !! l) eqn:E2; [discriminate|]. intros [= <-]. split; [|reflexivity].
  intros (k & [y Hk] & Hv). destruct (same_var _ _ Hv) as [->| ->]; congruence.
Qed.

Lemma def_insert_err d l x e :
  def_insert d l x = RErr e -> has_var d (N.div2 l) /\ e = LitAlreadyDefined l.
Proof.
  unfold def_insert. destruct (d !! lneg l) eqn:E1.
  - intros [= <-]. split; [|reflexivity]. exists (lneg l). split; [eauto|apply lneg_div2].
  - destruct (d !! l) eqn:E2; [|discriminate]. intros [= <-]. split; [|reflexivity]. exists l. split; [eauto|reflexivity].
Qed.

Lemma has_var_insert d l x v : has_var (<[l := x]> d) v <-> has_var d v \/ v = N.div2 l.
Proof.
  split.
  - intros (k & Hk & <-). destruct (decide (k = l)) as [->|Hne]; [right; reflexivity|].
    left. exists k. rewrite lookup_insert_ne in Hk by congruence. split; [exact Hk|reflexivity].
  - intros [(k & Hk & <-)| ->].
    + exists k. split; [|reflexivity]. destruct (decide (k = l)) as [->|Hne].
      * rewrite lookup_insert; eauto.
      * rewrite lookup_insert_ne by congruence. exact Hk.
    + exists l. rewrite lookup_insert. split; [eauto|reflexivity].
Qed.

Definition gvar (g : and_gate) : N := N.div2 (g_out g).

Lemma defs_gates_ok gs : forall d d', defs_gates d gs = ROk d' ->
  NoDup (map gvar gs) /\
  (forall g, In g gs -> ~ has_var d (gvar g)) /\
  (forall k x, d' !! k = Some x <->
     d !! k = Some x \/ exists g, In g gs /\ k = g_out g /\ x = DGate (g_in0 g) (g_in1 g)).
Proof.
  induction gs as [|g rest IH]; intros d d'; simpl.
  - intros [= <-]. split; [constructor|]. split; [tauto|]. intros k x. split; [tauto|]. intros [H|(g & [] & _)]; exact H.
  - destruct (def_insert d (g_out g) (DGate (g_in0 g) (g_in1 g))) as [d1|e] eqn:E; [|discriminate].
    apply def_insert_ok in E. destruct E as [Hnv ->]. intros H. apply IH in H. destruct H as (Hnd & Hnot & Hiff).
    split; [|split].
    + constructor; [|exact Hnd]. intros Hin. apply in_map_iff in Hin. destruct Hin as (g' & Hv & Hin).
      apply (Hnot g' Hin). apply has_var_insert. right. exact Hv.
    + intros g' [<-|Hin]; [exact Hnv|]. intros Hv. apply (Hnot g' Hin). apply has_var_insert. left. exact Hv.
    + intros k x. rewrite Hiff. split.
      * intros [H|(g' & Hin & -> & ->)].
        -- destruct (decide (k = g_out g)) as [->|Hne].
           ++ rewrite lookup_insert in H. injection H as <-. right. exists g. auto.
           ++ rewrite lookup_insert_ne in H by congruence. left. exact H.
        -- right. exists g'. auto.
      * intros [H|(g' & [<-|Hin] & -> & ->)].
        -- left. rewrite lookup_insert_ne; [exact H|]. intros <-. apply Hnv. exists (g_out g). split; [eauto|reflexivity].
        -- left. apply lookup_insert.
        -- right. exists g'. auto.
Qed.

Lemma defs_gates_err gs : forall d e, defs_gates d gs = RErr e ->
  exists pre g post, gs = pre ++ g :: post /\ e = LitAlreadyDefined (g_out g) /\
    NoDup (map gvar pre) /\ (forall g', In g' pre -> ~ has_var d (gvar g')) /\
    (has_var d (gvar g) \/ In (gvar g) (map gvar pre)).
Proof.
  induction gs as [|g rest IH]; intros d e; simpl; [discriminate|].
  destruct (def_insert d (g_out g) (DGate (g_in0 g) (g_in1 g))) as [d1|e'] eqn:E.
  - apply def_insert_ok in E. destruct E as [Hnv ->]. intros H. apply IH in H.
    destruct H as (pre & g' & post & -> & -> & Hnd & Hnot & Hcl).
    exists (g :: pre), g', post. split; [reflexivity|]. split; [reflexivity|]. split; [|split].
    + simpl. constructor; [|exact Hnd]. intros Hin. apply in_map_iff in Hin. destruct Hin as (g2 & Hv & Hin).
      apply (Hnot g2 Hin). apply has_var_insert. right. exact Hv.
    + intros g2 [<-|Hin]; [exact Hnv|]. intros Hv. apply (Hnot g2 Hin). apply has_var_insert. left. exact Hv.
    + destruct Hcl as [Hv|Hin].
      * apply has_var_insert in Hv. destruct Hv as [Hv|Hv]; [left; exact Hv|]. right. left. symmetry. exact Hv.
      * right. right. exact Hin.
  - intros [= <-]. apply def_insert_err in E. destruct E as [Hv ->].
    exists [], g, rest. split; [reflexivity|]. split; [reflexivity|]. split; [constructor|]. split; [intros ? []|]. left. exact Hv.
Qed.

Lemma defs_inputs_ok ins : forall d i d', defs_inputs d i ins = ROk d' ->
  NoDup (map N.div2 ins) /\
  (forall l, In l ins -> ~ has_var d (N.div2 l)) /\
  (forall v, has_var d' v <-> has_var d v \/ In v (map N.div2 ins)) /\
  (forall k x y, d' !! k = Some (DGate x y) <-> d !! k = Some (DGate x y)).
Proof.
  induction ins as [|l rest IH]; intros d i d'; simpl.
  - intros [= <-]. split; [constructor|]. split; [tauto|]. split; [intros v; tauto|]. tauto.
  - destruct (def_insert d l (DInput i)) as [d1|e] eqn:E; [|discriminate].
    apply def_insert_ok in E. destruct E as [Hnv ->]. intros H. apply IH in H. destruct H as (Hnd & Hnot & Hhv & Hg).
    split; [|split; [|split]].
    + constructor; [|exact Hnd]. intros Hin. apply in_map_iff in Hin. destruct Hin as (l' & Hv & Hin).
      apply (Hnot l' Hin). apply has_var_insert. right. exact Hv.
    + intros l' [<-|Hin]; [exact Hnv|]. intros Hv. apply (Hnot l' Hin). apply has_var_insert. left. exact Hv.
    + intros v. rewrite Hhv, has_var_insert. intuition.
    + intros k x y. rewrite Hg. destruct (decide (k = l)) as [->|Hne].
      * rewrite lookup_insert. split; [discriminate|]. intros H. exfalso. apply Hnv. exists l. split; [eauto|reflexivity].
      * rewrite lookup_insert_ne by congruence. tauto.
Qed.

Lemma defs_inputs_err ins : forall d i e, defs_inputs d i ins = RErr e ->
  exists pre l post, ins = pre ++ l :: post /\ e = LitAlreadyDefined l /\
    NoDup (map N.div2 pre) /\ (forall l', In l' pre -> ~ has_var d (N.div2 l')) /\
    (has_var d (N.div2 l) \/ In (N.div2 l) (map N.div2 pre)).
Proof.
  induction ins as [|l rest IH]; intros d i e; simpl; [discriminate|].
  destruct (def_insert d l (DInput i)) as [d1|e'] eqn:E.
  - apply def_insert_ok in E. destruct E as [Hnv ->]. intros H. apply IH in H.
    destruct H as (pre & l' & post & -> & -> & Hnd & Hnot & Hcl).
    exists (l :: pre), l', post. split; [reflexivity|]. split; [reflexivity|]. split; [|split].
    + simpl. constructor; [|exact Hnd]. intros Hin. apply in_map_iff in Hin. destruct Hin as (l2 & Hv & Hin).
      apply (Hnot l2 Hin). apply has_var_insert. right. exact Hv.
    + intros l2 [<-|Hin]; [exact Hnv|]. intros Hv. apply (Hnot l2 Hin). apply has_var_insert. left. exact Hv.
    + destruct Hcl as [Hv|Hin].
      * apply has_var_insert in Hv. destruct Hv as [Hv|Hv]; [left; exact Hv|]. right. left. symmetry. exact Hv.
      * right. right. exact Hin.
  - intros [= <-]. apply def_insert_err in E. destruct E as [Hv ->].
    exists [], l, rest. split; [reflexivity|]. split; [reflexivity|]. split; [constructor|]. split; [intros ? []|]. left. exact Hv.
Qed.

Lemma has_var_const v : has_var (<[0 := DConstant]> ∅) v <-> v = 0.
Proof.
  rewrite has_var_insert. split; [|intros ->; right; reflexivity].
  intros [(k & [x Hk] & _)|H]; [rewrite lookup_empty in Hk; discriminate|exact H].
Qed.

(* the variables that [lit_defs] looks at: the constant, the inputs, the gate outputs *)
Definition checked_vars (a : aig) : list N := 0 :: map N.div2 (a_inputs a) ++ map gvar (a_gates a).

Lemma lit_defs_ok a d : lit_defs a = ROk d ->
  NoDup (checked_vars a) /\
  (forall k x y, d !! k = Some (DGate x y) <-> In (AndGate x y k) (a_gates a)).
Proof.
  unfold lit_defs. destruct (defs_inputs _ 0%N (a_inputs a)) as [d1|e] eqn:E1; [|discriminate].
  intros E2. apply defs_inputs_ok in E1. destruct E1 as (Hnd1 & Hnot1 & Hhv1 & Hg1).
  apply defs_gates_ok in E2. destruct E2 as (Hnd2 & Hnot2 & Hiff).
  split.
  - unfold checked_vars. constructor.
    + intros Hin. apply in_app_or in Hin. destruct Hin as [Hin|Hin].
      * apply in_map_iff in Hin. destruct Hin as (l & Hv & Hin). apply (Hnot1 l Hin). apply has_var_const. exact Hv.
      * apply in_map_iff in Hin. destruct Hin as (g & Hv & Hin). apply (Hnot2 g Hin). apply Hhv1. left. apply has_var_const. exact Hv.
    + apply NoDup_app_intro; [exact Hnd1|exact Hnd2|].
      intros v Hin1 Hin2. apply in_map_iff in Hin2. destruct Hin2 as (g & <- & Hin2).
      apply (Hnot2 g Hin2). apply Hhv1. right. exact Hin1.
  - intros k x y. rewrite Hiff, Hg1. split.
    + intros [H|(g & Hin & -> & [= -> ->])].
      * destruct (decide (k = 0)) as [->|Hne]; [rewrite lookup_insert in H|rewrite lookup_insert_ne, lookup_empty in H by congruence]; discriminate.
      * rewrite gate_eta. exact Hin.
    + intros Hin. right. exists (AndGate x y k). auto.
Qed.

Lemma lit_defs_sound a d : lit_defs a = ROk d -> defs_sound a d.
Proof. intros H o x y Hd. apply (proj2 (lit_defs_ok a d H)). exact Hd. Qed.

Lemma lit_defs_err a e : lit_defs a = RErr e ->
  exists pre l post, 0 :: a_inputs a ++ map g_out (a_gates a) = pre ++ l :: post /\
    e = LitAlreadyDefined l /\ pre <> [] /\ NoDup (map N.div2 pre) /\ In (N.div2 l) (map N.div2 pre).
Proof.
  unfold lit_defs. destruct (defs_inputs _ 0%N (a_inputs a)) as [d1|e1] eqn:E1.
  - intros E2. apply defs_inputs_ok in E1. destruct E1 as (Hnd1 & Hnot1 & Hhv1 & Hg1).
    apply defs_gates_err in E2. destruct E2 as (pre & g & post & Hgs & -> & Hnd & Hnot & Hcl).
    exists (0 :: a_inputs a ++ map g_out pre), (g_out g), (map g_out post).
    split; [rewrite Hgs, map_app; simpl; rewrite <- app_assoc; reflexivity|].
    split; [reflexivity|]. split; [discriminate|].
    assert (Hmm : map N.div2 (map g_out pre) = map gvar pre) by (rewrite map_map; reflexivity).
    split.
    + simpl. rewrite map_app, Hmm. constructor.
      * intros Hin. apply in_app_or in Hin. destruct Hin as [Hin|Hin].
        -- apply in_map_iff in Hin. destruct Hin as (l & Hv & Hin). apply (Hnot1 l Hin). apply has_var_const. exact Hv.
        -- apply in_map_iff in Hin. destruct Hin as (g' & Hv & Hin). apply (Hnot g' Hin). apply Hhv1. left. apply has_var_const. exact Hv.
      * apply NoDup_app_intro; [exact Hnd1|exact Hnd|].
        intros v Hin1 Hin2. apply in_map_iff in Hin2. destruct Hin2 as (g' & <- & Hin2).
        apply (Hnot g' Hin2). apply Hhv1. right. exact Hin1.
    + simpl. rewrite map_app, Hmm. destruct Hcl as [Hv|Hin].
      * apply Hhv1 in Hv. destruct Hv as [Hv|Hv]; [left; apply has_var_const in Hv; symmetry; exact Hv|].
        right. apply in_or_app. left. exact Hv.
      * right. apply in_or_app. right. exact Hin.
  - intros [= <-]. apply defs_inputs_err in E1. destruct E1 as (pre & l & post & Hins & -> & Hnd & Hnot & Hcl).
    exists (0 :: pre), l, (post ++ map g_out (a_gates a)).
    split; [rewrite Hins, <- app_assoc; reflexivity|]. split; [reflexivity|]. split; [discriminate|]. split.
    + simpl. constructor; [|exact Hnd]. intros Hin. apply in_map_iff in Hin. destruct Hin as (l' & Hv & Hin).
      apply (Hnot l' Hin). apply has_var_const. exact Hv.
    + simpl. destruct Hcl as [Hv|Hin]; [left; apply has_var_const in Hv; symmetry; exact Hv|right; exact Hin].
Qed.

(* ------------------------------------------------------------ initialize *)

Lemma map_fresh_spec ls : forall (m : gmap N N) last m' last',
  map_fresh m last ls = (m', last') ->
  last' = last + 2 * N.of_nat (length ls) /\
  (forall k, is_Some (m !! k) -> is_Some (m' !! k)) /\
  (forall l, In l ls -> is_Some (m' !! lkey l)) /\
  (forall k f, m' !! k = Some f -> m !! k = Some f \/ (N.div2 last < N.div2 f <= N.div2 last')).
Proof.
  induction ls as [|l rest IH]; intros m last m' last'; simpl.
  - intros [= <- <-]. split; [lia|]. split; [auto|]. split; [tauto|]. auto.
  - intros H. apply IH in H. destruct H as (-> & Hk & Hin & Hv).
    split; [rewrite Nat2N.inj_succ; lia|]. split; [|split].
    + intros k Hs. apply Hk. apply insert_keeps. exact Hs.
    + intros l' [<-|Hl]; [|apply Hin; exact Hl]. apply Hk. unfold lm_insert. rewrite lookup_insert. eauto.
    + intros k f Hf. apply Hv in Hf. 
      assert (Hd : N.div2 (last + 2) = N.div2 last + 1).
      { replace (last + 2) with (2 * 1 + last) by lia. rewrite (N.div2_odd last) at 1.
        destruct (N.odd last); simpl N.b2n.
        - replace (2 * 1 + (2 * N.div2 last + 1)) with (2 * (N.div2 last + 1) + 1) by lia.
          rewrite <- N.succ_double_spec, N.div2_succ_double. reflexivity.
        - replace (2 * 1 + (2 * N.div2 last + 0)) with (2 * (N.div2 last + 1)) by lia. apply div2_double. }
      assert (Hmono : N.div2 (last + 2) <= N.div2 (last + 2 + 2 * N.of_nat (length rest))).
      { rewrite !N.div2_div. apply N.div_le_mono; lia. }
      destruct Hf as [Hf|Hf].
      * unfold lm_insert in Hf. destruct (decide (k = lkey l)) as [->|Hne].
        -- rewrite lookup_insert in Hf. injection Hf as <-. right.
           rewrite lpol_spec, lxor_b2n_div2. lia.
        -- rewrite lookup_insert_ne in Hf by congruence. left. exact Hf.
      * right. lia.
Qed.

(* [init_state] without the latch check: what it returns when the check passes (init_state_ok) *)
Definition init_raw (cfg : config) (defs : gmap N lit_def) (a : aig) : rstate :=
  let m0 := lm_insert ∅ 0 0 in
  let '(m1, c1) := map_fresh m0 0 (a_inputs a) in
  let '(m2, c2) := map_fresh m1 c1 (map l_state (a_latches a)) in
  RState cfg defs m2 c2 [] [] ∅.

Definition base_of (a : aig) : N := N.of_nat (length (a_inputs a) + length (a_latches a)).

Lemma init_state_inv cfg defs a :
  defs_sound a defs ->
  ginv a (base_of a) (init_raw cfg defs a) /\ r_stack (init_raw cfg defs a) = [] /\
  r_cfg (init_raw cfg defs a) = cfg /\ r_defs (init_raw cfg defs a) = defs /\
  is_Some (r_map (init_raw cfg defs a) !! 0) /\
  (forall l, In l (a_inputs a) -> is_Some (r_map (init_raw cfg defs a) !! lkey l)) /\
  (forall l, In l (a_latches a) -> is_Some (r_map (init_raw cfg defs a) !! lkey (l_state l))).
Proof.
  intros Hd. unfold init_raw.
  destruct (map_fresh (lm_insert ∅ 0 0) 0 (a_inputs a)) as [m1 c1] eqn:E1.
  destruct (map_fresh m1 c1 (map l_state (a_latches a))) as [m2 c2] eqn:E2.
  apply map_fresh_spec in E1, E2.
  destruct E1 as (-> & Hk1 & Hin1 & Hv1). destruct E2 as (-> & Hk2 & Hin2 & Hv2).
  rewrite map_length in *.
  assert (Hc : 0 + 2 * N.of_nat (length (a_inputs a)) + 2 * N.of_nat (length (a_latches a)) = 2 * base_of a).
  { unfold base_of. lia. }
  split; [|repeat split; simpl].
  - constructor; simpl.
    + exact Hd.
    + unfold maxv; simpl. lia.
    + unfold maxv; simpl. intros k f Hf. rewrite N.add_0_r. rewrite Hc, div2_double in Hv2.
      apply Hv2 in Hf. destruct Hf as [Hf|Hf]; [|lia].
      apply Hv1 in Hf. destruct Hf as [Hf|Hf].
      * unfold lm_insert in Hf. destruct (decide (k = lkey 0)) as [->|Hne].
        -- rewrite lookup_insert in Hf. injection Hf as <-. simpl. lia.
        -- rewrite lookup_insert_ne, lookup_empty in Hf by congruence. discriminate.
      * replace (0 + 2 * N.of_nat (length (a_inputs a))) with (2 * N.of_nat (length (a_inputs a))) in Hf by lia.
        rewrite div2_double in Hf. unfold base_of. lia.
    + intros ab c. rewrite lookup_empty. discriminate.
    + exact I.
  - apply Hk2, Hk1. unfold lm_insert. change (lkey 0) with 0. rewrite lookup_insert. eauto.
  - intros l Hl. apply Hk2, Hin1. exact Hl.
  - intros l Hl. apply Hin2. apply in_map. exact Hl.
Qed.

Lemma inv_start a base r l : ginv a base r -> r_stack r = [] -> Inv a base l (STransfer l) r.
Proof. intros G Hs. split; [exact G|]. unfold state_ok. rewrite Hs. simpl. auto. Qed.

Lemma lm_get_is_Some (m : gmap N N) l : is_Some (lm_get m l) <-> is_Some (m !! lkey l).
Proof. unfold lm_get. destruct (m !! lkey l); split; intros [x H]; try discriminate; eauto. Qed.

Lemma transfer_all_inv a base fuel : forall ls r, ginv a base r -> r_stack r = [] ->
  match transfer_all fuel r ls with
  | IDone r' => ginv a base r' /\ r_stack r' = [] /\ ext r r' /\
                (forall l, In l ls -> is_Some (r_map r' !! lkey l))
  | IErr e => exists l0 s0 r0, In l0 ls /\ Inv a base l0 s0 r0 /\ rstep s0 r0 = Failed e /\ ext r r0
  | IOutOfFuel => True
  end.
Proof.
  induction ls as [|l rest IH]; intros r G Hs; simpl.
  - split; [exact G|]. split; [exact Hs|]. split; [apply ext_refl|]. tauto.
  - unfold transfer. pose proof (run_inv a base l fuel _ _ (inv_start a base r l G Hs)) as H.
    destruct (run fuel (STransfer l) r) as [t r1|e|]; [| |trivial].
    + destruct H as (G1 & Hs1 & Hg1 & He1). specialize (IH r1 G1 Hs1).
      destruct (transfer_all fuel r1 rest) as [r2|e|]; [| |trivial].
      * destruct IH as (G2 & Hs2 & He2 & Hin2). split; [exact G2|]. split; [exact Hs2|].
        split; [exact (ext_trans _ _ _ He1 He2)|].
        intros l' [<-|Hl]; [|apply Hin2; exact Hl].
        apply He2. apply lm_get_is_Some. eauto.
      * destruct IH as (l0 & s0 & r0 & Hl0 & HI & Hf & He). exists l0, s0, r0.
        split; [right; exact Hl0|]. split; [exact HI|]. split; [exact Hf|]. exact (ext_trans _ _ _ He1 He).
    + destruct H as (s0 & r0 & HI & Hf & He). exists l, s0, r0. split; [left; reflexivity|]. auto.
Qed.

(* ------------------------------------------------------------ the latch check of initialize *)

Lemma NoDup_app_iff {A} (l1 l2 : list A) :
  List.NoDup (l1 ++ l2) <-> List.NoDup l1 /\ List.NoDup l2 /\ (forall x, In x l1 -> ~ In x l2).
Proof.
  split.
  - intros H. split; [|split].
    + induction l1 as [|x l1 IH]; simpl in *; [constructor|]. inversion H; subst. constructor; [|auto].
      intros Hin. apply H2. apply in_or_app. left. exact Hin.
    + induction l1 as [|x l1 IH]; simpl in *; [exact H|]. inversion H; subst. auto.
    + induction l1 as [|y l1 IH]; simpl in *; intros x Hx Hx2; [destruct Hx|]. inversion H; subst.
      destruct Hx as [->|Hx]; [apply H2; apply in_or_app; right; exact Hx2|eapply IH; eassumption].
  - intros (H1 & H2 & H3). apply NoDup_app_intro; assumption.
Qed.

Lemma defs_contains_has_var d s :
  defs_contains d s || defs_contains d (lneg s) = true <-> has_var d (N.div2 s).
Proof.
  unfold defs_contains. split.
  - intros H. apply orb_true_iff in H. destruct H as [H|H].
    + exists s. destruct (d !! s) eqn:E; [eauto|discriminate].
    + exists (lneg s). destruct (d !! lneg s) eqn:E; [|discriminate]. split; [eauto|apply lneg_div2].
  - intros (k & [x Hk] & Hv). destruct (same_var _ _ Hv) as [->| ->]; rewrite Hk; [reflexivity|apply orb_true_r].
Qed.

Lemma latches_fresh_ok defs ls : forall (m : gmap N N) last m' last',
  latches_fresh defs m last ls = ROk (m', last') ->
  map_fresh m last ls = (m', last') /\
  forall pre s post, ls = pre ++ s :: post ->
    ~ has_var defs (N.div2 s) /\ m !! lkey s = None /\ ~ In (N.div2 s) (map N.div2 pre).
Proof.
  induction ls as [|s0 rest IH]; intros m last m' last'; simpl.
  - intros [= <- <-]. split; [reflexivity|]. intros [|? ?] ? ? E; discriminate.
  - destruct (defs_contains defs s0 || defs_contains defs (lneg s0)) eqn:Ed; [discriminate|]. simpl.
    unfold lm_contains. destruct (m !! lkey s0) eqn:Em; [discriminate|]. intros H.
    apply IH in H. destruct H as [Hmf Hall]. split; [exact Hmf|].
    intros pre s post E. destruct pre as [|p pre]; simpl in E.
    + injection E as <- _. split; [|split; [exact Em|intros []]].
      intros Hv. apply defs_contains_has_var in Hv. congruence.
    + injection E as <- ->. destruct (Hall pre s post eq_refl) as (H1 & H2 & H3).
      unfold lm_insert in H2. split; [exact H1|].
      destruct (decide (lkey s = lkey s0)) as [E|E]; [rewrite E, lookup_insert in H2; discriminate|].
      rewrite lookup_insert_ne in H2 by congruence. split; [exact H2|].
      simpl. intros [Hp|Hp]; [|exact (H3 Hp)]. apply E. apply lkey_eq_iff. symmetry. exact Hp.
Qed.

Lemma latches_fresh_err defs ls : forall (m : gmap N N) last e,
  latches_fresh defs m last ls = RErr e ->
  exists pre s post, ls = pre ++ s :: post /\ e = LitAlreadyDefined s /\
    (exists mm, latches_fresh defs m last pre = ROk mm) /\
    (has_var defs (N.div2 s) \/ is_Some (m !! lkey s) \/ In (N.div2 s) (map N.div2 pre)).
Proof.
  induction ls as [|s0 rest IH]; intros m last e; simpl; [discriminate|].
  destruct (defs_contains defs s0 || defs_contains defs (lneg s0)) eqn:Ed; simpl.
  { intros [= <-]. exists [], s0, rest. split; [reflexivity|]. split; [reflexivity|]. split; [simpl; eauto|].
    left. apply defs_contains_has_var. exact Ed. }
  unfold lm_contains. destruct (m !! lkey s0) eqn:Em.
  { intros [= <-]. exists [], s0, rest. split; [reflexivity|]. split; [reflexivity|]. split; [simpl; eauto|].
    right. left. rewrite Em. eauto. }
  intros H. apply IH in H. destruct H as (pre & s & post & -> & -> & [mm Hpre] & Hcl).
  exists (s0 :: pre), s, post. split; [reflexivity|]. split; [reflexivity|]. split.
  - exists mm. simpl. rewrite Ed. simpl. unfold lm_contains. rewrite Em. exact Hpre.
  - destruct Hcl as [H|[H|H]]; [left; exact H| |right; right; right; exact H].
    unfold lm_insert in H. destruct (decide (lkey s = lkey s0)) as [E|E].
    + right. right. left. symmetry. apply lkey_eq_iff. exact E.
    + rewrite lookup_insert_ne in H by congruence. right. left. exact H.
Qed.

Lemma map_fresh_dom ls : forall (m : gmap N N) last m' last',
  map_fresh m last ls = (m', last') ->
  forall k, is_Some (m' !! k) -> is_Some (m !! k) \/ exists l, In l ls /\ k = lkey l.
Proof.
  induction ls as [|l rest IH]; intros m last m' last'; simpl.
  - intros [= <- <-] k Hk. left. exact Hk.
  - intros H k Hk. destruct (IH _ _ _ _ H k Hk) as [Hm|(l' & Hl' & ->)].
    + unfold lm_insert in Hm. destruct (decide (k = lkey l)) as [->|Hne]; [right; exists l; auto|].
      rewrite lookup_insert_ne in Hm by congruence. left. exact Hm.
    + right. exists l'. auto.
Qed.

Lemma defs_gates_has_var gs d d' : defs_gates d gs = ROk d' ->
  forall v, has_var d' v <-> has_var d v \/ In v (map gvar gs).
Proof.
  intros H. apply defs_gates_ok in H. destruct H as (_ & _ & Hiff). intros v. split.
  - intros (k & [x Hk] & <-). apply Hiff in Hk. destruct Hk as [Hk|(g & Hin & -> & _)].
    + left. exists k. split; [eauto|reflexivity].
    + right. apply in_map_iff. exists g. auto.
  - intros [(k & [x Hk] & <-)|Hin].
    + exists k. split; [|reflexivity]. exists x. apply Hiff. left. exact Hk.
    + apply in_map_iff in Hin. destruct Hin as (g & <- & Hin). exists (g_out g). split; [|reflexivity].
      exists (DGate (g_in0 g) (g_in1 g)). apply Hiff. right. exists g. auto.
Qed.

Lemma lit_defs_has_var a d : lit_defs a = ROk d -> forall v, has_var d v <-> In v (checked_vars a).
Proof.
  unfold lit_defs. destruct (defs_inputs _ 0%N (a_inputs a)) as [d1|e] eqn:E1; [|discriminate].
  intros E2 v. rewrite (defs_gates_has_var _ _ _ E2 v).
  apply defs_inputs_ok in E1. destruct E1 as (_ & _ & Hhv & _). rewrite Hhv, has_var_const.
  unfold checked_vars. simpl. rewrite in_app_iff. intuition.
Qed.

(* the literals in the order in which their definitions are checked: by lit_defs (constant, inputs,
   gate outputs), then by initialize (latch states) *)
Definition check_order (a : aig) : list lit :=
  0 :: a_inputs a ++ map g_out (a_gates a) ++ map l_state (a_latches a).

(* [l] is the first literal of [xs] whose variable occurs before it *)
Definition first_clash (xs : list lit) (l : lit) : Prop :=
  exists pre post, xs = pre ++ l :: post /\ List.NoDup (map N.div2 pre) /\ In (N.div2 l) (map N.div2 pre).

Lemma app_split_cases {A} (pre : list A) : forall l post pre' l' post',
  pre ++ l :: post = pre' ++ l' :: post' ->
  (pre = pre' /\ l = l') \/ (exists rest, pre' = pre ++ l :: rest) \/ (exists rest, pre = pre' ++ l' :: rest).
Proof.
  induction pre as [|x pre IH]; intros l post pre' l' post' E; destruct pre' as [|y pre']; simpl in E.
  - injection E as -> _. left. auto.
  - injection E as -> _. right. left. exists pre'. reflexivity.
  - injection E as -> _. right. right. exists pre. reflexivity.
  - injection E as -> E. destruct (IH _ _ _ _ _ E) as [[-> ->]|[[rest ->]|[rest ->]]].
    + left. auto.
    + right. left. exists rest. reflexivity.
    + right. right. exists rest. reflexivity.
Qed.

Lemma first_clash_fun xs l l' : first_clash xs l -> first_clash xs l' -> l = l'.
Proof.
  intros (pre & post & -> & Hnd & Hin) (pre' & post' & E & Hnd' & Hin').
  destruct (app_split_cases _ _ _ _ _ _ E) as [[_ H]|[[rest ->]|[rest ->]]]; [exact H| |]; exfalso.
  - rewrite map_app in Hnd'. simpl in Hnd'. apply NoDup_app_iff in Hnd'. destruct Hnd' as (_ & _ & Hd).
    apply (Hd _ Hin). left. reflexivity.
  - rewrite map_app in Hnd. simpl in Hnd. apply NoDup_app_iff in Hnd. destruct Hnd as (_ & _ & Hd).
    apply (Hd _ Hin'). left. reflexivity.
Qed.

Lemma NoDup_prefix_cond {A} (f : A -> N) (ls : list A) :
  (forall pre s post, ls = pre ++ s :: post -> ~ In (f s) (map f pre)) -> List.NoDup (map f ls).
Proof.
  induction ls as [|x l IH]; intros H; simpl; [constructor|]. constructor.
  - intros Hin. apply in_map_iff in Hin. destruct Hin as (y & Hy & Hin).
    destruct (in_split _ _ Hin) as (l1 & l2 & ->).
    apply (H (x :: l1) y l2 eq_refl). left. symmetry. exact Hy.
  - apply IH. intros pre s post ->. intros Hin. apply (H (x :: pre) s post eq_refl). right. exact Hin.
Qed.

Lemma checked_vars_map a : checked_vars a = map N.div2 (0 :: a_inputs a ++ map g_out (a_gates a)).
Proof. unfold checked_vars. simpl. rewrite map_app, map_map. reflexivity. Qed.

Lemma defined_vars_split a :
  defined_vars a = 0 :: map N.div2 (a_inputs a) ++ map N.div2 (map l_state (a_latches a)) ++ map gvar (a_gates a).
Proof. unfold defined_vars. rewrite map_map. reflexivity. Qed.

(* no variable is defined twice <-> no clash in checking order *)
Lemma wf_defs_check_order a : wf_defs a <-> List.NoDup (map N.div2 (check_order a)).
Proof.
  unfold wf_defs, check_order. rewrite defined_vars_split. simpl. rewrite !map_app, (map_map g_out N.div2).
  change (map (fun x => N.div2 (g_out x)) (a_gates a)) with (map gvar (a_gates a)).
  set (I := map N.div2 (a_inputs a)). set (L := map N.div2 (map l_state (a_latches a))). set (G := map gvar (a_gates a)).
  split; intros H; inversion H as [|? ? H0 Hnd]; subst; constructor.
  - rewrite !in_app_iff in *. tauto.
  - apply NoDup_app_iff in Hnd. destruct Hnd as (HI & HLG & Hd). apply NoDup_app_iff in HLG. destruct HLG as (HL & HG & Hd2).
    apply NoDup_app_iff. split; [exact HI|]. split.
    + apply NoDup_app_iff. split; [exact HG|]. split; [exact HL|]. intros x Hx Hx'. exact (Hd2 x Hx' Hx).
    + intros x Hx Hx'. apply (Hd x Hx). rewrite in_app_iff in *. tauto.
  - rewrite !in_app_iff in *. tauto.
  - apply NoDup_app_iff in Hnd. destruct Hnd as (HI & HGL & Hd). apply NoDup_app_iff in HGL. destruct HGL as (HG & HL & Hd2).
    apply NoDup_app_iff. split; [exact HI|]. split.
    + apply NoDup_app_iff. split; [exact HL|]. split; [exact HG|]. intros x Hx Hx'. exact (Hd2 x Hx' Hx).
    + intros x Hx Hx'. apply (Hd x Hx). rewrite in_app_iff in *. tauto.
Qed.

(* when the latch check passes, [initialize] continues from [init_raw], and together with the
   checks of lit_defs no variable is defined twice *)
Lemma init_state_ok cfg defs a r0 :
  lit_defs a = ROk defs -> init_state cfg defs a = ROk r0 -> r0 = init_raw cfg defs a /\ wf_defs a.
Proof.
  intros Hd. unfold init_state, init_raw.
  destruct (map_fresh (lm_insert ∅ 0 0) 0 (a_inputs a)) as [m1 c1] eqn:E1.
  destruct (latches_fresh defs m1 c1 (map l_state (a_latches a))) as [[m2 c2]|e] eqn:EL; [|discriminate].
  intros [= <-]. apply latches_fresh_ok in EL. destruct EL as [-> Hall]. split; [reflexivity|].
  apply wf_defs_check_order. unfold check_order.
  change (0 :: a_inputs a ++ map g_out (a_gates a) ++ map l_state (a_latches a))
    with ((0 :: a_inputs a) ++ map g_out (a_gates a) ++ map l_state (a_latches a)).
  rewrite app_assoc, map_app. apply NoDup_app_iff.
  pose proof (proj1 (lit_defs_ok a defs Hd)) as Hnd. rewrite checked_vars_map in Hnd.
  split; [exact Hnd|]. split.
  - apply NoDup_prefix_cond. intros pre s post E. apply (Hall pre s post E).
  - intros x Hx Hx'. apply in_map_iff in Hx'. destruct Hx' as (s & <- & Hs).
    destruct (in_split _ _ Hs) as (pre & post & E). destruct (Hall pre s post E) as (Hnv & _).
    apply Hnv. apply (lit_defs_has_var a defs Hd). rewrite checked_vars_map. exact Hx.
Qed.

Lemma init_state_err cfg defs a e :
  lit_defs a = ROk defs -> init_state cfg defs a = RErr e ->
  exists s, e = LitAlreadyDefined s /\ In s (map l_state (a_latches a)) /\ first_clash (check_order a) s.
Proof.
  intros Hd. unfold init_state.
  destruct (map_fresh (lm_insert ∅ 0 0) 0 (a_inputs a)) as [m1 c1] eqn:E1.
  destruct (latches_fresh defs m1 c1 (map l_state (a_latches a))) as [[m2 c2]|e'] eqn:EL; [discriminate|].
  intros [= <-]. apply latches_fresh_err in EL. destruct EL as (pre & s & post & Els & -> & [[m' c'] Hpre] & Hcl).
  apply latches_fresh_ok in Hpre. destruct Hpre as [_ Hall].
  exists s. split; [reflexivity|]. split; [rewrite Els; apply in_or_app; right; left; reflexivity|].
  pose proof (proj1 (lit_defs_ok a defs Hd)) as Hnd. rewrite checked_vars_map in Hnd.
  exists ((0 :: a_inputs a ++ map g_out (a_gates a)) ++ pre), post. split; [|split].
  - unfold check_order. rewrite Els. simpl. rewrite <- !app_assoc. reflexivity.
  - rewrite map_app. apply NoDup_app_iff. split; [exact Hnd|]. split.
    + apply NoDup_prefix_cond. intros p1 x p2 E. apply (Hall p1 x p2 E).
    + intros x Hx Hx'. apply in_map_iff in Hx'. destruct Hx' as (y & <- & Hy).
      destruct (in_split _ _ Hy) as (p1 & p2 & E). destruct (Hall p1 y p2 E) as (Hnv & _).
      apply Hnv. apply (lit_defs_has_var a defs Hd). rewrite checked_vars_map. exact Hx.
  - rewrite map_app, in_app_iff. destruct Hcl as [Hv|[Hm|Hp]]; [left| |right; exact Hp].
    + rewrite <- checked_vars_map. apply (lit_defs_has_var a defs Hd). exact Hv.
    + left. destruct (map_fresh_dom _ _ _ _ _ E1 _ Hm) as [H0|(l & Hl & Hk)].
      * unfold lm_insert in H0. change (lkey 0) with 0 in H0.
        destruct (decide (lkey s = 0)) as [E|E].
        -- left. rewrite lkey_spec in E. simpl. lia.
        -- rewrite lookup_insert_ne, lookup_empty in H0 by congruence. destruct H0; discriminate.
      * right. rewrite map_app. apply in_or_app. left. apply in_map_iff. exists l. split; [|exact Hl].
        symmetry. apply lkey_eq_iff. exact Hk.
Qed.

(* ------------------------------------------------------------ the ordered result *)

Lemma map_lits_spec m ls : forall ts, map_lits m ls = Some ts -> Forall2 (fun l t => lm_get m l = Some t) ls ts.
Proof.
  induction ls as [|l rest IH]; simpl; intros ts.
  - intros [= <-]. constructor.
  - destruct (lm_get m l) as [t|] eqn:E; [|discriminate].
    destruct (map_lits m rest) as [ts'|]; [|discriminate]. intros [= <-]. constructor; auto.
Qed.

Lemma map_lits_total m ls : (forall l, In l ls -> is_Some (lm_get m l)) -> is_Some (map_lits m ls).
Proof.
  induction ls as [|l rest IH]; simpl; intros H; [eauto|].
  destruct (H l (or_introl eq_refl)) as [t ->].
  destruct IH as [ts ->]; [intros l' Hl; apply H; right; exact Hl|]. eauto.
Qed.

Lemma map_latches_spec m ls : forall ts, map_latches m ls = Some ts ->
  Forall2 (fun l t => lm_get m (l_next l) = Some (fst t) /\ snd t = l_init l) ls ts.
Proof.
  induction ls as [|l rest IH]; simpl; intros ts.
  - intros [= <-]. constructor.
  - destruct (lm_get m (l_next l)) as [t|] eqn:E; [|discriminate].
    destruct (map_latches m rest) as [ts'|]; [|discriminate]. intros [= <-]. constructor; auto.
Qed.

Lemma map_latches_total m ls : (forall l, In l ls -> is_Some (lm_get m (l_next l))) -> is_Some (map_latches m ls).
Proof.
  induction ls as [|l rest IH]; simpl; intros H; [eauto|].
  destruct (H l (or_introl eq_refl)) as [t ->].
  destruct IH as [ts ->]; [intros l' Hl; apply H; right; exact Hl|]. eauto.
Qed.

Lemma map_lits2_spec m ls : forall ts, map_lits2 m ls = Some ts ->
  Forall2 (Forall2 (fun l t => lm_get m l = Some t)) ls ts.
Proof.
  induction ls as [|l rest IH]; simpl; intros ts.
  - intros [= <-]. constructor.
  - destruct (map_lits m l) as [t|] eqn:E; [|discriminate].
    destruct (map_lits2 m rest) as [ts'|]; [|discriminate]. intros [= <-]. constructor; auto using map_lits_spec.
Qed.

Lemma map_lits2_total m ls : (forall l, In l (concat ls) -> is_Some (lm_get m l)) -> is_Some (map_lits2 m ls).
Proof.
  induction ls as [|l rest IH]; simpl; intros H; [eauto|].
  destruct (map_lits_total m l) as [t ->]; [intros l' Hl; apply H; apply in_or_app; left; exact Hl|].
  destruct IH as [ts ->]; [intros l' Hl; apply H; apply in_or_app; right; exact Hl|]. eauto.
Qed.

Lemma gates_ok_nth base gs : gates_ok base gs ->
  forall j x y, nth_error (rev gs) j = Some (x, y) -> N.div2 x <= base + N.of_nat j /\ y <= x.
Proof.
  induction gs as [|[x0 y0] rest IH]; simpl; intros H j x y Hn.
  - destruct j; discriminate.
  - destruct H as (H1 & H2 & H3).
    destruct (Nat.lt_ge_cases j (length (rev rest))) as [Hlt|Hge].
    + rewrite nth_error_app1 in Hn by exact Hlt. apply (IH H3 j x y Hn).
    + rewrite nth_error_app2 in Hn by exact Hge.
      destruct (j - length (rev rest))%nat as [|k] eqn:Ek; simpl in Hn; [|destruct k; discriminate].
      injection Hn as <- <-. rewrite rev_length in *. replace j with (length rest) by lia. auto.
Qed.

Lemma lm_get_bound a base r l t : ginv a base r -> lm_get (r_map r) l = Some t -> t <= 2 * maxv base r + 1.
Proof.
  intros G H. apply lm_get_div2 in H. destruct H as (f & Hf & Hd).
  apply (gi_map _ _ _ G) in Hf. rewrite <- Hd in Hf. apply lit_le_div2 in Hf. lia.
Qed.

Lemma Forall2_get_bound a base r ls ts :
  ginv a base r -> Forall2 (fun l t => lm_get (r_map r) l = Some t) ls ts ->
  forall t, In t ts -> t <= 2 * maxv base r + 1.
Proof.
  intros G H. induction H as [|l t ls ts Hlt _ IH]; intros t' []; subst; eauto using lm_get_bound.
Qed.

Lemma Forall2_latch_bound a base r (ls : list latch) (ts : list (lit * option bool)) :
  ginv a base r ->
  Forall2 (fun l t => lm_get (r_map r) (l_next l) = Some (fst t) /\ snd t = l_init l) ls ts ->
  forall t, In t ts -> fst t <= 2 * maxv base r + 1.
Proof.
  intros G H. induction H as [|l t ls ts [Hlt _] _ IH]; intros t' []; subst; eauto using lm_get_bound.
Qed.

Lemma Forall2_2_get_bound a base r lss tss :
  ginv a base r -> Forall2 (Forall2 (fun l t => lm_get (r_map r) l = Some t)) lss tss ->
  forall t, In t (concat tss) -> t <= 2 * maxv base r + 1.
Proof.
  intros G H. induction H as [|ls ts lss tss Hlt _ IH]; simpl; intros t Ht; [destruct Ht|].
  apply in_app_or in Ht. destruct Ht as [Ht|Ht]; [eapply Forall2_get_bound; eassumption|auto].
Qed.

(* Renumber::new: lit_defs, then the latch check, then the transfers from [init_raw] *)
Lemma renumber_new_unfold cfg a :
  (exists e, lit_defs a = RErr e /\ renumber_new cfg a = IErr e) \/
  (exists defs e, lit_defs a = ROk defs /\ init_state cfg defs a = RErr e /\ renumber_new cfg a = IErr e) \/
  (exists defs, lit_defs a = ROk defs /\ init_state cfg defs a = ROk (init_raw cfg defs a) /\ wf_defs a /\
     renumber_new cfg a = transfer_all (transfer_fuel a) (init_raw cfg defs a) (roots cfg a)).
Proof.
  unfold renumber_new. destruct (lit_defs a) as [defs|e] eqn:Ed; [|left; eauto].
  right. destruct (init_state cfg defs a) as [r0|e] eqn:Ei; [|left; eauto].
  right. destruct (init_state_ok cfg defs a r0 Ed Ei) as [-> Hwf]. exists defs. auto.
Qed.

(* everything Renumber::new establishes when it returns Ok *)
Lemma renumber_new_done cfg a r :
  renumber_new cfg a = IDone r ->
  exists defs, lit_defs a = ROk defs /\ ginv a (base_of a) r /\ r_stack r = [] /\
    ext (init_raw cfg defs a) r /\
    (forall l, In l (roots cfg a) -> is_Some (r_map r !! lkey l)) /\ wf_defs a.
Proof.
  intros H. destruct (renumber_new_unfold cfg a) as [(e & _ & E)|[(defs & e & _ & _ & E)|(defs & Ed & _ & Hwf & E)]];
    try congruence.
  rewrite E in H. exists defs. split; [exact Ed|].
  destruct (init_state_inv cfg defs a (lit_defs_sound a defs Ed)) as (G0 & Hs0 & _).
  pose proof (transfer_all_inv a (base_of a) (transfer_fuel a) (roots cfg a) _ G0 Hs0) as HT.
  rewrite H in HT. tauto.
Qed.

Definition root_lits (a : aig) : list lit :=
  map l_next (a_latches a) ++ a_outputs a ++ a_bad a ++ a_constraints a ++ a_fairness a ++ concat (a_justice a).

Lemma root_lits_roots cfg a l : In l (root_lits a) -> In l (roots cfg a).
Proof. intros H. unfold roots. apply in_or_app. right. exact H. Qed.

(* lit_map.get(..).unwrap() never panics *)
Lemma build_ordered_total cfg a r : renumber_new cfg a = IDone r -> is_Some (build_ordered a r).
Proof.
  intros H. destruct (renumber_new_done cfg a r H) as (defs & _ & _ & _ & _ & Hr & _).
  assert (Hget : forall l, In l (root_lits a) -> is_Some (lm_get (r_map r) l)).
  { intros l Hl. apply lm_get_is_Some. apply Hr. apply (root_lits_roots cfg). exact Hl. }
  unfold root_lits in Hget. unfold build_ordered.
  destruct (map_latches_total (r_map r) (a_latches a)) as [ls ->].
  { intros l Hl. apply Hget. apply in_or_app. left. apply in_map. exact Hl. }
  destruct (map_lits_total (r_map r) (a_outputs a)) as [os ->].
  { intros l Hl. apply Hget. do 1 (apply in_or_app; right). apply in_or_app. left. exact Hl. }
  destruct (map_lits_total (r_map r) (a_bad a)) as [bs ->].
  { intros l Hl. apply Hget. do 2 (apply in_or_app; right). apply in_or_app. left. exact Hl. }
  destruct (map_lits_total (r_map r) (a_constraints a)) as [cs ->].
  { intros l Hl. apply Hget. do 3 (apply in_or_app; right). apply in_or_app. left. exact Hl. }
  destruct (map_lits2_total (r_map r) (a_justice a)) as [js ->].
  { intros l Hl. apply Hget. do 5 (apply in_or_app; right). exact Hl. }
  destruct (map_lits_total (r_map r) (a_fairness a)) as [fs ->].
  { intros l Hl. apply Hget. do 4 (apply in_or_app; right). apply in_or_app. left. exact Hl. }
  eauto.
Qed.

Theorem renumber_never_panics cfg a : renumber_aig cfg a <> RnPanic.
Proof.
  unfold renumber_aig. destruct (renumber_new cfg a) as [r|e|] eqn:E; try discriminate.
  destruct (build_ordered_total cfg a r E) as [o ->]. discriminate.
Qed.

Lemma renumber_ok_inv cfg a o r :
  renumber_aig cfg a = RnOk o r -> renumber_new cfg a = IDone r /\ build_ordered a r = Some o.
Proof.
  unfold renumber_aig. destruct (renumber_new cfg a) as [r'|e|]; try discriminate.
  destruct (build_ordered a r') as [o'|] eqn:Eb; [|discriminate]. intros H; inversion H; subst.
  split; [reflexivity|exact Eb].
Qed.

Lemma build_ordered_fields a r o : build_ordered a r = Some o ->
  o_maxvar o = N.shiftr (r_last r) 1 /\ o_input_count o = N.of_nat (length (a_inputs a)) /\
  o_gates o = rev (r_gates r) /\
  Forall2 (fun l t => lm_get (r_map r) (l_next l) = Some (fst t) /\ snd t = l_init l) (a_latches a) (o_latches o) /\
  Forall2 (fun l t => lm_get (r_map r) l = Some t) (a_outputs a) (o_outputs o) /\
  Forall2 (fun l t => lm_get (r_map r) l = Some t) (a_bad a) (o_bad o) /\
  Forall2 (fun l t => lm_get (r_map r) l = Some t) (a_constraints a) (o_constraints o) /\
  Forall2 (Forall2 (fun l t => lm_get (r_map r) l = Some t)) (a_justice a) (o_justice o) /\
  Forall2 (fun l t => lm_get (r_map r) l = Some t) (a_fairness a) (o_fairness o).
Proof.
  unfold build_ordered.
  destruct (map_latches _ _) as [ls|] eqn:E1; [|discriminate].
  destruct (map_lits _ (a_outputs a)) as [os|] eqn:E2; [|discriminate].
  destruct (map_lits _ (a_bad a)) as [bs|] eqn:E3; [|discriminate].
  destruct (map_lits _ (a_constraints a)) as [cs|] eqn:E4; [|discriminate].
  destruct (map_lits2 _ _) as [js|] eqn:E5; [|discriminate].
  destruct (map_lits _ (a_fairness a)) as [fs|] eqn:E6; [|discriminate].
  intros [= <-]. simpl.
  repeat split; auto using map_lits_spec, map_latches_spec, map_lits2_spec.
Qed.

(* the literals of the renumbered circuit other than gate inputs *)
Definition ordered_lits (o : ordered_aig) : list lit :=
  map fst (o_latches o) ++ o_outputs o ++ o_bad o ++ o_constraints o ++ concat (o_justice o) ++ o_fairness o.

Theorem renumber_order cfg a o r :
  renumber_aig cfg a = RnOk o r ->
  let nI := length (a_inputs a) in
  let nL := length (a_latches a) in
  o_input_count o = N.of_nat nI /\
  length (o_latches o) = nL /\
  o_maxvar o = N.of_nat (nI + nL + length (o_gates o)) /\
  (forall j x y, nth_error (o_gates o) j = Some (x, y) ->
     x < 2 * N.of_nat (nI + nL + 1 + j) /\ y <= x) /\
  (forall t, In t (ordered_lits o) -> t <= 2 * o_maxvar o + 1) /\
  (forall l t, lm_get (r_map r) l = Some t -> t <= 2 * o_maxvar o + 1).
Proof.
  intros H nI nL. apply renumber_ok_inv in H. destruct H as [Hn Hb].
  destruct (renumber_new_done cfg a r Hn) as (defs & _ & G & _ & _ & _ & Hwf).
  destruct (build_ordered_fields a r o Hb) as (Hm & Hi & Hg & Hl & Ho & Hbd & Hc & Hj & Hf).
  assert (Hmax : o_maxvar o = maxv (base_of a) r).
  { rewrite Hm, <- N.div2_spec, (gi_last _ _ _ G). apply div2_double. }
  split; [exact Hi|]. split; [symmetry; eapply Forall2_length; exact Hl|].
  split; [rewrite Hmax, Hg, rev_length; unfold maxv, base_of; subst nI nL; lia|].
  split; [|split].
  - intros j x y Hnth. rewrite Hg in Hnth.
    destruct (gates_ok_nth _ _ (gi_gates _ _ _ G) j x y Hnth) as [Hx Hy]. split; [|exact Hy].
    apply lit_le_div2 in Hx. unfold base_of in Hx. subst nI nL. lia.
  - rewrite Hmax. intros t Ht. unfold ordered_lits in Ht.
    repeat (apply in_app_or in Ht; destruct Ht as [Ht|Ht]).
    + apply in_map_iff in Ht. destruct Ht as ([t' i] & <- & Ht). simpl.
      eapply (Forall2_latch_bound _ _ _ _ _ G Hl (t', i)). exact Ht.
    + exact (Forall2_get_bound _ _ _ _ _ G Ho t Ht).
    + exact (Forall2_get_bound _ _ _ _ _ G Hbd t Ht).
    + exact (Forall2_get_bound _ _ _ _ _ G Hc t Ht).
    + exact (Forall2_2_get_bound _ _ _ _ _ G Hj t Ht).
    + exact (Forall2_get_bound _ _ _ _ _ G Hf t Ht).
  - rewrite Hmax. intros l t Hg'. eapply lm_get_bound; eassumption.
Qed.

(* ------------------------------------------------------------ errors *)
From Coq Require Import Relations.Relation_Operators.

Lemma rstep_failed s r e : rstep s r = Failed e ->
  exists l, s = STransfer l /\ lm_get (r_map r) l = None /\
    ((e = FoundCycle l /\ cycle_test (r_stack r) l = true) \/
     (e = LitNotDefined l /\ find_def (r_defs r) l = None)).
Proof.
  destruct s as [l|l d t|l d t|t]; simpl.
  - destruct (lm_get (r_map r) l) eqn:Eg; [discriminate|].
    destruct (cycle_test (r_stack r) l) eqn:Ec.
    + intros [= <-]. exists l. auto.
    + destruct (find_def (r_defs r) l) eqn:Ed; [discriminate|]. intros [= <-]. exists l. auto.
  - discriminate.
  - destruct (sort2 (g_in0 d) t) as [x y].
    destruct (if c_fold (r_cfg r) then fold_gate x y else None); [discriminate|].
    destruct (c_strash (r_cfg r)); [destruct (r_index r !! (x, y))|]; discriminate.
  - destruct (r_stack r) as [|[l d|l d] rest]; discriminate.
Qed.

Lemma renumber_err cfg a e : renumber_aig cfg a = RnErr e ->
  lit_defs a = RErr e \/
  (exists defs, lit_defs a = ROk defs /\ init_state cfg defs a = RErr e) \/
  exists defs l0 s0 r0, lit_defs a = ROk defs /\ In l0 (roots cfg a) /\
    Inv a (base_of a) l0 s0 r0 /\ rstep s0 r0 = Failed e /\ ext (init_raw cfg defs a) r0.
Proof.
  unfold renumber_aig.
  destruct (renumber_new_unfold cfg a) as [(e' & Ed & E)|[(defs & e' & Ed & Ei & E)|(defs & Ed & _ & _ & E)]]; rewrite E.
  - intros [= <-]. left. exact Ed.
  - intros [= <-]. right. left. eauto.
  - destruct (init_state_inv cfg defs a (lit_defs_sound a defs Ed)) as (G0 & Hs0 & _).
    pose proof (transfer_all_inv a (base_of a) (transfer_fuel a) (roots cfg a) _ G0 Hs0) as HT.
    destruct (transfer_all _ _ _) as [r|e'|]; [destruct (build_ordered a r); discriminate| |discriminate].
    intros [= <-]. right. right. destruct HT as (l0 & s0 & r0 & H). exists defs, l0, s0, r0. tauto.
Qed.

Lemma frame_dep a m k : frame_ok a m k -> dep a (N.div2 (cont_lit k)) (N.div2 (want k)).
Proof.
  destruct k as [l d|l d]; simpl.
  - intros [Hin Ho]. exists d. split; [exact Hin|]. split; [|left; reflexivity].
    destruct Ho as [->| ->]; [reflexivity|apply lneg_div2].
  - intros ((a0 & Hin) & Ho & _). exists (AndGate a0 (g_in1 d) (g_out d)). split; [exact Hin|]. simpl.
    split; [|right; reflexivity]. destruct Ho as [->| ->]; [reflexivity|apply lneg_div2].
Qed.

Lemma chain_dep a m l0 s : chain_ok a m l0 s ->
  forall k, In k s -> clos_trans N (dep a) (N.div2 (cont_lit k)) (N.div2 (want_top s l0)).
Proof.
  induction s as [|k0 rest IH]; simpl; intros H k Hk; [destruct Hk|].
  destruct H as (Hf & Hl & Hc). destruct Hk as [<-|Hk].
  - apply t_step. apply (frame_dep a m). exact Hf.
  - eapply t_trans; [apply (IH Hc k Hk)|]. rewrite <- Hl. apply t_step. apply (frame_dep a m). exact Hf.
Qed.

Lemma cycle_test_true s l : cycle_test s l = true -> exists k, In k s /\ l = cont_lit k.
Proof.
  unfold cycle_test. destruct (stack_mid s) as [k|] eqn:E; [|discriminate].
  intros H. apply N.eqb_eq in H. exists k. split; [|exact H].
  unfold stack_mid in E. destruct s; [discriminate|]. eapply nth_error_In. exact E.
Qed.

(* FoundCycle: the literal's variable depends on itself through one or more gates *)
Theorem renumber_cycle_real cfg a l :
  renumber_aig cfg a = RnErr (FoundCycle l) -> clos_trans N (dep a) (N.div2 l) (N.div2 l).
Proof.
  intros H. apply renumber_err in H.
  destruct H as [H|[(defs & Hd & H)|(defs & l0 & s0 & r0 & Hd & Hl0 & [G S] & Hf & He)]].
  - apply lit_defs_err in H. destruct H as (? & ? & ? & _ & [=] & _).
  - apply (init_state_err cfg defs a _ Hd) in H. destruct H as (? & [=] & _).
  - apply rstep_failed in Hf. destruct Hf as (l' & -> & Hg & [[[= <-] Hc]|[[=] _]]).
    destruct S as [Hch Hl]. apply cycle_test_true in Hc. destruct Hc as (k & Hk & Hlk).
    pose proof (chain_dep _ _ _ _ Hch k Hk) as Hp. rewrite <- Hl, <- Hlk in Hp. exact Hp.
Qed.

Lemma find_def_none a defs l :
  (forall k x y, defs !! k = Some (DGate x y) <-> In (AndGate x y k) (a_gates a)) ->
  find_def defs l = None -> ~ In (N.div2 l) (map gvar (a_gates a)).
Proof.
  intros Hd Hf Hin. apply in_map_iff in Hin. destruct Hin as (g & Hv & Hin).
  rewrite <- (gate_eta g) in Hin. apply Hd in Hin. unfold find_def in Hf.
  destruct (same_var _ _ Hv) as [E|E]; rewrite E in Hin; rewrite Hin in Hf; [|discriminate].
  destruct (defs !! lneg l) as [[| |? ?]|]; discriminate.
Qed.

(* LitNotDefined: the literal's variable is not the constant, no input, no latch state, no gate output *)
Theorem renumber_undefined_real cfg a l :
  renumber_aig cfg a = RnErr (LitNotDefined l) -> ~ In (N.div2 l) (defined_vars a).
Proof.
  intros H. apply renumber_err in H.
  destruct H as [H|[(defs & Hd & H)|(defs & l0 & s0 & r0 & Hd & Hl0 & [G S] & Hf & He)]].
  - apply lit_defs_err in H. destruct H as (? & ? & ? & _ & [=] & _).
  - apply (init_state_err cfg defs a _ Hd) in H. destruct H as (? & [=] & _).
  - apply rstep_failed in Hf. destruct Hf as (l' & -> & Hg & [[[=] _]|[[= <-] Hfd]]).
    destruct (init_state_inv cfg defs a (lit_defs_sound a defs Hd)) as (_ & _ & _ & Hdefs0 & Hk0 & Hki & Hkl).
    destruct He as (_ & Hdefs & Hdom). apply lm_get_None in Hg.
    assert (Hnot : forall k, N.div2 k = N.div2 l -> ~ is_Some (r_map (init_raw cfg defs a) !! lkey k)).
    { intros k Hk Hs. apply Hdom in Hs. apply lkey_eq_iff in Hk. rewrite Hk, Hg in Hs. destruct Hs; discriminate. }
    unfold defined_vars. intros [H0|Hin].
    + apply (Hnot 0); [exact H0|exact Hk0].
    + apply in_app_or in Hin. destruct Hin as [Hin|Hin].
      * apply in_map_iff in Hin. destruct Hin as (x & Hx & Hin). apply (Hnot x Hx). apply Hki. exact Hin.
      * apply in_app_or in Hin. destruct Hin as [Hin|Hin].
        -- apply in_map_iff in Hin. destruct Hin as (x & Hx & Hin). apply (Hnot (l_state x) Hx). apply Hkl. exact Hin.
        -- rewrite Hdefs, Hdefs0 in Hfd. exact (find_def_none a defs l (proj2 (lit_defs_ok a defs Hd)) Hfd Hin).
Qed.

Lemma first_clash_not_nodup xs l : first_clash xs l -> ~ List.NoDup (map N.div2 xs).
Proof.
  intros (pre & post & -> & _ & Hin) Hnd. rewrite map_app in Hnd. simpl in Hnd.
  apply NoDup_app_iff in Hnd. destruct Hnd as (_ & _ & Hd). apply (Hd _ Hin). left. reflexivity.
Qed.

Lemma lit_defs_first_clash a e : lit_defs a = RErr e -> exists l, e = LitAlreadyDefined l /\ first_clash (check_order a) l.
Proof.
  intros H. apply lit_defs_err in H. destruct H as (pre & l & post & E & -> & _ & Hnd & Hin).
  exists l. split; [reflexivity|]. exists pre, (post ++ map l_state (a_latches a)). split; [|auto].
  unfold check_order.
  change (0 :: a_inputs a ++ map g_out (a_gates a) ++ map l_state (a_latches a))
    with ((0 :: a_inputs a) ++ map g_out (a_gates a) ++ map l_state (a_latches a)).
  rewrite app_assoc. change ((0 :: a_inputs a) ++ map g_out (a_gates a)) with (0 :: a_inputs a ++ map g_out (a_gates a)).
  rewrite E, <- app_assoc. reflexivity.
Qed.

(* LitAlreadyDefined l: in the order constant, inputs, gate outputs, latch states, l is the first
   literal whose variable was defined before it; and every such graph is rejected with that literal *)
Theorem renumber_redefined_iff cfg a l :
  renumber_aig cfg a = RnErr (LitAlreadyDefined l) <-> first_clash (check_order a) l.
Proof.
  split.
  - intros H. apply renumber_err in H.
    destruct H as [H|[(defs & Hd & H)|(defs & l0 & s0 & r0 & _ & _ & _ & Hf & _)]].
    + apply lit_defs_first_clash in H. destruct H as (l' & [= <-] & H). exact H.
    + apply (init_state_err cfg defs a _ Hd) in H. destruct H as (s & [= <-] & _ & H). exact H.
    + apply rstep_failed in Hf. destruct Hf as (l' & _ & _ & [[[=] _]|[[=] _]]).
  - intros Hc. unfold renumber_aig.
    destruct (renumber_new_unfold cfg a) as [(e & Ed & E)|[(defs & e & Ed & Ei & E)|(defs & Ed & _ & Hwf & E)]].
    + rewrite E. apply lit_defs_first_clash in Ed. destruct Ed as (l' & -> & Hc').
      rewrite (first_clash_fun _ _ _ Hc Hc'). reflexivity.
    + rewrite E. apply (init_state_err cfg defs a _ Ed) in Ei. destruct Ei as (l' & -> & _ & Hc').
      rewrite (first_clash_fun _ _ _ Hc Hc'). reflexivity.
    + exfalso. apply wf_defs_check_order in Hwf. exact (first_clash_not_nodup _ _ Hc Hwf).
Qed.

(* no variable defined twice (latch states included) <-> no LitAlreadyDefined *)
Theorem renumber_wf_iff cfg a :
  wf_defs a <-> forall l, renumber_aig cfg a <> RnErr (LitAlreadyDefined l).
Proof.
  split.
  - intros Hwf l H. apply renumber_redefined_iff in H. apply wf_defs_check_order in Hwf.
    exact (first_clash_not_nodup _ _ H Hwf).
  - intros H. unfold renumber_aig in H.
    destruct (renumber_new_unfold cfg a) as [(e & Ed & E)|[(defs & e & Ed & Ei & E)|(defs & Ed & _ & Hwf & E)]].
    + rewrite E in H. apply lit_defs_first_clash in Ed. destruct Ed as (l' & -> & _). exfalso. apply (H l'). reflexivity.
    + rewrite E in H. apply (init_state_err cfg defs a _ Ed) in Ei. destruct Ei as (l' & -> & _).
      exfalso. apply (H l'). reflexivity.
    + exact Hwf.
Qed.

(* a returned circuit means that no variable was defined twice *)
Theorem renumber_ok_wf cfg a o r : renumber_aig cfg a = RnOk o r -> wf_defs a.
Proof. intros H. apply (renumber_wf_iff cfg a). intros l E. congruence. Qed.

(* a latch whose state variable is the constant, an input, a gate output or an earlier latch (either
   polarity), in a graph without an earlier clash, is rejected with that latch's state literal *)
Theorem renumber_latch_clash cfg a pre s post :
  map l_state (a_latches a) = pre ++ s :: post ->
  List.NoDup (map N.div2 ((0 :: a_inputs a ++ map g_out (a_gates a)) ++ pre)) ->
  In (N.div2 s) (map N.div2 ((0 :: a_inputs a ++ map g_out (a_gates a)) ++ pre)) ->
  renumber_aig cfg a = RnErr (LitAlreadyDefined s).
Proof.
  intros E Hnd Hin. apply renumber_redefined_iff.
  exists ((0 :: a_inputs a ++ map g_out (a_gates a)) ++ pre), post. split; [|auto].
  unfold check_order. rewrite E. simpl. rewrite <- !app_assoc. reflexivity.
Qed.

(* ... which reports the first input or gate output whose variable was defined before it (by the
   constant, an input or a gate), and succeeds exactly when there is none *)
Theorem lit_defs_redefined a e : lit_defs a = RErr e ->
  exists pre l post, 0 :: a_inputs a ++ map g_out (a_gates a) = pre ++ l :: post /\
    e = LitAlreadyDefined l /\ pre <> [] /\ List.NoDup (map N.div2 pre) /\ In (N.div2 l) (map N.div2 pre).
Proof. exact (lit_defs_err a e). Qed.

Theorem lit_defs_ok_iff a : (exists d, lit_defs a = ROk d) <-> List.NoDup (checked_vars a).
Proof.
  split.
  - intros [d H]. apply (lit_defs_ok a d H).
  - intros Hnd. destruct (lit_defs a) as [d|e] eqn:E; [eauto|].
    apply lit_defs_err in E. destruct E as (pre & l & post & Hl & _ & _ & _ & Hin).
    rewrite checked_vars_map, Hl, map_app in Hnd. simpl in Hnd.
    apply NoDup_remove_2 in Hnd. exfalso. apply Hnd. apply in_or_app. left. exact Hin.
Qed.

(* ------------------------------------------------------------ semantics: basic facts *)

Lemma eval_same_var a ρ n l l' b :
  eval a ρ n l = Some b -> N.div2 l' = N.div2 l ->
  eval a ρ n l' = Some (xorb b (xorb (N.odd l) (N.odd l'))).
Proof.
  destruct n as [|n]; simpl; [discriminate|]. intros H E. rewrite E.
  destruct (if N.div2 l =? 0 then Some false else _) as [vb|]; [|discriminate].
  injection H as <-. f_equal. destruct vb, (N.odd l), (N.odd l'); reflexivity.
Qed.

Lemma eval_mono a ρ : forall n l b, eval a ρ n l = Some b -> forall m, (n <= m)%nat -> eval a ρ m l = Some b.
Proof.
  induction n as [|n IH]; intros l b H m Hm; [discriminate|].
  destruct m as [|m]; [lia|]. simpl in *.
  destruct (N.div2 l =? 0); [exact H|].
  destruct (find_key (fun x => x) (N.div2 l) (a_inputs a) 0) as [[i x]|]; [exact H|].
  destruct (find_key l_state (N.div2 l) (a_latches a) 0) as [[j x]|]; [exact H|].
  destruct (find_key g_out (N.div2 l) (a_gates a) 0) as [[j g]|]; [|exact H].
  destruct (eval a ρ n (g_in0 g)) as [x|] eqn:E0; [|discriminate].
  destruct (eval a ρ n (g_in1 g)) as [y|] eqn:E1; [|discriminate].
  rewrite (IH _ _ E0 m), (IH _ _ E1 m) by lia. exact H.
Qed.

Lemma evals_fun a ρ l b b' : evals a ρ l b -> evals a ρ l b' -> b = b'.
Proof.
  intros [n Hn] [m Hm]. apply (eval_mono _ _ _ _ _) with (m := Nat.max n m) in Hn; [|lia].
  apply (eval_mono _ _ _ _ _) with (m := Nat.max n m) in Hm; [|lia]. congruence.
Qed.

Lemma evals_same_var a ρ l l' b :
  evals a ρ l b -> N.div2 l' = N.div2 l -> evals a ρ l' (xorb b (xorb (N.odd l) (N.odd l'))).
Proof. intros [n H] E. exists n. apply eval_same_var; assumption. Qed.

Lemma lkey_div2 l : N.div2 (lkey l) = N.div2 l.
Proof. rewrite lkey_spec. apply div2_double. Qed.

Lemma lkey_odd l : N.odd (lkey l) = false.
Proof. rewrite lkey_spec. apply odd_double. Qed.

Lemma evals_const a ρ : evals a ρ 0 false.
Proof. exists 1%nat. reflexivity. Qed.

Lemma find_key_none {A} (key : A -> lit) v l : forall i,
  ~ In v (map (fun x => N.div2 (key x)) l) -> find_key key v l i = None.
Proof.
  induction l as [|x l IH]; simpl; intros i H; [reflexivity|].
  destruct (N.eqb_spec (N.div2 (key x)) v) as [E|E]; [exfalso; apply H; left; exact E|].
  apply IH. intros Hin. apply H. right. exact Hin.
Qed.

Lemma find_key_nodup {A} (key : A -> lit) l : forall i j x,
  List.NoDup (map (fun x => N.div2 (key x)) l) -> nth_error l j = Some x ->
  find_key key (N.div2 (key x)) l i = Some ((i + j)%nat, x).
Proof.
  induction l as [|y l IH]; intros i j x Hnd Hn; [destruct j; discriminate|].
  simpl in Hnd. inversion Hnd as [|? ? Hnot Hnd']; subst. destruct j as [|j]; simpl in *.
  - injection Hn as ->. rewrite N.eqb_refl. rewrite Nat.add_0_r. reflexivity.
  - destruct (N.eqb_spec (N.div2 (key y)) (N.div2 (key x))) as [E|E].
    + exfalso. apply Hnot. rewrite E. apply in_map_iff. exists x. split; [reflexivity|]. eapply nth_error_In. exact Hn.
    + rewrite (IH (S i) j x Hnd' Hn). f_equal. f_equal. lia.
Qed.

Lemma NoDup_app_l {A} (l1 l2 : list A) : List.NoDup (l1 ++ l2) -> List.NoDup l1.
Proof. induction l1 as [|x l1 IH]; simpl; intros H; [constructor|]. inversion H; subst. constructor; [|auto]. intros Hin. apply H2. apply in_or_app. left. exact Hin. Qed.

Lemma NoDup_app_r {A} (l1 l2 : list A) : List.NoDup (l1 ++ l2) -> List.NoDup l2.
Proof. induction l1 as [|x l1 IH]; simpl; intros H; [exact H|]. inversion H; subst. auto. Qed.

Lemma NoDup_app_disj {A} (l1 l2 : list A) x : List.NoDup (l1 ++ l2) -> In x l1 -> In x l2 -> False.
Proof.
  induction l1 as [|y l1 IH]; simpl; intros H H1 H2; [destruct H1|]. inversion H; subst.
  destruct H1 as [->|H1]; [apply H4; apply in_or_app; right; exact H2|auto].
Qed.

Section WithWf.
  Variable a : aig.
  Hypothesis Hwf : wf_defs a.

  Let ivars := map N.div2 (a_inputs a).
  Let lvars := map (fun l => N.div2 (l_state l)) (a_latches a).
  Let gvars := map (fun g => N.div2 (g_out g)) (a_gates a).

  Lemma wf_parts :
    ~ In 0 (ivars ++ lvars ++ gvars) /\ List.NoDup ivars /\ List.NoDup lvars /\ List.NoDup gvars /\
    (forall v, In v ivars -> ~ In v lvars /\ ~ In v gvars) /\ (forall v, In v lvars -> ~ In v gvars).
  Proof.
    unfold wf_defs, defined_vars in Hwf. fold ivars lvars gvars in Hwf.
    inversion Hwf as [|? ? H0 Hnd]; subst. split; [exact H0|].
    split; [exact (NoDup_app_l _ _ Hnd)|]. pose proof (NoDup_app_r _ _ Hnd) as Hnd2.
    split; [exact (NoDup_app_l _ _ Hnd2)|]. split; [exact (NoDup_app_r _ _ Hnd2)|]. split.
    - intros v Hv. split; intros Hv'; apply (NoDup_app_disj _ _ v Hnd Hv); apply in_or_app; [left|right]; exact Hv'.
    - intros v Hv Hv'. exact (NoDup_app_disj _ _ v Hnd2 Hv Hv').
  Qed.

  Lemma evals_input ρ i x : nth_error (a_inputs a) i = Some x -> evals a ρ x (v_in ρ i).
  Proof.
    intros Hn. destruct wf_parts as (H0 & Hni & _). exists 1%nat. simpl.
    assert (Hin : In (N.div2 x) ivars) by (apply in_map; eapply nth_error_In; exact Hn).
    destruct (N.eqb_spec (N.div2 x) 0) as [E|_].
    { exfalso. apply H0. rewrite <- E. apply in_or_app. left. exact Hin. }
    rewrite (find_key_nodup (fun x => x) (a_inputs a) 0 i x Hni Hn). simpl.
    f_equal. destruct (v_in ρ i), (N.odd x); reflexivity.
  Qed.

  Lemma evals_latch ρ j x : nth_error (a_latches a) j = Some x -> evals a ρ (l_state x) (v_latch ρ j).
  Proof.
    intros Hn. destruct wf_parts as (H0 & _ & Hnl & _ & Hil & _). exists 1%nat. simpl.
    assert (Hin : In (N.div2 (l_state x)) lvars).
    { apply in_map_iff. exists x. split; [reflexivity|]. eapply nth_error_In. exact Hn. }
    destruct (N.eqb_spec (N.div2 (l_state x)) 0) as [E|_].
    { exfalso. apply H0. rewrite <- E. apply in_or_app. right. apply in_or_app. left. exact Hin. }
    rewrite (find_key_none (fun x => x)).
    2:{ intros Hi. apply (proj1 (Hil _ Hi)). exact Hin. }
    rewrite (find_key_nodup l_state (a_latches a) 0 j x Hnl Hn). simpl.
    f_equal. destruct (v_latch ρ j), (N.odd (l_state x)); reflexivity.
  Qed.

  Lemma evals_gate ρ g x y :
    In g (a_gates a) -> evals a ρ (g_in0 g) x -> evals a ρ (g_in1 g) y -> evals a ρ (g_out g) (x && y).
  Proof.
    intros Hg [n Hx] [m Hy]. destruct wf_parts as (H0 & _ & _ & Hng & Hil & Hlg).
    destruct (In_nth_error _ _ Hg) as [j Hn].
    assert (Hin : In (N.div2 (g_out g)) gvars) by (apply in_map_iff; exists g; auto).
    exists (S (Nat.max n m)). simpl.
    destruct (N.eqb_spec (N.div2 (g_out g)) 0) as [E|_].
    { exfalso. apply H0. rewrite <- E. apply in_or_app. right. apply in_or_app. right. exact Hin. }
    rewrite (find_key_none (fun x => x)).
    2:{ intros Hi. apply (proj2 (Hil _ Hi)). exact Hin. }
    rewrite (find_key_none l_state).
    2:{ intros Hi. apply (Hlg _ Hi). exact Hin. }
    rewrite (find_key_nodup g_out (a_gates a) 0 j g Hng Hn).
    rewrite (eval_mono _ _ _ _ _ Hx), (eval_mono _ _ _ _ _ Hy) by lia.
    f_equal. destruct (x && y), (N.odd (g_out g)); reflexivity.
  Qed.
End WithWf.

(* ------------------------------------------------------------ values of the new variables *)

(* variables 1..nI are the inputs, nI+1.. the latches (positions in the original lists) *)
Definition nv0 (nI : N) (ρ : assignment) (v : N) : bool :=
  if v =? 0 then false
  else if v <=? nI then v_in ρ (N.to_nat (v - 1))
  else v_latch ρ (N.to_nat (v - nI - 1)).

(* [gs] newest first; gate number k (from 0) defines variable base + k + 1 *)
Fixpoint nvals (nI base : N) (ρ : assignment) (gs : list (lit * lit)) (v : N) : bool :=
  match gs with
  | [] => nv0 nI ρ v
  | (x, y) :: rest =>
    if v =? base + N.of_nat (length rest) + 1
    then lit_val (nvals nI base ρ rest) x && lit_val (nvals nI base ρ rest) y
    else nvals nI base ρ rest v
  end.

Lemma nvals_below nI base ρ gs v : v <= base -> nvals nI base ρ gs v = nv0 nI ρ v.
Proof.
  intros Hv. induction gs as [|[x y] rest IH]; simpl; [reflexivity|].
  destruct (N.eqb_spec v (base + N.of_nat (length rest) + 1)); [lia|exact IH].
Qed.

Lemma nvals_cons_old nI base ρ x y rest v :
  v <= base + N.of_nat (length rest) -> nvals nI base ρ ((x, y) :: rest) v = nvals nI base ρ rest v.
Proof. intros Hv. simpl. destruct (N.eqb_spec v (base + N.of_nat (length rest) + 1)); [lia|reflexivity]. Qed.

Lemma lit_val_cons_old nI base ρ x y rest t :
  N.div2 t <= base + N.of_nat (length rest) ->
  lit_val (nvals nI base ρ ((x, y) :: rest)) t = lit_val (nvals nI base ρ rest) t.
Proof. intros Hv. unfold lit_val. rewrite nvals_cons_old by exact Hv. reflexivity. Qed.

Lemma nvals_cons_new nI base ρ x y rest :
  nvals nI base ρ ((x, y) :: rest) (base + N.of_nat (length rest) + 1) =
  lit_val (nvals nI base ρ rest) x && lit_val (nvals nI base ρ rest) y.
Proof. simpl. rewrite N.eqb_refl. reflexivity. Qed.

Lemma lit_val_const0 nI base ρ gs : lit_val (nvals nI base ρ gs) 0 = false.
Proof. unfold lit_val. rewrite nvals_below by (simpl; lia). reflexivity. Qed.

Lemma lit_val_const1 nI base ρ gs : lit_val (nvals nI base ρ gs) 1 = true.
Proof. unfold lit_val. rewrite nvals_below by (simpl; lia). reflexivity. Qed.

Lemma lit_val_even f c : N.odd c = false -> lit_val f c = f (N.div2 c).
Proof. intros H. unfold lit_val. rewrite H. apply xorb_false_r. Qed.

(* the value of gate j of the final list is the conjunction of its inputs' values *)
Lemma nvals_nth nI base ρ gs : gates_ok base gs ->
  forall j x y, nth_error (rev gs) j = Some (x, y) ->
  nvals nI base ρ gs (base + N.of_nat j + 1) = lit_val (nvals nI base ρ gs) x && lit_val (nvals nI base ρ gs) y.
Proof.
  induction gs as [|[x0 y0] rest IH]; simpl rev; intros H j x y Hn; [destruct j; discriminate|].
  destruct H as (H1 & H2 & H3).
  destruct (Nat.lt_ge_cases j (length (rev rest))) as [Hlt|Hge].
  - rewrite nth_error_app1 in Hn by exact Hlt. rewrite rev_length in Hlt.
    destruct (gates_ok_nth base rest H3 j x y Hn) as [Hx Hy].
    assert (Hy' : N.div2 y <= N.div2 x) by (rewrite !N.div2_div; apply N.div_le_mono; lia).
    rewrite nvals_cons_old by lia. rewrite !lit_val_cons_old by lia. apply (IH H3 j x y Hn).
  - rewrite nth_error_app2 in Hn by exact Hge.
    destruct (j - length (rev rest))%nat as [|k] eqn:Ek; simpl in Hn; [|destruct k; discriminate].
    injection Hn as <- <-. rewrite rev_length in *. replace j with (length rest) by lia.
    assert (Hy' : N.div2 y0 <= N.div2 x0) by (rewrite !N.div2_div; apply N.div_le_mono; lia).
    rewrite nvals_cons_new. rewrite !lit_val_cons_old by lia. reflexivity.
Qed.

(* ------------------------------------------------------------ semantic invariant *)

Lemma fold_gate_sound nI base ρ gs x y f :
  fold_gate x y = Some f ->
  lit_val (nvals nI base ρ gs) f = lit_val (nvals nI base ρ gs) x && lit_val (nvals nI base ρ gs) y.
Proof.
  unfold fold_gate.
  destruct (N.eqb_spec x 0) as [->|Hx0]; simpl orb.
  { intros [= <-]. rewrite lit_val_const0. reflexivity. }
  destruct (N.eqb_spec y 0) as [->|Hy0]; simpl orb.
  { intros [= <-]. rewrite lit_val_const0, andb_false_r. reflexivity. }
  destruct (N.eqb_spec x 1) as [->|Hx1]; simpl orb.
  { intros [= <-]. rewrite lit_val_const1. reflexivity. }
  destruct (N.eqb_spec x y) as [->|Hxy]; simpl orb.
  { intros [= <-]. rewrite andb_diag. reflexivity. }
  destruct (N.eqb_spec y 1) as [->|Hy1]; [|discriminate].
  intros [= <-]. rewrite lit_val_const1, andb_true_r. reflexivity.
Qed.

Section Sound.
  Variable a : aig.
  Hypothesis Hwf : wf_defs a.
  Variable ρ : assignment.

  Let nI := N.of_nat (length (a_inputs a)).
  Let base := base_of a.

  Definition nv (r : rstate) : N -> bool := nvals nI base ρ (r_gates r).

  (* the new literal [t] has the value of the original literal [l] *)
  Definition sval (r : rstate) (l t : lit) : Prop := evals a ρ l (lit_val (nv r) t).

  Definition map_sound (r : rstate) : Prop := forall k f, r_map r !! k = Some f -> sval r k f.

  Definition index_sound (r : rstate) : Prop :=
    forall x y c, r_index r !! (x, y) = Some c ->
      N.odd c = false /\ nv r (N.div2 c) = lit_val (nv r) x && lit_val (nv r) y /\
      N.div2 x <= maxv base r /\ N.div2 y <= maxv base r.

  Definition sframe_ok (r : rstate) (k : cont) : Prop :=
    match k with
    | KInput0 _ _ => True
    | KInput1 _ d => exists a0, In (AndGate a0 (g_in1 d) (g_out d)) (a_gates a) /\ sval r a0 (g_in0 d)
    end.

  Definition sstate_ok (s : tstate) (r : rstate) : Prop :=
    Forall (sframe_ok r) (r_stack r) /\
    match s with
    | SInput0 _ d t => sval r (g_in0 d) t
    | SInput1 l d t => sframe_ok r (KInput1 l d) /\ sval r (g_in1 d) t
    | _ => True
    end.

  Definition SInv (s : tstate) (r : rstate) : Prop := map_sound r /\ index_sound r /\ sstate_ok s r.

  Lemma lm_get_sound r l t : map_sound r -> lm_get (r_map r) l = Some t -> sval r l t.
  Proof.
    intros Hm H. apply lm_get_Some in H. destruct H as (f & Hf & ->). apply Hm in Hf. unfold sval in *.
    rewrite lpol_spec, lit_val_lxor.
    pose proof (evals_same_var a ρ (lkey l) l _ Hf (eq_sym (lkey_div2 l))) as H.
    rewrite lkey_odd in H. destruct (N.odd l); exact H.
  Qed.

  Lemma map_sound_finish r out code :
    map_sound r -> evals a ρ out (lit_val (nv r) code) ->
    map_sound (set_map (lm_insert (r_map r) out code) r).
  Proof.
    intros Hm He k f. simpl. unfold lm_insert. destruct (decide (k = lkey out)) as [->|Hne].
    - rewrite lookup_insert. intros [= <-]. unfold sval. change (nv (set_map _ r)) with (nv r).
      rewrite lpol_spec, lit_val_lxor.
      pose proof (evals_same_var a ρ out (lkey out) _ He (lkey_div2 out)) as H.
      rewrite lkey_odd, xorb_false_r in H. exact H.
    - rewrite lookup_insert_ne by congruence. apply Hm.
  Qed.

  Lemma sframes_grow l0 x y r idx s :
    chain_ok a (maxv base r) l0 s -> Forall (sframe_ok r) s -> Forall (sframe_ok (snd (emit x y r idx))) s.
  Proof.
    induction s as [|k s IH]; simpl; intros Hc Hf; [constructor|].
    destruct Hc as (Hk & _ & Hc). inversion Hf as [|? ? Hk' Hf']; subst. constructor; [|auto].
    destruct k as [l d|l d]; simpl in *; [trivial|].
    destruct Hk as (_ & _ & Hb). destruct Hk' as (a0 & Hin & Hs). exists a0. split; [exact Hin|].
    unfold sval, nv in *. simpl r_gates. rewrite lit_val_cons_old by exact Hb. exact Hs.
  Qed.

  Lemma sinv_emit l0 x y r idx :
    ginv a base r -> chain_ok a (maxv base r) l0 (r_stack r) ->
    map_sound r -> Forall (sframe_ok r) (r_stack r) ->
    N.div2 x <= maxv base r -> N.div2 y <= maxv base r ->
    let r1 := snd (emit x y r idx) in
    map_sound r1 /\ Forall (sframe_ok r1) (r_stack r1) /\
    lit_val (nv r1) (fst (emit x y r idx)) = lit_val (nv r) x && lit_val (nv r) y /\
    (index_sound r -> idx = r_index r \/ idx = <[(x, y) := r_last r + 2]> (r_index r) -> index_sound r1).
  Proof.
    intros G Hc Hm Hf Hx Hy r1.
    assert (Hnew : nv r1 (maxv base r + 1) = lit_val (nv r) x && lit_val (nv r) y).
    { unfold nv, r1, emit, maxv. simpl. rewrite N.eqb_refl. reflexivity. }
    assert (Hold : forall t, N.div2 t <= maxv base r -> lit_val (nv r1) t = lit_val (nv r) t).
    { intros t Ht. unfold nv, r1, emit. simpl r_gates. apply lit_val_cons_old. exact Ht. }
    assert (Hcode : fst (emit x y r idx) = 2 * (maxv base r + 1)).
    { unfold emit; simpl. rewrite (gi_last _ _ _ G). lia. }
    split; [|split; [|split]].
    - intros k f Hk. change (r_map r1) with (r_map r) in Hk. unfold sval. rewrite Hold; [apply Hm; exact Hk|].
      eapply gi_map; eassumption.
    - change (r_stack r1) with (r_stack r). eapply sframes_grow; eassumption.
    - rewrite Hcode, lit_val_even by apply odd_double. rewrite div2_double. exact Hnew.
    - intros Hi Hidx x' y' c Hc'. change (r_index r1) with idx in Hc'.
      assert (Hm1 : maxv base r1 = maxv base r + 1).
      { unfold maxv, r1, emit; simpl. rewrite Nat2N.inj_succ. lia. }
      rewrite Hm1.
      assert (Hcase : r_index r !! (x', y') = Some c \/ ((x', y') = (x, y) /\ c = r_last r + 2)).
      { destruct Hidx as [->| ->]; [left; exact Hc'|].
        destruct (decide ((x', y') = (x, y))) as [E|E].
        - rewrite E, lookup_insert in Hc'. injection Hc' as <-. right. auto.
        - rewrite lookup_insert_ne in Hc' by congruence. left. exact Hc'. }
      destruct Hcase as [Hc0|[[= -> ->] ->]].
      + pose proof (gi_index _ _ _ G _ _ Hc0) as Hcb. destruct (Hi _ _ _ Hc0) as (Ho & Hv & Hbx & Hby).
        split; [exact Ho|]. split; [|lia]. rewrite !Hold by assumption. rewrite <- Hv.
        unfold nv, r1, emit. simpl r_gates. apply nvals_cons_old. exact Hcb.
      + rewrite (gi_last _ _ _ G). replace (2 * maxv base r + 2) with (2 * (maxv base r + 1)) by lia.
        split; [apply odd_double|]. rewrite div2_double. split; [|lia]. rewrite !Hold by assumption. exact Hnew.
  Qed.

  Lemma step_sinv l0 s r s' r' :
    Inv a base l0 s r -> SInv s r -> rstep s r = Next s' r' -> SInv s' r'.
  Proof.
    intros [G S] (Hm & Hi & Hfr & Hst) H. destruct s as [l|l d t|l d t|t]; simpl in H.
    - (* Transfer *)
      destruct (lm_get (r_map r) l) as [t|] eqn:Eg.
      + injection H as <- <-. exact (conj Hm (conj Hi (conj Hfr I))).
      + destruct (cycle_test (r_stack r) l); [discriminate|].
        destruct (find_def (r_defs r) l) as [d|] eqn:Ed; [|discriminate].
        injection H as <- <-. split; [exact Hm|]. split; [exact Hi|]. split; [|exact I].
        simpl. constructor; [exact I|exact Hfr].
    - (* Input0 *)
      destruct S as (Hc & (Hin & Hout) & Hl & Ht).
      injection H as <- <-. split; [exact Hm|]. split; [exact Hi|]. split; [|exact I].
      simpl. constructor; [|exact Hfr]. simpl. exists (g_in0 d). rewrite gate_eta. split; assumption.
    - (* Input1 *)
      destruct S as (Hc & (_ & Hout & Hv0) & Hl & Ht).
      destruct Hst as ((a0 & Hin & Hs0) & Hs1).
      destruct (sort2 (g_in0 d) t) as [x y] eqn:Es.
      destruct (sort2_spec _ _ _ _ Es) as [Hyx Hxy].
      assert (Hx : N.div2 x <= maxv base r) by (destruct Hxy as [[-> ->]|[-> ->]]; assumption).
      assert (Hy : N.div2 y <= maxv base r) by (destruct Hxy as [[-> ->]|[-> ->]]; assumption).
      assert (Hgate : evals a ρ (g_out d) (lit_val (nv r) x && lit_val (nv r) y)).
      { pose proof (evals_gate a Hwf ρ _ _ _ Hin Hs0 Hs1) as Hg. simpl in Hg.
        destruct Hxy as [[-> ->]|[-> ->]]; [exact Hg|rewrite andb_comm; exact Hg]. }
      destruct (if c_fold (r_cfg r) then fold_gate x y else None) as [folded|] eqn:Ef.
      + injection H as <- <-.
        assert (Hfs : lit_val (nv r) folded = lit_val (nv r) x && lit_val (nv r) y).
        { destruct (c_fold (r_cfg r)); [|discriminate]. apply fold_gate_sound. exact Ef. }
        split; [apply map_sound_finish; [exact Hm|rewrite Hfs; exact Hgate]|].
        split; [exact Hi|]. split; [exact Hfr|exact I].
      + destruct (c_strash (r_cfg r)).
        * destruct (r_index r !! (x, y)) as [c|] eqn:Ei.
          -- injection H as <- <-. destruct (Hi _ _ _ Ei) as (Ho & Hv & _).
             split; [apply map_sound_finish; [exact Hm|rewrite lit_val_even, Hv by exact Ho; exact Hgate]|].
             split; [exact Hi|]. split; [exact Hfr|exact I].
          -- destruct (sinv_emit l0 x y r (<[(x, y):=r_last r + 2]> (r_index r)) G Hc Hm Hfr Hx Hy) as (Hm1 & Hf1 & Hc1 & Hi1).
             destruct (emit x y r (<[(x, y):=r_last r + 2]> (r_index r))) as [code r1] eqn:Ee. simpl in *.
             injection H as <- <-.
             split; [apply map_sound_finish; [exact Hm1|rewrite Hc1; exact Hgate]|].
             split; [apply (Hi1 Hi); right; reflexivity|]. split; [exact Hf1|exact I].
        * destruct (sinv_emit l0 x y r (r_index r) G Hc Hm Hfr Hx Hy) as (Hm1 & Hf1 & Hc1 & Hi1).
          destruct (emit x y r (r_index r)) as [code r1] eqn:Ee. simpl in *.
          injection H as <- <-.
          split; [apply map_sound_finish; [exact Hm1|rewrite Hc1; exact Hgate]|].
          split; [apply (Hi1 Hi); left; reflexivity|]. split; [exact Hf1|exact I].
    - (* Return *)
      destruct S as [Hc Hg].
      destruct (r_stack r) as [|k rest] eqn:Est; [discriminate|].
      inversion Hfr as [|? ? Hk Hrest]; subst.
      pose proof (lm_get_sound r _ _ Hm Hg) as Hs.
      destruct k as [l d|l d]; injection H as <- <-.
      + split; [exact Hm|]. split; [exact Hi|]. split; [exact Hrest|]. exact Hs.
      + split; [exact Hm|]. split; [exact Hi|]. split; [exact Hrest|]. split; [exact Hk|exact Hs].
  Qed.
End Sound.

(* ------------------------------------------------------------ evaluating Aig::from(ordered) *)

Lemma find_key_at {A} (key : A -> lit) (l : list A) : forall (s : N) i j x v,
  (forall j x, nth_error l j = Some x -> N.div2 (key x) = s + N.of_nat j) ->
  nth_error l j = Some x -> v = s + N.of_nat j ->
  find_key key v l i = Some ((i + j)%nat, x).
Proof.
  induction l as [|y l IH]; intros s i j x v Hk Hn Hv; [destruct j; discriminate|].
  simpl. pose proof (Hk 0%nat y eq_refl) as Hy. simpl in Hy.
  destruct j as [|j]; simpl in Hn.
  - injection Hn as ->. subst v. rewrite Hy, N.eqb_refl, Nat.add_0_r. reflexivity.
  - destruct (N.eqb_spec (N.div2 (key y)) v) as [E|E]; [rewrite Nat2N.inj_succ in Hv; lia|].
    rewrite (IH (s + 1) (S i) j x v); [f_equal; f_equal; lia| |exact Hn|rewrite Nat2N.inj_succ in Hv; lia].
    intros j' x' Hn'. rewrite (Hk (S j') x' Hn'), Nat2N.inj_succ. lia.
Qed.

Lemma find_key_outside {A} (key : A -> lit) (l : list A) (s : N) i v :
  (forall j x, nth_error l j = Some x -> N.div2 (key x) = s + N.of_nat j) ->
  v < s \/ s + N.of_nat (length l) <= v -> find_key key v l i = None.
Proof.
  intros Hk Hv. apply find_key_none. intros Hin. apply in_map_iff in Hin. destruct Hin as (x & Hx & Hin).
  destruct (In_nth_error _ _ Hin) as [j Hj]. pose proof (Hk j x Hj) as E.
  assert (j < length l)%nat by (apply nth_error_Some; congruence). lia.
Qed.

Lemma number_inputs_nth n : forall c j x, nth_error (number_inputs c n) j = Some x -> x = c + 2 * N.of_nat j /\ (j < n)%nat.
Proof.
  induction n as [|n IH]; intros c j x; simpl; [destruct j; discriminate|].
  destruct j as [|j]; simpl.
  - intros [= <-]. split; [lia|lia].
  - intros H. apply IH in H. rewrite Nat2N.inj_succ. split; [lia|lia].
Qed.

Lemma number_inputs_nth_ok n : forall c j, (j < n)%nat -> nth_error (number_inputs c n) j = Some (c + 2 * N.of_nat j).
Proof.
  induction n as [|n IH]; intros c j Hj; [lia|]. destruct j as [|j]; simpl.
  - f_equal. lia.
  - rewrite IH by lia. f_equal. rewrite Nat2N.inj_succ. lia.
Qed.

Lemma number_latches_nth ls : forall c j x, nth_error (number_latches c ls) j = Some x ->
  l_state x = c + 2 * N.of_nat j /\ nth_error ls j = Some (l_next x, l_init x).
Proof.
  induction ls as [|[nx ini] ls IH]; intros c j x; simpl; [destruct j; discriminate|].
  destruct j as [|j]; simpl.
  - intros [= <-]. simpl. split; [lia|reflexivity].
  - intros H. apply IH in H. rewrite Nat2N.inj_succ. destruct H as [-> H]. split; [lia|exact H].
Qed.

Lemma number_latches_length ls : forall c, length (number_latches c ls) = length ls.
Proof. induction ls as [|[nx ini] ls IH]; intros c; simpl; [reflexivity|]. rewrite IH. reflexivity. Qed.

Lemma number_latches_nth_ok ls : forall c j nx ini, nth_error ls j = Some (nx, ini) ->
  nth_error (number_latches c ls) j = Some (Latch (c + 2 * N.of_nat j) nx ini).
Proof.
  induction ls as [|[nx0 ini0] ls IH]; intros c j nx ini; [destruct j; discriminate|].
  destruct j as [|j]; simpl.
  - intros [= -> ->]. do 2 f_equal. lia.
  - intros H. rewrite (IH _ _ _ _ H). do 2 f_equal. rewrite Nat2N.inj_succ. lia.
Qed.

Lemma number_gates_nth gs : forall c j g, nth_error (number_gates c gs) j = Some g ->
  g_out g = c + 2 * N.of_nat j /\ nth_error gs j = Some (g_in0 g, g_in1 g).
Proof.
  induction gs as [|[x y] gs IH]; intros c j g; simpl; [destruct j; discriminate|].
  destruct j as [|j]; simpl.
  - intros [= <-]. simpl. split; [lia|reflexivity].
  - intros H. apply IH in H. rewrite Nat2N.inj_succ. destruct H as [-> H]. split; [lia|exact H].
Qed.

Lemma number_gates_length gs : forall c, length (number_gates c gs) = length gs.
Proof. induction gs as [|[x y] gs IH]; intros c; simpl; [reflexivity|]. rewrite IH. reflexivity. Qed.

Lemma number_gates_nth_ok gs : forall c j x y, nth_error gs j = Some (x, y) ->
  nth_error (number_gates c gs) j = Some (AndGate x y (c + 2 * N.of_nat j)).
Proof.
  induction gs as [|[x0 y0] gs IH]; intros c j x y; [destruct j; discriminate|].
  destruct j as [|j]; simpl.
  - intros [= -> ->]. do 2 f_equal. lia.
  - intros H. rewrite (IH _ _ _ _ H). do 2 f_equal. rewrite Nat2N.inj_succ. lia.
Qed.

Lemma number_inputs_length n : forall c, length (number_inputs c n) = n.
Proof. induction n as [|n IH]; intros c; simpl; [reflexivity|]. rewrite IH. reflexivity. Qed.

Lemma div2_2s_2j s j : N.div2 (s * 2 + 2 * j) = s + j.
Proof. replace (s * 2 + 2 * j) with (2 * (s + j)) by lia. apply div2_double. Qed.

(* [NV] gives the inputs and latches their assigned values and every gate the conjunction of its inputs *)
Lemma eval_ordered o ρ (NV : N -> bool) :
  let nI := o_input_count o in
  let base := nI + N.of_nat (length (o_latches o)) in
  (forall v, v <= base -> NV v = nv0 nI ρ v) ->
  (forall j x y, nth_error (o_gates o) j = Some (x, y) ->
     N.div2 x <= base + N.of_nat j /\ N.div2 y <= base + N.of_nat j /\
     NV (base + N.of_nat j + 1) = lit_val NV x && lit_val NV y) ->
  forall v, v <= base + N.of_nat (length (o_gates o)) ->
  exists n, forall t, N.div2 t = v -> eval (aig_of_ordered o) ρ n t = Some (lit_val NV t).
Proof.
  intros nI base Hlow Hg v. induction v as [v IH] using (well_founded_induction N.lt_wf_0). intros Hv.
  assert (Kin : forall j x, nth_error (a_inputs (aig_of_ordered o)) j = Some x -> N.div2 ((fun x => x) x) = 1 + N.of_nat j).
  { simpl. intros j x Hn. apply number_inputs_nth in Hn. destruct Hn as [-> _].
    replace (2 + 2 * N.of_nat j) with (2 * (1 + N.of_nat j)) by lia. apply div2_double. }
  assert (Kl : forall j x, nth_error (a_latches (aig_of_ordered o)) j = Some x -> N.div2 (l_state x) = (1 + nI) + N.of_nat j).
  { simpl. intros j x Hn. apply number_latches_nth in Hn. destruct Hn as [-> _]. apply div2_2s_2j. }
  assert (Kg : forall j x, nth_error (a_gates (aig_of_ordered o)) j = Some x -> N.div2 (g_out x) = (1 + base) + N.of_nat j).
  { simpl. intros j x Hn. apply number_gates_nth in Hn. destruct Hn as [-> _]. fold nI. rewrite div2_2s_2j. unfold base. lia. }
  assert (Lin : length (a_inputs (aig_of_ordered o)) = N.to_nat nI) by (simpl; apply number_inputs_length).
  assert (Ll : length (a_latches (aig_of_ordered o)) = length (o_latches o)) by (simpl; apply number_latches_length).
  assert (Lg : length (a_gates (aig_of_ordered o)) = length (o_gates o)) by (simpl; apply number_gates_length).
  destruct (N.eq_dec v 0) as [->|Hv0].
  { exists 1%nat. intros t Ht. simpl. rewrite Ht. simpl. unfold lit_val. rewrite Ht, (Hlow 0) by lia. reflexivity. }
  destruct (N.le_gt_cases v nI) as [Hi|Hi].
  { (* an input *)
    exists 1%nat. intros t Ht. cbn [eval]. rewrite Ht. destruct (N.eqb_spec v 0) as [|_]; [contradiction|].
    assert (Hn : nth_error (a_inputs (aig_of_ordered o)) (N.to_nat (v - 1)) = Some (2 + 2 * N.of_nat (N.to_nat (v - 1)))).
    { simpl. apply number_inputs_nth_ok. lia. }
    rewrite (find_key_at (fun x => x) _ 1 0%nat _ _ v Kin Hn) by lia.
    unfold lit_val. rewrite Ht, Hlow by lia. unfold nv0.
    destruct (N.eqb_spec v 0) as [|_]; [contradiction|]. destruct (N.leb_spec v nI) as [_|]; [|lia].
    replace (2 + 2 * N.of_nat (N.to_nat (v - 1))) with (2 * v) by lia. rewrite odd_double, xorb_false_r. reflexivity. }
  destruct (N.le_gt_cases v base) as [Hl|Hl].
  { (* a latch *)
    exists 1%nat. intros t Ht. cbn [eval]. rewrite Ht. destruct (N.eqb_spec v 0) as [|_]; [contradiction|].
    rewrite (find_key_outside (fun x => x) _ 1 0%nat v Kin) by (rewrite Lin; lia).
    destruct (nth_error (o_latches o) (N.to_nat (v - nI - 1))) as [[nx ini]|] eqn:En.
    2:{ apply nth_error_None in En. unfold base in Hl. lia. }
    pose proof (number_latches_nth_ok _ ((1 + nI) * 2) _ _ _ En) as Hn.
    rewrite (find_key_at l_state _ (1 + nI) 0%nat _ _ v Kl Hn) by lia.
    unfold lit_val. rewrite Ht, Hlow by lia. unfold nv0.
    destruct (N.eqb_spec v 0) as [|_]; [contradiction|]. destruct (N.leb_spec v nI) as [|_]; [lia|].
    simpl l_state. replace ((1 + nI) * 2 + 2 * N.of_nat (N.to_nat (v - nI - 1))) with (2 * v) by lia.
    rewrite odd_double, xorb_false_r. reflexivity. }
  (* a gate *)
  set (j := N.to_nat (v - base - 1)).
  destruct (nth_error (o_gates o) j) as [[x y]|] eqn:En.
  2:{ apply nth_error_None in En. subst j. lia. }
  destruct (Hg j x y En) as (Hx & Hy & Hval).
  assert (Hvj : v = base + N.of_nat j + 1) by (subst j; lia).
  destruct (IH (N.div2 x)) as [n1 H1]; [lia|lia|]. destruct (IH (N.div2 y)) as [n2 H2]; [lia|lia|].
  exists (S (Nat.max n1 n2)). intros t Ht. cbn [eval]. rewrite Ht. destruct (N.eqb_spec v 0) as [|_]; [contradiction|].
  rewrite (find_key_outside (fun x => x) _ 1 0%nat v Kin) by (rewrite Lin; lia).
  rewrite (find_key_outside l_state _ (1 + nI) 0%nat v Kl) by (rewrite Ll; unfold base in Hl; lia).
  pose proof (number_gates_nth_ok _ ((1 + nI + N.of_nat (length (o_latches o))) * 2) _ _ _ En) as Hn.
  rewrite (find_key_at g_out _ (1 + base) 0%nat _ _ v Kg Hn) by lia.
  simpl g_in0. simpl g_in1. simpl g_out.
  rewrite (eval_mono _ _ _ _ _ (H1 x eq_refl)), (eval_mono _ _ _ _ _ (H2 y eq_refl)) by lia.
  unfold lit_val at 3. rewrite Ht, Hvj, Hval.
  replace ((1 + nI + N.of_nat (length (o_latches o))) * 2 + 2 * N.of_nat j) with (2 * (1 + base + N.of_nat j)) by (unfold base; lia).
  rewrite odd_double, xorb_false_r. reflexivity.
Qed.

(* ------------------------------------------------------------ soundness of the whole run *)

Lemma map_fresh_P (P : N -> N -> Prop) ls : forall (m : gmap N N) last m' last',
  map_fresh m last ls = (m', last') ->
  (forall k f, m !! k = Some f -> P k f) ->
  (forall j l, nth_error ls j = Some l -> P (lkey l) (N.lxor (last + 2 * N.of_nat (S j)) (lpol l))) ->
  forall k f, m' !! k = Some f -> P k f.
Proof.
  induction ls as [|l rest IH]; intros m last m' last'; simpl.
  - intros [= <- <-] Hm _. exact Hm.
  - intros H Hm Hl. eapply IH; [exact H| |].
    + intros k f. unfold lm_insert. destruct (decide (k = lkey l)) as [->|Hne].
      * rewrite lookup_insert. intros [= <-]. specialize (Hl 0%nat l eq_refl).
        replace (last + 2 * N.of_nat 1) with (last + 2) in Hl by lia. exact Hl.
      * rewrite lookup_insert_ne by congruence. apply Hm.
    + intros j l' Hn. specialize (Hl (S j) l' Hn).
      replace (last + 2 + 2 * N.of_nat (S j)) with (last + 2 * N.of_nat (S (S j))) by (rewrite !Nat2N.inj_succ; lia).
      exact Hl.
Qed.

Section SoundTop.
  Variable a : aig.
  Hypothesis Hwf : wf_defs a.
  Variable ρ : assignment.

  Let nI := N.of_nat (length (a_inputs a)).
  Let base := base_of a.

  Lemma run_sinv l0 fuel : forall s r, Inv a base l0 s r -> SInv a ρ s r ->
    match run fuel s r with
    | TDone t r' => map_sound a ρ r' /\ index_sound a ρ r'
    | _ => True
    end.
  Proof.
    induction fuel as [|fuel IH]; intros s r HI HS; simpl; [trivial|].
    destruct (rstep s r) as [s' r'|t r'|e] eqn:Hs; [| |trivial].
    - apply IH; [eapply step_inv; eassumption|eapply step_sinv; eassumption].
    - destruct s as [l|l d t'|l d t'|t']; simpl in Hs.
      + destruct (lm_get (r_map r) l); [discriminate|]. destruct (cycle_test (r_stack r) l); [discriminate|].
        destruct (find_def (r_defs r) l); discriminate.
      + discriminate.
      + destruct (sort2 (g_in0 d) t') as [x y].
        destruct (if c_fold (r_cfg r) then fold_gate x y else None); [discriminate|].
        destruct (c_strash (r_cfg r)); [destruct (r_index r !! (x, y))|]; discriminate.
      + destruct (r_stack r) as [|[l d|l d] rest]; try discriminate.
        injection Hs as <- <-. destruct HS as (Hm & Hi & _). auto.
  Qed.

  Lemma transfer_all_sound fuel : forall ls r, ginv a base r -> r_stack r = [] ->
    map_sound a ρ r -> index_sound a ρ r ->
    match transfer_all fuel r ls with
    | IDone r' => map_sound a ρ r' /\ index_sound a ρ r'
    | _ => True
    end.
  Proof.
    induction ls as [|l rest IH]; intros r G Hs Hm Hi; simpl; [auto|].
    unfold transfer.
    pose proof (run_inv a base l fuel _ _ (inv_start a base r l G Hs)) as H1.
    assert (HS : SInv a ρ (STransfer l) r).
    { split; [exact Hm|]. split; [exact Hi|]. split; [rewrite Hs; constructor|exact I]. }
    pose proof (run_sinv l fuel _ _ (inv_start a base r l G Hs) HS) as H2.
    destruct (run fuel (STransfer l) r) as [t r1|e|]; [|trivial|trivial].
    destruct H1 as (G1 & Hs1 & _). destruct H2 as [Hm1 Hi1]. apply IH; assumption.
  Qed.

  Lemma init_sound cfg defs : map_sound a ρ (init_raw cfg defs a) /\ index_sound a ρ (init_raw cfg defs a).
  Proof.
    unfold init_raw.
    destruct (map_fresh (lm_insert ∅ 0 0) 0 (a_inputs a)) as [m1 c1] eqn:E1.
    destruct (map_fresh m1 c1 (map l_state (a_latches a))) as [m2 c2] eqn:E2.
    split; [|intros x y c Hc; simpl in Hc; rewrite lookup_empty in Hc; discriminate].
    set (P := fun k f => evals a ρ k (lit_val (nv0 nI ρ) f)).
    assert (Hc1 : c1 = 2 * nI).
    { apply map_fresh_spec in E1. destruct E1 as [-> _]. subst nI. lia. }
    assert (Hkey : forall l b, evals a ρ l b -> forall c, P (lkey l) (N.lxor (2 * c) (lpol l)) <-> evals a ρ (lkey l) (xorb (nv0 nI ρ c) (N.odd l))).
    { intros l b _ c. unfold P. rewrite lpol_spec, lit_val_lxor. unfold lit_val. rewrite div2_double, odd_double, xorb_false_r. tauto. }
    assert (H1 : forall k f, m1 !! k = Some f -> P k f).
    { eapply map_fresh_P; [exact E1| |].
      - intros k f. unfold lm_insert. change (lkey 0) with 0. destruct (decide (k = 0)) as [->|Hne].
        + rewrite lookup_insert. intros [= <-]. simpl. apply evals_const.
        + rewrite lookup_insert_ne, lookup_empty by congruence. discriminate.
      - intros j l Hn. pose proof (evals_input a Hwf ρ j l Hn) as He.
        replace (0 + 2 * N.of_nat (S j)) with (2 * N.of_nat (S j)) by lia.
        apply (Hkey l _ He). 
        assert (Hj : (j < length (a_inputs a))%nat) by (apply nth_error_Some; congruence).
        unfold nv0. destruct (N.eqb_spec (N.of_nat (S j)) 0) as [|_]; [lia|].
        destruct (N.leb_spec (N.of_nat (S j)) nI) as [_|]; [|subst nI; lia].
        replace (N.to_nat (N.of_nat (S j) - 1)) with j by lia.
        pose proof (evals_same_var a ρ l (lkey l) _ He (lkey_div2 l)) as H. rewrite lkey_odd, xorb_false_r in H. exact H. }
    intros k f Hf. simpl in Hf. unfold sval, nv. simpl r_gates. simpl nvals.
    revert k f Hf. change (forall k f, m2 !! k = Some f -> P k f).
    eapply map_fresh_P; [exact E2|exact H1|].
    intros j l Hn. rewrite nth_error_map in Hn. destruct (nth_error (a_latches a) j) as [x|] eqn:Ex; [|discriminate].
    injection Hn as <-. pose proof (evals_latch a Hwf ρ j x Ex) as He.
    replace (c1 + 2 * N.of_nat (S j)) with (2 * (nI + N.of_nat (S j))) by lia.
    apply (Hkey (l_state x) _ He).
    unfold nv0. destruct (N.eqb_spec (nI + N.of_nat (S j)) 0) as [|_]; [lia|].
    destruct (N.leb_spec (nI + N.of_nat (S j)) nI) as [|_]; [lia|].
    replace (N.to_nat (nI + N.of_nat (S j) - nI - 1)) with j by lia.
    pose proof (evals_same_var a ρ (l_state x) (lkey (l_state x)) _ He (lkey_div2 _)) as H.
    rewrite lkey_odd, xorb_false_r in H. exact H.
  Qed.

  Lemma renumber_new_sound cfg r : renumber_new cfg a = IDone r -> map_sound a ρ r.
  Proof.
    intros H. destruct (renumber_new_unfold cfg a) as [(e & _ & E)|[(defs & e & _ & _ & E)|(defs & Ed & _ & _ & E)]];
      try congruence.
    rewrite E in H.
    destruct (init_state_inv cfg defs a (lit_defs_sound a defs Ed)) as (G0 & Hs0 & _).
    destruct (init_sound cfg defs) as [Hm0 Hi0].
    pose proof (transfer_all_sound (transfer_fuel a) (roots cfg a) _ G0 Hs0 Hm0 Hi0) as HT.
    rewrite H in HT. apply HT.
  Qed.
End SoundTop.

Lemma div2_le_mono x y : y <= x -> N.div2 y <= N.div2 x.
Proof. intros H. rewrite !N.div2_div. apply N.div_le_mono; lia. Qed.

Theorem renumber_sound cfg a o r :
  renumber_aig cfg a = RnOk o r ->
  let a' := aig_of_ordered o in
  (forall l t, lm_get (r_map r) l = Some t -> same_function a a' l t) /\
  Forall2 (fun l t => same_function a a' (l_next l) (fst t) /\ snd t = l_init l) (a_latches a) (o_latches o) /\
  Forall2 (same_function a a') (a_outputs a) (o_outputs o) /\
  Forall2 (same_function a a') (a_bad a) (o_bad o) /\
  Forall2 (same_function a a') (a_constraints a) (o_constraints o) /\
  Forall2 (Forall2 (same_function a a')) (a_justice a) (o_justice o) /\
  Forall2 (same_function a a') (a_fairness a) (o_fairness o).
Proof.
  intros H a'. apply renumber_ok_inv in H. destruct H as [Hn Hb].
  destruct (renumber_new_done cfg a r Hn) as (defs & _ & G & _ & _ & _ & Hwf).
  destruct (build_ordered_fields a r o Hb) as (Hm & Hi & Hg & Hl & Ho & Hbd & Hc & Hj & Hf).
  assert (Hll : length (o_latches o) = length (a_latches a)) by (symmetry; eapply Forall2_length; exact Hl).
  assert (Hbase : o_input_count o + N.of_nat (length (o_latches o)) = base_of a).
  { rewrite Hi, Hll. unfold base_of. lia. }
  assert (Hmain : forall l t, lm_get (r_map r) l = Some t -> same_function a a' l t).
  { intros l t Hget ρ. exists (lit_val (nv a ρ r) t). split.
    - apply (lm_get_sound a ρ r l t (renumber_new_sound a Hwf ρ cfg r Hn) Hget).
    - destruct (eval_ordered o ρ (nv a ρ r)) with (v := N.div2 t) as [n Hev].
      + intros v Hv. rewrite Hbase in Hv. unfold nv. rewrite nvals_below by exact Hv. rewrite Hi. reflexivity.
      + intros j x y Hnth. rewrite Hg in Hnth. rewrite Hbase.
        destruct (gates_ok_nth _ _ (gi_gates _ _ _ G) j x y Hnth) as [Hx Hy].
        split; [exact Hx|]. split; [pose proof (div2_le_mono _ _ Hy); lia|].
        unfold nv. apply nvals_nth; [exact (gi_gates _ _ _ G)|exact Hnth].
      + rewrite Hbase, Hg, rev_length. pose proof (lm_get_bound _ _ _ _ _ G Hget) as Hb'.
        fold (maxv (base_of a) r). apply lit_le_div2. lia.
      + exists n. apply Hev. reflexivity. }
  split; [exact Hmain|].
  split; [eapply Forall2_impl; [exact Hl|]; intros l t [H1 H2]; split; [apply Hmain; exact H1|exact H2]|].
  split; [eapply Forall2_impl; [exact Ho|]; intros l t H1; apply Hmain; exact H1|].
  split; [eapply Forall2_impl; [exact Hbd|]; intros l t H1; apply Hmain; exact H1|].
  split; [eapply Forall2_impl; [exact Hc|]; intros l t H1; apply Hmain; exact H1|].
  split; [|eapply Forall2_impl; [exact Hf|]; intros l t H1; apply Hmain; exact H1].
  eapply Forall2_impl; [exact Hj|]. intros ls ts H1. eapply Forall2_impl; [exact H1|]. intros l t H2. apply Hmain; exact H2.
Qed.

(* ------------------------------------------------------------ latch clashes (D10, fixed) *)

(* the two witnesses of the former finding D10 and the other kinds of latch clash, both polarities *)
Example latch_clash_examples :
  let cfg := Config false false false in
  (* constant *)
  renumber_aig cfg (Aig 0 [] [Latch 0 0 None] [0] [] [] [] [] []) = RnErr (LitAlreadyDefined 0) /\
  renumber_aig cfg (Aig 0 [] [Latch 1 0 None] [0] [] [] [] [] []) = RnErr (LitAlreadyDefined 1) /\
  (* input *)
  renumber_aig cfg (Aig 1 [2] [Latch 2 2 None] [2] [] [] [] [] []) = RnErr (LitAlreadyDefined 2) /\
  renumber_aig cfg (Aig 1 [2] [Latch 3 2 None] [2] [] [] [] [] []) = RnErr (LitAlreadyDefined 3) /\
  (* gate output *)
  renumber_aig cfg (Aig 2 [2] [Latch 4 2 None] [4] [] [] [] [] [AndGate 2 2 4]) = RnErr (LitAlreadyDefined 4) /\
  renumber_aig cfg (Aig 2 [2] [Latch 4 2 None] [5] [] [] [] [] [AndGate 2 2 5]) = RnErr (LitAlreadyDefined 4) /\
  (* earlier latch *)
  renumber_aig cfg (Aig 3 [2] [Latch 6 2 None; Latch 7 2 None] [6] [] [] [] [] []) = RnErr (LitAlreadyDefined 7) /\
  (* no clash: a negated latch state literal is fine *)
  match renumber_aig cfg (Aig 3 [2] [Latch 7 2 None] [6] [] [] [] [] []) with
  | RnOk o _ => o_outputs o = [5] /\ o_latches o = [(2, None)]
  | _ => False
  end.
Proof. vm_compute. repeat split. Qed.

(* ------------------------------------------------------------ termination on acyclic graphs *)

Fixpoint steps (n : nat) (s : tstate) (r : rstate) : option (tstate * rstate) :=
  match n with
  | O => Some (s, r)
  | S n' => match rstep s r with Next s' r' => steps n' s' r' | _ => None end
  end.

Lemma steps_app k1 : forall k2 s r s1 r1 s2 r2,
  steps k1 s r = Some (s1, r1) -> steps k2 s1 r1 = Some (s2, r2) -> steps (k1 + k2) s r = Some (s2, r2).
Proof.
  induction k1 as [|k1 IH]; intros k2 s r s1 r1 s2 r2; simpl.
  - intros [= <- <-] H. exact H.
  - destruct (rstep s r) as [s' r'| |]; try discriminate. apply IH.
Qed.

Lemma steps_one s r s' r' : rstep s r = Next s' r' -> steps 1 s r = Some (s', r').
Proof. intros H. simpl. rewrite H. reflexivity. Qed.

Lemma run_steps k : forall s r s' r' f, steps k s r = Some (s', r') -> run (k + f) s r = run f s' r'.
Proof.
  induction k as [|k IH]; intros s r s' r' f; simpl.
  - intros [= <- <-]. reflexivity.
  - destruct (rstep s r) as [s1 r1| |]; try discriminate. apply IH.
Qed.

Lemma steps_ext k : forall s r s' r', steps k s r = Some (s', r') -> ext r r'.
Proof.
  induction k as [|k IH]; intros s r s' r'; simpl.
  - intros [= <- <-]. apply ext_refl.
  - destruct (rstep s r) as [s1 r1| |] eqn:E; try discriminate. intros H.
    eapply ext_trans; [eapply step_ext; exact E|eapply IH; exact H].
Qed.

Fixpoint count {A} (p : A -> bool) (l : list A) : nat :=
  match l with [] => O | x :: rest => ((if p x then 1 else 0) + count p rest)%nat end.

Lemma count_le_length {A} (p : A -> bool) l : (count p l <= length l)%nat.
Proof. induction l as [|x l IH]; simpl; [lia|]. destruct (p x); lia. Qed.

Lemma count_mono {A} (p q : A -> bool) l :
  (forall x, In x l -> p x = true -> q x = true) -> (count p l <= count q l)%nat.
Proof.
  induction l as [|x l IH]; simpl; intros H; [lia|].
  assert (IH' : (count p l <= count q l)%nat) by (apply IH; intros y Hy; apply H; right; exact Hy).
  destruct (p x) eqn:Ep; [rewrite (H x (or_introl eq_refl) Ep); lia|destruct (q x); lia].
Qed.

Lemma count_strict {A} (p q : A -> bool) l x0 :
  In x0 l -> p x0 = false -> q x0 = true ->
  (forall x, In x l -> p x = true -> q x = true) -> (S (count p l) <= count q l)%nat.
Proof.
  induction l as [|x l IH]; simpl; intros Hin Hp Hq H; [destruct Hin|].
  destruct Hin as [->|Hin].
  - rewrite Hp, Hq. assert ((count p l <= count q l)%nat); [|lia].
    apply count_mono. intros y Hy. apply H. right. exact Hy.
  - assert (IH' : (S (count p l) <= count q l)%nat) by (apply IH; auto).
    destruct (p x) eqn:Ep; [rewrite (H x (or_introl eq_refl) Ep); lia|destruct (q x); lia].
Qed.

Lemma count_split {A} (p q1 q2 : A -> bool) l :
  (forall x, p x = q1 x || q2 x) -> (forall x, q1 x && q2 x = false) ->
  count p l = (count q1 l + count q2 l)%nat.
Proof.
  intros H1 H2. induction l as [|x l IH]; simpl; [reflexivity|]. rewrite IH, H1.
  specialize (H2 x). destruct (q1 x), (q2 x); simpl in *; try discriminate; lia.
Qed.

Definition mappedb (r : rstate) (l : lit) : bool :=
  match r_map r !! lkey l with Some _ => true | None => false end.

Section Termination.
  Variable a : aig.
  Variable rank : N -> nat.
  Hypothesis Hrank : forall g, In g (a_gates a) ->
    (rank (N.div2 (g_in0 g)) < rank (gvar g))%nat /\ (rank (N.div2 (g_in1 g)) < rank (gvar g))%nat.

  (* gates of rank in [lo, hi) whose output has no lit_map entry yet *)
  Definition pending (r : rstate) (lo hi : nat) : nat :=
    count (fun g => (lo <=? rank (gvar g))%nat && (rank (gvar g) <? hi)%nat && negb (mappedb r (g_out g))) (a_gates a).

  Lemma pending_mono r r' lo hi : ext r r' -> (pending r' lo hi <= pending r lo hi)%nat.
  Proof.
    intros (_ & _ & Hd). apply count_mono. intros g _ H.
    apply andb_true_iff in H. destruct H as [H1 H2]. rewrite H1. simpl. unfold mappedb in *.
    destruct (r_map r !! lkey (g_out g)) eqn:E; [|reflexivity].
    destruct (Hd _ (ex_intro _ _ E)) as [y Hy]. rewrite Hy in H2. discriminate.
  Qed.

  Lemma pending_split r m n : (m <= n)%nat -> pending r 0 n = (pending r 0 m + pending r m n)%nat.
  Proof.
    intros Hmn. apply count_split; intros g.
    - destruct (negb (mappedb r (g_out g))); rewrite ?andb_false_r; [|reflexivity]. rewrite !andb_true_r. simpl.
      destruct (Nat.ltb_spec (rank (gvar g)) n), (Nat.ltb_spec (rank (gvar g)) m), (Nat.leb_spec m (rank (gvar g))); simpl; try reflexivity; lia.
    - destruct (Nat.ltb_spec (rank (gvar g)) m), (Nat.leb_spec m (rank (gvar g))); simpl; rewrite ?andb_false_r; try reflexivity; lia.
  Qed.

  Lemma pending_strict r r' d m n :
    ext r r' -> In d (a_gates a) -> rank (gvar d) = m -> (m < n)%nat ->
    mappedb r (g_out d) = false -> mappedb r' (g_out d) = true ->
    (S (pending r' m n) <= pending r m n)%nat.
  Proof.
    intros (_ & _ & Hd) Hin Hr Hmn Hu Hm. apply (count_strict _ _ _ d Hin).
    - rewrite Hm. simpl. apply andb_false_r.
    - rewrite Hu, Hr. simpl. rewrite andb_true_r. apply andb_true_iff. split; [apply Nat.leb_le; lia|apply Nat.ltb_lt; lia].
    - intros g _ H. apply andb_true_iff in H. destruct H as [H1 H2]. rewrite H1. simpl. unfold mappedb in *.
      destruct (r_map r !! lkey (g_out g)) eqn:E; [|reflexivity].
      destruct (Hd _ (ex_intro _ _ E)) as [y Hy]. rewrite Hy in H2. discriminate.
  Qed.

  Lemma pending_ge1 r d m n :
    In d (a_gates a) -> rank (gvar d) = m -> (m < n)%nat -> mappedb r (g_out d) = false ->
    (1 <= pending r m n)%nat.
  Proof.
    intros Hin Hr Hmn Hu. unfold pending.
    assert (H : (S (count (fun _ : and_gate => false) (a_gates a)) <=
                 count (fun g => (m <=? rank (gvar g))%nat && (rank (gvar g) <? n)%nat && negb (mappedb r (g_out g))) (a_gates a))%nat).
    { apply (count_strict _ _ _ d Hin); [reflexivity| |discriminate].
      rewrite Hu, Hr. simpl. rewrite andb_true_r. apply andb_true_iff. split; [apply Nat.leb_le; lia|apply Nat.ltb_lt; lia]. }
    lia.
  Qed.

  Lemma step_input1_total l d t r :
    exists t' r', rstep (SInput1 l d t) r = Next (SReturn t') r' /\ r_stack r' = r_stack r /\
      mappedb r' (g_out d) = true.
  Proof.
    simpl. destruct (sort2 (g_in0 d) t) as [x y].
    assert (Hins : forall (m : gmap N N) v, match <[lkey (g_out d) := v]> m !! lkey (g_out d) with Some _ => true | None => false end = true).
    { intros m v. rewrite lookup_insert. reflexivity. }
    destruct (if c_fold (r_cfg r) then fold_gate x y else None) as [folded|].
    - eexists _, _. split; [reflexivity|]. split; [reflexivity|]. apply Hins.
    - destruct (c_strash (r_cfg r)); [destruct (r_index r !! (x, y))|];
        (eexists _, _; split; [reflexivity|]; split; [reflexivity|]; apply Hins).
  Qed.

  Definition big_ok (l : lit) (r : rstate) (n : nat) : Prop :=
    exists k t r', steps k (STransfer l) r = Some (SReturn t, r') /\ r_stack r' = r_stack r /\
      (k + 7 * pending r' 0 n <= 7 * pending r 0 n + 1)%nat.

  Definition big_err (l : lit) (r : rstate) (n : nat) : Prop :=
    exists k s' r' e, steps k (STransfer l) r = Some (s', r') /\ rstep s' r' = Failed e /\
      (k <= 7 * pending r 0 n + 1)%nat.

  Lemma transfer_big : forall n l r,
    (rank (N.div2 l) < n)%nat -> defs_sound a (r_defs r) -> big_ok l r n \/ big_err l r n.
  Proof.
    induction n as [n IH] using lt_wf_ind. intros l r Hl Hd.
    destruct (rstep (STransfer l) r) as [s1 r1|t r1|e] eqn:E0.
    2:{ simpl in E0. destruct (lm_get (r_map r) l); [discriminate|]. destruct (cycle_test (r_stack r) l); [discriminate|].
        destruct (find_def (r_defs r) l); discriminate. }
    2:{ right. exists 0%nat, (STransfer l), r, e. split; [reflexivity|]. split; [exact E0|lia]. }
    simpl in E0. destruct (lm_get (r_map r) l) as [t|] eqn:Eg.
    { (* already transferred *)
      injection E0 as <- <-. left. exists 1%nat, t, r. split; [simpl; rewrite Eg; reflexivity|]. split; [reflexivity|lia]. }
    destruct (cycle_test (r_stack r) l) eqn:Ec; [discriminate|].
    destruct (find_def (r_defs r) l) as [d|] eqn:Ed; [|discriminate]. injection E0 as <- <-.
    destruct (find_def_sound _ _ _ _ Hd Ed) as [Hin Hout].
    set (m := rank (N.div2 l)).
    assert (Hdm : rank (gvar d) = m).
    { unfold gvar, m. destruct Hout as [->| ->]; [reflexivity|rewrite lneg_div2; reflexivity]. }
    destruct (Hrank d Hin) as [Hr0 Hr1]. rewrite Hdm in Hr0, Hr1.
    assert (Hun : mappedb r (g_out d) = false).
    { unfold mappedb. apply lm_get_None in Eg.
      replace (lkey (g_out d)) with (lkey l); [rewrite Eg; reflexivity|].
      apply lkey_eq_iff. destruct Hout as [->| ->]; [reflexivity|rewrite lneg_div2; reflexivity]. }
    assert (Hstep0 : steps 1 (STransfer l) r = Some (STransfer (g_in0 d), push (KInput0 l d) r)).
    { simpl. rewrite Eg, Ec, Ed. reflexivity. }
    pose proof (pending_split r m n ltac:(lia)) as Hsp.
    pose proof (pending_ge1 r d m n Hin Hdm Hl Hun) as Hge.
    (* first input *)
    destruct (IH m Hl (g_in0 d) (push (KInput0 l d) r) Hr0 Hd) as [(k0 & t0 & rb & Hs0 & Hst0 & Hb0)|(k0 & s' & r' & e & Hs0 & Hf & Hb0)].
    2:{ right. exists (1 + k0)%nat, s', r', e. split; [eapply steps_app; eassumption|]. split; [exact Hf|].
        change (pending (push (KInput0 l d) r) 0 m) with (pending r 0 m) in Hb0. lia. }
    change (pending (push (KInput0 l d) r) 0 m) with (pending r 0 m) in Hb0.
    pose proof (steps_ext _ _ _ _ _ Hs0) as He0. simpl in Hst0.
    assert (Hd_b : defs_sound a (r_defs rb)) by (destruct He0 as (_ & -> & _); exact Hd).
    (* pop, Input0, second input *)
    set (d' := AndGate t0 (g_in1 d) (g_out d)).
    set (rd := push (KInput1 l d') (set_stack (r_stack r) rb)).
    assert (Hstep1 : steps 2 (SReturn t0) rb = Some (STransfer (g_in1 d), rd)).
    { simpl. rewrite Hst0. reflexivity. }
    destruct (IH m Hl (g_in1 d) rd Hr1 Hd_b) as [(k1 & t1 & re & Hs1 & Hst1 & Hb1)|(k1 & s' & r' & e & Hs1 & Hf & Hb1)].
    2:{ right. exists (1 + (k0 + (2 + k1)))%nat, s', r', e.
        split; [eapply steps_app; [exact Hstep0|]; eapply steps_app; [exact Hs0|]; eapply steps_app; eassumption|].
        split; [exact Hf|]. change (pending rd 0 m) with (pending rb 0 m) in Hb1. lia. }
    change (pending rd 0 m) with (pending rb 0 m) in Hb1. simpl in Hst1.
    pose proof (steps_ext _ _ _ _ _ Hs1) as He1.
    (* pop, Input1 *)
    destruct (step_input1_total l d' t1 (set_stack (r_stack r) re)) as (t & r' & Hs2 & Hst2 & Hmp).
    assert (Hstep2 : steps 2 (SReturn t1) re = Some (SReturn t, r')).
    { simpl. rewrite Hst1. simpl in Hs2. simpl. rewrite Hs2. reflexivity. }
    left. exists (1 + (k0 + (2 + (k1 + 2))))%nat, t, r'.
    split; [eapply steps_app; [exact Hstep0|]; eapply steps_app; [exact Hs0|]; eapply steps_app; [exact Hstep1|];
            eapply steps_app; eassumption|].
    split; [exact Hst2|].
    assert (Hext : ext r r').
    { eapply ext_trans; [|eapply steps_ext; exact Hstep2].
      eapply ext_trans; [|exact He1].
      eapply ext_trans; [exact He0|]. destruct He0 as (A & B & C). repeat split; auto. }
    assert (Hext_e : ext re r') by (eapply steps_ext; exact Hstep2).
    pose proof (pending_split r' m n ltac:(lia)) as Hsp'.
    pose proof (pending_strict r r' d m n Hext Hin Hdm Hl Hun Hmp) as Hstrict.
    pose proof (pending_mono re r' 0 m Hext_e) as Hmono.
    lia.
  Qed.
End Termination.

Lemma acyclic_no_cycle a : acyclic a -> forall v, ~ clos_trans N (dep a) v v.
Proof.
  intros [rank Hr] v Hc.
  assert (H : forall u w, clos_trans N (dep a) u w -> (rank w < rank u)%nat).
  { intros u w Huw. induction Huw as [u w (g & Hin & <- & Hw)|u w z _ IH1 _ IH2]; [|lia].
    destruct (Hr g Hin) as [H0 H1]. destruct Hw as [<-| <-]; assumption. }
  specialize (H v v Hc). lia.
Qed.

Lemma transfer_terminates a rank r l :
  (forall g, In g (a_gates a) ->
     (rank (N.div2 (g_in0 g)) < rank (gvar g))%nat /\ (rank (N.div2 (g_in1 g)) < rank (gvar g))%nat) ->
  defs_sound a (r_defs r) -> r_stack r = [] -> transfer (transfer_fuel a) r l <> TOutOfFuel.
Proof.
  intros Hrank Hd Hs. unfold transfer.
  assert (Hp : forall r n, (7 * pending a rank r 0 n + 1 < transfer_fuel a)%nat).
  { intros r0 n. unfold pending, transfer_fuel.
    pose proof (count_le_length (fun g => (0 <=? rank (gvar g))%nat && (rank (gvar g) <? n)%nat && negb (mappedb r0 (g_out g))) (a_gates a)). lia. }
  destruct (transfer_big a rank Hrank (S (rank (N.div2 l))) l r ltac:(lia) Hd)
    as [(k & t & r' & Hk & Hst & Hb)|(k & s' & r' & e & Hk & Hf & Hb)].
  - specialize (Hp r (S (rank (N.div2 l)))).
    replace (transfer_fuel a) with (k + S (transfer_fuel a - k - 1))%nat by lia.
    rewrite (run_steps _ _ _ _ _ _ Hk). simpl. rewrite Hst, Hs. discriminate.
  - specialize (Hp r (S (rank (N.div2 l)))).
    replace (transfer_fuel a) with (k + S (transfer_fuel a - k - 1))%nat by lia.
    rewrite (run_steps _ _ _ _ _ _ Hk). simpl. rewrite Hf. discriminate.
Qed.

Lemma transfer_all_terminates a rank :
  (forall g, In g (a_gates a) ->
     (rank (N.div2 (g_in0 g)) < rank (gvar g))%nat /\ (rank (N.div2 (g_in1 g)) < rank (gvar g))%nat) ->
  forall ls r, ginv a (base_of a) r -> r_stack r = [] -> transfer_all (transfer_fuel a) r ls <> IOutOfFuel.
Proof.
  intros Hrank. induction ls as [|l rest IH]; intros r G Hs; simpl; [discriminate|].
  pose proof (transfer_terminates a rank r l Hrank (gi_defs _ _ _ G) Hs) as Ht.
  pose proof (run_inv a (base_of a) l (transfer_fuel a) _ _ (inv_start a (base_of a) r l G Hs)) as Hi.
  unfold transfer in *. destruct (run (transfer_fuel a) (STransfer l) r) as [t r1|e|]; [|discriminate|contradiction].
  destruct Hi as (G1 & Hs1 & _). apply IH; assumption.
Qed.

(* the fuel supplied by [renumber_aig] is enough for every acyclic graph, well formed or not *)
Theorem renumber_terminates_acyclic cfg a : acyclic a -> renumber_aig cfg a <> RnOutOfFuel.
Proof.
  intros [rank Hrank]. unfold renumber_aig.
  destruct (renumber_new_unfold cfg a) as [(e & _ & E)|[(defs & e & _ & _ & E)|(defs & Ed & _ & _ & E)]];
    rewrite E; try discriminate.
  destruct (init_state_inv cfg defs a (lit_defs_sound a defs Ed)) as (G0 & Hs0 & _).
  pose proof (transfer_all_terminates a rank Hrank (roots cfg a) _ G0 Hs0) as H.
  destruct (transfer_all _ _ _) as [r|e|]; [destruct (build_ordered a r); discriminate|discriminate|contradiction].
Qed.

(* ------------------------------------------------------------ the numbering of Aig::from(ordered) *)

(* the codes of the variables v, v+1, ..., v+n-1 *)
Fixpoint codes_from (v : N) (n : nat) : list lit :=
  match n with O => [] | S n' => 2 * v :: codes_from (v + 1) n' end.

Lemma number_inputs_codes n : forall v, number_inputs (2 * v) n = codes_from v n.
Proof.
  induction n as [|n IH]; intros v; simpl; [reflexivity|].
  replace (2 * v + 2) with (2 * (v + 1)) by lia. rewrite IH. reflexivity.
Qed.

Lemma number_latches_codes ls : forall v, map l_state (number_latches (2 * v) ls) = codes_from v (length ls).
Proof.
  induction ls as [|[nx ini] ls IH]; intros v; simpl; [reflexivity|].
  replace (2 * v + 2) with (2 * (v + 1)) by lia. rewrite IH. reflexivity.
Qed.

Lemma number_gates_codes gs : forall v, map g_out (number_gates (2 * v) gs) = codes_from v (length gs).
Proof.
  induction gs as [|[x y] gs IH]; intros v; simpl; [reflexivity|].
  replace (2 * v + 2) with (2 * (v + 1)) by lia. rewrite IH. reflexivity.
Qed.

Lemma number_latches_data ls : forall c, map (fun l => (l_next l, l_init l)) (number_latches c ls) = ls.
Proof. induction ls as [|[nx ini] ls IH]; intros c; simpl; [reflexivity|]. rewrite IH. reflexivity. Qed.

Lemma number_gates_data gs : forall c, map (fun g => (g_in0 g, g_in1 g)) (number_gates c gs) = gs.
Proof. induction gs as [|[x y] gs IH]; intros c; simpl; [reflexivity|]. rewrite IH. reflexivity. Qed.

(* From<OrderedAig> for Aig: inputs, then latches, then gates are numbered consecutively from variable 1 *)
Theorem aig_of_ordered_numbering o :
  let a' := aig_of_ordered o in
  let nI := o_input_count o in
  let nL := N.of_nat (length (o_latches o)) in
  a_inputs a' = codes_from 1 (N.to_nat nI) /\
  map l_state (a_latches a') = codes_from (1 + nI) (length (o_latches o)) /\
  map g_out (a_gates a') = codes_from (1 + nI + nL) (length (o_gates o)) /\
  map (fun l => (l_next l, l_init l)) (a_latches a') = o_latches o /\
  map (fun g => (g_in0 g, g_in1 g)) (a_gates a') = o_gates o /\
  a_maxvar a' = o_maxvar o /\ a_outputs a' = o_outputs o /\ a_bad a' = o_bad o /\
  a_constraints a' = o_constraints o /\ a_justice a' = o_justice o /\ a_fairness a' = o_fairness o.
Proof.
  simpl. split; [apply (number_inputs_codes _ 1)|].
  split; [rewrite N.mul_comm; apply number_latches_codes|].
  split; [rewrite N.mul_comm; apply number_gates_codes|].
  split; [apply number_latches_data|]. split; [apply number_gates_data|]. repeat split.
Qed.
