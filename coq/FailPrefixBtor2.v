(* FailPrefixBtor2.v — C04, last sentence, for the BTOR2 parser. *)
From Flussab Require Import Base Reader ListN Writer Parsed Prog Text ProgProofs Consts Cnf CnfProofs Hoare CnfSafe.
From Flussab Require Import Btor2 Btor2Proofs Btor2Safe FailPrefix FailPrefixCnf.
Local Open Scope N_scope.
#[export] Hint Resolve pq_lift : quietdb.

(* ---------- the scanners of token.rs do not look at the failure ---------- *)
Lemma quietp_lc_cold n : forall offset i word, quietp (lc_cold n offset i word).
Proof. induction n as [|n IH]; intros; cbn [lc_cold]; qp. Qed.
#[export] Hint Resolve quietp_lc_cold : quietdb.
Lemma quietp_ascii_lowercase_u64 offset : quietp (ascii_lowercase_u64 offset).
Proof. unfold ascii_lowercase_u64. qp. Qed.
#[export] Hint Resolve quietp_ascii_lowercase_u64 : quietdb.
Lemma quietp_take_while n p : forall offset acc, quietp (take_while n p offset acc).
Proof. induction n as [|n IH]; intros; cbn [take_while]; qp. Qed.
#[export] Hint Resolve quietp_take_while : quietdb.
Lemma quietp_ascii_lowercase n : forall offset acc, quietp (ascii_lowercase n offset acc).
Proof.
  induction n as [|n IH]; intros; cbn [ascii_lowercase]; [exact I|].
  apply quietp_bind; [apply quietp_ascii_lowercase_u64|]. intros [word adv]. destruct (adv <? 8); [exact I|apply IH].
Qed.
#[export] Hint Resolve quietp_ascii_lowercase : quietdb.
Lemma quietp_hex_string fuel : quietp (hex_string fuel). Proof. unfold hex_string. qp. Qed.
Lemma quietp_binary_string fuel : quietp (binary_string fuel). Proof. unfold binary_string. qp. Qed.
Lemma quietp_decimal_string fuel : quietp (decimal_string fuel). Proof. unfold decimal_string. qp. Qed.
#[export] Hint Resolve quietp_hex_string quietp_binary_string quietp_decimal_string : quietdb.

Lemma pq_one_byte c : pq (one_byte c). Proof. unfold one_byte, tok_ok, tok_ft. pqw. Qed.
#[export] Hint Resolve pq_one_byte : quietdb.

Section F.
Variable fuel : nat.

Lemma pq_keyword {A} (tbl : list (bytes * A)) : pq (keyword fuel tbl). Proof. unfold keyword, tok_ok, tok_ft. pqw. Qed.
Lemma pq_node_token : pq (node_token fuel). Proof. apply pq_keyword. Qed.
Lemma pq_sort_token : pq (sort_token fuel). Proof. apply pq_keyword. Qed.
Lemma pq_newline_tok : pq newline_tok. Proof. unfold newline_tok, tok_ok, tok_ft. pqw. Qed.
Lemma pq_space_tok : pq space_tok. Proof. apply pq_one_byte. Qed.
Lemma pq_comment_start : pq comment_start. Proof. apply pq_one_byte. Qed.
Lemma pq_skip_ws_loop n : forall offset, pq (skip_ws_loop n offset).
Proof. induction n as [|n IH]; intros; cbn [skip_ws_loop]; pqw. Qed.
Hint Resolve pq_keyword pq_node_token pq_sort_token pq_newline_tok pq_space_tok pq_comment_start pq_skip_ws_loop : quietdb.
Lemma pq_skip_ws : pq (skip_ws fuel). Proof. unfold skip_ws. pqw. Qed.
Lemma pq_uint : pq (uint fuel). Proof. unfold uint. pqw. Qed.
Lemma pq_symbol_name : pq (symbol_name fuel). Proof. unfold symbol_name, tok_ok, tok_ft. pqw. Qed.
Hint Resolve pq_skip_ws pq_uint pq_symbol_name : quietdb.

(* ---------- the programs that can see the failure ---------- *)
Lemma plv_rbnd {A C} (m : PM (result A perr)) (f : A -> PM (result C perr)) d d0 :
  plv (QR d) d m -> (forall a, plv (QR d0) d (f a)) -> plv (QR d0) d (rbnd m f).
Proof.
  intros H1 H2. unfold rbnd. eapply plv_pbnd; [exact H1|]. intros d1 a HB. pw_hyp HB; [|pw].
  destruct a; [apply H2|pw].
Qed.

Ltac pwb :=
  cbn [is_rerr is_tok_err not_tok_ok fst snd] in *; try contradiction;
  lazymatch goal with
  | |- plv _ _ (rbnd _ _) => eapply plv_rbnd; [solve [eauto with plvdb]|intros ?; pwb]
  | |- plv _ _ (pbnd _ _) =>
      eapply plv_pbnd;
      [solve [eauto with plvdb]
      |let d' := fresh "d" in let a := fresh "a" in let HB := fresh "HB" in
       intros d' a HB; pw_hyp HB; pwb]
  | |- plv _ _ (pret _) => apply plv_pret; pfin
  | |- plv _ _ (match ?x with _ => _ end) => destruct x; pwb
  | |- plv _ _ (if ?x then _ else _) => destruct x; pwb
  | |- plv _ _ (pcrash _) => intro; exact I
  | |- plv _ _ pnofuel => intro; exact I
  | |- _ => solve [eauto with plvdb]
  end.

Lemma plv_nonnegative_int d : plv (QT d) d (nonnegative_int fuel).
Proof. unfold nonnegative_int. apply plv_located. apply pq_uint. Qed.
Hint Resolve plv_nonnegative_int : plvdb.
Lemma plv_positive_int d : plv (QT d) d (positive_int fuel).
Proof. unfold positive_int, tok_ok, tok_ft. pwb. Qed.
Hint Resolve plv_positive_int : plvdb.

Lemma plv_required_space d : plv (QR d) d required_space.
Proof. unfold required_space. pwb. Qed.
Lemma plv_required_positive_int d : plv (QR d) d (required_positive_int fuel).
Proof. unfold required_positive_int. pwb. Qed.
Lemma plv_required_nonnegative_int d : plv (QR d) d (required_nonnegative_int fuel).
Proof. unfold required_nonnegative_int. pwb. Qed.
Lemma plv_required_node_id d : plv (QR d) d (required_node_id fuel).
Proof. unfold required_node_id. pwb. Qed.
Lemma plv_required_sort_id d : plv (QR d) d (required_sort_id fuel).
Proof. unfold required_sort_id. pwb. Qed.
Hint Resolve plv_required_space plv_required_positive_int plv_required_nonnegative_int plv_required_node_id
  plv_required_sort_id : plvdb.

Lemma plv_comment_body d : plv (QR d) d (comment_body fuel).
Proof.
  unfold comment_body.
  eapply plv_pbnd; [solve [eauto with plvdb]|]. intros d1 [offset body] HB; pw_hyp HB.
  eapply plv_pbnd; [solve [eauto with plvdb]|]. intros d1 o HB; pw_hyp HB.
  eapply (plv_pbnd (QR d)); [destruct o; pwb|].
  intros d1 chk HB; pw_hyp HB; pwb.
Qed.
Hint Resolve plv_comment_body : plvdb.

Lemma plv_required_constant scan d : quietp scan -> plv (QR d) d (required_constant scan).
Proof.
  intros H. unfold required_constant.
  eapply plv_pbnd; [apply plv_lift_quiet; exact H|]. intros d1 [matched s] HB; pw_hyp HB. pwb.
Qed.
Lemma plv_required_hex_constant d : plv (QR d) d (required_hex_constant fuel).
Proof. apply plv_required_constant. apply quietp_hex_string. Qed.
Lemma plv_required_decimal_constant d : plv (QR d) d (required_decimal_constant fuel).
Proof. apply plv_required_constant. apply quietp_decimal_string. Qed.
Lemma plv_required_binary_constant d : plv (QR d) d (required_binary_constant fuel).
Proof. apply plv_required_constant. apply quietp_binary_string. Qed.
Hint Resolve plv_required_hex_constant plv_required_decimal_constant plv_required_binary_constant : plvdb.

Lemma plv_justice_loop n : forall count acc d, plv (QR d) d (justice_loop fuel n count acc).
Proof. induction n as [|n IH]; intros; cbn [justice_loop]; pwb. Qed.
Hint Resolve plv_justice_loop : plvdb.

Lemma plv_value_body vt d : plv (QR d) d (value_body fuel vt).
Proof. unfold value_body. destruct vt; pwb. Qed.
Hint Resolve plv_value_body : plvdb.

Lemma plv_node_body t d : plv (QR d) d (node_body fuel t).
Proof. unfold node_body. destruct t; pwb. Qed.
Hint Resolve plv_node_body : plvdb.

Lemma plv_node_trailer d : plv (QR d) d (node_trailer fuel).
Proof. unfold node_trailer. pwb. Qed.
Hint Resolve plv_node_trailer : plvdb.

Lemma plv_try_node d : plv (QT d) d (try_node fuel).
Proof.
  unfold try_node, tok_err, tok_ft.
  eapply plv_pbnd; [solve [eauto with plvdb]|]. intros d1 id HB; pw_hyp HB; [|pwb..].
  destruct id as [[node_id|e]|]; [|pwb..].
  eapply (plv_pbnd (QR d)); [pwb|]. intros d1 r HB; pw_hyp HB; pwb.
Qed.
Hint Resolve plv_try_node : plvdb.

Lemma plv_next_line d : plv (QR d) d (next_line fuel).
Proof.
  unfold next_line.
  eapply plv_pbnd; [solve [eauto with plvdb]|]. intros d1 u HB; pw_hyp HB.
  eapply plv_pbnd; [solve [eauto with plvdb]|]. intros d1 tn HB; pw_hyp HB.
  - eapply (plv_pbnd (QR d)); [pwb|]. intros d1 first HB; pw_hyp HB; pwb.
  - eapply (plv_pbnd (fun d' r => is_rerr r)); [pwb|]. intros d2 first HB2. destruct first; [contradiction|pwb].
Qed.

(* ---------- the driving loop ---------- *)
Lemma drive_lines_items n : forall acc lr v is f lr' v',
  srun (drive_lines fuel n acc lr) v = ADone ((is, f), lr') v' -> exists rest, is = rev acc ++ rest.
Proof.
  induction n as [|n IH]; intros acc lr v is f lr' v' H; cbn [drive_lines] in H; [discriminate|].
  unfold pbnd in H. apply srun_bind_inv in H. destruct H as ([r lr1] & v1 & H1 & H2).
  destruct r as [[item|]|e]; cbv beta iota in H2.
  - destruct (IH _ _ _ _ _ _ _ H2) as [rest E]. exists (item :: rest). rewrite E. cbn [rev]. rewrite <- app_assoc. reflexivity.
  - unfold pret in H2. cbn [srun] in H2. inversion H2; subst. exists []. symmetry. apply app_nil_r.
  - unfold pret in H2. cbn [srun] in H2. inversion H2; subst. exists []. symmetry. apply app_nil_r.
Qed.

Lemma drive_lines_lockstep n : forall acc lr v is1 f1 lr1 v1 is2 f2 lr2 v2,
  srun (drive_lines fuel n acc lr) v = ADone ((is1, f1), lr1) v1 ->
  srun (drive_lines fuel n acc lr) (nofail v) = ADone ((is2, f2), lr2) v2 ->
  exists rest, is2 = is1 ++ rest.
Proof.
  induction n as [|n IH]; intros acc lr v is1 f1 lr1 v1 is2 f2 lr2 v2 H1 H2; [cbn [drive_lines] in H1; discriminate|].
  pose proof H2 as H2full.
  cbn [drive_lines] in H1, H2. unfold pbnd in H1, H2.
  apply srun_bind_inv in H1. destruct H1 as ([r lra] & va & Ha & Hb).
  apply srun_bind_inv in H2. destruct H2 as ([r2 lrb] & vb & Hc & Hd).
  destruct (lv_sound _ _ _ _ _ _ (plv_next_line false lr) Ha) as [E|E].
  - rewrite E in Hc. inversion Hc; subst.
    destruct r2 as [[item|]|e]; cbv beta iota in Hb, Hd.
    + exact (IH _ _ _ _ _ _ _ _ _ _ _ Hb Hd).
    + unfold pret in Hb, Hd. cbn [srun] in Hb, Hd. inversion Hb; inversion Hd; subst. exists []. symmetry. apply app_nil_r.
    + unfold pret in Hb, Hd. cbn [srun] in Hb, Hd. inversion Hb; inversion Hd; subst. exists []. symmetry. apply app_nil_r.
  - cbn [fst] in E. destruct E as [E|E]; [discriminate|].
    destruct r as [?|e]; [contradiction|]. cbv beta iota in Hb.
    unfold pret in Hb. cbn [srun] in Hb. inversion Hb; subst.
    exact (drive_lines_items _ _ _ _ _ _ _ _ H2full).
Qed.

End F.

(* C04, last sentence, BTOR2: the lines handed out on a source that delivers S and then fails with e are the first
   lines handed out on the source that delivers S and then ends (BTOR2 has no header). *)
Theorem btor2_items_before_failure fuel S e is1 fin1 lr1 v1 is2 fin2 lr2 v2 :
  Forall (fun b => b < 256) S -> nlen S < 2 ^ 62 -> (length S < fuel)%nat ->
  aruns (parse_btor2 fuel lrs_init) (view_init S (Some e)) (ADone (is1, fin1, lr1) v1) ->
  aruns (parse_btor2 fuel lrs_init) (view_init S None) (ADone (is2, fin2, lr2) v2) ->
  exists rest, is2 = is1 ++ rest.
Proof.
  intros Hb Hl Hf R1 R2.
  destruct (srun_of_aruns _ fuel S (Some e) _ _ Hb Hf (PDet_parse_btor2 fuel lrs_init)
              (fun r Hr => match parse_btor2_safe fuel S (Some e) r Hb Hl Hf Hr with
                           | ex_intro _ out (ex_intro _ lr' (ex_intro _ v' E)) => ex_intro _ (out, lr') (ex_intro _ v' E) end) R1)
    as [w1 S1].
  destruct (srun_of_aruns _ fuel S None _ _ Hb Hf (PDet_parse_btor2 fuel lrs_init)
              (fun r Hr => match parse_btor2_safe fuel S None r Hb Hl Hf Hr with
                           | ex_intro _ out (ex_intro _ lr' (ex_intro _ v' E)) => ex_intro _ (out, lr') (ex_intro _ v' E) end) R2)
    as [w2 S2].
  rewrite <- (nofail_init S (Some e)) in S2. unfold parse_btor2 in S1, S2.
  exact (drive_lines_lockstep fuel _ _ _ _ _ _ _ _ _ _ _ _ S1 S2).
Qed.
Print Assumptions btor2_items_before_failure.
