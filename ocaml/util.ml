(* util.ml — conversions between OCaml values and the extracted inductive
   numbers, and small text helpers shared by all streams of the driver. *)
module BZ = Z
open Model

let rec pos_of_z (z : BZ.t) : positive =
  if BZ.equal z BZ.one then XH
  else if BZ.testbit z 0 then XI (pos_of_z (BZ.shift_right z 1))
  else XO (pos_of_z (BZ.shift_right z 1))

let n_of_z (z : BZ.t) : n = if BZ.sign z <= 0 then N0 else Npos (pos_of_z z)
let n_of_int (i : int) : n = n_of_z (BZ.of_int i)

let rec z_of_pos (p : positive) : BZ.t =
  match p with
  | XH -> BZ.one
  | XO q -> BZ.shift_left (z_of_pos q) 1
  | XI q -> BZ.succ (BZ.shift_left (z_of_pos q) 1)

let z_of_n (x : n) : BZ.t = match x with N0 -> BZ.zero | Npos p -> z_of_pos p
let int_of_n (x : n) : int = BZ.to_int (z_of_n x)
let str_of_n (x : n) : string = BZ.to_string (z_of_n x)
let n_of_str (s : string) : n = n_of_z (BZ.of_string s)

let zz_of_z (z : BZ.t) : Model.z =
  if BZ.sign z = 0 then Z0
  else if BZ.sign z > 0 then Zpos (pos_of_z z)
  else Zneg (pos_of_z (BZ.neg z))

let z_of_zz (x : Model.z) : BZ.t =
  match x with Z0 -> BZ.zero | Zpos p -> z_of_pos p | Zneg p -> BZ.neg (z_of_pos p)
let str_of_zz (x : Model.z) : string = BZ.to_string (z_of_zz x)
let zz_of_str (s : string) : Model.z = zz_of_z (BZ.of_string s)

let rec nat_of_int (i : int) : nat = if i <= 0 then O else S (nat_of_int (i - 1))

(* hex string "48656c" -> list of byte values as N; "-" is the empty string *)
let bytes_of_hex (s : string) : n list =
  if s = "-" then []
  else begin
    let len = String.length s / 2 in
    let rec go i acc =
      if i < 0 then acc
      else go (i - 1) (n_of_int (int_of_string ("0x" ^ String.sub s (2 * i) 2)) :: acc)
    in
    go (len - 1) []
  end

let hex_of_bytes (l : n list) : string =
  if l = [] then "-"
  else String.concat "" (List.map (fun b -> Printf.sprintf "%02x" (int_of_n b)) l)

let split_on (c : char) (s : string) : string list =
  List.filter (fun x -> x <> "") (String.split_on_char c s)
