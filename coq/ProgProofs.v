(* ProgProofs.v — basic facts about the abstract semantics of parser programs. *)
From Flussab Require Import Base Reader ListN Prog.

(* a view is well formed when what it claims buffered exists *)
Definition WFV (v : view) : Prop := vhwm v <= nlen (vS v).

Lemma nnth_some_lt {A} (l : list A) i x : nnth l i = Some x -> i < nlen l.
Proof.
  unfold nnth, nlen. intros H. assert (N.to_nat i < length l)%nat; [|lia].
  apply nth_error_Some. congruence.
Qed.

Lemma WFV_after_peek v k : WFV v -> WFV (after_peek v k).
Proof.
  unfold WFV, after_peek; cbn [vhwm vS]. intros H. unfold vpeek.
  destruct (nnth (vS v) (vcur v + k)) eqn:E; [|lia].
  apply nnth_some_lt in E. lia.
Qed.

Lemma WFV_buflen v n b : WFV v -> buflen_ok v n b -> WFV (v_buflen v n b).
Proof.
  unfold WFV, v_buflen, buflen_ok; cbn [vhwm vS]. intros H [_ H2]. destruct b; [|exact H].
  specialize (H2 eq_refl). lia.
Qed.

(* the simple run is one of the admissible runs *)
Lemma srun_aruns {A} (p : prog A) : forall v, WFV v -> aruns p v (srun p v).
Proof.
  induction p as [a|k c IH|n c IH|n c IH|off c IH|c IH|c IH|c IH|c IH|c IH|c IH|k|]; intros v Hv; cbn [srun].
  - constructor.
  - constructor. apply IH. apply WFV_after_peek; exact Hv.
  - destruct (vcur v + n <=? vhwm v) eqn:E.
    + apply N.leb_le in E. apply ar_adv; [exact E|]. apply IH. exact Hv.
    + apply N.leb_gt in E. apply ar_adv_stuck. exact E.
  - assert (Hok : buflen_ok v n (s_buflen v n)).
    { unfold buflen_ok, s_buflen. split.
      - intros H. apply N.leb_le. exact H.
      - intros H. apply N.leb_le in H. unfold WFV in Hv. lia. }
    eapply ar_buflen; [exact Hok|]. apply IH. apply WFV_buflen; assumption.
  - destruct (vcur v + off + 8 <=? vhwm v) eqn:E.
    + apply N.leb_le in E. apply ar_load; [exact E|]. apply IH. exact Hv.
    + apply N.leb_gt in E. apply ar_load_stuck. exact E.
  - eapply ar_atend; [|apply IH; exact Hv]. unfold atend_ok, s_atend. split.
    + intros H. apply andb_false_iff. right. apply N.leb_gt. exact H.
    + intros H1 H2. rewrite H1. apply N.leb_le in H2. rewrite H2. reflexivity.
  - eapply ar_parked; [|apply IH; exact Hv]. unfold parked_ok, s_parked. split.
    + intros H. apply andb_prop in H. destruct H as [_ H]. destruct (v_err_now v); [discriminate|discriminate].
    + intros H1 H2. rewrite H1. destruct (v_err_now v); [reflexivity|congruence].
  - eapply ar_take; [|apply IH; exact Hv]. unfold take_ok, s_take. split.
    + intros e H. destruct (vknown v); [exact H|discriminate].
    + intros H. rewrite H. reflexivity.
  - constructor. apply IH. exact Hv.
  - constructor. apply IH. exact Hv.
  - constructor. apply IH. exact Hv.
  - constructor.
  - constructor.
Qed.

(* programs that never ask a buffering question have exactly one run *)
Fixpoint det {A} (p : prog A) : Prop :=
  match p with
  | Ret _ | Crash _ | NoFuel => True
  | Peek _ c => forall o, det (c o)
  | Advance _ c | SetMark c => det c
  | GetMark c | GetPos c => forall m, det (c m)
  | _ => False
  end.

Lemma det_aruns {A} (p : prog A) v r : aruns p v r -> det p -> r = srun p v.
Proof.
  induction 1; cbn [det srun]; intros Hd; try contradiction; try reflexivity; auto.
  - assert ((vcur v + n <=? vhwm v) = true) as -> by (apply N.leb_le; assumption). auto.
  - assert ((vcur v + n <=? vhwm v) = false) as -> by (apply N.leb_gt; assumption). reflexivity.
Qed.

(* peeking does not move anything the next peek depends on *)
Lemma vpeek_after_peek v k j : vpeek (after_peek v k) j = vpeek v j.
Proof. reflexivity. Qed.

Lemma nnth_nskipn {A} (l : list A) i j : nnth (nskipn i l) j = nnth l (i + j).
Proof. unfold nnth, nskipn. rewrite nth_error_skipn. f_equal. lia. Qed.

Lemma nskipn_cons_nnth {A} (l : list A) i x r : nskipn i l = x :: r -> nnth l i = Some x /\ nskipn (i + 1) l = r.
Proof.
  intros H. split.
  - replace i with (i + 0) by lia. rewrite <- nnth_nskipn, H. reflexivity.
  - replace (i + 1) with (1 + i) by lia. rewrite <- nskipn_nskipn, H. reflexivity.
Qed.

Lemma nskipn_nil_nnth {A} (l : list A) i : nskipn i l = [] -> nnth l i = None.
Proof.
  intros H. replace i with (i + 0) by lia. rewrite <- nnth_nskipn, H. reflexivity.
Qed.

Lemma aruns_ret_inv {A} (a : A) v r : aruns (Ret a) v r -> r = ADone a v.
Proof. intros H. inversion H; subst. reflexivity. Qed.
