(* driver.ml — runs the extracted model on a case file, one trace line per
   case.  Usage: driver <casefile>.  Each case line starts with its stream. *)
let dispatch (line : string) : string =
  match Util.split_on ' ' line with
  | "c15" :: rest -> S_c15.run rest
  | "rd" :: rest -> S_rd.run rest
  | "wr" :: rest -> S_wr.run rest
  | "tx" :: rest -> S_tx.run rest
  | "pa" :: rest -> S_pa.run rest
  | "rn" :: rest -> S_rn.run rest
  | s :: _ -> failwith ("unknown stream " ^ s)
  | [] -> ""

let () =
  let ic = open_in Sys.argv.(1) in
  (try
     while true do
       let line = input_line ic in
       if line <> "" && line.[0] <> '#' then begin
         let out = try dispatch line with
           | Failure m -> "MODEL-ERROR " ^ m
           | Stack_overflow -> "MODEL-ERROR stack overflow"
           | Not_found -> "MODEL-ERROR not found" in
         print_string out; print_newline ()
       end
     done
   with End_of_file -> ());
  close_in ic
