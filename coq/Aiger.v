(* Aiger.v — flussab-aiger as parser programs: token.rs, and the ascii (aag) and binary (aig)
   parsers of ascii.rs / binary.rs driven through their streaming API to the end of the file
   (header, inputs, latches, outputs, bad state properties, invariant constraints, justice
   property sizes and literals, fairness constraints, and gates, symbols, comment).
   Error messages are not modelled; an error value is its kind and location.
   The literal types u8 / u16 / u32 / u64 / usize differ by Lit::MAX_CODE only ([maxc]).

   Two places where the model is an abstraction of the code rather than a transcription:
   - `reader.buf()[i]` for an index the code has just peeked is written as a peek at i (it is
     buffered, the peek performs no read); in binary_uint, `buf[..byte_len]` and `buf()[byte_len - 1]`
     are the bytes the first loop's peeks returned (the list acc, last byte first);
   - the read-to-end loop `while request_byte_at_offset(buf_len()).is_some() {}` of
     remaining_file_content is written as peeks at 0, 1, 2, ... until one comes back empty: both
     perform request_more() exactly once per refill until the reader is complete, so they drive the
     reader through the same states (and the same read() calls). *)
From Flussab Require Import Base Writer Parsed Prog Text Consts Cnf.

Definition USIZE_MAX_N : N := 18446744073709551615.

(* ---------- std::str::from_utf8: None if valid, else Some valid_up_to ---------- *)
Definition in_rng (lo hi b : N) : bool := (lo <=? b) && (b <=? hi).
Definition is_cont (b : byte) : bool := in_rng 128 191 b.
(* the admissible second byte of a 3- and of a 4-byte sequence *)
Definition second3 (b c : byte) : bool :=
  if b =? 224 then in_rng 160 191 c
  else if b =? 237 then in_rng 128 159 c
  else in_rng 128 191 c.
Definition second4 (b c : byte) : bool :=
  if b =? 240 then in_rng 144 191 c
  else if b =? 244 then in_rng 128 143 c
  else in_rng 128 191 c.

Fixpoint utf8_err (l : bytes) (pos : N) : option N :=
  match l with
  | [] => None
  | b :: r =>
      if b <? 128 then utf8_err r (pos + 1)
      else if in_rng 194 223 b then
        match r with
        | c1 :: r1 => if is_cont c1 then utf8_err r1 (pos + 2) else Some pos
        | [] => Some pos
        end
      else if in_rng 224 239 b then
        match r with
        | c1 :: c2 :: r2 => if second3 b c1 && is_cont c2 then utf8_err r2 (pos + 3) else Some pos
        | _ => Some pos
        end
      else if in_rng 240 244 b then
        match r with
        | c1 :: c2 :: c3 :: r3 =>
            if second4 b c1 && is_cont c2 && is_cont c3 then utf8_err r3 (pos + 4) else Some pos
        | _ => Some pos
        end
      else Some pos
  end.
Definition utf8_valid_up_to (l : bytes) : option N := utf8_err l 0.

(* bytes.iter().rev().position(|&b| b == b'\n') as "index just behind the last LF" *)
Fixpoint after_last_nl (l : bytes) (pos : N) (found : option N) : option N :=
  match l with
  | [] => found
  | b :: r => after_last_nl r (pos + 1) (if b =? 10 then Some (pos + 1) else found)
  end.
Fixpoint count_nl (l : bytes) : N :=
  match l with
  | [] => 0
  | b :: r => (if b =? 10 then 1 else 0) + count_nl r
  end.
Fixpoint last_byte (l : bytes) : option byte :=
  match l with
  | [] => None
  | [b] => Some b
  | _ :: r => last_byte r
  end.

(* ---------- parsed values ---------- *)
Record aheader := {
  a_max_var : N; a_inputs : N; a_latches : N; a_outputs : N; a_ands : N;
  a_bad : N; a_constraints : N; a_justice : N; a_fairness : N
}.

Inductive symkind := SInput | SOutput | SLatch | SBad | SConstraint | SJustice | SFairness.

(* what the streaming API hands out, in order *)
Inductive item :=
| IInput (l : N)
| ILatch (state next : N) (init : option bool)      (* ascii: Latch *)
| IOLatch (next : N) (init : option bool)           (* binary: OrderedLatch *)
| IOutput (l : N)
| IBad (l : N)
| IConstraint (l : N)
| IJusticeSize (n : N)
| IJustice (l : N)
| IFairness (l : N)
| IAnd (output in0 in1 : N)                          (* ascii: AndGate *)
| IOAnd (in0 in1 : N)                                (* binary: OrderedAndGate *)
| ISymbol (k : symkind) (index : N) (name : bytes)
| IComment (c : bytes).

(* result chaining: the `?` operator *)
Definition rbnd {A B} (m : PM (result A perr)) (f : A -> PM (result B perr)) : PM (result B perr) :=
  pbnd m (fun r => match r with Ok a => f a | Err e => pret (Err e) end).
Notation "'let?' x ':=' m 'in' k" := (rbnd m (fun x => k))
  (at level 200, x name, m at level 100, k at level 200, right associativity).
Notation "m ;;? k" := (rbnd m (fun _ => k)) (at level 199, right associativity).

Definition fail_with {A} (err : PM perr) : PM (result A perr) := let* e := err in pret (Err e).

(* L::from_code: `code as $t` *)
Definition from_code (maxc : N) (code : N) : N := code mod (maxc + 1).

(* LineReader.line += n *)
Definition add_lines (n : N) : PM unit :=
  let* s := get_lrs in set_lrs {| l_line := l_line s + n; l_start := l_start s |}.

Definition is_byte (o : option byte) (c : byte) : bool :=
  match o with Some b => b =? c | None => false end.

Section WithFuel.
Variable fuel : nat.

(* ---------- token.rs ---------- *)
(* token::fixed is Cnf.tfixed; token::unexpected is Cnf.unexpected; token::eof is Cnf.teof *)

(* token::fixed_not_eol *)
Definition fixed_not_eol (pat : bytes) : tok unit :=
  let* offset := lift (fixed 0 pat) in
  if offset =? 0 then tok_ft else
  let* o := ppeek offset in
  if is_byte o 10 then tok_ft else padvance offset ;;;; tok_ok tt.

(* token::space / required_space *)
Definition space : tok unit :=
  let* o := ppeek 0 in
  if is_byte o 32 then padvance 1 ;;;; tok_ok tt else tok_ft.
Definition required_space : PM (result unit perr) := or_unexpected space.

(* token::newline / required_newline *)
Definition anewline : tok unit :=
  let* o := ppeek 0 in
  if is_byte o 10 then padvance 1 ;;;; line_at_offset 0 ;;;; tok_ok tt else tok_ft.
Definition required_newline : PM (result unit perr) := or_unexpected anewline.

(* token::required_newline_or_space: Ok true for a space *)
Definition required_newline_or_space : PM (result bool perr) :=
  let* o := ppeek 0 in
  if is_byte o 10 then padvance 1 ;;;; line_at_offset 0 ;;;; pret (Ok false)
  else if is_byte o 32 then padvance 1 ;;;; pret (Ok true)
  else fail_with unexpected.

(* token::uint::<usize>: Err stands for the digit string (leading zeros or a value that does not fit) *)
Definition uint : PM (parsed N unit) :=
  let* r := lift (ascii_digits_multi fuel Usize 0) in
  let '(value, offset) := r in
  if offset =? 0 then pret Fallthrough else
  let* b0 := ppeek 0 in                       (* input.reader.buf()[0] *)
  if negb (is_byte b0 48) || (offset =? 1) then
    match value with
    | Some v => padvance offset ;;;; pret (Res (Ok (Z.to_N v)))
    | None => pret (Res (Err tt))
    end
  else pret (Res (Err tt)).

(* token::header_field / token::symbol_index: exceeds_count always reports at the mark *)
Definition header_field (limit : N) : PM (result N perr) :=
  pset_mark ;;;;
  let* r := located uint give_up_at_mark in
  match r with
  | Res (Ok count) => if limit <? count then fail_with give_up_at_mark else pret (Ok count)
  | Res (Err e) => pret (Err e)
  | Fallthrough => fail_with unexpected
  end.
Definition symbol_index (limit : N) : PM (result N perr) := header_field limit.

(* token::lit: not_assigning and exceeds_count both report at the mark *)
Definition lit (limit : N) (assigning : bool) : PM (result N perr) :=
  pset_mark ;;;;
  let* r := located uint give_up_at_mark in
  match r with
  | Res (Ok count) =>
      if assigning && ((count =? 0) || negb (N.land count 1 =? 0)) then fail_with give_up_at_mark
      else if limit <? count then fail_with give_up_at_mark
      else pret (Ok count)
  | Res (Err e) => pret (Err e)
  | Fallthrough => fail_with unexpected
  end.

(* token::binary_uint, first loop: the bytes of the group encoding, last one first *)
Fixpoint varint_scan (n : nat) (byte_len : N) (acc : bytes) : PM (result bytes perr) :=
  match n with
  | O => pnofuel
  | S n' =>
      let* o := ppeek byte_len in
      match o with
      | Some b =>
          if N.land b 128 =? 0 then pret (Ok (b :: acc))
          else if byte_len + 1 =? 8 then fail_with give_up
          else varint_scan n' (byte_len + 1) (b :: acc)
      | None => fail_with unexpected
      end
  end.
(* second loop: `for byte in buf[..byte_len].iter().rev()` with its overflow test *)
Fixpoint varint_value (rev_bytes : bytes) (value : N) : option N :=
  match rev_bytes with
  | [] => Some value
  | b :: r =>
      let next_value := (value * 128) mod W64 in
      if next_value / 128 =? value then varint_value r (N.lor next_value (N.land b 127)) else None
  end.
(* the value, and `reader.buf()[byte_len - 1] == b'\n'`: whether the last byte of the encoding (the head of the
   reversed list) is a line feed *)
Definition binary_uint : PM (result (N * bool) perr) :=
  let? acc := varint_scan 8 0 [] in
  match varint_value acc 0 with
  | None => fail_with give_up
  | Some v =>
      let ends_line := is_byte (hd_error acc) 10 in
      padvance (nlen acc) ;;;; pret (Ok (v, ends_line))
  end.

(* token::delta_code: a line feed that ends the code is a line break, recorded once the delta has passed its
   range check (the range error is reported at the mark, on the line where the code starts) *)
Definition delta_code (code : N) : PM (result N perr) :=
  pset_mark ;;;;
  let? r := binary_uint in
  let '(delta, ends_line) := r in
  if code <? delta then fail_with give_up_at_mark else
  (if ends_line then line_at_offset 0 else pret tt) ;;;;
  pret (Ok (code - delta)).

(* token::remaining_line_content *)
Fixpoint line_scan (n : nat) (offset : N) (acc : bytes) : PM (bytes * N) :=
  match n with
  | O => pnofuel
  | S n' =>
      let* o := ppeek offset in
      match o with
      | Some b => if b =? 10 then pret (rev acc, offset) else line_scan n' (offset + 1) (b :: acc)
      | None => pret (rev acc, offset)
      end
  end.
Definition remaining_line_content : PM (result bytes perr) :=
  let* r := line_scan fuel 0 [] in
  let '(line, offset) := r in
  let* o := ppeek offset in
  match o with
  | None => padvance offset ;;;; fail_with unexpected
  | Some _ =>
      match utf8_valid_up_to line with
      | None => line_at_offset (offset + 1) ;;;; padvance (offset + 1) ;;;; pret (Ok line)
      | Some valid_up_to => padvance valid_up_to ;;;; fail_with unexpected
      end
  end.

(* token::remaining_file_content *)
Fixpoint read_all (n : nat) (k : N) (acc : bytes) : PM bytes :=
  match n with
  | O => pnofuel
  | S n' =>
      let* o := ppeek k in
      match o with
      | Some b => read_all n' (k + 1) (b :: acc)
      | None => pret (rev acc)
      end
  end.
Definition bad_file_content (content : bytes) (valid_up_to : N) : PM (result bytes perr) :=
  let valid := nfirstn valid_up_to content in
  match after_last_nl valid 0 None with
  | Some adv =>
      add_lines (count_nl (nfirstn (adv - 1) valid)) ;;;;
      padvance adv ;;;; line_at_offset 0 ;;;;
      padvance (valid_up_to - adv) ;;;; fail_with unexpected
  | None => padvance valid_up_to ;;;; fail_with unexpected
  end.
Definition remaining_file_content : PM (result bytes perr) :=
  let* content := read_all fuel 0 [] in
  let* e := lift (TakeErr Ret) in                       (* check_io_error()? *)
  match e with
  | Some io => pret (Err (EIo io))
  | None =>
      let len := nlen content in
      match utf8_valid_up_to content with
      | Some valid_up_to => bad_file_content content valid_up_to
      | None =>
          if match last_byte content with Some b => b =? 10 | None => true end
          then padvance len ;;;; pret (Ok (nfirstn (len - 1) content))
          else bad_file_content content len
      end
  end.

(* ---------- Header::parse (ascii.rs and binary.rs are copies up to the magic word) ---------- *)
Definition mk_header (m i l o a b c j f : N) : aheader :=
  {| a_max_var := m; a_inputs := i; a_latches := l; a_outputs := o; a_ands := a;
     a_bad := b; a_constraints := c; a_justice := j; a_fairness := f |}.

Definition parse_aheader (magic : bytes) (maxc : N) : PM (result aheader perr) :=
  or_unexpected (tfixed magic) ;;?
  required_space ;;?
  let? m := header_field ((maxc - 1) / 2) in
  required_space ;;?
  let? i := header_field m in
  required_space ;;?
  let? l := header_field (m - i) in
  required_space ;;?
  let? o := header_field USIZE_MAX_N in
  required_space ;;?
  let? a := header_field (m - i - l) in
  let? s1 := required_newline_or_space in
  if negb s1 then pret (Ok (mk_header m i l o a 0 0 0 0)) else
  let? b := header_field USIZE_MAX_N in
  let? s2 := required_newline_or_space in
  if negb s2 then pret (Ok (mk_header m i l o a b 0 0 0)) else
  let? c := header_field USIZE_MAX_N in
  let? s3 := required_newline_or_space in
  if negb s3 then pret (Ok (mk_header m i l o a b c 0 0)) else
  let? j := header_field USIZE_MAX_N in
  let? s4 := required_newline_or_space in
  if negb s4 then pret (Ok (mk_header m i l o a b c j 0)) else
  let? f := header_field USIZE_MAX_N in
  required_newline ;;?
  pret (Ok (mk_header m i l o a b c j f)).

(* ---------- sections ---------- *)
(* `left` calls of next_xxx(), each returning one item; the state is what the parser struct carries
   from item to item (binary: the current code; justice sizes: their running total) *)
Fixpoint sloop {St : Type} (n : nat) (it : St -> PM (result (item * St) perr)) (left : N) (st : St)
         (acc : list item) : PM (list item * St * option perr) :=
  if left =? 0 then pret (rev acc, st, None) else
  match n with
  | O => pnofuel
  | S n' =>
      let* r := it st in
      match r with
      | Ok (x, st') => sloop n' it (left - 1) st' (x :: acc)
      | Err e => pret (rev acc, st, Some e)
      end
  end.

(* run a section, then the rest of the file *)
Definition sect {St : Type} (m : PM (list item * St * option perr)) (k : St -> PM (list item * final))
  : PM (list item * final) :=
  let* r := m in
  let '(items, st, e) := r in
  match e with
  | Some err => pret (items, FErr err)
  | None =>
      let* r2 := k st in
      let '(items2, fin) := r2 in
      pret (items ++ items2, fin)
  end.

(* a section of one literal per line *)
Definition lit_line {St : Type} (maxc max_lit : N) (assigning : bool) (mk : N -> item) (st : St)
  : PM (result (item * St) perr) :=
  let? c := lit max_lit assigning in
  required_newline ;;?
  pret (Ok (mk (from_code maxc c), st)).

(* next_justice_property_size *)
Definition justice_size (total : N) : PM (result (item * N) perr) :=
  let? count := header_field (USIZE_MAX_N - total) in
  required_newline ;;?
  pret (Ok (IJusticeSize count, total + count)).

(* the optional third field of a latch line *)
Definition latch_init (max_lit : N) (state_code : N) : PM (result (option bool) perr) :=
  let? sp := required_newline_or_space in
  if sp then
    let? ic := lit max_lit false in
    if ic <? 2 then required_newline ;;? pret (Ok (Some (negb (ic =? 0))))
    else if ic =? state_code then required_newline ;;? pret (Ok None)
    else fail_with give_up_at_mark               (* invalid_initialization *)
  else pret (Ok (Some false)).

(* ascii next_latch *)
Definition aag_latch (maxc max_lit : N) (st : unit) : PM (result (item * unit) perr) :=
  let? state_code := lit max_lit true in
  required_space ;;?
  let? next := lit max_lit false in
  let? init := latch_init max_lit state_code in
  pret (Ok (ILatch (from_code maxc state_code) (from_code maxc next) init, st)).

(* ascii next_and_gate *)
Definition aag_and (maxc max_lit : N) (st : unit) : PM (result (item * unit) perr) :=
  let? output := lit max_lit true in
  required_space ;;?
  let? in0 := lit max_lit false in
  required_space ;;?
  let? in1 := lit max_lit false in
  required_newline ;;?
  pret (Ok (IAnd (from_code maxc output) (from_code maxc in0) (from_code maxc in1), st)).

(* `self.parser.code = self.parser.code.wrapping_add(2)`: wraps (to 0) behind the last definition of a file
   with I + L + A = M = 2^63 - 1, where the value is not used any more *)
Definition code_plus_2 {A} (code : N) (k : N -> PM A) : PM A := k ((code + 2) mod W64).

(* binary next_latch *)
Definition aig_latch (maxc max_lit : N) (code : N) : PM (result (item * N) perr) :=
  let? next := lit max_lit false in
  let? init := latch_init max_lit code in
  code_plus_2 code (fun code' => pret (Ok (IOLatch (from_code maxc next) init, code'))).

(* binary next_and_gate *)
Definition aig_and (maxc : N) (code : N) : PM (result (item * N) perr) :=
  let? in0 := delta_code code in
  let? in1 := delta_code in0 in
  code_plus_2 code (fun code' => pret (Ok (IOAnd (from_code maxc in0) (from_code maxc in1), code'))).

(* ---------- symbols and comment (identical in ascii.rs and binary.rs) ---------- *)
Definition sym_try (count : N) (letter : byte) (not_eol : bool) (k : symkind) : tok (symkind * N) :=
  if 0 <? count then
    let* f := (if not_eol then fixed_not_eol [letter] else tfixed [letter]) in
    match f with
    | Res (Ok _) =>
        let* r := symbol_index (count - 1) in
        pret (Res (match r with Ok i => Ok (k, i) | Err e => Err e end))
    | Res (Err e) => tok_err e
    | Fallthrough => tok_ft
    end
  else tok_ft.

Definition or_parse_tok {A} (a b : tok A) : tok A :=
  let* r := a in
  match r with Fallthrough => b | other => pret other end.

Definition symbol_target (h : aheader) : tok (symkind * N) :=
  or_parse_tok (sym_try (a_inputs h) 105 false SInput)
  (or_parse_tok (sym_try (a_outputs h) 111 false SOutput)
  (or_parse_tok (sym_try (a_latches h) 108 false SLatch)
  (or_parse_tok (sym_try (a_bad h) 98 false SBad)
  (or_parse_tok (sym_try (a_constraints h) 99 true SConstraint)
  (or_parse_tok (sym_try (a_justice h) 106 false SJustice)
                (sym_try (a_fairness h) 102 false SFairness)))))).

Definition next_symbol (h : aheader) : PM (result (option item) perr) :=
  let* t := symbol_target h in
  match t with
  | Res (Ok (k, i)) =>
      required_space ;;?
      let? name := remaining_line_content in
      pret (Ok (Some (ISymbol k i name)))
  | Res (Err e) => pret (Err e)
  | Fallthrough => pret (Ok None)
  end.

(* calling next_symbol until it returns None *)
Fixpoint symbols_loop (n : nat) (h : aheader) (acc : list item) : PM (list item * unit * option perr) :=
  match n with
  | O => pnofuel
  | S n' =>
      let* r := next_symbol h in
      match r with
      | Ok (Some s) => symbols_loop n' h (s :: acc)
      | Ok None => pret (rev acc, tt, None)
      | Err e => pret (rev acc, tt, Some e)
      end
  end.

(* ParseSymbols::comment: skips what symbols are left (their values are dropped), then the comment
   section or the end of the file *)
Definition comment_section (h : aheader) : PM (list item * final) :=
  let* r := symbols_loop fuel h [] in
  let '(_, _, e) := r in
  match e with
  | Some err => pret ([], FErr err)
  | None =>
      let* c := tfixed [99] in
      match c with
      | Res (Ok _) =>
          let* r2 := (required_newline ;;? remaining_file_content) in
          match r2 with
          | Ok content => pret ([IComment content], FOk)
          | Err err => pret ([], FErr err)
          end
      | Res (Err err) => pret ([], FErr err)
      | Fallthrough =>
          let* r2 := or_unexpected teof in
          match r2 with
          | Ok _ => pret ([], FOk)
          | Err err => pret ([], FErr err)
          end
      end
  end.

(* ---------- the two parsers ---------- *)
Definition aout : Type := (option aheader * list item * final)%type.

Definition finish_parse (h : result aheader perr) (body : aheader -> PM (list item * final)) : PM aout :=
  match h with
  | Err e => pret (None, [], FErr e)
  | Ok hd => let* r := body hd in let '(items, fin) := r in pret (Some hd, items, fin)
  end.

(* the sections that follow the latches and precede the and gates in both formats *)
Definition middle_sections {St : Type} (maxc max_lit : N) (h : aheader) (st : St) (k : St -> PM (list item * final))
  : PM (list item * final) :=
  sect (sloop fuel (lit_line maxc max_lit false IOutput) (a_outputs h) st []) (fun st =>
  sect (sloop fuel (lit_line maxc max_lit false IBad) (a_bad h) st []) (fun st =>
  sect (sloop fuel (lit_line maxc max_lit false IConstraint) (a_constraints h) st []) (fun st =>
  sect (sloop fuel justice_size (a_justice h) 0 []) (fun total =>
  sect (sloop fuel (lit_line maxc max_lit false IJustice) total st []) (fun st =>
  sect (sloop fuel (lit_line maxc max_lit false IFairness) (a_fairness h) st []) k))))).

Definition parse_aag (maxc : N) : PM aout :=
  let* h := parse_aheader magic_ascii maxc in
  finish_parse h (fun hd =>
    let max_lit := a_max_var hd * 2 + 1 in
    sect (sloop fuel (lit_line maxc max_lit true IInput) (a_inputs hd) tt []) (fun st =>
    sect (sloop fuel (aag_latch maxc max_lit) (a_latches hd) st []) (fun st =>
    middle_sections maxc max_lit hd st (fun st =>
    sect (sloop fuel (aag_and maxc max_lit) (a_ands hd) st []) (fun _ =>
    sect (symbols_loop fuel hd []) (fun _ =>
    comment_section hd)))))).

Definition parse_aig (maxc : N) : PM aout :=
  let* h := parse_aheader magic_binary maxc in
  finish_parse h (fun hd =>
    let max_lit := a_max_var hd * 2 + 1 in
    (* header.input_count.wrapping_add(1).wrapping_mul(2) *)
    let code0 := (((a_inputs hd + 1) mod W64) * 2) mod W64 in
    sect (sloop fuel (aig_latch maxc max_lit) (a_latches hd) code0 []) (fun code =>
    middle_sections maxc max_lit hd code (fun code =>
    sect (sloop fuel (aig_and maxc) (a_ands hd) code []) (fun _ =>
    sect (symbols_loop fuel hd []) (fun _ =>
    comment_section hd))))).

End WithFuel.

(* ---------- the whole-file API: Parser::parse collects the items into an Aig / OrderedAig ---------- *)
Record aig := {
  g_header : aheader;
  g_inputs : list N;
  g_latches : list (option N * N * option bool);     (* state (ascii only), next state, initialization *)
  g_outputs : list N;
  g_bad : list N;
  g_constraints : list N;
  g_justice : list (list N);
  g_fairness : list N;
  g_ands : list (option N * N * N);                   (* output (ascii only), inputs *)
  g_symbols : list (symkind * N * bytes);
  g_comment : option bytes
}.

Definition sel {A} (f : item -> option A) (l : list item) : list A :=
  flat_map (fun i => match f i with Some a => [a] | None => [] end) l.

(* the justice literals are dealt out to the properties by their declared sizes *)
Fixpoint deal (sizes : list N) (lits : list N) : list (list N) :=
  match sizes with
  | [] => []
  | n :: r => nfirstn n lits :: deal r (nskipn n lits)
  end.

Definition aig_of_items (h : aheader) (l : list item) : aig :=
  {| g_header := h;
     g_inputs := sel (fun i => match i with IInput x => Some x | _ => None end) l;
     g_latches := sel (fun i => match i with
                                | ILatch s n r => Some (Some s, n, r)
                                | IOLatch n r => Some (None, n, r)
                                | _ => None end) l;
     g_outputs := sel (fun i => match i with IOutput x => Some x | _ => None end) l;
     g_bad := sel (fun i => match i with IBad x => Some x | _ => None end) l;
     g_constraints := sel (fun i => match i with IConstraint x => Some x | _ => None end) l;
     g_justice := deal (sel (fun i => match i with IJusticeSize x => Some x | _ => None end) l)
                       (sel (fun i => match i with IJustice x => Some x | _ => None end) l);
     g_fairness := sel (fun i => match i with IFairness x => Some x | _ => None end) l;
     g_ands := sel (fun i => match i with
                             | IAnd o a b => Some (Some o, a, b)
                             | IOAnd a b => Some (None, a, b)
                             | _ => None end) l;
     g_symbols := sel (fun i => match i with ISymbol k x n => Some (k, x, n) | _ => None end) l;
     g_comment := match sel (fun i => match i with IComment c => Some c | _ => None end) l with
                  | c :: _ => Some c
                  | [] => None
                  end |}.

(* Parser::parse: the value, or the error *)
Definition whole_file (r : aout) : result aig perr :=
  match r with
  | (Some h, items, FOk) => Ok (aig_of_items h items)
  | (_, _, FErr e) => Err e
  | (None, _, FOk) => Err (ESyntax 0 0)       (* not produced by the parsers *)
  end.
