#!/usr/bin/env python3
"""Writes MANIFEST.json from tools/manifest_data.py (kept valid at all times)."""
import json, os, sys
ROOT = os.path.dirname(os.path.dirname(os.path.abspath(__file__)))
sys.path.insert(0, os.path.join(ROOT, "tools"))
import manifest_data as D

checks = []
for pid, c in sorted(D.CHECKS.items()):
    checks.append({
        "property_id": pid,
        "quick_cmd": "./check %s --tier quick" % pid,
        "thorough_cmd": "./check %s --tier thorough" % pid,
        "evidence_file": "/verif/evidence/%s.json" % pid,
        "replay_cmd_template": "./check %s --replay {path}" % pid,
        "engine": "coq-model",
        "level_claimed": {"category": "proof", "text": c["text"], "design_ref": c["design_ref"]},
        "level_note": c["note"],
        "technique": c["technique"],
    })
m = {
    "version": 1,
    "setup_cmd": "./setup.sh",
    "hooks": {
        "guard": "flussab_verif",
        "enable": "RUSTFLAGS=--cfg flussab_verif (no hook commits exist: all observations go through the public API)",
        "baseline_off_cmd": "cd /repo && cargo test --workspace --no-fail-fast --offline",
        "source_commits": [],
        "add_only": True,
    },
    "engines": [{
        "name": "coq-model", "path": "/verif/coq",
        "serves_properties": sorted(D.CHECKS),
        "kind_free_text": "Coq 8.16 model + theorems (coq/), translator (tools/translate.py), extracted OCaml driver (ocaml/), "
                          "Rust correspondence harness (harness/), orchestrator (tools/check.py)",
    }],
    "checks": checks,
    "notes": D.NOTES,
    "not_applicable": [{"property_id": p, "reason": r} for p, r in sorted(D.NOT_YET.items()) if p not in D.CHECKS],
}
json.dump(m, open(os.path.join(ROOT, "MANIFEST.json"), "w"), indent=1)
print("MANIFEST.json: %d checks, %d not_applicable" % (len(checks), len(m["not_applicable"])))
