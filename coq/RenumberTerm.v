(* RenumberTerm.v — termination of Renumber::transfer on every graph, cyclic or not (property C12).

   The stack literals, read from the bottom, form an orbit of a function determined by the current
   lit_map (go to the first input if it has no entry yet, else to the second).  Every frame was
   pushed after the test "the literal in the middle of the stack differs from the new literal"
   failed.  An orbit over at most 2*#gates literals repeats, and a repeating orbit makes that
   test succeed before the stack is 4*#gates+2 deep.  A potential (6 per unfinished gate, minus 1
   per Input0 frame, minus 4 per Input1 frame) then bounds the number of steps. *)
From stdpp Require Import gmap.
From Coq Require Import NArith List Lia Bool.
From Flussab Require Import Aig Renumber RenumberProofs.
Import ListNotations.
Local Open Scope nat_scope.

(* ------------------------------------------------------------ lists *)

Lemma half_spec n : 2 * half n <= n < 2 * half n + 2.
Proof.
  assert (H : forall m, (2 * half m <= m < 2 * half m + 2) /\ (2 * half (S m) <= S m < 2 * half (S m) + 2)).
  { induction m as [|m [IH1 IH2]]; simpl; [lia|]. split; [exact IH2|]. simpl in *. lia. }
  apply H.
Qed.

Lemma half_double m : half (2 * m) = m.
Proof. pose proof (half_spec (2 * m)). lia. Qed.

Lemma nth_error_rev {A} (l : list A) i :
  i < length l -> nth_error (rev l) i = nth_error l (length l - 1 - i).
Proof.
  revert i. induction l as [|x l IH]; intros i Hi; simpl in *; [lia|].
  destruct (Nat.eq_dec i (length l)) as [->|Hne].
  - rewrite nth_error_app2 by (rewrite rev_length; lia). rewrite rev_length, Nat.sub_diag.
    replace (length l - 0 - length l) with 0 by lia. reflexivity.
  - rewrite nth_error_app1 by (rewrite rev_length; lia). rewrite IH by lia.
    replace (length l - 0 - i) with (S (length l - 1 - i)) by lia. reflexivity.
Qed.

Section Orbit.
  Variable R : N -> N -> Prop.
  Hypothesis Rfun : forall x y z, R x y -> R x z -> y = z.

  (* consecutive elements are related *)
  Definition orbit (p : list N) : Prop :=
    forall i x y, nth_error p i = Some x -> nth_error p (S i) = Some y -> R x y.

  (* the test that was made when element i was added: the element at i/2 is different *)
  Definition hist (p : list N) : Prop :=
    forall i x, 1 <= i -> nth_error p i = Some x -> nth_error p (half i) <> Some x.

  Lemma orbit_shift p a b : orbit p -> a <= b -> nth_error p a = nth_error p b -> nth_error p a <> None ->
    forall j, b + j < length p -> nth_error p (a + j) = nth_error p (b + j).
  Proof.
    intros Ho Hab Heq Hsome. induction j as [|j IH]; intros Hj; [rewrite !Nat.add_0_r; exact Heq|].
    specialize (IH ltac:(lia)).
    destruct (nth_error p (a + j)) as [x|] eqn:Ea.
    2:{ apply nth_error_None in Ea. lia. }
    destruct (nth_error p (a + S j)) as [y|] eqn:Ea'.
    2:{ apply nth_error_None in Ea'. lia. }
    destruct (nth_error p (b + S j)) as [z|] eqn:Eb'.
    2:{ apply nth_error_None in Eb'. lia. }
    f_equal. eapply Rfun.
    - apply (Ho (a + j) x y Ea). rewrite <- Ea'. f_equal. lia.
    - apply (Ho (b + j) x z); [rewrite <- IH; reflexivity|]. rewrite <- Eb'. f_equal. lia.
  Qed.

  Lemma orbit_periodic p a lam : orbit p -> 1 <= lam -> nth_error p a = nth_error p (a + lam) -> nth_error p a <> None ->
    forall t j, a <= j -> j + lam * t < length p -> nth_error p j = nth_error p (j + lam * t).
  Proof.
    intros Ho Hl Heq Hs. induction t as [|t IH]; intros j Hj Hlen; [rewrite Nat.mul_0_r, Nat.add_0_r; reflexivity|].
    rewrite (IH j Hj) by lia.
    pose proof (orbit_shift p a (a + lam) Ho ltac:(lia) Heq Hs (j + lam * t - a) ltac:(lia)) as H.
    replace (a + (j + lam * t - a)) with (j + lam * t) in H by lia.
    rewrite H. f_equal. lia.
  Qed.

  Lemma repeat_in_prefix (C p : list N) :
    (forall x, In x p -> In x C) -> length C < length p ->
    exists a b x, a < b /\ b <= length C /\ nth_error p a = Some x /\ nth_error p b = Some x.
  Proof.
    intros Hin Hlen.
    assert (Hdup : forall l : list N, ~ List.NoDup l -> exists a b x, a < b /\ b < length l /\ nth_error l a = Some x /\ nth_error l b = Some x).
    { induction l as [|y l IH]; intros Hnd; [exfalso; apply Hnd; constructor|].
      destruct (in_dec N.eq_dec y l) as [Hy|Hy].
      - destruct (In_nth_error _ _ Hy) as [b Hb]. exists 0, (S b), y. simpl.
        assert (b < length l) by (apply nth_error_Some; congruence). repeat split; try lia; assumption.
      - destruct IH as (a & b & x & Hab & Hb & Ha' & Hb').
        + intros Hnd'. apply Hnd. constructor; assumption.
        + exists (S a), (S b), x. simpl. repeat split; try lia; assumption. }
    destruct (Hdup (firstn (S (length C)) p)) as (a & b & x & Hab & Hb & Ha' & Hb').
    - intros Hnd. assert (Hle : length (firstn (S (length C)) p) <= length C).
      { apply (Coq.Lists.List.NoDup_incl_length Hnd). intros y Hy. apply Hin.
        rewrite <- (firstn_skipn (S (length C)) p). apply in_or_app. left. exact Hy. }
      rewrite firstn_length in Hle. lia.
    - rewrite firstn_length in Hb. exists a, b, x.
      assert (Hf : forall i, i < S (length C) -> nth_error (firstn (S (length C)) p) i = nth_error p i).
      { intros i Hi. rewrite <- (firstn_skipn (S (length C)) p) at 2.
        rewrite nth_error_app1; [reflexivity|]. rewrite firstn_length. lia. }
      rewrite Hf in Ha', Hb' by lia. repeat split; try lia; assumption.
  Qed.

  (* a stack whose literals form an orbit and passed the middle test at every push is shallow *)
  Lemma depth_bound (C p : list N) :
    (forall x, In x p -> In x C) -> orbit p -> hist p -> length p <= 2 * length C + 1.
  Proof.
    intros Hin Ho Hh. destruct (Nat.le_gt_cases (length p) (2 * length C + 1)) as [|Hbig]; [assumption|exfalso].
    destruct (repeat_in_prefix C p Hin ltac:(lia)) as (a & b & x & Hab & Hb & Ha' & Hb').
    set (lam := b - a). set (m := lam * (a / lam + 1)).
    assert (Hlam : 1 <= lam) by (unfold lam; lia).
    assert (Hm : a < m <= b).
    { unfold m. pose proof (Nat.div_mod a lam ltac:(lia)) as Hd. pose proof (Nat.mod_upper_bound a lam ltac:(lia)) as Hu.
      unfold lam in *. nia. }
    assert (Hper : nth_error p m = nth_error p (m + lam * (a / lam + 1))).
    { apply (orbit_periodic p a lam Ho Hlam); [|congruence|lia|fold m; lia].
      replace (a + lam) with b by (unfold lam; lia). congruence. }
    fold m in Hper.
    destruct (nth_error p (m + m)) as [y|] eqn:Ey.
    2:{ apply nth_error_None in Ey. lia. }
    apply (Hh (m + m) y ltac:(lia) Ey).
    replace (m + m) with (2 * m) by lia. rewrite half_double. exact Hper.
  Qed.
End Orbit.

(* ------------------------------------------------------------ the invariant *)

Lemma mappedb_same_var r x y : N.div2 x = N.div2 y -> mappedb r x = mappedb r y.
Proof. intros H. unfold mappedb. apply lkey_eq_iff in H. rewrite H. reflexivity. Qed.

Lemma mappedb_lm_get r l : mappedb r l = match lm_get (r_map r) l with Some _ => true | None => false end.
Proof. unfold mappedb, lm_get. destruct (r_map r !! lkey l); reflexivity. Qed.

Lemma lneg_involutive l : lneg (lneg l) = l.
Proof. unfold lneg. rewrite <- N.lxor_assoc, N.lxor_nilpotent, N.lxor_0_l. reflexivity. Qed.

Lemma out_ok_div2 l d : out_ok l d -> N.div2 (g_out d) = N.div2 l.
Proof. intros [->| ->]; [reflexivity|apply lneg_div2]. Qed.

Lemma step_input1_map l d t r t' r' :
  rstep (SInput1 l d t) r = Next (SReturn t') r' ->
  r_stack r' = r_stack r /\
  forall x, mappedb r' x = mappedb r x || (N.div2 x =? N.div2 (g_out d))%N.
Proof.
  assert (Hins : forall (m : gmap N N) v x,
    match <[lkey (g_out d) := v]> m !! lkey x with Some _ => true | None => false end =
    match m !! lkey x with Some _ => true | None => false end || (N.div2 x =? N.div2 (g_out d))%N).
  { intros m v x. destruct (N.eqb_spec (N.div2 x) (N.div2 (g_out d))) as [E|E].
    - apply lkey_eq_iff in E. rewrite E, lookup_insert, orb_true_r. reflexivity.
    - rewrite lookup_insert_ne, orb_false_r; [reflexivity|]. intros E'. apply E. symmetry. apply lkey_eq_iff. exact E'. }
  simpl. destruct (sort2 (g_in0 d) t) as [x y].
  destruct (if c_fold (r_cfg r) then fold_gate x y else None) as [folded|].
  - intros [= <- <-]. split; [reflexivity|]. intros z. apply Hins.
  - destruct (c_strash (r_cfg r)); [destruct (r_index r !! (x, y))|];
      (intros [= <- <-]; split; [reflexivity|]; intros z; apply Hins).
Qed.

Definition lits (s : list cont) : list N := rev (map cont_lit s).

Lemma lits_cons k s : lits (k :: s) = lits s ++ [cont_lit k].
Proof. reflexivity. Qed.

Lemma lits_length s : length (lits s) = length s.
Proof. unfold lits. rewrite rev_length, map_length. reflexivity. Qed.

Section Term.
  Variable a : aig.
  Hypothesis Huniq : forall g g', In g (a_gates a) -> In g' (a_gates a) -> gvar g = gvar g' -> g = g'.
  Let base := base_of a.

  Definition jframe (r : rstate) (k : cont) : Prop :=
    mappedb r (cont_lit k) = false /\
    match k with
    | KInput0 _ _ => True
    | KInput1 _ d => exists a0, In (AndGate a0 (g_in1 d) (g_out d)) (a_gates a) /\ mappedb r a0 = true
    end.

  Definition jstate (s : tstate) (r : rstate) : Prop :=
    match s with
    | SInput0 l d t => mappedb r l = false /\ mappedb r (g_in0 d) = true
    | SInput1 l d t => jframe r (KInput1 l d) /\ mappedb r (g_in1 d) = true
    | _ => True
    end.

  Definition vlits (s : tstate) (r : rstate) : list N :=
    match s with
    | SInput0 l _ _ | SInput1 l _ _ => lits (r_stack r) ++ [l]
    | _ => lits (r_stack r)
    end.

  (* the relation "next literal on the stack" for the current lit_map *)
  Definition nxt (r : rstate) (l l' : N) : Prop :=
    exists g, In g (a_gates a) /\ gvar g = N.div2 l /\
      ((mappedb r (g_in0 g) = false /\ l' = g_in0 g) \/ (mappedb r (g_in0 g) = true /\ l' = g_in1 g)).

  Lemma nxt_fun r x y z : nxt r x y -> nxt r x z -> y = z.
  Proof.
    intros (g & Hg & Hv & H1) (g' & Hg' & Hv' & H2).
    assert (g = g') by (apply Huniq; congruence). subst g'.
    destruct H1 as [[E1 ->]|[E1 ->]], H2 as [[E2 ->]|[E2 ->]]; congruence.
  Qed.

  Definition TInv (l0 : lit) (s : tstate) (r : rstate) : Prop :=
    Inv a base l0 s r /\ Forall (jframe r) (r_stack r) /\ jstate s r /\ hist (vlits s r).

  Lemma hist_prefix p q : hist (p ++ q) -> hist p.
  Proof.
    intros H i x Hi Hx. assert (Hlt : i < length p) by (apply nth_error_Some; congruence).
    pose proof (half_spec i).
    specialize (H i x Hi). rewrite !nth_error_app1 in H by lia. auto.
  Qed.

  Lemma hist_snoc p l : hist p -> (1 <= length p -> nth_error p (half (length p)) <> Some l) -> hist (p ++ [l]).
  Proof.
    intros Hp Hl i x Hi Hx. pose proof (half_spec i).
    destruct (Nat.lt_ge_cases i (length p)) as [Hlt|Hge].
    - rewrite nth_error_app1 in Hx by exact Hlt. rewrite nth_error_app1 by lia. apply Hp; assumption.
    - assert (i = length p).
      { assert (i < length (p ++ [l])) by (apply nth_error_Some; congruence). rewrite app_length in *. simpl in *. lia. }
      subst i. rewrite nth_error_app2, Nat.sub_diag in Hx by lia. injection Hx as <-.
      rewrite nth_error_app1 by lia. apply Hl. exact Hi.
  Qed.

  Lemma cycle_test_false s l :
    cycle_test s l = false -> 1 <= length (lits s) -> nth_error (lits s) (half (length (lits s))) <> Some l.
  Proof.
    rewrite lits_length. intros Hc Hlen. unfold cycle_test, stack_mid in Hc.
    assert (Hs : match s with [] => None | _ :: _ => nth_error s (length s - 1 - half (length s)) end
                 = nth_error s (length s - 1 - half (length s))) by (destruct s; [simpl in Hlen; lia|reflexivity]).
    rewrite Hs in Hc. clear Hs.
    pose proof (half_spec (length s)). unfold lits.
    rewrite nth_error_rev by (rewrite map_length; lia). rewrite map_length, nth_error_map.
    destruct (nth_error s (length s - 1 - half (length s))) as [k|]; simpl; [|discriminate].
    intros [= E]. rewrite <- E, N.eqb_refl in Hc. discriminate.
  Qed.

  (* no literal waited for by a frame has a lit_map entry *)
  Lemma want_unmapped l0 m r s :
    chain_ok a m l0 s -> Forall (jframe r) s -> mappedb r (want_top s l0) = false ->
    forall k, In k s -> mappedb r (want k) = false.
  Proof.
    induction s as [|k0 s IH]; simpl; intros Hc Hj Hw k Hk; [destruct Hk|].
    destruct Hc as (_ & Hl & Hc). inversion Hj as [|? ? Hj0 Hj']; subst.
    destruct Hk as [<-|Hk]; [exact Hw|]. apply (IH Hc Hj'); [|exact Hk].
    rewrite <- Hl. apply Hj0.
  Qed.

  Lemma jframe_mono r r' k :
    (forall x, mappedb r x = true -> mappedb r' x = true) -> mappedb r' (cont_lit k) = false ->
    jframe r k -> jframe r' k.
  Proof.
    intros Hm Hu [_ Hk]. split; [exact Hu|]. destruct k as [l d|l d]; [exact I|].
    destruct Hk as (a0 & Hin & Ha0). exists a0. split; [exact Hin|apply Hm; exact Ha0].
  Qed.

  Lemma frame_gate m k : frame_ok a m k ->
    exists g, In g (a_gates a) /\ gvar g = N.div2 (cont_lit k) /\
      match k with KInput0 _ _ => want k = g_in0 g | KInput1 _ _ => want k = g_in1 g end.
  Proof.
    destruct k as [l d|l d]; simpl.
    - intros [Hin Ho]. exists d. split; [exact Hin|]. split; [apply out_ok_div2; exact Ho|reflexivity].
    - intros ((a0 & Hin) & Ho & _). exists (AndGate a0 (g_in1 d) (g_out d)). split; [exact Hin|].
      split; [apply (out_ok_div2 l d Ho)|reflexivity].
  Qed.

  Lemma step_tinv l0 s r s' r' : TInv l0 s r -> rstep s r = Next s' r' -> TInv l0 s' r'.
  Proof.
    intros (HI & Hj & Hs & Hh) H. split; [eapply step_inv; eassumption|].
    destruct HI as [G S]. destruct s as [l|l d t|l d t|t]; simpl in H.
    - (* Transfer *)
      destruct (lm_get (r_map r) l) as [t|] eqn:Eg.
      + injection H as <- <-. split; [exact Hj|]. split; [exact I|exact Hh].
      + destruct (cycle_test (r_stack r) l) eqn:Ec; [discriminate|].
        destruct (find_def (r_defs r) l) as [d|] eqn:Ed; [|discriminate]. injection H as <- <-.
        split; [|split; [exact I|]].
        * constructor; [|exact Hj]. split; [|exact I]. change (mappedb r l = false). rewrite mappedb_lm_get, Eg. reflexivity.
        * simpl. apply hist_snoc; [exact Hh|]. apply cycle_test_false. exact Ec.
    - (* Input0 *)
      destruct S as (Hc & (Hin & Hout) & Hl & Ht). destruct Hs as [Hu Hm0]. injection H as <- <-.
      split; [|split; [exact I|exact Hh]].
      constructor; [|exact Hj]. split; [exact Hu|]. simpl. exists (g_in0 d). rewrite gate_eta. auto.
    - (* Input1 *)
      destruct S as (Hc & ((a1 & Hin1) & Hout & Hv0) & Hl & Ht). destruct Hs as [[Hu (a0 & Hin & Ha0)] Hm1]. simpl in Hu.
      assert (Hret : exists t', s' = SReturn t').
      { destruct (sort2 (g_in0 d) t) as [x y].
        destruct (if c_fold (r_cfg r) then fold_gate x y else None); [injection H as <- <-; eauto|].
        destruct (c_strash (r_cfg r)); [destruct (r_index r !! (x, y))|]; injection H as <- <-; eauto. }
      destruct Hret as [t' ->].
      destruct (step_input1_map l d t r t' r' H) as [Hst Hmap].
      split; [|split; [exact I|]].
      + rewrite Hst.
        assert (Hwu : forall k, In k (r_stack r) -> mappedb r (want k) = false).
        { apply (want_unmapped l0 (maxv base r) r (r_stack r) Hc Hj). rewrite <- Hl. exact Hu. }
        apply Forall_forall. intros k Hk. pose proof (proj1 (Forall_forall _ _) Hj k Hk) as Hjk.
        apply (jframe_mono r r'); [intros x Hx; rewrite Hmap, Hx; reflexivity| |exact Hjk].
        rewrite Hmap. destruct Hjk as [Hku _]. rewrite Hku. simpl.
        destruct (N.eqb_spec (N.div2 (cont_lit k)) (N.div2 (g_out d))) as [E|E]; [exfalso|reflexivity].
        (* a frame for the same variable would wait for an input of this gate, but both have entries *)
        assert (Hfk : frame_ok a (maxv base r) k).
        { clear - Hc Hk. induction (r_stack r) as [|k0 s IH]; [destruct Hk|]. destruct Hc as (H0 & _ & Hc).
          destruct Hk as [<-|Hk]; [exact H0|auto]. }
        destruct (frame_gate _ _ Hfk) as (g & Hg & Hgv & Hw).
        assert (g = AndGate a0 (g_in1 d) (g_out d)) by (apply Huniq; [exact Hg|exact Hin|rewrite Hgv, E; reflexivity]).
        subst g. specialize (Hwu k Hk). simpl in Hw. destruct k as [lk dk|lk dk]; rewrite Hw in Hwu; congruence.
      + simpl in Hh. simpl. rewrite Hst. eapply hist_prefix. exact Hh.
    - (* Return *)
      destruct S as [Hc Hg]. simpl in Hh. destruct (r_stack r) as [|k rest] eqn:Est; [discriminate|].
      inversion Hj as [|? ? Hjk Hjr]; subst.
      assert (Hm : mappedb r (want k) = true) by (rewrite mappedb_lm_get; simpl in Hg; rewrite Hg; reflexivity).
      destruct k as [l d|l d]; injection H as <- <-.
      + split; [exact Hjr|]. split; [split; [apply Hjk|exact Hm]|]. simpl. rewrite lits_cons in Hh. exact Hh.
      + split; [exact Hjr|]. split; [split; [exact Hjk|exact Hm]|]. simpl. rewrite lits_cons in Hh. exact Hh.
  Qed.

  (* ---------------------------------------------------------- the stack is shallow *)

  Definition candidates : list N := flat_map (fun g => [g_out g; lneg (g_out g)]) (a_gates a).

  Lemma candidates_length : length candidates = 2 * length (a_gates a).
  Proof. clear Huniq. unfold candidates. induction (a_gates a) as [|g gs IH]; simpl; [reflexivity|]. rewrite IH. lia. Qed.

  Lemma out_ok_candidate l d : In d (a_gates a) -> out_ok l d -> In l candidates.
  Proof.
    intros Hin Ho. unfold candidates. apply in_flat_map. exists d. split; [exact Hin|].
    destruct Ho as [->|E]; [left; reflexivity|]. right. left. rewrite E. apply lneg_involutive.
  Qed.

  Lemma frame_candidate m k : frame_ok a m k -> In (cont_lit k) candidates.
  Proof.
    destruct k as [l d|l d]; simpl.
    - intros [Hin Ho]. exact (out_ok_candidate l d Hin Ho).
    - intros ((a0 & Hin) & Ho & _). apply (out_ok_candidate l (AndGate a0 (g_in1 d) (g_out d)) Hin). exact Ho.
  Qed.

  Lemma chain_ok_frames m l0 s : chain_ok a m l0 s -> forall k, In k s -> frame_ok a m k.
  Proof.
    induction s as [|k0 s IH]; simpl; intros Hc k Hk; [destruct Hk|]. destruct Hc as (H0 & _ & Hc).
    destruct Hk as [<-|Hk]; [exact H0|auto].
  Qed.

  Lemma chain_ok_suffix m l0 pre s : chain_ok a m l0 (pre ++ s) -> chain_ok a m l0 s.
  Proof. induction pre as [|k pre IH]; simpl; [auto|]. intros (_ & _ & H). auto. Qed.

  Lemma adjacent_nxt m l0 r s pre u lo post :
    chain_ok a m l0 s -> Forall (jframe r) s -> s = pre ++ u :: lo :: post ->
    nxt r (cont_lit lo) (cont_lit u).
  Proof.
    intros Hc Hj ->. apply chain_ok_suffix in Hc. simpl in Hc. destruct Hc as (_ & Hl & Hlo & _ & _).
    assert (Hju : jframe r u) by (apply (proj1 (Forall_forall _ _) Hj); apply in_or_app; right; left; reflexivity).
    assert (Hjl : jframe r lo) by (apply (proj1 (Forall_forall _ _) Hj); apply in_or_app; right; right; left; reflexivity).
    destruct Hju as [Hu _]. rewrite Hl in *. destruct lo as [l d|l d]; simpl in *.
    - destruct Hlo as [Hin Ho]. exists d. split; [exact Hin|]. split; [apply out_ok_div2; exact Ho|]. left. auto.
    - destruct Hlo as (_ & Ho & _). destruct Hjl as (_ & a0 & Hin & Ha0).
      exists (AndGate a0 (g_in1 d) (g_out d)). split; [exact Hin|]. split; [apply (out_ok_div2 l d Ho)|]. right. auto.
  Qed.

  Lemma rev_adjacent {A} (l : list A) i x y :
    nth_error (rev l) i = Some x -> nth_error (rev l) (S i) = Some y -> exists pre post, l = pre ++ y :: x :: post.
  Proof.
    intros Hx Hy. destruct (nth_error_split _ _ Hx) as (l1 & l2 & Hr & Hlen).
    rewrite Hr in Hy. rewrite nth_error_app2 in Hy by lia. replace (S i - length l1) with 1 in Hy by lia.
    destruct l2 as [|y' l3]; [discriminate|]. injection Hy as ->.
    exists (rev l3), (rev l1). rewrite <- (rev_involutive l), Hr, rev_app_distr. simpl. rewrite <- !app_assoc. reflexivity.
  Qed.

  Lemma stack_orbit m l0 r s : chain_ok a m l0 s -> Forall (jframe r) s -> orbit (nxt r) (lits s).
  Proof.
    intros Hc Hj i x y Hx Hy. unfold lits in *.
    destruct (rev_adjacent _ _ _ _ Hx Hy) as (pre & post & E).
    apply map_eq_app in E. destruct E as (spre & s2 & -> & <- & E2).
    apply map_eq_cons in E2. destruct E2 as (u & s3 & -> & <- & E3).
    apply map_eq_cons in E3. destruct E3 as (lo & spost & -> & <- & _).
    eapply adjacent_nxt; [exact Hc|exact Hj|reflexivity].
  Qed.

  Lemma tinv_depth l0 s r : TInv l0 s r -> length (r_stack r) <= 2 * (2 * length (a_gates a)) + 1.
  Proof.
    intros ([G S] & Hj & _ & Hh).
    assert (Hc : chain_ok a (maxv base r) l0 (r_stack r)) by apply S.
    rewrite <- lits_length, <- candidates_length.
    apply (depth_bound (nxt r) (nxt_fun r)).
    - intros x Hx. unfold lits in Hx. apply in_rev in Hx. apply in_map_iff in Hx. destruct Hx as (k & <- & Hk).
      apply (frame_candidate (maxv base r)). eapply chain_ok_frames; eassumption.
    - eapply stack_orbit; eassumption.
    - destruct s; simpl in Hh; try exact Hh; eapply hist_prefix; exact Hh.
  Qed.

  (* ---------------------------------------------------------- the potential *)

  Fixpoint weight (s : list cont) : nat :=
    match s with
    | [] => 0
    | KInput0 _ _ :: rest => 1 + weight rest
    | KInput1 _ _ :: rest => 4 + weight rest
    end.

  Definition cst (s : tstate) : nat :=
    match s with STransfer _ => 0 | SReturn _ => 1 | SInput0 _ _ _ => 3 | SInput1 _ _ _ => 6 end.

  Definition pend (r : rstate) : nat := count (fun g => negb (mappedb r (g_out g))) (a_gates a).

  Lemma weight_le s : weight s <= 4 * length s.
  Proof. induction s as [|[l d|l d] s IH]; simpl; lia. Qed.

  Lemma step_potential l0 s r s' r' : TInv l0 s r -> rstep s r = Next s' r' ->
    6 * pend r' + weight (r_stack r) + cst s + 1 <= 6 * pend r + weight (r_stack r') + cst s'.
  Proof.
    intros ([G S] & Hj & Hs & _) H. destruct s as [l|l d t|l d t|t]; simpl in H.
    - destruct (lm_get (r_map r) l) as [t|]; [injection H as <- <-; simpl; lia|].
      destruct (cycle_test (r_stack r) l); [discriminate|].
      destruct (find_def (r_defs r) l) as [d|]; [|discriminate]. injection H as <- <-.
      change (pend (push (KInput0 l d) r)) with (pend r). simpl. lia.
    - injection H as <- <-. change (pend (push _ _)) with (pend r). simpl. lia.
    - destruct Hs as [[Hu (a0 & Hin & Ha0)] Hm1]. simpl in Hu.
      destruct S as (_ & (_ & Hout & _) & _).
      assert (Hret : exists t', s' = SReturn t').
      { destruct (sort2 (g_in0 d) t) as [x y].
        destruct (if c_fold (r_cfg r) then fold_gate x y else None); [injection H as <- <-; eauto|].
        destruct (c_strash (r_cfg r)); [destruct (r_index r !! (x, y))|]; injection H as <- <-; eauto. }
      destruct Hret as [t' ->]. destruct (step_input1_map l d t r t' r' H) as [Hst Hmap]. rewrite Hst.
      assert (Hp : S (pend r') <= pend r).
      { unfold pend. apply (count_strict _ _ _ (AndGate a0 (g_in1 d) (g_out d)) Hin); simpl.
        - rewrite Hmap, N.eqb_refl, orb_true_r. reflexivity.
        - rewrite (mappedb_same_var r (g_out d) l (out_ok_div2 l d Hout)), Hu. reflexivity.
        - intros g _. rewrite Hmap. destruct (mappedb r (g_out g)); [discriminate|reflexivity]. }
      simpl. lia.
    - destruct (r_stack r) as [|[l d|l d] rest]; [discriminate| |]; injection H as <- <-;
        change (pend (set_stack rest r)) with (pend r); simpl; lia.
  Qed.

  Definition depth_budget : nat := 4 * (2 * (2 * length (a_gates a)) + 1) + 6.

  Lemma run_terminates l0 fuel : forall s r, TInv l0 s r ->
    6 * pend r + depth_budget + 1 <= fuel + weight (r_stack r) + cst s -> run fuel s r <> TOutOfFuel.
  Proof.
    induction fuel as [|fuel IH]; intros s r HT Hf.
    - exfalso. pose proof (tinv_depth l0 s r HT). pose proof (weight_le (r_stack r)).
      assert (cst s <= 6) by (destruct s; simpl; lia). unfold depth_budget in Hf. lia.
    - simpl. destruct (rstep s r) as [s' r'|t r'|e] eqn:E; [|discriminate|discriminate].
      apply IH; [eapply step_tinv; eassumption|].
      pose proof (step_potential l0 s r s' r' HT E). lia.
  Qed.

  Lemma transfer_terminates_any r l :
    ginv a base r -> r_stack r = [] -> transfer (transfer_fuel a) r l <> TOutOfFuel.
  Proof.
    intros G Hs. unfold transfer. apply (run_terminates l).
    - split; [apply inv_start; assumption|]. rewrite Hs. split; [constructor|]. split; [exact I|].
      simpl. rewrite Hs. intros i x _ Hx. destruct i; discriminate.
    - rewrite Hs. simpl. unfold depth_budget, transfer_fuel.
      assert (pend r <= length (a_gates a)) by apply count_le_length. lia.
  Qed.

  Lemma transfer_all_terminates_any : forall ls r,
    ginv a base r -> r_stack r = [] -> transfer_all (transfer_fuel a) r ls <> IOutOfFuel.
  Proof.
    induction ls as [|l rest IH]; intros r G Hs; simpl; [discriminate|].
    pose proof (transfer_terminates_any r l G Hs) as Ht.
    pose proof (run_inv a base l (transfer_fuel a) _ _ (inv_start a base r l G Hs)) as Hi.
    unfold transfer in *. destruct (run (transfer_fuel a) (STransfer l) r) as [t r1|e|]; [|discriminate|contradiction].
    destruct Hi as (G1 & Hs1 & _). apply IH; assumption.
  Qed.
End Term.

Lemma NoDup_map_unique {A} (f : A -> N) (l : list A) x y :
  List.NoDup (map f l) -> In x l -> In y l -> f x = f y -> x = y.
Proof.
  induction l as [|z l IH]; simpl; intros Hnd Hx Hy E; [destruct Hx|].
  inversion Hnd as [|? ? Hn Hnd']; subst.
  destruct Hx as [->|Hx], Hy as [->|Hy]; auto.
  - exfalso. apply Hn. rewrite E. apply in_map. exact Hy.
  - exfalso. apply Hn. rewrite <- E. apply in_map. exact Hx.
Qed.

(* TERMINATION for every graph: the fuel supplied by [renumber_aig] is never exhausted; on a
   cyclic graph the middle-of-the-stack test fires (or another error is found) in time *)
Theorem renumber_terminates cfg a : renumber_aig cfg a <> RnOutOfFuel.
Proof.
  unfold renumber_aig.
  destruct (renumber_new_unfold cfg a) as [(e & _ & E)|[(defs & e & _ & _ & E)|(defs & Ed & _ & _ & E)]];
    rewrite E; try discriminate.
  destruct (init_state_inv cfg defs a (lit_defs_sound a defs Ed)) as (G0 & Hs0 & _).
  assert (Huniq : forall g g', In g (a_gates a) -> In g' (a_gates a) -> gvar g = gvar g' -> g = g').
  { intros g g'. apply NoDup_map_unique. pose proof (proj1 (lit_defs_ok a defs Ed)) as Hnd.
    unfold checked_vars in Hnd. inversion Hnd as [|? ? _ Hnd']; subst. eapply NoDup_app_r. exact Hnd'. }
  pose proof (transfer_all_terminates_any a Huniq (roots cfg a) _ G0 Hs0) as H.
  destruct (transfer_all _ _ _) as [r|e|]; [destruct (build_ordered a r); discriminate|discriminate|contradiction].
Qed.
