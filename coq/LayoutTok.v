(* LayoutTok.v — token level of the layout independence proof (C07 / C03): functional specifications of the
   scanners and tokens of token.rs on a rendered token followed by its layout — what is returned and where the
   cursor ends — for every admissible run (Hoare.v's weakest preconditions over aruns). *)
From Flussab Require Import Base Reader ListN Writer Parsed Prog Text TextSpec ProgProofs ScanProofs DecimalProofs DigitsProofs RoundTrip.
From Flussab Require Import ReaderProofs Simulation Consts Cnf CnfProofs ErrProofs Hoare CnfSafe Layout.
Ltac Zify.zify_post_hook ::= Z.to_euclidean_division_equations.

(* ================================================================== *)
(* 1. what follows a token                                              *)

(* the next byte is not a blank (or the input ends) *)
Definition nbl (r : bytes) : Prop := match r with [] => True | x :: _ => is_blank x = false end.
(* the next byte starts a line end (or the input ends) *)
Definition brk (r : bytes) : Prop := match r with [] => True | x :: _ => x = 10 \/ x = 13 end.
(* a token is followed by blanks b and then r: the token ends here, and b is the whole blank run *)
Definition tokend (b r : bytes) : Prop := blank_ok b = true /\ nbl r /\ (b <> [] \/ brk r).
(* the next byte is neither a blank nor the start of a comment or of a line end: filler stops here *)
Definition stop (r : bytes) : Prop :=
  match r with [] => True | x :: _ => is_blank x = false /\ x <> 99 /\ x <> 10 /\ x <> 13 end.
(* the next byte does not start a numeral / a signed numeral *)
Definition nonnum (sg : bool) (r : bytes) : Prop :=
  match r with [] => True | x :: _ => is_dig x = false /\ (sg = true -> x <> 45) end.
(* the next byte starts a numeral *)
Definition numhd (r : bytes) : Prop := match r with [] => False | x :: _ => is_dig x = true \/ x = 45 end.

Lemma stop_nbl r : stop r -> nbl r.
Proof. destruct r as [|x r]; [exact (fun H => H)|]. intros (H & _). exact H. Qed.

Lemma numhd_stop r : numhd r -> stop r.
Proof.
  destruct r as [|x r]; [intros []|]. cbn [numhd stop]. unfold is_dig, is_blank.
  intros [H| ->].
  - apply andb_prop in H. destruct H as [H1 H2]. apply N.leb_le in H1, H2.
    split; [|lia]. apply orb_false_intro; apply N.eqb_neq; lia.
  - split; [reflexivity|lia].
Qed.

Lemma numhd_nbl r : numhd r -> nbl r.
Proof. intros H. apply stop_nbl, numhd_stop, H. Qed.

Lemma blank_prefix_app b r : blank_ok b = true -> nbl r -> blank_prefix (b ++ r) = b.
Proof.
  induction b as [|x b IH]; cbn [blank_ok forallb app]; intros Hb Hr.
  - destruct r as [|y r]; [reflexivity|]. cbn [blank_prefix]. cbn [nbl] in Hr. rewrite Hr. reflexivity.
  - apply andb_prop in Hb. destruct Hb as [Hx Hb]. cbn [blank_prefix]. rewrite Hx. f_equal. apply IH; assumption.
Qed.

Lemma blank_not_digit x : is_blank x = true -> is_dig x = false.
Proof.
  unfold is_blank, is_dig. intros H. apply orb_prop in H. destruct H as [H|H]; apply N.eqb_eq in H; subst x; reflexivity.
Qed.

(* the byte after the token is an end-of-word byte, and no digit *)
Lemma tokend_eow b r : tokend b r -> is_eow_byte (nnth (b ++ r) 0) = true.
Proof.
  intros (Hb & Hn & Hd). destruct b as [|x b].
  - destruct Hd as [Hd|Hd]; [congruence|]. cbn [app]. destruct r as [|y r]; [reflexivity|].
    cbn [brk] in Hd. change (nnth (y :: r) 0) with (Some y). destruct Hd as [-> | ->]; reflexivity.
  - cbn [blank_ok forallb] in Hb. apply andb_prop in Hb. destruct Hb as [Hx _].
    change (nnth ((x :: b) ++ r) 0) with (Some x). cbn [is_eow_byte]. unfold is_blank in Hx. apply orb_prop in Hx.
    destruct Hx as [Hx|Hx]; rewrite Hx; rewrite ?orb_true_r; reflexivity.
Qed.

Lemma tokend_nodigit b r : tokend b r -> no_digit_ahead (b ++ r).
Proof.
  intros (Hb & Hn & Hd). unfold no_digit_ahead. destruct b as [|x b].
  - destruct Hd as [Hd|Hd]; [congruence|]. cbn [app]. destruct r as [|y r]; [reflexivity|].
    cbn [brk] in Hd. cbn [digit_prefix]. destruct Hd as [-> | ->]; reflexivity.
  - cbn [blank_ok forallb] in Hb. apply andb_prop in Hb. destruct Hb as [Hx _].
    cbn [app digit_prefix]. rewrite (blank_not_digit _ Hx). reflexivity.
Qed.

(* ================================================================== *)
(* 2. numerals                                                          *)

Definition sval (neg : bool) (n : N) : Z := if neg then (- Z.of_N n)%Z else Z.of_N n.

Lemma repeat48_digits zs : forallb is_digit (repeat 48 zs) = true.
Proof. induction zs as [|zs IH]; cbn [repeat forallb]; [reflexivity|]. rewrite IH. reflexivity. Qed.

Lemma udigits_ok zs n : forallb is_digit (repeat 48 zs ++ decimal_N n) = true.
Proof.
  rewrite forallb_app, repeat48_digits. pose proof (decimal_N_canonical n) as (_ & Hd & _). cbn [andb]. exact Hd.
Qed.

Lemma udigits_val zs n : dec_val (repeat 48 zs ++ decimal_N n) = n.
Proof.
  rewrite dec_val_leading_zeros. rewrite <- undec_dec_val. pose proof (decimal_N_canonical n) as (Hu & _). exact Hu.
Qed.

Lemma udigits_nonempty zs n : repeat 48 zs ++ decimal_N n <> [].
Proof.
  intros E. apply app_eq_nil in E. destruct E as [_ E]. exact (decimal_N_nonempty n E).
Qed.

Lemma digits_head_dig ds r : ds <> [] -> forallb is_digit ds = true ->
  match ds ++ r with x :: _ => is_dig x = true | [] => False end.
Proof.
  intros Hne Hd. destruct ds as [|d ds]; [congruence|]. cbn [app forallb] in *.
  apply andb_prop in Hd. destruct Hd as [Hd _]. exact Hd.
Qed.

Lemma unsigned_spec_numeral t zs n r :
  no_digit_ahead r -> in_range t (Z.of_N n) = true ->
  unsigned_spec t (numeral false zs n ++ r) = (Some (Z.of_N n), nlen (numeral false zs n)).
Proof.
  intros Hr Hin. unfold numeral. cbn [app]. unfold unsigned_spec.
  rewrite (digit_prefix_written _ _ (udigits_ok zs n) Hr). rewrite udigits_val.
  unfold from_prim. rewrite Hin. reflexivity.
Qed.

Lemma signed_spec_numeral t neg zs n r :
  no_digit_ahead r -> in_range t (sval neg n) = true ->
  signed_spec t (numeral neg zs n ++ r) = (Some (sval neg n), nlen (numeral neg zs n)).
Proof.
  intros Hr Hin. destruct neg.
  - unfold numeral. cbn [app signed_spec]. change (45 =? 45) with true. cbv iota.
    rewrite (digit_prefix_written _ _ (udigits_ok zs n) Hr).
    pose proof (udigits_nonempty zs n) as Hne.
    destruct (repeat 48 zs ++ decimal_N n) as [|d ds] eqn:E; [congruence|].
    assert (Hv : dec_val (d :: ds) = n) by (rewrite <- E; apply udigits_val).
    unfold bytes, byte in *. rewrite Hv. unfold from_prim. cbn [sval] in Hin. rewrite Hin.
    cbn [sval]. f_equal. unfold nlen. cbn [length]. lia.
  - rewrite signed_spec_plain; [apply unsigned_spec_numeral; assumption|].
    unfold numeral. cbn [app].
    pose proof (digits_head_dig _ r (udigits_nonempty zs n) (udigits_ok zs n)) as H.
    unfold bytes, byte in *.
    destruct ((repeat 48 zs ++ decimal_N n) ++ r) as [|x l]; [exact I|]. apply is_dig_not_minus. exact H.
Qed.

Lemma numeral_nonempty neg zs n : numeral neg zs n <> [].
Proof.
  unfold numeral. destruct neg; cbn [app]; [discriminate|]. apply udigits_nonempty.
Qed.

Lemma numeral_numhd neg zs n r : numhd (numeral neg zs n ++ r).
Proof.
  unfold numeral. destruct neg; cbn [app]; [right; reflexivity|].
  pose proof (digits_head_dig _ r (udigits_nonempty zs n) (udigits_ok zs n)) as H.
  unfold bytes, byte in *.
  destruct ((repeat 48 zs ++ decimal_N n) ++ r) as [|x l]; [exact H|]. left. exact H.
Qed.

Lemma numeral_bytes_ok neg zs n : Forall (fun b => b < 256) (numeral neg zs n).
Proof.
  unfold numeral. apply Forall_app. split; [destruct neg; repeat constructor|].
  pose proof (udigits_ok zs n) as H. apply Forall_forall. intros x Hx.
  rewrite forallb_forall in H. specialize (H x Hx). unfold is_digit in H.
  apply andb_prop in H. destruct H as [_ H]. apply N.leb_le in H. lia.
Qed.

Lemma lit_numeral_sval z : sval (z <? 0)%Z (Z.abs_N z) = z.
Proof. unfold sval. destruct (z <? 0)%Z eqn:E; [apply Z.ltb_lt in E|apply Z.ltb_ge in E]; lia. Qed.

(* ================================================================== *)
(* 3. the state of a parse: the reader is in order, the source does not fail, the unread input is [rest] *)

Section Tok.
Variable fuel : nat.
Local Notation VOK := (VOK fuel).

Definition At (v : view) (rest : bytes) : Prop := VOK v /\ vfail v = None /\ rest_at v 0 = rest.

(* a program returns x and leaves R unread *)
Definition Yields {A} (x : A) (R : bytes) : A -> lrs -> view -> Prop := fun a _ v' => a = x /\ At v' R.

Lemma At_quiet v v1 r : At v r -> quiet v v1 -> At v1 r.
Proof.
  intros (Hv & Hf & Hr) Hq. split; [eapply VOK_quiet; eassumption|]. split.
  - destruct Hq as (_ & a2 & _). rewrite a2. exact Hf.
  - rewrite (rest_at_quiet _ _ _ Hq). exact Hr.
Qed.

Lemma At_peeked v v1 m r : At v r -> peeked_to v v1 m -> At v1 r.
Proof.
  intros HA Hpk. eapply At_quiet; [exact HA|]. eapply peeked_quiet; [|exact Hpk].
  destruct HA as (Hv & _). exact (VOK_WFV _ _ Hv).
Qed.

Lemma At_after_peek v k r : At v r -> At (after_peek v k) r.
Proof. intros HA. eapply At_peeked; [exact HA|apply peeked_after_peek]. Qed.

Lemma At_peek v r k : At v r -> vpeek v k = nnth r k.
Proof. intros (_ & _ & Hr). unfold vpeek. rewrite <- Hr. unfold rest_at. rewrite nnth_nskipn. f_equal. lia. Qed.

Lemma At_off v p r : At v (p ++ r) -> rest_at v (nlen p) = r.
Proof.
  intros (_ & _ & Hr). unfold rest_at in *. replace (vcur v + nlen p) with (vcur v + 0 + nlen p) by lia.
  eapply nskipn_span. exact Hr.
Qed.

Lemma At_len v p r : At v (p ++ r) -> vcur v + nlen p <= nlen (vS v).
Proof.
  intros (Hv & _ & Hr). pose proof (VOK_cur_le _ _ Hv) as Hc. unfold rest_at in Hr.
  pose proof (span_len _ _ _ _ Hr). lia.
Qed.

Lemma At_fuel v r : At v r -> (length r < fuel)%nat.
Proof.
  intros (Hv & _ & Hr). pose proof (VOK_fuel _ _ Hv). pose proof (rest_at_len v 0). rewrite Hr in *. lia.
Qed.

Lemma At_adv v p r : At v (p ++ r) -> vcur v + nlen p <= vhwm v -> At (v_advance v (nlen p)) r.
Proof.
  intros HA Hh. pose proof (At_off _ _ _ HA) as Ho. destruct HA as (Hv & Hf & Hr).
  split; [apply VOK_advance; assumption|]. split; [exact Hf|].
  unfold rest_at in *. cbn [v_advance vcur vS]. rewrite <- Ho. f_equal. lia.
Qed.

Lemma prt_adv_At n p r lr v (Q : unit -> lrs -> view -> Prop) :
  At v (p ++ r) -> n = nlen p -> vcur v + n <= vhwm v -> (forall v', At v' r -> Q tt lr v') -> prt (padvance n) lr v Q.
Proof. intros HA -> Hh HQ. apply prt_padvance; [exact Hh|]. apply HQ. apply At_adv; assumption. Qed.

Lemma prt_bind_Y {A B} (m : PM A) (f : A -> PM B) x R lr v (Q : B -> lrs -> view -> Prop) :
  prt m lr v (Yields x R) -> (forall lr1 v1, At v1 R -> prt (f x) lr1 v1 Q) -> prt (pbnd m f) lr v Q.
Proof.
  intros Hm Hf. apply prt_pbnd. eapply prt_conseq; [exact Hm|]. intros a lr1 v1 [-> HA]. apply Hf. exact HA.
Qed.

Lemma prt_ret_Y {A} (x : A) R lr v : At v R -> prt (pret x) lr v (Yields x R).
Proof. intros HA. apply prt_pret. split; [reflexivity|exact HA]. Qed.

Lemma peeked_cur v v1 m : peeked_to v v1 m -> vcur v1 = vcur v.
Proof. intros (_ & _ & e & _). exact e. Qed.

(* ================================================================== *)
(* 4. the scanners                                                      *)

Lemma tabs_At off (p b r : bytes) lr v (Q : N -> lrs -> view -> Prop) :
  At v (p ++ b ++ r) -> off = nlen p -> blank_ok b = true -> nbl r ->
  (forall v1, At v1 (p ++ b ++ r) -> vcur v1 + (off + nlen b) <= vhwm v1 -> Q (off + nlen b) lr v1) ->
  prt (lift (tabs_or_spaces fuel off)) lr v Q.
Proof.
  intros HA -> Hb Hn HQ. pose proof HA as (Hv & _ & _).
  apply prt_tabs; [exact (VOK_fuel _ _ Hv)|]. intros v1 Hpk.
  rewrite (At_off _ _ _ HA) in *. rewrite (blank_prefix_app _ _ Hb Hn) in *.
  apply HQ; [eapply At_peeked; eassumption|].
  rewrite (peeked_cur _ _ _ Hpk).
  eapply peeked_hwm; [exact Hpk|lia|].
  rewrite app_assoc in HA. pose proof (At_len _ _ _ HA) as Hl. rewrite nlen_app in Hl. lia.
Qed.

Lemma newline_At crlf (r : bytes) lr v (Q : N -> lrs -> view -> Prop) :
  At v (eol_bytes crlf ++ r) ->
  (forall v1, At v1 (eol_bytes crlf ++ r) -> vcur v1 + nlen (eol_bytes crlf) <= vhwm v1 ->
              Q (0 + nlen (eol_bytes crlf)) lr v1) ->
  prt (lift (newline 0)) lr v Q.
Proof.
  intros HA HQ. apply prt_newline. intros v1 Hpk.
  pose proof HA as (_ & _ & Hr). rewrite Hr in *.
  pose proof (At_len _ _ _ HA) as Hl.
  assert (E : newline_len (eol_bytes crlf ++ r) = nlen (eol_bytes crlf) /\
              newline_look (eol_bytes crlf ++ r) = nlen (eol_bytes crlf)).
  { destruct crlf; cbn; split; reflexivity. }
  destruct E as [E1 E2]. rewrite E1, E2 in *.
  apply HQ; [eapply At_peeked; eassumption|].
  rewrite (peeked_cur _ _ _ Hpk). eapply peeked_hwm; [exact Hpk|lia|exact Hl].
Qed.

Definition nonl (r : bytes) : Prop := match r with [] => True | x :: _ => x <> 10 /\ x <> 13 end.

Lemma newline_ft_At r lr v (Q : N -> lrs -> view -> Prop) :
  At v r -> nonl r -> (forall v1, At v1 r -> Q (0 + 0) lr v1) -> prt (lift (newline 0)) lr v Q.
Proof.
  intros HA Hn HQ. apply prt_newline. intros v1 Hpk.
  pose proof HA as (_ & _ & Hr). rewrite Hr in *.
  assert (E : newline_len r = 0).
  { destruct r as [|x r]; [reflexivity|]. cbn [nonl] in Hn. destruct Hn as [H1 H2]. cbn [newline_len].
    apply N.eqb_neq in H1, H2. rewrite H1, H2. reflexivity. }
  rewrite E. apply HQ. eapply At_peeked; eassumption.
Qed.

Definition nolf (body : bytes) : Prop := Forall (fun x : byte => x <> 10) body.

Lemma body_ok_nolf body : body_ok body = true -> nolf body.
Proof.
  unfold body_ok, nolf. intros H. apply Forall_forall. intros x Hx. rewrite forallb_forall in H.
  specialize (H x Hx). apply andb_prop in H. destruct H as [H _]. apply negb_true_iff in H. apply N.eqb_neq in H. exact H.
Qed.

Lemma body_ok_bytes body : body_ok body = true -> Forall (fun x => x < 256) body.
Proof.
  unfold body_ok. intros H. apply Forall_forall. intros x Hx. rewrite forallb_forall in H.
  specialize (H x Hx). apply andb_prop in H. destruct H as [_ H]. apply N.ltb_lt in H. exact H.
Qed.

Lemma tnn_body (body r : bytes) : nolf body ->
  to_next_newline (body ++ 10 :: r) = nlen body + 1 /\ before_newline (body ++ 10 :: r) = nlen body.
Proof.
  induction 1 as [|x body Hx Hb IH]; cbn [app to_next_newline before_newline].
  - change (10 =? 10) with true. cbv iota. split; reflexivity.
  - apply N.eqb_neq in Hx. rewrite Hx. destruct IH as [-> ->]. unfold nlen. cbn [length]. split; lia.
Qed.

Lemma tnn_eof (body : bytes) : nolf body -> to_next_newline body = nlen body /\ before_newline body = nlen body.
Proof.
  induction 1 as [|x body Hx Hb IH]; cbn [to_next_newline before_newline]; [split; reflexivity|].
  apply N.eqb_neq in Hx. rewrite Hx. destruct IH as [-> ->]. unfold nlen. cbn [length]. split; lia.
Qed.

(* next_newline from offset |p| over a body without LF, up to and including its LF *)
Lemma next_newline_At off (p body r : bytes) lr v (Q : N -> lrs -> view -> Prop) :
  At v (p ++ body ++ 10 :: r) -> off = nlen p -> nolf body ->
  (forall v1, At v1 (p ++ body ++ 10 :: r) -> vcur v1 + (off + (nlen body + 1)) <= vhwm v1 ->
              Q (off + (nlen body + 1)) lr v1) ->
  prt (lift (next_newline fuel off)) lr v Q.
Proof.
  intros HA -> Hb HQ. pose proof HA as (Hv & _ & _).
  apply prt_next_newline; [exact (VOK_fuel _ _ Hv)|]. intros v1 Hpk.
  rewrite (At_off _ _ _ HA) in *. destruct (tnn_body body r Hb) as [E1 E2]. rewrite E1, E2 in *.
  apply HQ; [eapply At_peeked; eassumption|].
  rewrite (peeked_cur _ _ _ Hpk). eapply peeked_hwm; [exact Hpk|lia|].
  assert (HA' : At v ((p ++ body ++ [10]) ++ r)).
  { rewrite <- !app_assoc. cbn [app]. exact HA. }
  pose proof (At_len _ _ _ HA') as Hl. rewrite !nlen_app in Hl. change (nlen [10]) with 1 in Hl. lia.
Qed.

(* ... or up to the end of the input *)
Lemma next_newline_eof_At off (p body : bytes) lr v (Q : N -> lrs -> view -> Prop) :
  At v (p ++ body) -> off = nlen p -> nolf body ->
  (forall v1, At v1 (p ++ body) -> vcur v1 + (off + nlen body) <= vhwm v1 -> Q (off + nlen body) lr v1) ->
  prt (lift (next_newline fuel off)) lr v Q.
Proof.
  intros HA -> Hb HQ. pose proof HA as (Hv & _ & _).
  apply prt_next_newline; [exact (VOK_fuel _ _ Hv)|]. intros v1 Hpk.
  rewrite (At_off _ _ _ HA) in *. destruct (tnn_eof body Hb) as [E1 E2]. rewrite E1, E2 in *.
  apply HQ; [eapply At_peeked; eassumption|].
  rewrite (peeked_cur _ _ _ Hpk). eapply peeked_hwm; [exact Hpk|lia|].
  assert (HA' : At v ((p ++ body) ++ [])) by (rewrite app_nil_r; exact HA).
  pose proof (At_len _ _ _ HA') as Hl. rewrite nlen_app in Hl. lia.
Qed.

Lemma common_prefix_self pat r : common_prefix pat (pat ++ r) = nlen pat.
Proof.
  induction pat as [|p pat IH]; [destruct r; reflexivity|]. cbn [app common_prefix]. rewrite N.eqb_refl, IH.
  unfold nlen. cbn [length]. lia.
Qed.

Lemma fixed_At (pat r : bytes) lr v (Q : N -> lrs -> view -> Prop) :
  pat <> [] -> At v (pat ++ r) ->
  (forall v1, At v1 (pat ++ r) -> vcur v1 + nlen pat <= vhwm v1 -> Q (0 + nlen pat) lr v1) ->
  prt (lift (fixed 0 pat)) lr v Q.
Proof.
  intros Hne HA HQ. apply prt_fixed; [exact Hne|]. intros v1 Hpk.
  pose proof HA as (_ & _ & Hr). rewrite Hr in *. rewrite common_prefix_self in *. rewrite N.eqb_refl.
  apply HQ; [eapply At_peeked; eassumption|].
  rewrite (peeked_cur _ _ _ Hpk). eapply peeked_hwm; [exact Hpk|lia|apply (At_len _ _ _ HA)].
Qed.

(* the pattern's first byte is not the next byte *)
Definition nohd (c : byte) (r : bytes) : Prop := match r with [] => True | x :: _ => x <> c end.

Lemma fixed_ft_At c (pat r : bytes) lr v (Q : N -> lrs -> view -> Prop) :
  At v r -> nohd c r -> (forall v1, At v1 r -> Q 0 lr v1) -> prt (lift (fixed 0 (c :: pat))) lr v Q.
Proof.
  intros HA Hn HQ. apply prt_fixed; [discriminate|]. intros v1 Hpk.
  pose proof HA as (_ & _ & Hr). rewrite Hr in *.
  assert (E : common_prefix (c :: pat) r = 0).
  { destruct r as [|x r]; [reflexivity|]. cbn [common_prefix]. cbn [nohd] in Hn. apply N.eqb_neq in Hn. rewrite Hn. reflexivity. }
  rewrite E. assert ((0 =? nlen (c :: pat)) = false) as -> by (apply N.eqb_neq; unfold nlen; cbn [length]; lia).
  apply HQ. eapply At_peeked; eassumption.
Qed.

(* the digit scanners on a numeral at offset |p| *)
Lemma udigits_At t off (p : bytes) zs n (r : bytes) lr v (Q : option Z * N -> lrs -> view -> Prop) :
  At v (p ++ numeral false zs n ++ r) -> off = nlen p -> no_digit_ahead r -> in_range t (Z.of_N n) = true ->
  (forall v1, At v1 (p ++ numeral false zs n ++ r) -> Q (Some (Z.of_N n), off + nlen (numeral false zs n)) lr v1) ->
  prt (lift (ascii_digits_multi fuel t off)) lr v Q.
Proof.
  intros HA -> Hr Hin HQ. pose proof HA as (Hv & _ & _).
  apply prt_digits; [exact Hv|]. intros v1 Hq.
  rewrite (At_off _ _ _ HA). rewrite (unsigned_spec_numeral t zs n r Hr Hin). cbn [fst snd].
  apply HQ. eapply At_quiet; eassumption.
Qed.

Lemma sdigits_At t neg zs n r lr v (Q : option Z * N -> lrs -> view -> Prop) :
  ity_signed t = true ->
  At v (numeral neg zs n ++ r) -> no_digit_ahead r -> in_range t (sval neg n) = true ->
  (forall v1, At v1 (numeral neg zs n ++ r) -> Q (Some (sval neg n), 0 + nlen (numeral neg zs n)) lr v1) ->
  prt (lift (signed_ascii_digits_multi fuel t 0)) lr v Q.
Proof.
  intros Hs HA Hr Hin HQ. pose proof HA as (Hv & _ & Hrest).
  apply prt_sdigits; [exact Hs|exact Hv|]. intros v1 Hq.
  rewrite Hrest. rewrite (signed_spec_numeral t neg zs n r Hr Hin). cbn [fst snd].
  apply HQ. eapply At_quiet; eassumption.
Qed.

Lemma nonnum_digit_prefix sg r : nonnum sg r -> digit_prefix r = [].
Proof. destruct r as [|x r]; [reflexivity|]. cbn [nonnum digit_prefix]. intros [H _]. rewrite H. reflexivity. Qed.

Lemma udigits_ft_At t off (p r : bytes) lr v (Q : option Z * N -> lrs -> view -> Prop) :
  At v (p ++ r) -> off = nlen p -> nonnum false r ->
  (forall v1, At v1 (p ++ r) -> Q (Some 0%Z, off + 0) lr v1) ->
  prt (lift (ascii_digits_multi fuel t off)) lr v Q.
Proof.
  intros HA -> Hn HQ. pose proof HA as (Hv & _ & _).
  apply prt_digits; [exact Hv|]. intros v1 Hq.
  rewrite (At_off _ _ _ HA). unfold unsigned_spec. rewrite (nonnum_digit_prefix _ _ Hn).
  cbn [fst snd]. change (dec_val []) with 0. change (Z.of_N 0) with 0%Z. rewrite from_prim_0.
  change (nlen (@nil byte)) with 0.
  apply HQ. eapply At_quiet; eassumption.
Qed.

Lemma sdigits_ft_At t r lr v (Q : option Z * N -> lrs -> view -> Prop) :
  ity_signed t = true -> At v r -> nonnum true r ->
  (forall v1, At v1 r -> Q (Some 0%Z, 0 + 0) lr v1) ->
  prt (lift (signed_ascii_digits_multi fuel t 0)) lr v Q.
Proof.
  intros Hs HA Hn HQ. pose proof HA as (Hv & _ & Hrest).
  apply prt_sdigits; [exact Hs|exact Hv|]. intros v1 Hq.
  rewrite Hrest. rewrite signed_spec_plain.
  - unfold unsigned_spec. rewrite (nonnum_digit_prefix _ _ Hn).
    cbn [fst snd]. change (dec_val []) with 0. change (Z.of_N 0) with 0%Z. rewrite from_prim_0.
    change (nlen (@nil byte)) with 0.
    apply HQ. eapply At_quiet; eassumption.
  - destruct r as [|x r]; [exact I|]. cbn [nonnum] in Hn. destruct Hn as [_ Hn]. apply N.eqb_neq. apply Hn. reflexivity.
Qed.


(* ================================================================== *)
(* 5. tokens                                                            *)

Lemma At_setmark v r : At v r -> At (v_setmark v) r.
Proof. intros H. exact H. Qed.

Lemma nnth_app_len {A} (p q : list A) : nnth (p ++ q) (nlen p) = nnth q 0.
Proof. unfold nnth, nlen. rewrite nth_error_app2 by lia. f_equal. lia. Qed.

Lemma nnth_0_cons {A} (x : A) r : nnth (x :: r) 0 = Some x.
Proof. reflexivity. Qed.
Lemma nnth_0_nil {A} : nnth (@nil A) 0 = None.
Proof. reflexivity. Qed.

Lemma nlen_pos' (p : bytes) : p <> [] -> (nlen p =? 0) = false.
Proof. intros H. apply N.eqb_neq. destruct p; [congruence|]. unfold nlen; cbn [length]; lia. Qed.

(* ---------- token::uint / token::int ---------- *)
Lemma number_tail_At (offset : N) (z : Z) (p b r : bytes) lr v :
  offset = nlen p -> p <> [] -> At v (p ++ b ++ r) -> tokend b r ->
  prt (if offset =? 0 then pret Fallthrough else
       let* o := ppeek offset in
       if is_eow_byte o then
         let* offset2 := lift (tabs_or_spaces fuel offset) in padvance offset2 ;;;; pret (Res (Ok z))
       else pret (@Fallthrough Z unit)) lr v (Yields (Res (Ok z)) r).
Proof.
  intros -> Hne HA Htok. rewrite (nlen_pos' p Hne).
  apply prt_pbnd, prt_ppeek. rewrite (At_peek _ _ _ HA).
  pose proof (At_after_peek _ (nlen p) _ HA) as HA1.
  rewrite nnth_app_len. rewrite (tokend_eow _ _ Htok).
  destruct Htok as (Hb & Hn & _).
  apply prt_pbnd. eapply tabs_At; [exact HA1|reflexivity|exact Hb|exact Hn|]. intros v2 HA2 Hh.
  apply prt_pbnd. rewrite app_assoc in HA2. eapply prt_adv_At; [exact HA2|rewrite ?nlen_app; reflexivity|exact Hh|].
  intros v3 HA3. apply prt_ret_Y. exact HA3.
Qed.

Lemma number_At sg t neg zs n (b r : bytes) lr v :
  (sg = true -> ity_signed t = true) -> (sg = false -> neg = false) ->
  At v (numeral neg zs n ++ b ++ r) -> tokend b r -> in_range t (sval neg n) = true ->
  prt (number fuel sg t) lr v (Yields (Res (Ok (sval neg n))) r).
Proof.
  intros Hs Hneg HA Htok Hin. unfold number. apply prt_pbnd. destruct sg.
  - eapply sdigits_At; [auto|exact HA|apply tokend_nodigit; exact Htok|exact Hin|]. intros v1 HA1. cbv beta iota.
    eapply number_tail_At; [apply N.add_0_l|apply numeral_nonempty|exact HA1|exact Htok].
  - rewrite (Hneg eq_refl) in *. cbn [sval] in *.
    eapply (udigits_At t 0 []); [exact HA|reflexivity|apply tokend_nodigit; exact Htok|exact Hin|].
    intros v1 HA1. cbv beta iota.
    eapply number_tail_At; [apply N.add_0_l|apply numeral_nonempty|exact HA1|exact Htok].
Qed.

Lemma number_ft_At sg t (r : bytes) lr v :
  (sg = true -> ity_signed t = true) -> At v r -> nonnum sg r ->
  prt (number fuel sg t) lr v (Yields Fallthrough r).
Proof.
  intros Hs HA Hn. unfold number. apply prt_pbnd. destruct sg.
  - eapply sdigits_ft_At; [auto|exact HA|exact Hn|]. intros v1 HA1. cbv beta iota.
    change (0 + 0 =? 0) with true. cbv iota. apply prt_ret_Y. exact HA1.
  - eapply (udigits_ft_At t 0 []); [exact HA|reflexivity|exact Hn|]. intros v1 HA1. cbv beta iota.
    change (0 + 0 =? 0) with true. cbv iota. apply prt_ret_Y. exact HA1.
Qed.

(* ---------- token::braced_uint ---------- *)
Lemma braced_uint_At t zs n (b r : bytes) lr v :
  At v (123 :: numeral false zs n ++ 125 :: b ++ r) -> blank_ok b = true -> nbl r -> in_range t (Z.of_N n) = true ->
  prt (braced_uint fuel t) lr v (Yields (Res (Ok (Z.of_N n))) r).
Proof.
  intros HA Hb Hn Hin. unfold braced_uint.
  apply prt_pbnd, prt_ppeek. rewrite (At_peek _ _ _ HA). rewrite nnth_0_cons.
  change (123 =? 123) with true. cbv iota.
  pose proof (At_after_peek _ 0 _ HA) as HA0.
  apply prt_pbnd. eapply (udigits_At t 1 [123]); [exact HA0|reflexivity| |exact Hin|].
  { unfold no_digit_ahead. reflexivity. }
  intros v1 HA1. cbv beta iota.
  set (num := numeral false zs n) in *.
  assert ((1 + nlen num =? 1) = false) as ->.
  { apply N.eqb_neq. pose proof (nlen_pos' num (numeral_nonempty _ _ _)) as H. apply N.eqb_neq in H. lia. }
  apply prt_pbnd, prt_ppeek. rewrite (At_peek _ _ _ HA1).
  assert (E : [123] ++ num ++ 125 :: b ++ r = ([123] ++ num) ++ 125 :: b ++ r) by (rewrite <- app_assoc; reflexivity).
  unfold bytes, byte in *.
  rewrite E. replace (1 + nlen num) with (nlen ([123] ++ num)) by (rewrite ?nlen_app; reflexivity).
  rewrite nnth_app_len. rewrite nnth_0_cons. change (125 =? 125) with true. cbv iota.
  pose proof (At_after_peek _ (nlen ([123] ++ num)) _ HA1) as HA2. rewrite E in HA2.
  assert (E2 : ([123] ++ num) ++ 125 :: b ++ r = (([123] ++ num) ++ [125]) ++ b ++ r) by (rewrite <- !app_assoc; reflexivity).
  rewrite E2 in HA2.
  apply prt_pbnd. eapply tabs_At; [exact HA2|rewrite ?nlen_app; reflexivity|exact Hb|exact Hn|]. intros v3 HA3 Hh.
  apply prt_pbnd. rewrite app_assoc in HA3. eapply prt_adv_At; [exact HA3|rewrite ?nlen_app; reflexivity|exact Hh|].
  intros v4 HA4. apply prt_ret_Y. exact HA4.
Qed.

Lemma braced_uint_ft_At t (r : bytes) lr v :
  At v r -> nohd 123 r -> prt (braced_uint fuel t) lr v (Yields Fallthrough r).
Proof.
  intros HA Hn. unfold braced_uint. apply prt_pbnd, prt_ppeek. rewrite (At_peek _ _ _ HA).
  pose proof (At_after_peek _ 0 _ HA) as HA0.
  destruct r as [|x r]; [apply prt_ret_Y; exact HA0|].
  rewrite nnth_0_cons. cbn [nohd] in Hn. apply N.eqb_neq in Hn. rewrite Hn.
  apply prt_ret_Y. exact HA0.
Qed.

(* ---------- map_err to a located error ---------- *)
Lemma located_At {A} (n : PM (parsed A unit)) (err : PM perr) z R lr v :
  prt n lr v (Yields (Res (Ok z)) R) -> prt (located n err) lr v (Yields (Res (Ok z)) R).
Proof.
  intros H. unfold located. eapply prt_bind_Y; [exact H|]. intros lr1 v1 HA. cbv beta iota. unfold tok_ok.
  apply prt_ret_Y. exact HA.
Qed.

Lemma located_ft_At {A} (n : PM (parsed A unit)) (err : PM perr) R lr v :
  prt n lr v (Yields Fallthrough R) -> prt (located n err) lr v (Yields Fallthrough R).
Proof.
  intros H. unfold located. eapply prt_bind_Y; [exact H|]. intros lr1 v1 HA. cbv beta iota. unfold tok_ft.
  apply prt_ret_Y. exact HA.
Qed.

(* ---------- a literal ---------- *)
Lemma lit_tok_At neg zs n (b r : bytes) lr v :
  At v (numeral neg zs n ++ b ++ r) -> tokend b r -> in_range Isize (sval neg n) = true ->
  prt (lit_tok fuel) lr v (Yields (Res (Ok (sval neg n))) r).
Proof.
  intros HA Htok Hin. unfold lit_tok. apply located_At. apply (number_At true Isize neg zs n b r); auto; discriminate.
Qed.

Lemma lit_tok_ft_At (r : bytes) lr v : At v r -> nonnum true r -> prt (lit_tok fuel) lr v (Yields Fallthrough r).
Proof. intros HA Hn. unfold lit_tok. apply located_ft_At. apply number_ft_At; auto. Qed.

(* ---------- token::uint_count, token::var_count, token::clause_group ---------- *)
Lemma uint_count_At t zs n (b r : bytes) lr v :
  At v (numeral false zs n ++ b ++ r) -> tokend b r -> in_range t (Z.of_N n) = true ->
  prt (uint_count fuel t) lr v (Yields (Res (Ok (Z.of_N n))) r).
Proof.
  intros HA Htok Hin. unfold uint_count. apply prt_pbnd, prt_pset_mark. apply located_At.
  apply (number_At false t false zs n b r); auto; discriminate.
Qed.

Lemma uint_count_ft_At t (r : bytes) lr v :
  At v r -> nonnum false r -> prt (uint_count fuel t) lr v (Yields Fallthrough r).
Proof.
  intros HA Hn. unfold uint_count. apply prt_pbnd, prt_pset_mark. apply located_ft_At.
  apply number_ft_At; auto. discriminate.
Qed.

Lemma var_count_At maxd zs n (b r : bytes) lr v :
  At v (numeral false zs n ++ b ++ r) -> tokend b r -> in_range Usize (Z.of_N n) = true -> (Z.of_N n <= maxd)%Z ->
  prt (var_count fuel maxd) lr v (Yields (Res (Ok (Z.of_N n))) r).
Proof.
  intros HA Htok Hin Hle. unfold var_count. apply prt_pbnd, prt_pset_mark.
  eapply prt_bind_Y.
  { apply located_At. apply (number_At false Usize false zs n b r); auto; discriminate. }
  intros lr1 v1 HA1. cbv beta iota. cbn [sval].
  assert ((maxd <? Z.of_N n)%Z = false) as -> by (apply Z.ltb_ge; exact Hle).
  unfold tok_ok. apply prt_ret_Y. exact HA1.
Qed.

Lemma clause_group_At limit zs n (b r : bytes) lr v :
  At v (123 :: numeral false zs n ++ 125 :: b ++ r) -> blank_ok b = true -> nbl r ->
  in_range Usize (Z.of_N n) = true -> (Z.of_N n <= limit)%Z ->
  prt (clause_group fuel limit) lr v (Yields (Res (Ok (Z.of_N n))) r).
Proof.
  intros HA Hb Hn Hin Hle. unfold clause_group. apply prt_pbnd, prt_pset_mark.
  eapply prt_bind_Y.
  { apply located_At. apply (braced_uint_At Usize zs n b r); auto. }
  intros lr1 v1 HA1. cbv beta iota.
  assert ((limit <? Z.of_N n)%Z = false) as -> by (apply Z.ltb_ge; exact Hle).
  unfold tok_ok. apply prt_ret_Y. exact HA1.
Qed.

Lemma clause_group_ft_At limit (r : bytes) lr v :
  At v r -> nohd 123 r -> prt (clause_group fuel limit) lr v (Yields Fallthrough r).
Proof.
  intros HA Hn. unfold clause_group. apply prt_pbnd, prt_pset_mark.
  eapply prt_bind_Y.
  { apply located_ft_At. apply braced_uint_ft_At; [exact HA|exact Hn]. }
  intros lr1 v1 HA1. cbv beta iota. apply prt_ret_Y. exact HA1.
Qed.

(* ---------- token::word ---------- *)
Lemma word_At (pat b r : bytes) lr v :
  pat <> [] -> At v (pat ++ b ++ r) -> tokend b r -> prt (word fuel pat) lr v (Yields (Res (Ok tt)) r).
Proof.
  intros Hne HA Htok. unfold word, tok_ok, tok_ft.
  apply prt_pbnd. eapply fixed_At; [exact Hne|exact HA|]. intros v1 HA1 _.
  rewrite N.add_0_l. rewrite (nlen_pos' pat Hne).
  apply prt_pbnd, prt_ppeek. rewrite (At_peek _ _ _ HA1).
  pose proof (At_after_peek _ (nlen pat) _ HA1) as HA2.
  rewrite nnth_app_len. rewrite (tokend_eow _ _ Htok).
  destruct Htok as (Hb & Hn & _).
  apply prt_pbnd. eapply tabs_At; [exact HA2|reflexivity|exact Hb|exact Hn|]. intros v3 HA3 Hh.
  apply prt_pbnd. rewrite app_assoc in HA3. eapply prt_adv_At; [exact HA3|rewrite ?nlen_app; reflexivity|exact Hh|].
  intros v4 HA4. apply prt_ret_Y. exact HA4.
Qed.

Lemma word_ft_At c (pat r : bytes) lr v :
  At v r -> nohd c r -> prt (word fuel (c :: pat)) lr v (Yields Fallthrough r).
Proof.
  intros HA Hn. unfold word, tok_ft. apply prt_pbnd. eapply fixed_ft_At; [exact HA|exact Hn|]. intros v1 HA1.
  change (0 =? 0) with true. cbv iota. apply prt_ret_Y. exact HA1.
Qed.

(* ---------- token::comment ---------- *)
Lemma comment_At (body b r : bytes) lr v :
  body_ok body = true -> blank_ok b = true -> nbl r ->
  At v (99 :: body ++ 10 :: b ++ r) -> prt (comment fuel) lr v (Yields (Res (Ok tt)) r).
Proof.
  intros Hbody Hb Hn HA. unfold comment, tok_ok.
  apply prt_pbnd, prt_ppeek. rewrite (At_peek _ _ _ HA).
  rewrite nnth_0_cons. change (99 =? 99) with true. cbv iota.
  pose proof (At_after_peek _ 0 _ HA) as HA0.
  apply prt_pbnd. eapply (next_newline_At 1 [99] body (b ++ r)); [exact HA0|reflexivity|apply body_ok_nolf; exact Hbody|].
  intros v1 HA1 _.
  apply prt_pbnd, (prt_line_at_offset fuel); [destruct HA1 as (H & _); exact H|].
  unfold bytes, byte in *.
  assert (E : [99] ++ body ++ 10 :: b ++ r = ([99] ++ body ++ [10]) ++ b ++ r) by (rewrite <- !app_assoc; reflexivity).
  rewrite E in HA1.
  apply prt_pbnd. eapply tabs_At; [exact HA1|rewrite ?nlen_app; reflexivity|exact Hb|exact Hn|]. intros v2 HA2 Hh.
  apply prt_pbnd. rewrite app_assoc in HA2. eapply prt_adv_At; [exact HA2|rewrite ?nlen_app; reflexivity|exact Hh|].
  intros v3 HA3. apply prt_ret_Y. exact HA3.
Qed.

(* a last comment line without its LF *)
Lemma comment_eof_At (body : bytes) lr v :
  body_ok body = true -> At v (99 :: body) -> prt (comment fuel) lr v (Yields (Res (Ok tt)) []).
Proof.
  intros Hbody HA. unfold comment, tok_ok.
  apply prt_pbnd, prt_ppeek. rewrite (At_peek _ _ _ HA).
  rewrite nnth_0_cons. change (99 =? 99) with true. cbv iota.
  pose proof (At_after_peek _ 0 _ HA) as HA0.
  apply prt_pbnd. eapply (next_newline_eof_At 1 [99] body); [exact HA0|reflexivity|apply body_ok_nolf; exact Hbody|].
  intros v1 HA1 _.
  apply prt_pbnd, (prt_line_at_offset fuel); [destruct HA1 as (H & _); exact H|].
  unfold bytes, byte in *.
  assert (E : [99] ++ body = ([99] ++ body) ++ [] ++ []) by (rewrite !app_nil_r; reflexivity).
  rewrite E in HA1.
  apply prt_pbnd. eapply tabs_At; [exact HA1|rewrite ?nlen_app; reflexivity|reflexivity|exact I|]. intros v2 HA2 Hh.
  apply prt_pbnd. rewrite app_assoc in HA2. eapply prt_adv_At; [exact HA2|rewrite ?nlen_app; reflexivity|exact Hh|].
  intros v3 HA3. apply prt_ret_Y. exact HA3.
Qed.

Lemma comment_ft_At (r : bytes) lr v : At v r -> nohd 99 r -> prt (comment fuel) lr v (Yields Fallthrough r).
Proof.
  intros HA Hn. unfold comment, tok_ft. apply prt_pbnd, prt_ppeek. rewrite (At_peek _ _ _ HA).
  pose proof (At_after_peek _ 0 _ HA) as HA0.
  destruct r as [|x r]; [apply prt_ret_Y; exact HA0|].
  rewrite nnth_0_cons. cbn [nohd] in Hn. apply N.eqb_neq in Hn. rewrite Hn.
  apply prt_ret_Y. exact HA0.
Qed.

(* ---------- token::newline / token::interactive_newline ---------- *)
Lemma eol_len_nz crlf : (0 + nlen (eol_bytes crlf) =? 0) = false.
Proof. destruct crlf; reflexivity. Qed.

Lemma tnewline_At crlf (b r : bytes) lr v :
  blank_ok b = true -> nbl r -> At v (eol_bytes crlf ++ b ++ r) ->
  prt (tnewline fuel false) lr v (Yields (Res (Ok tt)) r).
Proof.
  intros Hb Hn HA. unfold tnewline, tok_ok.
  apply prt_pbnd. eapply newline_At; [exact HA|]. intros v1 HA1 _. rewrite eol_len_nz.
  apply prt_pbnd, (prt_line_at_offset fuel); [destruct HA1 as (H & _); exact H|].
  apply prt_pbnd. apply prt_pbnd.
  eapply tabs_At; [exact HA1|rewrite N.add_0_l; reflexivity|exact Hb|exact Hn|]. intros v2 HA2 Hh.
  rewrite app_assoc in HA2. eapply prt_adv_At; [exact HA2|rewrite nlen_app, N.add_0_l; reflexivity|rewrite N.add_0_l in *; exact Hh|].
  intros v3 HA3. apply prt_ret_Y. exact HA3.
Qed.

Lemma tnewline_i_At crlf (r : bytes) lr v :
  At v (eol_bytes crlf ++ r) -> prt (tnewline fuel true) lr v (Yields (Res (Ok tt)) r).
Proof.
  intros HA. unfold tnewline, tok_ok.
  apply prt_pbnd. eapply newline_At; [exact HA|]. intros v1 HA1 Hh. rewrite eol_len_nz.
  apply prt_pbnd, (prt_line_at_offset fuel); [destruct HA1 as (H & _); exact H|].
  apply prt_pbnd.
  eapply prt_adv_At; [exact HA1|apply N.add_0_l|rewrite N.add_0_l; exact Hh|].
  intros v3 HA3. apply prt_ret_Y. exact HA3.
Qed.

Lemma tnewline_ft_At interactive (r : bytes) lr v :
  At v r -> nonl r -> prt (tnewline fuel interactive) lr v (Yields Fallthrough r).
Proof.
  intros HA Hn. unfold tnewline, tok_ft. apply prt_pbnd. eapply newline_ft_At; [exact HA|exact Hn|]. intros v1 HA1.
  change (0 + 0 =? 0) with true. cbv iota. apply prt_ret_Y. exact HA1.
Qed.

(* ---------- token::eof, token::interactive_end_of_line ---------- *)
Lemma teof_At lr v : At v [] -> prt teof lr v (Yields (Res (Ok tt)) []).
Proof.
  intros HA. unfold teof, tok_ok, tok_ft. apply prt_pbnd, prt_ppeek. rewrite (At_peek _ _ _ HA).
  rewrite nnth_0_nil. cbv iota.
  pose proof (At_after_peek _ 0 _ HA) as HA0.
  apply prt_pbnd, prt_errparked.
  assert (E : s_parked (after_peek v 0) = false).
  { destruct HA0 as (_ & Hf & _). unfold s_parked, v_err_now. rewrite Hf.
    destruct (vtaken (after_peek v 0)); apply andb_false_r. }
  rewrite E. apply prt_ret_Y. exact HA0.
Qed.

Lemma teof_ft_At x (r : bytes) lr v : At v (x :: r) -> prt teof lr v (Yields Fallthrough (x :: r)).
Proof.
  intros HA. unfold teof, tok_ft. apply prt_pbnd, prt_ppeek. rewrite (At_peek _ _ _ HA).
  rewrite nnth_0_cons. cbv iota. apply prt_ret_Y. apply At_after_peek. exact HA.
Qed.

(* the end of a line: E is the text at the line end, R what is left after it *)
Definition lineend (E R : bytes) : Prop := (E = [] /\ R = []) \/ exists crlf, E = eol_bytes crlf ++ R.

Lemma lineend_brk E R : lineend E R -> brk E /\ nbl E.
Proof.
  intros [[-> _]|[crlf ->]]; [split; exact I|]. destruct crlf; cbn; split; auto.
Qed.

Lemma interactive_end_of_line_At (E R : bytes) lr v :
  lineend E R -> At v E -> prt (interactive_end_of_line fuel) lr v (Yields (Res (Ok tt)) R).
Proof.
  intros HE HA. unfold interactive_end_of_line. destruct HE as [[-> ->]|[crlf ->]].
  - eapply prt_bind_Y; [apply tnewline_ft_At; [exact HA|exact I]|]. intros lr1 v1 HA1. cbv beta iota.
    apply teof_At. exact HA1.
  - eapply prt_bind_Y; [eapply tnewline_i_At; exact HA|]. intros lr1 v1 HA1. cbv beta iota.
    apply prt_ret_Y. exact HA1.
Qed.

(* ---------- or_give_up(|| unexpected(..)) and .matches()? on a token that decides ---------- *)
Lemma or_unexpected_At {A} (t : tok A) (x : A) R lr v :
  prt t lr v (Yields (Res (Ok x)) R) -> prt (or_unexpected t) lr v (Yields (Ok x) R).
Proof.
  intros H. unfold or_unexpected. eapply prt_bind_Y; [exact H|]. intros lr1 v1 HA. cbv beta iota.
  apply prt_ret_Y. exact HA.
Qed.

Lemma matches_At {A} (t : tok A) (x : A) R lr v :
  prt t lr v (Yields (Res (Ok x)) R) -> prt (matches_tok t) lr v (Yields (Ok true) R).
Proof.
  intros H. unfold matches_tok. eapply prt_bind_Y; [exact H|]. intros lr1 v1 HA. cbv beta iota.
  apply prt_ret_Y. exact HA.
Qed.

Lemma matches_ft_At {A} (t : tok A) R lr v :
  prt t lr v (Yields Fallthrough R) -> prt (matches_tok t) lr v (Yields (Ok false) R).
Proof.
  intros H. unfold matches_tok. eapply prt_bind_Y; [exact H|]. intros lr1 v1 HA. cbv beta iota.
  apply prt_ret_Y. exact HA.
Qed.

(* ---------- skip_whitespace ---------- *)
Lemma skip_whitespace_At (b r : bytes) lr v :
  blank_ok b = true -> nbl r -> At v (b ++ r) -> prt (skip_whitespace fuel) lr v (Yields tt r).
Proof.
  intros Hb Hn HA. unfold skip_whitespace. apply prt_pbnd.
  eapply (tabs_At 0 []); [exact HA|reflexivity|exact Hb|exact Hn|]. intros v1 HA1 Hh.
  eapply (prt_adv_At _ b r); [exact HA1|apply N.add_0_l|exact Hh|]. intros v2 HA2. split; [reflexivity|exact HA2].
Qed.

End Tok.
