(* DecimalProofs.v — the decimal text written for integers is canonical. *)
From Flussab Require Import Base Writer.
Ltac Zify.zify_post_hook ::= Z.to_euclidean_division_equations.

(* reading digits left to right *)
Definition undec_step (a : N) (d : byte) : N := 10 * a + (d - 48).
Definition undec (l : bytes) : N := fold_left undec_step l 0.
Definition is_digit (b : byte) : bool := (48 <=? b) && (b <=? 57).

Lemma undec_app l d : undec (l ++ [d]) = 10 * undec l + (d - 48).
Proof. unfold undec. rewrite fold_left_app. reflexivity. Qed.

Lemma is_digit_mod10 n : is_digit (48 + n mod 10) = true.
Proof. unfold is_digit. apply andb_true_intro. split; apply N.leb_le; lia. Qed.

Lemma pow10_pos k : 0 < 10 ^ k.
Proof. apply N.neq_0_lt_0. apply N.pow_nonzero. lia. Qed.

Lemma dec_digits_gen fuel : forall n acc,
  n < 10 ^ N.of_nat fuel -> (1 <= fuel)%nat ->
  exists ds, dec_digits fuel n acc = ds ++ acc /\ undec ds = n /\ forallb is_digit ds = true /\
             (1 <= length ds <= fuel)%nat /\
             (n = 0 -> ds = [48]) /\
             (n <> 0 -> 10 ^ (N.of_nat (length ds) - 1) <= n /\ hd 0 ds <> 48).
Proof.
  induction fuel as [|f IH]; intros n acc Hn Hf; [lia|].
  cbn [dec_digits]. destruct (n / 10 =? 0) eqn:Hq.
  - apply N.eqb_eq in Hq. assert (n < 10) by lia.
    exists [48 + n mod 10]. repeat split; cbn [length app]; try lia; try reflexivity.
    + unfold undec, undec_step; cbn [fold_left]. lia.
    + cbn [forallb]. rewrite is_digit_mod10. reflexivity.
    + intros ->. reflexivity.
    + cbn [length]. change (N.of_nat 1 - 1) with 0. rewrite N.pow_0_r. lia.
    + cbn [hd]. lia.
  - apply N.eqb_neq in Hq.
    assert (Hf1 : (1 <= f)%nat).
    { destruct f; [|lia]. cbn in Hn. change (N.of_nat 1) with 1 in Hn. rewrite N.pow_1_r in Hn. lia. }
    assert (Hn' : n / 10 < 10 ^ N.of_nat f).
    { replace (N.of_nat (S f)) with (N.succ (N.of_nat f)) in Hn by lia. rewrite N.pow_succ_r' in Hn. lia. }
    destruct (IH (n / 10) ((48 + n mod 10) :: acc) Hn' Hf1) as (ds & E & Hu & Hd & Hl & _ & Hnz).
    destruct (Hnz Hq) as [Hlow Hhd].
    exists (ds ++ [48 + n mod 10]). repeat split.
    + rewrite E. rewrite <- app_assoc. reflexivity.
    + rewrite undec_app, Hu. lia.
    + rewrite forallb_app, Hd. cbn [forallb]. rewrite is_digit_mod10. reflexivity.
    + rewrite app_length. cbn [length]. lia.
    + rewrite app_length. cbn [length]. lia.
    + intros ->. cbn in Hq. congruence.
    + rewrite app_length. cbn [length].
      replace (N.of_nat (length ds + 1) - 1) with (N.succ (N.of_nat (length ds) - 1)) by lia.
      rewrite N.pow_succ_r'. lia.
    + destruct ds as [|d ds]; [cbn in Hl; lia|]. exact Hhd.
Qed.

Lemma log2_fuel n : n < 10 ^ N.of_nat (S (N.to_nat (N.log2 n))).
Proof.
  destruct (N.eq_dec n 0) as [->|Hn]; [apply pow10_pos|].
  assert (H : n < 2 ^ N.succ (N.log2 n)) by (apply N.log2_spec; lia).
  replace (N.of_nat (S (N.to_nat (N.log2 n)))) with (N.succ (N.log2 n)) by lia.
  eapply N.lt_le_trans; [exact H|]. apply N.pow_le_mono_l. lia.
Qed.

Theorem decimal_N_canonical n :
  undec (decimal_N n) = n /\ forallb is_digit (decimal_N n) = true /\
  (n = 0 -> decimal_N n = [48]) /\ (n <> 0 -> hd 0 (decimal_N n) <> 48) /\
  (forall k, 1 <= k -> n < 10 ^ k -> nlen (decimal_N n) <= k).
Proof.
  unfold decimal_N.
  destruct (dec_digits_gen _ n [] (log2_fuel n) ltac:(lia)) as (ds & E & Hu & Hd & Hl & Hz & Hnz).
  rewrite E, app_nil_r. repeat split; auto.
  - intros Hn. apply (Hnz Hn).
  - intros k Hk Hlt. destruct (N.eq_dec n 0) as [->|Hn].
    + rewrite (Hz eq_refl). unfold nlen; cbn; lia.
    + destruct (Hnz Hn) as [Hlow _]. unfold nlen.
      destruct (N.le_gt_cases (N.of_nat (length ds)) k) as [|Hgt]; [assumption|].
      exfalso. assert (10 ^ k <= 10 ^ (N.of_nat (length ds) - 1)) by (apply N.pow_le_mono_r; lia). lia.
Qed.

(* the text of a signed value: optional '-', then the canonical digits of |v| *)
Definition parse_decimal (l : bytes) : Z :=
  match l with
  | 45 :: r => (- Z.of_N (undec r))%Z
  | _ => Z.of_N (undec l)
  end.

Definition digits_cap (t : ity) : N := max_len t - (if ity_signed t then 1 else 0).

Lemma cap_ok t :
  (ity_max t <? Z.of_N (10 ^ digits_cap t))%Z = true /\
  (- ity_min t <? Z.of_N (10 ^ digits_cap t))%Z = true /\
  (1 <=? digits_cap t) = true /\ (digits_cap t + (if ity_signed t then 1 else 0) =? max_len t) = true.
Proof. destruct t; vm_compute; repeat split; reflexivity. Qed.

Theorem decimal_canonical v :
  parse_decimal (decimal v) = v /\
  (forall t, in_range t v = true -> nlen (decimal v) <= max_len t) /\
  ((v < 0)%Z -> hd 0 (decimal v) = 45) /\ ((0 <= v)%Z -> hd 0 (decimal v) <> 45).
Proof.
  destruct v as [|p|p]; cbn [decimal Z.to_N].
  - pose proof (decimal_N_canonical 0) as (Hu & Hd & Hz & _ & Hlen). rewrite (Hz eq_refl).
    repeat split; try lia; try (cbn; congruence).
    intros t _. change (nlen [48]) with 1. destruct t; cbn [max_len]; lia.
  - pose proof (decimal_N_canonical (Npos p)) as (Hu & Hd & _ & Hnz & Hlen).
    assert (Hne : Npos p <> 0) by lia. specialize (Hnz Hne).
    assert (Hh : hd 0 (decimal_N (N.pos p)) <> 45).
    { destruct (decimal_N (N.pos p)) as [|d ds] eqn:E; cbn [hd]; [lia|].
      cbn [forallb] in Hd. apply andb_prop in Hd. destruct Hd as [Hd _]. unfold is_digit in Hd.
      apply andb_prop in Hd. destruct Hd as [H1 H2]. apply N.leb_le in H1. lia. }
    repeat split; try lia; auto.
    + unfold parse_decimal. destruct (decimal_N (N.pos p)) as [|d ds] eqn:E.
      * cbn in Hu. lia.
      * cbn [hd] in Hh. destruct (N.eq_dec d 45); [contradiction|].
        assert (Hgo : match d with 45 => (- Z.of_N (undec ds))%Z | _ => Z.of_N (undec (d :: ds)) end = Z.of_N (undec (d :: ds))).
        { destruct d as [|q]; [reflexivity|]. do 6 (destruct q as [q|q|]; try reflexivity). all: try lia. }
        rewrite Hgo, Hu. reflexivity.
    + intros t Hr. unfold in_range in Hr. apply andb_prop in Hr. destruct Hr as [_ Hr].
      apply Z.leb_le in Hr. destruct (cap_ok t) as (H1 & _ & H3 & H4).
      apply Z.ltb_lt in H1. apply N.leb_le in H3. apply N.eqb_eq in H4.
      assert (nlen (decimal_N (N.pos p)) <= digits_cap t); [apply Hlen; [exact H3|lia]|].
      destruct (ity_signed t); lia.
  - pose proof (decimal_N_canonical (Npos p)) as (Hu & Hd & _ & Hnz & Hlen).
    repeat split; try lia; auto.
    + unfold parse_decimal. rewrite Hu. reflexivity.
    + intros t Hr. unfold in_range in Hr. apply andb_prop in Hr. destruct Hr as [Hr _].
      apply Z.leb_le in Hr. destruct (cap_ok t) as (_ & H2 & H3 & H4).
      apply Z.ltb_lt in H2. apply N.leb_le in H3. apply N.eqb_eq in H4.
      assert (Hs : ity_signed t = true).
      { unfold ity_min in Hr. destruct (ity_signed t); [reflexivity|lia]. }
      rewrite Hs in H4.
      assert (nlen (decimal_N (N.pos p)) <= digits_cap t); [apply Hlen; [exact H3|lia]|].
      change (nlen (45 :: decimal_N (N.pos p))) with (N.of_nat (S (length (decimal_N (N.pos p))))).
      unfold nlen in *. lia.
Qed.
