(* RtAll.v — C03 for AIGER (both formats) and BTOR2, lifted from the simple run to every run:
   - every admissible abstract run (whatever the fast-path tests of the number scanners answer) of the parser on what
     the writer wrote returns the value (`…_all_runs`): the parse is answer-insensitive (PDet_…), never stuck / panics /
     runs out of fuel (…_safe), and the simple run returns the value (AigerRt.v, Btor2Rt.v);
   - every concrete run of the DeferredReader model (`…_concrete`): any honest source that delivers the written bytes
     and then ends cleanly, in any pieces, read with any chunk size (…_any_chunking). *)
From Flussab Require Import Base Reader ReaderProofs ListN Writer Parsed Prog Text TextSpec ProgProofs Simulation Consts Cnf CnfProofs CnfSafe.
From Flussab Require Import Varint Aiger AigerProofs AigerWrite AigerRt AigerSafe.

Local Open Scope N_scope.

(* an answer-insensitive program all of whose admissible runs end normally returns, in every admissible run, what its
   simple run returns *)
Lemma all_runs_of_simple {A} (p : prog A) (fuel : nat) (S : bytes) (fail : option N) (a : A) (v1 : view) (r : ares A) :
  Forall (fun b => b < 256) S -> (length S < fuel)%nat ->
  CoreDet fuel p ->
  (forall r, aruns p (view_init S fail) r -> exists a v', r = ADone a v') ->
  srun p (view_init S fail) = ADone a v1 ->
  aruns p (view_init S fail) r -> exists v', r = ADone a v'.
Proof.
  intros Hb Hf Hdet Hsafe Hs Hr.
  set (v := view_init S fail) in *.
  assert (Hw : WFV v) by (unfold WFV, v; cbn; lia).
  pose proof (srun_aruns p v Hw) as Hsr. rewrite Hs in Hsr.
  destruct (Hsafe _ Hr) as (a2 & v2 & ->). exists v2. f_equal.
  pose proof (Hdet v v _ _ eq_refl Hw Hw Hb Hf Hsr Hr) as Hag. destruct Hag as [-> _]. reflexivity.
Qed.

(* ---------- ascii AIGER ---------- *)
Theorem aag_roundtrip_all_runs (fuel : nat) (maxc : N) (a : aig) r :
  aag_ok maxc a -> (length (write_aag a) < fuel)%nat -> nlen (write_aag a) < 2 ^ 62 ->
  aruns (parse_aag fuel maxc lrs_init) (view_init (write_aag a) None) r ->
  exists lr' v', r = ADone ((Some (g_header a), aag_items a, FOk), lr') v' /\
                 whole_file (Some (g_header a), aag_items a, FOk) = Ok a.
Proof.
  intros Hok Hf Hl Hr.
  destruct (aag_roundtrip_final fuel maxc a Hok Hf) as (s' & v1 & Hs & Hw).
  pose proof (BOK_write_aag maxc a Hok) as Hb.
  destruct (all_runs_of_simple (parse_aag fuel maxc lrs_init) fuel (write_aag a) None (Some (g_header a), aag_items a, FOk, s') v1 r Hb Hf (PDet_parse_aag fuel maxc lrs_init)) as (v' & ->); [|exact Hs|exact Hr|].
  - intros r0 Hr0. destruct (parse_aag_safe fuel maxc _ _ r0 Hb Hl Hf Hr0) as (out & lr' & v' & ->). eauto.
  - exists s', v'. split; [reflexivity|exact Hw].
Qed.
Print Assumptions aag_roundtrip_all_runs.

Theorem aag_roundtrip_concrete (fuel : nat) (maxc : N) (a : aig) (sr : source) (c : N) :
  aag_ok maxc a -> (length (write_aag a) < fuel)%nat -> nlen (write_aag a) < 2 ^ 62 ->
  NoLie (events sr) -> 1 <= c -> stream_of sr = (write_aag a, None) ->
  exists lr' s', crun (parse_aag fuel maxc lrs_init) (set_chunk (reader_init sr) c)
                 = CDone ((Some (g_header a), aag_items a, FOk), lr') s' /\
                 whole_file (Some (g_header a), aag_items a, FOk) = Ok a.
Proof.
  intros Hok Hf Hl HN Hc Hs.
  pose proof (BOK_write_aag maxc a Hok) as Hb.
  destruct (parse_aag_any_chunking fuel maxc sr c HN Hc) as (x & v' & s' & E & C); try (rewrite Hs; cbn [fst]; assumption).
  rewrite Hs in E. cbn [fst snd] in E.
  destruct (aag_roundtrip_final fuel maxc a Hok Hf) as (lr' & v1 & E1 & Hw).
  rewrite E1 in E. inversion E; subst. exists lr', s'. split; [exact C|exact Hw].
Qed.
Print Assumptions aag_roundtrip_concrete.

(* ---------- binary AIGER ---------- *)
Theorem aig_roundtrip_all_runs (fuel : nat) (maxc : N) (a : aig) r :
  aig_ok maxc a -> (length (write_aig a) < fuel)%nat -> nlen (write_aig a) < 2 ^ 62 ->
  aruns (parse_aig fuel maxc lrs_init) (view_init (write_aig a) None) r ->
  exists lr' v', r = ADone ((Some (g_header a), aig_items a, FOk), lr') v' /\
                 whole_file (Some (g_header a), aig_items a, FOk) = Ok a /\
                 write_aig_checked a = WrOk (write_aig a).
Proof.
  intros Hok Hf Hl Hr.
  destruct (aig_roundtrip_final fuel maxc a Hok Hf) as (s' & v1 & Hs & Hw).
  pose proof (BOK_write_aig maxc a Hok) as Hb.
  destruct (all_runs_of_simple (parse_aig fuel maxc lrs_init) fuel (write_aig a) None (Some (g_header a), aig_items a, FOk, s') v1 r Hb Hf (PDet_parse_aig fuel maxc lrs_init)) as (v' & ->); [|exact Hs|exact Hr|].
  - intros r0 Hr0. destruct (parse_aig_safe fuel maxc _ _ r0 Hb Hl Hf Hr0) as (out & lr' & v' & ->). eauto.
  - exists s', v'. split; [reflexivity|exact Hw].
Qed.
Print Assumptions aig_roundtrip_all_runs.

Theorem aig_roundtrip_concrete (fuel : nat) (maxc : N) (a : aig) (sr : source) (c : N) :
  aig_ok maxc a -> (length (write_aig a) < fuel)%nat -> nlen (write_aig a) < 2 ^ 62 ->
  NoLie (events sr) -> 1 <= c -> stream_of sr = (write_aig a, None) ->
  exists lr' s', crun (parse_aig fuel maxc lrs_init) (set_chunk (reader_init sr) c)
                 = CDone ((Some (g_header a), aig_items a, FOk), lr') s' /\
                 whole_file (Some (g_header a), aig_items a, FOk) = Ok a /\
                 write_aig_checked a = WrOk (write_aig a).
Proof.
  intros Hok Hf Hl HN Hc Hs.
  pose proof (BOK_write_aig maxc a Hok) as Hb.
  destruct (parse_aig_any_chunking fuel maxc sr c HN Hc) as (x & v' & s' & E & C); try (rewrite Hs; cbn [fst]; assumption).
  rewrite Hs in E. cbn [fst snd] in E.
  destruct (aig_roundtrip_final fuel maxc a Hok Hf) as (lr' & v1 & E1 & Hw).
  rewrite E1 in E. inversion E; subst. exists lr', s'. split; [exact C|exact Hw].
Qed.
Print Assumptions aig_roundtrip_concrete.

(* ---------- BTOR2 ---------- *)
From Flussab Require Import Btor2 Btor2Proofs Btor2Rt Btor2Safe.

Theorem btor2_roundtrip_all_runs (fuel : nat) (ls : list Btor2.line) r :
  Forall line_ok ls -> Forall (fun b => b < 256) (write_lines ls) ->
  (length (write_lines ls) < fuel)%nat -> nlen (write_lines ls) < 2 ^ 62 ->
  aruns (parse_btor2 fuel lrs_init) (view_init (write_lines ls) None) r ->
  exists lr' v', r = ADone ((ls, FOk), lr') v'.
Proof.
  intros Hok Hb Hf Hl Hr.
  destruct (parse_btor2_roundtrip fuel ls Hok Hb Hf) as (s' & v1 & Hs).
  destruct (all_runs_of_simple (parse_btor2 fuel lrs_init) fuel (write_lines ls) None ((ls, FOk), s') v1 r Hb Hf
              (PDet_parse_btor2 fuel lrs_init)) as (v' & ->); [|exact Hs|exact Hr|].
  - intros r0 Hr0. destruct (parse_btor2_safe fuel _ _ r0 Hb Hl Hf Hr0) as (out & lr' & v' & ->). eauto.
  - exists s', v'. reflexivity.
Qed.
Print Assumptions btor2_roundtrip_all_runs.

Theorem btor2_roundtrip_concrete (fuel : nat) (ls : list Btor2.line) (sr : source) (c : N) :
  Forall line_ok ls -> Forall (fun b => b < 256) (write_lines ls) ->
  (length (write_lines ls) < fuel)%nat -> nlen (write_lines ls) < 2 ^ 62 ->
  NoLie (events sr) -> 1 <= c -> stream_of sr = (write_lines ls, None) ->
  exists lr' s', crun (parse_btor2 fuel lrs_init) (set_chunk (reader_init sr) c) = CDone ((ls, FOk), lr') s'.
Proof.
  intros Hok Hb Hf Hl HN Hc Hs.
  destruct (parse_btor2_any_chunking fuel sr c HN Hc) as (x & v' & s' & E & C); try (rewrite Hs; cbn [fst]; assumption).
  rewrite Hs in E. cbn [fst snd] in E.
  destruct (parse_btor2_roundtrip fuel ls Hok Hb Hf) as (lr' & v1 & E1).
  rewrite E1 in E. inversion E; subst. exists lr', s'. exact C.
Qed.
Print Assumptions btor2_roundtrip_concrete.
