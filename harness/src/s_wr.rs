//! stream "wr": an operation history on a real DeferredWriter.
//! case:  wr <sink events> <ops>
//! trace: one observation per op, then "| rx=<len>:<fnv64> calls=<n> log=<offered lengths>"
use crate::common::*;
use flussab::DeferredWriter;
use std::cell::RefCell;
use std::io::{self, Write};
use std::panic::{catch_unwind, AssertUnwindSafe};
use std::rc::Rc;

pub fn pattern(seed: usize, len: usize) -> Vec<u8> {
    (0..len).map(|i| ((seed * 31 + i * 17 + i / 256) & 255) as u8).collect()
}

#[derive(Clone, Debug)]
pub enum WEv { Accept(usize), Interrupt, Fail(u64) }

#[derive(Default)]
pub struct SinkState {
    pub received: Vec<u8>,
    pub events: std::collections::VecDeque<WEv>,
    pub calls: u64,
    pub log: Vec<usize>,
    pub flushes: u64,
    /// index (in calls) of the call that failed
    pub failed_at: Option<u64>,
    /// the sink failed and the failure has not been reported to the caller yet (reset by the oracle)
    pub unreported: bool,
    /// write() calls made while a failure was unreported
    pub calls_while_unreported: u64,
}

pub struct ScriptedSink(pub Rc<RefCell<SinkState>>);

impl Write for ScriptedSink {
    fn write(&mut self, buf: &[u8]) -> io::Result<usize> {
        let mut st = self.0.borrow_mut();
        st.calls += 1;
        st.log.push(buf.len());
        if st.unreported { st.calls_while_unreported += 1; }
        match st.events.pop_front() {
            None => { st.received.extend_from_slice(buf); Ok(buf.len()) }
            Some(WEv::Accept(k)) => {
                let n = k.min(buf.len());
                st.received.extend_from_slice(&buf[..n]);
                if n == 0 && !buf.is_empty() {
                    st.failed_at = Some(st.calls); // write_all turns Ok(0) into WriteZero
                    st.unreported = true;
                }
                Ok(n)
            }
            Some(WEv::Interrupt) => Err(io::Error::new(io::ErrorKind::Interrupted, "scripted interrupt")),
            Some(WEv::Fail(e)) => {
                st.failed_at = Some(st.calls);
                st.unreported = true;
                Err(io::Error::new(io::ErrorKind::Other, Scripted(e)))
            }
        }
    }
    fn flush(&mut self) -> io::Result<()> {
        self.0.borrow_mut().flushes += 1;
        Ok(())
    }
}

pub fn parse_wevents(s: &str) -> Vec<WEv> {
    if s == "-" { return vec![]; }
    s.split(',').filter(|t| !t.is_empty()).map(|t| {
        let arg = || t[1..].parse::<u64>().unwrap();
        match t.as_bytes()[0] {
            b'a' => WEv::Accept(arg() as usize),
            b'i' => WEv::Interrupt,
            b'f' => WEv::Fail(arg()),
            _ => panic!("bad sink event {t}"),
        }
    }).collect()
}

pub fn fnv64(b: &[u8]) -> String {
    let mut h: u64 = 0xcbf29ce484222325;
    for &x in b {
        h ^= x as u64;
        h = h.wrapping_mul(0x100000001b3);
    }
    format!("{h:016x}")
}

fn werr(e: &io::Error) -> String {
    if e.kind() == io::ErrorKind::WriteZero { "e1000".into() } else { err_id(e) }
}

pub fn digits(w: &mut DeferredWriter, ty: &str, v: &str) {
    use flussab::write::text::ascii_digits as ad;
    match ty {
        "i8" => ad(w, v.parse::<i8>().unwrap()),
        "u8" => ad(w, v.parse::<u8>().unwrap()),
        "i16" => ad(w, v.parse::<i16>().unwrap()),
        "u16" => ad(w, v.parse::<u16>().unwrap()),
        "i32" => ad(w, v.parse::<i32>().unwrap()),
        "u32" => ad(w, v.parse::<u32>().unwrap()),
        "i64" => ad(w, v.parse::<i64>().unwrap()),
        "u64" => ad(w, v.parse::<u64>().unwrap()),
        "i128" => ad(w, v.parse::<i128>().unwrap()),
        "u128" => ad(w, v.parse::<u128>().unwrap()),
        "isize" => ad(w, v.parse::<isize>().unwrap()),
        "usize" => ad(w, v.parse::<usize>().unwrap()),
        _ => panic!("bad type {ty}"),
    }
}

/// Applies one op; returns the observation and the bytes it logically wrote.
pub fn apply(w: &mut Option<DeferredWriter<'static>>, op: &str, alt: usize) -> (String, Vec<u8>) {
    let body = &op[1..];
    let parts: Vec<&str> = body.split(':').collect();
    match op.as_bytes()[0] {
        b'w' => {
            let bs = pattern(parts[1].parse().unwrap(), parts[0].parse().unwrap());
            let wr = w.as_mut().unwrap();
            match alt % 3 {
                0 => wr.write_all_defer_err(&bs),
                1 => { let n = wr.write(&bs).unwrap(); assert_eq!(n, bs.len()); }
                _ => wr.write_all(&bs).unwrap(),
            }
            (".".into(), bs)
        }
        b'g' => {
            digits(w.as_mut().unwrap(), parts[0], parts[1]);
            (".".into(), parts[1].as_bytes().to_vec())
        }
        b'd' => {
            let len: usize = parts[0].parse().unwrap();
            let bs = pattern(parts[2].parse().unwrap(), parts[1].parse().unwrap());
            assert!(bs.len() <= len);
            let wr = w.as_mut().unwrap();
            let p = wr.buf_write_ptr(len);
            if p.is_null() {
                ("null".into(), vec![])
            } else {
                unsafe {
                    std::ptr::copy_nonoverlapping(bs.as_ptr(), p, bs.len());
                    wr.advance_unchecked(bs.len());
                }
                ("ptr".into(), bs)
            }
        }
        b'f' => (match w.as_mut().unwrap().flush() { Ok(()) => "ok".into(), Err(e) => werr(&e) }, vec![]),
        b'F' => { w.as_mut().unwrap().flush_defer_err(); (".".into(), vec![]) }
        b'c' => (match w.as_mut().unwrap().check_io_error() { Ok(()) => "ok".into(), Err(e) => werr(&e) }, vec![]),
        b'D' => { *w = None; (".".into(), vec![]) }
        _ => panic!("bad writer op {op}"),
    }
}

pub fn run(toks: &[&str]) -> String {
    let st = Rc::new(RefCell::new(SinkState { events: parse_wevents(toks[0]).into(), ..Default::default() }));
    let mut w = Some(DeferredWriter::from_write(ScriptedSink(st.clone())));
    let ops: Vec<&str> = if toks[1] == "-" { vec![] } else { toks[1].split(',').collect() };
    let mut out = vec![];
    for (i, op) in ops.iter().enumerate() {
        match catch_unwind(AssertUnwindSafe(|| apply(&mut w, op, i))) {
            Ok((s, _)) => out.push(s),
            Err(p) => out.push(panic_kind(&*p)),
        }
    }
    std::mem::forget(w); // an undropped writer must not flush behind the model's back
    let s = st.borrow();
    format!("{} | rx={}:{} calls={} log={}", out.join(" "), s.received.len(), fnv64(&s.received), s.calls,
            s.log.iter().map(|x| x.to_string()).collect::<Vec<_>>().join(","))
}

/// stream "o_wr": the same histories checked directly (no model): PASS / FAIL <what>.
pub fn oracle(toks: &[&str]) -> String {
    let st = Rc::new(RefCell::new(SinkState { events: parse_wevents(toks[0]).into(), ..Default::default() }));
    let mut w = Some(DeferredWriter::from_write(ScriptedSink(st.clone())));
    let ops: Vec<&str> = if toks[1] == "-" { vec![] } else { toks[1].split(',').collect() };
    let mut written: Vec<u8> = vec![];
    let mut pending = false; // the sink failed and nobody was told yet
    for (i, op) in ops.iter().enumerate() {
        let calls_before = st.borrow().calls;
        let res = catch_unwind(AssertUnwindSafe(|| apply(&mut w, op, i)));
        let (obs, bs) = match res {
            Ok(x) => x,
            Err(p) => return format!("FAIL op#{i}({op}): panic {}", panic_kind(&*p)),
        };
        written.extend_from_slice(&bs);
        let mut s = st.borrow_mut();
        if (pending && s.calls != calls_before) || s.calls_while_unreported > 0 {
            return format!("FAIL op#{i}({op}): the sink was called between its failure and the report of that failure");
        }
        let failed_now = s.failed_at.map_or(false, |c| c > calls_before);
        let kind = op.as_bytes()[0];
        if kind == b'f' || kind == b'c' {
            let reported = obs != "ok";
            if reported != (pending || failed_now) {
                return format!("FAIL op#{i}({op}): reported {obs}, but an unreported sink failure exists = {}", pending || failed_now);
            }
            pending = false;
            s.unreported = false;
        } else if failed_now {
            pending = true;
        }
        if !is_subsequence(&s.received, &written) {
            return format!("FAIL op#{i}({op}): sink bytes are not an in-order selection of the written bytes");
        }
        if s.failed_at.is_none() && (kind == b'f' || kind == b'F' || kind == b'D') && s.received != written {
            return format!("FAIL op#{i}({op}): after flush/drop the sink holds {} bytes but {} were written (or content differs)",
                           s.received.len(), written.len());
        }
    }
    "PASS".into()
}

fn is_subsequence(a: &[u8], b: &[u8]) -> bool {
    let mut j = 0;
    for &x in a {
        while j < b.len() && b[j] != x { j += 1; }
        if j == b.len() { return false; }
        j += 1;
    }
    true
}
