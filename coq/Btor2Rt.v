(* Btor2Rt.v — towards C03 for BTOR2: parsing what the writer wrote gives the value back.
   The simple run (srun) of the token programs and of Parser::next_line on a view whose rest is the
   writer's text of a constant / operator line returns exactly that line. *)
From Flussab Require Import Base Reader ListN Writer Parsed Prog Text TextSpec ProgProofs ScanProofs DigitsProofs.
From Flussab Require Import DecimalProofs SwarProofs Consts Cnf CnfProofs Btor2 Btor2Proofs.

Local Open Scope N_scope.

(* ------------------------------------------------------------------ *)
(* simple runs of sequences                                            *)

Lemma srun_pbind {A B} (p : prog A) (f : A -> prog B) : forall v,
  srun (pbind p f) v =
  match srun p v with
  | ADone a v' => srun (f a) v'
  | APanic k => APanic k
  | AStuck => AStuck
  | AFuel => AFuel
  end.
Proof.
  induction p as [a|k c IH|n c IH|off c IH|c IH|c IH|c IH|c IH|c IH|c IH|k|]; intros v; cbn [pbind srun];
    try reflexivity; try apply IH.
  destruct (vcur v + n <=? vhwm v); [apply IH|reflexivity].
Qed.

(* m started in LineReader state s on view v returns a, state s', view v' *)
Definition runs {A} (m : PM A) (s : lrs) (v : view) (a : A) (s' : lrs) (v' : view) : Prop :=
  srun (m s) v = ADone (a, s') v'.

Lemma runs_pbnd {A B} (m : PM A) (f : A -> PM B) s v a s1 v1 b s2 v2 :
  runs m s v a s1 v1 -> runs (f a) s1 v1 b s2 v2 -> runs (pbnd m f) s v b s2 v2.
Proof. unfold runs, pbnd. intros H1 H2. rewrite srun_pbind, H1. exact H2. Qed.

Lemma runs_pret {A} (a : A) s v : runs (pret a) s v a s v.
Proof. reflexivity. Qed.

Lemma runs_lift {A} (p : prog A) s v a v' : srun p v = ADone a v' -> runs (lift p) s v a s v'.
Proof. unfold runs, lift. intros H. rewrite srun_pbind, H. reflexivity. Qed.

Lemma runs_rbnd {A B} (m : PM (result A perr)) (f : A -> PM (result B perr)) s v a s1 v1 r s2 v2 :
  runs m s v (Ok a) s1 v1 -> runs (f a) s1 v1 r s2 v2 -> runs (rbnd m f) s v r s2 v2.
Proof. intros H1 H2. unfold rbnd. eapply runs_pbnd; [exact H1|exact H2]. Qed.

Lemma runs_or_unexpected {A} (t : tok A) s v a s' v' :
  runs t s v (Res (Ok a)) s' v' -> runs (or_unexpected t) s v (Ok a) s' v'.
Proof. intros H. unfold or_unexpected. eapply runs_pbnd; [exact H|apply runs_pret]. Qed.

Lemma runs_located {A} (n : PM (parsed A unit)) err s v a s' v' :
  runs n s v (Res (Ok a)) s' v' -> runs (located n err) s v (Res (Ok a)) s' v'.
Proof. intros H. unfold located. eapply runs_pbnd; [exact H|apply runs_pret]. Qed.

Lemma runs_ppeek k s v : runs (ppeek k) s v (vpeek v k) s (after_peek v k).
Proof. reflexivity. Qed.

Lemma runs_padvance n s v : vcur v + n <= vhwm v -> runs (padvance n) s v tt s (v_advance v n).
Proof.
  intros H. unfold runs, padvance, lift. cbn [pbind srun].
  assert ((vcur v + n <=? vhwm v) = true) as -> by (apply N.leb_le; exact H). reflexivity.
Qed.

Lemma runs_pset_mark s v : runs pset_mark s v tt s (v_setmark v).
Proof. reflexivity. Qed.

Lemma runs_line_at_offset off s v :
  runs (line_at_offset off) s v tt {| l_line := l_line s + 1; l_start := vcur v mod W64 + off |} v.
Proof. reflexivity. Qed.

(* ------------------------------------------------------------------ *)
(* where a view stands in a fixed text                                 *)

Definition at_ (S : bytes) (c : N) (v : view) : Prop := vS v = S /\ vcur v = c /\ WFV v.

Lemma at_after_peek S c v k : at_ S c v -> at_ S c (after_peek v k).
Proof. intros (a & b & w). repeat split; [exact a|exact b|apply WFV_after_peek; exact w]. Qed.

Lemma at_setmark S c v : at_ S c v -> at_ S c (v_setmark v).
Proof. intros (a & b & w). repeat split; assumption. Qed.

Lemma at_advance S c v n : at_ S c v -> at_ S (c + n) (v_advance v n).
Proof. intros (a & b & w). repeat split; [exact a|cbn [v_advance vcur]; lia|exact w]. Qed.

Lemma at_peek S c v k : at_ S c v -> vpeek v k = nnth S (c + k).
Proof. intros (a & b & _). unfold vpeek. rewrite a, b. reflexivity. Qed.

Lemma at_rest S c v off : at_ S c v -> rest_at v off = nskipn (c + off) S.
Proof. intros (a & b & _). unfold rest_at. rewrite a, b. reflexivity. Qed.

Lemma nskipn_app_next {A} (l : list A) c a b : nskipn c l = a ++ b -> nskipn (c + nlen a) l = b.
Proof.
  intros H. replace (c + nlen a) with (nlen a + c) by lia. rewrite <- nskipn_nskipn, H.
  unfold nskipn, nlen. rewrite Nat2N.id. apply skipn_app_exact. reflexivity.
Qed.

Lemma nskipn_head {A} (l : list A) c x r : nskipn c l = x :: r -> nnth l c = Some x.
Proof. intros H. apply (nskipn_cons_nnth _ _ _ _ H). Qed.

Lemma hwm_after_peek_some v k b : vpeek v k = Some b -> vcur v + k + 1 <= vhwm (after_peek v k).
Proof. intros H. cbn [after_peek vhwm]. rewrite H. lia. Qed.

Lemma hwm_after_peek_mono v k : WFV v -> vhwm v <= vhwm (after_peek v k).
Proof. unfold WFV. intros H. cbn [after_peek vhwm]. destruct (vpeek v k); lia. Qed.

(* the high-water mark never decreases along a run *)
Lemma aruns_hwm_mono {A} (p : prog A) v r : aruns p v r -> WFV v -> forall a v', r = ADone a v' -> vhwm v <= vhwm v'.
Proof.
  induction 1; intros Hwf a0 v0 E; try discriminate.
  - inversion E; subst. lia.
  - pose proof (IHaruns (WFV_after_peek v k Hwf) a0 v0 E). pose proof (hwm_after_peek_mono v k Hwf). lia.
  - exact (IHaruns Hwf a0 v0 E).
  - pose proof (IHaruns (WFV_loaded v off o Hwf H) a0 v0 E).
    assert (vhwm v <= vhwm (v_loaded v off o)) by (cbn [v_loaded vhwm]; destruct o; lia). lia.
  - exact (IHaruns Hwf a0 v0 E).
  - exact (IHaruns Hwf a0 v0 E).
  - exact (IHaruns Hwf a0 v0 E).
  - exact (IHaruns Hwf a0 v0 E).
  - exact (IHaruns Hwf a0 v0 E).
  - exact (IHaruns Hwf a0 v0 E).
Qed.

Lemma srun_hwm_mono {A} (p : prog A) v a v' : WFV v -> srun p v = ADone a v' -> vhwm v <= vhwm v'.
Proof. intros Hwf H. eapply aruns_hwm_mono; [apply srun_aruns; exact Hwf|exact Hwf|exact H]. Qed.

Lemma srun_wf {A} (p : prog A) v a v' : WFV v -> srun p v = ADone a v' -> WFV v' /\ vS v' = vS v.
Proof. intros Hwf H. eapply aruns_wf; [apply srun_aruns; exact Hwf|exact Hwf|exact H]. Qed.

(* the cursor never passes the high-water mark, and the terminal event of the source is not changed by a run *)
Lemma aruns_cur_le_hwm {A} (p : prog A) v r : aruns p v r -> WFV v -> vcur v <= vhwm v ->
  forall a v', r = ADone a v' -> vcur v' <= vhwm v'.
Proof.
  induction 1; intros Hwf Hle a0 v0 E; try discriminate.
  - inversion E; subst. exact Hle.
  - apply (IHaruns (WFV_after_peek v k Hwf)) with (a := a0); [|exact E].
    pose proof (hwm_after_peek_mono v k Hwf). change (vcur (after_peek v k)) with (vcur v). lia.
  - apply (IHaruns Hwf) with (a := a0); [|exact E]. cbn [v_advance vcur vhwm]. lia.
  - apply (IHaruns (WFV_loaded v off o Hwf H)) with (a := a0); [|exact E]. cbn [v_loaded vcur vhwm]. destruct o; lia.
  - exact (IHaruns Hwf Hle a0 v0 E).
  - exact (IHaruns Hwf Hle a0 v0 E).
  - exact (IHaruns Hwf Hle a0 v0 E).
  - exact (IHaruns Hwf Hle a0 v0 E).
  - exact (IHaruns Hwf Hle a0 v0 E).
  - exact (IHaruns Hwf Hle a0 v0 E).
Qed.

Lemma aruns_vfail {A} (p : prog A) v r : aruns p v r -> forall a v', r = ADone a v' -> vfail v' = vfail v /\ (vtaken v = false -> vfail v = None -> vtaken v' = false).
Proof.
  induction 1; intros a0 v0 E; try discriminate.
  - inversion E; subst. split; auto.
  - exact (IHaruns a0 v0 E).
  - exact (IHaruns a0 v0 E).
  - exact (IHaruns a0 v0 E).
  - exact (IHaruns a0 v0 E).
  - exact (IHaruns a0 v0 E).
  - destruct (IHaruns a0 v0 E) as [H1 H2]. split; [exact H1|]. intros Ht Hf. apply H2; [|exact Hf].
    cbn [v_take vtaken]. unfold s_take, v_err_now. rewrite Ht, Hf. destruct (vknown v); reflexivity.
  - exact (IHaruns a0 v0 E).
  - exact (IHaruns a0 v0 E).
  - exact (IHaruns a0 v0 E).
Qed.

(* ------------------------------------------------------------------ *)
(* scanning loops                                                      *)

Fixpoint takep (p : byte -> bool) (l : bytes) : bytes :=
  match l with b :: r => if p b then b :: takep p r else [] | [] => [] end.

Definition stops (p : byte -> bool) (tail : bytes) : Prop :=
  match tail with [] => True | t :: _ => p t = false end.

Lemma takep_app p a tail : forallb p a = true -> stops p tail -> takep p (a ++ tail) = a.
Proof.
  induction a as [|x a IH]; cbn [app forallb takep]; intros Ha Ht.
  - destruct tail as [|t r]; [reflexivity|]. cbn [takep]. cbn [stops] in Ht. rewrite Ht. reflexivity.
  - apply andb_prop in Ha as [Hx Ha]. rewrite Hx, IH by assumption. reflexivity.
Qed.

Lemma takep_le p l : (length (takep p l) <= length l)%nat.
Proof. induction l as [|x l IH]; cbn [takep length]; [lia|]. destruct (p x); cbn [length]; lia. Qed.

Lemma take_while_spec n p : forall off acc v,
  WFV v -> (length (takep p (rest_at v off)) < n)%nat ->
  exists v', srun (take_while n p off acc) v
             = ADone (off + nlen (takep p (rest_at v off)), rev acc ++ takep p (rest_at v off)) v' /\
             vS v' = vS v /\ vcur v' = vcur v /\ WFV v' /\ vhwm v <= vhwm v' /\
             (takep p (rest_at v off) <> [] -> vcur v + off + nlen (takep p (rest_at v off)) <= vhwm v').
Proof.
  induction n as [|n IH]; intros off acc v Hwf Hf; [lia|].
  cbn [take_while srun]. rewrite vpeek_rest.
  pose proof (peeked_after_peek v off) as Hp.
  pose proof (hwm_after_peek_mono v off Hwf) as Hm.
  destruct (rest_at v off) as [|x r] eqn:E; cbn [takep] in *.
  - exists (after_peek v off). change (nlen (@nil byte)) with 0. rewrite N.add_0_r, app_nil_r.
    repeat split; try reflexivity; [apply WFV_after_peek; exact Hwf|exact Hm|congruence].
  - destruct (p x) eqn:Hx.
    + cbn [length] in Hf.
      assert (Er : rest_at (after_peek v off) (off + 1) = r).
      { rewrite (rest_at_peeked _ _ _ _ Hp). eapply rest_at_succ; eauto. }
      destruct (IH (off + 1) (x :: acc) (after_peek v off)) as (v' & Hrun & h1 & h2 & h3 & h4 & h5);
        [apply WFV_after_peek; exact Hwf|rewrite Er; lia|].
      rewrite Er in Hrun, h5. exists v'. split; [|repeat split; try assumption].
      * rewrite Hrun. f_equal. f_equal; [rewrite nlen_cons; lia|]. cbn [rev]. rewrite <- app_assoc. reflexivity.
      * lia.
      * intros _. rewrite nlen_cons.
        assert (Hpk : vpeek v off = Some x) by (rewrite vpeek_rest, E; reflexivity).
        pose proof (hwm_after_peek_some v off x Hpk).
        destruct (takep p r) as [|y t] eqn:Et.
        -- change (nlen (@nil byte)) with 0. lia.
        -- change (vcur (after_peek v off)) with (vcur v) in h5. specialize (h5 ltac:(congruence)). lia.
    + exists (after_peek v off). change (nlen (@nil byte)) with 0. rewrite N.add_0_r, app_nil_r.
      repeat split; try reflexivity; [apply WFV_after_peek; exact Hwf|exact Hm|congruence].
Qed.

(* ---------- the digit scanners: how far the high-water mark has moved ---------- *)
Lemma digits_loop_hwm fuel : forall t neg value overflow off v x off' v',
  WFV v -> srun (digits_loop fuel t neg value overflow off) v = ADone (x, off') v' ->
  off <= off' /\ (off < off' -> vcur v + off' <= vhwm v').
Proof.
  induction fuel as [|f IH]; intros t neg value overflow off v x off' v' Hwf H; cbn [digits_loop srun] in H; [discriminate|].
  destruct (vpeek v off) as [d|] eqn:Hp.
  - destruct (is_dig d).
    + destruct (ovf t (value * 10)) as [v1 o1].
      destruct (ovf t (if neg then (v1 - Z.of_N (d - 48))%Z else (v1 + Z.of_N (d - 48))%Z)) as [v2 o2].
      pose proof (WFV_after_peek v off Hwf) as Hwf1.
      destruct (IH _ _ _ _ _ _ _ _ _ Hwf1 H) as [Hle Hlt]. split; [lia|]. intros _.
      pose proof (hwm_after_peek_some v off d Hp) as Hh.
      pose proof (srun_hwm_mono _ _ _ _ Hwf1 H) as Hmono.
      change (vcur (after_peek v off)) with (vcur v) in Hlt.
      destruct (N.eq_dec off' (off + 1)) as [->|Hne]; [lia|]. apply Hlt. lia.
    + inversion H; subst. split; lia.
  - inversion H; subst. split; lia.
Qed.

Lemma multi_hwm fuel t off v value off' v' :
  WFV v -> BytesOK v ->
  aruns (ascii_digits_multi fuel t off) v (ADone (value, off') v') ->
  off <= off' /\ (off < off' -> vcur v + off' <= vhwm v').
Proof.
  intros Hwf Hb Hr. unfold ascii_digits_multi in Hr. inversion Hr; subst.
  match goal with H : tryload_ok _ _ ?o |- _ => destruct o as [w|]; cbn [tryload_ok] in H; rename H into Hok end.
  - destruct Hok as [Hlen ->].
    match goal with H : aruns _ (v_loaded v off _) _ |- _ => rename H into Hc end.
    destruct (load8_is_rest v off Hlen) as [Hw Hl8].
    assert (Hsm : Forall (fun b => b < 256) (firstn 8 (rest_at v off))).
    { apply Forall_firstn. unfold rest_at, nskipn. apply Forall_skipn. exact Hb. }
    unfold word_at in Hc. rewrite Hw, (swar_spec _ Hl8 Hsm) in Hc.
    remember (firstn 8 (rest_at v off)) as l8 eqn:El8.
    set (vl := v_loaded v off (Some (le_value l8))) in *.
    assert (Hwl : WFV vl) by (unfold WFV, vl in *; cbn [v_loaded vhwm vS]; lia).
    assert (Hhl : vcur v + off + 8 <= vhwm vl) by (unfold vl; cbn [v_loaded vhwm]; lia).
    pose proof (digit_prefix_le l8) as Hdl. rewrite Hl8 in Hdl.
    destruct (nlen (digit_prefix l8) =? 8) eqn:H8.
    + unfold ascii_digits_cont in Hc. pose proof (det_aruns _ _ _ Hc (det_digits_loop _ _ _ _ _ _)) as Hs. symmetry in Hs.
      destruct (digits_loop_hwm _ _ _ _ _ _ _ _ _ _ Hwl Hs) as [Hle Hlt].
      pose proof (srun_hwm_mono _ _ _ _ Hwl Hs) as Hmono.
      change (vcur vl) with (vcur v) in Hlt. split; [lia|]. intros _.
      destruct (N.eq_dec off' (off + 8)) as [->|Hne]; [lia|]. apply Hlt. lia.
    + apply aruns_ret_inv in Hc. injection Hc as E1 E2 E3. subst off' v'. unfold nlen in *. split; [lia|]. intros _. lia.
  - match goal with H : aruns _ (v_loaded v off None) _ |- _ => rename H into Hc end.
    unfold ascii_digits in Hc. pose proof (det_aruns _ _ _ Hc (det_digits_loop _ _ _ _ _ _)) as Hs. symmetry in Hs.
    assert (Hwl : WFV (v_loaded v off None)) by exact Hwf.
    destruct (digits_loop_hwm _ _ _ _ _ _ _ _ _ _ Hwl Hs) as [Hle Hlt]. split; [exact Hle|exact Hlt].
Qed.

(* ---------- the lowercase step: how far the high-water mark has moved ---------- *)
Lemma lc_cold_hwm n : forall off i word v w i' v',
  WFV v -> srun (lc_cold n off i word) v = ADone (w, i') v' ->
  i <= i' /\ (i < i' -> vcur v + off + i' <= vhwm v').
Proof.
  induction n as [|n IH]; intros off i word v w i' v' Hwf H; cbn [lc_cold srun] in H.
  - inversion H; subst. split; lia.
  - destruct (vpeek v (off + i)) as [c|] eqn:Hp.
    + destruct (is_lower c).
      * pose proof (WFV_after_peek v (off + i) Hwf) as Hwf1.
        destruct (IH _ _ _ _ _ _ _ Hwf1 H) as [Hle Hlt]. split; [lia|]. intros _.
        pose proof (hwm_after_peek_some v (off + i) c Hp) as Hh.
        pose proof (srun_hwm_mono _ _ _ _ Hwf1 H) as Hmono.
        change (vcur (after_peek v (off + i))) with (vcur v) in Hlt.
        destruct (N.eq_dec i' (i + 1)) as [->|Hne]; [lia|]. apply Hlt. lia.
      * inversion H; subst. split; lia.
    + inversion H; subst. split; lia.
Qed.

Lemma lc_u64_hwm off v w n v' :
  WFV v -> BytesOK v ->
  aruns (ascii_lowercase_u64 off) v (ADone (w, n) v') ->
  0 < n -> vcur v + off + n <= vhwm v'.
Proof.
  intros Hwf Hb Hr Hn. unfold ascii_lowercase_u64 in Hr. inversion Hr; subst.
  match goal with H : tryload_ok _ _ ?o |- _ => destruct o as [x|]; cbn [tryload_ok] in H; rename H into Hok end.
  - destruct Hok as [Hlen ->].
    match goal with H : aruns _ (v_loaded v off _) _ |- _ => rename H into Hc end.
    destruct (load8_is_rest v off Hlen) as [Hw Hl8].
    assert (Hsm : Forall (fun b => b < 256) (firstn 8 (rest_at v off))).
    { apply Forall_firstn. unfold rest_at, nskipn. apply Forall_skipn. exact Hb. }
    apply aruns_ret_inv in Hc. unfold word_at in Hc. rewrite Hw, (lc_swar_spec _ Hl8 Hsm) in Hc.
    remember (firstn 8 (rest_at v off)) as l8 eqn:El8.
    pose proof (lower_prefix_le l8) as Hle. rewrite Hl8 in Hle.
    injection Hc as E1 E2 E3. subst w n v'. cbn [v_loaded vhwm]. unfold nlen. lia.
  - match goal with H : aruns _ (v_loaded v off None) _ |- _ => rename H into Hc end.
    change (aruns (lc_cold 8 off 0 0) (v_loaded v off None) (ADone (w, n) v')) in Hc.
    pose proof (det_aruns _ _ _ Hc (det_lc_cold _ _ _ _)) as Hs. symmetry in Hs.
    assert (Hwl : WFV (v_loaded v off None)) by exact Hwf.
    destruct (lc_cold_hwm _ _ _ _ _ _ _ _ Hwl Hs) as [_ Hlt]. specialize (Hlt Hn).
    change (vcur (v_loaded v off None)) with (vcur v) in Hlt. lia.
Qed.

(* the bytes of a word assembled from bytes *)
Lemma le_bytes_le_value l : Forall (fun b => b < 256) l -> le_bytes (length l) (le_value l) = l.
Proof.
  induction 1 as [|b l Hb Hl IH]; cbn [length le_bytes le_value]; [reflexivity|].
  replace ((b + 256 * le_value l) mod 256) with b.
  - replace ((b + 256 * le_value l) / 256) with (le_value l); [rewrite IH; reflexivity|].
    rewrite N.mul_comm, N.div_add by lia. rewrite N.div_small by exact Hb. reflexivity.
  - rewrite N.mul_comm, N.mod_add by lia. symmetry. apply N.mod_small. exact Hb.
Qed.

Lemma lower_prefix_word nm tail :
  forallb is_lower nm = true -> stops is_lower tail -> (length nm < 8)%nat ->
  lower_prefix (firstn 8 (nm ++ tail)) = nm.
Proof.
  intros Hl Ht Hlen.
  assert (G : forall k nm, forallb is_lower nm = true -> (length nm < k)%nat -> lower_prefix (firstn k (nm ++ tail)) = nm).
  { induction k as [|k IH]; intros m Hm Hk; [lia|].
    destruct m as [|x m]; cbn [app].
    - destruct tail as [|t r]; [reflexivity|]. cbn [firstn lower_prefix]. cbn [stops] in Ht. rewrite Ht. reflexivity.
    - cbn [forallb] in Hm. apply andb_prop in Hm as [Hx Hm]. cbn [firstn lower_prefix length] in *.
      rewrite Hx, IH by (assumption || lia). reflexivity. }
  apply G; assumption.
Qed.

(* ------------------------------------------------------------------ *)
(* single-byte tokens                                                  *)

Section Rt.
Variable fuel : nat.
Variable S : bytes.
Hypothesis Sbytes : Forall (fun b => b < 256) S.
Hypothesis Sfuel : (length S < fuel)%nat.

Lemma one_byte_hit ch c v s tail :
  at_ S c v -> nskipn c S = ch :: tail ->
  exists v', runs (one_byte ch) s v (Res (Ok tt)) s v' /\ at_ S (c + 1) v'.
Proof.
  intros Hat Hs. pose proof (nskipn_head _ _ _ _ Hs) as Hn.
  assert (Hp : vpeek v 0 = Some ch) by (rewrite (at_peek _ _ _ 0 Hat), N.add_0_r; exact Hn).
  exists (v_advance (after_peek v 0) 1). split.
  - unfold one_byte. eapply runs_pbnd; [apply runs_ppeek|]. rewrite Hp, N.eqb_refl.
    eapply runs_pbnd; [apply runs_padvance|apply runs_pret].
    pose proof (hwm_after_peek_some v 0 ch Hp). change (vcur (after_peek v 0)) with (vcur v). lia.
  - apply at_advance, at_after_peek, Hat.
Qed.

Lemma one_byte_miss ch c v s :
  at_ S c v -> (match nskipn c S with x :: _ => x <> ch | [] => True end) ->
  exists v', runs (one_byte ch) s v Fallthrough s v' /\ at_ S c v'.
Proof.
  intros Hat Hs. exists (after_peek v 0). split; [|apply at_after_peek, Hat].
  unfold one_byte. eapply runs_pbnd; [apply runs_ppeek|].
  rewrite (at_peek _ _ _ 0 Hat), N.add_0_r.
  destruct (nskipn c S) as [|x r] eqn:E.
  - rewrite (nskipn_nil_nnth _ _ E). apply runs_pret.
  - rewrite (nskipn_head _ _ _ _ E). assert ((x =? ch) = false) as -> by (apply N.eqb_neq; exact Hs). apply runs_pret.
Qed.

Lemma required_space_hit c v s tail :
  at_ S c v -> nskipn c S = 32 :: tail ->
  exists v', runs required_space s v (Ok tt) s v' /\ at_ S (c + 1) v'.
Proof.
  intros Hat Hs. destruct (one_byte_hit 32 c v s tail Hat Hs) as (v' & H1 & H2).
  exists v'. split; [apply runs_or_unexpected; exact H1|exact H2].
Qed.

Lemma newline_tok_hit c v s tail :
  at_ S c v -> nskipn c S = 10 :: tail ->
  exists s' v', runs newline_tok s v (Res (Ok tt)) s' v' /\ at_ S (c + 1) v'.
Proof.
  intros Hat Hs. pose proof (nskipn_head _ _ _ _ Hs) as Hn.
  assert (Hp : vpeek v 0 = Some 10) by (rewrite (at_peek _ _ _ 0 Hat), N.add_0_r; exact Hn).
  eexists. exists (v_advance (after_peek v 0) 1). split.
  - unfold newline_tok. eapply runs_pbnd; [apply runs_ppeek|]. rewrite Hp. cbn [N.eqb Pos.eqb].
    change (10 =? 10) with true. cbv iota.
    eapply runs_pbnd; [apply runs_padvance|].
    { pose proof (hwm_after_peek_some v 0 10 Hp). change (vcur (after_peek v 0)) with (vcur v). lia. }
    eapply runs_pbnd; [apply runs_line_at_offset|apply runs_pret].
  - apply at_advance, at_after_peek, Hat.
Qed.


Lemma at_bytes c v : at_ S c v -> BytesOK v.
Proof. intros (a & _ & _). unfold BytesOK. rewrite a. exact Sbytes. Qed.

(* ---------- the keyword scanner on a written keyword ---------- *)
Lemma lower_prefix_all l : forallb is_lower l = true -> lower_prefix l = l.
Proof.
  induction l as [|x l IH]; cbn [forallb lower_prefix]; intros H; [reflexivity|].
  apply andb_prop in H as [Hx Hl]. rewrite Hx, IH by exact Hl. reflexivity.
Qed.

Lemma ascii_lowercase_hit n : forall nm acc off c v tail,
  at_ S c v -> nskipn (c + off) S = nm ++ tail -> forallb is_lower nm = true -> stops is_lower tail ->
  (length nm < 8 * n)%nat ->
  exists v', srun (ascii_lowercase n off acc) v = ADone (acc ++ nm) v' /\ at_ S c v' /\ vhwm v <= vhwm v' /\
             (nm <> [] -> c + off + nlen nm <= vhwm v').
Proof.
  induction n as [|n IH]; intros nm acc off c v tail Hat Hs Hl Ht Hlen; [lia|].
  pose proof Hat as (HS & Hc & Hwf). pose proof (at_bytes _ _ Hat) as Hb.
  pose proof (srun_aruns (ascii_lowercase_u64 off) v Hwf) as Har.
  destruct (lc_u64_spec off v _ Hwf Hb Har) as (v1 & Hrun & Hcore).
  assert (Hrest : rest_at v off = nm ++ tail) by (rewrite (at_rest _ _ _ off Hat); exact Hs).
  destruct (srun_wf _ _ _ _ Hwf Hrun) as [Hwf1 HS1].
  destruct (core_after_basic _ _ _ Hcore) as [Hc1 _].
  assert (Hat1 : at_ S c v1) by (repeat split; [rewrite HS1; exact HS|rewrite Hc1; exact Hc|exact Hwf1]).
  pose proof (srun_hwm_mono _ _ _ _ Hwf Hrun) as Hm1.
  assert (Hnm : Forall (fun b => b < 256) nm).
  { assert (Hf : Forall (fun b => b < 256) (nskipn (c + off) S)) by (unfold nskipn; apply Forall_skipn; exact Sbytes).
    rewrite Hs in Hf. apply Forall_app in Hf. apply Hf. }
  cbn [ascii_lowercase]. rewrite srun_pbind.
  destruct (Nat.ltb (length nm) 8) eqn:E8.
  - (* the keyword ends within this step *)
    apply Nat.ltb_lt in E8.
    assert (Hlp : lower_prefix (firstn 8 (rest_at v off)) = nm) by (rewrite Hrest; apply lower_prefix_word; assumption).
    unfold lc_spec in Hrun. rewrite Hlp in Hrun. rewrite Hrun. cbv beta iota.
    assert ((nlen nm <? 8) = true) as -> by (apply N.ltb_lt; unfold nlen; lia).
    exists v1. split; [|split; [exact Hat1|split; [exact Hm1|]]].
    + cbn [srun]. replace (le_bytes (N.to_nat (nlen nm)) (le_value nm)) with nm; [reflexivity|].
      symmetry. unfold nlen. rewrite Nat2N.id. apply le_bytes_le_value. exact Hnm.
    + intros Hne. rewrite Hrun in Har.
      assert (Hnl : 0 < nlen nm) by (unfold nlen; destruct nm; [congruence|cbn [length]; lia]).
      pose proof (lc_u64_hwm off v _ _ _ Hwf Hb Har Hnl). rewrite <- Hc. lia.
  - (* eight more letters: another step *)
    apply Nat.ltb_ge in E8.
    assert (Esplit : nm = firstn 8 nm ++ skipn 8 nm) by (symmetry; apply firstn_skipn).
    set (a := firstn 8 nm) in *. set (b := skipn 8 nm) in *.
    assert (Hla : length a = 8%nat) by (unfold a; rewrite firstn_length; lia).
    assert (Hab : forallb is_lower a = true /\ forallb is_lower b = true) by (rewrite Esplit, forallb_app in Hl; apply andb_prop; exact Hl).
    destruct Hab as [Hlwa Hlwb].
    assert (Hlp : lower_prefix (firstn 8 (rest_at v off)) = a).
    { rewrite Hrest, Esplit, <- app_assoc, (firstn_app_exact a (b ++ tail) 8 Hla). apply lower_prefix_all. exact Hlwa. }
    unfold lc_spec in Hrun. rewrite Hlp in Hrun. rewrite Hrun. cbv beta iota.
    assert (Hna : nlen a = 8) by (unfold nlen; rewrite Hla; reflexivity).
    rewrite Hna. change (8 <? 8) with false. cbv iota.
    assert (Hsa : Forall (fun x => x < 256) a) by (rewrite Esplit in Hnm; apply Forall_app in Hnm; apply Hnm).
    replace (le_bytes (N.to_nat 8) (le_value a)) with a
      by (symmetry; change (N.to_nat 8) with 8%nat; rewrite <- Hla; apply le_bytes_le_value; exact Hsa).
    assert (Hs' : nskipn (c + (off + 8)) S = b ++ tail).
    { replace (c + (off + 8)) with (c + off + nlen a) by lia. apply (nskipn_app_next _ _ a).
      rewrite Hs, Esplit, <- app_assoc. reflexivity. }
    assert (Hlenb : (length b < 8 * n)%nat).
    { assert (length nm = length a + length b)%nat by (rewrite Esplit at 1; apply app_length). lia. }
    destruct (IH b (acc ++ a) (off + 8) c v1 tail Hat1 Hs' Hlwb Ht Hlenb) as (v2 & R2 & A2 & M2 & H2).
    exists v2. split; [|split; [exact A2|split; [lia|]]].
    + rewrite R2. rewrite <- app_assoc, <- Esplit. reflexivity.
    + intros _. rewrite Hrun in Har.
      pose proof (lc_u64_hwm off v _ _ _ Hwf Hb Har ltac:(lia)) as H8.
      assert (Hnn : nlen nm = 8 + nlen b) by (rewrite Esplit at 1; rewrite nlen_app, Hna; reflexivity).
      destruct b as [|y b'] eqn:Eb.
      * change (nlen (@nil byte)) with 0 in Hnn. rewrite <- Hc. lia.
      * specialize (H2 ltac:(congruence)). lia.
Qed.

Lemma keyword_hit {A} (tbl : list (bytes * A)) (t : A) nm c v s tail :
  at_ S c v -> nskipn c S = nm ++ tail -> forallb is_lower nm = true -> stops is_lower tail ->
  nm <> [] -> lookup nm tbl = Some t ->
  exists v', runs (keyword fuel tbl) s v (Res (Ok t)) s v' /\ at_ S (c + nlen nm) v'.
Proof.
  intros Hat Hs Hl Ht Hne Hlk.
  assert (Hs0 : nskipn (c + 0) S = nm ++ tail) by (rewrite N.add_0_r; exact Hs).
  assert (Hlen : (length nm < 8 * fuel)%nat).
  { assert (length (nskipn c S) <= length S)%nat by (unfold nskipn; rewrite skipn_length; lia).
    rewrite Hs, app_length in H. lia. }
  destruct (ascii_lowercase_hit fuel nm [] 0 c v tail Hat Hs0 Hl Ht Hlen) as (v1 & R1 & A1 & _ & H1).
  specialize (H1 Hne). destruct A1 as (HS1 & Hc1 & Hwf1).
  exists (v_advance v1 (nlen nm)). split; [|apply at_advance; repeat split; assumption].
  unfold keyword. eapply runs_pbnd; [apply runs_lift; exact R1|]. cbn [app]. rewrite Hlk.
  eapply runs_pbnd; [apply runs_padvance|apply runs_pret]. rewrite Hc1. lia.
Qed.

(* ---------- integers written by the writer ---------- *)
Lemma decimal_N_digits n : forallb is_dig (decimal_N n) = true.
Proof. exact (proj1 (proj2 (decimal_N_canonical n))). Qed.

Lemma decimal_N_value n : dec_val (decimal_N n) = n.
Proof. exact (proj1 (decimal_N_canonical n)). Qed.

Lemma decimal_N_nonempty n : decimal_N n <> [].
Proof.
  intros E. pose proof (decimal_N_value n) as Hv. rewrite E in Hv. cbn in Hv. subst n.
  destruct (decimal_N_canonical 0) as (_ & _ & Hz & _). rewrite (Hz eq_refl) in E. discriminate.
Qed.

Lemma digit_prefix_written ds tail : forallb is_dig ds = true -> stops is_dig tail -> digit_prefix (ds ++ tail) = ds.
Proof.
  intros Hd Ht. rewrite (digit_prefix_app_all ds tail Hd).
  destruct tail as [|t r]; [apply app_nil_r|]. cbn [digit_prefix]. cbn [stops] in Ht. rewrite Ht. apply app_nil_r.
Qed.

Lemma uint_hit n c v s tail :
  at_ S c v -> nskipn c S = decimal_N n ++ tail -> stops is_dig tail -> n < 2 ^ 64 ->
  exists v', runs (uint fuel) s v (Res (Ok n)) s v' /\ at_ S (c + nlen (decimal_N n)) v'.
Proof.
  intros Hat Hs Ht Hn. pose proof Hat as (HS & Hc & Hwf).
  set (v0 := v_setmark v).
  assert (Hat0 : at_ S c v0) by (apply at_setmark; exact Hat).
  pose proof Hat0 as (HS0 & Hc0 & Hwf0). pose proof (at_bytes _ _ Hat0) as Hb0.
  pose proof (srun_aruns (ascii_digits_multi fuel U64 0) v0 Hwf0) as Har.
  assert (Hrest : rest_at v0 0 = decimal_N n ++ tail) by (rewrite (at_rest _ _ _ 0 Hat0), N.add_0_r; exact Hs).
  assert (Hdp : digit_prefix (rest_at v0 0) = decimal_N n)
    by (rewrite Hrest; apply digit_prefix_written; [apply decimal_N_digits|exact Ht]).
  assert (Hfu : (length (digit_prefix (rest_at v0 0)) < fuel)%nat).
  { pose proof (rest_len v0 0) as Hrl. rewrite HS0 in Hrl. lia. }
  destruct (ascii_digits_multi_spec fuel U64 0 v0 _ Hwf0 Hb0 Hfu Har) as (v1 & Hrun & Hcore).
  unfold unsigned_spec in Hrun. cbn [fst snd] in Hrun. rewrite Hdp, decimal_N_value, N.add_0_l in Hrun.
  assert (Hfp : from_prim U64 (Z.of_N n) = Some (Z.of_N n)).
  { unfold from_prim. assert (in_range U64 (Z.of_N n) = true) as ->; [|reflexivity].
    apply in_range_iff. change (ity_min U64) with 0%Z. change (ity_max U64) with (2 ^ 64 - 1)%Z.
    change (2 ^ 64) with 18446744073709551616 in Hn. lia. }
  rewrite Hfp in Hrun. rewrite Hrun in Har.
  pose proof (decimal_N_nonempty n) as Hne.
  assert (Hnl : 0 < nlen (decimal_N n)) by (unfold nlen; destruct (decimal_N n); [congruence|cbn [length]; lia]).
  destruct (multi_hwm fuel U64 0 v0 _ _ _ Hwf0 Hb0 Har) as [_ Hh]. specialize (Hh Hnl).
  destruct (srun_wf _ _ _ _ Hwf0 Hrun) as [Hwf1 HS1].
  destruct (core_after_basic _ _ _ Hcore) as [Hc1 _].
  assert (Hat1 : at_ S c v1) by (repeat split; [rewrite HS1; exact HS0|rewrite Hc1; exact Hc0|exact Hwf1]).
  (* the first byte: buf()[0] *)
  destruct (decimal_N n) as [|d ds] eqn:Ed; [congruence|].
  assert (Hp0 : vpeek v1 0 = Some d).
  { rewrite (at_peek _ _ _ 0 Hat1), N.add_0_r. apply (nskipn_head _ _ _ (ds ++ tail)). exact Hs. }
  assert (Hcond : negb (d =? 48) || (nlen (d :: ds) =? 1) = true).
  { destruct (N.eq_dec n 0) as [->|Hn0].
    - destruct (decimal_N_canonical 0) as (_ & _ & Hz & _). rewrite (Hz eq_refl) in Ed. inversion Ed; subst. reflexivity.
    - destruct (decimal_N_canonical n) as (_ & _ & _ & Hnz & _). specialize (Hnz Hn0). rewrite Ed in Hnz. cbn [hd] in Hnz.
      assert ((d =? 48) = false) as -> by (apply N.eqb_neq; exact Hnz). reflexivity. }
  exists (v_advance (after_peek v1 0) (nlen (d :: ds))). split.
  - unfold uint. eapply runs_pbnd; [apply runs_pset_mark|].
    eapply runs_pbnd; [apply runs_lift; exact Hrun|]. cbv beta iota.
    assert ((nlen (d :: ds) =? 0) = false) as -> by (apply N.eqb_neq; lia).
    eapply runs_pbnd; [apply runs_ppeek|]. rewrite Hp0, Hcond.
    eapply runs_pbnd; [apply runs_padvance|].
    { pose proof (hwm_after_peek_mono v1 0 Hwf1). change (vcur (after_peek v1 0)) with (vcur v1).
      rewrite Hc1. change (vcur v0) with (vcur v) in *. lia. }
    rewrite N2Z.id. apply runs_pret.
  - apply at_advance, at_after_peek, Hat1.
Qed.

Lemma nonnegative_int_hit n c v s tail :
  at_ S c v -> nskipn c S = decimal_N n ++ tail -> stops is_dig tail -> n < 2 ^ 64 ->
  exists v', runs (required_nonnegative_int fuel) s v (Ok n) s v' /\ at_ S (c + nlen (decimal_N n)) v'.
Proof.
  intros Hat Hs Ht Hn. destruct (uint_hit n c v s tail Hat Hs Ht Hn) as (v' & H1 & H2).
  exists v'. split; [|exact H2]. apply runs_or_unexpected. apply runs_located. exact H1.
Qed.

Lemma positive_int_hit n c v s tail :
  at_ S c v -> nskipn c S = decimal_N n ++ tail -> stops is_dig tail -> 0 < n < 2 ^ 64 ->
  exists v', runs (positive_int fuel) s v (Res (Ok n)) s v' /\ at_ S (c + nlen (decimal_N n)) v'.
Proof.
  intros Hat Hs Ht [Hn0 Hn].
  pose proof (at_after_peek _ _ _ 0 Hat) as Hat1.
  destruct (uint_hit n c (after_peek v 0) s tail Hat1 Hs Ht Hn) as (v' & H1 & H2).
  exists v'. split; [|exact H2].
  unfold positive_int. eapply runs_pbnd; [apply runs_ppeek|].
  destruct (decimal_N n) as [|d ds] eqn:Ed; [exfalso; exact (decimal_N_nonempty n Ed)|].
  assert (Hp0 : vpeek v 0 = Some d).
  { rewrite (at_peek _ _ _ 0 Hat), N.add_0_r. apply (nskipn_head _ _ _ (ds ++ tail)). exact Hs. }
  destruct (decimal_N_canonical n) as (_ & _ & _ & Hnz & _). specialize (Hnz ltac:(lia)). rewrite Ed in Hnz. cbn [hd] in Hnz.
  rewrite Hp0. assert ((d =? 48) = false) as -> by (apply N.eqb_neq; exact Hnz).
  eapply runs_pbnd; [apply runs_located; exact H1|]. cbv beta iota.
  assert ((n =? 0) = false) as -> by (apply N.eqb_neq; lia). apply runs_pret.
Qed.

Lemma required_id_hit n c v s tail :
  at_ S c v -> nskipn c S = decimal_N n ++ tail -> stops is_dig tail -> 0 < n < 2 ^ 64 ->
  exists v', runs (or_unexpected (positive_int fuel)) s v (Ok n) s v' /\ at_ S (c + nlen (decimal_N n)) v'.
Proof.
  intros Hat Hs Ht Hn. destruct (positive_int_hit n c v s tail Hat Hs Ht Hn) as (v' & H1 & H2).
  exists v'. split; [apply runs_or_unexpected; exact H1|exact H2].
Qed.


(* ---------- tokens of a written line, Hoare style ---------- *)
(* a separator follows: every token of a written line is followed by a space or by the line feed *)
Definition sep (tail : bytes) : Prop := match tail with t :: _ => t = 32 \/ t = 10 | [] => False end.
Definition seps (text : bytes) : Prop := match text with t :: _ => t = 32 \/ t = 10 | [] => True end.

Lemma sep_stops p tail : p 32 = false -> p 10 = false -> sep tail -> stops p tail.
Proof. intros H32 H10. destruct tail as [|t r]; cbn [sep stops]; [tauto|]. intros [->| ->]; assumption. Qed.

Lemma sep_app text tail : seps text -> sep tail -> sep (text ++ tail).
Proof. destruct text as [|t r]; cbn [seps app sep]; auto. Qed.

(* m reads exactly [text] (followed by a separator) and returns a, leaving the line state alone *)
Definition ptok {A} (m : PM (result A perr)) (text : bytes) (a : A) : Prop :=
  forall c v s tail, at_ S c v -> nskipn c S = text ++ tail -> sep tail ->
  exists v', runs m s v (Ok a) s v' /\ at_ S (c + nlen text) v'.

Lemma ptok_ret {A} (a : A) : ptok (pret (Ok a)) [] a.
Proof.
  intros c v s tail Hat _ _. exists v. split; [apply runs_pret|]. change (nlen (@nil byte)) with 0.
  rewrite N.add_0_r. exact Hat.
Qed.

Lemma ptok_bind {A B} (m : PM (result A perr)) (K : A -> PM (result B perr)) text a text2 b :
  ptok m text a -> seps text2 -> ptok (K a) text2 b -> ptok (rbnd m K) (text ++ text2) b.
Proof.
  intros Hm Hs2 HK c v s tail Hat Hs Hsep.
  rewrite <- app_assoc in Hs.
  destruct (Hm c v s (text2 ++ tail) Hat Hs (sep_app _ _ Hs2 Hsep)) as (v1 & R1 & A1).
  destruct (HK _ v1 s tail A1 (nskipn_app_next _ _ _ _ Hs) Hsep) as (v2 & R2 & A2).
  exists v2. split; [eapply runs_rbnd; eassumption|]. rewrite nlen_app, N.add_assoc. exact A2.
Qed.

Lemma ptok_space_bind {A B} (m : PM (result A perr)) (K : A -> PM (result B perr)) text a text2 b :
  ptok m text a -> seps text2 -> ptok (K a) text2 b ->
  ptok (rbnd required_space (fun _ => rbnd m K)) (32 :: text ++ text2) b.
Proof.
  intros Hm Hs2 HK c v s tail Hat Hs Hsep.
  change ((32 :: text ++ text2) ++ tail) with ([32] ++ ((text ++ text2) ++ tail)) in Hs.
  destruct (required_space_hit c v s _ Hat Hs) as (v0 & R0 & A0).
  pose proof (nskipn_app_next _ _ _ _ Hs) as Hs0. change (nlen [32]) with 1 in Hs0.
  destruct (ptok_bind m K text a text2 b Hm Hs2 HK _ v0 s tail A0 Hs0 Hsep) as (v2 & R2 & A2).
  exists v2. split; [eapply runs_rbnd; eassumption|].
  rewrite nlen_cons. replace (c + (1 + nlen (text ++ text2))) with (c + 1 + nlen (text ++ text2)) by lia. exact A2.
Qed.

Lemma is_dig_32 : is_dig 32 = false. Proof. reflexivity. Qed.
Lemma is_dig_10 : is_dig 10 = false. Proof. reflexivity. Qed.

Lemma ptok_id n : 0 < n < 2 ^ 64 -> ptok (or_unexpected (positive_int fuel)) (decimal_N n) n.
Proof.
  intros Hn c v s tail Hat Hs Hsep.
  exact (required_id_hit n c v s tail Hat Hs (sep_stops _ _ is_dig_32 is_dig_10 Hsep) Hn).
Qed.

Lemma ptok_nonneg n : n < 2 ^ 64 -> ptok (required_nonnegative_int fuel) (decimal_N n) n.
Proof.
  intros Hn c v s tail Hat Hs Hsep.
  exact (nonnegative_int_hit n c v s tail Hat Hs (sep_stops _ _ is_dig_32 is_dig_10 Hsep) Hn).
Qed.

Lemma ptok_keyword {A} (tbl : list (bytes * A)) t nm :
  forallb is_lower nm = true -> nm <> [] -> lookup nm tbl = Some t ->
  ptok (or_unexpected (keyword fuel tbl)) nm t.
Proof.
  intros Hl Hlen Hlk c v s tail Hat Hs Hsep.
  destruct (keyword_hit tbl t nm c v s tail Hat Hs Hl (sep_stops is_lower _ eq_refl eq_refl Hsep) Hlen Hlk) as (v' & R & A').
  exists v'. split; [apply runs_or_unexpected; exact R|exact A'].
Qed.

(* ---------- constants ---------- *)
Lemma rest_takep_fuel p v off : at_ S (vcur v) v -> (length (takep p (rest_at v off)) < fuel)%nat.
Proof.
  intros (HS & _ & _). pose proof (takep_le p (rest_at v off)) as H.
  assert (H2 : (length (rest_at v off) <= length S)%nat) by (unfold rest_at, nskipn; rewrite skipn_length, HS; lia).
  lia.
Qed.

Lemma ptok_scan p cs :
  p 32 = false -> p 10 = false -> cs <> [] -> forallb p cs = true ->
  ptok (required_constant (take_while fuel p 0 [])) cs cs.
Proof.
  intros H32 H10 Hne Hp c v s tail Hat Hs Hsep. pose proof Hat as (HS & Hc & Hwf).
  assert (Hatc : at_ S (vcur v) v) by (rewrite Hc; exact Hat).
  destruct (take_while_spec fuel p 0 [] v Hwf (rest_takep_fuel p v 0 Hatc)) as (v1 & Hrun & h1 & h2 & h3 & h4 & h5).
  assert (Hrest : rest_at v 0 = cs ++ tail) by (rewrite (at_rest _ _ _ 0 Hat), N.add_0_r; exact Hs).
  assert (Htk : takep p (rest_at v 0) = cs) by (rewrite Hrest; apply takep_app; [exact Hp|exact (sep_stops p _ H32 H10 Hsep)]).
  rewrite Htk in Hrun, h5.
  cbn [rev app] in Hrun. rewrite N.add_0_l in Hrun. specialize (h5 Hne).
  assert (Hnl : nlen cs <> 0) by (unfold nlen; destruct cs; [congruence|cbn [length]; lia]).
  assert (Hat1 : at_ S c v1) by (repeat split; [rewrite h1; exact HS|rewrite h2; exact Hc|exact h3]).
  exists (v_advance v1 (nlen cs)). split; [|apply at_advance; exact Hat1].
  unfold required_constant. eapply runs_pbnd; [apply runs_lift; exact Hrun|]. cbv beta iota.
  match goal with |- context [if ?b then _ else _] => assert (b = false) as -> by (apply N.eqb_neq; exact Hnl) end.
  eapply runs_pbnd; [apply runs_padvance|apply runs_pret]. rewrite h2. lia.
Qed.

Lemma ptok_binary cs : cs <> [] -> forallb is_bin_digit cs = true -> ptok (required_binary_constant fuel) cs cs.
Proof. intros Hne Hp. apply ptok_scan; auto. Qed.
Lemma ptok_hex cs : cs <> [] -> forallb is_hex_digit cs = true -> ptok (required_hex_constant fuel) cs cs.
Proof. intros Hne Hp. apply ptok_scan; auto. Qed.

(* a decimal constant: an optional '-' and digits, not empty (the scanner, like the validating
   constructor, also accepts a lone '-') *)
Definition dec_const_ok (cs : bytes) : Prop :=
  match cs with
  | [] => False
  | c :: ds => if c =? 45 then forallb is_dig ds = true else forallb is_dig (c :: ds) = true
  end.

Lemma ptok_decimal cs : dec_const_ok cs -> ptok (required_decimal_constant fuel) cs cs.
Proof.
  intros Hok c v s tail Hat Hs Hsep. pose proof Hat as (HS & Hc & Hwf).
  destruct cs as [|x ds]; [contradiction|]. cbn [dec_const_ok] in Hok.
  assert (Hp0 : vpeek v 0 = Some x).
  { rewrite (at_peek _ _ _ 0 Hat), N.add_0_r. apply (nskipn_head _ _ _ (ds ++ tail)). exact Hs. }
  pose proof (at_after_peek _ _ _ 0 Hat) as Hat0. pose proof Hat0 as (HS0 & Hc0 & Hwf0).
  assert (Hatc : at_ S (vcur (after_peek v 0)) (after_peek v 0)) by (rewrite Hc0; exact Hat0).
  pose proof (hwm_after_peek_some v 0 x Hp0) as Hh0.
  destruct (x =? 45) eqn:Hx.
  - apply N.eqb_eq in Hx. subst x.
    destruct (take_while_spec fuel is_dig 1 [45] (after_peek v 0) Hwf0 (rest_takep_fuel is_dig _ 1 Hatc))
      as (v1 & Hrun & h1 & h2 & h3 & h4 & h5).
    assert (Hrest : rest_at (after_peek v 0) 1 = ds ++ tail).
    { rewrite (at_rest _ _ _ 1 Hat0). change ((45 :: ds) ++ tail) with ([45] ++ (ds ++ tail)) in Hs.
      exact (nskipn_app_next _ _ [45] _ Hs). }
    assert (Htk : takep is_dig (rest_at (after_peek v 0) 1) = ds)
      by (rewrite Hrest; apply takep_app; [exact Hok|exact (sep_stops _ _ is_dig_32 is_dig_10 Hsep)]).
    rewrite Htk in Hrun, h5.
    cbn [rev app] in Hrun.
    assert (Hat1 : at_ S c v1) by (repeat split; [rewrite h1; exact HS0|rewrite h2; exact Hc0|exact h3]).
    exists (v_advance v1 (nlen (45 :: ds))). split; [|apply at_advance; exact Hat1].
    unfold required_decimal_constant, required_constant. eapply runs_pbnd.
    + apply runs_lift. unfold decimal_string. cbn [srun]. rewrite Hp0. change (45 =? 45) with true. cbv iota. exact Hrun.
    + cbv beta iota. rewrite nlen_cons.
      match goal with |- context [if ?b then _ else _] => assert (b = false) as -> by (apply N.eqb_neq; lia) end.
      eapply runs_pbnd; [apply runs_padvance|apply runs_pret]. rewrite h2.
      change (vcur (after_peek v 0)) with (vcur v) in *.
      destruct ds as [|d ds']; [change (nlen (@nil byte)) with 0; lia|]. specialize (h5 ltac:(congruence)). lia.
  - destruct (take_while_spec fuel is_dig 0 [] (after_peek v 0) Hwf0 (rest_takep_fuel is_dig _ 0 Hatc))
      as (v1 & Hrun & h1 & h2 & h3 & h4 & h5).
    assert (Hrest : rest_at (after_peek v 0) 0 = (x :: ds) ++ tail) by (rewrite (at_rest _ _ _ 0 Hat0), N.add_0_r; exact Hs).
    assert (Htk : takep is_dig (rest_at (after_peek v 0) 0) = x :: ds)
      by (rewrite Hrest; apply takep_app; [exact Hok|exact (sep_stops _ _ is_dig_32 is_dig_10 Hsep)]).
    rewrite Htk in Hrun, h5.
    cbn [rev app] in Hrun. rewrite N.add_0_l in Hrun. specialize (h5 ltac:(congruence)).
    assert (Hat1 : at_ S c v1) by (repeat split; [rewrite h1; exact HS0|rewrite h2; exact Hc0|exact h3]).
    exists (v_advance v1 (nlen (x :: ds))). split; [|apply at_advance; exact Hat1].
    unfold required_decimal_constant, required_constant. eapply runs_pbnd.
    + apply runs_lift. unfold decimal_string. cbn [srun]. rewrite Hp0, Hx. exact Hrun.
    + cbv beta iota. pose proof (nlen_cons x ds) as Hnc.
      match goal with |- context [if ?b then _ else _] => assert (b = false) as -> by (apply N.eqb_neq; unfold bytes, byte in *; lia) end.
      eapply runs_pbnd; [apply runs_padvance|apply runs_pret]. rewrite h2.
      change (vcur (after_peek v 0)) with (vcur v) in *. lia.
Qed.


Lemma ptok_ext {A} (m : PM (result A perr)) text text' (a : A) : ptok m text a -> text = text' -> ptok m text' a.
Proof. intros H <-. exact H. Qed.

(* ---------- value lines ---------- *)
Definition idok (n : N) : Prop := 0 < n < 2 ^ 64.
Definition u64ok (n : N) : Prop := n < 2 ^ 64.

Definition const_ok (c : const) : Prop :=
  match c with
  | CBinary cs => cs <> [] /\ forallb is_bin_digit cs = true
  | CHex cs => cs <> [] /\ forallb is_hex_digit cs = true
  | CDecimal cs => dec_const_ok cs
  | _ => True
  end.
Definition unop_ok (o : unop) : Prop :=
  match o with
  | UoUext w | UoSext w => u64ok w
  | UoSlice u l => u64ok u /\ u64ok l
  | _ => True
  end.
Definition op_ok (o : op) : Prop :=
  match o with
  | OUnary u a0 => unop_ok u /\ idok a0
  | OBinary _ a0 a1 => idok a0 /\ idok a1
  | OTernary _ a0 a1 a2 => idok a0 /\ idok a1 /\ idok a2
  end.
Definition vv_ok (vv : valvariant) : Prop :=
  match vv with VConst c => const_ok c | VOp o => op_ok o | _ => True end.

Definition unop_tok (o : unop) : vtok :=
  match o with
  | UoUext _ => VtExt XtUext | UoSext _ => VtExt XtSext | UoSlice _ _ => VtSlice
  | UoNot => VtUnary UtNot | UoInc => VtUnary UtInc | UoDec => VtUnary UtDec | UoNeg => VtUnary UtNeg
  | UoRedand => VtUnary UtRedand | UoRedor => VtUnary UtRedor | UoRedxor => VtUnary UtRedxor
  end.
Definition vtok_of (vv : valvariant) : vtok :=
  match vv with
  | VConst (CBinary _) => VtConst | VConst (CDecimal _) => VtConstd | VConst (CHex _) => VtConsth
  | VConst COne => VtOne | VConst COnes => VtOnes | VConst CZero => VtZero
  | VInput => VtInput | VState => VtState
  | VOp (OUnary o _) => unop_tok o
  | VOp (OBinary b _ _) => VtBinary b
  | VOp (OTernary t _ _ _) => VtTernary t
  end.
(* the keyword of a value line (the writer's fixed texts end with the space that follows it) *)
Definition vkw (vv : valvariant) : bytes :=
  match vv with
  | VConst (CBinary _) => removelast w_const | VConst (CDecimal _) => removelast w_constd
  | VConst (CHex _) => removelast w_consth
  | VConst COne => removelast w_one | VConst COnes => removelast w_ones | VConst CZero => removelast w_zero
  | VInput => removelast w_input | VState => removelast w_state
  | VOp (OUnary o _) => unop_kw o
  | VOp (OBinary b _ _) => binop_kw b
  | VOp (OTernary t _ _ _) => ternop_kw t
  end.
(* what follows the sort id *)
Definition vargs (vv : valvariant) : bytes :=
  match vv with
  | VConst (CBinary cs) | VConst (CDecimal cs) | VConst (CHex cs) => 32 :: cs
  | VConst _ | VInput | VState => []
  | VOp (OUnary o a0) => 32 :: decimal_N a0 ++ write_indices o
  | VOp (OBinary _ a0 a1) => 32 :: decimal_N a0 ++ 32 :: decimal_N a1
  | VOp (OTernary _ a0 a1 a2) => 32 :: decimal_N a0 ++ 32 :: decimal_N a1 ++ 32 :: decimal_N a2
  end.

Lemma write_value_shape vsort vv :
  write_value vsort vv = vkw vv ++ 32 :: decimal_N vsort ++ vargs vv.
Proof.
  destruct vv as [[cs|cs|cs| | |]| | |[o a0|o a0 a1|o a0 a1 a2]]; cbn [write_value vkw vargs]; unfold wr_id;
    rewrite ?app_nil_r; reflexivity.
Qed.

Lemma vkw_lookup vv : lookup (vkw vv) node_keywords_b = Some (NtValue (vtok_of vv)).
Proof.
  destruct vv as [[cs|cs|cs| | |]| | |[o a0|o a0 a1|o a0 a1 a2]]; try reflexivity; destruct o; reflexivity.
Qed.

Lemma vkw_lower vv : forallb is_lower (vkw vv) = true /\ vkw vv <> [].
Proof.
  destruct vv as [[cs|cs|cs| | |]| | |[o a0|o a0 a1|o a0 a1 a2]]; try (split; [reflexivity|discriminate]);
    destruct o; (split; [reflexivity|discriminate]).
Qed.

Lemma seps_nil : seps []. Proof. exact I. Qed.
Lemma seps_32 r : seps (32 :: r). Proof. left. reflexivity. Qed.

Lemma value_body_ptok vv : vv_ok vv -> ptok (value_body fuel (vtok_of vv)) (vargs vv) vv.
Proof.
  destruct vv as [[cs|cs|cs| | |]| | |[o a0|o a0 a1|o a0 a1 a2]]; cbn [vv_ok const_ok op_ok vtok_of vargs value_body]; intros Hok;
    try apply ptok_ret.
  - destruct Hok as [Hne Hp]. eapply ptok_ext; [eapply ptok_space_bind; [exact (ptok_binary cs Hne Hp)|apply seps_nil|apply ptok_ret]|].
    rewrite app_nil_r. reflexivity.
  - eapply ptok_ext; [eapply ptok_space_bind; [exact (ptok_decimal cs Hok)|apply seps_nil|apply ptok_ret]|].
    rewrite app_nil_r. reflexivity.
  - destruct Hok as [Hne Hp]. eapply ptok_ext; [eapply ptok_space_bind; [exact (ptok_hex cs Hne Hp)|apply seps_nil|apply ptok_ret]|].
    rewrite app_nil_r. reflexivity.
  - destruct Hok as [Hu Ha0].
    destruct o as [w|w|u l| | | | | | |]; cbn [unop_tok unop_ok write_indices value_body ext_unary_op tok_unary_op] in *.
    + eapply ptok_ext; [eapply ptok_space_bind; [exact (ptok_id a0 Ha0)|apply seps_32|
        eapply ptok_space_bind; [exact (ptok_nonneg w Hu)|apply seps_nil|apply (ptok_ret (VOp (OUnary (UoUext w) a0)))]]|].
      rewrite app_nil_r. reflexivity.
    + eapply ptok_ext; [eapply ptok_space_bind; [exact (ptok_id a0 Ha0)|apply seps_32|
        eapply ptok_space_bind; [exact (ptok_nonneg w Hu)|apply seps_nil|apply (ptok_ret (VOp (OUnary (UoSext w) a0)))]]|].
      rewrite app_nil_r. reflexivity.
    + destruct Hu as [Hu Hl].
      eapply ptok_ext; [eapply ptok_space_bind; [exact (ptok_id a0 Ha0)|apply seps_32|
        eapply ptok_space_bind; [exact (ptok_nonneg u Hu)|apply seps_32|
          eapply ptok_space_bind; [exact (ptok_nonneg l Hl)|apply seps_nil|apply (ptok_ret (VOp (OUnary (UoSlice u l) a0)))]]]|].
      rewrite app_nil_r. reflexivity.
    + eapply ptok_ext; [eapply ptok_space_bind; [exact (ptok_id a0 Ha0)|apply seps_nil|apply (ptok_ret (VOp (OUnary UoNot a0)))]|]. reflexivity.
    + eapply ptok_ext; [eapply ptok_space_bind; [exact (ptok_id a0 Ha0)|apply seps_nil|apply (ptok_ret (VOp (OUnary UoInc a0)))]|]. reflexivity.
    + eapply ptok_ext; [eapply ptok_space_bind; [exact (ptok_id a0 Ha0)|apply seps_nil|apply (ptok_ret (VOp (OUnary UoDec a0)))]|]. reflexivity.
    + eapply ptok_ext; [eapply ptok_space_bind; [exact (ptok_id a0 Ha0)|apply seps_nil|apply (ptok_ret (VOp (OUnary UoNeg a0)))]|]. reflexivity.
    + eapply ptok_ext; [eapply ptok_space_bind; [exact (ptok_id a0 Ha0)|apply seps_nil|apply (ptok_ret (VOp (OUnary UoRedand a0)))]|]. reflexivity.
    + eapply ptok_ext; [eapply ptok_space_bind; [exact (ptok_id a0 Ha0)|apply seps_nil|apply (ptok_ret (VOp (OUnary UoRedor a0)))]|]. reflexivity.
    + eapply ptok_ext; [eapply ptok_space_bind; [exact (ptok_id a0 Ha0)|apply seps_nil|apply (ptok_ret (VOp (OUnary UoRedxor a0)))]|]. reflexivity.
  - destruct Hok as [Ha0 Ha1].
    eapply ptok_ext; [eapply ptok_space_bind; [exact (ptok_id a0 Ha0)|apply seps_32|
      eapply ptok_space_bind; [exact (ptok_id a1 Ha1)|apply seps_nil|apply (ptok_ret (VOp (OBinary o a0 a1)))]]|].
    rewrite app_nil_r. reflexivity.
  - destruct Hok as (Ha0 & Ha1 & Ha2).
    eapply ptok_ext; [eapply ptok_space_bind; [exact (ptok_id a0 Ha0)|apply seps_32|
      eapply ptok_space_bind; [exact (ptok_id a1 Ha1)|apply seps_32|
        eapply ptok_space_bind; [exact (ptok_id a2 Ha2)|apply seps_nil|apply (ptok_ret (VOp (OTernary o a0 a1 a2)))]]]|].
    rewrite app_nil_r. reflexivity.
Qed.


(* ---------- node lines ---------- *)
Definition nv_ok (nv : nodevariant) : Prop :=
  match nv with
  | NSort (SBitVec w) => idok w
  | NSort (SArray d c) => idok d /\ idok c
  | NValue vsort vv => idok vsort /\ vv_ok vv
  | NAssign state asort _ value => idok state /\ idok asort /\ idok value
  | NOutput _ value => idok value
  | NJustice nodes => idok (nlen nodes) /\ Forall idok nodes
  end.

Definition ntok_of (nv : nodevariant) : ntok :=
  match nv with
  | NSort _ => NtSort
  | NValue _ vv => NtValue (vtok_of vv)
  | NAssign _ _ k _ => NtAssign k
  | NOutput k _ => NtOutput k
  | NJustice _ => NtJustice
  end.

Definition kw_sort : bytes := Eval vm_compute in removelast (firstn 5 w_sort_bitvec).
Definition kw_bitvec : bytes := Eval vm_compute in removelast (skipn 5 w_sort_bitvec).
Definition kw_array : bytes := Eval vm_compute in removelast (skipn 5 w_sort_array).

Definition nkw (nv : nodevariant) : bytes :=
  match nv with
  | NSort _ => kw_sort
  | NValue _ vv => vkw vv
  | NAssign _ _ AkInit _ => removelast w_init
  | NAssign _ _ AkNext _ => removelast w_next
  | NOutput OvOutput _ => removelast w_output
  | NOutput OvBad _ => removelast w_bad
  | NOutput OvConstraint _ => removelast w_constraint
  | NOutput OvFair _ => removelast w_fair
  | NJustice _ => removelast w_justice
  end.

Definition ids_text (nodes : list N) : bytes := flat_map (fun nd => 32 :: decimal_N nd) nodes.

Definition nargs (nv : nodevariant) : bytes :=
  match nv with
  | NSort (SBitVec w) => 32 :: kw_bitvec ++ 32 :: decimal_N w
  | NSort (SArray d c) => 32 :: kw_array ++ 32 :: decimal_N d ++ 32 :: decimal_N c
  | NValue vsort vv => 32 :: decimal_N vsort ++ vargs vv
  | NAssign state asort _ value => 32 :: decimal_N asort ++ 32 :: decimal_N state ++ 32 :: decimal_N value
  | NOutput _ value => 32 :: decimal_N value
  | NJustice nodes => 32 :: decimal_N (nlen nodes) ++ ids_text nodes
  end.

Lemma write_variant_shape nv : write_variant nv = nkw nv ++ nargs nv.
Proof.
  destruct nv as [[w|d c]|vsort vv|state asort k value|k value|nodes]; cbn [write_variant write_sort nkw nargs]; unfold wr_id.
  - reflexivity.
  - reflexivity.
  - rewrite write_value_shape. reflexivity.
  - destruct k; reflexivity.
  - destruct k; reflexivity.
  - reflexivity.
Qed.

Lemma nkw_lookup nv : lookup (nkw nv) node_keywords_b = Some (ntok_of nv).
Proof.
  destruct nv as [[w|d c]|vsort vv|state asort k value|k value|nodes]; cbn [nkw ntok_of];
    try reflexivity; try (destruct k; reflexivity). apply vkw_lookup.
Qed.

Lemma nkw_lower nv : forallb is_lower (nkw nv) = true /\ nkw nv <> [].
Proof.
  destruct nv as [[w|d c]|vsort vv|state asort k value|k value|nodes]; cbn [nkw].
  - split; [reflexivity|discriminate].
  - split; [reflexivity|discriminate].
  - apply vkw_lower.
  - destruct k; (split; [reflexivity|discriminate]).
  - destruct k; (split; [reflexivity|discriminate]).
  - split; [reflexivity|discriminate].
Qed.

Lemma seps_ids nodes : seps (ids_text nodes).
Proof. destruct nodes; [exact I|left; reflexivity]. Qed.

Lemma justice_loop_ptok : forall nodes n acc,
  Forall idok nodes -> (length nodes <= n)%nat ->
  ptok (justice_loop fuel n (nlen nodes) acc) (ids_text nodes) (rev acc ++ nodes).
Proof.
  induction nodes as [|x r IH]; intros n acc Hok Hn.
  - rewrite app_nil_r. change (ids_text []) with (@nil byte).
    destruct n; cbn [justice_loop]; change (nlen (@nil N) =? 0) with true; cbv iota; apply ptok_ret.
  - destruct n as [|n]; [cbn [length] in Hn; lia|]. inversion Hok as [|? ? Hx Hr]; subst.
    replace (rev acc ++ x :: r) with (rev (x :: acc) ++ r) by (cbn [rev]; rewrite <- app_assoc; reflexivity).
    cbn [justice_loop]. rewrite nlen_cons.
    assert ((1 + nlen r =? 0) = false) as -> by (apply N.eqb_neq; lia).
    replace (1 + nlen r - 1) with (nlen r) by lia.
    cbn [ids_text flat_map]. fold (ids_text r).
    change ((32 :: decimal_N x) ++ ids_text r) with (32 :: decimal_N x ++ ids_text r).
    eapply ptok_space_bind; [exact (ptok_id x Hx)|apply seps_ids|].
    apply (IH n (x :: acc) Hr). cbn [length] in Hn. lia.
Qed.

Lemma ids_text_len nodes : (2 * length nodes <= length (ids_text nodes))%nat.
Proof.
  induction nodes as [|x r IH]; cbn [ids_text flat_map length]; [lia|]. fold (ids_text r).
  rewrite app_length. pose proof (decimal_N_nonempty x). destruct (decimal_N x); [congruence|cbn [length]; unfold bytes, byte in *; lia].
Qed.

Lemma node_body_ptok nv : nv_ok nv -> ptok (node_body fuel (ntok_of nv)) (nargs nv) nv.
Proof.
  destruct nv as [[w|d c]|vsort vv|state asort k value|k value|nodes]; cbn [nv_ok ntok_of nargs node_body]; intros Hok.
  - eapply ptok_ext; [eapply ptok_space_bind;
      [exact (ptok_keyword sort_keywords_b StBitvec kw_bitvec eq_refl ltac:(discriminate) eq_refl)|apply seps_32|]|reflexivity].
    cbv beta iota.
    eapply ptok_ext; [eapply ptok_space_bind; [exact (ptok_id w Hok)|apply seps_nil|apply (ptok_ret (NSort (SBitVec w)))]|].
    rewrite app_nil_r. reflexivity.
  - destruct Hok as [Hd Hc].
    eapply ptok_ext; [eapply ptok_space_bind;
      [exact (ptok_keyword sort_keywords_b StArray kw_array eq_refl ltac:(discriminate) eq_refl)|apply seps_32|]|reflexivity].
    cbv beta iota.
    eapply ptok_ext; [eapply ptok_space_bind; [exact (ptok_id d Hd)|apply seps_32|
      eapply ptok_space_bind; [exact (ptok_id c Hc)|apply seps_nil|apply (ptok_ret (NSort (SArray d c)))]]|].
    rewrite app_nil_r. reflexivity.
  - destruct Hok as [Hs Hv].
    eapply ptok_ext; [eapply ptok_space_bind; [exact (ptok_id vsort Hs)| |]|reflexivity].
    + destruct vv as [[cs|cs|cs| | |]| | |[o a0|o a0 a1|o a0 a1 a2]]; cbn [vargs]; first [apply seps_nil|apply seps_32].
    + eapply ptok_ext; [eapply ptok_bind; [exact (value_body_ptok vv Hv)|apply seps_nil|apply (ptok_ret (NValue vsort vv))]|].
      apply app_nil_r.
  - destruct Hok as (Hst & Hso & Hva).
    eapply ptok_ext; [eapply ptok_space_bind; [exact (ptok_id asort Hso)|apply seps_32|
      eapply ptok_space_bind; [exact (ptok_id state Hst)|apply seps_32|
        eapply ptok_space_bind; [exact (ptok_id value Hva)|apply seps_nil|apply (ptok_ret (NAssign state asort k value))]]]|].
    rewrite app_nil_r. reflexivity.
  - eapply ptok_ext; [eapply ptok_space_bind; [exact (ptok_id value Hok)|apply seps_nil|apply (ptok_ret (NOutput k value))]|].
    rewrite app_nil_r. reflexivity.
  - destruct Hok as [Hcnt Hn].
    intros c v s tail Hat Hs Hsep.
    assert (Hfu : (length nodes <= fuel)%nat).
    { assert (length (nskipn c S) <= length S)%nat by (unfold nskipn; rewrite skipn_length; lia).
      rewrite Hs in H. cbn [app length] in H. rewrite !app_length in H. pose proof (ids_text_len nodes). unfold bytes, byte in *. lia. }
    revert c v s tail Hat Hs Hsep. change (ptok (node_body fuel NtJustice) (32 :: decimal_N (nlen nodes) ++ ids_text nodes) (NJustice nodes)).
    cbn [node_body].
    eapply ptok_ext; [eapply ptok_space_bind; [exact (ptok_id (nlen nodes) Hcnt)|apply seps_ids|]|reflexivity].
    eapply ptok_ext; [eapply ptok_bind; [exact (justice_loop_ptok nodes fuel [] Hn Hfu)|apply seps_nil|apply (ptok_ret (NJustice nodes))]|].
    apply app_nil_r.
Qed.


(* ---------- symbols, comments, the end of a node line ---------- *)
Definition symch (b : byte) : bool := negb ((b =? 10) || (b =? 32)).
Definition cmtch (b : byte) : bool := negb (b =? 10).

Definition sym_ok (sy : bytes) : Prop := sy <> [] /\ forallb symch sy = true /\ hd 0 sy <> 59.
Definition cmt_ok (cm : bytes) : Prop := forallb cmtch cm = true.

Lemma symbol_name_hit sy c v s t rest :
  at_ S c v -> nskipn c S = sy ++ t :: rest -> sy <> [] -> forallb symch sy = true -> symch t = false ->
  exists v', runs (symbol_name fuel) s v (Res (Ok sy)) s v' /\ at_ S (c + nlen sy) v'.
Proof.
  intros Hat Hs Hne Hp Ht. pose proof Hat as (HS & Hc & Hwf).
  assert (Hatc : at_ S (vcur v) v) by (rewrite Hc; exact Hat).
  destruct (take_while_spec fuel symch 0 [] v Hwf (rest_takep_fuel symch v 0 Hatc)) as (v1 & Hrun & h1 & h2 & h3 & h4 & h5).
  assert (Hrest : rest_at v 0 = sy ++ t :: rest) by (rewrite (at_rest _ _ _ 0 Hat), N.add_0_r; exact Hs).
  assert (Htk : takep symch (rest_at v 0) = sy) by (rewrite Hrest; apply takep_app; [exact Hp|exact Ht]).
  rewrite Htk in Hrun, h5. cbn [rev app] in Hrun. rewrite N.add_0_l in Hrun. specialize (h5 Hne).
  assert (Hnl : nlen sy <> 0) by (unfold nlen; destruct sy; [congruence|cbn [length]; lia]).
  assert (Hat1 : at_ S c v1) by (repeat split; [rewrite h1; exact HS|rewrite h2; exact Hc|exact h3]).
  exists (v_advance v1 (nlen sy)). split; [|apply at_advance; exact Hat1].
  unfold symbol_name. eapply runs_pbnd; [apply runs_lift; exact Hrun|]. cbv beta iota.
  match goal with |- context [if ?b then _ else _] => assert (b = false) as -> by (apply N.eqb_neq; exact Hnl) end.
  eapply runs_pbnd; [apply runs_padvance|apply runs_pret]. rewrite h2. lia.
Qed.

Lemma comment_body_hit cm c v s rest :
  at_ S c v -> nskipn c S = cm ++ 10 :: rest -> cmt_ok cm ->
  exists v', runs (comment_body fuel) s v (Ok cm) s v' /\ at_ S (c + nlen cm) v'.
Proof.
  intros Hat Hs Hp. pose proof Hat as (HS & Hc & Hwf).
  assert (Hatc : at_ S (vcur v) v) by (rewrite Hc; exact Hat).
  destruct (take_while_spec fuel cmtch 0 [] v Hwf (rest_takep_fuel cmtch v 0 Hatc)) as (v1 & Hrun & h1 & h2 & h3 & h4 & h5).
  assert (Hrest : rest_at v 0 = cm ++ 10 :: rest) by (rewrite (at_rest _ _ _ 0 Hat), N.add_0_r; exact Hs).
  assert (Htk : takep cmtch (rest_at v 0) = cm) by (rewrite Hrest; apply takep_app; [exact Hp|reflexivity]).
  rewrite Htk in Hrun. cbn [rev app] in Hrun. rewrite N.add_0_l in Hrun.
  assert (Hat1 : at_ S c v1) by (repeat split; [rewrite h1; exact HS|rewrite h2; exact Hc|exact h3]).
  assert (Hpk : vpeek v1 (nlen cm) = Some 10).
  { rewrite (at_peek _ _ _ _ Hat1). apply (nskipn_head _ _ _ rest). apply (nskipn_app_next _ _ cm). exact Hs. }
  pose proof (hwm_after_peek_some v1 (nlen cm) 10 Hpk) as Hh.
  exists (v_advance (after_peek v1 (nlen cm)) (nlen cm)). split; [|apply at_advance, at_after_peek; exact Hat1].
  unfold comment_body. eapply runs_pbnd; [apply runs_lift; exact Hrun|]. cbv beta iota.
  eapply runs_pbnd; [apply runs_ppeek|].
  match goal with |- context [vpeek v1 ?k] => change (vpeek v1 k) with (vpeek v1 (nlen cm)) end. rewrite Hpk.
  eapply runs_pbnd; [apply runs_pret|]. cbv beta iota.
  eapply runs_pbnd; [apply runs_padvance|apply runs_pret].
  cbn [after_peek vcur vhwm] in *. unfold bytes, byte in *. lia.
Qed.

(* what node_trailer consumes, given the symbol and whether a comment follows *)
Definition trailer_text (sym : option bytes) (cmt : bool) : bytes :=
  (match sym with Some sy => 32 :: sy | None => [] end) ++ (if cmt then [32; 59] else [10]).

Lemma node_trailer_hit sym cmt c v s tail :
  at_ S c v -> nskipn c S = trailer_text sym cmt ++ tail ->
  match sym with Some sy => sym_ok sy | None => True end ->
  exists s' v', runs (node_trailer fuel) s v (Ok (sym, cmt)) s' v' /\ at_ S (c + nlen (trailer_text sym cmt)) v'.
Proof.
  intros Hat Hs Hsy. unfold node_trailer, space_tok, comment_start.
  destruct sym as [sy|]; destruct cmt; cbn [trailer_text app] in *; rewrite <- ?app_assoc in Hs; cbn [app] in Hs.
  - (* " sym ;" *)
    destruct Hsy as (Hne & Hch & Hhd).
    destruct (one_byte_hit 32 c v s _ Hat Hs) as (v1 & R1 & A1).
    assert (Hs1 : nskipn (c + 1) S = sy ++ 32 :: 59 :: tail).
    { exact (nskipn_app_next _ _ [32] _ Hs). }
    destruct (one_byte_miss 59 (c + 1) v1 s A1) as (v2 & R2 & A2).
    { rewrite Hs1. destruct sy as [|x r]; [congruence|exact Hhd]. }
    destruct (symbol_name_hit sy (c + 1) v2 s 32 (59 :: tail) A2 Hs1 Hne Hch eq_refl) as (v3 & R3 & A3).
    pose proof (nskipn_app_next _ _ _ _ Hs1) as Hs3.
    destruct (one_byte_hit 32 _ v3 s _ A3 Hs3) as (v4 & R4 & A4).
    assert (Hs4 : nskipn (c + 1 + nlen sy + 1) S = 59 :: tail) by exact (nskipn_app_next _ _ [32] _ Hs3).
    destruct (one_byte_hit 59 _ v4 s _ A4 Hs4) as (v5 & R5 & A5).
    exists s, v5. split.
    + eapply runs_pbnd; [exact R1|]. cbv beta iota. eapply runs_pbnd; [exact R2|]. cbv beta iota.
      eapply runs_pbnd; [exact R3|]. cbv beta iota. eapply runs_pbnd; [exact R4|]. cbv beta iota.
      eapply runs_rbnd; [apply runs_or_unexpected; exact R5|apply runs_pret].
    + rewrite nlen_cons, nlen_app. change (nlen [32; 59]) with 2.
      replace (c + (1 + (nlen sy + 2))) with (c + 1 + nlen sy + 1 + 1) by lia. exact A5.
  - (* " sym\n" *)
    destruct Hsy as (Hne & Hch & Hhd).
    destruct (one_byte_hit 32 c v s _ Hat Hs) as (v1 & R1 & A1).
    assert (Hs1 : nskipn (c + 1) S = sy ++ 10 :: tail).
    { exact (nskipn_app_next _ _ [32] _ Hs). }
    destruct (one_byte_miss 59 (c + 1) v1 s A1) as (v2 & R2 & A2).
    { rewrite Hs1. destruct sy as [|x r]; [congruence|exact Hhd]. }
    destruct (symbol_name_hit sy (c + 1) v2 s 10 tail A2 Hs1 Hne Hch eq_refl) as (v3 & R3 & A3).
    pose proof (nskipn_app_next _ _ _ _ Hs1) as Hs3.
    destruct (one_byte_miss 32 _ v3 s A3) as (v4 & R4 & A4); [rewrite Hs3; discriminate|].
    destruct (newline_tok_hit _ v4 s tail A4 Hs3) as (s' & v5 & R5 & A5).
    exists s', v5. split.
    + eapply runs_pbnd; [exact R1|]. cbv beta iota. eapply runs_pbnd; [exact R2|]. cbv beta iota.
      eapply runs_pbnd; [exact R3|]. cbv beta iota. eapply runs_pbnd; [exact R4|]. cbv beta iota.
      eapply runs_pbnd; [exact R5|]. cbv beta iota. apply runs_pret.
    + rewrite nlen_cons, nlen_app. change (nlen [10]) with 1.
      replace (c + (1 + (nlen sy + 1))) with (c + 1 + nlen sy + 1) by lia. exact A5.
  - (* " ;" *)
    destruct (one_byte_hit 32 c v s _ Hat Hs) as (v1 & R1 & A1).
    assert (Hs1 : nskipn (c + 1) S = 59 :: tail) by exact (nskipn_app_next _ _ [32] _ Hs).
    destruct (one_byte_hit 59 _ v1 s _ A1 Hs1) as (v2 & R2 & A2).
    exists s, v2. split.
    + eapply runs_pbnd; [exact R1|]. cbv beta iota. eapply runs_pbnd; [exact R2|]. cbv beta iota. apply runs_pret.
    + change (nlen [32; 59]) with 2. replace (c + 2) with (c + 1 + 1) by lia. exact A2.
  - (* "\n" *)
    destruct (one_byte_miss 32 c v s Hat) as (v1 & R1 & A1); [rewrite Hs; discriminate|].
    destruct (newline_tok_hit c v1 s tail A1 Hs) as (s' & v2 & R2 & A2).
    exists s', v2. split; [|exact A2].
    eapply runs_pbnd; [exact R1|]. cbv beta iota. eapply runs_pbnd; [exact R2|]. cbv beta iota. apply runs_pret.
Qed.

(* ---------- the start of a line ---------- *)
(* what the previous call of next_line left in front of the line: nothing, or the line feed after a comment *)
Definition lead_ok (lead : bytes) : Prop := lead = [] \/ lead = [10].

Lemma skip_ws_hit lead c v s tail :
  at_ S c v -> vcur v <= vhwm v -> lead_ok lead -> nskipn c S = lead ++ tail ->
  match tail with x :: _ => x <> 32 /\ x <> 10 | [] => True end ->
  exists s' v', runs (skip_ws fuel) s v tt s' v' /\ at_ S (c + nlen lead) v'.
Proof.
  intros Hat Hle Hl Hs Ht. pose proof Hat as (HS & Hc & Hwf).
  assert (Hpt : forall k w, at_ S c w -> nskipn (c + k) S = tail ->
                exists b, vpeek w k = b /\ (match b with Some x => x <> 32 /\ x <> 10 | None => True end) /\
                          (b <> None -> c + k + 1 <= vhwm (after_peek w k))).
  { intros k w Hw Hk. exists (vpeek w k). split; [reflexivity|]. rewrite (at_peek _ _ _ k Hw).
    destruct tail as [|x r].
    - rewrite (nskipn_nil_nnth _ _ Hk). split; [exact I|congruence].
    - rewrite (nskipn_head _ _ _ _ Hk). split; [exact Ht|]. intros _.
      assert (Hp : vpeek w k = Some x) by (rewrite (at_peek _ _ _ k Hw); apply (nskipn_head _ _ _ _ Hk)).
      pose proof (hwm_after_peek_some w k x Hp). destruct Hw as (_ & Hcw & _). lia. }
  destruct Hl as [-> | ->]; cbn [app] in Hs.
  - destruct fuel as [|f] eqn:Ef; [lia|].
    destruct (Hpt 0 v Hat ltac:(rewrite N.add_0_r; exact Hs)) as (b & Hb & Hnb & Hhb).
    exists s, (v_advance (after_peek v 0) 0). split; [|apply at_advance, at_after_peek; exact Hat].
    unfold skip_ws. eapply runs_pbnd.
    + cbn [skip_ws_loop]. eapply runs_pbnd; [apply runs_ppeek|]. rewrite Hb.
      destruct b as [x|]; [|apply runs_pret]. destruct Hnb as [H32 H10].
      assert ((x =? 32) = false) as -> by (apply N.eqb_neq; exact H32).
      assert ((x =? 10) = false) as -> by (apply N.eqb_neq; exact H10). apply runs_pret.
    + apply runs_padvance. pose proof (hwm_after_peek_mono v 0 Hwf). change (vcur (after_peek v 0)) with (vcur v). lia.
  - assert (Hlen : (2 <= fuel)%nat).
    { destruct tail as [|x r].
      - (* the line feed is the last byte *)
        assert (length (nskipn c S) <= length S)%nat by (unfold nskipn; rewrite skipn_length; lia).
        rewrite Hs in H. cbn [length] in H. lia.
      - assert (length (nskipn c S) <= length S)%nat by (unfold nskipn; rewrite skipn_length; lia).
        rewrite Hs in H. cbn [length] in H. lia. }
    destruct fuel as [|[|f]] eqn:Ef; [lia|lia|].
    assert (Hp0 : vpeek v 0 = Some 10) by (rewrite (at_peek _ _ _ 0 Hat), N.add_0_r; apply (nskipn_head _ _ _ _ Hs)).
    pose proof (at_after_peek _ _ _ 0 Hat) as Hat0.
    assert (Hs1 : nskipn (c + 1) S = tail) by exact (nskipn_app_next _ _ [10] _ Hs).
    destruct (Hpt 1 (after_peek v 0) Hat0 Hs1) as (b & Hb & Hnb & Hhb).
    pose proof (hwm_after_peek_some v 0 10 Hp0) as Hh0.
    pose proof (hwm_after_peek_mono (after_peek v 0) 1 (WFV_after_peek v 0 Hwf)) as Hm1.
    eexists. exists (v_advance (after_peek (after_peek v 0) 1) 1). split; [|apply at_advance, at_after_peek; exact Hat0].
    unfold skip_ws. eapply runs_pbnd.
    + cbn [skip_ws_loop]. eapply runs_pbnd; [apply runs_ppeek|]. rewrite Hp0.
      change (10 =? 32) with false. change (10 =? 10) with true. cbv iota.
      eapply runs_pbnd; [apply runs_line_at_offset|].
      eapply runs_pbnd; [apply runs_ppeek|]. replace (0 + 1) with 1 by lia. rewrite Hb.
      destruct b as [x|]; [|apply runs_pret]. destruct Hnb as [H32 H10].
      assert ((x =? 32) = false) as -> by (apply N.eqb_neq; exact H32).
      assert ((x =? 10) = false) as -> by (apply N.eqb_neq; exact H10). apply runs_pret.
    + replace (0 + 1) with 1 by lia. apply runs_padvance.
      change (vcur (after_peek (after_peek v 0) 1)) with (vcur v). lia.
Qed.

(* ---------- no number here: uint, positive_int and try_node fall through ---------- *)
Lemma uint_miss c v s :
  at_ S c v -> stops is_dig (nskipn c S) ->
  exists v', runs (uint fuel) s v Fallthrough s v' /\ at_ S c v'.
Proof.
  intros Hat Ht. pose proof Hat as (HS & Hc & Hwf).
  set (v0 := v_setmark v).
  assert (Hat0 : at_ S c v0) by (apply at_setmark; exact Hat).
  pose proof Hat0 as (HS0 & Hc0 & Hwf0). pose proof (at_bytes _ _ Hat0) as Hb0.
  pose proof (srun_aruns (ascii_digits_multi fuel U64 0) v0 Hwf0) as Har.
  assert (Hrest : rest_at v0 0 = nskipn c S) by (rewrite (at_rest _ _ _ 0 Hat0), N.add_0_r; reflexivity).
  assert (Hdp : digit_prefix (rest_at v0 0) = []).
  { rewrite Hrest. destruct (nskipn c S) as [|x r]; [reflexivity|]. cbn [digit_prefix]. cbn [stops] in Ht. rewrite Ht. reflexivity. }
  assert (Hfu : (length (digit_prefix (rest_at v0 0)) < fuel)%nat) by (rewrite Hdp; cbn [length]; lia).
  destruct (ascii_digits_multi_spec fuel U64 0 v0 _ Hwf0 Hb0 Hfu Har) as (v1 & Hrun & Hcore).
  unfold unsigned_spec in Hrun. cbn [fst snd] in Hrun. rewrite Hdp in Hrun. change (nlen (@nil byte)) with 0 in Hrun.
  destruct (srun_wf _ _ _ _ Hwf0 Hrun) as [Hwf1 HS1].
  destruct (core_after_basic _ _ _ Hcore) as [Hc1 _].
  exists v1. split; [|repeat split; [rewrite HS1; exact HS0|rewrite Hc1; exact Hc0|exact Hwf1]].
  unfold uint. eapply runs_pbnd; [apply runs_pset_mark|].
  eapply runs_pbnd; [apply runs_lift; exact Hrun|]. cbv beta iota. change (0 + 0 =? 0) with true. apply runs_pret.
Qed.

Lemma try_node_miss c v s :
  at_ S c v -> stops is_dig (nskipn c S) ->
  exists v', runs (try_node fuel) s v Fallthrough s v' /\ at_ S c v'.
Proof.
  intros Hat Ht.
  pose proof (at_after_peek _ _ _ 0 Hat) as Hat0.
  destruct (uint_miss c (after_peek v 0) s Hat0 Ht) as (v1 & R1 & A1).
  exists v1. split; [|exact A1].
  assert (Hno : match nnth S c with Some b => b =? 48 | None => false end = false).
  { destruct (nskipn c S) as [|x r] eqn:E.
    - rewrite (nskipn_nil_nnth _ _ E). reflexivity.
    - rewrite (nskipn_head _ _ _ _ E). cbn [stops] in Ht. apply N.eqb_neq. intros ->. discriminate Ht. }
  assert (Hpi : runs (positive_int fuel) s v Fallthrough s v1).
  { unfold positive_int. eapply runs_pbnd; [apply runs_ppeek|]. rewrite (at_peek _ _ _ 0 Hat), N.add_0_r, Hno.
    eapply runs_pbnd; [unfold located; eapply runs_pbnd; [exact R1|apply runs_pret]|]. apply runs_pret. }
  unfold try_node. eapply runs_pbnd; [exact Hpi|]. reflexivity.
Qed.


(* ---------- a whole line ---------- *)
Definition node_ok (n : node) : Prop :=
  idok (n_id n) /\ nv_ok (n_variant n) /\
  match n_symbol n with Some sy => sym_ok sy | None => True end /\
  match n_comment n with Some cm => cmt_ok cm | None => True end.
Definition line_ok (l : line) : Prop :=
  match l with LComment cm => cmt_ok cm | LNode n => node_ok n end.

Definition is_some {A} (o : option A) : bool := match o with Some _ => true | None => false end.

Lemma write_line_node_shape id nv sym cmt :
  write_line (LNode {| n_id := id; n_variant := nv; n_symbol := sym; n_comment := cmt |})
  = decimal_N id ++ 32 :: nkw nv ++ nargs nv ++ trailer_text sym (is_some cmt)
    ++ match cmt with Some cm => cm ++ [10] | None => [] end.
Proof.
  unfold write_line, write_line_unterminated, write_node, wr_id. cbn [n_id n_variant n_symbol n_comment].
  rewrite write_variant_shape. destruct sym as [sy|]; destruct cmt as [cm|]; cbn [trailer_text is_some app];
    repeat (progress (cbn [app]; rewrite <- ?app_assoc)); rewrite ?app_nil_r; reflexivity.
Qed.

Lemma seps_nargs nv : seps (nargs nv).
Proof. destruct nv as [[w|d c]|vsort vv|state asort k value|k value|nodes]; left; reflexivity. Qed.

Lemma seps_trailer sym cmt tail : sep (trailer_text sym cmt ++ tail).
Proof. destruct sym; destruct cmt; cbn [trailer_text app sep]; auto. Qed.

Lemma runs_wf {A} (m : PM A) s v a s' v' : WFV v -> runs m s v a s' v' ->
  (vcur v <= vhwm v -> vcur v' <= vhwm v') /\ vfail v' = vfail v.
Proof.
  intros Hwf H. unfold runs in H. pose proof (srun_aruns (m s) v Hwf) as Har. rewrite H in Har. split.
  - intros Hle. exact (aruns_cur_le_hwm _ _ _ Har Hwf Hle _ _ eq_refl).
  - exact (proj1 (aruns_vfail _ _ _ Har _ _ eq_refl)).
Qed.

Lemma decimal_N_head n : exists d r, decimal_N n = d :: r /\ is_dig d = true.
Proof.
  pose proof (decimal_N_nonempty n) as Hne. pose proof (decimal_N_digits n) as Hd.
  destruct (decimal_N n) as [|d r]; [congruence|]. exists d, r. split; [reflexivity|].
  cbn [forallb] in Hd. apply andb_prop in Hd. apply Hd.
Qed.

Lemma is_dig_range d : is_dig d = true -> d <> 32 /\ d <> 10 /\ d <> 59.
Proof. unfold is_dig. intros H. apply andb_prop in H as [H1 H2]. apply N.leb_le in H1. apply N.leb_le in H2. repeat split; lia. Qed.

Lemma next_line_node n lead c v s rest :
  node_ok n -> lead_ok lead -> at_ S c v -> vcur v <= vhwm v ->
  nskipn c S = lead ++ write_line (LNode n) ++ rest ->
  exists s' v' c' lead', runs (next_line fuel) s v (Ok (Some (LNode n))) s' v' /\ at_ S c' v' /\
                        lead_ok lead' /\ nskipn c' S = lead' ++ rest.
Proof.
  destruct n as [id nv sym cmt]. unfold node_ok. cbn [n_id n_variant n_symbol n_comment].
  intros (Hid & Hnv & Hsy & Hcm) Hlead Hat Hle Hs.
  rewrite write_line_node_shape in Hs.
  destruct (decimal_N_head id) as (d0 & r0 & Ed & Hd0). destruct (is_dig_range d0 Hd0) as (H32 & H10 & _).
  (* skip_whitespace *)
  destruct (skip_ws_hit lead c v s _ Hat Hle Hlead Hs) as (s1 & v1 & R1 & A1).
  { rewrite Ed. cbn [app]. split; assumption. }
  pose proof (nskipn_app_next _ _ _ _ Hs) as Hs1.
  repeat (progress (cbn [app] in Hs1; rewrite <- ?app_assoc in Hs1)).
  (* node id *)
  destruct (positive_int_hit id _ v1 s1 _ A1 Hs1 ltac:(reflexivity) Hid) as (v2 & R2 & A2).
  pose proof (nskipn_app_next _ _ _ _ Hs1) as Hs2.
  (* space, keyword *)
  destruct (required_space_hit _ v2 s1 _ A2 Hs2) as (v3 & R3 & A3).
  pose proof (nskipn_app_next _ _ [32] _ Hs2) as Hs3. change (nlen [32]) with 1 in Hs3.
  destruct (nkw_lower nv) as [Hlow Hkne].
  destruct (ptok_keyword node_keywords_b (ntok_of nv) (nkw nv) Hlow Hkne (nkw_lookup nv) _ v3 s1 _ A3 Hs3) as (v4 & R4 & A4).
  { apply sep_app; [apply seps_nargs|apply seps_trailer]. }
  pose proof (nskipn_app_next _ _ _ _ Hs3) as Hs4.
  (* the body *)
  destruct (node_body_ptok nv Hnv _ v4 s1 _ A4 Hs4 (seps_trailer _ _ _)) as (v5 & R5 & A5).
  pose proof (nskipn_app_next _ _ _ _ Hs4) as Hs5.
  (* symbol and comment start / end of line *)
  destruct (node_trailer_hit sym (is_some cmt) _ v5 s1 _ A5 Hs5 Hsy) as (s2 & v6 & R6 & A6).
  pose proof (nskipn_app_next _ _ _ _ Hs5) as Hs6.
  assert (Rtry : runs (try_node fuel) s1 v1
                   (Res (Ok {| n_id := id; n_variant := nv; n_symbol := sym;
                               n_comment := if is_some cmt then Some [] else None |})) s2 v6).
  { unfold try_node. eapply runs_pbnd; [exact R2|]. cbv beta iota.
    eapply runs_pbnd; [|apply runs_pret].
    eapply runs_rbnd; [exact R3|]. eapply runs_rbnd; [exact R4|]. eapply runs_rbnd; [exact R5|].
    eapply runs_rbnd; [exact R6|]. apply runs_pret. }
  destruct cmt as [cm|]; cbn [is_some] in *.
  - (* a comment follows: comment_body, the line feed stays *)
    match type of Hs6 with nskipn ?c6 S = _ =>
      assert (Hs6' : nskipn c6 S = cm ++ 10 :: rest) by (eapply eq_trans; [exact Hs6|]; rewrite <- app_assoc; reflexivity) end.
    destruct (comment_body_hit cm _ v6 s2 rest A6 Hs6' Hcm) as (v7 & R7 & A7).
    exists s2, v7. eexists. exists [10]. split; [|split; [exact A7|split; [right; reflexivity|]]].
    + unfold next_line. eapply runs_pbnd; [exact R1|]. eapply runs_pbnd; [exact Rtry|].
      eapply runs_pbnd; [apply runs_pret|]. cbv beta iota. cbn [has_comment n_comment].
      eapply runs_rbnd; [exact R7|]. apply runs_pret.
    + exact (nskipn_app_next _ _ _ _ Hs6').
  - exists s2, v6. eexists. exists []. split; [|split; [exact A6|split; [left; reflexivity|]]].
    + unfold next_line. eapply runs_pbnd; [exact R1|]. eapply runs_pbnd; [exact Rtry|].
      eapply runs_pbnd; [apply runs_pret|]. cbv beta iota. cbn [has_comment n_comment]. apply runs_pret.
    + exact Hs6.
Qed.

Lemma next_line_comment cm lead c v s rest :
  cmt_ok cm -> lead_ok lead -> at_ S c v -> vcur v <= vhwm v ->
  nskipn c S = lead ++ write_line (LComment cm) ++ rest ->
  exists s' v' c' lead', runs (next_line fuel) s v (Ok (Some (LComment cm))) s' v' /\ at_ S c' v' /\
                        lead_ok lead' /\ nskipn c' S = lead' ++ rest.
Proof.
  intros Hcm Hlead Hat Hle Hs. unfold write_line, write_line_unterminated in Hs. cbn [app] in Hs.
  destruct (skip_ws_hit lead c v s _ Hat Hle Hlead Hs) as (s1 & v1 & R1 & A1); [split; discriminate|].
  pose proof (nskipn_app_next _ _ _ _ Hs) as Hs1.
  destruct (try_node_miss _ v1 s1 A1) as (v2 & R2 & A2); [rewrite Hs1; reflexivity|].
  destruct (one_byte_hit 59 _ v2 s1 _ A2 Hs1) as (v3 & R3 & A3).
  pose proof (nskipn_app_next _ _ [59] _ Hs1) as Hs3. rewrite <- app_assoc in Hs3. cbn [app] in Hs3.
  destruct (comment_body_hit cm _ v3 s1 rest A3 Hs3 Hcm) as (v4 & R4 & A4).
  exists s1, v4. eexists. exists [10]. split; [|split; [exact A4|split; [right; reflexivity|]]].
  - unfold next_line. eapply runs_pbnd; [exact R1|]. eapply runs_pbnd; [exact R2|].
    eapply runs_pbnd.
    + cbv beta iota. eapply runs_pbnd; [exact R3|]. cbv beta iota. apply runs_pret.
    + cbv beta iota. cbn [has_comment]. eapply runs_rbnd; [exact R4|]. apply runs_pret.
  - exact (nskipn_app_next _ _ _ _ Hs3).
Qed.

Lemma next_line_eof lead c v s :
  lead_ok lead -> at_ S c v -> vcur v <= vhwm v -> vfail v = None -> nskipn c S = lead ->
  exists s' v', runs (next_line fuel) s v (Ok None) s' v'.
Proof.
  intros Hlead Hat Hle Hfail Hs. rewrite <- (app_nil_r lead) in Hs.
  destruct (skip_ws_hit lead c v s [] Hat Hle Hlead Hs I) as (s1 & v1 & R1 & A1).
  pose proof (nskipn_app_next _ _ _ _ Hs) as Hs1.
  destruct (try_node_miss _ v1 s1 A1) as (v2 & R2 & A2); [rewrite Hs1; exact I|].
  destruct (one_byte_miss 59 _ v2 s1 A2) as (v3 & R3 & A3); [rewrite Hs1; exact I|].
  pose proof Hat as (_ & _ & Hwf). pose proof A1 as (_ & _ & Hwf1). pose proof A2 as (_ & _ & Hwf2).
  destruct (runs_wf _ _ _ _ _ _ Hwf R1) as [_ F1]. destruct (runs_wf _ _ _ _ _ _ Hwf1 R2) as [_ F2].
  destruct (runs_wf _ _ _ _ _ _ Hwf2 R3) as [_ F3].
  assert (Hf3 : vfail v3 = None) by (rewrite F3, F2, F1; exact Hfail).
  assert (Hp : vpeek v3 0 = None) by (rewrite (at_peek _ _ _ 0 A3), N.add_0_r; apply nskipn_nil_nnth; exact Hs1).
  set (v4 := after_peek v3 0).
  assert (Hpk : s_parked v4 = false) by (unfold s_parked, v_err_now, v4; cbn [after_peek vknown vtaken vfail]; rewrite Hf3; destruct (vtaken v3); apply andb_false_r).
  assert (Htk : s_take v4 = None) by (unfold s_take, v_err_now, v4; cbn [after_peek vknown vtaken vfail]; rewrite Hf3; destruct (vtaken v3); destruct (match vpeek v3 0 with Some _ => vknown v3 | None => true end); reflexivity).
  eexists. eexists.
  unfold next_line. eapply runs_pbnd; [exact R1|]. eapply runs_pbnd; [exact R2|].
  eapply runs_pbnd.
  - cbv beta iota. eapply runs_pbnd; [exact R3|]. cbv beta iota.
    eapply runs_pbnd.
    + unfold teof. eapply runs_pbnd; [apply runs_ppeek|]. rewrite Hp.
      eapply runs_pbnd; [apply runs_lift; cbn [srun]; reflexivity|]. fold v4. rewrite Hpk. apply runs_pret.
    + cbv beta iota. apply runs_pret.
  - cbv beta iota. eapply runs_pbnd; [apply runs_lift; cbn [srun]; reflexivity|]. fold v4. rewrite Htk. apply runs_pret.
Qed.


Lemma next_line_hit l lead c v s rest :
  line_ok l -> lead_ok lead -> at_ S c v -> vcur v <= vhwm v ->
  nskipn c S = lead ++ write_line l ++ rest ->
  exists s' v' c' lead', runs (next_line fuel) s v (Ok (Some l)) s' v' /\ at_ S c' v' /\
                        lead_ok lead' /\ nskipn c' S = lead' ++ rest.
Proof.
  destruct l as [cm|n]; cbn [line_ok]; intros Hok.
  - apply next_line_comment; exact Hok.
  - apply next_line_node; exact Hok.
Qed.

(* ---------- a whole document ---------- *)
Definition write_lines (ls : list line) : bytes := flat_map write_line ls.

Lemma drive_lines_hit : forall ls n acc lead c v s,
  Forall line_ok ls -> (length ls < n)%nat -> lead_ok lead -> at_ S c v -> vcur v <= vhwm v -> vfail v = None ->
  nskipn c S = lead ++ write_lines ls ->
  exists s' v', runs (drive_lines fuel n acc) s v (rev acc ++ ls, FOk) s' v'.
Proof.
  induction ls as [|l ls IH]; intros n acc lead c v s Hok Hn Hlead Hat Hle Hfail Hs.
  - destruct n as [|n]; [cbn [length] in Hn; lia|].
    cbn [write_lines flat_map] in Hs. rewrite app_nil_r in Hs.
    destruct (next_line_eof lead c v s Hlead Hat Hle Hfail Hs) as (s' & v' & R).
    exists s', v'. cbn [drive_lines]. eapply runs_pbnd; [exact R|]. cbv beta iota. rewrite app_nil_r. apply runs_pret.
  - destruct n as [|n]; [cbn [length] in Hn; lia|]. inversion Hok as [|? ? Hl Hls]; subst.
    cbn [write_lines flat_map] in Hs. fold (write_lines ls) in Hs.
    destruct (next_line_hit l lead c v s (write_lines ls) Hl Hlead Hat Hle Hs) as (s1 & v1 & c1 & lead1 & R1 & A1 & L1 & Hs1).
    pose proof Hat as (_ & _ & Hwf).
    destruct (runs_wf _ _ _ _ _ _ Hwf R1) as [Hle1 F1].
    destruct (IH n (l :: acc) lead1 c1 v1 s1 Hls ltac:(cbn [length] in Hn; lia) L1 A1 (Hle1 Hle) ltac:(rewrite F1; exact Hfail) Hs1)
      as (s2 & v2 & R2).
    exists s2, v2. cbn [drive_lines]. eapply runs_pbnd; [exact R1|]. cbv beta iota.
    replace (rev acc ++ l :: ls) with (rev (l :: acc) ++ ls) by (cbn [rev]; rewrite <- app_assoc; reflexivity).
    exact R2.
Qed.

End Rt.

Lemma write_lines_len ls : (length ls <= length (write_lines ls))%nat.
Proof.
  induction ls as [|l ls IH]; cbn [write_lines flat_map length]; [lia|]. fold (write_lines ls).
  rewrite app_length. unfold write_line at 1. rewrite app_length. cbn [length]. lia.
Qed.

(* C03 for BTOR2 at the level of the model: the simple run of the whole parser on what the writer
   wrote for a list of well-formed lines (ids in 1..2^64-1, constants in the constructors' domains,
   symbols without space / line feed and not starting with ';', comments without line feed), delivered
   by a source that ends cleanly, returns exactly those lines and a clean end. *)
Theorem parse_btor2_roundtrip (fuel : nat) (ls : list line) :
  Forall line_ok ls ->
  Forall (fun b => b < 256) (write_lines ls) ->
  (length (write_lines ls) < fuel)%nat ->
  exists s' v', srun (parse_btor2 fuel lrs_init) (view_init (write_lines ls) None) = ADone ((ls, FOk), s') v'.
Proof.
  intros Hok Hb Hf.
  set (S := write_lines ls) in *. set (v := view_init S None).
  assert (Hat : at_ S 0 v) by (repeat split; unfold WFV, v; cbn; lia).
  destruct (drive_lines_hit fuel S Hb Hf ls fuel [] [] 0 v lrs_init Hok) as (s' & v' & R).
  - pose proof (write_lines_len ls). fold S in H. lia.
  - left. reflexivity.
  - exact Hat.
  - cbn. lia.
  - reflexivity.
  - reflexivity.
  - exists s', v'. exact R.
Qed.
Print Assumptions parse_btor2_roundtrip.

(* one line, anywhere in a document: whatever precedes and follows it *)
Theorem next_line_roundtrip (fuel : nat) (S : bytes) (l : line) (c : N) (v : view) (s : lrs) (rest : bytes) :
  Forall (fun b => b < 256) S -> (length S < fuel)%nat ->
  line_ok l -> vS v = S -> vcur v = c -> WFV v -> vcur v <= vhwm v ->
  nskipn c S = write_line l ++ rest ->
  exists s' v', srun (next_line fuel s) v = ADone (Ok (Some l), s') v'.
Proof.
  intros Hb Hf Hok HS Hc Hwf Hle Hs.
  destruct (next_line_hit fuel S Hb Hf l [] c v s rest Hok (or_introl eq_refl) (conj HS (conj Hc Hwf)) Hle Hs)
    as (s' & v' & _ & _ & R & _).
  exists s', v'. exact R.
Qed.
Print Assumptions next_line_roundtrip.

(* the premises are satisfiable: a small document with every kind of line end *)
Example roundtrip_example :
  let ls := [ LNode {| n_id := 1; n_variant := NSort (SBitVec 8); n_symbol := None; n_comment := None |};
              LNode {| n_id := 2; n_variant := NValue 1 (VConst (CDecimal [45; 49; 50])); n_symbol := Some [120]; n_comment := None |};
              LComment [32; 104; 105];
              LNode {| n_id := 18446744073709551615; n_variant := NValue 1 (VOp (OBinary BoAnd 2 2));
                       n_symbol := Some [97; 59]; n_comment := Some [59; 32; 99] |};
              LNode {| n_id := 7; n_variant := NJustice [2; 3]; n_symbol := None; n_comment := Some [] |};
              LNode {| n_id := 8; n_variant := NOutput OvConstraint 2; n_symbol := None; n_comment := None |} ] in
  Forall line_ok ls /\ Forall (fun b => b < 256) (write_lines ls) /\
  fst (fst (match srun (parse_btor2 200 lrs_init) (view_init (write_lines ls) None) with
            | ADone a _ => a | _ => (([], FErr (EIo 0)), lrs_init) end)) = ls.
Proof.
  cbv zeta. split; [|split].
  - repeat constructor; cbn; try discriminate; try reflexivity.
  - vm_compute. repeat constructor.
  - vm_compute. reflexivity.
Qed.
