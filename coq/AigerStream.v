(* AigerStream.v — the streaming API of flussab-aiger used with early section switches.

   Aiger.v drives `Parser::inputs()` → `next_input()`* → `.latches()` → … → `.symbols()` → `.comment()` with every
   section read to its end (`sect` / `sloop`), so the loops at the head of the section-switch methods

       pub fn latches(mut self) -> … { while self.inputs_left != 0 { self.next_input()?; } … }

   (one per section, ascii.rs and binary.rs alike) never run there.  Here the caller takes at most `n` entries of every
   section and then switches: the rest of the section is read by the switch method's loop, which calls the same
   `next_xxx` (with all its checks, its line accounting and — binary format — its update of the running literal code,
   justice sizes: of their running total) and drops the value.

   - `take_loop`  : the caller: up to n calls of next_xxx(), ending at the first `Ok(None)` (nothing left; no effect);
   - `skip_loop`  : `while self.xxx_left != 0 { self.next_xxx()?; }`;
   - `sect_take`  : a section used that way, then the rest of the file;
   - `sym_take`   : up to n calls of next_symbol(); `ParseSymbols::comment` (Aiger.comment_section) skips what
                    symbols are left;
   - `parse_aag_take`, `parse_aig_take` : the two parsers driven that way; result type as parse_aag / parse_aig.

   AigerStreamProofs.v: same header, same final outcome as the exhaustive parse, and the items handed out are the
   exhaustive parse's with every section cut to its first n entries. *)
From Flussab Require Import Base Writer Parsed Prog Text Consts Cnf Aiger.

Section WithFuel.
Variable fuel : nat.

(* up to n calls of next_xxx(); the section's struct then holds (left', st') *)
Fixpoint take_loop {St : Type} (n : nat) (it : St -> PM (result (item * St) perr)) (left : N) (st : St)
         (acc : list item) : PM (list item * (N * St) * option perr) :=
  match n with
  | O => pret (rev acc, (left, st), None)
  | S n' =>
      if left =? 0 then pret (rev acc, (left, st), None) else      (* next_xxx() returns Ok(None) *)
      let* r := it st in
      match r with
      | Ok (x, st') => take_loop n' it (left - 1) st' (x :: acc)
      | Err e => pret (rev acc, (left, st), Some e)
      end
  end.

(* `while self.xxx_left != 0 { self.next_xxx()?; }` *)
Fixpoint skip_loop {St : Type} (f : nat) (it : St -> PM (result (item * St) perr)) (left : N) (st : St)
  : PM (St * option perr) :=
  if left =? 0 then pret (st, None) else
  match f with
  | O => pnofuel
  | S f' =>
      let* r := it st in
      match r with
      | Ok (_, st') => skip_loop f' it (left - 1) st'
      | Err e => pret (st, Some e)
      end
  end.

(* a section of which at most n entries are taken, the section switch, then the rest of the file *)
Definition sect_take {St : Type} (n : nat) (it : St -> PM (result (item * St) perr)) (left : N) (st : St)
           (k : St -> PM (list item * final)) : PM (list item * final) :=
  sect (take_loop n it left st []) (fun ls =>
    let* r := skip_loop fuel it (fst ls) (snd ls) in
    match snd r with
    | None => k (fst r)
    | Some e => pret ([], FErr e)
    end).

(* up to n calls of next_symbol() *)
Fixpoint sym_take (n : nat) (h : aheader) (acc : list item) : PM (list item * unit * option perr) :=
  match n with
  | O => pret (rev acc, tt, None)
  | S n' =>
      let* r := next_symbol fuel h in
      match r with
      | Ok (Some s) => sym_take n' h (s :: acc)
      | Ok None => pret (rev acc, tt, None)
      | Err e => pret (rev acc, tt, Some e)
      end
  end.

Definition middle_sections_take {St : Type} (maxc max_lit : N) (n : nat) (h : aheader) (st : St)
           (k : St -> PM (list item * final)) : PM (list item * final) :=
  sect_take n (lit_line fuel maxc max_lit false IOutput) (a_outputs h) st (fun st =>
  sect_take n (lit_line fuel maxc max_lit false IBad) (a_bad h) st (fun st =>
  sect_take n (lit_line fuel maxc max_lit false IConstraint) (a_constraints h) st (fun st =>
  sect_take n (justice_size fuel) (a_justice h) 0 (fun total =>
  sect_take n (lit_line fuel maxc max_lit false IJustice) total st (fun st =>
  sect_take n (lit_line fuel maxc max_lit false IFairness) (a_fairness h) st k))))).

Definition parse_aag_take (maxc : N) (n : nat) : PM aout :=
  let* h := parse_aheader fuel magic_ascii maxc in
  finish_parse h (fun hd =>
    let max_lit := a_max_var hd * 2 + 1 in
    sect_take n (lit_line fuel maxc max_lit true IInput) (a_inputs hd) tt (fun st =>
    sect_take n (aag_latch fuel maxc max_lit) (a_latches hd) st (fun st =>
    middle_sections_take maxc max_lit n hd st (fun st =>
    sect_take n (aag_and fuel maxc max_lit) (a_ands hd) st (fun _ =>
    sect (sym_take n hd []) (fun _ =>
    comment_section fuel hd)))))).

Definition parse_aig_take (maxc : N) (n : nat) : PM aout :=
  let* h := parse_aheader fuel magic_binary maxc in
  finish_parse h (fun hd =>
    let max_lit := a_max_var hd * 2 + 1 in
    let code0 := (((a_inputs hd + 1) mod W64) * 2) mod W64 in
    sect_take n (aig_latch fuel maxc max_lit) (a_latches hd) code0 (fun code =>
    middle_sections_take maxc max_lit n hd code (fun code =>
    sect_take n (aig_and maxc) (a_ands hd) code (fun _ =>
    sect (sym_take n hd []) (fun _ =>
    comment_section fuel hd))))).

End WithFuel.

(* ---------- the exhaustive item list with every section cut to its first n entries ---------- *)
(* the section an item belongs to, in file order (the comment is not a section of entries: it is handed out whole) *)
Definition sec_of (x : item) : nat :=
  match x with
  | IInput _ => 0
  | ILatch _ _ _ | IOLatch _ _ => 1
  | IOutput _ => 2
  | IBad _ => 3
  | IConstraint _ => 4
  | IJusticeSize _ => 5
  | IJustice _ => 6
  | IFairness _ => 7
  | IAnd _ _ _ | IOAnd _ _ => 8
  | ISymbol _ _ _ => 9
  | IComment _ => 10
  end%nat.

Definition section_of (t : nat) (l : list item) : list item := filter (fun x => Nat.eqb (sec_of x) t) l.

Definition take_sections (n : nat) (l : list item) : list item :=
  flat_map (fun t => firstn n (section_of t l)) (seq 0 10) ++ section_of 10 l.
