(* ProgProofs.v — basic facts about the abstract semantics of parser programs. *)
From Flussab Require Import Base Reader ListN Prog.

(* a view is well formed when what it claims buffered exists *)
Definition WFV (v : view) : Prop := vhwm v <= nlen (vS v).

Lemma nnth_some_lt {A} (l : list A) i x : nnth l i = Some x -> i < nlen l.
Proof.
  unfold nnth, nlen. intros H. assert (N.to_nat i < length l)%nat; [|lia].
  apply nth_error_Some. congruence.
Qed.

Lemma WFV_after_peek v k : WFV v -> WFV (after_peek v k).
Proof.
  unfold WFV, after_peek; cbn [vhwm vS]. intros H. unfold vpeek.
  destruct (nnth (vS v) (vcur v + k)) eqn:E; [|lia].
  apply nnth_some_lt in E. lia.
Qed.

Lemma WFV_loaded v off o : WFV v -> tryload_ok v off o -> WFV (v_loaded v off o).
Proof.
  unfold WFV, v_loaded, tryload_ok; cbn [vhwm vS]. intros H Hok. destruct o as [w|]; [|exact H].
  destruct Hok as [Hlen _]. lia.
Qed.

Lemma s_tryload_ok v off : WFV v -> tryload_ok v off (s_tryload v off).
Proof.
  unfold WFV, tryload_ok, s_tryload. intros H. destruct (vcur v + off + 8 <=? vhwm v) eqn:E.
  - apply N.leb_le in E. split; [lia|reflexivity].
  - apply N.leb_gt in E. exact E.
Qed.

(* the simple run is one of the admissible runs *)
Lemma srun_aruns {A} (p : prog A) : forall v, WFV v -> aruns p v (srun p v).
Proof.
  induction p as [a|k c IH|n c IH|off c IH|c IH|c IH|c IH|c IH|c IH|c IH|k|]; intros v Hv; cbn [srun].
  - constructor.
  - constructor. apply IH. apply WFV_after_peek; exact Hv.
  - destruct (vcur v + n <=? vhwm v) eqn:E.
    + apply N.leb_le in E. apply ar_adv; [exact E|]. apply IH. exact Hv.
    + apply N.leb_gt in E. apply ar_adv_stuck. exact E.
  - pose proof (s_tryload_ok v off Hv) as Hok.
    eapply ar_tryload; [exact Hok|]. apply IH. apply WFV_loaded; assumption.
  - constructor. apply IH. exact Hv.
  - constructor. apply IH. exact Hv.
  - constructor. apply IH. exact Hv.
  - constructor. apply IH. exact Hv.
  - constructor. apply IH. exact Hv.
  - constructor. apply IH. exact Hv.
  - constructor.
  - constructor.
Qed.

(* programs that never ask a buffering question have exactly one run *)
Fixpoint det {A} (p : prog A) : Prop :=
  match p with
  | Ret _ | Crash _ | NoFuel => True
  | Peek _ c => forall o, det (c o)
  | Advance _ c | SetMark c => det c
  | GetMark c | GetPos c => forall m, det (c m)
  | IsAtEnd c | ErrParked c => forall b, det (c b)
  | TakeErr c => forall o, det (c o)
  | TryLoad8 _ _ => False
  end.

Lemma det_aruns {A} (p : prog A) v r : aruns p v r -> det p -> r = srun p v.
Proof.
  induction 1; cbn [det srun]; intros Hd; try contradiction; try reflexivity; auto.
  - assert ((vcur v + n <=? vhwm v) = true) as -> by (apply N.leb_le; assumption). auto.
  - assert ((vcur v + n <=? vhwm v) = false) as -> by (apply N.leb_gt; assumption). reflexivity.
Qed.

(* peeking does not move anything the next peek depends on *)
Lemma vpeek_after_peek v k j : vpeek (after_peek v k) j = vpeek v j.
Proof. reflexivity. Qed.

Lemma nnth_nskipn {A} (l : list A) i j : nnth (nskipn i l) j = nnth l (i + j).
Proof. unfold nnth, nskipn. rewrite nth_error_skipn. f_equal. lia. Qed.

Lemma nskipn_cons_nnth {A} (l : list A) i x r : nskipn i l = x :: r -> nnth l i = Some x /\ nskipn (i + 1) l = r.
Proof.
  intros H. split.
  - replace i with (i + 0) by lia. rewrite <- nnth_nskipn, H. reflexivity.
  - replace (i + 1) with (1 + i) by lia. rewrite <- nskipn_nskipn, H. reflexivity.
Qed.

Lemma nskipn_nil_nnth {A} (l : list A) i : nskipn i l = [] -> nnth l i = None.
Proof.
  intros H. replace i with (i + 0) by lia. rewrite <- nnth_nskipn, H. reflexivity.
Qed.

Lemma aruns_ret_inv {A} (a : A) v r : aruns (Ret a) v r -> r = ADone a v.
Proof. intros H. inversion H; subst. reflexivity. Qed.

(* ------------------------------------------------------------------ *)
(* answer-insensitivity: the result of a program depends on the *core* of the view only
   (stream, terminal event, cursor, mark, error taken, end seen) — not on how much happens to be
   buffered (vhwm) nor on what has been asked for so far (vreq) *)
Definition core (v : view) : bytes * option N * N * N * bool * bool :=
  (vS v, vfail v, vcur v, vmark v, vtaken v, vknown v).

Definition BytesOK (v : view) : Prop := Forall (fun b => b < 256) (vS v).

Definition agree {A} (r1 r2 : ares A) : Prop :=
  match r1, r2 with
  | AStuck, _ => True
  | _, AStuck => True
  | ADone a1 v1, ADone a2 v2 => a1 = a2 /\ core v1 = core v2
  | APanic k1, APanic k2 => k1 = k2
  | AFuel, AFuel => True
  | _, _ => False
  end.

(* [bound] exceeds the length of the input: it is what the model's loop fuel is measured against *)
Definition CoreDet (bound : nat) {A} (p : prog A) : Prop :=
  forall v1 v2 r1 r2,
    core v1 = core v2 -> WFV v1 -> WFV v2 -> BytesOK v1 -> (length (vS v1) < bound)%nat ->
    aruns p v1 r1 -> aruns p v2 r2 -> agree r1 r2.

Lemma core_eq v1 v2 :
  core v1 = core v2 ->
  vS v1 = vS v2 /\ vfail v1 = vfail v2 /\ vcur v1 = vcur v2 /\ vmark v1 = vmark v2 /\ vtaken v1 = vtaken v2 /\
  vknown v1 = vknown v2.
Proof. unfold core. intros H. inversion H. repeat split; assumption. Qed.

(* runs keep views well formed and never change the stream *)
Lemma aruns_wf {A} (p : prog A) v r : aruns p v r -> WFV v -> forall a v', r = ADone a v' -> WFV v' /\ vS v' = vS v.
Proof.
  induction 1; intros Hwf a0 v0 E; try discriminate.
  - inversion E; subst. split; [exact Hwf|reflexivity].
  - exact (IHaruns (WFV_after_peek v k Hwf) a0 v0 E).
  - exact (IHaruns Hwf a0 v0 E).
  - exact (IHaruns (WFV_loaded v off o Hwf H) a0 v0 E).
  - exact (IHaruns Hwf a0 v0 E).
  - exact (IHaruns Hwf a0 v0 E).
  - exact (IHaruns Hwf a0 v0 E).
  - exact (IHaruns Hwf a0 v0 E).
  - exact (IHaruns Hwf a0 v0 E).
  - exact (IHaruns Hwf a0 v0 E).
Qed.

(* inversion of a run of a sequence *)
Definition abnormal {A B} (r : ares A) (r' : ares B) : Prop :=
  match r, r' with
  | APanic k, APanic k' => k = k'
  | AStuck, AStuck => True
  | AFuel, AFuel => True
  | _, _ => False
  end.

Lemma aruns_bind_inv {A B} (p : prog A) (f : A -> prog B) : forall v r,
  aruns (pbind p f) v r ->
  (exists a v', aruns p v (ADone a v') /\ aruns (f a) v' r) \/
  (exists r0, aruns p v r0 /\ abnormal r0 r).
Proof.
  induction p as [a|k c IH|n c IH|off c IH|c IH|c IH|c IH|c IH|c IH|c IH|k|]; intros v r H; cbn [pbind] in H.
  - left. exists a, v. split; [constructor|exact H].
  - inversion H; subst.
    match goal with Hx : aruns (pbind _ _) _ _ |- _ => destruct (IH _ _ _ Hx) as [(a & v' & Hq1 & Hq2)|(r0 & Hq1 & Hq2)] end.
    + left. exists a, v'. split; [constructor; exact Hq1|exact Hq2].
    + right. exists r0. split; [constructor; exact Hq1|exact Hq2].
  - inversion H; subst.
    + match goal with Hx : aruns (pbind _ _) _ _ |- _ => destruct (IH _ _ Hx) as [(a & v' & Hq1 & Hq2)|(r0 & Hq1 & Hq2)] end.
      * left. exists a, v'. split; [apply ar_adv; assumption|exact Hq2].
      * right. exists r0. split; [apply ar_adv; assumption|exact Hq2].
    + right. exists AStuck. split; [apply ar_adv_stuck; assumption|exact I].
  - inversion H; subst.
    match goal with Hx : aruns (pbind _ _) _ _ |- _ => destruct (IH _ _ _ Hx) as [(a & v' & Hq1 & Hq2)|(r0 & Hq1 & Hq2)] end.
    + left. exists a, v'. split; [eapply ar_tryload; eassumption|exact Hq2].
    + right. exists r0. split; [eapply ar_tryload; eassumption|exact Hq2].
  - inversion H; subst.
    match goal with Hx : aruns (pbind _ _) _ _ |- _ => destruct (IH _ _ _ Hx) as [(a & v' & Hq1 & Hq2)|(r0 & Hq1 & Hq2)] end.
    + left. exists a, v'. split; [constructor; exact Hq1|exact Hq2].
    + right. exists r0. split; [constructor; exact Hq1|exact Hq2].
  - inversion H; subst.
    match goal with Hx : aruns (pbind _ _) _ _ |- _ => destruct (IH _ _ _ Hx) as [(a & v' & Hq1 & Hq2)|(r0 & Hq1 & Hq2)] end.
    + left. exists a, v'. split; [constructor; exact Hq1|exact Hq2].
    + right. exists r0. split; [constructor; exact Hq1|exact Hq2].
  - inversion H; subst.
    match goal with Hx : aruns (pbind _ _) _ _ |- _ => destruct (IH _ _ _ Hx) as [(a & v' & Hq1 & Hq2)|(r0 & Hq1 & Hq2)] end.
    + left. exists a, v'. split; [constructor; exact Hq1|exact Hq2].
    + right. exists r0. split; [constructor; exact Hq1|exact Hq2].
  - inversion H; subst.
    match goal with Hx : aruns (pbind _ _) _ _ |- _ => destruct (IH _ _ Hx) as [(a & v' & Hq1 & Hq2)|(r0 & Hq1 & Hq2)] end.
    + left. exists a, v'. split; [constructor; exact Hq1|exact Hq2].
    + right. exists r0. split; [constructor; exact Hq1|exact Hq2].
  - inversion H; subst.
    match goal with Hx : aruns (pbind _ _) _ _ |- _ => destruct (IH _ _ _ Hx) as [(a & v' & Hq1 & Hq2)|(r0 & Hq1 & Hq2)] end.
    + left. exists a, v'. split; [constructor; exact Hq1|exact Hq2].
    + right. exists r0. split; [constructor; exact Hq1|exact Hq2].
  - inversion H; subst.
    match goal with Hx : aruns (pbind _ _) _ _ |- _ => destruct (IH _ _ _ Hx) as [(a & v' & Hq1 & Hq2)|(r0 & Hq1 & Hq2)] end.
    + left. exists a, v'. split; [constructor; exact Hq1|exact Hq2].
    + right. exists r0. split; [constructor; exact Hq1|exact Hq2].
  - inversion H; subst. right. exists (APanic k). split; [constructor|reflexivity].
  - inversion H; subst. right. exists AFuel. split; [constructor|exact I].
Qed.

Lemma CoreDet_bind bound {A B} (p : prog A) (f : A -> prog B) :
  CoreDet bound p -> (forall a, CoreDet bound (f a)) -> CoreDet bound (pbind p f).
Proof.
  intros Hp Hf v1 v2 r1 r2 Hc Hw1 Hw2 Hb Hlen H1 H2.
  destruct (aruns_bind_inv p f v1 r1 H1) as [(a1 & w1 & Hp1 & Hf1)|(q1 & Hp1 & Hab1)];
  destruct (aruns_bind_inv p f v2 r2 H2) as [(a2 & w2 & Hp2 & Hf2)|(q2 & Hp2 & Hab2)].
  - pose proof (Hp _ _ _ _ Hc Hw1 Hw2 Hb Hlen Hp1 Hp2) as [-> Hcw]. cbn [agree] in *.
    destruct (aruns_wf _ _ _ Hp1 Hw1 _ _ eq_refl) as [Hww1 HS1].
    destruct (aruns_wf _ _ _ Hp2 Hw2 _ _ eq_refl) as [Hww2 HS2].
    apply (Hf a2 w1 w2 r1 r2 Hcw Hww1 Hww2); auto; [unfold BytesOK in *|]; rewrite HS1; assumption.
  - pose proof (Hp _ _ _ _ Hc Hw1 Hw2 Hb Hlen Hp1 Hp2) as Hag.
    destruct q2; cbn [abnormal] in Hab2; try contradiction; destruct r2; try contradiction;
      cbn [agree] in Hag; try contradiction; destruct r1; exact I.
  - pose proof (Hp _ _ _ _ Hc Hw1 Hw2 Hb Hlen Hp1 Hp2) as Hag.
    destruct q1; cbn [abnormal] in Hab1; try contradiction; destruct r1; try contradiction;
      cbn [agree] in Hag; try contradiction; try exact I; destruct r2; try exact I; contradiction.
  - pose proof (Hp _ _ _ _ Hc Hw1 Hw2 Hb Hlen Hp1 Hp2) as Hag.
    destruct q1; cbn [abnormal] in Hab1; try contradiction; destruct r1; try contradiction;
    destruct q2; cbn [abnormal] in Hab2; try contradiction; destruct r2; try contradiction;
      cbn [agree] in *; try exact I; try contradiction; subst; auto.
Qed.

Lemma after_peek_core v1 v2 k : core v1 = core v2 -> vpeek v1 k = vpeek v2 k /\ core (after_peek v1 k) = core (after_peek v2 k).
Proof.
  intros H. destruct (core_eq _ _ H) as (a1 & a2 & a3 & a4 & a5 & a6).
  assert (Hp : vpeek v1 k = vpeek v2 k) by (unfold vpeek; rewrite a1, a3; reflexivity).
  split; [exact Hp|]. unfold core, after_peek; cbn [vS vfail vcur vmark vtaken vknown]. rewrite Hp, a1, a2, a3, a4, a5, a6. reflexivity.
Qed.

(* every program without a fast-path test is answer-insensitive *)
Lemma det_CoreDet bound {A} (p : prog A) : det p -> CoreDet bound p.
Proof.
  induction p as [a|k c IH|n c IH|off c IH|c IH|c IH|c IH|c IH|c IH|c IH|k|]; cbn [det]; intros Hd v1 v2 r1 r2 Hc Hw1 Hw2 Hb Hlen H1 H2.
  - inversion H1; inversion H2; subst. split; [reflexivity|exact Hc].
  - inversion H1; inversion H2; subst. destruct (after_peek_core v1 v2 k Hc) as [Hp Hc'].
    rewrite Hp in *. eapply (IH (vpeek v2 k) (Hd _)); eauto using WFV_after_peek.
  - destruct (core_eq _ _ Hc) as (a1 & a2 & a3 & a4 & a5 & a6).
    inversion H1; subst; [|exact I]. inversion H2; subst; [|destruct r1; exact I].
    eapply (IH Hd (v_advance v1 n) (v_advance v2 n)); eauto.
    unfold core, v_advance; cbn [vS vfail vcur vmark vtaken vknown]. rewrite a1, a2, a3, a4, a5, a6. reflexivity.
  - contradiction.
  - destruct (core_eq _ _ Hc) as (a1 & a2 & a3 & a4 & a5 & a6).
    inversion H1; inversion H2; subst.
    assert (E : s_atend v1 = s_atend v2) by (unfold s_atend; rewrite a1, a3, a6; reflexivity).
    rewrite E in *. eapply (IH _ (Hd _)); eauto.
  - destruct (core_eq _ _ Hc) as (a1 & a2 & a3 & a4 & a5 & a6).
    inversion H1; inversion H2; subst.
    assert (E : s_parked v1 = s_parked v2) by (unfold s_parked, v_err_now; rewrite a2, a5, a6; reflexivity).
    rewrite E in *. eapply (IH _ (Hd _)); eauto.
  - destruct (core_eq _ _ Hc) as (a1 & a2 & a3 & a4 & a5 & a6).
    inversion H1; inversion H2; subst.
    assert (E : s_take v1 = s_take v2) by (unfold s_take, v_err_now; rewrite a2, a5, a6; reflexivity).
    rewrite E in *. eapply (IH _ (Hd _) (v_take v1 (s_take v2)) (v_take v2 (s_take v2))); eauto.
    unfold core, v_take; cbn [vS vfail vcur vmark vtaken vknown]. rewrite a1, a2, a3, a4, a5, a6. reflexivity.
  - destruct (core_eq _ _ Hc) as (a1 & a2 & a3 & a4 & a5 & a6).
    inversion H1; inversion H2; subst. eapply (IH Hd (v_setmark v1) (v_setmark v2)); eauto.
    unfold core, v_setmark; cbn [vS vfail vcur vmark vtaken vknown]. rewrite a1, a2, a3, a5, a6. reflexivity.
  - destruct (core_eq _ _ Hc) as (a1 & a2 & a3 & a4 & a5 & a6).
    inversion H1; inversion H2; subst. rewrite a4 in *. eapply (IH _ (Hd _)); eauto.
  - destruct (core_eq _ _ Hc) as (a1 & a2 & a3 & a4 & a5 & a6).
    inversion H1; inversion H2; subst. rewrite a3 in *. eapply (IH _ (Hd _)); eauto.
  - inversion H1; inversion H2; subst. reflexivity.
  - inversion H1; inversion H2; subst. exact I.
Qed.

Lemma det_bind {A B} (p : prog A) (f : A -> prog B) : det p -> (forall a, det (f a)) -> det (pbind p f).
Proof.
  induction p as [a|k c IH|n c IH|off c IH|c IH|c IH|c IH|c IH|c IH|c IH|k|]; cbn [det pbind]; intros Hd Hf; auto.
Qed.

(* ------------------------------------------------------------------ *)
(* a run that has not seen the end of its input does not depend on what follows the part it saw *)
Definition extends_view (v vx : view) (T : bytes) : Prop :=
  vS vx = vS v ++ T /\ vcur vx = vcur v /\ vmark vx = vmark v /\ vtaken vx = vtaken v /\
  vknown vx = vknown v /\ vhwm vx = vhwm v /\ vreq vx = vreq v.

Lemma srun_known_mono {A} (p : prog A) : forall v a v', srun p v = ADone a v' -> vknown v = true -> vknown v' = true.
Proof.
  induction p as [a|k c IH|n c IH|off c IH|c IH|c IH|c IH|c IH|c IH|c IH|k|]; intros v a0 v0 H Hk; cbn [srun] in H;
    try discriminate.
  - inversion H; subst. exact Hk.
  - eapply IH; [exact H|]. cbn [after_peek vknown]. destruct (vpeek v k); [exact Hk|reflexivity].
  - destruct (vcur v + n <=? vhwm v); [|discriminate]. eapply IH; [exact H|exact Hk].
  - eapply IH; [exact H|exact Hk].
  - eapply IH; [exact H|exact Hk].
  - eapply IH; [exact H|exact Hk].
  - eapply IH; [exact H|exact Hk].
  - eapply IH; [exact H|exact Hk].
  - eapply IH; [exact H|exact Hk].
  - eapply IH; [exact H|exact Hk].
Qed.

Lemma nnth_app_some {A} (a b : list A) i x : nnth a i = Some x -> nnth (a ++ b) i = Some x.
Proof.
  intros H. unfold nnth in *. rewrite nth_error_app1; [exact H|]. apply nth_error_Some. congruence.
Qed.

Theorem srun_prefix {A} (p : prog A) : forall v vx T a v',
  WFV v -> extends_view v vx T -> srun p v = ADone a v' -> vknown v' = false ->
  exists vx', srun p vx = ADone a vx' /\ extends_view v' vx' T.
Proof.
  induction p as [a|k c IH|n c IH|off c IH|c IH|c IH|c IH|c IH|c IH|c IH|k|]; intros v vx T a0 v0 Hw He H Hk; cbn [srun] in *;
    try discriminate.
  - inversion H; subst. exists vx. split; [reflexivity|exact He].
  - destruct He as (e1 & e2 & e3 & e4 & e5 & e6 & e7).
    assert (Hkn : vknown (after_peek v k) = false).
    { destruct (vknown (after_peek v k)) eqn:E; [|reflexivity].
      rewrite (srun_known_mono _ _ _ _ H E) in Hk. discriminate. }
    destruct (vpeek v k) as [b|] eqn:Hp; [|cbn [after_peek vknown] in Hkn; rewrite Hp in Hkn; discriminate].
    assert (Hpx : vpeek vx k = Some b) by (unfold vpeek in *; rewrite e1, e2; apply nnth_app_some; exact Hp).
    rewrite Hpx. eapply (IH (Some b) (after_peek v k)); eauto using WFV_after_peek.
    unfold extends_view, after_peek; cbn [vS vcur vmark vtaken vknown vhwm vreq]. rewrite Hp, Hpx, e2, e3, e4, e5, e6, e7.
    repeat split; auto.
  - destruct He as (e1 & e2 & e3 & e4 & e5 & e6 & e7).
    rewrite e2, e6. destruct (vcur v + n <=? vhwm v); [|discriminate].
    eapply (IH (v_advance v n)); eauto. unfold extends_view, v_advance; cbn [vS vcur vmark vtaken vknown vhwm vreq].
    rewrite e2. repeat split; auto.
  - destruct He as (e1 & e2 & e3 & e4 & e5 & e6 & e7).
    assert (Hs : s_tryload vx off = s_tryload v off).
    { unfold s_tryload, word_at. rewrite e2, e6. destruct (vcur v + off + 8 <=? vhwm v) eqn:E; [|reflexivity].
      apply N.leb_le in E. f_equal. f_equal. rewrite e1. unfold window, nfirstn. unfold WFV in Hw.
      rewrite nskipn_app_l by lia. rewrite firstn_app.
      replace (N.to_nat 8 - length (nskipn (vcur v + off) (vS v)))%nat with 0%nat.
      - cbn [firstn]. apply app_nil_r.
      - unfold nskipn. rewrite skipn_length. unfold nlen in *. lia. }
    rewrite Hs. eapply (IH _ (v_loaded v off (s_tryload v off))); eauto.
    + apply WFV_loaded; [exact Hw|apply s_tryload_ok; exact Hw].
    + unfold extends_view, v_loaded; cbn [vS vcur vmark vtaken vknown vhwm vreq]. rewrite e2, e6. repeat split; auto.
  - destruct He as (e1 & e2 & e3 & e4 & e5 & e6 & e7).
    assert (Hkn : vknown v = false).
    { destruct (vknown v) eqn:E; [|reflexivity]. rewrite (srun_known_mono _ _ _ _ H E) in Hk. discriminate. }
    assert (Hs : s_atend vx = s_atend v) by (unfold s_atend; rewrite e5, Hkn; reflexivity).
    rewrite Hs. eapply IH; eauto. repeat split; auto.
  - destruct He as (e1 & e2 & e3 & e4 & e5 & e6 & e7).
    assert (Hkn : vknown v = false).
    { destruct (vknown v) eqn:E; [|reflexivity]. rewrite (srun_known_mono _ _ _ _ H E) in Hk. discriminate. }
    assert (Hs : s_parked vx = s_parked v) by (unfold s_parked; rewrite e5, Hkn; reflexivity).
    rewrite Hs. eapply IH; eauto. repeat split; auto.
  - destruct He as (e1 & e2 & e3 & e4 & e5 & e6 & e7).
    assert (Hkn : vknown v = false).
    { destruct (vknown v) eqn:E; [|reflexivity].
      assert (vknown (v_take v (s_take v)) = true) as E2 by exact E.
      rewrite (srun_known_mono _ _ _ _ H E2) in Hk. discriminate. }
    assert (Hs : s_take vx = s_take v) by (unfold s_take; rewrite e5, Hkn; reflexivity).
    rewrite Hs. eapply (IH _ (v_take v (s_take v))); eauto.
    unfold extends_view, v_take; cbn [vS vcur vmark vtaken vknown vhwm vreq]. rewrite e4. repeat split; auto.
  - destruct He as (e1 & e2 & e3 & e4 & e5 & e6 & e7).
    eapply (IH (v_setmark v)); eauto. unfold extends_view, v_setmark; cbn [vS vcur vmark vtaken vknown vhwm vreq].
    rewrite e2. repeat split; auto.
  - destruct He as (e1 & e2 & e3 & e4 & e5 & e6 & e7). rewrite e3. eapply IH; eauto. repeat split; auto.
  - destruct He as (e1 & e2 & e3 & e4 & e5 & e6 & e7). rewrite e2. eapply IH; eauto. repeat split; auto.
Qed.
