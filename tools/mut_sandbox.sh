#!/bin/bash
# tools/mut_sandbox.sh setup | run <patch.diff> <Cxx> [tier] | clean
# Runs the checks against a seeded change WITHOUT touching /repo: a copy of /repo (/tmp/mutr) and a copy of /verif
# (/tmp/mutv) whose hard-coded paths point at the copy.  Used while other work builds against /repo; the plain
# tools/try_mutation.sh applies the patch to /repo itself.
set -u
V=/tmp/mutv; R=/tmp/mutr
case "${1:-}" in
  setup)
    rm -rf "$V" "$R"
    rsync -a --exclude target /repo/ "$R"/
    rsync -a --exclude .git --exclude replays --exclude seeded --exclude .work/target /verif/ "$V"/
    sed -i "s#/repo/#$R/#g" "$V/harness/Cargo.toml"
    sed -i "s#/verif/.work/target#$V/.work/target#" "$V/harness/.cargo/config.toml"
    sed -i "s#\"/repo/Cargo.lock\"#\"$R/Cargo.lock\"#" "$V/tools/check.py"
    sed -i "s#^REPO = \"/repo\"#REPO = \"$R\"#" "$V/tools/translate.py"
    sed -i "s#\"/repo/flussab-btor2#\"$R/flussab-btor2#" "$V/tools/streams/docs.py"
    sed -i "s#\"/repo/flussab-btor2#\"$R/flussab-btor2#" "$V/tools/streams/pam.py"
    grep -rn '"/repo' "$V/tools" "$V/harness/Cargo.toml" | grep -v "print\|replay\|#" | head
    ;;
  run)
    patch="$(realpath "$2")"; prop="$3"; tier="${4:-quick}"
    cd "$R" && git checkout -q -- . && git apply "$patch" || { echo "patch does not apply"; exit 2; }
    cd "$V" && ./check "$prop" --tier "$tier"; rc=$?
    git -C "$R" checkout -q -- .
    echo "exit=$rc"; exit $rc
    ;;
  sync)  # bring the sandbox copy of /verif up to date (keeps its build outputs)
    rsync -a --exclude .git --exclude replays --exclude seeded --exclude .work --exclude harness/Cargo.toml --exclude harness/.cargo \
          --exclude tools/check.py --exclude tools/translate.py --exclude tools/streams/docs.py /verif/ "$V"/
    for f in tools/check.py tools/translate.py tools/streams/docs.py; do cp /verif/$f "$V/$f"; done
    sed -i "s#\"/repo/Cargo.lock\"#\"$R/Cargo.lock\"#" "$V/tools/check.py"
    sed -i "s#^REPO = \"/repo\"#REPO = \"$R\"#" "$V/tools/translate.py"
    sed -i "s#\"/repo/flussab-btor2#\"$R/flussab-btor2#" "$V/tools/streams/docs.py"
    sed -i "s#\"/repo/flussab-btor2#\"$R/flussab-btor2#" "$V/tools/streams/pam.py"
    rsync -a --exclude target /repo/ "$R"/
    ;;
  clean) rm -rf "$V" "$R" ;;
  *) echo "usage: $0 setup | run <patch> <Cxx> [tier] | sync | clean"; exit 2 ;;
esac
