(* ConverseBtor2.v — C03, second sentence, for BTOR2: for every text the parser accepts, writing the parsed lines
   and parsing that output again yields the same lines.
     accepted text S  --parse_btor2-->  ls  --write_lines-->  W  --parse_btor2-->  ls
   From Btor2Safe.parse_btor2_limits the lines are in the writer/parser domain (Btor2Rt.line_ok); what that theorem
   does not say is that the written text consists of bytes: the bytes of symbols and comments are bytes of S
   (lines_from_stream, with the partial-correctness logic of ConversePc.v), everything else the writer emits is
   ASCII.  Then RtAll.btor2_roundtrip_all_runs applies to W. *)
From Flussab Require Import Base Reader ListN Writer Parsed Prog Text TextSpec ProgProofs ScanProofs DigitsProofs.
From Flussab Require Import DecimalProofs SwarProofs ReaderProofs Simulation Consts Cnf CnfProofs CnfSafe Btor2 Btor2Proofs Btor2Rt Btor2Safe.
From Flussab Require Import RtAll ConversePc.
Local Open Scope N_scope.

(* ================================================================== *)
(* 1. the bytes of symbols and comments are bytes of the stream         *)

Definition bytes_in (S l : bytes) : Prop := Forall (fun b => In b S) l.
Definition optP {A} (P : A -> Prop) (o : option A) : Prop := match o with Some a => P a | None => True end.
Definition node_in (S : bytes) (n : node) : Prop := optP (bytes_in S) (n_symbol n) /\ optP (bytes_in S) (n_comment n).
Definition line_in (S : bytes) (l : line) : Prop :=
  match l with LComment c => bytes_in S c | LNode n => node_in S n end.

Lemma pc_rbnd {A B} S (m : PM (result A perr)) (f : A -> PM (result B perr)) (P : A -> Prop) (Q : B -> Prop) :
  pc S m (okP P) -> (forall a, P a -> pc S (f a) (okP Q)) -> pc S (rbnd m f) (okP Q).
Proof.
  intros Hm Hf. unfold rbnd. eapply pc_pbnd; [exact Hm|]. intros [a|e] Ha; [apply Hf; exact Ha|apply pc_pret; exact I].
Qed.

Lemma pc_rbnd_any {A B} S (m : PM (result A perr)) (f : A -> PM (result B perr)) (Q : B -> Prop) :
  (forall a, pc S (f a) (okP Q)) -> pc S (rbnd m f) (okP Q).
Proof. intros Hf. eapply (pc_rbnd S m f (fun _ => True)); [eapply pc_conseq; [apply pc_true|intros [a|e] _; exact I]|]. intros a _. apply Hf. Qed.

Section B.
Variable fuel : nat.
Variable S : bytes.

Lemma take_while_in n p : forall off acc, bytes_in S acc ->
  pcp S (take_while n p off acc) (fun r => bytes_in S (snd r)).
Proof.
  induction n as [|n IH]; intros off acc Hacc; cbn [take_while].
  - intros v a v' _ Hr. inversion Hr.
  - apply pcp_peek. intros [b|] Ho.
    + destruct (p b).
      * apply IH. constructor; [apply Ho; reflexivity|exact Hacc].
      * apply pcp_ret. cbn [snd]. apply Forall_rev. exact Hacc.
    + apply pcp_ret. cbn [snd]. apply Forall_rev. exact Hacc.
Qed.

Lemma comment_body_in : pc S (comment_body fuel) (okP (bytes_in S)).
Proof.
  unfold comment_body. eapply pc_pbnd; [apply pc_lift, take_while_in; constructor|].
  intros [offset body] Hb. cbn [snd] in Hb. apply pc_pbnd_any. intros o. apply pc_pbnd_any. intros [u|e].
  - apply pc_pbnd_any. intros _. apply pc_pret. exact Hb.
  - apply pc_pret. exact I.
Qed.

Lemma symbol_name_in : pc S (symbol_name fuel) (tokP (bytes_in S)).
Proof.
  unfold symbol_name. eapply pc_pbnd; [apply pc_lift, take_while_in; constructor|].
  intros [offset name] Hb. cbn [snd] in Hb. destruct (offset =? 0).
  - apply pc_pret. exact I.
  - apply pc_pbnd_any. intros _. apply pc_pret. exact Hb.
Qed.

Definition trailer_in (tr : option bytes * bool) : Prop := optP (bytes_in S) (fst tr).

Lemma node_trailer_in : pc S (node_trailer fuel) (okP trailer_in).
Proof.
  assert (Herr : forall (e : perr), pc S (pret (@Err (option bytes * bool) perr e)) (okP trailer_in))
    by (intros e; apply pc_pret; exact I).
  assert (Hun : pc S (let* e := unexpected in pret (@Err (option bytes * bool) perr e)) (okP trailer_in))
    by (apply pc_pbnd_any; intros e; apply Herr).
  unfold node_trailer. apply pc_pbnd_any. intros [[u|e]|]; [|apply Herr|].
  - apply pc_pbnd_any. intros [[u2|e]|]; [apply pc_pret; exact I|apply Herr|].
    eapply pc_pbnd; [apply symbol_name_in|]. intros [[symbol|e]|] Hsy; [|apply Herr|exact Hun].
    cbn [tokP] in Hsy. apply pc_pbnd_any. intros [[u3|e]|]; [|apply Herr|].
    + apply pc_rbnd_any. intros _. apply pc_pret. exact Hsy.
    + apply pc_pbnd_any. intros [[u4|e]|]; [apply pc_pret; exact Hsy|apply Herr|exact Hun].
  - apply pc_pbnd_any. intros [[u4|e]|]; [apply pc_pret; exact I|apply Herr|exact Hun].
Qed.

Lemma try_node_in : pc S (try_node fuel) (tokP (node_in S)).
Proof.
  unfold try_node. apply pc_pbnd_any. intros [[node_id|e]|]; [|apply pc_pret; exact I..].
  eapply pc_pbnd with (P := okP (node_in S)); [|intros [nd|e] H; apply pc_pret; exact H].
  apply pc_rbnd_any. intros _. apply pc_rbnd_any. intros nt. apply pc_rbnd_any. intros variant.
  eapply pc_rbnd; [apply node_trailer_in|]. intros [symbol cmt] Htr. apply pc_pret.
  unfold trailer_in in Htr. cbn [fst] in Htr. split; cbn [n_symbol n_comment]; [exact Htr|].
  destruct cmt; [constructor|exact I].
Qed.

Lemma update_comment_in l body : line_in S l -> bytes_in S body -> line_in S (update_comment l body).
Proof.
  destruct l as [c|n]; cbn [update_comment line_in]; intros Hl Hb; [exact Hb|].
  destruct Hl as [H1 _]. split; cbn [n_symbol n_comment]; [exact H1|exact Hb].
Qed.

Lemma next_line_in : pc S (next_line fuel) (okP (optP (line_in S))).
Proof.
  unfold next_line. apply pc_pbnd_any. intros _.
  eapply pc_pbnd; [apply try_node_in|]. intros tn Htn.
  eapply pc_pbnd with (P := okP (optP (line_in S))).
  - destruct tn as [[nd|e]|]; [apply pc_pret; exact Htn|apply pc_pret; exact I|].
    apply pc_pbnd_any. intros [[u|e]|]; [apply pc_pret; constructor|apply pc_pret; exact I|].
    apply pc_pbnd_any. intros [[u|e]|]; [apply pc_pret; exact I|apply pc_pret; exact I|].
    apply pc_pbnd_any. intros e. apply pc_pret. exact I.
  - intros [[l|]|e] Hfirst; [| |apply pc_pret; exact I].
    + cbn [okP optP] in Hfirst. destruct (has_comment l); [|apply pc_pret; exact Hfirst].
      eapply pc_rbnd; [apply comment_body_in|]. intros body Hb. apply pc_pret. cbn [okP optP].
      apply update_comment_in; assumption.
    + apply pc_pbnd_any. intros [io|]; apply pc_pret; exact I.
Qed.

Lemma drive_lines_in n : forall acc, Forall (line_in S) acc ->
  pc S (drive_lines fuel n acc) (fun r => Forall (line_in S) (fst r)).
Proof.
  induction n as [|n IH]; intros acc Hacc; cbn [drive_lines]; [apply pc_nofuel|].
  eapply pc_pbnd; [apply next_line_in|]. intros [[l|]|e] Hl.
  - apply IH. constructor; [exact Hl|exact Hacc].
  - apply pc_pret. cbn [fst]. apply Forall_rev. exact Hacc.
  - apply pc_pret. cbn [fst]. apply Forall_rev. exact Hacc.
Qed.

End B.

(* every symbol and comment the parser hands out consists of bytes of the stream: every run that ends normally,
   whatever the final outcome *)
Theorem lines_from_stream fuel S fail items fin lr' v' :
  aruns (parse_btor2 fuel lrs_init) (view_init S fail) (ADone (items, fin, lr') v') -> Forall (line_in S) items.
Proof.
  intros Hr. unfold parse_btor2 in Hr.
  exact (pc_elim S _ _ lrs_init (view_init S fail) (items, fin) lr' v' (drive_lines_in fuel S fuel [] (Forall_nil _)) eq_refl Hr).
Qed.

(* ================================================================== *)
(* 2. the written text consists of bytes                                *)

Definition BOKb (l : bytes) : Prop := Forall (fun b => b < 256) l.

Lemma BOKb_app a b : BOKb a -> BOKb b -> BOKb (a ++ b).
Proof. intros Ha Hb. apply Forall_app. split; assumption. Qed.
Lemma BOKb_cons x l : x < 256 -> BOKb l -> BOKb (x :: l).
Proof. intros Hx Hl. constructor; assumption. Qed.
Lemma BOKb_nil : BOKb []. Proof. constructor. Qed.

Lemma BOKb_forallb (p : byte -> bool) l : (forall b, p b = true -> b < 256) -> forallb p l = true -> BOKb l.
Proof.
  intros Hp H. apply Forall_forall. intros x Hx. apply Hp. rewrite forallb_forall in H. apply H. exact Hx.
Qed.

Lemma is_dig_lt b : is_dig b = true -> b < 256.
Proof. unfold is_dig. intros H. apply andb_prop in H. destruct H as [_ H]. apply N.leb_le in H. lia. Qed.
Lemma is_lower_lt b : is_lower b = true -> b < 256.
Proof. unfold is_lower. intros H. apply andb_prop in H. destruct H as [_ H]. apply N.leb_le in H. lia. Qed.
Lemma is_bin_lt b : is_bin_digit b = true -> b < 256.
Proof. unfold is_bin_digit. intros H. apply orb_prop in H. destruct H as [H|H]; apply N.eqb_eq in H; lia. Qed.
Lemma is_hex_lt b : is_hex_digit b = true -> b < 256.
Proof.
  unfold is_hex_digit. intros H. apply orb_prop in H. destruct H as [H|H]; [apply orb_prop in H; destruct H as [H|H]|];
    apply andb_prop in H; destruct H as [_ H]; apply N.leb_le in H; lia.
Qed.

Lemma BOKb_dec n : BOKb (decimal_N n).
Proof. apply (BOKb_forallb is_dig); [exact is_dig_lt|apply decimal_N_digits]. Qed.

Lemma BOKb_in S l : BOKb S -> bytes_in S l -> BOKb l.
Proof.
  intros HS Hl. eapply Forall_impl; [|exact Hl]. intros b Hb. unfold BOKb in HS. rewrite Forall_forall in HS. apply HS. exact Hb.
Qed.

Ltac bok :=
  repeat first [ apply BOKb_nil | apply BOKb_dec | assumption
               | apply BOKb_app | apply BOKb_cons; [lia|] ].

Lemma BOKb_write_indices o : BOKb (write_indices o).
Proof. destruct o; cbn [write_indices app]; bok. Qed.

Lemma BOKb_const_dec cs : dec_const_ok cs -> BOKb cs.
Proof.
  destruct cs as [|c ds]; cbn [dec_const_ok]; [contradiction|]. destruct (c =? 45) eqn:E.
  - intros H. apply N.eqb_eq in E. subst c. apply BOKb_cons; [lia|]. exact (BOKb_forallb is_dig ds is_dig_lt H).
  - intros H. exact (BOKb_forallb is_dig (c :: ds) is_dig_lt H).
Qed.

Lemma BOKb_vargs vv : vv_ok vv -> BOKb (vargs vv).
Proof.
  destruct vv as [[cs|cs|cs| | |]| | |[o a0|o a0 a1|o a0 a1 a2]]; cbn [vv_ok const_ok vargs]; intros H; bok.
  - exact (BOKb_forallb is_bin_digit cs is_bin_lt (proj2 H)).
  - apply BOKb_const_dec. exact H.
  - exact (BOKb_forallb is_hex_digit cs is_hex_lt (proj2 H)).
  - apply BOKb_write_indices.
Qed.

Lemma BOKb_ids nodes : BOKb (ids_text nodes).
Proof. unfold ids_text. induction nodes as [|x r IH]; cbn [flat_map]; bok. Qed.

Lemma BOKb_nargs nv : nv_ok nv -> BOKb (nargs nv).
Proof.
  destruct nv as [[w|d c]|vsort vv|state asort k value|k value|nodes]; cbn [nv_ok nargs]; intros H.
  - apply BOKb_cons; [lia|]. apply BOKb_app; [vm_compute; repeat constructor|bok].
  - apply BOKb_cons; [lia|]. apply BOKb_app; [vm_compute; repeat constructor|bok].
  - destruct H as [_ H]. pose proof (BOKb_vargs vv H). bok.
  - bok.
  - bok.
  - pose proof (BOKb_ids nodes). bok.
Qed.

Lemma BOKb_write_line S l : BOKb S -> line_ok l -> line_in S l -> BOKb (write_line l).
Proof.
  intros HS Hok Hin. destruct l as [cm|[id nv sym cmt]].
  - cbn [line_in] in Hin. unfold write_line, write_line_unterminated. cbn [app].
    apply BOKb_cons; [lia|]. apply BOKb_app; [eapply BOKb_in; eassumption|bok].
  - rewrite write_line_node_shape. cbn [line_ok] in Hok. destruct Hok as (_ & Hnv & _ & _).
    cbn [n_id n_variant n_symbol n_comment] in Hnv.
    destruct Hin as [Hsy Hcm]. cbn [n_symbol n_comment] in Hsy, Hcm.
    apply BOKb_app; [apply BOKb_dec|]. apply BOKb_cons; [lia|].
    apply BOKb_app; [exact (BOKb_forallb is_lower _ is_lower_lt (proj1 (nkw_lower nv)))|].
    apply BOKb_app; [apply BOKb_nargs; exact Hnv|].
    apply BOKb_app.
    + unfold trailer_text. apply BOKb_app.
      * destruct sym as [sy|]; [|apply BOKb_nil]. apply BOKb_cons; [lia|]. eapply BOKb_in; [exact HS|exact Hsy].
      * destruct (is_some cmt); bok.
    + destruct cmt as [cm|]; [|apply BOKb_nil]. apply BOKb_app; [eapply BOKb_in; [exact HS|exact Hcm]|bok].
Qed.

Lemma BOKb_write_lines S ls : BOKb S -> Forall line_ok ls -> Forall (line_in S) ls -> BOKb (write_lines ls).
Proof.
  intros HS Hok Hin. unfold write_lines. induction ls as [|l ls IH]; cbn [flat_map]; [apply BOKb_nil|].
  inversion Hok; subst. inversion Hin; subst. apply BOKb_app; [eapply BOKb_write_line; eassumption|apply IH; assumption].
Qed.

(* ================================================================== *)
(* 3. the theorems                                                      *)

(* what an accepted text yields is in the domain of the writer/parser round trip, and its written form is a text
   the parser's preconditions cover: bytes, every one of them a byte of S or ASCII *)
Theorem btor2_accepted_rewritable (fuel : nat) (S : bytes) (ls : list line) (fin : final) lr' v' (fail : option N) :
  Forall (fun b => b < 256) S -> nlen S < 2 ^ 62 -> (length S < fuel)%nat ->
  aruns (parse_btor2 fuel lrs_init) (view_init S fail) (ADone (ls, fin, lr') v') ->
  Forall line_ok ls /\ Forall (fun b => b < 256) (write_lines ls).
Proof.
  intros Hb Hl Hf Hr. pose proof (parse_btor2_limits fuel S fail ls fin lr' v' Hb Hl Hf Hr) as Hok.
  split; [exact Hok|]. apply (BOKb_write_lines S); [exact Hb|exact Hok|]. eapply lines_from_stream. exact Hr.
Qed.
Print Assumptions btor2_accepted_rewritable.

(* C03, second sentence, BTOR2, every admissible run of both parses.
   Hypotheses: S consists of bytes and is shorter than 2^62 (positions do not wrap) and than the model's loop fuel;
   the same two size conditions for the written text (it is a different text: the writer normalizes blanks, so it
   can be shorter or -- a comment directly behind a node gets its " ;" -- longer than S). *)
Theorem btor2_converse_all_runs (fuel : nat) (S : bytes) (ls : list line) lr' v' r :
  Forall (fun b => b < 256) S -> nlen S < 2 ^ 62 -> (length S < fuel)%nat ->
  (length (write_lines ls) < fuel)%nat -> nlen (write_lines ls) < 2 ^ 62 ->
  aruns (parse_btor2 fuel lrs_init) (view_init S None) (ADone (ls, FOk, lr') v') ->
  aruns (parse_btor2 fuel lrs_init) (view_init (write_lines ls) None) r ->
  exists lr2 v2, r = ADone ((ls, FOk), lr2) v2.
Proof.
  intros Hb Hl Hf Hfw Hlw Hr Hr2.
  destruct (btor2_accepted_rewritable fuel S ls FOk lr' v' None Hb Hl Hf Hr) as [Hok Hbw].
  exact (btor2_roundtrip_all_runs fuel ls r Hok Hbw Hfw Hlw Hr2).
Qed.
Print Assumptions btor2_converse_all_runs.

(* the same for concrete runs of the DeferredReader model: the accepted text from any honest source in any pieces
   with any chunk size, the written text likewise *)
Theorem btor2_converse_concrete (fuel : nat) (sr1 sr2 : source) (c1 c2 : N) (ls : list line) lr1 s1 :
  let S := fst (stream_of sr1) in
  Forall (fun b => b < 256) S -> nlen S < 2 ^ 62 -> (length S < fuel)%nat ->
  (length (write_lines ls) < fuel)%nat -> nlen (write_lines ls) < 2 ^ 62 ->
  NoLie (events sr1) -> 1 <= c1 -> snd (stream_of sr1) = None ->
  crun (parse_btor2 fuel lrs_init) (set_chunk (reader_init sr1) c1) = CDone ((ls, FOk), lr1) s1 ->
  NoLie (events sr2) -> 1 <= c2 -> stream_of sr2 = (write_lines ls, None) ->
  exists lr2 s2, crun (parse_btor2 fuel lrs_init) (set_chunk (reader_init sr2) c2) = CDone ((ls, FOk), lr2) s2.
Proof.
  intros S Hb Hl Hf Hfw Hlw HN1 Hc1 Hs1 Hrun HN2 Hc2 Hs2.
  destruct (parse_btor2_any_chunking fuel sr1 c1 HN1 Hc1 Hb Hl Hf) as (x & v' & s' & E & C).
  rewrite Hrun in C. inversion C; subst x s'.
  assert (Har : aruns (parse_btor2 fuel lrs_init) (view_init S None) (ADone (ls, FOk, lr1) v')).
  { rewrite <- E. rewrite <- Hs1. apply srun_aruns. unfold WFV. cbn. lia. }
  destruct (btor2_accepted_rewritable fuel S ls FOk lr1 v' None Hb Hl Hf Har) as [Hok Hbw].
  exact (btor2_roundtrip_concrete fuel ls sr2 c2 Hok Hbw Hfw Hlw HN2 Hc2 Hs2).
Qed.
Print Assumptions btor2_converse_concrete.

(* non-vacuity: an accepted text that is not in the writer's layout (leading blank line, several blanks between lines,
   no final newline): "\n1 sort bitvec 8\n\n  2 input 1 x ; c" *)
Example btor2_converse_example :
  let S := [10; 49;32;115;111;114;116;32;98;105;116;118;101;99;32;56;10; 10; 32;32;
            50;32;105;110;112;117;116;32;49;32;120;32;59;32;99] in
  exists ls lr v', srun (parse_btor2 100 lrs_init) (view_init S None) = ADone (ls, FOk, lr) v' /\
                   write_lines ls <> S /\
                   exists lr2 v2, srun (parse_btor2 100 lrs_init) (view_init (write_lines ls) None) = ADone (ls, FOk, lr2) v2.
Proof.
  cbv zeta. eexists. eexists. eexists. split; [vm_compute; reflexivity|]. split; [vm_compute; discriminate|].
  eexists. eexists. vm_compute. reflexivity.
Qed.
