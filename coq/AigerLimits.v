(* AigerLimits.v — T4 for the AIGER parsers in plain terms: what a successful parse guarantees about the header
   and the items handed out (derived from parse_aag_limits_fc / parse_aig_limits_fc of AigerSafe.v). *)
From Flussab Require Import Base Reader ListN Writer Parsed Prog Text TextSpec ProgProofs ScanProofs DigitsProofs.
From Flussab Require Import ReaderProofs Simulation Consts Cnf CnfProofs ErrProofs Varint Aiger AigerProofs Hoare CnfSafe AigerSafe.
Ltac Zify.zify_post_hook ::= Z.to_euclidean_division_equations.

(* `code as $t` is the identity on the codes that pass the checks *)
Lemma from_code_id maxc c : c <= maxc -> from_code maxc c = c.
Proof. intros H. unfold from_code. apply N.mod_small. lia. Qed.

Lemma HdrOK_ml maxc hd : 1 <= maxc -> HdrOK maxc hd -> a_max_var hd * 2 + 1 <= maxc.
Proof. intros H1 (Hm & _). lia. Qed.

Lemma HdrOK_sum maxc hd : HdrOK maxc hd -> a_inputs hd + a_latches hd + a_ands hd <= a_max_var hd.
Proof. intros (_ & h1 & h2 & h3). lia. Qed.

(* ---------- the items, without from_code ---------- *)
Definition RLine (ml : N) (asg : bool) (mk : N -> item) (x : item) : Prop := exists c, x = mk c /\ LitP ml asg c.
Definition RLatchA (ml : N) (x : item) : Prop :=
  exists s n i, x = ILatch s n i /\ LitP ml true s /\ LitP ml false n.
Definition RLatchB (ml : N) (x : item) : Prop := exists n i, x = IOLatch n i /\ LitP ml false n.
Definition RAndA (ml : N) (x : item) : Prop :=
  exists o a b, x = IAnd o a b /\ LitP ml true o /\ LitP ml false a /\ LitP ml false b.
(* binary and gates: the k-th gate of the section defines lhs + 2k (consecutive even literals); its inputs are
   delta coded: in0 <= lhs + 2k, in1 <= in0 *)
Fixpoint andsR (lhs : N) (l : list item) : Prop :=
  match l with
  | [] => True
  | x :: r => (exists a b, x = IOAnd a b /\ a <= lhs /\ b <= a) /\ andsR (lhs + 2) r
  end.

Lemma PLine_R maxc ml asg mk x : ml <= maxc -> PLine maxc ml asg mk x -> RLine ml asg mk x.
Proof. intros Hml (c & -> & Hc). exists c. split; [|exact Hc]. rewrite from_code_id; [reflexivity|]. destruct Hc as [Hc _]. lia. Qed.

Lemma PLatchA_R maxc ml x : ml <= maxc -> PLatchA maxc ml x -> RLatchA ml x.
Proof.
  intros Hml (s & n & i & -> & Hs & Hn). exists s, n, i. split; [|split; assumption].
  rewrite !from_code_id; [reflexivity|destruct Hn as [H _]; lia|destruct Hs as [H _]; lia].
Qed.

Lemma PLatchB_R maxc ml x : ml <= maxc -> PLatchB maxc ml x -> RLatchB ml x.
Proof. intros Hml (n & i & -> & Hn). exists n, i. split; [|exact Hn]. rewrite from_code_id; [reflexivity|destruct Hn as [H _]; lia]. Qed.

Lemma PAndA_R maxc ml x : ml <= maxc -> PAndA maxc ml x -> RAndA ml x.
Proof.
  intros Hml (o & a & b & -> & Ho & Ha & Hb). exists o, a, b. split; [|split; [exact Ho|split; assumption]].
  rewrite !from_code_id; [reflexivity|destruct Hb as [H _]; lia|destruct Ha as [H _]; lia|destruct Ho as [H _]; lia].
Qed.

Lemma andsB_R maxc : forall l lhs, lhs + 2 * nlen l <= maxc + 2 -> andsB maxc lhs l -> andsR lhs l.
Proof.
  induction l as [|x r IH]; intros lhs Hb H; cbn [andsB andsR] in *; [exact I|].
  rewrite nlen_cons in Hb. destruct H as [(a & b & -> & Ha & Hb') Hr]. split.
  - exists a, b. split; [|split; assumption]. rewrite !from_code_id; [reflexivity|lia|lia].
  - apply IH; [lia|exact Hr].
Qed.

Lemma Sec_impl n (P Q : item -> Prop) l : (forall x, P x -> Q x) -> Sec n P l -> Sec n Q l.
Proof. intros H [Hn Hl]. split; [exact Hn|]. eapply Forall_impl; [|exact Hl]. exact H. Qed.

(* the ascii format: the items are the sections in file order, each with as many items as the header says *)
Definition AagShape (hd : aheader) (items : list item) : Prop :=
  let ml := a_max_var hd * 2 + 1 in
  exists ins lats outs bads cons jss jls fairs ands tail,
    items = ins ++ lats ++ outs ++ bads ++ cons ++ jss ++ jls ++ fairs ++ ands ++ tail /\
    Sec (a_inputs hd) (RLine ml true IInput) ins /\
    Sec (a_latches hd) (RLatchA ml) lats /\
    Sec (a_outputs hd) (RLine ml false IOutput) outs /\
    Sec (a_bad hd) (RLine ml false IBad) bads /\
    Sec (a_constraints hd) (RLine ml false IConstraint) cons /\
    Sec (a_justice hd) PJs jss /\
    Sec (jsum jss) (RLine ml false IJustice) jls /\
    Sec (a_fairness hd) (RLine ml false IFairness) fairs /\
    Sec (a_ands hd) (RAndA ml) ands /\
    Forall (PTail hd) tail.

(* the binary format: inputs, latch states and gate outputs are implicit: 2, 4, ..., 2I; 2(I+1), ..., 2(I+L);
   2(I+L+1), ..., 2(I+L+A) *)
Definition AigShape (hd : aheader) (items : list item) : Prop :=
  let ml := a_max_var hd * 2 + 1 in
  exists lats outs bads cons jss jls fairs ands tail,
    items = lats ++ outs ++ bads ++ cons ++ jss ++ jls ++ fairs ++ ands ++ tail /\
    Sec (a_latches hd) (RLatchB ml) lats /\
    Sec (a_outputs hd) (RLine ml false IOutput) outs /\
    Sec (a_bad hd) (RLine ml false IBad) bads /\
    Sec (a_constraints hd) (RLine ml false IConstraint) cons /\
    Sec (a_justice hd) PJs jss /\
    Sec (jsum jss) (RLine ml false IJustice) jls /\
    Sec (a_fairness hd) (RLine ml false IFairness) fairs /\
    (nlen ands = a_ands hd /\ andsR (2 * (a_inputs hd + a_latches hd + 1)) ands) /\
    Forall (PTail hd) tail.

Lemma AagL_shape maxc hd items : 1 <= maxc -> HdrOK maxc hd -> AagL maxc hd items -> AagShape hd items.
Proof.
  intros H1 Hhd H. pose proof (HdrOK_ml maxc hd H1 Hhd) as Hml. unfold AagL, MidL, SeqD in H. cbv zeta in H.
  destruct H as (ins & r1 & -> & Hins & lats & r2 & -> & Hlats & outs & r3 & -> & Houts & bads & r4 & -> & Hbads &
                 cons & r5 & -> & Hcons & jss & r6 & -> & Hjss & jls & r7 & -> & Hjls & fairs & r8 & -> & Hfairs &
                 ands & tail & -> & Hands & Htail).
  exists ins, lats, outs, bads, cons, jss, jls, fairs, ands, tail. split; [reflexivity|].
  split; [eapply Sec_impl; [|exact Hins]; intros x; apply PLine_R; exact Hml|].
  split; [eapply Sec_impl; [|exact Hlats]; intros x; apply PLatchA_R; exact Hml|].
  split; [eapply Sec_impl; [|exact Houts]; intros x; apply PLine_R; exact Hml|].
  split; [eapply Sec_impl; [|exact Hbads]; intros x; apply PLine_R; exact Hml|].
  split; [eapply Sec_impl; [|exact Hcons]; intros x; apply PLine_R; exact Hml|].
  split; [exact Hjss|].
  split; [eapply Sec_impl; [|exact Hjls]; intros x; apply PLine_R; exact Hml|].
  split; [eapply Sec_impl; [|exact Hfairs]; intros x; apply PLine_R; exact Hml|].
  split; [eapply Sec_impl; [|exact Hands]; intros x; apply PAndA_R; exact Hml|].
  exact Htail.
Qed.

Lemma AigL_shape maxc hd items : 1 <= maxc -> HdrOK maxc hd -> AigL maxc hd items -> AigShape hd items.
Proof.
  intros H1 Hhd H. pose proof (HdrOK_ml maxc hd H1 Hhd) as Hml. pose proof (HdrOK_sum maxc hd Hhd) as Hsum.
  unfold AigL, MidL, SeqD in H. cbv zeta in H.
  destruct H as (lats & r2 & -> & Hlats & outs & r3 & -> & Houts & bads & r4 & -> & Hbads &
                 cons & r5 & -> & Hcons & jss & r6 & -> & Hjss & jls & r7 & -> & Hjls & fairs & r8 & -> & Hfairs &
                 ands & tail & -> & [Hn Hands] & Htail).
  exists lats, outs, bads, cons, jss, jls, fairs, ands, tail. split; [reflexivity|].
  split; [eapply Sec_impl; [|exact Hlats]; intros x; apply PLatchB_R; exact Hml|].
  split; [eapply Sec_impl; [|exact Houts]; intros x; apply PLine_R; exact Hml|].
  split; [eapply Sec_impl; [|exact Hbads]; intros x; apply PLine_R; exact Hml|].
  split; [eapply Sec_impl; [|exact Hcons]; intros x; apply PLine_R; exact Hml|].
  split; [exact Hjss|].
  split; [eapply Sec_impl; [|exact Hjls]; intros x; apply PLine_R; exact Hml|].
  split; [eapply Sec_impl; [|exact Hfairs]; intros x; apply PLine_R; exact Hml|].
  split; [|exact Htail]. split; [exact Hn|]. eapply andsB_R; [|exact Hands]. rewrite Hn. lia.
Qed.

(* ---------- every literal handed out is at most 2M + 1 ---------- *)
Definition item_lits (x : item) : list N :=
  match x with
  | IInput l | IOutput l | IBad l | IConstraint l | IJustice l | IFairness l => [l]
  | ILatch s n _ => [s; n]
  | IOLatch n _ => [n]
  | IAnd o a b => [o; a; b]
  | IOAnd a b => [a; b]
  | IJusticeSize _ | ISymbol _ _ _ | IComment _ => []
  end.
(* the literals an item defines (ascii) *)
Definition item_defs (x : item) : list N :=
  match x with
  | IInput l => [l]
  | ILatch s _ _ => [s]
  | IAnd o _ _ => [o]
  | _ => []
  end.

Definition LitsLe (ml : N) (x : item) : Prop := Forall (fun l => l <= ml) (item_lits x).
Definition DefsOk (x : item) : Prop := Forall (fun l => l <> 0 /\ N.land l 1 = 0) (item_defs x).

Lemma RLine_lits ml asg mk x :
  (forall c, item_lits (mk c) = [c]) -> RLine ml asg mk x -> LitsLe ml x.
Proof. intros Hmk (c & -> & [Hc _]). unfold LitsLe. rewrite Hmk. constructor; [exact Hc|constructor]. Qed.

Lemma PJs_lits ml x : PJs x -> LitsLe ml x.
Proof. intros (c & ->). constructor. Qed.

Lemma PTail_lits hd ml x : PTail hd x -> LitsLe ml x.
Proof. intros [(k & i & n & -> & _)|(c & ->)]; constructor. Qed.

Lemma andsR_lits ml : forall l lhs, lhs + 2 * nlen l <= ml + 2 -> andsR lhs l -> Forall (LitsLe ml) l.
Proof.
  induction l as [|x r IH]; intros lhs Hb H; cbn [andsR] in H; [constructor|].
  rewrite nlen_cons in Hb. destruct H as [(a & b & -> & Ha & Hb') Hr]. constructor.
  - unfold LitsLe. cbn [item_lits]. constructor; [lia|]. constructor; [lia|constructor].
  - apply (IH (lhs + 2)); [lia|exact Hr].
Qed.

Lemma Sec_Forall n (P Q : item -> Prop) l : (forall x, P x -> Q x) -> Sec n P l -> Forall Q l.
Proof. intros H [_ Hl]. eapply Forall_impl; [|exact Hl]. exact H. Qed.

Lemma AagShape_lits hd items : AagShape hd items -> Forall (LitsLe (a_max_var hd * 2 + 1)) items.
Proof.
  intros (ins & lats & outs & bads & cons & jss & jls & fairs & ands & tail & -> & h1 & h2 & h3 & h4 & h5 & h6 & h7 & h8 & h9 & h10).
  cbv zeta in *. set (ml := a_max_var hd * 2 + 1) in *.
  repeat (apply Forall_app; split).
  - eapply Sec_Forall; [|exact h1]. intros x. apply RLine_lits. reflexivity.
  - eapply Sec_Forall; [|exact h2]. intros x (s & n & i & -> & [Hs _] & [Hn _]). unfold LitsLe. cbn [item_lits].
    constructor; [exact Hs|]. constructor; [exact Hn|constructor].
  - eapply Sec_Forall; [|exact h3]. intros x. apply RLine_lits. reflexivity.
  - eapply Sec_Forall; [|exact h4]. intros x. apply RLine_lits. reflexivity.
  - eapply Sec_Forall; [|exact h5]. intros x. apply RLine_lits. reflexivity.
  - eapply Sec_Forall; [|exact h6]. intros x. apply PJs_lits.
  - eapply Sec_Forall; [|exact h7]. intros x. apply RLine_lits. reflexivity.
  - eapply Sec_Forall; [|exact h8]. intros x. apply RLine_lits. reflexivity.
  - eapply Sec_Forall; [|exact h9]. intros x (o & a & b & -> & [Ho _] & [Ha _] & [Hb _]). unfold LitsLe. cbn [item_lits].
    constructor; [exact Ho|]. constructor; [exact Ha|]. constructor; [exact Hb|constructor].
  - eapply Forall_impl; [|exact h10]. intros x. apply (PTail_lits hd).
Qed.

Lemma AigShape_lits maxc hd items : HdrOK maxc hd -> AigShape hd items -> Forall (LitsLe (a_max_var hd * 2 + 1)) items.
Proof.
  intros Hhd (lats & outs & bads & cons & jss & jls & fairs & ands & tail & -> & h2 & h3 & h4 & h5 & h6 & h7 & h8 & [h9 h9'] & h10).
  pose proof (HdrOK_sum maxc hd Hhd) as Hsum.
  cbv zeta in *. set (ml := a_max_var hd * 2 + 1) in *.
  repeat (apply Forall_app; split).
  - eapply Sec_Forall; [|exact h2]. intros x (n & i & -> & [Hn _]). unfold LitsLe. cbn [item_lits].
    constructor; [exact Hn|constructor].
  - eapply Sec_Forall; [|exact h3]. intros x. apply RLine_lits. reflexivity.
  - eapply Sec_Forall; [|exact h4]. intros x. apply RLine_lits. reflexivity.
  - eapply Sec_Forall; [|exact h5]. intros x. apply RLine_lits. reflexivity.
  - eapply Sec_Forall; [|exact h6]. intros x. apply PJs_lits.
  - eapply Sec_Forall; [|exact h7]. intros x. apply RLine_lits. reflexivity.
  - eapply Sec_Forall; [|exact h8]. intros x. apply RLine_lits. reflexivity.
  - eapply andsR_lits; [|exact h9']. rewrite h9. unfold ml. lia.
  - eapply Forall_impl; [|exact h10]. intros x. apply (PTail_lits hd).
Qed.

(* the defining literals of the ascii format are even and not 0 *)
Lemma AagShape_defs hd items : AagShape hd items -> Forall DefsOk items.
Proof.
  intros (ins & lats & outs & bads & cons & jss & jls & fairs & ands & tail & -> & h1 & h2 & h3 & h4 & h5 & h6 & h7 & h8 & h9 & h10).
  assert (Hline : forall ml mk x, (forall c, item_defs (mk c) = []) -> RLine ml false mk x -> DefsOk x).
  { intros ml mk x Hmk (c & -> & _). unfold DefsOk. rewrite Hmk. constructor. }
  repeat (apply Forall_app; split).
  - eapply Sec_Forall; [|exact h1]. intros x (c & -> & [_ Hc]). unfold DefsOk. cbn [item_defs].
    constructor; [apply Hc; reflexivity|constructor].
  - eapply Sec_Forall; [|exact h2]. intros x (s & n & i & -> & [_ Hs] & _). unfold DefsOk. cbn [item_defs].
    constructor; [apply Hs; reflexivity|constructor].
  - eapply Sec_Forall; [|exact h3]. intros x. apply Hline. reflexivity.
  - eapply Sec_Forall; [|exact h4]. intros x. apply Hline. reflexivity.
  - eapply Sec_Forall; [|exact h5]. intros x. apply Hline. reflexivity.
  - eapply Sec_Forall; [|exact h6]. intros x (c & ->). constructor.
  - eapply Sec_Forall; [|exact h7]. intros x. apply Hline. reflexivity.
  - eapply Sec_Forall; [|exact h8]. intros x. apply Hline. reflexivity.
  - eapply Sec_Forall; [|exact h9]. intros x (o & a & b & -> & [_ Ho] & _). unfold DefsOk. cbn [item_defs].
    constructor; [apply Ho; reflexivity|constructor].
  - eapply Forall_impl; [|exact h10]. intros x [(k & i & n & -> & _)|(c & ->)]; constructor.
Qed.

(* ================================================================== *)
(* T4, ascii: a successful parse returns a header within the limits of the literal type and of itself, and the
   items section by section: as many as the header says, every literal at most 2M+1, the defining literals
   (inputs, latch states, gate outputs) even and not 0.
   [1 <= maxc]: Lit::MAX_CODE of the literal type (255, 65535, ... for u8, u16, ...): needed for `code as $t`
   to be the identity on codes up to 2M+1 <= 2((maxc-1)/2)+1. *)
Theorem parse_aag_limits fuel maxc S fail ohd items lr' v' :
  Forall (fun b => b < 256) S -> nlen S < 2 ^ 62 -> (length S < fuel)%nat -> 1 <= maxc ->
  aruns (parse_aag fuel maxc lrs_init) (view_init S fail) (ADone (ohd, items, FOk, lr') v') ->
  exists hd, ohd = Some hd /\
    a_max_var hd <= (maxc - 1) / 2 /\ a_inputs hd + a_latches hd + a_ands hd <= a_max_var hd /\
    AagShape hd items /\
    Forall (LitsLe (a_max_var hd * 2 + 1)) items /\ Forall DefsOk items.
Proof.
  intros Hb Hl Hf H1 Hr.
  destruct (parse_aag_limits_fc fuel maxc S fail ohd items lr' v' Hb Hl Hf Hr) as (hd & -> & Hhd & HL).
  pose proof (AagL_shape maxc hd items H1 Hhd HL) as Hsh.
  exists hd. split; [reflexivity|]. split; [exact (proj1 Hhd)|]. split; [eapply HdrOK_sum; exact Hhd|].
  split; [exact Hsh|]. split; [apply AagShape_lits; exact Hsh|apply (AagShape_defs hd); exact Hsh].
Qed.
Print Assumptions parse_aag_limits.

(* T4, binary: the same; the gate inputs are delta decoded: for the k-th gate (defining 2(I+L+1+k)),
   in0 <= 2(I+L+1+k) and in1 <= in0 *)
Theorem parse_aig_limits fuel maxc S fail ohd items lr' v' :
  Forall (fun b => b < 256) S -> nlen S < 2 ^ 62 -> (length S < fuel)%nat -> 1 <= maxc ->
  aruns (parse_aig fuel maxc lrs_init) (view_init S fail) (ADone (ohd, items, FOk, lr') v') ->
  exists hd, ohd = Some hd /\
    a_max_var hd <= (maxc - 1) / 2 /\ a_inputs hd + a_latches hd + a_ands hd <= a_max_var hd /\
    AigShape hd items /\
    Forall (LitsLe (a_max_var hd * 2 + 1)) items.
Proof.
  intros Hb Hl Hf H1 Hr.
  destruct (parse_aig_limits_fc fuel maxc S fail ohd items lr' v' Hb Hl Hf Hr) as (hd & -> & Hhd & HL).
  pose proof (AigL_shape maxc hd items H1 Hhd HL) as Hsh.
  exists hd. split; [reflexivity|]. split; [exact (proj1 Hhd)|]. split; [eapply HdrOK_sum; exact Hhd|].
  split; [exact Hsh|]. eapply AigShape_lits; eassumption.
Qed.
Print Assumptions parse_aig_limits.

(* the five literal types *)
Lemma max_codes_ok : Forall (fun maxc => 1 <= maxc) [max_code_u8; max_code_u16; max_code_u32; max_code_u64; max_code_usize].
Proof. repeat constructor; cbv; discriminate. Qed.

(* ================================================================== *)
(* examples: the statements are about real runs *)

(* "aag 1 1 0 1 0\n2\n2\n" *)
Example aag_small :
  let S := [97;97;103;32;49;32;49;32;48;32;49;32;48;10;50;10;50;10] in
  exists v', srun (parse_aag 100 max_code_u8 lrs_init) (view_init S None)
             = ADone (Some (mk_header 1 1 0 1 0 0 0 0 0), [IInput 2; IOutput 2], FOk, {| l_line := 4; l_start := 18 |}) v'.
Proof. eexists. vm_compute. reflexivity. Qed.

(* the same bytes from a source that fails behind them, with a comment section that reads to the end of the
   input: "aag 0 0 0 0 0\nc\nabc" then the error 7: the error is reported, not the clean end *)
Example aag_failing_comment :
  let S := [97;97;103;32;48;32;48;32;48;32;48;32;48;10;99;10;97;98;99] in
  exists v', srun (parse_aag 100 max_code_u8 lrs_init) (view_init S (Some 7))
             = ADone (Some (mk_header 0 0 0 0 0 0 0 0 0), [], FErr (EIo 7), {| l_line := 3; l_start := 16 |}) v'.
Proof. eexists. vm_compute. reflexivity. Qed.

(* The witness of the former known finding K1 (fixed by flussab 530b52f, defect D15): "aig 5 0 0 0 5\n", five gates
   02 00 / 04 00 / 06 00 / 08 00 / 0A 00 (the fifth gate's first delta is the byte 10), then "x".  The x is at line 3,
   column 2, and that is what the parser reports (before the fix: line 2, column 11, which is no position of the input). *)
Definition k1_bytes : bytes := [97;105;103;32;53;32;48;32;48;32;48;32;53;10; 2;0; 4;0; 6;0; 8;0; 10;0; 120].

Example k1_reported :
  exists v', srun (parse_aig 100 max_code_u8 lrs_init) (view_init k1_bytes None)
             = ADone (Some (mk_header 5 0 0 0 5 0 0 0 0), [IOAnd 0 0; IOAnd 0 0; IOAnd 0 0; IOAnd 0 0; IOAnd 0 0],
                      FErr (ESyntax 3 2), {| l_line := 3; l_start := 23 |}) v'.
Proof. eexists. vm_compute. reflexivity. Qed.

Example k1_true_position : line_col_of k1_bytes 24 = (3, 2).
Proof. vm_compute. reflexivity. Qed.

(* the location reported before the fix is no position of the input *)
Example k1_old_location_wrong : ~ loc_ok k1_bytes 2 11.
Proof.
  intros H. apply loc_ok_spec in H. destruct H as (pos & Hp & [E|(_ & _ & _ & _ & Hc)]); [|discriminate].
  assert (Hall : forallb (fun k => negb (let p := line_col_of k1_bytes (N.of_nat k) in (fst p =? 2) && (snd p =? 11)))
                         (seq 0 26) = true) by (vm_compute; reflexivity).
  rewrite forallb_forall in Hall. specialize (Hall (N.to_nat pos)). rewrite N2Nat.id in Hall.
  rewrite <- E in Hall. cbn [fst snd] in Hall.
  assert (Hin : In (N.to_nat pos) (seq 0 26)).
  { apply in_seq. change (nlen k1_bytes) with 25 in Hp. lia. }
  specialize (Hall Hin). discriminate.
Qed.

(* a multi-byte delta code that ends with the byte 10: "aig 700 699 0 0 1\n", one gate 8A 0A (delta 1290) / 00, then
   "x": the x is at line 3, column 2 *)
Example k1_multibyte :
  exists v', srun (parse_aig 100 max_code_u16 lrs_init)
                  (view_init [97;105;103;32;55;48;48;32;54;57;57;32;48;32;48;32;49;10; 138;10; 0; 120] None)
             = ADone (Some (mk_header 700 699 0 0 1 0 0 0 0), [IOAnd 110 110],
                      FErr (ESyntax 3 2), {| l_line := 3; l_start := 20 |}) v'.
Proof. eexists. vm_compute. reflexivity. Qed.

(* the range error of a delta code that ends with the byte 10 is reported where the code starts, on the line where
   it starts: "aig 1 0 0 0 1\n" + 0A: delta 10 > 2, reported at line 2, column 1 *)
Example k1_range_error :
  exists v', srun (parse_aig 100 max_code_u8 lrs_init) (view_init [97;105;103;32;49;32;48;32;48;32;48;32;49;10; 10] None)
             = ADone (Some (mk_header 1 0 0 0 1 0 0 0 0), [], FErr (ESyntax 2 1), {| l_line := 2; l_start := 14 |}) v'.
Proof. eexists. vm_compute. reflexivity. Qed.
