(* C14 — Safe calls never expose memory outside the buffered data, even after panics.
   In the models every `unsafe` access (get_unchecked, raw pointer offset, set_len, copy_nonoverlapping)
   is a checked operation that yields the observation VUB / WUB when its index is outside the modelled
   Vec length (reader) or capacity (writer).  The theorems say that no history produces it. *)
From Flussab Require Import Base Reader ListN ReaderProofs Writer WriterProofs DecimalProofs.

(* Reader: any source (including one that claims more bytes than the slice it was given: Lie),
   any history over the whole API including advance(n) / advance_with_buf(n) with n greater than
   the buffered length (the model performs the code's field updates, reports the panic, and the
   history continues, i.e. catch_unwind): no observation is UB, an index panic, an overflow or
   fuel exhaustion; the only panics are the two documented ones. *)
Theorem C14_reader_no_ub : forall (sr : source) (h : list rop),
  forallb (fun v => negb (bad_obs v)) (snd (run (reader_init sr) h)) = true.
Proof. intros sr h. exact (run_safe h _ (Good_init sr)). Qed.
Print Assumptions C14_reader_no_ub.

(* ... and after any such history the exposed slice has the buffered length and is exactly the
   delivered-but-unconsumed bytes of the source (bytes handed over by a lying read are not part of it). *)
Theorem C14_reader_window_after_any_history : forall (sr : source) (h : list rop),
  let s := fst (run (reader_init sr) h) in
  get_buf s = VBytes (unread s) /\ nlen (unread s) = valid_len s /\
  pos_in_buf s + valid_len s <= nlen (buf s).
Proof.
  intros sr h s. pose proof (proj1 (Good_run h _ (Good_init sr))) as HI.
  split; [apply get_buf_spec; exact HI|]. split; [apply nlen_unread; exact HI|apply (inv_range _ HI)].
Qed.
Print Assumptions C14_reader_window_after_any_history.

(* a caught advance panic leaves the reader exactly as it was *)
Theorem C14_advance_panic_is_clean : forall s n,
  (snd (advance s n) = Some PAdvance <-> valid_len s < n) /\
  (snd (advance s n) = None \/ snd (advance s n) = Some PAdvance) /\
  (snd (advance s n) <> None -> fst (advance s n) = s).
Proof. exact advance_panics_iff. Qed.
Print Assumptions C14_advance_panic_is_clean.

(* Writer: for every history (integers are values of their type; direct writes respect the unsafe
   contract of advance_unchecked) and every sink: the buffer never exceeds its capacity and no
   operation is UB, panics or runs out of fuel; in particular the decimal text of every integer fits
   the MAX_LEN bytes reserved for its type before it is written through the raw pointer. *)
Theorem C14_writer_no_ub : forall (evs : list wevent) (ops : list wop),
  wops_ok ops ->
  let s := fst (wrun (writer_init evs) ops) in
  nlen (wbuf s) <= wcap s /\ forallb (fun v => negb (wbad v)) (snd (wrun (writer_init evs) ops)) = true.
Proof.
  intros evs ops Hok s. destruct (WInv_run ops _ (WInv_init evs) Hok) as [[H1 _ _] H4]. split; assumption.
Qed.
Print Assumptions C14_writer_no_ub.

Theorem C14_digits_fit_reserved_space : forall (v : Z) (t : ity),
  in_range t v = true -> nlen (decimal v) <= max_len t.
Proof. intros v t. destruct (decimal_canonical v) as (_ & H & _). apply H. Qed.
Print Assumptions C14_digits_fit_reserved_space.

(* non-vacuity: the history of the former defect D3 *)
Example C14_example :
  snd (run (reader_init {| prebuf := []; data := [1;2;3;4;5]; events := [] |})
           [ORequest 5; OAdvance 6; OBuf; OBufLen; OAdvanceWithBuf 9; OPeek 2])
  = [VBytes [1;2;3;4;5]; VPanic PAdvance; VBytes [1;2;3;4;5]; VNum 5; VPanic PAdvance; VOptByte (Some 3)].
Proof. vm_compute. reflexivity. Qed.

(* buf_write_ptr's capacity test on machine words (WriterGuard.v, defect D17): Writer.v states it over unbounded N; the
   repaired code's `len <= capacity - old_len` never wraps and decides the same for every caller-supplied len; the former
   wrapping sum did not (witness = the D17 replay).  Tied to the code by the `wr` stream, which sends lengths near 2^64. *)
From Flussab Require Import WriterGuard.

Theorem C14_buf_write_ptr_guard_exact_for_every_length : forall old cap len : N,
  (old <= cap -> guard_fixed old cap len = guard_ideal old cap len)%N.
Proof. exact guard_fixed_exact. Qed.
Print Assumptions C14_buf_write_ptr_guard_exact_for_every_length.

Theorem C14_buf_write_ptr_wrapping_guard_refuted :
  (exists old cap len, old <= cap /\ cap < W /\ len < W /\
    guard_wrapping old cap len = true /\ guard_ideal old cap len = false)%N.
Proof. exact guard_wrapping_refuted. Qed.
Print Assumptions C14_buf_write_ptr_wrapping_guard_refuted.
