(* ConverseAiger.v — C03, second sentence, for AIGER (ascii and binary): for every text a parser accepts, writing the
   parsed value and parsing that output again yields the same value.

   The domain of the writer/parser round trip (AigerRt.aag_ok / aig_ok) asks for more than AigerLimits records:
   O, B, C, J, F below 2^64, the justice sizes summing up below 2^64, symbol names without LF and valid UTF-8, the
   comment valid UTF-8, and (binary) and-gate deltas below 2^56 (8 groups of 7 bits).  All of these are checked by
   the parsers; they are proved here directly from the control flow, with the partial-correctness logic of
   ConversePc.v, in the strongest useful form: what a parser returns with a clean end IS
   (g_header a, aag_items a) resp. (g_header a, aig_items a) for a value a in the domain.  So no accepted text has a
   value the writer cannot write back: there is no counterexample to the property's second sentence. *)
From Flussab Require Import Base Reader ListN Writer Parsed Prog Text TextSpec ProgProofs ScanProofs DigitsProofs.
From Flussab Require Import ReaderProofs Simulation Consts Cnf CnfProofs CnfSafe Varint Aiger AigerProofs AigerWrite AigerSafe AigerLimits.
From Flussab Require Import AigerRt RtAll ConversePc.
Ltac Zify.zify_post_hook ::= Z.to_euclidean_division_equations.
Local Open Scope N_scope.

(* ================================================================== *)
(* 0. list and arithmetic facts                                         *)

Lemma rv_bound l : forall value, rv l value < (value + 1) * 128 ^ N.of_nat (length l).
Proof.
  induction l as [|b r IH]; intros value.
  - cbn [length rv fold_left]. unfold rv. cbn [fold_left]. change (N.of_nat 0) with 0. rewrite N.pow_0_r. lia.
  - unfold rv in *. cbn [fold_left length]. specialize (IH (rv_step value b)).
    replace (N.of_nat (S (length r))) with (N.succ (N.of_nat (length r))) by lia. rewrite N.pow_succ_r'.
    unfold rv_step in *. pose proof (N.mod_lt b 128 ltac:(lia)).
    assert (Hp : 1 <= 128 ^ N.of_nat (length r)) by (pose proof (N.pow_nonzero 128 (N.of_nat (length r))); lia).
    nia.
Qed.

Lemma varint_value_small acc v : (length acc <= 8)%nat -> varint_value acc 0 = Some v -> v < 2 ^ 56.
Proof.
  intros Hl Hv.
  assert (Hp : 128 ^ N.of_nat (length acc) <= 128 ^ 8) by (apply N.pow_le_mono_r; lia).
  change (128 ^ 8) with (2 ^ 56) in Hp.
  rewrite (varint_value_rv acc 0 1) in Hv; [|lia|unfold W64; lia].
  inversion Hv; subst v. pose proof (rv_bound acc 0). lia.
Qed.

(* a valid text with an LF appended: the text itself is valid *)
Lemma utf8_err_lf_gen : forall n l pos, (length l <= n)%nat -> utf8_err (l ++ [10]) pos = None -> utf8_err l pos = None.
Proof.
  induction n as [|n IH]; intros l pos Hlen H.
  - destruct l; [reflexivity|cbn [length] in Hlen; lia].
  - destruct l as [|b r]; [reflexivity|]. cbn [length] in Hlen. cbn [app utf8_err] in *.
    destruct (b <? 128); [apply (IH r (pos + 1)); [lia|exact H]|].
    destruct (in_rng 194 223 b).
    { destruct r as [|c1 r1]; [cbn [app] in H; change (is_cont 10) with false in H; discriminate H|].
      cbn [app] in H. destruct (is_cont c1); [|discriminate]. cbn [length] in Hlen. apply (IH r1 (pos + 2)); [lia|exact H]. }
    destruct (in_rng 224 239 b).
    { destruct r as [|c1 [|c2 r2]]; cbn [app] in H; try discriminate H.
      - change (is_cont 10) with false in H. rewrite andb_false_r in H. discriminate H.
      - destruct (second3 b c1 && is_cont c2); [|discriminate]. cbn [length] in Hlen. apply (IH r2 (pos + 3)); [lia|exact H]. }
    destruct (in_rng 240 244 b); [|discriminate].
    destruct r as [|c1 [|c2 [|c3 r3]]]; cbn [app] in H; try discriminate H.
    + change (is_cont 10) with false in H. rewrite andb_false_r in H. discriminate H.
    + destruct (second4 b c1 && is_cont c2 && is_cont c3); [|discriminate]. cbn [length] in Hlen.
      apply (IH r3 (pos + 4)); [lia|exact H].
Qed.

Lemma utf8_ok_lf_inv l : utf8_ok (l ++ [10]) -> utf8_ok l.
Proof. unfold utf8_ok, utf8_valid_up_to. apply (utf8_err_lf_gen (length l) l 0 (le_n _)). Qed.

Lemma last_byte_split l b : last_byte l = Some b -> l = nfirstn (nlen l - 1) l ++ [b].
Proof.
  induction l as [|x r IH]; [discriminate|]. intros H. destruct r as [|y r'].
  - cbn [last_byte] in H. inversion H; subst. reflexivity.
  - change (last_byte (x :: y :: r')) with (last_byte (y :: r')) in H. specialize (IH H).
    rewrite !nlen_cons. rewrite nlen_cons in IH.
    replace (1 + (1 + nlen r') - 1) with (1 + nlen r') by lia. replace (1 + nlen r' - 1) with (nlen r') in IH by lia.
    unfold nfirstn in *. replace (N.to_nat (1 + nlen r')) with (Datatypes.S (N.to_nat (nlen r'))) by lia.
    cbn [firstn app]. f_equal. exact IH.
Qed.

Fixpoint sumN (l : list N) : N := match l with [] => 0 | x :: r => x + sumN r end.

Lemma nlen_nfirstn_le {A} (l : list A) n : n <= nlen l -> nlen (nfirstn n l) = n.
Proof. intros H. unfold nlen, nfirstn in *. rewrite firstn_length. lia. Qed.

Lemma deal_sizes : forall js lits, nlen lits = sumN js ->
  List.map (fun j => nlen j) (deal js lits) = js /\ concat (deal js lits) = lits.
Proof.
  induction js as [|n r IH]; intros lits H; cbn [sumN deal List.map concat] in *.
  - split; [reflexivity|]. destruct lits; [reflexivity|rewrite nlen_cons in H; lia].
  - destruct (IH (nskipn n lits)) as [E1 E2]; [rewrite nlen_nskipn; lia|].
    rewrite E1, E2. split; [f_equal; apply nlen_nfirstn_le; lia|]. unfold nfirstn, nskipn. apply firstn_skipn.
Qed.

Lemma nlen_map {A B} (f : A -> B) l : nlen (List.map f l) = nlen l.
Proof. unfold nlen. rewrite map_length. reflexivity. Qed.

(* ================================================================== *)
(* 1. the logic on Aiger's result chaining                              *)

Lemma pc_rbnd {A B} S (m : PM (result A perr)) (f : A -> PM (result B perr)) (P : A -> Prop) (Q : B -> Prop) :
  pc S m (okP P) -> (forall a, P a -> pc S (f a) (okP Q)) -> pc S (rbnd m f) (okP Q).
Proof.
  intros Hm Hf. unfold rbnd. eapply pc_pbnd; [exact Hm|]. intros [a|e] Ha; [apply Hf; exact Ha|apply pc_pret; exact I].
Qed.

Lemma pc_rbnd_any {A B} S (m : PM (result A perr)) (f : A -> PM (result B perr)) (Q : B -> Prop) :
  (forall a, pc S (f a) (okP Q)) -> pc S (rbnd m f) (okP Q).
Proof.
  intros Hf. eapply (pc_rbnd S m f (fun _ => True)); [eapply pc_conseq; [apply pc_true|intros [a|e] _; exact I]|].
  intros a _. apply Hf.
Qed.

Lemma pc_fail_with {A} S (err : PM perr) (Q : A -> Prop) : pc S (fail_with err) (okP Q).
Proof. unfold fail_with. apply pc_pbnd_any. intros e. apply pc_pret. exact I. Qed.

Section A.
Variable fuel : nat.
Variable S : bytes.

(* ---------- tokens ---------- *)
Lemma header_field_pc limit : pc S (header_field fuel limit) (okP (fun c => c <= limit)).
Proof.
  unfold header_field. apply pc_pbnd_any. intros _. apply pc_pbnd_any. intros [[count|e]|].
  - destruct (limit <? count) eqn:E; [apply pc_fail_with|]. apply pc_pret. cbn [okP]. apply N.ltb_ge in E. exact E.
  - apply pc_pret. exact I.
  - apply pc_fail_with.
Qed.

Lemma lit_pc limit assigning : pc S (lit fuel limit assigning) (okP (LitP limit assigning)).
Proof.
  unfold lit. apply pc_pbnd_any. intros _. apply pc_pbnd_any. intros [[count|e]|].
  - destruct (assigning && ((count =? 0) || negb (N.land count 1 =? 0))) eqn:E1; [apply pc_fail_with|].
    destruct (limit <? count) eqn:E2; [apply pc_fail_with|]. apply pc_pret. cbn [okP]. apply N.ltb_ge in E2.
    split; [exact E2|]. intros ->. cbn [andb] in E1. apply orb_false_elim in E1. destruct E1 as [Ea Eb].
    apply N.eqb_neq in Ea. apply negb_false_iff in Eb. apply N.eqb_eq in Eb. split; assumption.
  - apply pc_pret. exact I.
  - apply pc_fail_with.
Qed.

Lemma line_scan_pc n : forall offset acc, Forall (fun b => b <> 10) acc ->
  pc S (line_scan n offset acc) (fun r => Forall (fun b => b <> 10) (fst r)).
Proof.
  induction n as [|n IH]; intros offset acc Hacc; cbn [line_scan]; [apply pc_nofuel|].
  apply pc_pbnd_any. intros [b|].
  - destruct (b =? 10) eqn:E.
    + apply pc_pret. cbn [fst]. apply Forall_rev. exact Hacc.
    + apply IH. constructor; [apply N.eqb_neq; exact E|exact Hacc].
  - apply pc_pret. cbn [fst]. apply Forall_rev. exact Hacc.
Qed.

Definition name_ok (name : bytes) : Prop := Forall (fun b => b <> 10) name /\ utf8_ok name.

Lemma remaining_line_content_pc : pc S (remaining_line_content fuel) (okP name_ok).
Proof.
  unfold remaining_line_content. eapply pc_pbnd; [apply line_scan_pc; constructor|]. intros [line offset] Hl. cbn [fst] in Hl.
  apply pc_pbnd_any. intros [b|].
  - destruct (utf8_valid_up_to line) as [vut|] eqn:Eu.
    + apply pc_pbnd_any. intros _. apply pc_fail_with.
    + apply pc_pbnd_any. intros _. apply pc_pbnd_any. intros _. apply pc_pret. split; [exact Hl|exact Eu].
  - apply pc_pbnd_any. intros _. apply pc_fail_with.
Qed.

Lemma bad_file_content_pc content vut (Q : bytes -> Prop) : pc S (bad_file_content content vut) (okP Q).
Proof.
  unfold bad_file_content. destruct (after_last_nl (nfirstn vut content) 0 None).
  - do 4 (apply pc_pbnd_any; intros _). apply pc_fail_with.
  - apply pc_pbnd_any. intros _. apply pc_fail_with.
Qed.

Lemma remaining_file_content_pc : pc S (remaining_file_content fuel) (okP utf8_ok).
Proof.
  unfold remaining_file_content. apply pc_pbnd_any. intros content. apply pc_pbnd_any. intros [io|]; [apply pc_pret; exact I|].
  cbv zeta. destruct (utf8_valid_up_to content) as [vut|] eqn:Eu; [apply bad_file_content_pc|].
  destruct (last_byte content) as [b|] eqn:El.
  - destruct (b =? 10) eqn:Eb; [|apply bad_file_content_pc]. apply N.eqb_eq in Eb. subst b.
    apply pc_pbnd_any. intros _. apply pc_pret. cbn [okP]. apply utf8_ok_lf_inv.
    pose proof (last_byte_split content 10 El) as Hsp. unfold bytes, byte in *. rewrite <- Hsp. exact Eu.
  - apply pc_pbnd_any. intros _. apply pc_pret. cbn [okP]. destruct content as [|x r]; [reflexivity|].
    exfalso. clear -El. revert x El. induction r as [|y r IH]; intros x El; [discriminate|].
    change (last_byte (x :: y :: r)) with (last_byte (y :: r)) in El. exact (IH y El).
Qed.

Lemma varint_scan_pc n : forall byte_len acc, nlen acc = byte_len -> byte_len + N.of_nat n = 8 ->
  pc S (varint_scan n byte_len acc) (okP (fun a => (length a <= 8)%nat)).
Proof.
  induction n as [|n IH]; intros byte_len acc Hacc Hn; cbn [varint_scan]; [apply pc_nofuel|].
  apply pc_pbnd_any. intros [b|]; [|apply pc_fail_with].
  destruct (N.land b 128 =? 0).
  - apply pc_pret. cbn [okP length]. unfold nlen in Hacc. lia.
  - destruct (byte_len + 1 =? 8) eqn:E8; [apply pc_fail_with|]. apply N.eqb_neq in E8.
    apply IH; [rewrite nlen_cons; lia|lia].
Qed.

Lemma binary_uint_pc : pc S binary_uint (okP (fun r => fst r < 2 ^ 56)).
Proof.
  unfold binary_uint. eapply pc_rbnd; [apply (varint_scan_pc 8 0 []); reflexivity|]. intros acc Hacc. cbv beta in Hacc.
  destruct (varint_value acc 0) as [v|] eqn:Ev; [|apply pc_fail_with].
  apply pc_pbnd_any. intros _. apply pc_pret. cbn [okP fst]. exact (varint_value_small acc v Hacc Ev).
Qed.

Lemma delta_code_pc code : pc S (delta_code code) (okP (fun x => x <= code /\ code - x < 2 ^ 56)).
Proof.
  unfold delta_code. apply pc_pbnd_any. intros _. eapply pc_rbnd; [apply binary_uint_pc|]. intros [delta el] Hd.
  cbn [fst] in Hd. cbv beta iota. destruct (code <? delta) eqn:E; [apply pc_fail_with|]. apply N.ltb_ge in E.
  apply pc_pbnd_any. intros _. apply pc_pret. cbn [okP]. split; lia.
Qed.

(* ---------- the header ---------- *)
Definition HdrV (maxc : N) (hd : aheader) : Prop :=
  a_max_var hd <= (maxc - 1) / 2 /\ a_inputs hd <= a_max_var hd /\ a_latches hd <= a_max_var hd - a_inputs hd /\
  a_ands hd <= a_max_var hd - a_inputs hd - a_latches hd /\
  a_outputs hd <= USIZE_MAX_N /\ a_bad hd <= USIZE_MAX_N /\ a_constraints hd <= USIZE_MAX_N /\
  a_justice hd <= USIZE_MAX_N /\ a_fairness hd <= USIZE_MAX_N.

Lemma parse_aheader_pc magic maxc : pc S (parse_aheader fuel magic maxc) (okP (HdrV maxc)).
Proof.
  unfold parse_aheader.
  apply pc_rbnd_any. intros _. apply pc_rbnd_any. intros _.
  eapply pc_rbnd; [apply header_field_pc|]. intros m Hm. apply pc_rbnd_any. intros _.
  eapply pc_rbnd; [apply header_field_pc|]. intros i Hi. apply pc_rbnd_any. intros _.
  eapply pc_rbnd; [apply header_field_pc|]. intros l Hl. apply pc_rbnd_any. intros _.
  eapply pc_rbnd; [apply header_field_pc|]. intros o Ho. apply pc_rbnd_any. intros _.
  eapply pc_rbnd; [apply header_field_pc|]. intros a Ha.
  assert (H0 : 0 <= USIZE_MAX_N) by (unfold USIZE_MAX_N; lia).
  assert (Hfin : forall b c j f, b <= USIZE_MAX_N -> c <= USIZE_MAX_N -> j <= USIZE_MAX_N -> f <= USIZE_MAX_N ->
            pc S (pret (@Ok aheader perr (mk_header m i l o a b c j f))) (okP (HdrV maxc))).
  { intros b c j f Hb Hc Hj Hf. apply pc_pret. cbn [okP]. unfold HdrV, mk_header.
    cbn [a_max_var a_inputs a_latches a_outputs a_ands a_bad a_constraints a_justice a_fairness].
    split; [exact Hm|]. split; [exact Hi|]. split; [exact Hl|]. split; [exact Ha|]. split; [exact Ho|].
    split; [exact Hb|]. split; [exact Hc|]. split; [exact Hj|exact Hf]. }
  apply pc_rbnd_any. intros [|]; cbn [negb]; [|apply Hfin; exact H0].
  eapply pc_rbnd; [apply header_field_pc|]. intros b Hb.
  apply pc_rbnd_any. intros [|]; cbn [negb]; [|apply Hfin; assumption].
  eapply pc_rbnd; [apply header_field_pc|]. intros c Hc.
  apply pc_rbnd_any. intros [|]; cbn [negb]; [|apply Hfin; assumption].
  eapply pc_rbnd; [apply header_field_pc|]. intros j Hj.
  apply pc_rbnd_any. intros [|]; cbn [negb]; [|apply Hfin; assumption].
  eapply pc_rbnd; [apply header_field_pc|]. intros f Hf.
  apply pc_rbnd_any. intros _. apply Hfin; assumption.
Qed.

(* ---------- sections: `left` items, each of the form mk x, with a relation on the state ---------- *)
Section Loop.
Context {St X : Type} (it : St -> PM (result (item * St) perr)) (mk : X -> item) (R : St -> X -> St -> Prop).

Fixpoint chainX (st : St) (xs : list X) (st' : St) : Prop :=
  match xs with
  | [] => st' = st
  | x :: r => exists st1, R st x st1 /\ chainX st1 r st'
  end.

Hypothesis Hit : forall st, pc S (it st) (okP (fun r => exists x, fst r = mk x /\ R st x (snd r))).

Lemma sloop_pc n : forall left st acc,
  pc S (sloop n it left st acc)
     (fun r => snd r = None ->
               exists xs, fst (fst r) = rev acc ++ List.map mk xs /\ nlen xs = left /\ chainX st xs (snd (fst r))).
Proof.
  assert (Hzero : forall left st acc, (left =? 0) = true ->
            pc S (pret (rev acc, st, @None perr))
               (fun r => snd r = None ->
                         exists xs, fst (fst r) = rev acc ++ List.map mk xs /\ nlen xs = left /\ chainX st xs (snd (fst r)))).
  { intros left st acc E. apply pc_pret. cbn [fst snd]. intros _. exists []. cbn [List.map chainX]. rewrite app_nil_r.
    split; [reflexivity|]. split; [apply N.eqb_eq in E; subst; reflexivity|reflexivity]. }
  induction n as [|n IH]; intros left st acc; cbn [sloop]; destruct (left =? 0) eqn:E; try (apply Hzero; exact E).
  - apply pc_nofuel.
  - eapply pc_pbnd; [apply Hit|]. intros [[xi st1]|e] Hx; cbn [okP] in Hx.
    + destruct Hx as (x & Hmk & HR). cbn [fst snd] in Hmk, HR. subst xi.
      eapply pc_conseq; [apply IH|]. intros [[items st'] e]. cbn [fst snd]. intros H He.
      destruct (H He) as (xs & E1 & E2 & E3). exists (x :: xs).
      split; [rewrite E1; cbn [rev List.map]; rewrite <- app_assoc; reflexivity|].
      split; [rewrite nlen_cons; apply N.eqb_neq in E; lia|]. exists st1. split; assumption.
    + apply pc_pret. cbn [snd]. discriminate.
Qed.
End Loop.

Lemma sect_pc {St : Type} (m : PM (list item * St * option perr)) (k : St -> PM (list item * final))
      (P1 : list item -> St -> Prop) (P2 : St -> list item -> Prop) :
  pc S m (fun r => snd r = None -> P1 (fst (fst r)) (snd (fst r))) ->
  (forall st, pc S (k st) (fun r => snd r = FOk -> P2 st (fst r))) ->
  pc S (sect m k) (fun r => snd r = FOk -> exists i1 i2 st, fst r = i1 ++ i2 /\ P1 i1 st /\ P2 st i2).
Proof.
  intros Hm Hk. unfold sect. eapply pc_pbnd; [exact Hm|]. intros [[items st] e] H1. cbn [fst snd] in H1.
  destruct e as [err|]; [apply pc_pret; cbn [snd]; discriminate|].
  eapply pc_pbnd; [apply Hk|]. intros [items2 fin] H2. cbn [fst snd] in H2. apply pc_pret. cbn [fst snd].
  intros Hfin. exists items, items2, st. split; [reflexivity|]. split; [apply H1; reflexivity|apply H2; exact Hfin].
Qed.


Lemma sect_pc' {St : Type} (m : PM (list item * St * option perr)) (k : St -> PM (list item * final))
      (P1 : list item -> St -> Prop) (P2 : St -> list item -> Prop) (Q : list item -> Prop) :
  pc S m (fun r => snd r = None -> P1 (fst (fst r)) (snd (fst r))) ->
  (forall st, pc S (k st) (fun r => snd r = FOk -> P2 st (fst r))) ->
  (forall i1 i2 st, P1 i1 st -> P2 st i2 -> Q (i1 ++ i2)) ->
  pc S (sect m k) (fun r => snd r = FOk -> Q (fst r)).
Proof.
  intros Hm Hk HQ. eapply pc_conseq; [apply (sect_pc m k P1 P2 Hm Hk)|]. intros r H Hfin.
  destruct (H Hfin) as (i1 & i2 & st & -> & H1 & H2). eapply HQ; eassumption.
Qed.

(* ---------- the items of the sections ---------- *)
Lemma chain_const {St X : Type} (P : X -> Prop) : forall xs (st st' : St),
  chainX (fun s x s' => s' = s /\ P x) st xs st' -> st' = st /\ Forall P xs.
Proof.
  induction xs as [|x r IH]; intros st st' H; cbn [chainX] in H; [split; [exact H|constructor]|].
  destruct H as (st1 & [-> Hx] & Hr). destruct (IH _ _ Hr) as [-> Hall]. split; [reflexivity|constructor; assumption].
Qed.

(* a section of `n` items mk x with P x, the state unchanged *)
Definition SecP {St X : Type} (mk : X -> item) (P : X -> Prop) (n : N) (st : St) (items : list item) (st' : St) : Prop :=
  st' = st /\ exists xs, items = List.map mk xs /\ nlen xs = n /\ Forall P xs.

Lemma const_section_pc {St X : Type} (it : St -> PM (result (item * St) perr)) (mk : X -> item) (P : X -> Prop) n (st : St) :
  (forall st0, pc S (it st0) (okP (fun r => exists x, fst r = mk x /\ (snd r = st0 /\ P x)))) ->
  pc S (sloop fuel it n st []) (fun r => snd r = None -> SecP mk P n st (fst (fst r)) (snd (fst r))).
Proof.
  intros Hit. eapply pc_conseq; [apply (sloop_pc it mk (fun s x s' => s' = s /\ P x) Hit)|].
  intros [[items st'] e]. cbn [fst snd]. intros H He. destruct (H He) as (xs & E1 & E2 & E3).
  apply chain_const in E3. destruct E3 as [-> Hall]. split; [reflexivity|]. exists xs. cbn [rev app] in E1. auto.
Qed.

Lemma lit_line_pc {St : Type} maxc ml asg (mk : N -> item) (st : St) : ml <= maxc ->
  pc S (lit_line fuel maxc ml asg mk st) (okP (fun r => exists c, fst r = mk c /\ (snd r = st /\ LitP ml asg c))).
Proof.
  intros Hml. unfold lit_line. eapply pc_rbnd; [apply lit_pc|]. intros c Hc. apply pc_rbnd_any. intros _.
  apply pc_pret. cbn [okP fst snd]. exists c. rewrite AigerLimits.from_code_id by (destruct Hc; lia). auto.
Qed.

Lemma lits_section_pc {St : Type} maxc ml asg (mk : N -> item) n (st : St) : ml <= maxc ->
  pc S (sloop fuel (lit_line fuel maxc ml asg mk) n st [])
     (fun r => snd r = None -> SecP mk (LitP ml asg) n st (fst (fst r)) (snd (fst r))).
Proof. intros Hml. apply const_section_pc. intros st0. apply lit_line_pc. exact Hml. Qed.

(* justice sizes: the running total stays within usize *)
Definition Rjs (total : N) (c : N) (total' : N) : Prop := total' = total + c /\ c <= USIZE_MAX_N - total.

Lemma justice_size_pc total :
  pc S (justice_size fuel total) (okP (fun r => exists c, fst r = IJusticeSize c /\ Rjs total c (snd r))).
Proof.
  unfold justice_size. eapply pc_rbnd; [apply header_field_pc|]. intros c Hc. apply pc_rbnd_any. intros _.
  apply pc_pret. cbn [okP fst snd]. exists c. split; [reflexivity|]. split; [reflexivity|exact Hc].
Qed.

Lemma chain_js : forall js t t', chainX Rjs t js t' -> t <= USIZE_MAX_N -> t' = t + sumN js /\ t' <= USIZE_MAX_N.
Proof.
  induction js as [|c r IH]; intros t t' H Ht; cbn [chainX sumN] in *; [subst; split; lia|].
  destruct H as (t1 & [-> Hc] & Hr). destruct (IH _ _ Hr) as [-> Hle]; [lia|]. split; lia.
Qed.

Definition JsP (n : N) (items : list item) (total : N) : Prop :=
  exists js, items = List.map IJusticeSize js /\ nlen js = n /\ total = sumN js /\ total <= USIZE_MAX_N.

Lemma js_section_pc n :
  pc S (sloop fuel (justice_size fuel) n 0 []) (fun r => snd r = None -> JsP n (fst (fst r)) (snd (fst r))).
Proof.
  eapply pc_conseq; [apply (sloop_pc (justice_size fuel) IJusticeSize Rjs justice_size_pc)|].
  intros [[items t'] e]. cbn [fst snd]. intros H He. destruct (H He) as (js & E1 & E2 & E3).
  destruct (chain_js js 0 t' E3) as [-> Hle]; [unfold USIZE_MAX_N; lia|]. exists js. cbn [rev app] in E1.
  split; [exact E1|]. split; [exact E2|]. split; [lia|lia].
Qed.

(* the sections between the latches and the and gates *)
Definition MidP {St : Type} (h : aheader) (ml : N) (K : St -> list item -> Prop) (st : St) (items : list item) : Prop :=
  exists outs bads cons js jls fairs rest,
    items = List.map IOutput outs ++ List.map IBad bads ++ List.map IConstraint cons ++ List.map IJusticeSize js
            ++ List.map IJustice jls ++ List.map IFairness fairs ++ rest /\
    (nlen outs = a_outputs h /\ Forall (LitP ml false) outs) /\
    (nlen bads = a_bad h /\ Forall (LitP ml false) bads) /\
    (nlen cons = a_constraints h /\ Forall (LitP ml false) cons) /\
    (nlen js = a_justice h /\ sumN js <= USIZE_MAX_N) /\
    (nlen jls = sumN js /\ Forall (LitP ml false) jls) /\
    (nlen fairs = a_fairness h /\ Forall (LitP ml false) fairs) /\
    K st rest.

Lemma middle_pc {St : Type} maxc ml h (st : St) (k : St -> PM (list item * final)) (K : St -> list item -> Prop) :
  ml <= maxc ->
  (forall st0, pc S (k st0) (fun r => snd r = FOk -> K st0 (fst r))) ->
  pc S (middle_sections fuel maxc ml h st k) (fun r => snd r = FOk -> MidP h ml K st (fst r)).
Proof.
  intros Hml Hk. unfold middle_sections.
  (* from the innermost section outwards *)
  set (Q6 := fun (s : St) (items : list item) =>
               exists fairs rest, items = List.map IFairness fairs ++ rest /\
                 (nlen fairs = a_fairness h /\ Forall (LitP ml false) fairs) /\ K s rest).
  assert (H6 : forall s, pc S (sect (sloop fuel (lit_line fuel maxc ml false IFairness) (a_fairness h) s []) k)
                             (fun r => snd r = FOk -> Q6 s (fst r))).
  { intros s. apply (sect_pc' _ _ (SecP IFairness (LitP ml false) (a_fairness h) s) K (Q6 s)).
    - apply lits_section_pc. exact Hml.
    - exact Hk.
    - intros i1 i2 s' [-> (xs & -> & Hn & Hall)] H2. exists xs, i2. auto. }
  set (Q5 := fun (s : St) (total : N) (items : list item) =>
               exists jls rest, items = List.map IJustice jls ++ rest /\
                 (nlen jls = total /\ Forall (LitP ml false) jls) /\ Q6 s rest).
  assert (H5 : forall s total,
             pc S (sect (sloop fuel (lit_line fuel maxc ml false IJustice) total s [])
                        (fun s0 => sect (sloop fuel (lit_line fuel maxc ml false IFairness) (a_fairness h) s0 []) k))
                  (fun r => snd r = FOk -> Q5 s total (fst r))).
  { intros s total. apply (sect_pc' _ _ (SecP IJustice (LitP ml false) total s) Q6 (Q5 s total)).
    - apply lits_section_pc. exact Hml.
    - exact H6.
    - intros i1 i2 s' [-> (xs & -> & Hn & Hall)] H2. exists xs, i2. auto. }
  set (Q4 := fun (s : St) (items : list item) =>
               exists js rest, items = List.map IJusticeSize js ++ rest /\
                 (nlen js = a_justice h /\ sumN js <= USIZE_MAX_N) /\ Q5 s (sumN js) rest).
  assert (H4 : forall s,
             pc S (sect (sloop fuel (justice_size fuel) (a_justice h) 0 [])
                        (fun total => sect (sloop fuel (lit_line fuel maxc ml false IJustice) total s [])
                        (fun s0 => sect (sloop fuel (lit_line fuel maxc ml false IFairness) (a_fairness h) s0 []) k)))
                  (fun r => snd r = FOk -> Q4 s (fst r))).
  { intros s. apply (sect_pc' _ _ (JsP (a_justice h)) (Q5 s) (Q4 s)).
    - apply js_section_pc.
    - intros total. apply H5.
    - intros i1 i2 total (js & -> & Hn & -> & Hle) H2. exists js, i2. auto. }
  set (Q3 := fun (s : St) (items : list item) =>
               exists cons rest, items = List.map IConstraint cons ++ rest /\
                 (nlen cons = a_constraints h /\ Forall (LitP ml false) cons) /\ Q4 s rest).
  assert (H3 : forall s,
             pc S (sect (sloop fuel (lit_line fuel maxc ml false IConstraint) (a_constraints h) s []) (fun s1 =>
                   sect (sloop fuel (justice_size fuel) (a_justice h) 0 [])
                        (fun total => sect (sloop fuel (lit_line fuel maxc ml false IJustice) total s1 [])
                        (fun s0 => sect (sloop fuel (lit_line fuel maxc ml false IFairness) (a_fairness h) s0 []) k))))
                  (fun r => snd r = FOk -> Q3 s (fst r))).
  { intros s. apply (sect_pc' _ _ (SecP IConstraint (LitP ml false) (a_constraints h) s) Q4 (Q3 s)).
    - apply lits_section_pc. exact Hml.
    - exact H4.
    - intros i1 i2 s' [-> (xs & -> & Hn & Hall)] H2. exists xs, i2. auto. }
  set (Q2 := fun (s : St) (items : list item) =>
               exists bads rest, items = List.map IBad bads ++ rest /\
                 (nlen bads = a_bad h /\ Forall (LitP ml false) bads) /\ Q3 s rest).
  assert (H2 : forall s,
             pc S (sect (sloop fuel (lit_line fuel maxc ml false IBad) (a_bad h) s []) (fun s2 =>
                   sect (sloop fuel (lit_line fuel maxc ml false IConstraint) (a_constraints h) s2 []) (fun s1 =>
                   sect (sloop fuel (justice_size fuel) (a_justice h) 0 [])
                        (fun total => sect (sloop fuel (lit_line fuel maxc ml false IJustice) total s1 [])
                        (fun s0 => sect (sloop fuel (lit_line fuel maxc ml false IFairness) (a_fairness h) s0 []) k)))))
                  (fun r => snd r = FOk -> Q2 s (fst r))).
  { intros s. apply (sect_pc' _ _ (SecP IBad (LitP ml false) (a_bad h) s) Q3 (Q2 s)).
    - apply lits_section_pc. exact Hml.
    - exact H3.
    - intros i1 i2 s' [-> (xs & -> & Hn & Hall)] Hr. exists xs, i2. auto. }
  apply (sect_pc' _ _ (SecP IOutput (LitP ml false) (a_outputs h) st) Q2 (MidP h ml K st)).
  - apply lits_section_pc. exact Hml.
  - exact H2.
  - intros i1 i2 s' [-> (outs & -> & Hn & Hall)] (bads & r2 & -> & Hb & cons & r3 & -> & Hc & js & r4 & -> & Hj & jls & r5 & -> & Hjl & fairs & rest & -> & Hf & HK).
    exists outs, bads, cons, js, jls, fairs, rest. split; [reflexivity|]. auto 10.
Qed.


(* ---------- ascii latches and and gates ---------- *)
Lemma LitP_def M c : LitP (M * 2 + 1) true c -> def_ok M c.
Proof. intros [H1 H2]. destruct (H2 eq_refl) as [H3 H4]. unfold def_ok. split; [lia|]. split; assumption. Qed.

Lemma LitP_lit M c : LitP (M * 2 + 1) false c -> AigerRt.lit_ok M c.
Proof. intros [H1 _]. unfold AigerRt.lit_ok. lia. Qed.

Lemma LitP_le ml asg c : LitP ml asg c -> c <= ml.
Proof. intros [H _]. exact H. Qed.

Lemma aag_latch_pc maxc M (st : unit) : M * 2 + 1 <= maxc ->
  pc S (aag_latch fuel maxc (M * 2 + 1) st)
     (okP (fun r => exists x, fst r = latch_item x /\ (snd r = st /\ latch_aag_ok M x))).
Proof.
  intros Hml. unfold aag_latch. eapply pc_rbnd; [apply lit_pc|]. intros sc Hsc. apply pc_rbnd_any. intros _.
  eapply pc_rbnd; [apply lit_pc|]. intros n Hn. apply pc_rbnd_any. intros init. apply pc_pret. cbn [okP fst snd].
  exists (Some sc, n, init). cbn [latch_item unopt latch_aag_ok].
  pose proof (LitP_le _ _ _ Hsc). pose proof (LitP_le _ _ _ Hn). rewrite !AigerLimits.from_code_id by lia.
  split; [reflexivity|]. split; [reflexivity|]. split; [apply LitP_def; exact Hsc|apply LitP_lit; exact Hn].
Qed.

Lemma aag_and_pc maxc M (st : unit) : M * 2 + 1 <= maxc ->
  pc S (aag_and fuel maxc (M * 2 + 1) st)
     (okP (fun r => exists x, fst r = and_item x /\ (snd r = st /\ and_aag_ok M x))).
Proof.
  intros Hml. unfold aag_and. eapply pc_rbnd; [apply lit_pc|]. intros o Ho. apply pc_rbnd_any. intros _.
  eapply pc_rbnd; [apply lit_pc|]. intros x Hx. apply pc_rbnd_any. intros _.
  eapply pc_rbnd; [apply lit_pc|]. intros y Hy. apply pc_rbnd_any. intros _. apply pc_pret. cbn [okP fst snd].
  exists (Some o, x, y). cbn [and_item unopt and_aag_ok].
  pose proof (LitP_le _ _ _ Ho). pose proof (LitP_le _ _ _ Hx). pose proof (LitP_le _ _ _ Hy). rewrite !AigerLimits.from_code_id by lia.
  split; [reflexivity|]. split; [reflexivity|]. split; [apply LitP_def; exact Ho|]. split; apply LitP_lit; assumption.
Qed.

(* ---------- binary latches and and gates: the running code ---------- *)
Definition Rol (M : N) (code : N) (x : option N * N * option bool) (code' : N) : Prop :=
  olatch_ok M x /\ code' = (code + 2) mod W64.

Lemma aig_latch_pc maxc M code : M * 2 + 1 <= maxc ->
  pc S (aig_latch fuel maxc (M * 2 + 1) code) (okP (fun r => exists x, fst r = olatch_item x /\ Rol M code x (snd r))).
Proof.
  intros Hml. unfold aig_latch, code_plus_2. eapply pc_rbnd; [apply lit_pc|]. intros n Hn. apply pc_rbnd_any. intros init.
  apply pc_pret. cbn [okP fst snd]. exists (None, n, init). cbn [olatch_item]. unfold Rol. cbn [olatch_ok].
  rewrite AigerLimits.from_code_id by (apply LitP_le in Hn; lia).
  split; [reflexivity|]. split; [|reflexivity]. split; [reflexivity|apply LitP_lit; exact Hn].
Qed.

Definition Roa (maxc : N) (code : N) (g : option N * N * N) (code' : N) : Prop :=
  code' = (code + 2) mod W64 /\ fst (fst g) = None /\
  exists a b, snd (fst g) = from_code maxc a /\ snd g = from_code maxc b /\
              b <= a /\ a <= code /\ code - a < 2 ^ 56 /\ a - b < 2 ^ 56.

Lemma aig_and_pc maxc code :
  pc S (aig_and maxc code) (okP (fun r => exists x, fst r = oand_item x /\ Roa maxc code x (snd r))).
Proof.
  unfold aig_and, code_plus_2. eapply pc_rbnd; [apply delta_code_pc|]. intros a [Ha1 Ha2].
  eapply pc_rbnd; [apply delta_code_pc|]. intros b [Hb1 Hb2]. apply pc_pret. cbn [okP fst snd].
  exists (None, from_code maxc a, from_code maxc b). cbn [oand_item]. split; [reflexivity|].
  unfold Roa. cbn [fst snd]. split; [reflexivity|]. split; [reflexivity|]. exists a, b. auto 10.
Qed.

Lemma chain_ol M : forall lats code code', chainX (Rol M) code lats code' -> code < W64 ->
  Forall (olatch_ok M) lats /\ code' = (code + 2 * nlen lats) mod W64.
Proof.
  induction lats as [|x r IH]; intros code code' H Hc; cbn [chainX] in H.
  - subst. split; [constructor|]. change (nlen (@nil (option N * N * option bool))) with 0.
    rewrite N.mul_0_r, N.add_0_r. symmetry. apply N.mod_small. exact Hc.
  - destruct H as (c1 & [Hx ->] & Hr). destruct (IH _ _ Hr) as [Hall ->]; [apply N.mod_lt; unfold W64; lia|].
    split; [constructor; assumption|]. rewrite nlen_cons. rewrite N.add_mod_idemp_l by (unfold W64; lia). f_equal. lia.
Qed.

(* the gates as the writer wants them: where a code is used it has not wrapped and is within the literal type *)
Lemma chain_oa maxc : forall gs st code st', chainX (Roa maxc) st gs st' -> maxc < 2 ^ 64 ->
  (gs <> [] -> st = code /\ code + 2 * nlen gs <= maxc + 1) -> oands_ok code gs.
Proof.
  induction gs as [|[[o x] y] r IH]; intros st code st' H Hmc Hst; cbn [chainX oands_ok] in *; [exact I|].
  destruct H as (st1 & (-> & Ho & a & b & Hx & Hy & Hba & Hac & Hd1 & Hd2) & Hr). cbn [fst snd] in Ho, Hx, Hy.
  destruct (Hst ltac:(discriminate)) as [-> Hb]. rewrite nlen_cons in Hb.
  rewrite AigerLimits.from_code_id in Hx, Hy by lia. subst o x y.
  split; [split; [reflexivity|]; split; [exact Hba|]; split; [exact Hac|]; split; assumption|].
  apply (IH ((code + 2) mod W64) (code + 2) st' Hr Hmc). intros Hne.
  assert (1 <= nlen r) by (destruct r; [congruence|rewrite nlen_cons; lia]).
  split; [apply N.mod_small; unfold W64; lia|lia].
Qed.

(* ---------- symbols and comment ---------- *)
Lemma sym_try_pc count letter ne k :
  pc S (sym_try fuel count letter ne k) (tokP (fun r => fst r = k /\ snd r < count)).
Proof.
  unfold sym_try. destruct (0 <? count) eqn:E; [|apply pc_pret; exact I]. apply N.ltb_lt in E.
  apply pc_pbnd_any. intros [[u|e]|]; [|apply pc_pret; exact I..].
  eapply pc_pbnd; [apply header_field_pc|]. intros [i|e] Hi; apply pc_pret; cbn [tokP okP fst snd] in *; [split; [reflexivity|lia]|exact I].
Qed.

Lemma or_parse_tok_pc {A} (a b : tok A) (P : A -> Prop) :
  pc S a (tokP P) -> pc S b (tokP P) -> pc S (or_parse_tok a b) (tokP P).
Proof.
  intros Ha Hb. unfold or_parse_tok. eapply pc_pbnd; [exact Ha|]. intros [[x|e]|] Hx; [apply pc_pret; exact Hx|apply pc_pret; exact I|exact Hb].
Qed.

Lemma symbol_target_pc h : pc S (symbol_target fuel h) (tokP (fun r => snd r < kind_count h (fst r))).
Proof.
  assert (Hone : forall count letter ne k, count = kind_count h k ->
            pc S (sym_try fuel count letter ne k) (tokP (fun r => snd r < kind_count h (fst r)))).
  { intros count letter ne k ->. eapply pc_conseq; [apply sym_try_pc|]. intros [[[k' i]|e]|]; cbn [tokP fst snd]; try trivial.
    intros [-> Hi]. exact Hi. }
  unfold symbol_target. repeat apply or_parse_tok_pc; apply Hone; reflexivity.
Qed.

Definition optQ {A} (P : A -> Prop) (o : option A) : Prop := match o with Some a => P a | None => True end.

Lemma next_symbol_pc h : (forall k, kind_count h k <= 2 ^ 64) ->
  pc S (next_symbol fuel h) (okP (optQ (fun x => exists sy, x = sym_item sy /\ AigerRt.sym_ok h sy))).
Proof.
  intros Hcnt. unfold next_symbol. eapply pc_pbnd; [apply symbol_target_pc|]. intros [[[k i]|e]|] Ht; [|apply pc_pret; exact I..].
  cbn [tokP fst snd] in Ht. apply pc_rbnd_any. intros _. eapply pc_rbnd; [apply remaining_line_content_pc|].
  intros name [Hn Hu]. apply pc_pret. cbn [okP optQ]. exists (k, i, name). split; [reflexivity|].
  cbn [AigerRt.sym_ok]. specialize (Hcnt k). split; [exact Ht|]. split; [lia|]. split; assumption.
Qed.

Lemma symbols_loop_pc h : (forall k, kind_count h k <= 2 ^ 64) -> forall n acc,
  pc S (symbols_loop fuel n h acc)
     (fun r => snd r = None -> exists syms, fst (fst r) = rev acc ++ List.map sym_item syms /\ Forall (AigerRt.sym_ok h) syms).
Proof.
  intros Hcnt. induction n as [|n IH]; intros acc; cbn [symbols_loop]; [apply pc_nofuel|].
  eapply pc_pbnd; [apply next_symbol_pc; exact Hcnt|]. intros [[x|]|e] Hx; cbn [okP optQ] in Hx.
  - destruct Hx as (sy & -> & Hsy). eapply pc_conseq; [apply IH|]. intros [[items u] e]. cbn [fst snd]. intros H He.
    destruct (H He) as (syms & -> & Hall). exists (sy :: syms). cbn [rev List.map]. rewrite <- app_assoc. split; [reflexivity|constructor; assumption].
  - apply pc_pret. cbn [fst snd]. intros _. exists []. cbn [List.map]. rewrite app_nil_r. split; [reflexivity|constructor].
  - apply pc_pret. cbn [snd]. discriminate.
Qed.

Lemma comment_section_pc h :
  pc S (comment_section fuel h) (fun r => snd r = FOk -> exists cm, fst r = cmt_items cm /\ AigerRt.cmt_ok cm).
Proof.
  unfold comment_section. apply pc_pbnd_any. intros [[its u] e]. destruct e as [err|]; [apply pc_pret; cbn [snd]; discriminate|].
  apply pc_pbnd_any. intros [[u1|e]|].
  - eapply pc_pbnd with (P := okP utf8_ok).
    + apply pc_rbnd_any. intros _. apply remaining_file_content_pc.
    + intros [content|e] Hc; apply pc_pret; cbn [fst snd]; [|discriminate]. intros _. exists (Some content). split; [reflexivity|exact Hc].
  - apply pc_pret. cbn [snd]. discriminate.
  - apply pc_pbnd_any. intros [u2|e]; apply pc_pret; cbn [fst snd]; [|discriminate]. intros _. exists None. split; [reflexivity|exact I].
Qed.

Definition TailP (h : aheader) (items : list item) : Prop :=
  exists syms cm, items = List.map sym_item syms ++ cmt_items cm /\ Forall (AigerRt.sym_ok h) syms /\ AigerRt.cmt_ok cm.

Lemma tail_pc h : (forall k, kind_count h k <= 2 ^ 64) ->
  pc S (sect (symbols_loop fuel fuel h []) (fun _ => comment_section fuel h)) (fun r => snd r = FOk -> TailP h (fst r)).
Proof.
  intros Hcnt.
  apply (sect_pc' _ _ (fun items (_ : unit) => exists syms, items = List.map sym_item syms /\ Forall (AigerRt.sym_ok h) syms)
                  (fun _ items => exists cm, items = cmt_items cm /\ AigerRt.cmt_ok cm) (TailP h)).
  - eapply pc_conseq; [apply (symbols_loop_pc h Hcnt fuel [])|]. intros r H He. destruct (H He) as (syms & E & Hall).
    exists syms. cbn [rev app] in E. auto.
  - intros _. apply comment_section_pc.
  - intros i1 i2 _ (syms & -> & Hall) (cm & -> & Hcm). exists syms, cm. auto.
Qed.


(* ---------- facts shared by the two assemblies ---------- *)
Lemma HdrV_ml maxc hd : 1 <= maxc -> HdrV maxc hd -> a_max_var hd * 2 + 1 <= maxc.
Proof. intros H1 (Hm & _). lia. Qed.

Lemma HdrV_counts maxc hd : maxc < 2 ^ 64 -> HdrV maxc hd -> forall k, kind_count hd k <= 2 ^ 64.
Proof.
  intros Hmc (Hm & Hi & Hl & Ha & Ho & Hb & Hc & Hj & Hf) k. unfold USIZE_MAX_N in *. destruct k; cbn [kind_count]; lia.
Qed.

Lemma Forall_LitP_lit M ls : Forall (LitP (M * 2 + 1) false) ls -> Forall (AigerRt.lit_ok M) ls.
Proof. intros H. eapply Forall_impl; [|exact H]. intros c. apply LitP_lit. Qed.

Lemma nlen_deal js lits : nlen lits = sumN js -> nlen (deal js lits) = nlen js.
Proof. intros H. destruct (deal_sizes js lits H) as [E _]. rewrite <- E at 2. symmetry. apply nlen_map. Qed.

Lemma middle_assembled {St : Type} maxc h (K : St -> list item -> Prop) (st : St) items :
  HdrV maxc h -> MidP h (a_max_var h * 2 + 1) K st items ->
  exists outs bads cons jus fairs rest,
    items = List.map IOutput outs ++ List.map IBad bads ++ List.map IConstraint cons
            ++ List.map (fun j => IJusticeSize (nlen j)) jus ++ List.map IJustice (concat jus) ++ List.map IFairness fairs ++ rest /\
    a_outputs h = nlen outs /\ a_bad h = nlen bads /\ a_constraints h = nlen cons /\ a_justice h = nlen jus /\
    a_fairness h = nlen fairs /\
    (Forall (AigerRt.lit_ok (a_max_var h)) outs /\ Forall (AigerRt.lit_ok (a_max_var h)) bads /\
     Forall (AigerRt.lit_ok (a_max_var h)) cons /\ Forall (AigerRt.lit_ok (a_max_var h)) (concat jus) /\
     nlen (concat jus) < 2 ^ 64 /\ Forall (AigerRt.lit_ok (a_max_var h)) fairs) /\
    K st rest.
Proof.
  intros Hh (outs & bads & cons & js & jls & fairs & rest & -> & [Eo Ho] & [Eb Hb] & [Ec Hc] & [Ej Hjs] & [Ejl Hjl] & [Ef Hf] & HK).
  destruct (deal_sizes js jls Ejl) as [E1 E2].
  exists outs, bads, cons, (deal js jls), fairs, rest.
  rewrite <- (map_map (fun j => nlen j) IJusticeSize), E1, E2.
  split; [reflexivity|]. split; [auto|]. split; [auto|]. split; [auto|].
  split; [rewrite (nlen_deal js jls Ejl); auto|]. split; [auto|]. split; [|exact HK].
  split; [apply Forall_LitP_lit; exact Ho|]. split; [apply Forall_LitP_lit; exact Hb|]. split; [apply Forall_LitP_lit; exact Hc|].
  split; [apply Forall_LitP_lit; exact Hjl|]. split; [unfold USIZE_MAX_N in Hjs; lia|apply Forall_LitP_lit; exact Hf].
Qed.

(* ================================================================== *)
(* 2. ascii: an accepted text's items are the items of a value in the domain                              *)

Theorem parse_aag_pc maxc : 1 <= maxc -> maxc < 2 ^ 64 ->
  pc S (parse_aag fuel maxc)
     (fun r => snd r = FOk -> exists a, fst (fst r) = Some (g_header a) /\ snd (fst r) = aag_items a /\ aag_ok maxc a).
Proof.
  intros H1 Hmc. unfold parse_aag. eapply pc_pbnd; [apply parse_aheader_pc|]. intros [hd|e] Hhd; cbn [okP] in Hhd; unfold finish_parse;
    [|apply pc_pret; cbn [snd]; discriminate].
  cbv zeta. set (M := a_max_var hd).
  pose proof (HdrV_ml maxc hd H1 Hhd) as Hml. fold M in Hml. pose proof (HdrV_counts maxc hd Hmc Hhd) as Hcnt.
  set (K3 := fun (_ : unit) (items : list item) =>
               exists ands t, items = List.map and_item ands ++ t /\ nlen ands = a_ands hd /\ Forall (and_aag_ok M) ands /\ TailP hd t).
  assert (H3 : forall st, pc S (sect (sloop fuel (aag_and fuel maxc (M * 2 + 1)) (a_ands hd) st [])
                                     (fun _ => sect (symbols_loop fuel fuel hd []) (fun _ => comment_section fuel hd)))
                               (fun r => snd r = FOk -> K3 st (fst r))).
  { intros st. apply (sect_pc' _ _ (SecP and_item (and_aag_ok M) (a_ands hd) st) (fun _ => TailP hd) (K3 st)).
    - apply const_section_pc. intros st0. apply aag_and_pc. exact Hml.
    - intros _. apply tail_pc. exact Hcnt.
    - intros i1 i2 s' [-> (xs & -> & Hn & Hall)] Ht. exists xs, i2. auto. }
  set (K1 := fun (_ : unit) (items : list item) =>
               exists lats t st, items = List.map latch_item lats ++ t /\ nlen lats = a_latches hd /\
                                 Forall (latch_aag_ok M) lats /\ MidP hd (M * 2 + 1) K3 st t).
  assert (H1' : forall st, pc S (sect (sloop fuel (aag_latch fuel maxc (M * 2 + 1)) (a_latches hd) st []) (fun st0 =>
                                 middle_sections fuel maxc (M * 2 + 1) hd st0 (fun st1 =>
                                 sect (sloop fuel (aag_and fuel maxc (M * 2 + 1)) (a_ands hd) st1 [])
                                      (fun _ => sect (symbols_loop fuel fuel hd []) (fun _ => comment_section fuel hd)))))
                                (fun r => snd r = FOk -> K1 st (fst r))).
  { intros st. apply (sect_pc' _ _ (SecP latch_item (latch_aag_ok M) (a_latches hd) st) (MidP hd (M * 2 + 1) K3) (K1 st)).
    - apply const_section_pc. intros st0. apply aag_latch_pc. exact Hml.
    - intros st0. apply middle_pc; [exact Hml|exact H3].
    - intros i1 i2 s' [-> (xs & -> & Hn & Hall)] Hm. exists xs, i2, st. auto. }
  set (K0 := fun (items : list item) =>
               exists ins t st, items = List.map IInput ins ++ t /\ nlen ins = a_inputs hd /\
                                Forall (LitP (M * 2 + 1) true) ins /\ K1 st t).
  eapply pc_pbnd with (P := fun r => snd r = FOk -> K0 (fst r)).
  { apply (sect_pc' _ _ (SecP IInput (LitP (M * 2 + 1) true) (a_inputs hd) tt) K1 K0).
    - apply lits_section_pc. exact Hml.
    - exact H1'.
    - intros i1 i2 s' [-> (xs & -> & Hn & Hall)] Hk. exists xs, i2, tt. auto. }
  intros [items fin] Hb. apply pc_pret. cbn [fst snd] in *. intros ->.
  destruct (Hb eq_refl) as (ins & t0 & st0 & -> & Ei & Hins & lats & t1 & st1 & -> & El & Hlats & Hmid).
  destruct (middle_assembled maxc hd K3 st1 t1 Hhd Hmid)
    as (outs & bads & cons & jus & fairs & rest & -> & Eo & Eb & Ec & Ej & Ef & Hmok & ands & t2 & -> & Ea & Hands & syms & cm & -> & Hsyms & Hcm).
  exists {| g_header := hd; g_inputs := ins; g_latches := lats; g_outputs := outs; g_bad := bads; g_constraints := cons;
            g_justice := jus; g_fairness := fairs; g_ands := ands; g_symbols := syms; g_comment := cm |}.
  cbn [g_header]. split; [reflexivity|]. split.
  - unfold aag_items, middle_items.
    cbn [g_header g_inputs g_latches g_outputs g_bad g_constraints g_justice g_fairness g_ands g_symbols g_comment].
    rewrite <- !app_assoc. reflexivity.
  - destruct Hhd as (Hm & Hi & Hl & Ha & Ho & Hbd & Hc & Hj & Hf). unfold USIZE_MAX_N in *.
    unfold aag_ok, counts_ok, middle_ok.
    cbn [g_header g_inputs g_latches g_outputs g_bad g_constraints g_justice g_fairness g_ands g_symbols g_comment].
    fold M. split.
    { split; [exact H1|]. split; [exact Hmc|]. split; [exact Hm|]. split; [fold M in Hi, Hl, Ha; lia|].
      split; [auto|]. split; [exact Eo|]. split; [auto|]. split; [exact Eb|]. split; [exact Ec|]. split; [exact Ej|].
      split; [exact Ef|]. split; [lia|]. split; [lia|]. split; [lia|]. split; lia. }
    split; [auto|]. split; [eapply Forall_impl; [|exact Hins]; intros c; apply LitP_def|].
    split; [exact Hlats|]. split; [exact Hmok|]. split; [exact Hands|]. split; [exact Hsyms|exact Hcm].
Qed.

(* ================================================================== *)
(* 3. binary                                                            *)

Theorem parse_aig_pc maxc : 1 <= maxc -> maxc < 2 ^ 64 ->
  pc S (parse_aig fuel maxc)
     (fun r => snd r = FOk -> exists a, fst (fst r) = Some (g_header a) /\ snd (fst r) = aig_items a /\ aig_ok maxc a).
Proof.
  intros H1 Hmc. unfold parse_aig. eapply pc_pbnd; [apply parse_aheader_pc|]. intros [hd|e] Hhd; cbn [okP] in Hhd; unfold finish_parse;
    [|apply pc_pret; cbn [snd]; discriminate].
  cbv zeta. set (M := a_max_var hd). set (c1 := ((a_inputs hd + 1) mod W64 * 2) mod W64).
  pose proof (HdrV_ml maxc hd H1 Hhd) as Hml. fold M in Hml. pose proof (HdrV_counts maxc hd Hmc Hhd) as Hcnt.
  set (K3 := fun (code : N) (items : list item) =>
               exists gs t code', items = List.map oand_item gs ++ t /\ nlen gs = a_ands hd /\
                                  chainX (Roa maxc) code gs code' /\ TailP hd t).
  assert (H3 : forall code, pc S (sect (sloop fuel (aig_and maxc) (a_ands hd) code [])
                                       (fun _ => sect (symbols_loop fuel fuel hd []) (fun _ => comment_section fuel hd)))
                                 (fun r => snd r = FOk -> K3 code (fst r))).
  { intros code.
    apply (sect_pc' _ _ (fun items code' => exists gs, items = List.map oand_item gs /\ nlen gs = a_ands hd /\ chainX (Roa maxc) code gs code')
                    (fun _ => TailP hd) (K3 code)).
    - eapply pc_conseq; [apply (sloop_pc (aig_and maxc) oand_item (Roa maxc) (aig_and_pc maxc))|].
      intros r H He. destruct (H He) as (gs & E1 & E2 & E3). exists gs. cbn [rev app] in E1. auto.
    - intros _. apply tail_pc. exact Hcnt.
    - intros i1 i2 code' (gs & -> & Hn & Hch) Ht. exists gs, i2, code'. auto. }
  set (K1 := fun (items : list item) =>
               exists lats t code1, items = List.map olatch_item lats ++ t /\ nlen lats = a_latches hd /\
                                    chainX (Rol M) c1 lats code1 /\ MidP hd (M * 2 + 1) K3 code1 t).
  eapply pc_pbnd with (P := fun r => snd r = FOk -> K1 (fst r)).
  { apply (sect_pc' _ _ (fun items code1 => exists lats, items = List.map olatch_item lats /\ nlen lats = a_latches hd /\ chainX (Rol M) c1 lats code1)
                    (MidP hd (M * 2 + 1) K3) K1).
    - eapply pc_conseq; [apply (sloop_pc (aig_latch fuel maxc (M * 2 + 1)) olatch_item (Rol M) (fun code => aig_latch_pc maxc M code Hml))|].
      intros r H He. destruct (H He) as (lats & E1 & E2 & E3). exists lats. cbn [rev app] in E1. auto.
    - intros code. apply middle_pc; [exact Hml|exact H3].
    - intros i1 i2 code1 (lats & -> & Hn & Hch) Hm. exists lats, i2, code1. auto. }
  intros [items fin] Hb. apply pc_pret. cbn [fst snd] in *. intros ->.
  destruct (Hb eq_refl) as (lats & t1 & code1 & -> & El & Hchl & Hmid).
  destruct (middle_assembled maxc hd K3 code1 t1 Hhd Hmid)
    as (outs & bads & cons & jus & fairs & rest & -> & Eo & Eb & Ec & Ej & Ef & Hmok & gs & t2 & code2 & -> & Ea & Hcha & syms & cm & -> & Hsyms & Hcm).
  exists {| g_header := hd; g_inputs := []; g_latches := lats; g_outputs := outs; g_bad := bads; g_constraints := cons;
            g_justice := jus; g_fairness := fairs; g_ands := gs; g_symbols := syms; g_comment := cm |}.
  cbn [g_header]. split; [reflexivity|]. split.
  - unfold aig_items, middle_items.
    cbn [g_header g_inputs g_latches g_outputs g_bad g_constraints g_justice g_fairness g_ands g_symbols g_comment].
    rewrite <- !app_assoc. reflexivity.
  - destruct Hhd as (Hm & Hi & Hl & Ha & Ho & Hbd & Hc & Hj & Hf). unfold USIZE_MAX_N in *. fold M in Hm, Hi, Hl, Ha.
    assert (Hsum : a_inputs hd + nlen lats + nlen gs <= a_max_var hd) by (fold M; lia).
    destruct (ocode_used hd lats gs maxc Hmc Hm H1 Hsum) as (Hc1lt & Hc1l & Hc2a). fold c1 in Hc1lt, Hc1l, Hc2a.
    destruct (chain_ol M lats c1 code1 Hchl Hc1lt) as [Holats Ecode1].
    unfold aig_ok, counts_ok, middle_ok.
    cbn [g_header g_inputs g_latches g_outputs g_bad g_constraints g_justice g_fairness g_ands g_symbols g_comment].
    fold M. split.
    { split; [exact H1|]. split; [exact Hmc|]. split; [exact Hm|]. split; [lia|].
      split; [auto|]. split; [exact Eo|]. split; [auto|]. split; [exact Eb|]. split; [exact Ec|]. split; [exact Ej|].
      split; [exact Ef|]. split; [lia|]. split; [lia|]. split; [lia|]. split; lia. }
    split; [reflexivity|]. split; [exact Holats|]. split; [exact Hmok|]. split; [|split; [exact Hsyms|exact Hcm]].
    apply (chain_oa maxc gs code1 _ code2 Hcha Hmc). intros Hne. split; [rewrite Ecode1; apply Hc2a; exact Hne|lia].
Qed.

End A.

(* ================================================================== *)
(* 4. the theorems                                                      *)

(* what the ascii parser accepts: header and items are those of a value in the domain of the round trip, and that
   value is what Parser::parse (whole_file) builds.  Every run that ends normally; no hypothesis on the text. *)
Theorem aag_accepted_in_domain fuel maxc S fail hd items lr' v' :
  1 <= maxc -> maxc < 2 ^ 64 ->
  aruns (parse_aag fuel maxc lrs_init) (view_init S fail) (ADone (Some hd, items, FOk, lr') v') ->
  exists a, hd = g_header a /\ items = aag_items a /\ aag_ok maxc a /\ whole_file (Some hd, items, FOk) = Ok a.
Proof.
  intros H1 Hmc Hr.
  destruct (pc_elim S _ _ lrs_init (view_init S fail) (Some hd, items, FOk) lr' v' (parse_aag_pc fuel S maxc H1 Hmc) eq_refl Hr eq_refl)
    as (a & Eh & Ei & Hok).
  cbn [fst snd] in Eh, Ei. inversion Eh; subst hd. subst items. exists a. split; [reflexivity|]. split; [reflexivity|].
  split; [exact Hok|]. cbn [whole_file]. f_equal. apply (aig_of_aag_items maxc a Hok).
Qed.
Print Assumptions aag_accepted_in_domain.

Theorem aig_accepted_in_domain fuel maxc S fail hd items lr' v' :
  1 <= maxc -> maxc < 2 ^ 64 ->
  aruns (parse_aig fuel maxc lrs_init) (view_init S fail) (ADone (Some hd, items, FOk, lr') v') ->
  exists a, hd = g_header a /\ items = aig_items a /\ aig_ok maxc a /\ whole_file (Some hd, items, FOk) = Ok a.
Proof.
  intros H1 Hmc Hr.
  destruct (pc_elim S _ _ lrs_init (view_init S fail) (Some hd, items, FOk) lr' v' (parse_aig_pc fuel S maxc H1 Hmc) eq_refl Hr eq_refl)
    as (a & Eh & Ei & Hok).
  cbn [fst snd] in Eh, Ei. inversion Eh; subst hd. subst items. exists a. split; [reflexivity|]. split; [reflexivity|].
  split; [exact Hok|]. cbn [whole_file]. f_equal. apply (aig_of_aig_items maxc a Hok).
Qed.
Print Assumptions aig_accepted_in_domain.

(* C03, second sentence, ascii AIGER, every admissible run of both parses.  maxc is Lit::MAX_CODE of the literal type
   (255, 65535, ... 2^64-1).  The accepted text S needs no hypothesis at all (the facts used follow the control flow
   of a run that ended with a value); the written text has to be shorter than 2^62 and than the model's loop fuel.
   The second parse returns not only the same value but the same header and the same items. *)
Theorem aag_converse_all_runs fuel maxc S hd items lr' v' a r :
  1 <= maxc -> maxc < 2 ^ 64 ->
  aruns (parse_aag fuel maxc lrs_init) (view_init S None) (ADone (Some hd, items, FOk, lr') v') ->
  whole_file (Some hd, items, FOk) = Ok a ->
  (length (write_aag a) < fuel)%nat -> nlen (write_aag a) < 2 ^ 62 ->
  aruns (parse_aag fuel maxc lrs_init) (view_init (write_aag a) None) r ->
  aag_ok maxc a /\ exists lr2 v2, r = ADone (Some hd, items, FOk, lr2) v2.
Proof.
  intros H1 Hmc Hr Hw Hf Hl Hr2.
  destruct (aag_accepted_in_domain fuel maxc S None hd items lr' v' H1 Hmc Hr) as (a' & -> & -> & Hok & Hw').
  rewrite Hw' in Hw. inversion Hw; subst a'. split; [exact Hok|].
  destruct (aag_roundtrip_all_runs fuel maxc a r Hok Hf Hl Hr2) as (lr2 & v2 & -> & _). eauto.
Qed.
Print Assumptions aag_converse_all_runs.

(* binary AIGER; the writer's assertion (a gate input above the gate's own literal) never fires on a parsed value *)
Theorem aig_converse_all_runs fuel maxc S hd items lr' v' a r :
  1 <= maxc -> maxc < 2 ^ 64 ->
  aruns (parse_aig fuel maxc lrs_init) (view_init S None) (ADone (Some hd, items, FOk, lr') v') ->
  whole_file (Some hd, items, FOk) = Ok a ->
  (length (write_aig a) < fuel)%nat -> nlen (write_aig a) < 2 ^ 62 ->
  aruns (parse_aig fuel maxc lrs_init) (view_init (write_aig a) None) r ->
  aig_ok maxc a /\ write_aig_checked a = WrOk (write_aig a) /\ exists lr2 v2, r = ADone (Some hd, items, FOk, lr2) v2.
Proof.
  intros H1 Hmc Hr Hw Hf Hl Hr2.
  destruct (aig_accepted_in_domain fuel maxc S None hd items lr' v' H1 Hmc Hr) as (a' & -> & -> & Hok & Hw').
  rewrite Hw' in Hw. inversion Hw; subst a'. split; [exact Hok|].
  destruct (aig_roundtrip_all_runs fuel maxc a r Hok Hf Hl Hr2) as (lr2 & v2 & -> & _ & Hchk). split; [exact Hchk|]. eauto.
Qed.
Print Assumptions aig_converse_all_runs.

(* concrete runs of the DeferredReader model: the accepted text and the written text from any honest sources, in any
   pieces, with any chunk sizes (here the accepted text needs the hypotheses of *_any_chunking: bytes, < 2^62, fuel) *)
Theorem aag_converse_concrete fuel maxc (sr1 sr2 : source) (c1 c2 : N) hd items lr1 s1 a :
  let S := fst (stream_of sr1) in
  1 <= maxc -> maxc < 2 ^ 64 ->
  Forall (fun b => b < 256) S -> nlen S < 2 ^ 62 -> (length S < fuel)%nat ->
  NoLie (events sr1) -> 1 <= c1 ->
  crun (parse_aag fuel maxc lrs_init) (set_chunk (reader_init sr1) c1) = CDone (Some hd, items, FOk, lr1) s1 ->
  whole_file (Some hd, items, FOk) = Ok a ->
  (length (write_aag a) < fuel)%nat -> nlen (write_aag a) < 2 ^ 62 ->
  NoLie (events sr2) -> 1 <= c2 -> stream_of sr2 = (write_aag a, None) ->
  exists lr2 s2, crun (parse_aag fuel maxc lrs_init) (set_chunk (reader_init sr2) c2) = CDone (Some hd, items, FOk, lr2) s2.
Proof.
  intros S H1 Hmc Hb Hl Hf HN1 Hc1 Hrun Hw Hfw Hlw HN2 Hc2 Hs2.
  destruct (parse_aag_any_chunking fuel maxc sr1 c1 HN1 Hc1 Hb Hl Hf) as (x & v' & s' & E & C).
  rewrite Hrun in C. inversion C; subst x s'.
  assert (HW : WFV (view_init S (snd (stream_of sr1)))) by (unfold WFV; cbn; lia).
  pose proof (srun_aruns (parse_aag fuel maxc lrs_init) _ HW) as Har. unfold S in Har. rewrite E in Har. fold S in Har.
  destruct (aag_accepted_in_domain fuel maxc S _ hd items lr1 v' H1 Hmc Har) as (a' & -> & -> & Hok & Hw').
  rewrite Hw' in Hw. inversion Hw; subst a'.
  destruct (aag_roundtrip_concrete fuel maxc a sr2 c2 Hok Hfw Hlw HN2 Hc2 Hs2) as (lr2 & s2 & R & _). eauto.
Qed.
Print Assumptions aag_converse_concrete.

Theorem aig_converse_concrete fuel maxc (sr1 sr2 : source) (c1 c2 : N) hd items lr1 s1 a :
  let S := fst (stream_of sr1) in
  1 <= maxc -> maxc < 2 ^ 64 ->
  Forall (fun b => b < 256) S -> nlen S < 2 ^ 62 -> (length S < fuel)%nat ->
  NoLie (events sr1) -> 1 <= c1 ->
  crun (parse_aig fuel maxc lrs_init) (set_chunk (reader_init sr1) c1) = CDone (Some hd, items, FOk, lr1) s1 ->
  whole_file (Some hd, items, FOk) = Ok a ->
  (length (write_aig a) < fuel)%nat -> nlen (write_aig a) < 2 ^ 62 ->
  NoLie (events sr2) -> 1 <= c2 -> stream_of sr2 = (write_aig a, None) ->
  exists lr2 s2, crun (parse_aig fuel maxc lrs_init) (set_chunk (reader_init sr2) c2) = CDone (Some hd, items, FOk, lr2) s2.
Proof.
  intros S H1 Hmc Hb Hl Hf HN1 Hc1 Hrun Hw Hfw Hlw HN2 Hc2 Hs2.
  destruct (parse_aig_any_chunking fuel maxc sr1 c1 HN1 Hc1 Hb Hl Hf) as (x & v' & s' & E & C).
  rewrite Hrun in C. inversion C; subst x s'.
  assert (HW : WFV (view_init S (snd (stream_of sr1)))) by (unfold WFV; cbn; lia).
  pose proof (srun_aruns (parse_aig fuel maxc lrs_init) _ HW) as Har. unfold S in Har. rewrite E in Har. fold S in Har.
  destruct (aig_accepted_in_domain fuel maxc S _ hd items lr1 v' H1 Hmc Har) as (a' & -> & -> & Hok & Hw').
  rewrite Hw' in Hw. inversion Hw; subst a'.
  destruct (aig_roundtrip_concrete fuel maxc a sr2 c2 Hok Hfw Hlw HN2 Hc2 Hs2) as (lr2 & s2 & R & _). eauto.
Qed.
Print Assumptions aig_converse_concrete.

(* the five literal types *)
Lemma max_codes_lt : Forall (fun maxc => 1 <= maxc /\ maxc < 2 ^ 64) [max_code_u8; max_code_u16; max_code_u32; max_code_u64; max_code_usize].
Proof. repeat constructor; cbv; try discriminate; reflexivity. Qed.

(* ================================================================== *)
(* 5. examples: accepted texts the writer would not have written, and what becomes of them                 *)

(* ascii: "aag 7 2 1 2 2 0 0 0 0\n4\n2\n10 14 0\n10\n14\n14 2 4\n12 14 3\ni0 x\nc\nhi\n":
   explicit zero counts, inputs in descending order, a latch with an explicit reset 0, and gates not in order (the
   second gate, 12, uses 14, and the latch's next state is the first gate): the value keeps all literals as they are,
   the written text ("aag 7 2 1 2 2\n...10 14\n...") differs from the input and parses to the same header and items *)
Definition ex_aag_text : bytes :=
  [97;97;103;32;55;32;50;32;49;32;50;32;50;32;48;32;48;32;48;32;48;10;52;10;50;10;49;48;32;49;52;32;48;10;49;48;10;49;52;10;
   49;52;32;50;32;52;10;49;50;32;49;52;32;51;10;105;48;32;120;10;99;10;104;105;10].

Example aag_converse_example :
  exists hd items lr v' a,
    srun (parse_aag 200 max_code_u8 lrs_init) (view_init ex_aag_text None) = ADone (Some hd, items, FOk, lr) v' /\
    whole_file (Some hd, items, FOk) = Ok a /\
    g_inputs a = [4; 2] /\ g_latches a = [(Some 10, 14, Some false)] /\ g_ands a = [(Some 14, 2, 4); (Some 12, 14, 3)] /\
    write_aag a <> ex_aag_text /\
    exists lr2 v2, srun (parse_aag 200 max_code_u8 lrs_init) (view_init (write_aag a) None) = ADone (Some hd, items, FOk, lr2) v2.
Proof.
  do 5 eexists. split; [vm_compute; reflexivity|]. split; [vm_compute; reflexivity|].
  split; [reflexivity|]. split; [reflexivity|]. split; [reflexivity|]. split; [vm_compute; discriminate|].
  do 2 eexists. vm_compute. reflexivity.
Qed.

(* binary: "aig 3 1 0 1 2\n6\n" then the gates 82 00 / 01 (a non-minimal encoding of the delta 2: gate 4 = 2 & 1) and
   02 / 04 (gate 6 = 4 & 0): the writer writes the delta 2 as the single byte 02; same header and items *)
Definition ex_aig_text : bytes := [97;105;103;32;51;32;49;32;48;32;49;32;50;10;54;10; 130;0; 1; 2; 4].

Example aig_converse_example :
  exists hd items lr v' a,
    srun (parse_aig 200 max_code_u8 lrs_init) (view_init ex_aig_text None) = ADone (Some hd, items, FOk, lr) v' /\
    whole_file (Some hd, items, FOk) = Ok a /\
    g_ands a = [(None, 2, 1); (None, 4, 0)] /\
    write_aig a <> ex_aig_text /\
    exists lr2 v2, srun (parse_aig 200 max_code_u8 lrs_init) (view_init (write_aig a) None) = ADone (Some hd, items, FOk, lr2) v2.
Proof.
  do 5 eexists. split; [vm_compute; reflexivity|]. split; [vm_compute; reflexivity|].
  split; [reflexivity|]. split; [vm_compute; discriminate|].
  do 2 eexists. vm_compute. reflexivity.
Qed.
