//! Parser-level streams: run one of the seven parsers to completion on a scripted source and
//! produce a canonical trace; plus implementation-only property oracles built on such runs.
//!
//! common case fields:  <parser> <ty> <flags> <datahex> <events> <pre> <chunk> <ctor>
//!   parser: cnf wcnf gcnf log aag aig btor2        ty: i8..isize (DIMACS) / u8..usize (AIGER) / -
//!   flags : 'h' ignore_header, 'u' ignore_unknown_lines, 'w' whole-file API (AIGER) / written lines (BTOR2),
//!           'x' AIGER: whole-file API, then the value written back with the crate's writer(s); cnf/wcnf/gcnf: after a
//!           clean end, header and clauses written back with write_header / write_clause; '-' none
//!   ctor  : r from_read, b from_boxed_dyn_read, f from_buf_reader (pre bytes sit in the BufReader)
use crate::common::*;
use flussab::DeferredReader;
use std::cell::RefCell;
use std::io::{BufRead, BufReader, Read};
use std::panic::{catch_unwind, AssertUnwindSafe};
use std::rc::Rc;

#[derive(Clone, Debug, Default, PartialEq)]
pub struct Trace {
    pub items: Vec<String>,
    /// number of non-interrupted read() calls made on the source when each item was returned
    pub calls_at_item: Vec<u64>,
    pub fin: String,
}

impl Trace {
    pub fn show(&self) -> String {
        format!("{} => {}", self.items.join(";"), self.fin)
    }
}

pub struct Setup {
    pub parser: String,
    pub ty: String,
    pub flags: String,
    pub data: Vec<u8>,
    pub events: Vec<Ev>,
    pub pre: usize,
    pub chunk: usize,
    pub ctor: String,
}

impl Setup {
    pub fn parse(toks: &[&str]) -> Setup {
        Setup {
            parser: toks[0].into(),
            ty: toks[1].into(),
            flags: toks[2].into(),
            data: unhex(toks[3]),
            events: parse_events(toks[4]),
            pre: toks[5].parse().unwrap(),
            chunk: toks[6].parse().unwrap(),
            ctor: toks[7].into(),
        }
    }
}

/// What the parsers are constructed from.
pub enum Src {
    Read(ScriptedSource),
    Buf(BufReader<Prefill<ScriptedSource>>),
}

fn make_src(s: &Setup) -> (Src, Rc<RefCell<Stats>>) {
    let pre = if s.ctor == "f" { s.pre.min(s.data.len()) } else { 0 };
    let (first, rest) = s.data.split_at(pre);
    let (srcr, stats) = ScriptedSource::new(rest.to_vec(), s.events.clone());
    if s.ctor == "f" {
        let mut br = BufReader::with_capacity(pre.max(1), Prefill { first: if pre > 0 { Some(first.to_vec()) } else { None }, rest: srcr });
        if pre > 0 {
            let got = br.fill_buf().unwrap().len();
            assert_eq!(got, pre);
        }
        (Src::Buf(br), stats)
    } else {
        (Src::Read(srcr), stats)
    }
}

fn show_err_cnf(e: &flussab_cnf::ParseError) -> String {
    match &**e {
        flussab_cnf::InnerParseError::SyntaxError(s) => format!("E({},{})", s.location.line, s.location.column),
        flussab_cnf::InnerParseError::IoError(io) => format!("IO({})", err_id(io)),
    }
}
fn show_err_aiger(e: &flussab_aiger::ParseError) -> String {
    match &**e {
        flussab_aiger::InnerParseError::SyntaxError(s) => format!("E({},{})", s.location.line, s.location.column),
        flussab_aiger::InnerParseError::IoError(io) => format!("IO({})", err_id(io)),
    }
}
fn show_err_btor2(e: &flussab_btor2::ParseError) -> String {
    match &**e {
        flussab_btor2::InnerParseError::SyntaxError(s) => format!("E({},{})", s.location.line, s.location.column),
        flussab_btor2::InnerParseError::IoError(io) => format!("IO({})", err_id(io)),
    }
}

fn lits<T: std::fmt::Display>(l: &[T]) -> String {
    format!("[{}]", l.iter().map(|x| x.to_string()).collect::<Vec<_>>().join(","))
}

// ------------------------------------------------------------------ DIMACS family
macro_rules! with_dimacs_type {
    ($ty:expr, $f:ident, $($args:expr),*) => {
        match $ty {
            "i8" => $f::<i8>($($args),*),
            "i16" => $f::<i16>($($args),*),
            "i32" => $f::<i32>($($args),*),
            "i64" => $f::<i64>($($args),*),
            "isize" => $f::<isize>($($args),*),
            other => panic!("bad DIMACS literal type {other}"),
        }
    };
}

thread_local! { static NEW_SKIP: std::cell::Cell<usize> = std::cell::Cell::new(0); }

macro_rules! construct {
    ($p:ty, $src:expr, $ctor:expr, $cfg:expr, $chunk:expr) => {{
        // the parsers construct their own DeferredReader; the chunk size can only be set through
        // `new(LineReader)`, which is what ctor 'r' with a non-default chunk uses
        match ($src, $ctor) {
            (Src::Buf(br), _) => {
                if $chunk != 16384 {
                    let mut r = DeferredReader::from_buf_reader(br);
                    r.set_chunk_size($chunk);
                    <$p>::new(r.into(), $cfg)
                } else {
                    <$p>::from_buf_reader(br, $cfg)
                }
            }
            (Src::Read(rd), c) if c == "n" => {
                // `new` on a reader the caller has already used: NEW_SKIP bytes are consumed before the hand-over
                let mut r = DeferredReader::from_read(rd);
                r.set_chunk_size($chunk);
                let k = NEW_SKIP.with(|x| x.get());
                let got = r.request(k).len().min(k);
                r.advance(got);
                <$p>::new(r.into(), $cfg)
            }
            (Src::Read(rd), c) => {
                if $chunk != 16384 {
                    let mut r = if c == "b" { DeferredReader::from_boxed_dyn_read(Box::new(rd)) } else { DeferredReader::from_read(rd) };
                    r.set_chunk_size($chunk);
                    <$p>::new(r.into(), $cfg)
                } else if c == "b" {
                    <$p>::from_boxed_dyn_read(Box::new(rd), $cfg)
                } else {
                    <$p>::from_read(rd, $cfg)
                }
            }
        }
    }};
}

fn run_cnf<L: flussab_cnf::Dimacs + std::fmt::Debug>(s: &Setup, t: &mut Trace, stats: &Rc<RefCell<Stats>>, src: Src) {
    use flussab_cnf::cnf;
    let cfg = cnf::Config::default().ignore_header(s.flags.contains('h'));
    let mut p = match construct!(cnf::Parser<L>, src, s.ctor.as_str(), cfg, s.chunk) {
        Ok(p) => p,
        Err(e) => { t.fin = show_err_cnf(&e); return; }
    };
    t.items.push(match p.header() { Some(h) => format!("H({},{})", h.var_count, h.clause_count), None => "H-".into() });
    t.calls_at_item.push(stats.borrow().effective_calls);
    // flag 'x': after a clean end, header and clauses written back with cnf::write_header / write_clause: W:<hex>
    let want_w = s.flags.contains('x');
    let hdr = p.header();
    let mut kept: Vec<Vec<L>> = vec![];
    loop {
        match p.next_clause() {
            Ok(Some(c)) => {
                t.items.push(lits(&c.iter().map(|l| l.dimacs()).collect::<Vec<_>>()));
                t.calls_at_item.push(stats.borrow().effective_calls);
                if want_w { kept.push(c.to_vec()); }
            }
            Ok(None) => {
                if want_w {
                    t.items.push(format!("W:{}", hex(&write_to_vec(|w| { if let Some(h) = hdr { cnf::write_header(w, h); } for c in &kept { cnf::write_clause(w, c); } }))));
                    t.calls_at_item.push(stats.borrow().effective_calls);
                }
                t.fin = "ok".into(); return;
            }
            Err(e) => { t.fin = show_err_cnf(&e); return; }
        }
        if t.items.len() > 2_000_000 { t.fin = "RUNAWAY".into(); return; }
    }
}

fn run_wcnf<L: flussab_cnf::Dimacs + std::fmt::Debug>(s: &Setup, t: &mut Trace, stats: &Rc<RefCell<Stats>>, src: Src) {
    use flussab_cnf::wcnf;
    let cfg = wcnf::Config::default().ignore_header(s.flags.contains('h'));
    let mut p = match construct!(wcnf::Parser<L>, src, s.ctor.as_str(), cfg, s.chunk) {
        Ok(p) => p,
        Err(e) => { t.fin = show_err_cnf(&e); return; }
    };
    t.items.push(match p.header() { Some(h) => format!("H({},{},{})", h.var_count, h.clause_count, h.top_weight), None => "H-".into() });
    t.calls_at_item.push(stats.borrow().effective_calls);
    let want_w = s.flags.contains('x');
    let hdr = p.header();
    let mut kept: Vec<(u64, Vec<L>)> = vec![];
    loop {
        match p.next_clause() {
            Ok(Some((w, c))) => {
                t.items.push(format!("{}:{}", w, lits(&c.iter().map(|l| l.dimacs()).collect::<Vec<_>>())));
                t.calls_at_item.push(stats.borrow().effective_calls);
                if want_w { kept.push((w, c.to_vec())); }
            }
            Ok(None) => {
                if want_w {
                    t.items.push(format!("W:{}", hex(&write_to_vec(|wr| { if let Some(h) = hdr { wcnf::write_header(wr, h); } for (wt, c) in &kept { wcnf::write_clause(wr, *wt, c); } }))));
                    t.calls_at_item.push(stats.borrow().effective_calls);
                }
                t.fin = "ok".into(); return;
            }
            Err(e) => { t.fin = show_err_cnf(&e); return; }
        }
        if t.items.len() > 2_000_000 { t.fin = "RUNAWAY".into(); return; }
    }
}

fn run_gcnf<L: flussab_cnf::Dimacs + std::fmt::Debug>(s: &Setup, t: &mut Trace, stats: &Rc<RefCell<Stats>>, src: Src) {
    use flussab_cnf::gcnf;
    let cfg = gcnf::Config::default().ignore_header(s.flags.contains('h'));
    let mut p = match construct!(gcnf::Parser<L>, src, s.ctor.as_str(), cfg, s.chunk) {
        Ok(p) => p,
        Err(e) => { t.fin = show_err_cnf(&e); return; }
    };
    t.items.push(match p.header() { Some(h) => format!("H({},{},{})", h.var_count, h.clause_count, h.group_count), None => "H-".into() });
    t.calls_at_item.push(stats.borrow().effective_calls);
    let want_w = s.flags.contains('x');
    let hdr = p.header();
    let mut kept: Vec<(usize, Vec<L>)> = vec![];
    loop {
        match p.next_clause() {
            Ok(Some((g, c))) => {
                t.items.push(format!("{{{}}}{}", g, lits(&c.iter().map(|l| l.dimacs()).collect::<Vec<_>>())));
                t.calls_at_item.push(stats.borrow().effective_calls);
                if want_w { kept.push((g, c.to_vec())); }
            }
            Ok(None) => {
                if want_w {
                    t.items.push(format!("W:{}", hex(&write_to_vec(|wr| { if let Some(h) = hdr { gcnf::write_header(wr, h); } for (g, c) in &kept { gcnf::write_clause(wr, *g, c); } }))));
                    t.calls_at_item.push(stats.borrow().effective_calls);
                }
                t.fin = "ok".into(); return;
            }
            Err(e) => { t.fin = show_err_cnf(&e); return; }
        }
        if t.items.len() > 2_000_000 { t.fin = "RUNAWAY".into(); return; }
    }
}

fn run_log<L: flussab_cnf::Dimacs + std::fmt::Debug>(s: &Setup, t: &mut Trace, stats: &Rc<RefCell<Stats>>, src: Src) {
    use flussab_cnf::sat_solver_log as log;
    let cfg = log::Config::default().ignore_unknown_lines(s.flags.contains('u'));
    let mut r = match src {
        Src::Buf(br) => DeferredReader::from_buf_reader(br),
        Src::Read(rd) => if s.ctor == "b" { DeferredReader::from_boxed_dyn_read(Box::new(rd)) } else { DeferredReader::from_read(rd) },
    };
    r.set_chunk_size(s.chunk);
    let mut lr = flussab::text::LineReader::new(r);
    match log::parse_log::<L>(&mut lr, cfg) {
        Ok(l) => {
            t.items.push(format!("sat={} a={}", match l.satisfiable { Some(true) => "T", Some(false) => "F", None => "N" },
                                 lits(&l.assignment.iter().map(|x| x.dimacs()).collect::<Vec<_>>())));
            t.calls_at_item.push(stats.borrow().effective_calls);
            t.fin = "ok".into();
        }
        Err(e) => t.fin = show_err_cnf(&e),
    }
}

// ------------------------------------------------------------------ AIGER
macro_rules! with_aiger_type {
    ($ty:expr, $f:ident, $($args:expr),*) => {
        match $ty {
            "u8" => $f::<u8>($($args),*),
            "u16" => $f::<u16>($($args),*),
            "u32" => $f::<u32>($($args),*),
            "u64" => $f::<u64>($($args),*),
            "usize" => $f::<usize>($($args),*),
            other => panic!("bad AIGER literal type {other}"),
        }
    };
}

fn show_symbol(sy: &flussab_aiger::aig::Symbol) -> String {
    use flussab_aiger::aig::SymbolTarget::*;
    let (p, i) = match sy.target {
        Input(i) => ("i", i), Output(i) => ("o", i), Latch(i) => ("l", i), BadStateProperty(i) => ("b", i),
        InvariantConstraint(i) => ("c", i), JusticeProperty(i) => ("j", i), FairnessConstraint(i) => ("f", i),
    };
    format!("s:{}{}:{}", p, i, hex(sy.name.as_bytes()))
}
fn show_init(i: Option<bool>) -> &'static str {
    match i { Some(false) => "0", Some(true) => "1", None => "x" }
}

/// flags `kN` (N a decimal number): take at most N entries per section before moving on
fn skip_limit(flags: &str) -> usize {
    match flags.find('k') {
        Some(i) => flags[i + 1..].chars().take_while(|c| c.is_ascii_digit()).collect::<String>().parse().unwrap_or(0),
        None => usize::MAX,
    }
}

macro_rules! step {
    ($t:expr, $stats:expr, $lim:expr, $e:expr, $show:expr) => {
        let mut taken = 0usize;
        loop {
            // flag kN: take at most N entries of a section, then move on (the section-switch methods skip the rest)
            if taken >= $lim { break; }
            taken += 1;
            match $e {
                Ok(Some(x)) => { $t.items.push($show(x)); $t.calls_at_item.push($stats.borrow().effective_calls); }
                Ok(None) => break,
                Err(e) => { $t.fin = show_err_aiger(&e); return; }
            }
        }
    };
}
macro_rules! next {
    ($t:expr, $e:expr) => {
        match $e { Ok(x) => x, Err(e) => { $t.fin = show_err_aiger(&e); return; } }
    };
}

fn run_aag<L: flussab_aiger::Lit>(s: &Setup, t: &mut Trace, stats: &Rc<RefCell<Stats>>, src: Src) {
    let lim = skip_limit(&s.flags);
    use flussab_aiger::ascii;
    let cfg = ascii::Config::default();
    let p = next!(t, construct!(ascii::Parser<L>, src, s.ctor.as_str(), cfg, s.chunk));
    let h = p.header().clone();
    t.items.push(format!("H({},{},{},{},{},{},{},{},{})", h.max_var_index, h.input_count, h.latch_count, h.output_count,
        h.and_gate_count, h.bad_state_property_count, h.invariant_constraint_count, h.justice_property_count, h.fairness_constraint_count));
    t.calls_at_item.push(stats.borrow().effective_calls);
    if s.flags.contains('w') {
        // whole-file API
        match p.parse() {
            Ok(a) => { t.items.push(show_aig(&a)); t.calls_at_item.push(stats.borrow().effective_calls); t.fin = "ok".into(); }
            Err(e) => t.fin = show_err_aiger(&e),
        }
        return;
    }
    if s.flags.contains('x') {
        // whole-file API, then the crate's writer on the value: W:<hex of the bytes ascii::Writer::write_aig writes>
        match p.parse() {
            Ok(a) => {
                t.items.push(show_aig(&a)); t.calls_at_item.push(stats.borrow().effective_calls);
                t.items.push(format!("W:{}", hex(&write_to_vec(|w| { ascii::Writer::<L>::new(w).write_aig(&a); }))));
                t.calls_at_item.push(stats.borrow().effective_calls);
                t.fin = "ok".into();
            }
            Err(e) => t.fin = show_err_aiger(&e),
        }
        return;
    }
    let mut r = next!(t, p.inputs());
    step!(t, stats, lim, r.next_input(), |l: L| format!("i:{}", l.code()));
    let mut r = next!(t, r.latches());
    step!(t, stats, lim, r.next_latch(), |l: flussab_aiger::aig::Latch<L>| format!("l:{},{},{}", l.state.code(), l.next_state.code(), show_init(l.initialization)));
    let mut r = next!(t, r.outputs());
    step!(t, stats, lim, r.next_output(), |l: L| format!("o:{}", l.code()));
    let mut r = next!(t, r.bad_state_properties());
    step!(t, stats, lim, r.next_bad_state_property(), |l: L| format!("b:{}", l.code()));
    let mut r = next!(t, r.invariant_constraints());
    step!(t, stats, lim, r.next_invariant_constraint(), |l: L| format!("c:{}", l.code()));
    let mut r = next!(t, r.justice_properties());
    step!(t, stats, lim, r.next_justice_property_size(), |n: usize| format!("jn:{}", n));
    let mut r = next!(t, r.justice_property_local_fairness_constraints());
    step!(t, stats, lim, r.next_justice_property_local_fairness_constraint(), |l: L| format!("j:{}", l.code()));
    let mut r = next!(t, r.fairness_constraints());
    step!(t, stats, lim, r.next_fairness_constraint(), |l: L| format!("f:{}", l.code()));
    let mut r = next!(t, r.and_gates());
    step!(t, stats, lim, r.next_and_gate(), |g: flussab_aiger::aig::AndGate<L>| format!("a:{},{},{}", g.output.code(), g.inputs[0].code(), g.inputs[1].code()));
    let mut r = next!(t, r.symbols());
    step!(t, stats, lim, r.next_symbol(), |sy: flussab_aiger::aig::Symbol| show_symbol(&sy));
    match r.comment() {
        Ok(Some(c)) => { t.items.push(format!("C:{}", hex(c.as_bytes()))); t.calls_at_item.push(stats.borrow().effective_calls); t.fin = "ok".into(); }
        Ok(None) => t.fin = "ok".into(),
        Err(e) => t.fin = show_err_aiger(&e),
    }
}

fn run_aig<L: flussab_aiger::Lit>(s: &Setup, t: &mut Trace, stats: &Rc<RefCell<Stats>>, src: Src) {
    let lim = skip_limit(&s.flags);
    use flussab_aiger::binary;
    let cfg = binary::Config::default();
    let p = next!(t, construct!(binary::Parser<L>, src, s.ctor.as_str(), cfg, s.chunk));
    let h = p.header().clone();
    t.items.push(format!("H({},{},{},{},{},{},{},{},{})", h.max_var_index, h.input_count, h.latch_count, h.output_count,
        h.and_gate_count, h.bad_state_property_count, h.invariant_constraint_count, h.justice_property_count, h.fairness_constraint_count));
    t.calls_at_item.push(stats.borrow().effective_calls);
    if s.flags.contains('w') {
        match p.parse() {
            Ok(a) => { t.items.push(show_ordered_aig(&a)); t.calls_at_item.push(stats.borrow().effective_calls); t.fin = "ok".into(); }
            Err(e) => t.fin = show_err_aiger(&e),
        }
        return;
    }
    if s.flags.contains('x') {
        // whole-file API, then the crate's writers on the value: W:<hex binary::Writer::write_ordered_aig>,
        // WS:<the same for the value with every gate's inputs exchanged>, WA:<hex ascii::Writer::write_ordered_aig>
        match p.parse() {
            Ok(a) => {
                t.items.push(show_ordered_aig(&a)); t.calls_at_item.push(stats.borrow().effective_calls);
                // (D14: the writer's running code wraps like the parser's; up to I + L + A = M = 2^63 - 1 it does not panic)
                t.items.push(format!("W:{}", hex(&write_binary_aig_to_vec(&a))));
                t.calls_at_item.push(stats.borrow().effective_calls);
                // the same value with the two inputs of every gate exchanged: write_and_gate puts them back in order
                {
                    let mut b = a.clone();
                    for g in b.and_gates.iter_mut() { g.inputs.swap(0, 1); }
                    t.items.push(format!("WS:{}", hex(&write_binary_aig_to_vec(&b))));
                    t.calls_at_item.push(stats.borrow().effective_calls);
                }
                // ascii::Writer::write_ordered_aig writes one line per input: only for small input counts
                t.items.push(if a.input_count <= 4096 {
                    format!("WA:{}", hex(&write_to_vec(|w| { flussab_aiger::ascii::Writer::<L>::new(w).write_ordered_aig(&a); })))
                } else { "WA:-".to_string() });
                t.calls_at_item.push(stats.borrow().effective_calls);
                t.fin = "ok".into();
            }
            Err(e) => t.fin = show_err_aiger(&e),
        }
        return;
    }
    let mut r = next!(t, p.latches());
    step!(t, stats, lim, r.next_latch(), |l: flussab_aiger::aig::OrderedLatch<L>| format!("l:{},{}", l.next_state.code(), show_init(l.initialization)));
    let mut r = next!(t, r.outputs());
    step!(t, stats, lim, r.next_output(), |l: L| format!("o:{}", l.code()));
    let mut r = next!(t, r.bad_state_properties());
    step!(t, stats, lim, r.next_bad_state_property(), |l: L| format!("b:{}", l.code()));
    let mut r = next!(t, r.invariant_constraints());
    step!(t, stats, lim, r.next_invariant_constraint(), |l: L| format!("c:{}", l.code()));
    let mut r = next!(t, r.justice_properties());
    step!(t, stats, lim, r.next_justice_property_size(), |n: usize| format!("jn:{}", n));
    let mut r = next!(t, r.justice_property_local_fairness_constraints());
    step!(t, stats, lim, r.next_justice_property_local_fairness_constraint(), |l: L| format!("j:{}", l.code()));
    let mut r = next!(t, r.fairness_constraints());
    step!(t, stats, lim, r.next_fairness_constraint(), |l: L| format!("f:{}", l.code()));
    let mut r = next!(t, r.and_gates());
    step!(t, stats, lim, r.next_and_gate(), |g: flussab_aiger::aig::OrderedAndGate<L>| format!("a:{},{}", g.inputs[0].code(), g.inputs[1].code()));
    let mut r = next!(t, r.symbols());
    step!(t, stats, lim, r.next_symbol(), |sy: flussab_aiger::aig::Symbol| show_symbol(&sy));
    match r.comment() {
        Ok(Some(c)) => { t.items.push(format!("C:{}", hex(c.as_bytes()))); t.calls_at_item.push(stats.borrow().effective_calls); t.fin = "ok".into(); }
        Ok(None) => t.fin = "ok".into(),
        Err(e) => t.fin = show_err_aiger(&e),
    }
}

pub fn show_aig<L: flussab_aiger::Lit>(a: &flussab_aiger::aig::Aig<L>) -> String {
    let c = |v: &Vec<L>| v.iter().map(|l| l.code().to_string()).collect::<Vec<_>>().join(",");
    format!("AIG(M={} I=[{}] L=[{}] O=[{}] B=[{}] C=[{}] J=[{}] F=[{}] A=[{}] S=[{}] c={})",
        a.max_var_index, c(&a.inputs),
        a.latches.iter().map(|l| format!("{}/{}/{}", l.state.code(), l.next_state.code(), show_init(l.initialization))).collect::<Vec<_>>().join(","),
        c(&a.outputs), c(&a.bad_state_properties), c(&a.invariant_constraints),
        a.justice_properties.iter().map(|j| format!("({})", c(j))).collect::<Vec<_>>().join(","),
        c(&a.fairness_constraints),
        a.and_gates.iter().map(|g| format!("{}={}&{}", g.output.code(), g.inputs[0].code(), g.inputs[1].code())).collect::<Vec<_>>().join(","),
        a.symbols.iter().map(show_symbol).collect::<Vec<_>>().join(","),
        match &a.comment { Some(s) => hex(s.as_bytes()), None => "none".into() })
}
pub fn show_ordered_aig<L: flussab_aiger::Lit>(a: &flussab_aiger::aig::OrderedAig<L>) -> String {
    let c = |v: &Vec<L>| v.iter().map(|l| l.code().to_string()).collect::<Vec<_>>().join(",");
    format!("OAIG(M={} I={} L=[{}] O=[{}] B=[{}] C=[{}] J=[{}] F=[{}] A=[{}] S=[{}] c={})",
        a.max_var_index, a.input_count,
        a.latches.iter().map(|l| format!("{}/{}", l.next_state.code(), show_init(l.initialization))).collect::<Vec<_>>().join(","),
        c(&a.outputs), c(&a.bad_state_properties), c(&a.invariant_constraints),
        a.justice_properties.iter().map(|j| format!("({})", c(j))).collect::<Vec<_>>().join(","),
        c(&a.fairness_constraints),
        a.and_gates.iter().map(|g| format!("{}&{}", g.inputs[0].code(), g.inputs[1].code())).collect::<Vec<_>>().join(","),
        a.symbols.iter().map(show_symbol).collect::<Vec<_>>().join(","),
        match &a.comment { Some(s) => hex(s.as_bytes()), None => "none".into() })
}

// ------------------------------------------------------------------ BTOR2
/// Canonical rendering of a BTOR2 line: every field, free-form bytes in hex.
///   c:<hex>                                   comment line
///   n:<id>:<variant>:<symbol>:<comment>       node; symbol/comment: `~` (None) or `=<hex>`
pub fn show_btor2_line(l: &flussab_btor2::btor2::Line) -> String {
    use flussab_btor2::btor2::*;
    fn opt<T: std::ops::Deref<Target = [u8]> + ?Sized>(o: Option<&T>) -> String {
        match o { None => "~".to_string(), Some(b) => format!("={}", hex(b)) }
    }
    let id = |n: NodeId| n.0.get().to_string();
    match l {
        Line::Comment(c) => format!("c:{}", hex(c)),
        Line::Node(n) => {
            let v = match &n.variant {
                NodeVariant::Sort(Sort::BitVec(w)) => format!("sort.bitvec.{}", w.get()),
                NodeVariant::Sort(Sort::Array(Array(d, c))) => format!("sort.array.{}.{}", id(*d), id(*c)),
                NodeVariant::Value(Value { sort, variant }) => {
                    let vv = match variant {
                        ValueVariant::Const(Const::Binary(c)) => format!("const.b.{}", hex(c.to_string().as_bytes())),
                        ValueVariant::Const(Const::Decimal(c)) => format!("const.d.{}", hex(c.to_string().as_bytes())),
                        ValueVariant::Const(Const::Hex(c)) => format!("const.h.{}", hex(c.to_string().as_bytes())),
                        ValueVariant::Const(Const::One) => "one".into(),
                        ValueVariant::Const(Const::Ones) => "ones".into(),
                        ValueVariant::Const(Const::Zero) => "zero".into(),
                        ValueVariant::Input => "input".into(),
                        ValueVariant::State => "state".into(),
                        ValueVariant::Op(Op::Unary(op, a0)) => format!("op.{}.{}", format!("{:?}", op).replace(", ", ","), id(*a0)),
                        ValueVariant::Op(Op::Binary(op, [a0, a1])) => format!("op.{:?}.{}.{}", op, id(*a0), id(*a1)),
                        ValueVariant::Op(Op::Ternary(op, [a0, a1, a2])) => format!("op.{:?}.{}.{}.{}", op, id(*a0), id(*a1), id(*a2)),
                    };
                    format!("value.{}.{}", id(*sort), vv)
                }
                NodeVariant::Assignment(a) => format!("assign.{:?}.{}.{}.{}", a.kind, id(a.sort), id(a.state), id(a.value)),
                NodeVariant::Output(Output::SingleValue(o)) => format!("output.{:?}.{}", o.kind, id(o.value)),
                NodeVariant::Output(Output::Justice(nodes)) => format!("justice.{}", lits(&nodes.iter().map(|x| x.0.get()).collect::<Vec<_>>())),
            };
            format!("n:{}:{}:{}:{}", id(n.id), v, opt(n.symbol), opt(n.comment))
        }
    }
}

/// flags 'w': each item is the hex of what `Line::write_into` writes for the parsed line (writer correspondence)
fn run_btor2(s: &Setup, t: &mut Trace, stats: &Rc<RefCell<Stats>>, src: Src) {
    use flussab_btor2::{Config, Parser};
    let p = construct!(Parser, src, s.ctor.as_str(), Config::default(), s.chunk);
    let mut p = match p { Ok(p) => p, Err(e) => { t.fin = show_err_btor2(&e); return; } };
    let written = s.flags.contains('w');
    loop {
        match p.next_line() {
            Ok(Some(l)) => {
                t.items.push(if written { hex(&write_to_vec(|w| l.write_into(w))) } else { show_btor2_line(&l) });
                t.calls_at_item.push(stats.borrow().effective_calls);
            }
            Ok(None) => { t.fin = "ok".into(); return; }
            Err(e) => { t.fin = show_err_btor2(&e); return; }
        }
        if t.items.len() > 2_000_000 { t.fin = "RUNAWAY".into(); return; }
    }
}

/// pa b2c <b|d|h> <hex of a UTF-8 string>: the validating constructors of the constants; on success the
/// constant is written as the line `2 const* 1 <constant>` and the written bytes are shown
pub fn run_btor2_const(toks: &[&str]) -> String {
    use flussab_btor2::btor2::*;
    let txt = String::from_utf8(unhex(toks[1])).unwrap();
    let show = |e: InvalidConstError| match e { InvalidConstError::Empty => "empty".to_string(), InvalidConstError::InvalidDigit(c) => format!("invalid({})", c as u32) };
    let c: Result<Const, InvalidConstError> = match toks[0] {
        "b" => BinaryConst::try_from(txt.as_str()).map(Const::Binary),
        "d" => DecimalConst::try_from(txt.as_str()).map(Const::Decimal),
        "h" => HexConst::try_from(txt.as_str()).map(Const::Hex),
        _ => panic!("bad const kind"),
    };
    match c {
        Err(e) => show(e),
        Ok(c) => {
            let line = Line::Node(Node { id: NodeId::new(2), variant: NodeVariant::Value(Value { sort: NodeId::new(1), variant: ValueVariant::Const(c) }), symbol: None, comment: None });
            format!("ok {}", hex(&write_to_vec(|w| line.write_into(w))))
        }
    }
}

/// Runs the configured parser to its final result; panics are caught and become the final outcome.
pub fn run_setup(s: &Setup) -> (Trace, Rc<RefCell<Stats>>) {
    NEW_SKIP.with(|x| x.set(if s.ctor == "n" { s.pre } else { 0 }));
    let (src, stats) = make_src(s);
    let mut t = Trace::default();
    let st2 = stats.clone();
    let res = catch_unwind(AssertUnwindSafe(|| {
        let t = &mut t;
        match s.parser.as_str() {
            "cnf" => with_dimacs_type!(s.ty.as_str(), run_cnf, s, t, &st2, src),
            "wcnf" => with_dimacs_type!(s.ty.as_str(), run_wcnf, s, t, &st2, src),
            "gcnf" => with_dimacs_type!(s.ty.as_str(), run_gcnf, s, t, &st2, src),
            "log" => with_dimacs_type!(s.ty.as_str(), run_log, s, t, &st2, src),
            "aag" => with_aiger_type!(s.ty.as_str(), run_aag, s, t, &st2, src),
            "aig" => with_aiger_type!(s.ty.as_str(), run_aig, s, t, &st2, src),
            "btor2" => run_btor2(s, t, &st2, src),
            other => panic!("unknown parser {other}"),
        }
    }));
    if let Err(p) = res {
        t.fin = format!("PANIC({})", panic_kind(&*p));
    }
    (t, stats)
}

/// stream "pa": the plain trace (used for model correspondence).
pub fn run(toks: &[&str]) -> String {
    if toks.first() == Some(&"b2c") {
        return run_btor2_const(&toks[1..]);
    }
    let s = Setup::parse(toks);
    let (t, stats) = run_setup(&s);
    format!("{} | calls={}", t.show(), stats.borrow().calls)
}

// ------------------------------------------------------------------ oracles
/// The location oracle (bounds): every LF byte of the input is a line break, for every parser -- for binary AIGER too
/// (flussab 530b52f: a byte 0x0A that ends a delta code of the and-gate section counts as a line break).
fn line_col_ok(data: &[u8], fin: &str) -> Option<String> {
    // E(line,col): 1 <= line <= #lines + 1, 1 <= col <= len(line) + 1
    let inner = fin.strip_prefix("E(")?.strip_suffix(')')?;
    let mut it = inner.split(',');
    let line: usize = it.next()?.parse().ok()?;
    let col: usize = it.next()?.parse().ok()?;
    let lines: Vec<&[u8]> = data.split(|&b| b == b'\n').collect();
    // "abc\n" splits into ["abc", ""]: 1 line, and the empty tail is line 2 = (number of lines + 1);
    // "abc" (unterminated) splits into ["abc"]: 1 line, line 2 is still allowed
    let unterminated = !data.is_empty() && *data.last().unwrap() != b'\n';
    let max_line = lines.len() + unterminated as usize;
    if line < 1 || line > max_line {
        return Some(format!("error line {line} is outside 1..={}", max_line));
    }
    let len = if line <= lines.len() { lines[line - 1].len() } else { 0 };
    if col < 1 || col > len + 1 {
        return Some(format!("error column {col} is outside 1..={} on line {line}", len + 1));
    }
    None
}

fn one_shot(s: &Setup) -> Setup {
    Setup { parser: s.parser.clone(), ty: s.ty.clone(), flags: s.flags.clone(), data: s.data.clone(), events: vec![], pre: 0,
            chunk: 16384, ctor: "r".into() }
}

/// The stream of `s` (the bytes its source delivers before its terminal event, and that event) in one piece.
/// Without a Fail / Eof event in the schedule this is `one_shot`; with one (the pa stream's BTOR2 cases script
/// failing and prematurely ending sources) the one-shot source delivers the same prefix and then the same event.
fn one_shot_same_stream(s: &Setup) -> Setup {
    let pre = if s.ctor == "f" { s.pre.min(s.data.len()) } else { 0 };
    let mut left = s.data.len() - pre;
    let mut term: Option<Ev> = None;
    for e in &s.events {
        match e {
            Ev::Deliver(k) => {
                if *k == 0 || left == 0 || *k > left { left = 0; term = Some(Ev::Eof); break; }
                left -= *k;
            }
            Ev::Interrupt => {}
            Ev::Fail(id) => { term = Some(Ev::Fail(*id)); break; }
            Ev::Eof => { term = Some(Ev::Eof); break; }
            Ev::Lie(_) => return one_shot(s),
        }
    }
    let n = s.data.len() - left;
    let mut o = one_shot(s);
    match term {
        Some(Ev::Fail(id)) => { o.events = if n > 0 { vec![Ev::Deliver(n), Ev::Fail(id)] } else { vec![Ev::Fail(id)] }; }
        Some(Ev::Eof) => { o.data.truncate(n); }
        _ => {}
    }
    o
}

/// o_c01: the chunked / interrupted / small-chunk-size run returns exactly what the one-shot run returns.
/// Also checks C08's bounds clause and C05's no-panic clause on both runs.
pub fn oracle_c01(toks: &[&str]) -> String {
    let s = Setup::parse(toks);
    let whole = one_shot_same_stream(&s);
    let (a, _) = run_setup(&whole);
    let (b, st) = run_setup(&s);
    if a.fin.starts_with("PANIC") || b.fin.starts_with("PANIC") {
        return format!("FAIL panic: one-shot {} / chunked {}", a.fin, b.fin);
    }
    if a.items != b.items || a.fin != b.fin {
        let k = a.items.iter().zip(b.items.iter()).position(|(x, y)| x != y).unwrap_or(a.items.len().min(b.items.len()));
        return format!("FAIL one-shot and re-chunked runs differ at item {k}: one-shot [{} => {}] chunked [{} => {}]",
                       a.items.get(k).cloned().unwrap_or_default(), a.fin, b.items.get(k).cloned().unwrap_or_default(), b.fin);
    }
    if let Some(w) = line_col_ok(&whole.data, &b.fin) {
        return format!("FAIL {w} (final {})", b.fin);
    }
    if st.borrow().calls_after_terminal != 0 {
        return "FAIL the source was read again after it reported its end".into();
    }
    "PASS".into()
}

/// o_c04 <k> <e> + setup: the source delivers the first k bytes (chunked as the schedule says), then fails.
pub fn oracle_c04(toks: &[&str]) -> String {
    let k: usize = toks[0].parse().unwrap();
    let s = Setup::parse(&toks[1..]);
    let k = k.min(s.data.len());
    // faulty schedule: the given events limited to k bytes, then the failure
    let mut evs: Vec<Ev> = vec![];
    let mut left = k.saturating_sub(if s.ctor == "f" { s.pre.min(k) } else { 0 });
    let pre = if s.ctor == "f" { s.pre.min(k) } else { 0 };
    for e in &s.events {
        if left == 0 { break; }
        match e {
            Ev::Deliver(n) if *n > 0 => { let d = (*n).min(left); evs.push(Ev::Deliver(d)); left -= d; }
            Ev::Interrupt => evs.push(Ev::Interrupt),
            _ => {}
        }
    }
    if left > 0 { evs.push(Ev::Deliver(left)); }
    evs.push(Ev::Fail(7));
    let faulty = Setup { parser: s.parser.clone(), ty: s.ty.clone(), flags: s.flags.clone(), data: s.data.clone(), events: evs,
                         pre, chunk: s.chunk, ctor: s.ctor.clone() };
    let (f, _) = run_setup(&faulty);
    let (full, _) = run_setup(&one_shot(&s));
    let mut prefix = one_shot(&s);
    prefix.data.truncate(k);
    let (pfx, _) = run_setup(&prefix);
    if f.fin.starts_with("PANIC") {
        return format!("FAIL panic with a failing source: {}", f.fin);
    }
    if f.fin == "ok" {
        return format!("FAIL input reported as completely parsed although the source failed after {k} bytes");
    }
    if f.fin != "IO(e7)" {
        // only the very syntax error of the fault-free run, reached without looking at or past offset k
        if !(f.fin.starts_with("E(") && f.fin == full.fin && f.fin == pfx.fin && f.items.len() == full.items.len()) {
            return format!("FAIL final result {} with a source failing after {k} bytes (fault-free: {}, prefix with clean end: {})",
                           f.fin, full.fin, pfx.fin);
        }
    }
    for (i, it) in f.items.iter().enumerate() {
        if full.items.get(i) != Some(it) {
            return format!("FAIL item {i} handed out before the I/O error is [{}], the fault-free run returns [{}]",
                           it, full.items.get(i).cloned().unwrap_or("<none>".into()));
        }
    }
    "PASS".into()
}

/// o_c05: terminates with Ok or Err, no panic, allocation bounded by the input size.
pub fn oracle_c05(toks: &[&str]) -> String {
    let s = Setup::parse(toks);
    crate::alloc::reset_peak();
    let base = crate::alloc::current();
    let (t, _) = run_setup(&s);
    let peak = crate::alloc::peak().saturating_sub(base);
    if t.fin.starts_with("PANIC") || t.fin == "RUNAWAY" {
        return format!("FAIL {}", t.fin);
    }
    // trace strings are part of the measured heap; bound generously: 96 bytes per input byte + chunk + 8 MiB
    // (the AIGER parsers pre-allocate at most 2^16 entries per section whatever the header declares)
    let bound = 96 * s.data.len() + 4 * s.chunk + (8 << 20);
    if peak > bound {
        return format!("FAIL peak heap {peak} bytes for {} input bytes (bound {bound})", s.data.len());
    }
    if let Some(w) = line_col_ok(&s.data, &t.fin) {
        return format!("FAIL {w} (final {})", t.fin);
    }
    "PASS".into()
}

/// o_exp <expected-trace-hex> + setup: the trace must equal the expectation computed by the generator
/// (C03/C06/C07: value-level expectations; C08: expected error position as "E(line,col1-col2)").
pub fn oracle_expect(toks: &[&str]) -> String {
    let want = String::from_utf8(unhex(toks[0])).unwrap();
    let s = Setup::parse(&toks[1..]);
    let (t, _) = run_setup(&s);
    let got = t.show();
    if let Some(range) = want.strip_prefix("ERRAT ") {
        // "ERRAT line col_lo col_hi": a syntax error on that line within the column range
        let v: Vec<usize> = range.split(' ').map(|x| x.parse().unwrap()).collect();
        let inner = t.fin.strip_prefix("E(").and_then(|x| x.strip_suffix(')'));
        return match inner {
            Some(i) => {
                let lc: Vec<usize> = i.split(',').map(|x| x.parse().unwrap()).collect();
                if lc[0] == v[0] && lc[1] >= v[1] && lc[1] <= v[2] { "PASS".into() }
                else { format!("FAIL syntax error reported at {}:{}, the corrupted token is at line {} columns {}..={}", lc[0], lc[1], v[0], v[1], v[2]) }
            }
            None => format!("FAIL expected a syntax error at line {} columns {}..={}, got {}", v[0], v[1], v[2], t.fin),
        };
    }
    if want == "REJECT" {
        return if t.fin.starts_with("E(") { "PASS".into() } else { format!("FAIL input violating a declared limit was not rejected: {}", got) };
    }
    if got == want { "PASS".into() } else { format!("FAIL got [{got}] expected [{want}]") }
}

/// o_new <setup with ctor n, pre = k>: `Parser::new(LineReader::new(reader))` on a reader from which the caller has already
/// consumed k bytes must behave exactly like a parser started on the remaining input: same items, same final outcome, and
/// error locations counted from the hand-over point.
pub fn oracle_new(toks: &[&str]) -> String {
    let s = Setup::parse(toks);
    let k = s.pre.min(s.data.len());
    let (used, _) = run_setup(&s);
    let fresh = Setup { parser: s.parser.clone(), ty: s.ty.clone(), flags: s.flags.clone(), data: s.data[k..].to_vec(), events: vec![],
                        pre: 0, chunk: 16384, ctor: "r".into() };
    let (want, _) = run_setup(&fresh);
    if used.fin != want.fin {
        return format!("FAIL handed over after {k} consumed bytes the parser ends with {}, started on the remaining input it ends with {}", used.fin, want.fin);
    }
    if used.items != want.items {
        return format!("FAIL handed over after {k} consumed bytes the parser hands out [{}], started on the remaining input [{}]",
                       used.items.join(";"), want.items.join(";"));
    }
    "PASS".into()
}

/// o_skip <setup with flags kN>: AIGER streaming API, at most N entries taken per section (the section-switch methods
/// skip the rest): the entries handed out must be the first N of each section of the exhaustive run, and the final
/// outcome (clean end, the same syntax error, the same I/O error) must be the same: skipped entries are still checked.
pub fn oracle_skip(toks: &[&str]) -> String {
    let s = Setup::parse(toks);
    let lim = skip_limit(&s.flags);
    let mut full_setup = Setup { parser: s.parser.clone(), ty: s.ty.clone(), flags: s.flags.clone(), data: s.data.clone(), events: s.events.clone(),
                                 pre: s.pre, chunk: s.chunk, ctor: s.ctor.clone() };
    full_setup.flags = match s.flags.find('k') { Some(i) => s.flags[..i].to_string() + "-", None => s.flags.clone() };
    let (full, _) = run_setup(&full_setup);
    let (skip, _) = run_setup(&s);
    let mut seen: std::collections::HashMap<String, usize> = Default::default();
    let mut want: Vec<String> = vec![];
    for it in &full.items {
        let sec = it.split(':').next().unwrap_or("").to_string();
        if sec.starts_with('H') || sec == "C" { want.push(it.clone()); continue; }
        let c = seen.entry(sec).or_insert(0);
        if *c < lim { want.push(it.clone()); }
        *c += 1;
    }
    if skip.fin != full.fin {
        return format!("FAIL taking at most {lim} entries per section ends with {}, reading every entry ends with {}", skip.fin, full.fin);
    }
    if skip.items != want {
        return format!("FAIL taking at most {lim} entries per section hands out [{}], expected [{}]", skip.items.join(";"), want.join(";"));
    }
    "PASS".into()
}

/// o_c09 <expected max calls per item, comma separated> + setup (one line per read):
/// item i must be returned after at most that many successful reads.
pub fn oracle_c09(toks: &[&str]) -> String {
    let want: Vec<u64> = if toks[0] == "-" { vec![] } else { toks[0].split(',').map(|x| x.parse().unwrap()).collect() };
    let s = Setup::parse(&toks[1..]);
    let (t, st) = run_setup(&s);
    if t.fin != "ok" {
        return format!("FAIL well-formed document not accepted: {}", t.fin);
    }
    if t.items.len() != want.len() {
        return format!("FAIL {} items returned, {} expected", t.items.len(), want.len());
    }
    for (i, (&c, &w)) in t.calls_at_item.iter().zip(want.iter()).enumerate() {
        if c > w {
            return format!("FAIL item {i} [{}] was handed out only after {c} reads; the line completing it is delivered by read {w}", t.items[i]);
        }
    }
    if st.borrow().calls_after_terminal != 0 {
        return "FAIL the source was read again after it reported its end".into();
    }
    "PASS".into()
}

// ------------------------------------------------------------------ C10: streaming memory
/// A source that generates `total` bytes of well-formed lines on the fly (never materialised).
struct LineGen {
    line: Vec<u8>,
    total: usize,
    produced: usize,
    read_size: usize,
}
impl Read for LineGen {
    fn read(&mut self, buf: &mut [u8]) -> std::io::Result<usize> {
        let n = buf.len().min(self.read_size).min(self.total - self.produced);
        for i in 0..n {
            buf[i] = self.line[(self.produced + i) % self.line.len()];
        }
        self.produced += n;
        Ok(n)
    }
}

/// o_c10 <parser> <lines> <chunk> <read_size> <item_len>: peak live heap while streaming is bounded by
/// the chunk size and the largest item, not by the number of bytes or items processed.
pub fn oracle_c10(toks: &[&str]) -> String {
    let parser = toks[0];
    let lines: usize = toks[1].parse().unwrap();
    let chunk: usize = toks[2].parse().unwrap();
    let read_size: usize = toks[3].parse().unwrap();
    let item_len: usize = toks[4].parse().unwrap();
    let line: Vec<u8> = match parser {
        "cnf" => {
            let mut s = String::new();
            let mut i = 1;
            while s.len() + 4 < item_len { s.push_str(&format!("{} ", if i % 2 == 0 { -(i as i64) } else { i as i64 })); i += 1; }
            s.push_str("0\n");
            s.into_bytes()
        }
        "btor2" => {
            let mut s = String::from("7 and 1 2 3 ;");
            while s.len() + 1 < item_len { s.push('x'); }
            s.push('\n');
            s.into_bytes()
        }
        // a block of BTOR2 lines of every kind that uses one of the parser's scratch buffers (constants, symbols, the
        // justice condition list): what a line put there must not outlive the line
        "btor2m" => {
            let mut s = String::from("1 sort bitvec 8\n2 input 1 name\n3 const 1 01010101\n4 constd 1 -5\n5 consth 1 ff sym\n6 justice 3 2 3 2\n7 bad 2 ;");
            while s.len() + 1 < item_len { s.push('x'); }
            s.push_str("\n8 justice 2 2 3\n");
            s.into_bytes()
        }
        // comment lines only (before any header): the look-ahead must not accumulate over consecutive comments
        "cnfc" => {
            let mut s = String::from("c ");
            while s.len() + 1 < item_len { s.push('x'); }
            s.push('\n');
            s.into_bytes()
        }
        // direct use of the reader: mark set once, then request/advance through the stream
        "rdr" => vec![b'x'; item_len.max(1)],
        // a line whose declared count is far larger than the line: memory must follow the bytes, not the count
        "btor2j" => b"7 justice 16777216 2 3\n".to_vec(),
        other => panic!("o_c10: parser {other}"),
    };
    let total = line.len() * lines;
    let read_size = if read_size == 0 { line.len() } else { read_size };   // 0: exactly one line per read
    let src = LineGen { line: line.clone(), total, produced: 0, read_size };
    crate::alloc::reset_peak();
    let base = crate::alloc::current();
    let mut items = 0usize;
    let res = catch_unwind(AssertUnwindSafe(|| -> Result<(), String> {
        let mut r = DeferredReader::from_read(src);
        r.set_chunk_size(chunk);
        match parser {
            "cnf" => {
                let mut p = flussab_cnf::cnf::Parser::<i64>::new(r.into(), flussab_cnf::cnf::Config::default()).map_err(|e| show_err_cnf(&e))?;
                while let Some(_c) = p.next_clause().map_err(|e| show_err_cnf(&e))? { items += 1; }
            }
            "cnfc" => {
                let mut p = flussab_cnf::cnf::Parser::<i64>::new(r.into(), flussab_cnf::cnf::Config::default()).map_err(|e| show_err_cnf(&e))?;
                while let Some(_c) = p.next_clause().map_err(|e| show_err_cnf(&e))? { items += 1; }
                items = lines;   // no items are expected; the comment lines are the "lines"
            }
            "rdr" => {
                r.set_mark();
                loop {
                    let n = r.request(line.len()).len();
                    if n == 0 { break; }
                    r.advance(n.min(line.len()));
                    items += 1;
                }
                items = lines;
            }
            "btor2j" => {
                let mut p = flussab_btor2::Parser::new(r.into(), flussab_btor2::Config::default()).map_err(|e| show_err_btor2(&e))?;
                // the line is ill-formed (fewer ids than declared): an error is the expected outcome
                loop { match p.next_line() { Ok(Some(_)) => {}, Ok(None) => break, Err(_) => break } }
                items = lines;
            }
            _ => {
                let mut p = flussab_btor2::Parser::new(r.into(), flussab_btor2::Config::default()).map_err(|e| show_err_btor2(&e))?;
                while let Some(_l) = p.next_line().map_err(|e| show_err_btor2(&e))? { items += 1; }
            }
        }
        Ok(())
    }));
    let peak = crate::alloc::peak().saturating_sub(base);
    match res {
        Err(p) => return format!("FAIL panic {}", panic_kind(&*p)),
        Ok(Err(e)) => return format!("FAIL generated input rejected: {e}"),
        Ok(Ok(())) => {}
    }
    let lines = if parser == "btor2m" { lines * 8 } else { lines };
    if items != lines {
        return format!("FAIL {items} items for {lines} lines");
    }
    let bound = 8 * chunk + 16 * line.len() + (64 << 10);
    if peak > bound {
        return format!("FAIL peak live heap {peak} bytes while streaming {total} bytes (chunk {chunk}, item {} bytes, bound {bound})", line.len());
    }
    "PASS".into()
}

// ------------------------------------------------------------------ C03: write . parse round trips
fn write_to_vec(f: impl FnOnce(&mut flussab::DeferredWriter)) -> Vec<u8> {
    let out = Rc::new(RefCell::new(Vec::<u8>::new()));
    struct Sink(Rc<RefCell<Vec<u8>>>);
    impl std::io::Write for Sink {
        fn write(&mut self, b: &[u8]) -> std::io::Result<usize> { self.0.borrow_mut().extend_from_slice(b); Ok(b.len()) }
        fn flush(&mut self) -> std::io::Result<()> { Ok(()) }
    }
    {
        let mut w = flussab::DeferredWriter::from_write(Sink(out.clone()));
        f(&mut w);
        use std::io::Write;
        w.flush().unwrap();
    }
    let v = out.borrow().clone();
    v
}

fn rt_dimacs<L: flussab_cnf::Dimacs + std::fmt::Debug>(kind: &str, data: &[u8], ignore_header: bool) -> Result<Option<(String, Vec<u8>)>, String> {
    use flussab_cnf::{cnf, gcnf, wcnf};
    // returns Ok(None) if the text is not accepted, else (canonical value, written bytes)
    let mut items: Vec<String> = vec![];
    let mut out: Vec<u8> = vec![];
    match kind {
        "cnf" => {
            let mut p = match cnf::Parser::<L>::from_read(data, cnf::Config::default().ignore_header(ignore_header)) { Ok(p) => p, Err(_) => return Ok(None) };
            let h = p.header();
            let mut clauses: Vec<Vec<L>> = vec![];
            loop { match p.next_clause() { Ok(Some(c)) => clauses.push(c.to_vec()), Ok(None) => break, Err(_) => return Ok(None) } }
            items.push(format!("{:?}", h.map(|h| (h.var_count, h.clause_count))));
            for c in &clauses { items.push(lits(&c.iter().map(|l| l.dimacs()).collect::<Vec<_>>())); }
            out = write_to_vec(|w| { if let Some(h) = h { cnf::write_header(w, h); } for c in &clauses { cnf::write_clause(w, c); } });
        }
        "wcnf" => {
            let mut p = match wcnf::Parser::<L>::from_read(data, wcnf::Config::default().ignore_header(ignore_header)) { Ok(p) => p, Err(_) => return Ok(None) };
            let h = p.header();
            let mut clauses: Vec<(u64, Vec<L>)> = vec![];
            loop { match p.next_clause() { Ok(Some((w, c))) => clauses.push((w, c.to_vec())), Ok(None) => break, Err(_) => return Ok(None) } }
            items.push(format!("{:?}", h.map(|h| (h.var_count, h.clause_count, h.top_weight))));
            for (w, c) in &clauses { items.push(format!("{}:{}", w, lits(&c.iter().map(|l| l.dimacs()).collect::<Vec<_>>()))); }
            out = write_to_vec(|w| { if let Some(h) = h { wcnf::write_header(w, h); } for (wt, c) in &clauses { wcnf::write_clause(w, *wt, c); } });
        }
        "gcnf" => {
            let mut p = match gcnf::Parser::<L>::from_read(data, gcnf::Config::default().ignore_header(ignore_header)) { Ok(p) => p, Err(_) => return Ok(None) };
            let h = p.header();
            let mut clauses: Vec<(usize, Vec<L>)> = vec![];
            loop { match p.next_clause() { Ok(Some((g, c))) => clauses.push((g, c.to_vec())), Ok(None) => break, Err(_) => return Ok(None) } }
            items.push(format!("{:?}", h.map(|h| (h.var_count, h.clause_count, h.group_count))));
            for (g, c) in &clauses { items.push(format!("{{{}}}{}", g, lits(&c.iter().map(|l| l.dimacs()).collect::<Vec<_>>()))); }
            out = write_to_vec(|w| { if let Some(h) = h { gcnf::write_header(w, h); } for (g, c) in &clauses { gcnf::write_clause(w, *g, c); } });
        }
        _ => return Err("bad kind".into()),
    }
    Ok(Some((items.join(";"), out)))
}

/// the bytes binary::Writer::write_ordered_aig writes (its constructor takes the DeferredWriter by value)
fn write_binary_aig_to_vec<L: flussab_aiger::Lit>(a: &flussab_aiger::aig::OrderedAig<L>) -> Vec<u8> {
    let out = Rc::new(RefCell::new(Vec::<u8>::new()));
    struct Sink(Rc<RefCell<Vec<u8>>>);
    impl std::io::Write for Sink {
        fn write(&mut self, b: &[u8]) -> std::io::Result<usize> { self.0.borrow_mut().extend_from_slice(b); Ok(b.len()) }
        fn flush(&mut self) -> std::io::Result<()> { Ok(()) }
    }
    {
        let w = flussab::DeferredWriter::from_write(Sink(out.clone()));
        let mut bw = flussab_aiger::binary::Writer::<L>::new(w);
        bw.write_ordered_aig(a);
        use std::io::Write;
        bw.writer.flush().unwrap();
    }
    let v = out.borrow().clone();
    v
}

fn rt_aag<L: flussab_aiger::Lit>(data: &[u8]) -> Result<Option<(String, Vec<u8>)>, String> {
    use flussab_aiger::ascii;
    let p = match ascii::Parser::<L>::from_read(data, ascii::Config::default()) { Ok(p) => p, Err(_) => return Ok(None) };
    let a = match p.parse() { Ok(a) => a, Err(_) => return Ok(None) };
    let out = write_to_vec(|w| { ascii::Writer::<L>::new(w).write_aig(&a); });
    Ok(Some((show_aig(&a), out)))
}
fn rt_aig<L: flussab_aiger::Lit>(data: &[u8]) -> Result<Option<(String, Vec<u8>)>, String> {
    use flussab_aiger::binary;
    let p = match binary::Parser::<L>::from_read(data, binary::Config::default()) { Ok(p) => p, Err(_) => return Ok(None) };
    let a = match p.parse() { Ok(a) => a, Err(_) => return Ok(None) };
    let out = Rc::new(RefCell::new(Vec::<u8>::new()));
    struct Sink(Rc<RefCell<Vec<u8>>>);
    impl std::io::Write for Sink {
        fn write(&mut self, b: &[u8]) -> std::io::Result<usize> { self.0.borrow_mut().extend_from_slice(b); Ok(b.len()) }
        fn flush(&mut self) -> std::io::Result<()> { Ok(()) }
    }
    {
        let w = flussab::DeferredWriter::from_write(Sink(out.clone()));
        let mut bw = binary::Writer::<L>::new(w);
        bw.write_ordered_aig(&a);
        use std::io::Write;
        bw.writer.flush().unwrap();
    }
    let v = out.borrow().clone();
    Ok(Some((show_ordered_aig(&a), v)))
}
fn rt_btor2(data: &[u8]) -> Result<Option<(String, Vec<u8>)>, String> {
    let mut p = match flussab_btor2::Parser::from_read(data, flussab_btor2::Config::default()) { Ok(p) => p, Err(_) => return Ok(None) };
    let mut items = vec![];
    let out = Rc::new(RefCell::new(Vec::<u8>::new()));
    struct Sink(Rc<RefCell<Vec<u8>>>);
    impl std::io::Write for Sink {
        fn write(&mut self, b: &[u8]) -> std::io::Result<usize> { self.0.borrow_mut().extend_from_slice(b); Ok(b.len()) }
        fn flush(&mut self) -> std::io::Result<()> { Ok(()) }
    }
    {
        let mut w = flussab::DeferredWriter::from_write(Sink(out.clone()));
        loop {
            match p.next_line() {
                Ok(Some(l)) => { items.push(format!("{:?}", l)); l.write_into(&mut w); }
                Ok(None) => break,
                Err(_) => return Ok(None),
            }
        }
        use std::io::Write;
        w.flush().unwrap();
    }
    let v = out.borrow().clone();
    Ok(Some((items.join(";"), v)))
}

fn rt_once(parser: &str, ty: &str, flags: &str, data: &[u8]) -> Result<Option<(String, Vec<u8>)>, String> {
    match parser {
        "cnf" | "wcnf" | "gcnf" => with_dimacs_type!(ty, rt_dimacs, parser, data, flags.contains('h')),
        "aag" => with_aiger_type!(ty, rt_aag, data),
        "aig" => with_aiger_type!(ty, rt_aig, data),
        "btor2" => rt_btor2(data),
        _ => Ok(None),
    }
}

/// o_rt + setup: if the text is accepted: write the parsed value, parse that again: the value must be equal
/// (and the written text must be accepted with a clean end); writing once more must give the same bytes.
pub fn oracle_rt(toks: &[&str]) -> String {
    let s = Setup::parse(toks);
    let r = catch_unwind(AssertUnwindSafe(|| -> String {
        let first = match rt_once(&s.parser, &s.ty, &s.flags, &s.data) { Ok(Some(x)) => x, Ok(None) => return "PASS".into(), Err(e) => return format!("FAIL {e}") };
        let second = match rt_once(&s.parser, &s.ty, &s.flags, &first.1) {
            Ok(Some(x)) => x,
            Ok(None) => return format!("FAIL the writer's output for an accepted text is rejected by the parser: {:?}", String::from_utf8_lossy(&first.1)),
            Err(e) => return format!("FAIL {e}"),
        };
        if first.0 != second.0 {
            return format!("FAIL parse(write(v)) differs from v: [{}] vs [{}]", first.0, second.0);
        }
        if first.1 != second.1 {
            return "FAIL writing the re-parsed value gives different bytes".into();
        }
        "PASS".into()
    }));
    r.unwrap_or_else(|p| format!("FAIL panic {}", panic_kind(&*p)))
}

/// o_b2c <kind b|d|h> <hex of string>: a BTOR2 constant built by the validating constructor is written and parsed back.
pub fn oracle_btor2_const(toks: &[&str]) -> String {
    use flussab_btor2::btor2::*;
    let txt = String::from_utf8(unhex(toks[1])).unwrap();
    let c: Option<Const> = match toks[0] {
        "b" => BinaryConst::try_from(txt.as_str()).ok().map(Const::Binary),
        "d" => DecimalConst::try_from(txt.as_str()).ok().map(Const::Decimal),
        "h" => HexConst::try_from(txt.as_str()).ok().map(Const::Hex),
        _ => panic!("bad const kind"),
    };
    let Some(c) = c else { return "PASS".into() };   // not in the constructor's domain
    let line = Line::Node(Node { id: NodeId::new(2), variant: NodeVariant::Value(Value { sort: NodeId::new(1), variant: ValueVariant::Const(c) }), symbol: None, comment: None });
    let want = format!("{:?}", line);
    let bytes = write_to_vec(|w| line.write_into(w));
    let mut p = flussab_btor2::Parser::from_read(&bytes[..], flussab_btor2::Config::default()).unwrap();
    match p.next_line() {
        Ok(Some(l)) => {
            let got = format!("{:?}", l);
            if got != want { return format!("FAIL constructed {want}, written {:?}, parsed back {got}", String::from_utf8_lossy(&bytes)); }
        }
        Ok(None) => return "FAIL written line parsed as end of input".into(),
        Err(e) => return format!("FAIL a constant accepted by the constructor is written as {:?}, which the parser rejects: {}", String::from_utf8_lossy(&bytes), show_err_btor2(&e)),
    }
    match p.next_line() { Ok(None) => "PASS".into(), other => format!("FAIL trailing content after the written line: {:?}", other.map(|o| o.map(|l| format!("{:?}", l))).map_err(|e| show_err_btor2(&e))) }
}
