(* s_pa.ml — stream "pa": a whole parse on the DeferredReader model (DIMACS family, solver log, AIGER).
   case:  pa <parser> <ty> <flags> <datahex> <events> <pre> <chunk> <ctor>      (AIGER flags kN: AigerStream.parse_*_take)
   trace: <items ';'-separated> => <final> | calls=<n>                                            *)
open Model
open Util

let max_dimacs (ty : string) : z =
  match ty with
  | "i8" -> max_dimacs_i8 | "i16" -> max_dimacs_i16 | "i32" -> max_dimacs_i32
  | "i64" -> max_dimacs_i64 | "isize" -> max_dimacs_isize
  | _ -> failwith ("bad DIMACS type " ^ ty)

let lits (l : z list) : string = "[" ^ String.concat "," (List.map str_of_zz l) ^ "]"

let show_perr (e : perr) : string =
  match e with
  | ESyntax (l, c) -> Printf.sprintf "E(%s,%s)" (str_of_n l) (str_of_n c)
  | EIo e -> "IO(e" ^ str_of_n e ^ ")"

let max_code (ty : string) : n =
  match ty with
  | "u8" -> max_code_u8 | "u16" -> max_code_u16 | "u32" -> max_code_u32
  | "u64" -> max_code_u64 | "usize" -> max_code_usize
  | _ -> failwith ("bad AIGER type " ^ ty)

(* AIGER items, same format as run_aag / run_aig / show_aig / show_ordered_aig in harness/src/s_pa.rs *)
let show_init (i : bool option) : string = match i with Some false -> "0" | Some true -> "1" | None -> "x"
let sym_prefix (k : symkind) : string =
  match k with SInput -> "i" | SOutput -> "o" | SLatch -> "l" | SBad -> "b" | SConstraint -> "c"
             | SJustice -> "j" | SFairness -> "f"
let show_symbol ((k, i), name) : string = Printf.sprintf "s:%s%s:%s" (sym_prefix k) (str_of_n i) (hex_of_bytes name)
let show_aheader (h : aheader) : string =
  Printf.sprintf "H(%s)" (String.concat "," (List.map str_of_n
    [h.a_max_var; h.a_inputs; h.a_latches; h.a_outputs; h.a_ands; h.a_bad; h.a_constraints; h.a_justice; h.a_fairness]))
let show_item (it : item) : string =
  match it with
  | IInput l -> "i:" ^ str_of_n l
  | ILatch (s, nx, i) -> Printf.sprintf "l:%s,%s,%s" (str_of_n s) (str_of_n nx) (show_init i)
  | IOLatch (nx, i) -> Printf.sprintf "l:%s,%s" (str_of_n nx) (show_init i)
  | IOutput l -> "o:" ^ str_of_n l
  | IBad l -> "b:" ^ str_of_n l
  | IConstraint l -> "c:" ^ str_of_n l
  | IJusticeSize k -> "jn:" ^ str_of_n k
  | IJustice l -> "j:" ^ str_of_n l
  | IFairness l -> "f:" ^ str_of_n l
  | IAnd (o, a, b) -> Printf.sprintf "a:%s,%s,%s" (str_of_n o) (str_of_n a) (str_of_n b)
  | IOAnd (a, b) -> Printf.sprintf "a:%s,%s" (str_of_n a) (str_of_n b)
  | ISymbol (k, i, name) -> show_symbol ((k, i), name)
  | IComment c -> "C:" ^ hex_of_bytes c
let show_aig (binary : bool) (a : aig) : string =
  let c l = String.concat "," (List.map str_of_n l) in
  let opt o = match o with Some x -> str_of_n x | None -> "?" in
  Printf.sprintf "%s(M=%s I=%s L=[%s] O=[%s] B=[%s] C=[%s] J=[%s] F=[%s] A=[%s] S=[%s] c=%s)"
    (if binary then "OAIG" else "AIG") (str_of_n a.g_header.a_max_var)
    (if binary then str_of_n a.g_header.a_inputs else "[" ^ c a.g_inputs ^ "]")
    (String.concat "," (List.map (fun ((s, nx), i) ->
       if binary then str_of_n nx ^ "/" ^ show_init i else opt s ^ "/" ^ str_of_n nx ^ "/" ^ show_init i) a.g_latches))
    (c a.g_outputs) (c a.g_bad) (c a.g_constraints)
    (String.concat "," (List.map (fun j -> "(" ^ c j ^ ")") a.g_justice))
    (c a.g_fairness)
    (String.concat "," (List.map (fun ((o, x), y) ->
       if binary then str_of_n x ^ "&" ^ str_of_n y else opt o ^ "=" ^ str_of_n x ^ "&" ^ str_of_n y) a.g_ands))
    (String.concat "," (List.map show_symbol a.g_symbols))
    (match a.g_comment with Some s -> hex_of_bytes s | None -> "none")

let show_final (f : final) : string = match f with FOk -> "ok" | FErr e -> show_perr e

let finish (items : string list) (fin : string) (s : rstate) : string =
  Printf.sprintf "%s => %s | calls=%s" (String.concat ";" items) fin (str_of_n s.g_calls)

let of_cres (r : 'a cres) (k : 'a -> rstate -> string) : string =
  match r with
  | CDone (a, s) -> k a s
  | CPanic (p, s) -> finish [] ("PANIC(" ^ S_rd.show_panic p ^ ")") s
  | CUB -> "UB"
  | CFuel -> "FUEL"

(* ---------- BTOR2: canonical rendering of a line (same as show_btor2_line in harness/src/s_pa.rs) ---------- *)
let str_of_bytes (l : n list) : string = String.concat "" (List.map (fun b -> String.make 1 (Char.chr (int_of_n b))) l)

let show_btor2_line (l : line) : string =
  let opt o = match o with None -> "~" | Some b -> "=" ^ hex_of_bytes b in
  let id = str_of_n in
  match l with
  | LComment c -> "c:" ^ hex_of_bytes c
  | LNode nd ->
      let v = (match nd.n_variant with
        | NSort (SBitVec w) -> "sort.bitvec." ^ id w
        | NSort (SArray (d, c)) -> Printf.sprintf "sort.array.%s.%s" (id d) (id c)
        | NValue (sort, variant) ->
            let vv = (match variant with
              | VConst (CBinary c) -> "const.b." ^ hex_of_bytes c
              | VConst (CDecimal c) -> "const.d." ^ hex_of_bytes c
              | VConst (CHex c) -> "const.h." ^ hex_of_bytes c
              | VConst COne -> "one" | VConst COnes -> "ones" | VConst CZero -> "zero"
              | VInput -> "input" | VState -> "state"
              | VOp (OUnary (o, a0)) ->
                  let name = str_of_bytes (unop_variant o) in
                  let args = (match o with
                    | UoUext w | UoSext w -> "(" ^ id w ^ ")"
                    | UoSlice (u, lo) -> "(" ^ id u ^ "," ^ id lo ^ ")"
                    | _ -> "") in
                  Printf.sprintf "op.%s%s.%s" name args (id a0)
              | VOp (OBinary (o, a0, a1)) -> Printf.sprintf "op.%s.%s.%s" (str_of_bytes (binop_variant o)) (id a0) (id a1)
              | VOp (OTernary (o, a0, a1, a2)) ->
                  Printf.sprintf "op.%s.%s.%s.%s" (str_of_bytes (ternop_variant o)) (id a0) (id a1) (id a2)) in
            Printf.sprintf "value.%s.%s" (id sort) vv
        | NAssign (state, asort, k, value) ->
            Printf.sprintf "assign.%s.%s.%s.%s" (match k with AkInit -> "Init" | AkNext -> "Next") (id asort) (id state) (id value)
        | NOutput (k, value) ->
            Printf.sprintf "output.%s.%s"
              (match k with OvOutput -> "Output" | OvBad -> "Bad" | OvConstraint -> "Constraint" | OvFair -> "Fair") (id value)
        | NJustice nodes -> "justice.[" ^ String.concat "," (List.map id nodes) ^ "]") in
      Printf.sprintf "n:%s:%s:%s:%s" (id nd.n_id) v (opt nd.n_symbol) (opt nd.n_comment)

(* UTF-8 decoding of a (valid) string into its chars *)
let chars_of_utf8 (b : int list) : int list =
  let rec go l acc =
    match l with
    | [] -> List.rev acc
    | c :: r when c < 0x80 -> go r (c :: acc)
    | c :: c1 :: r when c < 0xe0 -> go r ((((c land 0x1f) lsl 6) lor (c1 land 0x3f)) :: acc)
    | c :: c1 :: c2 :: r when c < 0xf0 -> go r ((((c land 0x0f) lsl 12) lor ((c1 land 0x3f) lsl 6) lor (c2 land 0x3f)) :: acc)
    | c :: c1 :: c2 :: c3 :: r ->
        go r ((((c land 0x07) lsl 18) lor ((c1 land 0x3f) lsl 12) lor ((c2 land 0x3f) lsl 6) lor (c3 land 0x3f)) :: acc)
    | _ -> failwith "bad utf-8"
  in go b []

(* pa b2c <b|d|h> <hex of a UTF-8 string> *)
let run_btor2_const (kind : string) (hex : string) : string =
  let cs = List.map n_of_int (chars_of_utf8 (List.map int_of_n (bytes_of_hex hex))) in
  let r = (match kind with
    | "b" -> binary_const_try_from cs
    | "d" -> decimal_const_try_from cs
    | "h" -> hex_const_try_from cs
    | _ -> failwith "bad const kind") in
  match r with
  | Err EmptyConst -> "empty"
  | Err (InvalidDigit c) -> "invalid(" ^ str_of_n c ^ ")"
  | Ok c ->
      let l = LNode { n_id = n_of_int 2; n_variant = NValue (n_of_int 1, VConst c); n_symbol = None; n_comment = None } in
      "ok " ^ hex_of_bytes (write_line l)

let run (toks : string list) : string =
  match toks with
  | ["b2c"; kind; hex] -> run_btor2_const kind hex
  | ["btor2"; _; flags; datahex; evs; pre; chunk; ctor] ->
      let pre = if ctor = "f" then pre else "0" in
      let s0 = reader_init (S_rd.mk_source datahex evs pre) in
      let (s1, _) = step s0 (OSetChunk (n_of_str chunk)) in
      let fuel = nat_of_int (String.length datahex / 2 + 10) in
      let written = String.contains flags 'w' in
      let r = crun (parse_btor2 fuel lrs_init) s1 in
      of_cres r (fun ((lines, fin), _) s ->
        finish (List.map (fun l -> if written then hex_of_bytes (write_line l) else show_btor2_line l) lines) (show_final fin) s)
  | [parser; ty; flags; datahex; evs; pre; chunk; ctor] ->
      let pre = if ctor = "f" then pre else "0" in
      let s0 = reader_init (S_rd.mk_source datahex evs pre) in
      let (s1, _) = step s0 (OSetChunk (n_of_str chunk)) in
      let fuel = nat_of_int (String.length datahex / 2 + 10) in
      let has c = String.contains flags c in
      (match parser with
       | "cnf" | "wcnf" | "gcnf" ->
           let k = (match parser with "cnf" -> KCnf | "wcnf" -> KWcnf | _ -> KGcnf) in
           let maxd = max_dimacs ty in
           let r = crun (parse_dimacs fuel k maxd (has 'h') lrs_init) s1 in
           of_cres r (fun (((hdr, items), fin), _) s ->
             let hitem = (match hdr with
               | None -> []
               | Some None -> ["H-"]
               | Some (Some h) ->
                   (match k with
                    | KCnf -> [Printf.sprintf "H(%s,%s)" (str_of_zz h.h_vars) (str_of_zz h.h_clauses)]
                    | _ -> [Printf.sprintf "H(%s,%s,%s)" (str_of_zz h.h_vars) (str_of_zz h.h_clauses) (str_of_zz h.h_extra)])) in
             let citems = List.map (fun (p, ls) ->
               match k with
               | KCnf -> lits ls
               | KWcnf -> str_of_zz p ^ ":" ^ lits ls
               | KGcnf -> "{" ^ str_of_zz p ^ "}" ^ lits ls) items in
             (* flag 'x': after a clean end, Layout.write_doc of the parsed document *)
             let witem = (match hdr, fin with
               | Some oh, FOk when has 'x' -> ["W:" ^ hex_of_bytes (write_doc k { d_hdr = oh; d_items = items })]
               | _ -> []) in
             finish (hitem @ citems @ witem) (show_final fin) s)
       | "log" ->
           let maxd = max_dimacs ty in
           let r = crun (parse_log fuel maxd (has 'u') lrs_init) s1 in
           of_cres r (fun (res, _) s ->
             match res with
             | Ok (sat, a) ->
                 finish [Printf.sprintf "sat=%s a=%s" (match sat with Some true -> "T" | Some false -> "F" | None -> "N") (lits a)] "ok" s
             | Err e -> finish [] (show_perr e) s)
       | "aag" | "aig" ->
           let binary = (parser = "aig") in
           let maxc = max_code ty in
           (* flag kN (streaming API only): at most N entries taken per section, the section switches skip the rest *)
           let take = (match String.index_opt flags 'k' with
             | Some i when not (has 'w' || has 'x') ->
                 let j = ref (i + 1) in
                 while !j < String.length flags && flags.[!j] >= '0' && flags.[!j] <= '9' do incr j done;
                 Some (if !j = i + 1 then 0 else int_of_string (String.sub flags (i + 1) (!j - i - 1)))
             | _ -> None) in
           let r = (match take with
             | Some k -> crun ((if binary then parse_aig_take else parse_aag_take) fuel maxc (nat_of_int k) lrs_init) s1
             | None -> crun ((if binary then parse_aig else parse_aag) fuel maxc lrs_init) s1) in
           of_cres r (fun (res, _) s ->
             let ((hdr, items), fin) = res in
             let hitem = (match hdr with Some h -> [show_aheader h] | None -> []) in
             if has 'w' then
               (* Parser::parse: the whole value or the error *)
               (match whole_file res with
                | Ok a -> finish (hitem @ [show_aig binary a]) "ok" s
                | Err e -> finish hitem (show_perr e) s)
             else if has 'x' then
               (* Parser::parse, then the writer(s) on the value *)
               (match whole_file res with
                | Ok a ->
                    let w = (if binary then
                      (let show r = (match r with
                        | WrOk b -> hex_of_bytes b
                        | WrAssert -> "PANIC(!assert)") in
                       let swapped = { a with g_ands = List.map (fun ((o, x), y) -> ((o, y), x)) a.g_ands } in
                       ["W:" ^ show (write_aig_checked a); "WS:" ^ show (write_aig_checked swapped)]) @
                      [
                       (if (let d = str_of_n a.g_header.a_inputs in String.length d <= 4 && int_of_string d <= 4096) then "WA:" ^ hex_of_bytes (write_aag_ordered a) else "WA:-")]
                    else ["W:" ^ hex_of_bytes (write_aag a)]) in
                    finish (hitem @ [show_aig binary a] @ w) "ok" s
                | Err e -> finish hitem (show_perr e) s)
             else finish (hitem @ List.map show_item items) (show_final fin) s)
       | _ -> failwith ("parser not modelled: " ^ parser))
  | _ -> failwith "pa: expected 8 fields"
