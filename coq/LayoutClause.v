(* LayoutClause.v — clause level of the layout independence proof (C07 / C03): filler lines, a clause spread over
   several lines, the clause token of each format, Parser::next_clause and the driving loop, each with a
   functional postcondition (the value returned, the text left unread) for every admissible run. *)
From Flussab Require Import Base Reader ListN Writer Parsed Prog Text TextSpec ProgProofs ScanProofs DecimalProofs DigitsProofs RoundTrip.
From Flussab Require Import ReaderProofs Simulation Consts Cnf CnfProofs ErrProofs Hoare CnfSafe Layout LayoutTok.
Ltac Zify.zify_post_hook ::= Z.to_euclidean_division_equations.

(* ================================================================== *)
(* 1. facts about rendered text                                         *)

Lemma eol_hd crlf (r : bytes) : brk (eol_bytes crlf ++ r) /\ nbl (eol_bytes crlf ++ r) /\ nohd 99 (eol_bytes crlf ++ r) /\
  nonnum true (eol_bytes crlf ++ r) /\ nohd 123 (eol_bytes crlf ++ r).
Proof. destruct crlf; cbn; repeat split; auto; lia. Qed.

Lemma fline_hd l (r : bytes) : nbl (fline_bytes l ++ r) /\ nonnum true (fline_bytes l ++ r) /\ nohd 123 (fline_bytes l ++ r).
Proof.
  destruct l as [body|crlf].
  - cbn. repeat split; auto; lia.
  - destruct (eol_hd crlf r) as (_ & h2 & _ & h4 & h5). cbn [fline_bytes]. auto.
Qed.

Lemma filler_nbl f (r : bytes) : nbl r -> nbl (filler_bytes f ++ r).
Proof.
  intros Hr. destruct f as [|[l b] f]; [exact Hr|]. cbn [filler_bytes]. rewrite <- app_assoc.
  apply (fline_hd l).
Qed.

Lemma filler_len f : (length f <= length (filler_bytes f))%nat.
Proof.
  induction f as [|[l b] f IH]; [cbn; lia|]. cbn [filler_bytes length]. rewrite !app_length.
  assert (1 <= length (fline_bytes l))%nat; [|lia].
  destruct l as [body|[|]]; cbn [fline_bytes eol_bytes length]; rewrite ?app_length; cbn [length]; lia.
Qed.

Lemma lbreak_then_app lb (x y : bytes) : lbreak_then lb x ++ y = lbreak_then lb (x ++ y).
Proof. unfold lbreak_then, after_break. rewrite <- !app_assoc. reflexivity. Qed.

(* a gap: the blanks the token before it swallows, and what is left for the line-break code *)
Definition gap_blank (g : gap) : bytes := match g with GSep b => b | GBreak lb => lb_trail lb end.
Definition gap_rest (g : gap) (x : bytes) : bytes :=
  match g with GSep _ => x | GBreak lb => eol_bytes (lb_crlf lb) ++ after_break lb x end.

Lemma gap_split g (x : bytes) : gap_bytes g ++ x = gap_blank g ++ gap_rest g x.
Proof.
  destruct g as [b|lb]; [reflexivity|]. cbn [gap_bytes gap_blank gap_rest]. rewrite lbreak_then_app. reflexivity.
Qed.

Lemma sep_ok_inv (b : bytes) : sep_ok b = true -> b <> [] /\ blank_ok b = true.
Proof. destruct b; cbn [sep_ok]; [discriminate|]. intros H. split; [discriminate|exact H]. Qed.

Lemma lbreak_ok_inv lb : lbreak_ok lb = true ->
  blank_ok (lb_trail lb) = true /\ blank_ok (lb_lead lb) = true /\ filler_ok (lb_fill lb) = true.
Proof. unfold lbreak_ok. intros H. apply andb_prop in H. destruct H as [H H3]. apply andb_prop in H. destruct H. auto. Qed.

(* a token followed by a strict gap and then something that is not a blank ends at the gap *)
Lemma gap_tokend g (x : bytes) : gap_ok true g = true -> nbl x -> tokend (gap_blank g) (gap_rest g x).
Proof.
  intros Hg Hx. destruct g as [b|lb]; cbn [gap_ok gap_blank gap_rest] in *.
  - apply sep_ok_inv in Hg. destruct Hg as [Hne Hb]. split; [exact Hb|]. split; [exact Hx|left; exact Hne].
  - apply lbreak_ok_inv in Hg. destruct Hg as (Ht & _). destruct (eol_hd (lb_crlf lb) (after_break lb x)) as (h1 & h2 & _).
    split; [exact Ht|]. split; [exact h2|right; exact h1].
Qed.

Lemma gap_weak g (x : bytes) : gap_ok false g = true -> nbl x -> blank_ok (gap_blank g) = true /\ nbl (gap_rest g x).
Proof.
  intros Hg Hx. destruct g as [b|lb]; cbn [gap_ok gap_blank gap_rest] in *.
  - split; assumption.
  - apply lbreak_ok_inv in Hg. destruct Hg as (Ht & _). destruct (eol_hd (lb_crlf lb) (after_break lb x)) as (h1 & h2 & _).
    split; assumption.
Qed.

(* the start of a clause *)
Definition clausehd (r : bytes) : Prop :=
  match r with [] => False | x :: _ => is_dig x = true \/ x = 45 \/ x = 123 end.

Lemma numhd_clausehd r : numhd r -> clausehd r.
Proof. destruct r as [|x r]; [intros []|]. cbn. tauto. Qed.

Lemma clausehd_stop r : clausehd r -> stop r /\ nohd 112 r.
Proof.
  destruct r as [|x r]; [intros []|]. cbn [clausehd stop nohd]. unfold is_dig, is_blank.
  intros [H|[->| ->]].
  - apply andb_prop in H. destruct H as [H1 H2]. apply N.leb_le in H1, H2.
    split; [|lia]. split; [|lia]. apply orb_false_intro; apply N.eqb_neq; lia.
  - split; [|lia]. split; [reflexivity|lia].
  - split; [|lia]. split; [reflexivity|lia].
Qed.

Lemma stop_nonl r : stop r -> nonl r /\ nohd 99 r.
Proof. destruct r as [|x r]; [intros _; split; exact I|]. cbn. tauto. Qed.

(* ================================================================== *)
Section Clause.
Variable fuel : nat.
Local Notation At := (At fuel).
Local Notation Yields := (Yields fuel).

(* ================================================================== *)
(* 2. filler lines inside a clause: token::non_terminating_linebreaks   *)

Lemma skip_cn_At f : forall n (r : bytes) lr v,
  filler_ok f = true -> stop r -> At v (filler_bytes f ++ r) -> (length f < n)%nat ->
  prt (skip_comments_and_newlines fuel n) lr v (Yields (Ok tt) r).
Proof.
  induction f as [|[l b] f IH]; intros n r lr v Hf Hr HA Hn; (destruct n as [|n]; [lia|]); cbn [skip_comments_and_newlines].
  - cbn [filler_bytes app] in HA. destruct (stop_nonl r Hr) as [Hnl Hnc].
    eapply prt_bind_Y; [apply comment_ft_At; [exact HA|exact Hnc]|]. intros lr1 v1 HA1. cbv beta iota.
    eapply prt_bind_Y; [apply tnewline_ft_At; [exact HA1|exact Hnl]|]. intros lr2 v2 HA2. cbv beta iota.
    apply prt_ret_Y. exact HA2.
  - cbn [filler_ok forallb fst snd] in Hf. apply andb_prop in Hf. destruct Hf as [Hlb Hf].
    apply andb_prop in Hlb. destruct Hlb as [Hl Hb].
    cbn [filler_bytes] in HA. rewrite <- !app_assoc in HA.
    pose proof (filler_nbl f r (stop_nbl r Hr)) as Hnb.
    cbn [length] in Hn.
    destruct l as [body|crlf]; cbn [fline_bytes fline_ok] in *.
    + cbn [app] in HA. rewrite <- app_assoc in HA. cbn [app] in HA.
      eapply prt_bind_Y; [apply (comment_At fuel body b (filler_bytes f ++ r)); [exact Hl|exact Hb|exact Hnb|exact HA]|].
      intros lr1 v1 HA1. cbv beta iota.
      eapply prt_bind_Y; [apply prt_ret_Y; exact HA1|]. intros lr2 v2 HA2. cbv beta iota.
      apply IH; [exact Hf|exact Hr|exact HA2|lia].
    + destruct (eol_hd crlf (b ++ filler_bytes f ++ r)) as (_ & _ & h3 & _).
      eapply prt_bind_Y; [apply comment_ft_At; [exact HA|exact h3]|]. intros lr1 v1 HA1. cbv beta iota.
      eapply prt_bind_Y; [apply (tnewline_At fuel crlf b (filler_bytes f ++ r)); [exact Hb|exact Hnb|exact HA1]|].
      intros lr2 v2 HA2. cbv beta iota.
      apply IH; [exact Hf|exact Hr|exact HA2|lia].
Qed.

Lemma ntl_At lb (x : bytes) lr v :
  lbreak_ok lb = true -> stop x -> At v (eol_bytes (lb_crlf lb) ++ after_break lb x) ->
  prt (non_terminating_linebreaks fuel) lr v (Yields (Ok true) x).
Proof.
  intros Hlb Hx HA. apply lbreak_ok_inv in Hlb. destruct Hlb as (_ & Hlead & Hfill).
  unfold non_terminating_linebreaks, after_break in *.
  eapply prt_bind_Y.
  { eapply matches_At. apply (tnewline_At fuel (lb_crlf lb) (lb_lead lb) (filler_bytes (lb_fill lb) ++ x));
      [exact Hlead|apply filler_nbl, stop_nbl, Hx|exact HA]. }
  intros lr1 v1 HA1. cbv beta iota.
  eapply prt_bind_Y.
  { apply (skip_cn_At (lb_fill lb) fuel x); [exact Hfill|exact Hx|exact HA1|].
    pose proof (At_fuel _ _ _ HA1) as H. rewrite app_length in H. pose proof (filler_len (lb_fill lb)). lia. }
  intros lr2 v2 HA2. cbv beta iota. apply prt_ret_Y. exact HA2.
Qed.

Lemma ntl_ft_At (x : bytes) lr v :
  At v x -> nonl x -> prt (non_terminating_linebreaks fuel) lr v (Yields (Ok false) x).
Proof.
  intros HA Hx. unfold non_terminating_linebreaks.
  eapply prt_bind_Y; [apply matches_ft_At, tnewline_ft_At; [exact HA|exact Hx]|].
  intros lr1 v1 HA1. cbv beta iota. apply prt_ret_Y. exact HA1.
Qed.

(* what is left of a gap after the token before it: consumed by non_terminating_linebreaks, whichever it is *)
Lemma ntl_gap_At g (x : bytes) lr v :
  gap_ok false g = true -> stop x -> At v (gap_rest g x) ->
  exists b, prt (non_terminating_linebreaks fuel) lr v (Yields (Ok b) x).
Proof.
  intros Hg Hx HA. destruct g as [b|lb]; cbn [gap_ok gap_rest] in *.
  - exists false. apply ntl_ft_At; [exact HA|apply stop_nonl, Hx].
  - exists true. apply (ntl_At lb); assumption.
Qed.

(* ================================================================== *)
(* 3. the literals of a clause: token::clause_lits                      *)

Section Lits.
Variables (limit : Z) (tm : bool) (tz : nat) (trail E : bytes).
Hypothesis Hlimit : (limit <= ity_max Isize)%Z.
Hypothesis Htrail : tokend trail E.

(* the terminator, the blanks after it and the line end *)
Definition tl_text : bytes := numeral tm tz 0 ++ trail ++ E.

Definition next_val (ls : list Z) : Z := match ls with [] => 0%Z | l :: _ => l end.
Definition next_state (ls : list Z) (ll : list (nat * gap)) : bytes :=
  match ls with
  | [] => E
  | _ :: ls' => gap_rest (snd (hd dgap ll)) (lits_bytes ls' (tl ll) ++ tl_text)
  end.

Definition gaps_ok (ll : list (nat * gap)) : Prop := forallb (fun x => gap_ok true (snd x)) ll = true.

Lemma gaps_ok_hd ll : gaps_ok ll -> gap_ok true (snd (hd dgap ll)) = true /\ gaps_ok (tl ll).
Proof.
  destruct ll as [|x ll]; [intros _; split; reflexivity|]. unfold gaps_ok. cbn [forallb hd tl]. intros H.
  apply andb_prop in H. exact H.
Qed.

Lemma lits_text_numhd ls ll : numhd (lits_bytes ls ll ++ tl_text).
Proof.
  destruct ls as [|l ls]; cbn [lits_bytes app]; [apply numeral_numhd|].
  unfold lit_numeral. rewrite <- app_assoc. apply numeral_numhd.
Qed.

Lemma lits_len ls ll : (length ls <= length (lits_bytes ls ll))%nat.
Proof.
  revert ll. induction ls as [|l ls IH]; intros ll; [cbn; lia|]. cbn [lits_bytes length]. rewrite !app_length.
  specialize (IH (tl ll)).
  assert (1 <= length (lit_numeral (fst (hd dgap ll)) l))%nat; [|lia].
  pose proof (numeral_nonempty (l <? 0)%Z (fst (hd dgap ll)) (Z.abs_N l)) as H. unfold lit_numeral.
  destruct (numeral (l <? 0)%Z (fst (hd dgap ll)) (Z.abs_N l)); [congruence|cbn [length]; lia].
Qed.

Definition lits_ok (ls : list Z) : Prop := forallb (lit_ok limit) ls = true.

Lemma lit_ok_inv l : lit_ok limit l = true -> (l =? 0)%Z = false /\ ((- limit <=? l) && (l <=? limit))%Z = true /\ in_range Isize l = true.
Proof.
  unfold lit_ok. intros H. apply andb_prop in H. destruct H as [H H3]. apply andb_prop in H. destruct H as [H1 H2].
  apply negb_true_iff in H1. split; [exact H1|]. split; [rewrite H2, H3; reflexivity|].
  apply Z.leb_le in H2, H3. apply in_range_iff. cbn in *. lia.
Qed.

(* reading the next numeral of the clause: the next literal, or the terminator *)
Lemma lit_tok_next ls ll lr v :
  lits_ok ls -> gaps_ok ll -> At v (lits_bytes ls ll ++ tl_text) ->
  prt (lit_tok fuel) lr v (Yields (Res (Ok (next_val ls))) (next_state ls ll)).
Proof.
  intros Hls Hll HA. destruct ls as [|l ls]; cbn [lits_bytes app next_val next_state] in *.
  - unfold tl_text in HA.
    assert (E0 : sval tm 0 = 0%Z) by (destruct tm; reflexivity). rewrite <- E0.
    eapply lit_tok_At; [exact HA|exact Htrail|rewrite E0; reflexivity].
  - unfold lits_ok in Hls. cbn [forallb] in Hls. apply andb_prop in Hls. destruct Hls as [Hl _].
    destruct (lit_ok_inv l Hl) as (_ & _ & Hin).
    destruct (gaps_ok_hd ll Hll) as [Hg _].
    rewrite <- !app_assoc in HA. rewrite gap_split in HA. unfold lit_numeral in HA.
    rewrite <- (lit_numeral_sval l) at 1.
    eapply lit_tok_At; [exact HA| |rewrite lit_numeral_sval; exact Hin].
    apply gap_tokend; [exact Hg|]. apply numhd_nbl, lits_text_numhd.
Qed.

Lemma cll_At ls : forall ll n acc lr v,
  lits_ok ls -> gaps_ok ll -> At v (next_state ls ll) -> (length ls < n)%nat ->
  prt (clause_lits_loop fuel n limit (next_val ls) acc) lr v (Yields (Ok (rev acc ++ ls)) E).
Proof.
  induction ls as [|l ls IH]; intros ll n acc lr v Hls Hll HA Hn; (destruct n as [|n]; [lia|]);
    cbn [clause_lits_loop next_val next_state] in *.
  - change (0 =? 0)%Z with true. cbv iota. rewrite app_nil_r. apply prt_ret_Y. exact HA.
  - pose proof Hls as Hls0. unfold lits_ok in Hls. cbn [forallb] in Hls. apply andb_prop in Hls. destruct Hls as [Hl Hls].
    destruct (lit_ok_inv l Hl) as (Hnz & Hlim & _). rewrite Hnz, Hlim. cbv iota.
    destruct (gaps_ok_hd ll Hll) as [Hg Hll'].
    cbn [length] in Hn.
    assert (Hres : rev (l :: acc) ++ ls = rev acc ++ l :: ls) by (cbn [rev]; rewrite <- app_assoc; reflexivity).
    apply prt_pbnd, prt_pset_mark.
    destruct (snd (hd dgap ll)) as [b|lb] eqn:Eg; cbn [gap_rest gap_ok] in *.
    + eapply prt_bind_Y; [apply lit_tok_next; [exact Hls|exact Hll'|apply At_setmark; exact HA]|].
      intros lr1 v1 HA1. cbv beta iota. rewrite <- Hres. apply (IH (tl ll)); [exact Hls|exact Hll'|exact HA1|lia].
    + destruct (eol_hd (lb_crlf lb) (after_break lb (lits_bytes ls (tl ll) ++ tl_text))) as (_ & _ & _ & h4 & _).
      eapply prt_bind_Y; [apply lit_tok_ft_At; [apply At_setmark; exact HA|exact h4]|].
      intros lr1 v1 HA1. cbv beta iota.
      eapply prt_bind_Y; [apply (ntl_At lb); [exact Hg|apply numhd_stop, lits_text_numhd|exact HA1]|].
      intros lr2 v2 HA2. cbv beta iota.
      apply prt_pbnd, prt_pset_mark.
      eapply prt_bind_Y; [apply or_unexpected_At, lit_tok_next; [exact Hls|exact Hll'|apply At_setmark; exact HA2]|].
      intros lr3 v3 HA3. cbv beta iota. rewrite <- Hres. apply (IH (tl ll)); [exact Hls|exact Hll'|exact HA3|lia].
Qed.

Lemma clause_lits_At ls ll lr v :
  lits_ok ls -> gaps_ok ll -> At v (lits_bytes ls ll ++ tl_text) ->
  prt (clause_lits fuel limit) lr v (Yields (Res (Ok ls)) E).
Proof.
  intros Hls Hll HA. unfold clause_lits. apply prt_pbnd, prt_pset_mark.
  eapply prt_bind_Y; [apply lit_tok_next; [exact Hls|exact Hll|apply At_setmark; exact HA]|].
  intros lr1 v1 HA1. cbv beta iota.
  eapply prt_bind_Y.
  { apply (cll_At ls ll fuel []); [exact Hls|exact Hll|exact HA1|].
    pose proof (At_fuel _ _ _ HA) as H. rewrite app_length in H. pose proof (lits_len ls ll). lia. }
  intros lr2 v2 HA2. cbv beta iota. apply prt_ret_Y. exact HA2.
Qed.

End Lits.


(* ================================================================== *)
(* 4. the clause token of each format                                   *)

(* the end of a line after a line-ending token: T is the text after the token, R what is left after the line end *)
Definition ending (T R : bytes) : Prop := exists trail E, T = trail ++ E /\ tokend trail E /\ lineend E R.

Lemma clause_tail_At (pre : Z) (ls : list Z) (E R : bytes) lr v :
  lineend E R -> At v E ->
  prt (let* e := or_unexpected (interactive_end_of_line fuel) in
       match e with Ok _ => tok_ok (pre, ls) | Err er => tok_err er end) lr v (Yields (Res (Ok (pre, ls))) R).
Proof.
  intros HE HA. eapply prt_bind_Y; [apply or_unexpected_At, (interactive_end_of_line_At fuel E R); assumption|].
  intros lr1 v1 HA1. cbv beta iota. unfold tok_ok. apply prt_ret_Y. exact HA1.
Qed.

(* after the prefix of a wcnf / gcnf clause *)
Lemma clause_rest_At limit (pre : Z) ls ll tm tz (trail E R : bytes) g lr v :
  (limit <= ity_max Isize)%Z -> tokend trail E -> lineend E R ->
  lits_ok limit ls -> gaps_ok ll -> gap_ok false g = true ->
  At v (gap_rest g (lits_bytes ls ll ++ tl_text tm tz trail E)) ->
  prt (let* lb := non_terminating_linebreaks fuel in
       match lb with
       | Err e => tok_err e
       | Ok _ =>
           let* ls := or_unexpected (clause_lits fuel limit) in
           match ls with
           | Err e => tok_err e
           | Ok ls =>
               let* e := or_unexpected (interactive_end_of_line fuel) in
               match e with Ok _ => tok_ok (pre, ls) | Err er => tok_err er end
           end
       end) lr v (Yields (Res (Ok (pre, ls))) R).
Proof.
  intros Hlim Htr HE Hls Hll Hg HA.
  destruct (ntl_gap_At g _ lr v Hg (numhd_stop _ (lits_text_numhd tm tz trail E ls ll)) HA) as [b Hb].
  eapply prt_bind_Y; [exact Hb|]. intros lr1 v1 HA1. cbv beta iota.
  eapply prt_bind_Y; [apply or_unexpected_At, (clause_lits_At limit tm tz trail E Hlim Htr ls ll); assumption|].
  intros lr2 v2 HA2. cbv beta iota. apply (clause_tail_At pre ls E R); assumption.
Qed.

Lemma clause_lay_ok_inv k cl : clause_lay_ok k cl = true ->
  lbreak_ok (cl_before cl) = true /\ gap_ok (match k with KGcnf => false | _ => true end) (snd (cl_pre cl)) = true /\
  gaps_ok (cl_lits cl).
Proof.
  unfold clause_lay_ok. intros H. apply andb_prop in H. destruct H as [H H3]. apply andb_prop in H. destruct H as [H1 H2].
  auto.
Qed.

Lemma gap_ok_weaken g : gap_ok true g = true -> gap_ok false g = true.
Proof. destruct g as [b|lb]; cbn [gap_ok]; [|auto]. intros H. apply sep_ok_inv in H. tauto. Qed.

Lemma usize_range z : (0 <= z <= USIZE_MAX)%Z -> in_range Usize z = true.
Proof. intros H. apply in_range_iff. unfold USIZE_MAX in H. cbn. lia. Qed.

Lemma in_range_nonneg_u64 z : in_range U64 z = true -> (0 <= z)%Z.
Proof. intros H. apply in_range_iff in H. cbn in H. lia. Qed.

Lemma clause_tok_At k st it cl (T R : bytes) lr v :
  (lit_limit st <= ity_max Isize)%Z -> (group_limit st <= USIZE_MAX)%Z ->
  item_ok k (lit_limit st) (group_limit st) it = true -> clause_lay_ok k cl = true -> ending T R ->
  At v (clause_bytes k it cl ++ T) ->
  prt (clause_tok fuel k st) lr v (Yields (Res (Ok it)) R).
Proof.
  intros Hlim Hglim Hit Hcl (trail & E & -> & Htr & HE) HA.
  destruct it as [pre ls]. unfold item_ok in Hit. cbn [fst snd] in Hit. apply andb_prop in Hit. destruct Hit as [Hpre Hls].
  destruct (clause_lay_ok_inv k cl Hcl) as (_ & Hg & Hll).
  unfold clause_bytes in HA. cbn [fst snd] in HA. rewrite <- !app_assoc in HA.
  fold (tl_text (fst (cl_term cl)) (snd (cl_term cl)) trail E) in HA.
  destruct k; cbn [prefix_bytes prefix_ok clause_tok] in *.
  - apply Z.eqb_eq in Hpre. subst pre. cbn [app] in HA.
    eapply prt_bind_Y; [apply (clause_lits_At (lit_limit st) (fst (cl_term cl)) (snd (cl_term cl)) trail E Hlim Htr ls (cl_lits cl)); assumption|].
    intros lr1 v1 HA1. cbv beta iota. apply (clause_tail_At 0%Z ls E R); assumption.
  - pose proof (in_range_nonneg_u64 pre Hpre) as Hnn.
    rewrite <- !app_assoc in HA. rewrite gap_split in HA. unfold unum in HA.
    eapply prt_bind_Y.
    { eapply (uint_count_At fuel U64 (fst (cl_pre cl)) (Z.to_N pre)); [exact HA| |rewrite Z2N.id by exact Hnn; exact Hpre].
      apply gap_tokend; [exact Hg|]. apply numhd_nbl, lits_text_numhd. }
    intros lr1 v1 HA1. cbv beta iota. rewrite Z2N.id by exact Hnn.
    eapply clause_rest_At; try eassumption. apply gap_ok_weaken. exact Hg.
  - apply andb_prop in Hpre. destruct Hpre as [Hp1 Hp2]. apply Z.leb_le in Hp1, Hp2.
    cbn [app] in HA. rewrite <- !app_assoc in HA. cbn [app] in HA. rewrite gap_split in HA. unfold unum in HA.
    destruct (gap_weak (snd (cl_pre cl)) _ Hg (numhd_nbl _ (lits_text_numhd (fst (cl_term cl)) (snd (cl_term cl)) trail E ls (cl_lits cl))))
      as [Hgb Hgr].
    eapply prt_bind_Y.
    { eapply (clause_group_At fuel (group_limit st) (fst (cl_pre cl)) (Z.to_N pre)); [exact HA|exact Hgb|exact Hgr| |].
      - rewrite Z2N.id by exact Hp1. apply usize_range. lia.
      - rewrite Z2N.id by exact Hp1. exact Hp2. }
    intros lr1 v1 HA1. cbv beta iota. rewrite Z2N.id by exact Hp1.
    eapply clause_rest_At; eassumption.
Qed.

(* no clause starts here *)
Definition nonclause (r : bytes) : Prop := nonnum true r /\ nohd 123 r.

Lemma nonnum_weaken r : nonnum true r -> nonnum false r.
Proof. destruct r as [|x r]; [exact (fun H => H)|]. cbn. intros [H _]. split; [exact H|discriminate]. Qed.

Lemma clause_tok_ft_At k st (r : bytes) lr v :
  At v r -> nonclause r -> prt (clause_tok fuel k st) lr v (Yields Fallthrough r).
Proof.
  intros HA [Hn1 Hn2]. destruct k; cbn [clause_tok].
  - eapply prt_bind_Y.
    { unfold clause_lits. apply prt_pbnd, prt_pset_mark.
      eapply prt_bind_Y; [apply lit_tok_ft_At; [apply At_setmark; exact HA|exact Hn1]|].
      intros lr1 v1 HA1. cbv beta iota. unfold tok_ft. apply prt_ret_Y. exact HA1. }
    intros lr1 v1 HA1. cbv beta iota. unfold tok_ft. apply prt_ret_Y. exact HA1.
  - eapply prt_bind_Y; [apply uint_count_ft_At; [exact HA|apply nonnum_weaken; exact Hn1]|].
    intros lr1 v1 HA1. cbv beta iota. unfold tok_ft. apply prt_ret_Y. exact HA1.
  - eapply prt_bind_Y; [apply clause_group_ft_At; [exact HA|exact Hn2]|].
    intros lr1 v1 HA1. cbv beta iota. unfold tok_ft. apply prt_ret_Y. exact HA1.
Qed.

(* ================================================================== *)
(* 5. Parser::next_clause                                               *)

Definition try_clause (st : pstate) : bool :=
  negb (clause_count st =? clause_limit st)%Z || negb (clause_limit_active st).
Definition may_end (st : pstate) : bool :=
  negb (clause_limit_active st) || (clause_limit st <=? clause_count st)%Z.
Definition st_step (st : pstate) : pstate :=
  {| clause_count := clause_count st + 1; clause_limit := clause_limit st; clause_limit_active := clause_limit_active st;
     lit_limit := lit_limit st; group_limit := group_limit st; phdr := phdr st |}.

(* the first step of an iteration at a place where no clause starts *)
Lemma ncl_try_ft k st (r : bytes) lr v :
  At v r -> nonclause r ->
  prt (if try_clause st then clause_tok fuel k st else tok_ft) lr v (Yields Fallthrough r).
Proof.
  intros HA Hn. destruct (try_clause st); [apply clause_tok_ft_At; assumption|]. unfold tok_ft. apply prt_ret_Y. exact HA.
Qed.

Lemma ncl_unfold n k st :
  next_clause_loop fuel (S n) k st =
  (let* c := (if try_clause st then clause_tok fuel k st else tok_ft) in
   match c with
   | Res (Ok item) => pret (Ok (Some item), st_step st)
   | Res (Err e) => pret (Err e, st)
   | Fallthrough =>
       let* cm := matches_tok (comment fuel) in
       match cm with
       | Err e => pret (Err e, st)
       | Ok true => next_clause_loop fuel n k st
       | Ok false =>
           let* nl := matches_tok (tnewline fuel false) in
           match nl with
           | Err e => pret (Err e, st)
           | Ok true => next_clause_loop fuel n k st
           | Ok false =>
               if may_end st then
                 let* ef := matches_tok teof in
                 match ef with
                 | Err e => pret (Err e, st)
                 | Ok true => pret (Ok None, st)
                 | Ok false => let* e := unexpected in pret (Err e, st)
                 end
               else let* e := unexpected in pret (Err e, st)
           end
       end
   end).
Proof. reflexivity. Qed.

(* skipping filler lines; then whatever happens at X *)
Lemma ncl_filler k st f : forall n m (X : bytes) (P : result (option (Z * list Z)) perr * pstate -> lrs -> view -> Prop) lr v,
  (forall n' lr' v', At v' X -> (m < n')%nat -> prt (next_clause_loop fuel n' k st) lr' v' P) ->
  filler_ok f = true -> nbl X -> At v (filler_bytes f ++ X) -> (length f + m < n)%nat ->
  prt (next_clause_loop fuel n k st) lr v P.
Proof.
  induction f as [|[l b] f IH]; intros n m X P lr v Hbase Hf HX HA Hn.
  - apply Hbase; [exact HA|cbn [length] in Hn; lia].
  - destruct n as [|n]; [lia|]. rewrite ncl_unfold.
    cbn [filler_ok forallb fst snd] in Hf. apply andb_prop in Hf. destruct Hf as [Hlb Hf].
    apply andb_prop in Hlb. destruct Hlb as [Hl Hb].
    cbn [filler_bytes] in HA. rewrite <- !app_assoc in HA.
    pose proof (filler_nbl f X HX) as Hnb. cbn [length] in Hn.
    destruct (fline_hd l (b ++ filler_bytes f ++ X)) as (_ & h2 & h3).
    eapply prt_bind_Y; [apply ncl_try_ft; [exact HA|split; assumption]|]. intros lr0 v0 HA0. cbv beta iota.
    destruct l as [body|crlf]; cbn [fline_bytes fline_ok] in *.
    + cbn [app] in HA0. rewrite <- app_assoc in HA0. cbn [app] in HA0.
      eapply prt_bind_Y; [eapply matches_At, (comment_At fuel body b (filler_bytes f ++ X)); [exact Hl|exact Hb|exact Hnb|exact HA0]|].
      intros lr1 v1 HA1. cbv beta iota.
      apply (IH n m X P); [exact Hbase|exact Hf|exact HX|exact HA1|lia].
    + destruct (eol_hd crlf (b ++ filler_bytes f ++ X)) as (_ & _ & h4 & _).
      eapply prt_bind_Y; [apply matches_ft_At, comment_ft_At; [exact HA0|exact h4]|]. intros lr1 v1 HA1. cbv beta iota.
      eapply prt_bind_Y; [eapply matches_At, (tnewline_At fuel crlf b (filler_bytes f ++ X)); [exact Hb|exact Hnb|exact HA1]|].
      intros lr2 v2 HA2. cbv beta iota.
      apply (IH n m X P); [exact Hbase|exact Hf|exact HX|exact HA2|lia].
Qed.

Lemma clause_bytes_hd k it cl (T : bytes) : clausehd (clause_bytes k it cl ++ T).
Proof.
  unfold clause_bytes. rewrite <- !app_assoc. destruct k; cbn [prefix_bytes app].
  - apply numhd_clausehd.
    pose proof (lits_text_numhd (fst (cl_term cl)) (snd (cl_term cl)) [] T (snd it) (cl_lits cl)) as H.
    unfold tl_text in H. cbn [app] in H. exact H.
  - apply numhd_clausehd. unfold unum. rewrite <- app_assoc. apply numeral_numhd.
  - right. right. reflexivity.
Qed.

(* a clause after filler lines *)
Lemma ncl_clause_At k st f it cl (T R : bytes) n lr v :
  try_clause st = true ->
  (lit_limit st <= ity_max Isize)%Z -> (group_limit st <= USIZE_MAX)%Z ->
  item_ok k (lit_limit st) (group_limit st) it = true -> clause_lay_ok k cl = true -> ending T R ->
  filler_ok f = true -> At v (filler_bytes f ++ clause_bytes k it cl ++ T) -> (length f < n)%nat ->
  prt (next_clause_loop fuel n k st) lr v (Yields (Ok (Some it), st_step st) R).
Proof.
  intros Htry Hlim Hglim Hit Hcl HT Hf HA Hn.
  apply (ncl_filler k st f n 0%nat (clause_bytes k it cl ++ T)); [|exact Hf| |exact HA|lia].
  - intros n' lr' v' HA' Hn'. destruct n' as [|n']; [lia|]. rewrite ncl_unfold. rewrite Htry.
    eapply prt_bind_Y; [apply (clause_tok_At k st it cl T R); assumption|].
    intros lr1 v1 HA1. cbv beta iota. apply prt_ret_Y. exact HA1.
  - apply stop_nbl. apply (clausehd_stop _ (clause_bytes_hd k it cl T)).
Qed.

(* the end of the input after filler lines, possibly with a last comment line without LF *)
Lemma ncl_end_base k st n lr v :
  may_end st = true -> At v [] -> (0 < n)%nat ->
  prt (next_clause_loop fuel n k st) lr v (Yields (Ok None, st) []).
Proof.
  intros Hend HA Hn. destruct n as [|n]; [lia|]. rewrite ncl_unfold. rewrite Hend.
  eapply prt_bind_Y; [apply ncl_try_ft; [exact HA|split; exact I]|]. intros lr0 v0 HA0. cbv beta iota.
  eapply prt_bind_Y; [apply matches_ft_At, comment_ft_At; [exact HA0|exact I]|]. intros lr1 v1 HA1. cbv beta iota.
  eapply prt_bind_Y; [apply matches_ft_At, tnewline_ft_At; [exact HA1|exact I]|]. intros lr2 v2 HA2. cbv beta iota.
  eapply prt_bind_Y; [eapply matches_At, teof_At; exact HA2|]. intros lr3 v3 HA3. cbv beta iota.
  apply prt_ret_Y. exact HA3.
Qed.

Definition last_steps (last : option bytes) : nat := match last with Some _ => 1%nat | None => 0%nat end.

Lemma ncl_end_At k st f last n lr v :
  may_end st = true -> filler_ok f = true -> last_ok last = true ->
  At v (filler_bytes f ++ optc last) -> (length f + last_steps last < n)%nat ->
  prt (next_clause_loop fuel n k st) lr v (Yields (Ok None, st) []).
Proof.
  intros Hend Hf Hlast HA Hn.
  apply (ncl_filler k st f n (last_steps last) (optc last)); [|exact Hf| |exact HA|lia].
  - intros n' lr' v' HA' Hn'. destruct last as [body|]; cbn [optc last_steps last_ok] in *.
    + destruct n' as [|n']; [lia|]. rewrite ncl_unfold.
      eapply prt_bind_Y; [apply ncl_try_ft; [exact HA'|split; [split; [reflexivity|intros _; lia]|cbn; lia]]|]. intros lr0 v0 HA0. cbv beta iota.
      eapply prt_bind_Y; [eapply matches_At, comment_eof_At; [exact Hlast|exact HA0]|]. intros lr1 v1 HA1. cbv beta iota.
      apply ncl_end_base; [exact Hend|exact HA1|lia].
    + apply ncl_end_base; [exact Hend|exact HA'|lia].
  - destruct last; cbn; auto.
Qed.

End Clause.
