(* Btor2.v — flussab-btor2 as parser programs and a pure writer:
   token.rs (keyword scanner with its 8-byte fast path, integers, constants, symbols, comments),
   parser.rs (Parser::next_line driven to the end of the input), btor2.rs (the Line data type,
   write_into, the validating constructors of the constants).
   Error messages are not modelled; an error value is its kind and location (Cnf.perr). *)
From Coq Require Import String Ascii.
From Flussab Require Import Base Writer Parsed Prog Text Consts Cnf.
Local Open Scope string_scope.
Local Open Scope list_scope.
Local Open Scope N_scope.

(* ---------- text helpers: Rust string literals as byte lists ---------- *)
Definition bs (s : string) : bytes := List.map N_of_ascii (list_ascii_of_string s).

Fixpoint bytes_eqb (a b : bytes) : bool :=
  match a, b with
  | [], [] => true
  | x :: a', y :: b' => (x =? y) && bytes_eqb a' b'
  | _, _ => false
  end.

Fixpoint lookup {A} (k : bytes) (tbl : list (bytes * A)) : option A :=
  match tbl with
  | [] => None
  | (s, a) :: r => if bytes_eqb s k then Some a else lookup k r
  end.

(* ---------- btor2.rs: the data type of lines ---------- *)
Inductive sort := SBitVec (width : N) | SArray (domain codomain : N).

Inductive unop :=
  UoUext (w : N) | UoSext (w : N) | UoSlice (upper lower : N)
| UoNot | UoInc | UoDec | UoNeg | UoRedand | UoRedor | UoRedxor.

Inductive binop :=
  BoIff | BoImplies | BoEq | BoNeq | BoUgt | BoSgt | BoUgte | BoSgte | BoUlt | BoSlt | BoUlte | BoSlte | BoAnd | BoNand | BoNor | BoOr | BoXnor | BoXor | BoRol | BoRor | BoSll | BoSra | BoSrl | BoAdd | BoMul | BoUdiv | BoSdiv | BoSmod | BoUrem | BoSrem | BoSub | BoUaddo | BoSaddo | BoSdivo | BoUmulo | BoSmulo | BoUsubo | BoSsubo | BoConcat | BoRead.

Inductive ternop := ToIte | ToWrite.

Inductive const :=
  CBinary (s : bytes) | CDecimal (s : bytes) | CHex (s : bytes) | COne | COnes | CZero.

Inductive op :=
  OUnary (o : unop) (a0 : N) | OBinary (o : binop) (a0 a1 : N) | OTernary (o : ternop) (a0 a1 a2 : N).

Inductive valvariant := VConst (c : const) | VInput | VState | VOp (o : op).

Inductive akind := AkInit | AkNext.
Inductive okind := OvOutput | OvBad | OvConstraint | OvFair.

Inductive nodevariant :=
  NSort (s : sort)
| NValue (vsort : N) (v : valvariant)
| NAssign (state asort : N) (k : akind) (value : N)
| NOutput (k : okind) (value : N)
| NJustice (conditions : list N).

Record node := { n_id : N; n_variant : nodevariant; n_symbol : option bytes; n_comment : option bytes }.

Inductive line := LComment (c : bytes) | LNode (n : node).

(* Line::has_comment / update_comment *)
Definition has_comment (l : line) : bool :=
  match l with
  | LComment _ => true
  | LNode n => match n_comment n with Some _ => true | None => false end
  end.
Definition update_comment (l : line) (c : bytes) : line :=
  match l with
  | LComment _ => LComment c
  | LNode n => LNode {| n_id := n_id n; n_variant := n_variant n; n_symbol := n_symbol n; n_comment := Some c |}
  end.

(* ---------- operator names: the enum variant (as in the source) and the keyword ---------- *)
Definition binop_variant (o : binop) : bytes := Eval cbv in
  match o with
  | BoIff => bs "Iff"
  | BoImplies => bs "Implies"
  | BoEq => bs "Eq"
  | BoNeq => bs "Neq"
  | BoUgt => bs "Ugt"
  | BoSgt => bs "Sgt"
  | BoUgte => bs "Ugte"
  | BoSgte => bs "Sgte"
  | BoUlt => bs "Ult"
  | BoSlt => bs "Slt"
  | BoUlte => bs "Ulte"
  | BoSlte => bs "Slte"
  | BoAnd => bs "And"
  | BoNand => bs "Nand"
  | BoNor => bs "Nor"
  | BoOr => bs "Or"
  | BoXnor => bs "Xnor"
  | BoXor => bs "Xor"
  | BoRol => bs "Rol"
  | BoRor => bs "Ror"
  | BoSll => bs "Sll"
  | BoSra => bs "Sra"
  | BoSrl => bs "Srl"
  | BoAdd => bs "Add"
  | BoMul => bs "Mul"
  | BoUdiv => bs "Udiv"
  | BoSdiv => bs "Sdiv"
  | BoSmod => bs "Smod"
  | BoUrem => bs "Urem"
  | BoSrem => bs "Srem"
  | BoSub => bs "Sub"
  | BoUaddo => bs "Uaddo"
  | BoSaddo => bs "Saddo"
  | BoSdivo => bs "Sdivo"
  | BoUmulo => bs "Umulo"
  | BoSmulo => bs "Smulo"
  | BoUsubo => bs "Usubo"
  | BoSsubo => bs "Ssubo"
  | BoConcat => bs "Concat"
  | BoRead => bs "Read"
  end.

Definition binop_kw (o : binop) : bytes := Eval cbv in
  match o with
  | BoIff => bs "iff"
  | BoImplies => bs "implies"
  | BoEq => bs "eq"
  | BoNeq => bs "neq"
  | BoUgt => bs "ugt"
  | BoSgt => bs "sgt"
  | BoUgte => bs "ugte"
  | BoSgte => bs "sgte"
  | BoUlt => bs "ult"
  | BoSlt => bs "slt"
  | BoUlte => bs "ulte"
  | BoSlte => bs "slte"
  | BoAnd => bs "and"
  | BoNand => bs "nand"
  | BoNor => bs "nor"
  | BoOr => bs "or"
  | BoXnor => bs "xnor"
  | BoXor => bs "xor"
  | BoRol => bs "rol"
  | BoRor => bs "ror"
  | BoSll => bs "sll"
  | BoSra => bs "sra"
  | BoSrl => bs "srl"
  | BoAdd => bs "add"
  | BoMul => bs "mul"
  | BoUdiv => bs "udiv"
  | BoSdiv => bs "sdiv"
  | BoSmod => bs "smod"
  | BoUrem => bs "urem"
  | BoSrem => bs "srem"
  | BoSub => bs "sub"
  | BoUaddo => bs "uaddo"
  | BoSaddo => bs "saddo"
  | BoSdivo => bs "sdivo"
  | BoUmulo => bs "umulo"
  | BoSmulo => bs "smulo"
  | BoUsubo => bs "usubo"
  | BoSsubo => bs "ssubo"
  | BoConcat => bs "concat"
  | BoRead => bs "read"
  end.

Definition all_binops : list binop :=
  [BoIff; BoImplies; BoEq; BoNeq; BoUgt; BoSgt; BoUgte; BoSgte; BoUlt; BoSlt; BoUlte; BoSlte; BoAnd; BoNand; BoNor; BoOr; BoXnor; BoXor; BoRol; BoRor; BoSll; BoSra; BoSrl; BoAdd; BoMul; BoUdiv; BoSdiv; BoSmod; BoUrem; BoSrem; BoSub; BoUaddo; BoSaddo; BoSdivo; BoUmulo; BoSmulo; BoUsubo; BoSsubo; BoConcat; BoRead].

Definition ternop_variant (o : ternop) : bytes := Eval cbv in
  match o with ToIte => bs "Ite" | ToWrite => bs "Write" end.
Definition ternop_kw (o : ternop) : bytes := Eval cbv in
  match o with ToIte => bs "ite" | ToWrite => bs "write" end.

(* UnaryOp::name *)
Definition unop_variant (o : unop) : bytes := Eval cbv in
  match o with
  | UoUext _ => bs "Uext" | UoSext _ => bs "Sext" | UoSlice _ _ => bs "Slice" | UoNot => bs "Not" | UoInc => bs "Inc"
  | UoDec => bs "Dec" | UoNeg => bs "Neg" | UoRedand => bs "Redand" | UoRedor => bs "Redor" | UoRedxor => bs "Redxor"
  end.
Definition unop_kw (o : unop) : bytes := Eval cbv in
  match o with
  | UoUext _ => bs "uext" | UoSext _ => bs "sext" | UoSlice _ _ => bs "slice" | UoNot => bs "not" | UoInc => bs "inc"
  | UoDec => bs "dec" | UoNeg => bs "neg" | UoRedand => bs "redand" | UoRedor => bs "redor" | UoRedxor => bs "redxor"
  end.

(* ---------- token.rs: the keyword tokens ---------- *)
Inductive ext_tok := XtUext | XtSext.
Inductive un_tok := UtNot | UtInc | UtDec | UtNeg | UtRedand | UtRedor | UtRedxor.
Inductive vtok :=
  VtConst | VtConstd | VtConsth | VtOnes | VtOne | VtZero | VtInput | VtState
| VtExt (x : ext_tok) | VtSlice | VtUnary (u : un_tok) | VtBinary (b : binop) | VtTernary (t : ternop).
Inductive ntok := NtSort | NtAssign (k : akind) | NtOutput (k : okind) | NtJustice | NtValue (v : vtok).
Inductive stok := StBitvec | StArray.

(* NodeValueExtOpToken::unary_op / NodeValueUnaryOpToken::unary_op *)
Definition ext_unary_op (x : ext_tok) (pad : N) : unop := match x with XtUext => UoUext pad | XtSext => UoSext pad end.
Definition tok_unary_op (u : un_tok) : unop :=
  match u with
  | UtNot => UoNot | UtInc => UoInc | UtDec => UoDec | UtNeg => UoNeg
  | UtRedand => UoRedand | UtRedor => UoRedor | UtRedxor => UoRedxor
  end.

(* the `match matched { .. }` of node_token and sort_token, in source order *)
Definition node_keywords : list (string * ntok) :=
  [("sort", NtSort);
   ("init", NtAssign AkInit);
   ("next", NtAssign AkNext);
   ("bad", NtOutput OvBad);
   ("constraint", NtOutput OvConstraint);
   ("fair", NtOutput OvFair);
   ("output", NtOutput OvOutput);
   ("justice", NtJustice);
   ("const", NtValue VtConst);
   ("constd", NtValue VtConstd);
   ("consth", NtValue VtConsth);
   ("ones", NtValue VtOnes);
   ("one", NtValue VtOne);
   ("zero", NtValue VtZero);
   ("input", NtValue VtInput);
   ("state", NtValue VtState);
   ("uext", NtValue (VtExt XtUext));
   ("sext", NtValue (VtExt XtSext));
   ("slice", NtValue VtSlice);
   ("not", NtValue (VtUnary UtNot));
   ("inc", NtValue (VtUnary UtInc));
   ("dec", NtValue (VtUnary UtDec));
   ("neg", NtValue (VtUnary UtNeg));
   ("redand", NtValue (VtUnary UtRedand));
   ("redor", NtValue (VtUnary UtRedor));
   ("redxor", NtValue (VtUnary UtRedxor));
   ("iff", NtValue (VtBinary BoIff));
   ("implies", NtValue (VtBinary BoImplies));
   ("eq", NtValue (VtBinary BoEq));
   ("neq", NtValue (VtBinary BoNeq));
   ("ugt", NtValue (VtBinary BoUgt));
   ("sgt", NtValue (VtBinary BoSgt));
   ("ugte", NtValue (VtBinary BoUgte));
   ("sgte", NtValue (VtBinary BoSgte));
   ("ult", NtValue (VtBinary BoUlt));
   ("slt", NtValue (VtBinary BoSlt));
   ("ulte", NtValue (VtBinary BoUlte));
   ("slte", NtValue (VtBinary BoSlte));
   ("and", NtValue (VtBinary BoAnd));
   ("nand", NtValue (VtBinary BoNand));
   ("nor", NtValue (VtBinary BoNor));
   ("or", NtValue (VtBinary BoOr));
   ("xnor", NtValue (VtBinary BoXnor));
   ("xor", NtValue (VtBinary BoXor));
   ("rol", NtValue (VtBinary BoRol));
   ("ror", NtValue (VtBinary BoRor));
   ("sll", NtValue (VtBinary BoSll));
   ("sra", NtValue (VtBinary BoSra));
   ("srl", NtValue (VtBinary BoSrl));
   ("add", NtValue (VtBinary BoAdd));
   ("mul", NtValue (VtBinary BoMul));
   ("udiv", NtValue (VtBinary BoUdiv));
   ("sdiv", NtValue (VtBinary BoSdiv));
   ("smod", NtValue (VtBinary BoSmod));
   ("urem", NtValue (VtBinary BoUrem));
   ("srem", NtValue (VtBinary BoSrem));
   ("sub", NtValue (VtBinary BoSub));
   ("uaddo", NtValue (VtBinary BoUaddo));
   ("saddo", NtValue (VtBinary BoSaddo));
   ("sdivo", NtValue (VtBinary BoSdivo));
   ("umulo", NtValue (VtBinary BoUmulo));
   ("smulo", NtValue (VtBinary BoSmulo));
   ("usubo", NtValue (VtBinary BoUsubo));
   ("ssubo", NtValue (VtBinary BoSsubo));
   ("concat", NtValue (VtBinary BoConcat));
   ("read", NtValue (VtBinary BoRead));
   ("ite", NtValue (VtTernary ToIte));
   ("write", NtValue (VtTernary ToWrite))].

Definition sort_keywords : list (string * stok) := [("bitvec", StBitvec); ("array", StArray)].

(* the tables with the keywords as byte strings: what the programs use (evaluated here, so that the
   extracted model contains no Coq strings) *)
Definition node_keywords_b : list (bytes * ntok) :=
  Eval vm_compute in List.map (fun '(k, t) => (bs k, t)) node_keywords.
Definition sort_keywords_b : list (bytes * stok) :=
  Eval vm_compute in List.map (fun '(k, t) => (bs k, t)) sort_keywords.

(* the right-hand sides of those tables as they are spelled in token.rs: ties the hand-written tables
   to the tables regenerated from the source (Consts.btor2_node_keywords / btor2_sort_keywords) *)
Definition akind_src (k : akind) : bytes := match k with AkInit => bs "Init" | AkNext => bs "Next" end.
Definition okind_src (k : okind) : bytes :=
  match k with OvOutput => bs "Output" | OvBad => bs "Bad" | OvConstraint => bs "Constraint" | OvFair => bs "Fair" end.
Definition un_tok_src (u : un_tok) : bytes :=
  match u with
  | UtNot => bs "Not" | UtInc => bs "Inc" | UtDec => bs "Dec" | UtNeg => bs "Neg"
  | UtRedand => bs "Redand" | UtRedor => bs "Redor" | UtRedxor => bs "Redxor"
  end.
Definition vtok_src (v : vtok) : bytes :=
  match v with
  | VtConst => bs "Const" | VtConstd => bs "Constd" | VtConsth => bs "Consth" | VtOnes => bs "Ones"
  | VtOne => bs "One" | VtZero => bs "Zero" | VtInput => bs "Input" | VtState => bs "State" | VtSlice => bs "Slice"
  | VtExt XtUext => bs "ExtOp(NodeValueExtOpToken::Uext)"
  | VtExt XtSext => bs "ExtOp(NodeValueExtOpToken::Sext)"
  | VtUnary u => bs "UnaryOp(NodeValueUnaryOpToken::" ++ un_tok_src u ++ bs ")"
  | VtBinary b => bs "BinaryOp(BinaryOp::" ++ binop_variant b ++ bs ")"
  | VtTernary t => bs "TernaryOp(TernaryOp::" ++ ternop_variant t ++ bs ")"
  end.
Definition ntok_src (t : ntok) : bytes :=
  match t with
  | NtSort => bs "NodeToken::Sort"
  | NtAssign k => bs "NodeToken::Assignment(AssignmentKind::" ++ akind_src k ++ bs ")"
  | NtOutput k => bs "NodeToken::Output(SingleValueOutputKind::" ++ okind_src k ++ bs ")"
  | NtJustice => bs "NodeToken::Justice"
  | NtValue v => bs "NodeToken::Value(NodeValueToken::" ++ vtok_src v ++ bs ")"
  end.
Definition stok_src (t : stok) : bytes :=
  match t with StBitvec => bs "SortToken::Bitvec" | StArray => bs "SortToken::Array" end.

(* the tables are compared as sets of rows: the order of the arms of a `match` on distinct literals / variants is
   immaterial, so reordering them in the source must not break the tie *)
Definition row_eqb (r1 r2 : bytes * bytes) : bool := bytes_eqb (fst r1) (fst r2) && bytes_eqb (snd r1) (snd r2).
Definition same_rows (a b : list (bytes * bytes)) : bool :=
  (nlen a =? nlen b) && forallb (fun r => existsb (row_eqb r) b) a && forallb (fun r => existsb (row_eqb r) a) b.

Lemma node_keywords_tie :
  same_rows (List.map (fun '(k, t) => (k, ntok_src t)) node_keywords_b) Consts.btor2_node_keywords = true.
Proof. vm_compute. reflexivity. Qed.
Lemma sort_keywords_tie :
  same_rows (List.map (fun '(k, t) => (k, stok_src t)) sort_keywords_b) Consts.btor2_sort_keywords = true.
Proof. vm_compute. reflexivity. Qed.

(* the writer's operator names (UnaryOp::name, BinaryOp::name, TernaryOp::name) against the table
   regenerated from btor2.rs *)
Definition op_name_rows : list (bytes * bytes) :=
  List.map (fun o => (bs "UnaryOp::" ++ unop_variant o, unop_kw o))
      [UoUext 0; UoSext 0; UoSlice 0 0; UoNot; UoInc; UoDec; UoNeg; UoRedand; UoRedor; UoRedxor]
  ++ List.map (fun o => (bs "BinaryOp::" ++ binop_variant o, binop_kw o)) all_binops
  ++ List.map (fun o => (bs "TernaryOp::" ++ ternop_variant o, ternop_kw o)) [ToIte; ToWrite].
Lemma op_names_tie : same_rows op_name_rows Consts.btor2_op_names = true.
Proof. vm_compute. reflexivity. Qed.

(* the fixed texts of the writer *)
Definition w_sort_bitvec : bytes := Eval vm_compute in bs "sort bitvec ".
Definition w_sort_array : bytes := Eval vm_compute in bs "sort array ".
Definition w_const : bytes := Eval vm_compute in bs "const ".
Definition w_consth : bytes := Eval vm_compute in bs "consth ".
Definition w_constd : bytes := Eval vm_compute in bs "constd ".
Definition w_one : bytes := Eval vm_compute in bs "one ".
Definition w_ones : bytes := Eval vm_compute in bs "ones ".
Definition w_zero : bytes := Eval vm_compute in bs "zero ".
Definition w_input : bytes := Eval vm_compute in bs "input ".
Definition w_state : bytes := Eval vm_compute in bs "state ".
Definition w_init : bytes := Eval vm_compute in bs "init ".
Definition w_next : bytes := Eval vm_compute in bs "next ".
Definition w_output : bytes := Eval vm_compute in bs "output ".
Definition w_bad : bytes := Eval vm_compute in bs "bad ".
Definition w_constraint : bytes := Eval vm_compute in bs "constraint ".
Definition w_fair : bytes := Eval vm_compute in bs "fair ".
Definition w_justice : bytes := Eval vm_compute in bs "justice ".

(* ---------- token.rs: ascii_lowercase_u64 and its cold path ---------- *)
Definition is_lower (b : byte) : bool := (97 <=? b) && (b <=? 122).

Definition REP8 : N := 72340172838076673.      (* 0x0101010101010101 *)
Definition lnot64 (x : N) : N := N.lxor x M64.

(* the additions cannot carry out of a byte lane (each lane stays below 0x25), hence never overflow *)
Definition lc_matches (word : N) : N :=
  let high_mismatch := N.lxor word (REP8 * btor2_lc_high) in
  let low_bits := N.land word (REP8 * btor2_lc_low) in
  let too_small := N.lxor low_bits (REP8 * btor2_lc_low) + REP8 in
  let too_large := low_bits + REP8 * btor2_lc_large in
  N.land (N.lor (N.lor high_mismatch too_small) too_large) (REP8 * btor2_lc_mask).

Definition lc_swar (word : N) : N * N :=
  let shift := N.land (trailing_zeros64 (lc_matches word)) 120 in     (* & !7, the value is at most 64 *)
  if shift =? 64 then (word, 8) else
  let mask := lnot64 (wshl M64 shift) in
  (N.land word mask, shift / 8).

(* std::array::from_fn over i = 0..8 with the `reading` flag: once a byte is not a lowercase letter
   (or missing) no further byte is requested and the remaining lanes are 0 *)
Fixpoint lc_cold (n : nat) (offset i word : N) : prog (N * N) :=
  match n with
  | O => Ret (word, i)
  | S n' =>
      Peek (offset + i) (fun o =>
        match o with
        | Some c => if is_lower c then lc_cold n' offset (i + 1) (word + c * 2 ^ (8 * i)) else Ret (word, i)
        | None => Ret (word, i)
        end)
  end.

Definition ascii_lowercase_u64 (offset : N) : prog (N * N) :=
  TryLoad8 offset (fun ow =>
    match ow with
    | None => lc_cold 8 offset 0 0          (* fewer than offset + 8 bytes buffered *)
    | Some word => Ret (lc_swar word)
    end).

(* the first n bytes of the little-endian representation of a word *)
Fixpoint le_bytes (n : nat) (w : N) : bytes :=
  match n with O => [] | S n' => (w mod 256) :: le_bytes n' (w / 256) end.

(* ---------- btor2.rs: the writer ---------- *)
Definition wr_id (x : N) : bytes := decimal_N x.

Definition write_sort (s : sort) : bytes :=
  match s with
  | SBitVec w => w_sort_bitvec ++ decimal_N w
  | SArray d c => w_sort_array ++ wr_id d ++ [32] ++ wr_id c
  end.

(* UnaryOp::write_indices_into *)
Definition write_indices (o : unop) : bytes :=
  match o with
  | UoUext w | UoSext w => [32] ++ decimal_N w
  | UoSlice u l => [32] ++ decimal_N u ++ [32] ++ decimal_N l
  | _ => []
  end.

Definition write_value (vsort : N) (v : valvariant) : bytes :=
  match v with
  | VConst (CBinary s) => w_const ++ wr_id vsort ++ [32] ++ s
  | VConst (CHex s) => w_consth ++ wr_id vsort ++ [32] ++ s
  | VConst (CDecimal s) => w_constd ++ wr_id vsort ++ [32] ++ s
  | VConst COne => w_one ++ wr_id vsort
  | VConst COnes => w_ones ++ wr_id vsort
  | VConst CZero => w_zero ++ wr_id vsort
  | VInput => w_input ++ wr_id vsort
  | VState => w_state ++ wr_id vsort
  | VOp (OUnary o a0) => unop_kw o ++ [32] ++ wr_id vsort ++ [32] ++ wr_id a0 ++ write_indices o
  | VOp (OBinary o a0 a1) => binop_kw o ++ [32] ++ wr_id vsort ++ [32] ++ wr_id a0 ++ [32] ++ wr_id a1
  | VOp (OTernary o a0 a1 a2) =>
      ternop_kw o ++ [32] ++ wr_id vsort ++ [32] ++ wr_id a0 ++ [32] ++ wr_id a1 ++ [32] ++ wr_id a2
  end.

Definition write_variant (v : nodevariant) : bytes :=
  match v with
  | NSort s => write_sort s
  | NValue vsort vv => write_value vsort vv
  | NAssign state asort k value =>
      (match k with AkInit => w_init | AkNext => w_next end)
      ++ wr_id asort ++ [32] ++ wr_id state ++ [32] ++ wr_id value
  | NOutput k value =>
      (match k with OvOutput => w_output | OvBad => w_bad | OvConstraint => w_constraint | OvFair => w_fair end)
      ++ wr_id value
  | NJustice nodes =>
      w_justice ++ decimal_N (nlen nodes) ++ flat_map (fun nd => [32] ++ wr_id nd) nodes
  end.

Definition write_node (n : node) : bytes :=
  wr_id (n_id n) ++ [32] ++ write_variant (n_variant n)
  ++ (match n_symbol n with Some s => [32] ++ s | None => [] end)
  ++ (match n_comment n with Some c => [32; 59] ++ c | None => [] end).

(* Line::write_into_unterminated / write_into *)
Definition write_line_unterminated (l : line) : bytes :=
  match l with
  | LComment c => [59] ++ c
  | LNode n => write_node n
  end.
Definition write_line (l : line) : bytes := write_line_unterminated l ++ [10].

(* ---------- btor2.rs: the validating constructors (TryFrom<&str>) of the constants;
   the argument is the string as a list of chars (code points) ---------- *)
Inductive invalid_const := InvalidDigit (c : N) | EmptyConst.

Fixpoint first_bad (ok : N -> bool) (cs : list N) : option N :=
  match cs with [] => None | c :: r => if ok c then first_bad ok r else Some c end.

Definition is_bin_char (c : N) : bool := (c =? 48) || (c =? 49).
Definition is_dec_char (c : N) : bool := (48 <=? c) && (c <=? 57).
Definition is_hex_char (c : N) : bool :=
  ((48 <=? c) && (c <=? 57)) || ((97 <=? c) && (c <=? 102)) || ((65 <=? c) && (c <=? 70)).

Definition binary_const_try_from (cs : list N) : result const invalid_const :=
  match cs with
  | [] => Err EmptyConst
  | _ => match first_bad is_bin_char cs with Some c => Err (InvalidDigit c) | None => Ok (CBinary cs) end
  end.
Definition hex_const_try_from (cs : list N) : result const invalid_const :=
  match cs with
  | [] => Err EmptyConst
  | _ => match first_bad is_hex_char cs with Some c => Err (InvalidDigit c) | None => Ok (CHex cs) end
  end.
(* take(&mut first) && c == '-' || c.is_ascii_digit() *)
Definition decimal_const_try_from (cs : list N) : result const invalid_const :=
  match cs with
  | [] => Err EmptyConst
  | c :: r =>
      if (c =? 45) || is_dec_char c then
        match first_bad is_dec_char r with Some c' => Err (InvalidDigit c') | None => Ok (CDecimal cs) end
      else Err (InvalidDigit c)
  end.

(* ---------- token.rs as programs ---------- *)
Definition rbnd {A B} (m : PM (result A perr)) (f : A -> PM (result B perr)) : PM (result B perr) :=
  let* r := m in match r with Ok a => f a | Err e => pret (Err e) end.
Notation "'let?' x ':=' m 'in' k" := (rbnd m (fun x => k))
  (at level 200, x name, m at level 100, k at level 200, right associativity).
Notation "m ?;; k" := (rbnd m (fun _ => k)) (at level 199, right associativity).

(* a scan `while matches!(request_byte_at_offset(offset), Some(<p>)) { offset += 1 }` that also collects
   the bytes it walked over (they are what buf()[start..offset] / advance_with_buf(..) return later) *)
Fixpoint take_while (n : nat) (p : byte -> bool) (offset : N) (acc : bytes) : prog (N * bytes) :=
  match n with
  | O => NoFuel
  | S n' =>
      Peek offset (fun o =>
        match o with
        | Some b => if p b then take_while n' p (offset + 1) (b :: acc) else Ret (offset, rev acc)
        | None => Ret (offset, rev acc)
        end)
  end.

Definition one_byte (c : byte) : tok unit :=
  let* o := ppeek 0 in
  if match o with Some b => b =? c | None => false end then padvance 1 ;;;; tok_ok tt else tok_ft.

Section WithFuel.
Variable fuel : nat.

(* ascii_lowercase: the matched string is buf()[start..offset]; it is assembled here from the words
   the 8-byte steps returned (the fast path loaded them from those very buffer positions, the cold
   path peeked them) *)
Fixpoint ascii_lowercase (n : nat) (offset : N) (acc : bytes) : prog bytes :=
  match n with
  | O => NoFuel
  | S n' =>
      pbind (ascii_lowercase_u64 offset) (fun '(word, adv) =>
        let acc' := acc ++ le_bytes (N.to_nat adv) word in
        if adv <? 8 then Ret acc' else ascii_lowercase n' (offset + adv) acc')
  end.

(* node_token / sort_token *)
Definition keyword {A} (tbl : list (bytes * A)) : tok A :=
  let* matched := lift (ascii_lowercase fuel 0 []) in
  match lookup matched tbl with
  | None => tok_ft
  | Some t => padvance (nlen matched) ;;;; tok_ok t
  end.
Definition node_token : tok ntok := keyword node_keywords_b.
Definition sort_token : tok stok := keyword sort_keywords_b.

(* token::newline: one LF *)
Definition newline_tok : tok unit :=
  let* o := ppeek 0 in
  if match o with Some b => b =? 10 | None => false end
  then padvance 1 ;;;; line_at_offset 0 ;;;; tok_ok tt else tok_ft.

Definition space_tok : tok unit := one_byte 32.
Definition comment_start : tok unit := one_byte 59.
Definition required_space : PM (result unit perr) := or_unexpected space_tok.

(* token::skip_whitespace: spaces and line feeds *)
Fixpoint skip_ws_loop (n : nat) (offset : N) : PM N :=
  match n with
  | O => pnofuel
  | S n' =>
      let* o := ppeek offset in
      match o with
      | Some b =>
          if b =? 32 then skip_ws_loop n' (offset + 1)
          else if b =? 10 then line_at_offset (offset + 1) ;;;; skip_ws_loop n' (offset + 1)
          else pret offset
      | None => pret offset
      end
  end.
Definition skip_ws : PM unit := let* offset := skip_ws_loop fuel 0 in padvance offset.

(* token::uint: Ok value / Err (leading zero or does not fit u64; the digit string is not modelled) /
   Fallthrough.  `input.reader.buf()[0]` is the byte a peek at offset 0 returns (offset != 0: it is buffered) *)
Definition uint : PM (parsed N unit) :=
  pset_mark ;;;;
  let* r := lift (ascii_digits_multi fuel U64 0) in
  let '(value, offset) := r in
  if offset =? 0 then pret Fallthrough else
  let* b0 := ppeek 0 in
  if negb (match b0 with Some b => b =? 48 | None => false end) || (offset =? 1) then
    match value with
    | Some v => padvance offset ;;;; pret (Res (Ok (Z.to_N v)))
    | None => pret (Res (Err tt))
    end
  else pret (Res (Err tt)).

(* exceeds_count: give_up_at(mark) *)
Definition nonnegative_int : tok N := located uint give_up_at_mark.

(* positive_int; NonZeroU64::new(width).unwrap() *)
Definition positive_int : tok N :=
  let* o := ppeek 0 in
  if match o with Some b => b =? 48 | None => false end then tok_ft else
  let* r := located uint give_up_at_mark in
  match r with
  | Res (Ok v) => if v =? 0 then pcrash PUnwrap else tok_ok v
  | other => pret other
  end.

Definition required_positive_int : PM (result N perr) := or_unexpected positive_int.
Definition required_nonnegative_int : PM (result N perr) := or_unexpected nonnegative_int.
Definition required_node_id : PM (result N perr) := or_unexpected positive_int.
Definition required_sort_id : PM (result N perr) := or_unexpected positive_int.

(* token::comment_body *)
Definition comment_body : PM (result bytes perr) :=
  let* r := lift (take_while fuel (fun b => negb (b =? 10)) 0 []) in
  let '(offset, body) := r in
  let* o := ppeek offset in
  let* chk := (match o with
               | None => let* e := lift (TakeErr Ret) in
                         pret (match e with Some io => Err (EIo io) | None => Ok tt end)
               | Some _ => pret (Ok tt)
               end) in
  match chk with
  | Err e => pret (Err e)
  | Ok _ => padvance offset ;;;; pret (Ok body)
  end.

(* token::symbol_name *)
Definition symbol_name : tok bytes :=
  let* r := lift (take_while fuel (fun b => negb ((b =? 10) || (b =? 32))) 0 []) in
  let '(offset, name) := r in
  if offset =? 0 then tok_ft else padvance offset ;;;; tok_ok name.

(* hex_string / decimal_string / binary_string and the required_*_constant tokens *)
Definition is_hex_digit (b : byte) : bool :=
  ((48 <=? b) && (b <=? 57)) || ((97 <=? b) && (b <=? 102)) || ((65 <=? b) && (b <=? 70)).
Definition is_bin_digit (b : byte) : bool := (b =? 48) || (b =? 49).

Definition required_constant (scan : prog (N * bytes)) : PM (result bytes perr) :=
  let* r := lift scan in
  let '(matched, s) := r in
  if matched =? 0 then let* e := unexpected in pret (Err e)
  else padvance matched ;;;; pret (Ok s).

Definition hex_string : prog (N * bytes) := take_while fuel is_hex_digit 0 [].
Definition binary_string : prog (N * bytes) := take_while fuel is_bin_digit 0 [].
Definition decimal_string : prog (N * bytes) :=
  Peek 0 (fun o =>
    if match o with Some b => b =? 45 | None => false end
    then take_while fuel is_dig 1 [45] else take_while fuel is_dig 0 []).

Definition required_hex_constant := required_constant hex_string.
Definition required_decimal_constant := required_constant decimal_string.
Definition required_binary_constant := required_constant binary_string.

(* ---------- parser.rs ---------- *)
(* `for _ in 0..count { required_space?; node_buf.push(required_node_id?) }` *)
Fixpoint justice_loop (n : nat) (count : N) (acc : list N) : PM (result (list N) perr) :=
  if count =? 0 then pret (Ok (rev acc)) else
  match n with
  | O => pnofuel
  | S n' =>
      required_space ?;;
      let? condition := required_node_id in
      justice_loop n' (count - 1) (condition :: acc)
  end.

Definition value_body (vt : vtok) : PM (result valvariant perr) :=
  match vt with
  | VtConst => required_space ?;; let? s := required_binary_constant in pret (Ok (VConst (CBinary s)))
  | VtConstd => required_space ?;; let? s := required_decimal_constant in pret (Ok (VConst (CDecimal s)))
  | VtConsth => required_space ?;; let? s := required_hex_constant in pret (Ok (VConst (CHex s)))
  | VtOnes => pret (Ok (VConst COnes))
  | VtOne => pret (Ok (VConst COne))
  | VtZero => pret (Ok (VConst CZero))
  | VtInput => pret (Ok VInput)
  | VtState => pret (Ok VState)
  | VtExt x =>
      required_space ?;; let? a0 := required_node_id in
      required_space ?;; let? pad := required_nonnegative_int in
      pret (Ok (VOp (OUnary (ext_unary_op x pad) a0)))
  | VtSlice =>
      required_space ?;; let? a0 := required_node_id in
      required_space ?;; let? u := required_nonnegative_int in
      required_space ?;; let? l := required_nonnegative_int in
      pret (Ok (VOp (OUnary (UoSlice u l) a0)))
  | VtUnary u =>
      required_space ?;; let? a0 := required_node_id in
      pret (Ok (VOp (OUnary (tok_unary_op u) a0)))
  | VtBinary b =>
      required_space ?;; let? a0 := required_node_id in
      required_space ?;; let? a1 := required_node_id in
      pret (Ok (VOp (OBinary b a0 a1)))
  | VtTernary t =>
      required_space ?;; let? a0 := required_node_id in
      required_space ?;; let? a1 := required_node_id in
      required_space ?;; let? a2 := required_node_id in
      pret (Ok (VOp (OTernary t a0 a1 a2)))
  end.

Definition node_body (t : ntok) : PM (result nodevariant perr) :=
  match t with
  | NtSort =>
      required_space ?;;
      let? st := or_unexpected sort_token in
      match st with
      | StBitvec =>
          required_space ?;; let? width := required_positive_int in pret (Ok (NSort (SBitVec width)))
      | StArray =>
          required_space ?;; let? domain := required_sort_id in
          required_space ?;; let? codomain := required_sort_id in
          pret (Ok (NSort (SArray domain codomain)))
      end
  | NtAssign kind =>
      required_space ?;; let? asort := required_sort_id in
      required_space ?;; let? state := required_node_id in
      required_space ?;; let? value := required_node_id in
      pret (Ok (NAssign state asort kind value))
  | NtOutput kind =>
      required_space ?;; let? value := required_node_id in pret (Ok (NOutput kind value))
  | NtJustice =>
      required_space ?;; let? count := required_positive_int in
      let? nodes := justice_loop fuel count [] in
      pret (Ok (NJustice nodes))
  | NtValue vt =>
      required_space ?;; let? vsort := required_sort_id in
      let? variant := value_body vt in
      pret (Ok (NValue vsort variant))
  end.

(* the optional symbol and the optional comment start after a node: (symbol, a comment follows) *)
Definition node_trailer : PM (result (option bytes * bool) perr) :=
  let* sp := space_tok in
  match sp with
  | Res (Ok _) =>
      let* cs := comment_start in
      match cs with
      | Res (Ok _) => pret (Ok (None, true))
      | Res (Err e) => pret (Err e)
      | Fallthrough =>
          let* sy := symbol_name in
          match sy with
          | Res (Ok symbol) =>
              let* sp2 := space_tok in
              match sp2 with
              | Res (Ok _) => or_unexpected comment_start ?;; pret (Ok (Some symbol, true))
              | Res (Err e) => pret (Err e)
              | Fallthrough =>
                  let* nl := newline_tok in
                  match nl with
                  | Res (Ok _) => pret (Ok (Some symbol, false))
                  | Res (Err e) => pret (Err e)
                  | Fallthrough => let* e := unexpected in pret (Err e)
                  end
              end
          | Res (Err e) => pret (Err e)
          | Fallthrough => let* e := unexpected in pret (Err e)
          end
      end
  | Res (Err e) => pret (Err e)
  | Fallthrough =>
      let* nl := newline_tok in
      match nl with
      | Res (Ok _) => pret (Ok (None, false))
      | Res (Err e) => pret (Err e)
      | Fallthrough => let* e := unexpected in pret (Err e)
      end
  end.

(* Parser::try_node *)
Definition try_node : tok node :=
  let* id := positive_int in
  match id with
  | Res (Ok node_id) =>
      let* r := (required_space ?;;
                 let? nt := or_unexpected node_token in
                 let? variant := node_body nt in
                 let? tr := node_trailer in
                 let '(symbol, cmt) := tr in
                 pret (Ok {| n_id := node_id; n_variant := variant; n_symbol := symbol;
                             n_comment := if cmt then Some [] else None |})) in
      pret (Res r)
  | Res (Err e) => tok_err e
  | Fallthrough => tok_ft
  end.

(* Parser::next_line *)
Definition next_line : PM (result (option line) perr) :=
  skip_ws ;;;;
  let* tn := try_node in
  let* first := (match tn with
                 | Res (Ok nd) => pret (Ok (Some (LNode nd)))
                 | Res (Err e) => pret (Err e)
                 | Fallthrough =>
                     let* c := comment_start in
                     match c with
                     | Res (Ok _) => pret (Ok (Some (LComment [])))
                     | Res (Err e) => pret (Err e)
                     | Fallthrough =>
                         let* ef := teof in
                         match ef with
                         | Res (Ok _) => pret (Ok None)
                         | Res (Err e) => pret (Err e)
                         | Fallthrough => let* e := unexpected in pret (Err e)
                         end
                     end
                 end) in
  match first with
  | Err e => pret (Err e)
  | Ok None =>
      let* io := lift (TakeErr Ret) in
      pret (match io with Some e => Err (EIo e) | None => Ok None end)
  | Ok (Some l) =>
      if has_comment l then let? body := comment_body in pret (Ok (Some (update_comment l body)))
      else pret (Ok (Some l))
  end.

(* driving the parser to its final result *)
Fixpoint drive_lines (n : nat) (acc : list line) : PM (list line * final) :=
  match n with
  | O => pnofuel
  | S n' =>
      let* r := next_line in
      match r with
      | Ok (Some l) => drive_lines n' (l :: acc)
      | Ok None => pret (rev acc, FOk)
      | Err e => pret (rev acc, FErr e)
      end
  end.

(* Parser::new does not touch the reader *)
Definition parse_btor2 : PM (list line * final) := drive_lines fuel [].

End WithFuel.
