(* RoundTrip.v — number-level round trips (C03): the text the integer writer produces is read back
   exactly by the digit scanners, whatever non-digit follows it. *)
From Flussab Require Import Base Reader Writer Prog Text TextSpec ProgProofs ScanProofs DecimalProofs DigitsProofs.
Ltac Zify.zify_post_hook ::= Z.to_euclidean_division_equations.

Lemma is_digit_is_dig l : forallb is_digit l = true -> forallb is_dig l = true.
Proof. intros H. exact H. Qed.

Lemma undec_dec_val l : undec l = dec_val l.
Proof. reflexivity. Qed.

(* the next byte does not continue the numeral *)
Definition no_digit_ahead (rest : bytes) : Prop := digit_prefix rest = [].

Lemma digit_prefix_written ds rest :
  forallb is_digit ds = true -> no_digit_ahead rest -> digit_prefix (ds ++ rest) = ds.
Proof.
  intros Hd Hr. rewrite (digit_prefix_app_all ds rest (is_digit_is_dig _ Hd)). rewrite Hr. apply app_nil_r.
Qed.

Lemma decimal_N_nonempty n : decimal_N n <> [].
Proof.
  pose proof (decimal_N_canonical n) as (Hu & _ & Hz & Hnz & _).
  destruct (N.eq_dec n 0) as [->|Hn]; [rewrite (Hz eq_refl); discriminate|].
  intros E. rewrite E in Hu. cbn in Hu. lia.
Qed.

Lemma decimal_N_head_digit n : match decimal_N n with b :: _ => (b =? 45) = false | [] => False end.
Proof.
  pose proof (decimal_N_canonical n) as (_ & Hd & _). pose proof (decimal_N_nonempty n) as Hne.
  destruct (decimal_N n) as [|b r]; [congruence|]. cbn [forallb] in Hd. apply andb_prop in Hd. destruct Hd as [Hd _].
  unfold is_digit in Hd. apply andb_prop in Hd. destruct Hd as [H1 _]. apply N.leb_le in H1. apply N.eqb_neq. lia.
Qed.

(* unsigned scanners: every non-negative value that fits the type *)
Theorem unsigned_reads_written t z rest :
  (0 <= z)%Z -> in_range t z = true -> no_digit_ahead rest ->
  unsigned_spec t (decimal z ++ rest) = (Some z, nlen (decimal z)).
Proof.
  intros Hz Hr Hrest. assert (Hd : decimal z = decimal_N (Z.to_N z)) by (destruct z; [reflexivity|reflexivity|lia]).
  rewrite Hd. pose proof (decimal_N_canonical (Z.to_N z)) as (Hu & Hdig & _).
  unfold unsigned_spec. rewrite (digit_prefix_written _ _ Hdig Hrest). rewrite <- undec_dec_val, Hu.
  rewrite Z2N.id by exact Hz. unfold from_prim. rewrite Hr. reflexivity.
Qed.

(* signed scanners: every value that fits the type, negative ones included *)
Theorem signed_reads_written t z rest :
  in_range t z = true -> no_digit_ahead rest ->
  signed_spec t (decimal z ++ rest) = (Some z, nlen (decimal z)).
Proof.
  intros Hr Hrest. destruct z as [|p|p].
  - rewrite signed_spec_plain; [apply unsigned_reads_written; [lia|exact Hr|exact Hrest]|].
    cbn [decimal Z.to_N]. pose proof (decimal_N_head_digit 0) as H. destruct (decimal_N 0); [contradiction|exact H].
  - rewrite signed_spec_plain; [apply unsigned_reads_written; [lia|exact Hr|exact Hrest]|].
    cbn [decimal Z.to_N]. pose proof (decimal_N_head_digit (N.pos p)) as H.
    destruct (decimal_N (N.pos p)); [contradiction|exact H].
  - cbn [decimal app signed_spec]. change (45 =? 45) with true. cbn match.
    pose proof (decimal_N_canonical (N.pos p)) as (Hu & Hdig & _).
    rewrite (digit_prefix_written _ _ Hdig Hrest).
    pose proof (decimal_N_nonempty (N.pos p)) as Hne.
    destruct (decimal_N (N.pos p)) as [|d ds] eqn:E; [congruence|].
    rewrite <- undec_dec_val, Hu. unfold from_prim. change (- Z.of_N (N.pos p))%Z with (Z.neg p). rewrite Hr.
    f_equal. unfold nlen. cbn [length]. lia.
Qed.

(* ... hence every admissible run of the accelerated scanners — whatever happens to be buffered — returns the
   written value and the offset just behind it *)
Theorem signed_scanner_reads_written fuel t v z rest r :
  ity_signed t = true -> WFV v -> BytesOK v ->
  rest_at v 0 = decimal z ++ rest -> in_range t z = true -> no_digit_ahead rest ->
  (length (digit_prefix (rest_at v 0)) < fuel)%nat -> (length (digit_prefix (rest_at v (0 + 1))) < fuel)%nat ->
  aruns (signed_ascii_digits_multi fuel t 0) v r ->
  exists v', r = ADone (Some z, nlen (decimal z)) v'.
Proof.
  intros Hs Hw Hb Hrest Hr Hn Hf Hf1 Hrun.
  destruct (signed_ascii_digits_multi_spec fuel t 0 v r Hs Hw Hb Hf Hf1 Hrun) as (v' & -> & _).
  exists v'. rewrite Hrest, (signed_reads_written t z rest Hr Hn). cbn [fst snd]. rewrite N.add_0_l. reflexivity.
Qed.

Theorem unsigned_scanner_reads_written fuel t v z rest r :
  WFV v -> BytesOK v -> (0 <= z)%Z ->
  rest_at v 0 = decimal z ++ rest -> in_range t z = true -> no_digit_ahead rest ->
  (length (digit_prefix (rest_at v 0)) < fuel)%nat ->
  aruns (ascii_digits_multi fuel t 0) v r ->
  exists v', r = ADone (Some z, nlen (decimal z)) v'.
Proof.
  intros Hw Hb Hz Hrest Hr Hn Hf Hrun.
  destruct (ascii_digits_multi_spec fuel t 0 v r Hw Hb Hf Hrun) as (v' & -> & _).
  exists v'. rewrite Hrest, (unsigned_reads_written t z rest Hz Hr Hn). cbn [fst snd]. rewrite N.add_0_l. reflexivity.
Qed.

(* layout facts about numerals (C07): leading zeros do not change the value, "-0" is 0 *)
Lemma dec_val_leading_zero l : dec_val (48 :: l) = dec_val l.
Proof. unfold dec_val. cbn [fold_left]. unfold dec_step at 2. reflexivity. Qed.

Lemma dec_val_leading_zeros k l : dec_val (repeat 48 k ++ l) = dec_val l.
Proof. induction k as [|k IH]; cbn [repeat app]; [reflexivity|]. rewrite dec_val_leading_zero. exact IH. Qed.

Lemma signed_spec_minus_zero t rest : no_digit_ahead rest -> signed_spec t (45 :: 48 :: rest) = (Some 0%Z, 2).
Proof.
  intros Hn. cbn [signed_spec]. change (45 =? 45) with true. cbn match. cbn [digit_prefix].
  change (is_dig 48) with true. cbn match. rewrite Hn. unfold dec_val. cbn [fold_left]. unfold dec_step. cbn.
  rewrite from_prim_0. reflexivity.
Qed.
