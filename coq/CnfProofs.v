(* CnfProofs.v — the DIMACS-family parser programs are answer-insensitive: every admissible
   abstract run of a parse, whatever the fast-path tests answer, yields the same items and the
   same final outcome.  With Simulation.v this is C01 for cnf / wcnf / gcnf / solver logs. *)
From Flussab Require Import Base Reader Writer Parsed Prog Text TextSpec ProgProofs ScanProofs DigitsProofs Consts Cnf.

Section Det.
Variable fuel : nat.

Lemma rest_len v off : (length (digit_prefix (rest_at v off)) <= length (vS v))%nat.
Proof.
  pose proof (digit_prefix_le (rest_at v off)). unfold rest_at, nskipn in *. rewrite skipn_length in H. lia.
Qed.

Lemma rest_at_core v1 v2 off : core v1 = core v2 -> rest_at v1 off = rest_at v2 off.
Proof. intros H. destruct (core_eq _ _ H) as (a1 & _ & a3 & _). unfold rest_at. rewrite a1, a3. reflexivity. Qed.

Lemma core_after_core v1 v2 m1 m2 : core v1 = core v2 -> m1 = m2 -> core_after v1 m1 = core_after v2 m2.
Proof.
  intros H ->. destruct (core_eq _ _ H) as (a1 & a2 & a3 & a4 & a5 & a6).
  unfold core_after. rewrite a1, a2, a3, a4, a5, a6. reflexivity.
Qed.

Lemma CoreDet_multi t off : CoreDet fuel (ascii_digits_multi fuel t off).
Proof.
  intros v1 v2 r1 r2 Hc Hw1 Hw2 Hb Hlen H1 H2.
  destruct (core_eq _ _ Hc) as (a1 & _ & a3 & _).
  assert (Hb2 : BytesOK v2) by (unfold BytesOK; rewrite <- a1; exact Hb).
  destruct (ascii_digits_multi_spec fuel t off v1 r1 Hw1 Hb) as (w1 & -> & C1); [pose proof (rest_len v1 off); lia|exact H1|].
  destruct (ascii_digits_multi_spec fuel t off v2 r2 Hw2 Hb2) as (w2 & -> & C2);
    [pose proof (rest_len v2 off) as Hrl; rewrite <- a1 in Hrl; lia|exact H2|].
  cbn [agree]. rewrite (rest_at_core v1 v2 off Hc). split; [reflexivity|].
  rewrite C1, C2. apply core_after_core; [exact Hc|]. rewrite (rest_at_core v1 v2 off Hc), a3. reflexivity.
Qed.

Lemma CoreDet_smulti t off : ity_signed t = true -> CoreDet fuel (signed_ascii_digits_multi fuel t off).
Proof.
  intros Hs v1 v2 r1 r2 Hc Hw1 Hw2 Hb Hlen H1 H2.
  destruct (core_eq _ _ Hc) as (a1 & _ & a3 & _).
  assert (Hb2 : BytesOK v2) by (unfold BytesOK; rewrite <- a1; exact Hb).
  destruct (signed_ascii_digits_multi_spec fuel t off v1 r1 Hs Hw1 Hb) as (w1 & -> & C1);
    [pose proof (rest_len v1 off); lia|pose proof (rest_len v1 (off + 1)); lia|exact H1|].
  destruct (signed_ascii_digits_multi_spec fuel t off v2 r2 Hs Hw2 Hb2) as (w2 & -> & C2);
    [pose proof (rest_len v2 off) as Hrl; rewrite <- a1 in Hrl; lia|pose proof (rest_len v2 (off + 1)) as Hrl; rewrite <- a1 in Hrl; lia|exact H2|].
  cbn [agree]. rewrite (rest_at_core v1 v2 off Hc). split; [reflexivity|].
  rewrite C1, C2. apply core_after_core; [exact Hc|]. rewrite (rest_at_core v1 v2 off Hc), a3. reflexivity.
Qed.

(* programs threading the LineReader fields *)
Definition PDet {A} (m : PM A) : Prop := forall s, CoreDet fuel (m s).

Lemma PDet_pret {A} (a : A) : PDet (pret a).
Proof. intros s. apply det_CoreDet. exact I. Qed.

Lemma PDet_pbnd {A B} (m : PM A) (f : A -> PM B) : PDet m -> (forall a, PDet (f a)) -> PDet (pbnd m f).
Proof.
  intros Hm Hf s. unfold pbnd. apply CoreDet_bind; [apply Hm|]. intros [a s']. apply Hf.
Qed.

Lemma PDet_lift {A} (p : prog A) : CoreDet fuel p -> PDet (lift p).
Proof. intros Hp s. unfold lift. apply CoreDet_bind; [exact Hp|]. intros a. apply det_CoreDet. exact I. Qed.

Lemma PDet_lift_det {A} (p : prog A) : det p -> PDet (lift p).
Proof. intros Hd. apply PDet_lift. apply det_CoreDet. exact Hd. Qed.

Lemma PDet_det {A} (m : PM A) : (forall s, det (m s)) -> PDet m.
Proof. intros H s. apply det_CoreDet. apply H. Qed.

Hint Resolve det_tabs_or_spaces det_newline det_next_newline det_fixed_from : pdet.

Ltac pdet_leaf :=
  first
    [ apply PDet_pret
    | apply PDet_lift_det; first [ apply det_tabs_or_spaces | apply det_newline | apply det_next_newline
                                 | apply det_fixed_from | (cbn [det]; intros; exact I) ]
    | (apply PDet_det; intros ?; cbn [det]; intros; exact I) ].

Ltac pdet :=
  repeat first
    [ progress intros
    | solve [auto with pdet nocore]
    | pdet_leaf
    | apply PDet_pbnd
    | match goal with
      | |- PDet (match ?x with _ => _ end) => destruct x
      | |- PDet (if ?x then _ else _) => destruct x
      | |- PDet (let '(_, _) := ?x in _) => destruct x
      end ].

Lemma PDet_ppeek k : PDet (ppeek k). Proof. unfold ppeek. pdet. Qed.
Lemma PDet_padvance n : PDet (padvance n). Proof. unfold padvance. pdet. Qed.
Lemma PDet_pset_mark : PDet pset_mark. Proof. unfold pset_mark. pdet. Qed.
Lemma PDet_get_lrs : PDet get_lrs. Proof. apply PDet_det. intros s. exact I. Qed.
Lemma PDet_set_lrs s' : PDet (set_lrs s'). Proof. apply PDet_det. intros s. exact I. Qed.
Lemma PDet_pcrash {A} k : PDet (@pcrash A k). Proof. apply PDet_det. intros s. exact I. Qed.
Lemma PDet_pnofuel {A} : PDet (@pnofuel A). Proof. apply PDet_det. intros s. exact I. Qed.

Hint Resolve PDet_ppeek PDet_padvance PDet_pset_mark PDet_get_lrs PDet_set_lrs @PDet_pcrash @PDet_pnofuel : pdet.

Ltac pd := repeat first [ solve [auto with pdet] | pdet ].

Lemma PDet_line_at_offset off : PDet (line_at_offset off).
Proof. unfold line_at_offset. pd. Qed.
Hint Resolve PDet_line_at_offset : pdet.

Lemma PDet_give_up_at pos : PDet (give_up_at pos).
Proof. unfold give_up_at. pd. Qed.
Hint Resolve PDet_give_up_at : pdet.

Lemma PDet_give_up : PDet give_up.
Proof. unfold give_up. pd. Qed.
Lemma PDet_give_up_at_mark : PDet give_up_at_mark.
Proof. unfold give_up_at_mark. pd. Qed.
Hint Resolve PDet_give_up PDet_give_up_at_mark : pdet.

Lemma PDet_word pat : PDet (word fuel pat).
Proof. unfold word, tok_ft, tok_ok. pd. Qed.
Lemma PDet_tfixed pat : PDet (tfixed pat).
Proof. unfold tfixed, tok_ft, tok_ok. pd. Qed.
Hint Resolve PDet_word PDet_tfixed : pdet.

Lemma PDet_number sg t : (sg = true -> ity_signed t = true) -> PDet (number fuel sg t).
Proof.
  intros Hs. unfold number. apply PDet_pbnd.
  - destruct sg; apply PDet_lift; [apply CoreDet_smulti; auto|apply CoreDet_multi].
  - intros [value offset]. pd.
Qed.

Lemma PDet_braced_uint t : PDet (braced_uint fuel t).
Proof.
  unfold braced_uint. apply PDet_pbnd; [pd|]. intros o.
  destruct (match o with Some b => b =? 123 | None => false end); [|pd].
  apply PDet_pbnd; [apply PDet_lift; apply CoreDet_multi|]. intros [value offset]. pd.
Qed.
Hint Resolve PDet_braced_uint : pdet.

Lemma PDet_comment : PDet (comment fuel).
Proof. unfold comment, tok_ft, tok_ok. pd. Qed.
Lemma PDet_interactive_strict_comment : PDet (interactive_strict_comment fuel).
Proof. unfold interactive_strict_comment, tok_ft, tok_ok. pd. Qed.
Lemma PDet_interactive_skip_line : PDet (interactive_skip_line fuel).
Proof. unfold interactive_skip_line, tok_ft, tok_ok. pd. Qed.
Lemma PDet_tnewline b : PDet (tnewline fuel b).
Proof. unfold tnewline, tok_ft, tok_ok. pd. Qed.
Lemma PDet_teof : PDet teof.
Proof. unfold teof, tok_ft, tok_ok. pd. Qed.
Hint Resolve PDet_comment PDet_interactive_strict_comment PDet_interactive_skip_line PDet_tnewline PDet_teof : pdet.

Lemma PDet_interactive_end_of_line : PDet (interactive_end_of_line fuel).
Proof. unfold interactive_end_of_line. pd. Qed.
Lemma PDet_skip_whitespace : PDet (skip_whitespace fuel).
Proof. unfold skip_whitespace. pd. Qed.
Hint Resolve PDet_interactive_end_of_line PDet_skip_whitespace : pdet.

Lemma PDet_unexpected_scan n : forall len, PDet (unexpected_scan n len).
Proof. induction n as [|n IH]; intros len; cbn [unexpected_scan]; pd. Qed.
Hint Resolve PDet_unexpected_scan : pdet.

Lemma PDet_unexpected : PDet unexpected.
Proof. unfold unexpected. pd. Qed.
Hint Resolve PDet_unexpected : pdet.

Lemma PDet_or_unexpected {A} (t : tok A) : PDet t -> PDet (or_unexpected t).
Proof. intros H. unfold or_unexpected. pd. Qed.

Lemma PDet_located {A} (n : PM (parsed A unit)) (err : PM perr) : PDet n -> PDet err -> PDet (located n err).
Proof. intros H1 H2. unfold located, tok_ok, tok_err, tok_ft. pd. Qed.

Lemma PDet_matches_tok {A} (t : tok A) : PDet t -> PDet (matches_tok t).
Proof. intros H. unfold matches_tok. pd. Qed.

Lemma PDet_var_count maxd : PDet (var_count fuel maxd).
Proof.
  unfold var_count, tok_ok, tok_err. apply PDet_pbnd; [pd|]. intros _.
  apply PDet_pbnd; [apply PDet_located; [apply PDet_number; discriminate|pd]|]. pd.
Qed.
Lemma PDet_uint_count t : PDet (uint_count fuel t).
Proof.
  unfold uint_count. apply PDet_pbnd; [pd|]. intros _. apply PDet_located; [apply PDet_number; discriminate|pd].
Qed.
Lemma PDet_clause_group limit : PDet (clause_group fuel limit).
Proof.
  unfold clause_group, tok_ok, tok_err. apply PDet_pbnd; [pd|]. intros _.
  apply PDet_pbnd; [apply PDet_located; pd|]. pd.
Qed.
Lemma PDet_lit_tok : PDet (lit_tok fuel).
Proof. unfold lit_tok. apply PDet_located; [apply PDet_number; reflexivity|pd]. Qed.
Hint Resolve PDet_var_count PDet_uint_count PDet_clause_group PDet_lit_tok : pdet.

Lemma PDet_skip_comments_and_newlines n : PDet (skip_comments_and_newlines fuel n).
Proof. induction n as [|n IH]; cbn [skip_comments_and_newlines]; pd. Qed.
Hint Resolve PDet_skip_comments_and_newlines : pdet.

Lemma PDet_non_terminating_linebreaks : PDet (non_terminating_linebreaks fuel).
Proof. unfold non_terminating_linebreaks. apply PDet_pbnd; [apply PDet_matches_tok; pd|]. pd. Qed.
Hint Resolve PDet_non_terminating_linebreaks : pdet.

Lemma PDet_clause_lits_loop n : forall limit lit acc, PDet (clause_lits_loop fuel n limit lit acc).
Proof.
  induction n as [|n IH]; intros limit lit acc; cbn [clause_lits_loop]; [pd|].
  destruct (lit =? 0)%Z; [pd|]. destruct ((- limit <=? lit) && (lit <=? limit))%Z; [|pd].
  apply PDet_pbnd; [pd|]. intros _. apply PDet_pbnd; [pd|]. intros [[next|e]|]; [apply IH|pd|].
  apply PDet_pbnd; [pd|]. intros [[|]|e]; [|pd|pd].
  apply PDet_pbnd; [pd|]. intros _. apply PDet_pbnd; [apply PDet_or_unexpected; pd|]. intros [next|e]; [apply IH|pd].
Qed.
Hint Resolve PDet_clause_lits_loop : pdet.

Lemma PDet_clause_lits limit : PDet (clause_lits fuel limit).
Proof. unfold clause_lits, tok_err, tok_ft. pd. Qed.
Hint Resolve PDet_clause_lits : pdet.

Lemma PDet_header_skip n : PDet (header_skip fuel n).
Proof.
  induction n as [|n IH]; cbn [header_skip]; [pd|].
  apply PDet_pbnd; [apply PDet_matches_tok; pd|]. intros [[|]|e]; [exact IH| |pd].
  apply PDet_pbnd; [apply PDet_matches_tok; pd|]. intros [[|]|e]; [exact IH|pd|pd].
Qed.
Hint Resolve PDet_header_skip : pdet.

Lemma PDet_parse_header k maxd : PDet (parse_header fuel k maxd).
Proof.
  unfold parse_header. apply PDet_pbnd; [pd|]. intros _. apply PDet_pbnd; [pd|]. intros [_|e]; [|pd].
  apply PDet_pbnd; [pd|]. intros [[_|e]|]; [|pd|pd].
  apply PDet_pbnd; [apply PDet_or_unexpected; pd|]. intros [_|e]; [|pd].
  apply PDet_pbnd; [apply PDet_or_unexpected; pd|]. intros [vars|e]; [|pd].
  apply PDet_pbnd; [apply PDet_or_unexpected; pd|]. intros [clauses|e]; [|pd].
  apply PDet_pbnd; [destruct k; [pd|apply PDet_or_unexpected; pd|apply PDet_or_unexpected; pd]|]. intros [extra|e]; [|pd].
  apply PDet_pbnd; [apply PDet_or_unexpected; pd|]. pd.
Qed.
Hint Resolve PDet_parse_header : pdet.

Lemma PDet_parser_new k maxd ih : PDet (parser_new fuel k maxd ih).
Proof. unfold parser_new. pd. Qed.

Lemma PDet_clause_tok k st : PDet (clause_tok fuel k st).
Proof.
  unfold clause_tok, tok_ok, tok_err, tok_ft. destruct k.
  - apply PDet_pbnd; [pd|]. intros [[ls|e]|]; [|pd|pd]. apply PDet_pbnd; [apply PDet_or_unexpected; pd|]. pd.
  - apply PDet_pbnd; [pd|]. intros [[pre|e]|]; [|pd|pd]. apply PDet_pbnd; [pd|]. intros [_|e]; [|pd].
    apply PDet_pbnd; [apply PDet_or_unexpected; pd|]. intros [ls|e]; [|pd].
    apply PDet_pbnd; [apply PDet_or_unexpected; pd|]. pd.
  - apply PDet_pbnd; [pd|]. intros [[pre|e]|]; [|pd|pd]. apply PDet_pbnd; [pd|]. intros [_|e]; [|pd].
    apply PDet_pbnd; [apply PDet_or_unexpected; pd|]. intros [ls|e]; [|pd].
    apply PDet_pbnd; [apply PDet_or_unexpected; pd|]. pd.
Qed.
Hint Resolve PDet_clause_tok : pdet.

Lemma PDet_next_clause_loop n : forall k st, PDet (next_clause_loop fuel n k st).
Proof.
  induction n as [|n IH]; intros k st; cbn [next_clause_loop]; [pd|].
  apply PDet_pbnd; [destruct (_ || _); pd|]. intros [[item|e]|]; [pd|pd|].
  apply PDet_pbnd; [apply PDet_matches_tok; pd|]. intros [[|]|e]; [apply IH| |pd].
  apply PDet_pbnd; [apply PDet_matches_tok; pd|]. intros [[|]|e]; [apply IH| |pd].
  destruct (_ || _); [|pd]. apply PDet_pbnd; [apply PDet_matches_tok; pd|]. pd.
Qed.
Hint Resolve PDet_next_clause_loop : pdet.

Lemma PDet_next_clause k st : PDet (next_clause fuel k st).
Proof. unfold next_clause. pd. Qed.
Hint Resolve PDet_next_clause : pdet.

Lemma PDet_drive n : forall k st acc, PDet (drive fuel n k st acc).
Proof.
  induction n as [|n IH]; intros k st acc; cbn [drive]; [pd|].
  apply PDet_pbnd; [pd|]. intros [[[item|]|e] st']; [apply IH|pd|pd].
Qed.

(* C01 for the DIMACS family: the whole parse is answer-insensitive *)
Theorem PDet_parse_dimacs k maxd ih : PDet (parse_dimacs fuel k maxd ih).
Proof.
  unfold parse_dimacs. apply PDet_pbnd; [apply PDet_parser_new|]. intros [st|e]; [|pd].
  apply PDet_pbnd; [apply PDet_drive|]. pd.
Qed.

Lemma PDet_strict_comments n : PDet (strict_comments fuel n).
Proof.
  induction n as [|n IH]; cbn [strict_comments]; [pd|].
  apply PDet_pbnd; [apply PDet_matches_tok; pd|]. intros [[|]|e]; [exact IH|pd|pd].
Qed.
Hint Resolve PDet_strict_comments : pdet.

Lemma PDet_value_lits n : forall maxd acc, PDet (value_lits fuel n maxd acc).
Proof.
  induction n as [|n IH]; intros maxd acc; cbn [value_lits]; [pd|].
  apply PDet_pbnd; [pd|]. intros _. apply PDet_pbnd; [pd|]. intros [[lit|e]|]; [|pd|pd].
  destruct (lit =? 0)%Z; [pd|]. destruct ((- maxd <=? lit) && (lit <=? maxd))%Z; [apply IH|pd].
Qed.
Hint Resolve PDet_value_lits : pdet.

Lemma PDet_status_tok : PDet (status_tok fuel).
Proof.
  unfold status_tok, tok_ok, tok_err, tok_ft. apply PDet_pbnd; [pd|]. intros s.
  apply PDet_pbnd.
  - destruct s as [[_|e]|]; [pd|pd|]. apply PDet_pbnd; [pd|]. intros [[_|e]|]; [pd|pd|]. pd.
  - intros [[v|e]|]; [|pd|pd]. apply PDet_pbnd; [apply PDet_or_unexpected; pd|]. pd.
Qed.
Hint Resolve PDet_status_tok : pdet.

Lemma PDet_log_loop n : forall maxd iu st, PDet (log_loop fuel n maxd iu st).
Proof.
  induction n as [|n IH]; intros maxd iu st; cbn [log_loop]; [pd|].
  apply PDet_pbnd; [pd|]. intros [_|e]; [|pd].
  apply PDet_pbnd; [destruct (finished st); [pd|apply PDet_matches_tok; pd]|]. intros [[|]|e]; [| |pd].
  - apply PDet_pbnd; [pd|]. intros _. apply PDet_pbnd; [pd|]. intros [[a fin]|e]; [|pd].
    apply PDet_pbnd; [apply PDet_or_unexpected; pd|]. intros [_|e]; [apply IH|pd].
  - apply PDet_pbnd; [destruct (sat st); [pd|apply PDet_matches_tok; pd]|]. intros [[|]|e]; [| |pd].
    + apply PDet_pbnd; [apply PDet_or_unexpected; pd|]. intros [v|e]; [apply IH|pd].
    + apply PDet_pbnd; [apply PDet_matches_tok; pd|]. intros [[|]|e]; [| |pd].
      * destruct (started st && negb (finished st)); pd.
      * apply PDet_pbnd; [destruct iu; [apply PDet_matches_tok; pd|pd]|]. intros [[|]|e]; [apply IH|pd|pd].
Qed.

Theorem PDet_parse_log maxd iu : PDet (parse_log fuel maxd iu).
Proof. unfold parse_log. apply PDet_log_loop. Qed.

End Det.
