#!/usr/bin/env python3
"""Prints the markdown table of seeded changes from seeded/*/meta.json (pasted into DESIGN.md 8.5)."""
import glob, json, os
ROOT = os.path.dirname(os.path.dirname(os.path.abspath(__file__)))
print("| seed | changed | detected by | concrete input | first report |")
print("|------|---------|-------------|----------------|--------------|")
for d in sorted(glob.glob(os.path.join(ROOT, "seeded", "C*-[mrstuv]*"))):
    m = json.load(open(os.path.join(d, "meta.json")))
    files = sorted({l[6:].strip() for l in open(os.path.join(d, "patch.diff")) if l.startswith("+++ b/")})
    det = m.get("detected_by") or {}
    print("| %s | %s | %s | %s | %s |" % (m["id"], ", ".join(f.split("/")[-1] for f in files),
          (det.get("check", "") if det.get("detected") else "**not detected**"),
          "yes" if det.get("concrete_input_found") else ("—" if not det.get("detected") else "no (correspondence/proof only)"),
          (det.get("first_report", "") or "").replace("|", "/")[:110]))
