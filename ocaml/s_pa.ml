(* s_pa.ml — stream "pa": a whole parse on the DeferredReader model (DIMACS family and solver log).
   case:  pa <parser> <ty> <flags> <datahex> <events> <pre> <chunk> <ctor>
   trace: <items ';'-separated> => <final> | calls=<n>                                            *)
open Model
open Util

let max_dimacs (ty : string) : z =
  match ty with
  | "i8" -> max_dimacs_i8 | "i16" -> max_dimacs_i16 | "i32" -> max_dimacs_i32
  | "i64" -> max_dimacs_i64 | "isize" -> max_dimacs_isize
  | _ -> failwith ("bad DIMACS type " ^ ty)

let lits (l : z list) : string = "[" ^ String.concat "," (List.map str_of_zz l) ^ "]"

let show_perr (e : perr) : string =
  match e with
  | ESyntax (l, c) -> Printf.sprintf "E(%s,%s)" (str_of_n l) (str_of_n c)
  | EIo e -> "IO(e" ^ str_of_n e ^ ")"

let show_final (f : final) : string = match f with FOk -> "ok" | FErr e -> show_perr e

let finish (items : string list) (fin : string) (s : rstate) : string =
  Printf.sprintf "%s => %s | calls=%s" (String.concat ";" items) fin (str_of_n s.g_calls)

let of_cres (r : 'a cres) (k : 'a -> rstate -> string) : string =
  match r with
  | CDone (a, s) -> k a s
  | CPanic (p, s) -> finish [] ("PANIC(" ^ S_rd.show_panic p ^ ")") s
  | CUB -> "UB"
  | CFuel -> "FUEL"

let run (toks : string list) : string =
  match toks with
  | [parser; ty; flags; datahex; evs; pre; chunk; ctor] ->
      let pre = if ctor = "f" then pre else "0" in
      let s0 = reader_init (S_rd.mk_source datahex evs pre) in
      let (s1, _) = step s0 (OSetChunk (n_of_str chunk)) in
      let fuel = nat_of_int (String.length datahex / 2 + 10) in
      let has c = String.contains flags c in
      let maxd = max_dimacs ty in
      (match parser with
       | "cnf" | "wcnf" | "gcnf" ->
           let k = (match parser with "cnf" -> KCnf | "wcnf" -> KWcnf | _ -> KGcnf) in
           let r = crun (parse_dimacs fuel k maxd (has 'h') lrs_init) s1 in
           of_cres r (fun (((hdr, items), fin), _) s ->
             let hitem = (match hdr with
               | None -> []
               | Some None -> ["H-"]
               | Some (Some h) ->
                   (match k with
                    | KCnf -> [Printf.sprintf "H(%s,%s)" (str_of_zz h.h_vars) (str_of_zz h.h_clauses)]
                    | _ -> [Printf.sprintf "H(%s,%s,%s)" (str_of_zz h.h_vars) (str_of_zz h.h_clauses) (str_of_zz h.h_extra)])) in
             let citems = List.map (fun (p, ls) ->
               match k with
               | KCnf -> lits ls
               | KWcnf -> str_of_zz p ^ ":" ^ lits ls
               | KGcnf -> "{" ^ str_of_zz p ^ "}" ^ lits ls) items in
             finish (hitem @ citems) (show_final fin) s)
       | "log" ->
           let r = crun (parse_log fuel maxd (has 'u') lrs_init) s1 in
           of_cres r (fun (res, _) s ->
             match res with
             | Ok (sat, a) ->
                 finish [Printf.sprintf "sat=%s a=%s" (match sat with Some true -> "T" | Some false -> "F" | None -> "N") (lits a)] "ok" s
             | Err e -> finish [] (show_perr e) s)
       | _ -> failwith ("parser not modelled: " ^ parser))
  | _ -> failwith "pa: expected 8 fields"
