"""Per-property configuration of the orchestrator (tools/check.py)."""

TRUSTED_BASE = [
    "Coq 8.16.1 kernel (coqc, full .vo builds); vm_compute used for finite sweeps and witnesses; no native_compute",
    "no axioms declared by the development (grep + Print Assumptions allowlist on every run)",
    "tools/translate.py copies constants/tables from /repo into coq/Gen/*.v (aborts on unexpected source shape)",
    "Coq extraction with ExtrOcamlBasic only (nat/positive/N/Z stay inductive), OCaml 4.13.1 + zarith for printing",
    "ocaml/driver.ml and harness/ (Rust) canonicalise traces identically; tools/check.py diffs them",
    "hand-written Gallina model of the Rust code, validated differentially on every run (not verified against rustc semantics)",
]

PROPS = {
    "C15": {
        "streams": [
            {"name": "c15", "module": "c15", "quick": 0, "thorough": 0, "exhaustive": True,
             "profiles": ["debug", "release"]},
        ],
        "rule": "every combinator x every input case (Ok/Err/Fallthrough, two payloads each) x every closure outcome; "
                "a case is non-trivial when the input case is the one that makes the closure run",
        "theorems_note": "Props/C15.v: one theorem per combinator, for all types, inputs and closures (closures in a call-log monad)",
        "assumes": ["Rust closures are modelled as functions into a call-log writer monad; From<E> conversion is a logged function"],
    },
    "C02": {
        "streams": [
            {"name": "rd", "module": "rd", "quick": 3000, "thorough": 60000, "profiles": ["debug", "release"],
             "oracle_prefix": "o_rd"},
            {"name": "o_rd", "module": "rd", "quick": 3000, "thorough": 60000, "kind": "oracle",
             "profiles": ["debug"], "args": {"prefix": "o_rd"}},
            # the parsers' own constructors (from_read / from_boxed_dyn_read / from_buf_reader with leftovers)
            {"name": "o_c01", "module": "pa", "quick": 2000, "thorough": 20000, "kind": "oracle", "profiles": ["debug"],
             "args": {"kind": "chunk"}},
        ],
        "rule": "random sources (short reads, Interrupted, EOF/error at any offset, BufReader leftovers) x random histories over the "
                "whole reader API with small chunk sizes so that realign/shrink happen; non-trivial = more than 4 source bytes and "
                "more than 10 operations; distinct by case text",
        "theorems_note": "Props/C02.v: invariant for every reachable state of every history and source; per-operation specifications "
                         "in terms of the delivered/consumed history; conservation w.r.t. honest sources",
        "assumes": ["std::io::Read/Chain/Cursor/BufReader and Vec operations as modelled in Reader.v (validated by the rd stream)",
                    "sizes below 2^62 (no usize overflow in pos_in_buf + valid_len + chunk_size); wrapping position/mark are modelled"],
    },
    "C11": {
        "streams": [
            {"name": "wr", "module": "wr", "quick": 2500, "thorough": 40000, "profiles": ["debug", "release"],
             "oracle_prefix": "o_wr"},
            {"name": "o_wr", "module": "wr", "quick": 2500, "thorough": 40000, "kind": "oracle",
             "profiles": ["debug"], "args": {"prefix": "o_wr"}},
        ],
        "rule": "random histories over write/write_all/write_all_defer_err (lengths biased around the free space of the 16 KiB "
                "buffer, up to 3x capacity), ascii_digits for all 12 integer types incl. MIN/MAX, buf_write_ptr+advance_unchecked, "
                "flush, flush_defer_err, check_io_error, drop; sinks: accept-all, short writes, Interrupted, Ok(0), failing at call k; "
                "non-trivial = at least 5 operations; distinct by case text",
        "theorems_note": "Props/C11.v: exact delivery after flush/drop for every non-failing sink schedule; in-order selection and "
                         "capacity invariant for every sink; parked-error life cycle; canonical decimal text",
        "assumes": ["std Write::write_all loop, Vec::with_capacity(16384) giving capacity exactly 16384 and never reallocating, "
                    "itoap producing `decimal v` (all validated by the wr stream)"],
    },
    "C12": {
        "streams": [
            {"name": "rn", "module": "rn", "quick": 2000, "thorough": 60000, "profiles": ["debug", "release"],
             "oracle_prefix": "o_rn"},
            {"name": "o_rn", "module": "rn", "quick": 2000, "thorough": 60000, "kind": "oracle",
             "profiles": ["debug"], "args": {"prefix": "o_rn"}},
        ],
        "rule": "random and-inverter graphs: arbitrary variable numbering with gaps (codes up to 2^41), defining literals of either "
                "polarity, gates in arbitrary order, constants / negations / repeated and complementary gate inputs, structurally "
                "equal gates, shared and unused gates, zero-size sections, all 8 (trim, structural_hash, const_fold) combinations; "
                "ill-formed graphs: cycles (self loops, through negated edges, rings of up to 64 gates, behind finished sub-graphs, "
                "reachable or not), undefined literals in every section, doubly defined literals (input/input, input/gate, gate/gate, "
                "constant, either polarity), latch-state clashes (constant, input, gate output, other latch; either polarity; any "
                "position), combinations of two defects; chains of 2000 gates (thorough: 8000) entered from the top, acyclic and "
                "cyclic; trace = whole OrderedAig + Aig::from numbering + lit_map().get of every literal of the case, or error "
                "kind + literal; non-trivial = at least 2 gates; distinct by case text",
        "theorems_note": "Props/C12.v: order/numbering of every successful result; equivalence of every output, next-state, bad, "
                         "constraint, justice, fairness literal and every lit_map entry for all assignments, for every graph for "
                         "which a circuit is returned (no well-formedness hypothesis), all 8 option combinations; LitAlreadyDefined l "
                         "iff l is the first literal in checking order (constant, inputs, gates, latches) whose variable was "
                         "defined before; wf_defs iff no LitAlreadyDefined; latch clashes rejected with the latch's state literal; "
                         "LitNotDefined / FoundCycle imply the defect; no unwrap panic; no OutOfFuel for any graph, cyclic or not",
        "assumes": ["zwohash::HashMap as a finite map (std++ gmap); literal type usize, codes as unbounded N (no overflow of "
                    "last_code += 2 below 2^63 gates; the truncating `code as u8/u16/u32` of narrower literal types is proved unreachable on runs that return a circuit: C12_result_codes_fit_the_literal_type)",
                    "the transfer loop runs on fuel 32*(#gates+2) per call in the model; C12_terminates proves it is never exhausted",
                    "symbols and comment are cloned unchanged by renumber_aig and are not modelled; 'no recursion' is structural "
                    "(explicit stack) and is exercised by the deep chains"],
    },
    "C16": {
        "streams": [
            {"name": "tx_scan", "module": "tx", "quick": 1500, "thorough": 40000, "profiles": ["debug", "release"],
             "oracle_prefix": "o_tx", "args": {"kind": "scan"}},
            {"name": "o_tx_scan", "module": "tx", "quick": 1500, "thorough": 40000, "kind": "oracle",
             "profiles": ["debug"], "args": {"kind": "scan", "prefix": "o_tx"}},
        ],
        "rule": "complete enumeration of all strings of length <= 4 (thorough: <= 5) over {space, tab, CR, LF, x} x all start offsets "
                "x the four scanners x patterns {empty, prefix, longer than input, mismatch at each position}, delivered one byte per "
                "read (buffered-byte count compared), plus random longer inputs with arbitrary buffering; non-trivial = input of at "
                "least 2 bytes; distinct by case text",
        "theorems_note": "Props/C16.v: for every admissible abstract run on every view: exact offset, nothing consumed, highest offset "
                         "asked for is minimal",
        "assumes": ["the scanners are modelled as parser programs (Text.v); program-to-reader link by the tx stream and Simulation.v"],
    },
    "C13": {
        "streams": [
            {"name": "tx_digits", "module": "tx", "quick": 6000, "thorough": 120000, "profiles": ["debug", "release"],
             "oracle_prefix": "o_tx", "args": {"kind": "digits"}},
            {"name": "o_tx_digits", "module": "tx", "quick": 6000, "thorough": 120000, "kind": "oracle",
             "profiles": ["debug"], "args": {"kind": "digits", "prefix": "o_tx"}},
        ],
        "rule": "direct calls of ascii_digits / signed_ascii_digits / ascii_digits_multi / signed_ascii_digits_multi through a "
                "DeferredReader for all 12 modelled integer types; digit strings of length 0..45 around every type's MIN/MAX +-1, "
                "leading zeros, random tails, every amount of pre-buffered data around offset+7/8/9 (fast vs cold path), small chunk "
                "sizes and short reads; kernel lanes: 0..8 digits followed by each of the 256 byte values (sampled in quick, complete "
                "in thorough); non-trivial = input of at least 2 bytes; distinct by case text",
        "theorems_note": "Props/C13.v: SWAR kernel for every 64-bit word; simple scanners exact; multi variants = simple for every "
                         "admissible buffering answer",
        "assumes": ["num_traits overflowing_mul/add/sub and from_u32/from_i32 as modelled in Text.v (wrap + exact-range flag)",
                    "signed_ascii_digits is modelled for signed types (for unsigned types '-d' underflows: Crash POverflow in the model)"],
    },
    "C01": {
        "streams": [
            {"name": "pa", "module": "pam", "quick": 2500, "thorough": 40000, "profiles": ["debug", "release"],
             "oracle_prefix": ["o_c01", "o_rt", "o_c05"]},
            {"name": "o_c01", "module": "pa", "quick": 4000, "thorough": 60000, "kind": "oracle", "profiles": ["debug", "release"],
             "args": {"kind": "chunk"}},
            {"name": "o_new", "module": "pa", "quick": 1500, "thorough": 20000, "kind": "oracle", "profiles": ["debug"],
             "args": {"kind": "new"}},
        ],
        "rule": "grammar-generated and mutated documents for all seven parsers x literal types x ignore_header / "
                "ignore_unknown_lines x schedules (one-shot, one byte per read, random sizes, Interrupted-interleaved) x chunk sizes "
                "{1,2,3,7,8,9,64,16384} x constructors (from_read, from_boxed_dyn_read, from_buf_reader with leftovers); "
                "non-trivial = document of at least 8 bytes; distinct by case text",
        "theorems_note": "Props/C01.v: simulation theorem (every concrete run under every schedule/chunk size is an admissible abstract "
                         "run on the source's stream), chunking independence for answer-insensitive programs, instance for the SWAR "
                         "scanner; whole DIMACS / solver-log parsers: every admissible run finishes and all agree, hence every concrete run "
                         "returns the value of the simple run (C01_dimacs_any_chunking, C01_log_any_chunking); AIGER aag/aig and BTOR2 programs: "
                         "answer-insensitivity proved (PDet_parse_aag/aig/btor2, incl. the BTOR2 keyword scanner's 8-byte fast path = its cold "
                         "path for every 64-bit word), safety not yet (partial); all seven parsers are modelled and validated by the pa "
                         "correspondence stream (BTOR2: every field of every line, writer bytes, constant constructors)",
        "assumes": ["honest sources (Read contract kept), chunk size >= 1, sizes < 2^62"],
    },
    "C14": {
        "streams": [
            {"name": "rd_panics", "module": "rd", "quick": 3000, "thorough": 60000, "profiles": ["debug", "release"],
             "oracle_prefix": "o_rd", "args": {"panics": True}},
            {"name": "o_rd_panics", "module": "rd", "quick": 3000, "thorough": 60000, "kind": "oracle", "profiles": ["debug"],
             "args": {"panics": True, "prefix": "o_rd"}},
            {"name": "wr", "module": "wr", "quick": 1500, "thorough": 20000, "profiles": ["debug", "release"], "oracle_prefix": "o_wr"},
            {"name": "tx_digits", "module": "tx", "quick": 2000, "thorough": 20000, "profiles": ["debug", "release"], "args": {"kind": "digits"},
             "oracle_prefix": "o_tx"},
            # thorough tier only: the same kinds of histories on the real code under Miri (supporting dynamic check)
            {"name": "miri_rd", "module": "rd", "quick": 0, "thorough": 60, "kind": "miri", "args": {"panics": True}},
            {"name": "miri_wr", "module": "wr", "quick": 0, "thorough": 12, "kind": "miri"},
            {"name": "miri_tx", "module": "tx", "quick": 0, "thorough": 40, "kind": "miri", "args": {"kind": "digits"}},
        ],
        "rule": "reader histories extended with advance/advance_with_buf beyond the buffered length (panic caught, history "
                "continues) and sources claiming more bytes than the slice; writer histories with buffer-boundary integers; "
                "debug build = debug assertions on the unchecked accesses; non-trivial as for C02/C11",
        "theorems_note": "Props/C14.v: no modelled unchecked access leaves the buffer (reader: any source incl. lying ones, any history "
                         "incl. caught panics; writer: any history/sink), window = delivered-unconsumed bytes after any history",
        "assumes": ["index arithmetic relative to the modelled Vec length/capacity; what hardware does on a real out-of-bounds "
                    "access is outside the model (partial)"],
    },
    "C10": {
        "streams": [
            {"name": "o_c10", "module": "c10", "quick": 0, "thorough": 0, "kind": "oracle", "profiles": ["release"]},
            {"name": "rd", "module": "rd", "quick": 1500, "thorough": 20000, "profiles": ["debug"], "oracle_prefix": "o_rd"},
        ],
        "rule": "cnf and btor2 inputs of N lines generated on the fly (quick: up to 150 kB, thorough: 4 MB per case) x chunk sizes "
                "{1,3,64,4096,16384} x read sizes x item sizes {20,300,5000}; counting global allocator; every case is non-trivial",
        "theorems_note": "Props/C10.v: reader buffer length <= 3*chunk + window for every history, independent of bytes consumed",
        "assumes": ["Vec capacity policy, shrink_to_fit and allocator overhead are runtime behaviour: measured, not proved (partial)"],
    },
    "C04": {
        "streams": [
            {"name": "o_c04", "module": "pa", "quick": 4000, "thorough": 60000, "kind": "oracle", "profiles": ["debug", "release"],
             "args": {"kind": "fault"}},
            {"name": "pa", "module": "pam", "quick": 2000, "thorough": 30000, "profiles": ["debug"], "oracle_prefix": ["o_c01", "o_rt", "o_c05"]},
            {"name": "o_skip", "module": "pa", "quick": 2000, "thorough": 30000, "kind": "oracle", "profiles": ["debug"], "args": {"kind": "skip"}},
            {"name": "pa_fixed", "module": "fixed", "quick": 0, "thorough": 0, "kind": "oracle", "profiles": ["debug", "release"]},
        ],
        "rule": "documents for all seven parsers x source schedules, the source failing after k bytes (k = 0, end-1, end, line "
                "ends, random); the oracle demands: never a clean end, IoError as the final result unless the non-failing run on the same "
                "prefix reports the same syntax error, items before the error equal to the items of the non-failing run; the pa "
                "correspondence stream runs the DIMACS/log programs of the model on failing schedules too; non-trivial = document of at "
                "least 8 bytes",
        "theorems_note": "Props/C04.v: parked error kept until taken; give_up* report the parked error; eof refuses a failing stream; "
                         "results obtained before the end of the delivered data are the results on every continuation; end to end for the DIMACS family "
                         "and solver logs (all admissible runs): never a clean end on a failing source, final error = the source's error or a "
                         "syntax error found before the end of the delivered data (then reported on every continuation)",
        "assumes": ["honest sources up to the failure; AIGER/BTOR2: programs modelled and tied by the pa stream, end-to-end theorems pending (fault oracle)"],
    },
    "C09": {
        "streams": [
            {"name": "o_c09", "module": "pa", "quick": 2500, "thorough": 30000, "kind": "oracle", "profiles": ["debug", "release"],
             "args": {"kind": "line"}},
            {"name": "rd", "module": "rd", "quick": 2000, "thorough": 30000, "profiles": ["debug"], "oracle_prefix": "o_rd"},
            {"name": "pa", "module": "pam", "quick": 1500, "thorough": 20000, "profiles": ["debug"], "oracle_prefix": ["o_c01", "o_rt", "o_c05"]},
        ],
        "rule": "documents rendered line by line, the source handing out exactly one line per read: item i must be returned after "
                "at most the reads that deliver the line completing it (header, clauses, AIGER section entries, BTOR2 lines); reader "
                "histories compare the number of read() calls with the model after every operation; the pa stream compares the total "
                "number of calls of whole parses; non-trivial = at least 16 bytes",
        "theorems_note": "Props/C09.v: one successful read per refill, none when satisfied, none after the terminal event; newline / "
                         "next_newline ask for nothing beyond the line break; DIMACS header and clauses: nothing requested beyond the item's "
                         "line break (all admissible runs); line-per-read sources: everything delivered is consumed when the item is returned",
        "assumes": ["per-item look-ahead: theorem for the DIMACS family; AIGER/BTOR2 by the line oracle (partial)"],
    },
    "C05": {
        "streams": [
            {"name": "o_c05", "module": "pa", "quick": 5000, "thorough": 80000, "kind": "oracle", "profiles": ["debug", "release"],
             "args": {"kind": "safe"}},
            {"name": "pa", "module": "pam", "quick": 2000, "thorough": 30000, "profiles": ["debug", "release"], "oracle_prefix": ["o_c05", "o_c01", "o_rt"]},
            {"name": "o_skip", "module": "pa", "quick": 1500, "thorough": 20000, "kind": "oracle", "profiles": ["debug"],
             "args": {"kind": "skip"}},
            {"name": "limits", "module": "pa", "quick": 400, "thorough": 400, "kind": "oracle", "profiles": ["debug", "release"],
             "args": {"kind": "limits"}},
            {"name": "rn", "module": "rn", "quick": 1000, "thorough": 20000, "profiles": ["debug"], "oracle_prefix": "o_rn"},
            {"name": "pa_fixed", "module": "fixed", "quick": 0, "thorough": 0, "kind": "oracle", "profiles": ["debug", "release"]},
        ],
        "rule": "grammar-generated, mutated and extreme documents (huge declared counts, maximal numerals, deep/long lines) for all "
                "seven parsers and literal types: the worker must return Ok or Err — no panic (debug build: overflow checks and debug "
                "assertions on), no abort, no stack overflow, within a time limit — and the peak heap, measured by a counting "
                "allocator, must stay below 64 x input length + 8 MiB; deep renumbering chains; non-trivial = at least 16 bytes",
        "theorems_note": "Props/C05.v: refill loop terminates, reader histories safe, advance panics iff beyond the window, digit "
                         "accumulation never wraps, varint length check, renumbering terminates and never panics; end to end for the DIMACS family "
                         "and solver logs: every admissible run ends with a value (no stuck advance, no panic, no fuel exhaustion)",
        "assumes": ["heap and stack are runtime behaviour: measured (partial)", "AIGER/BTOR2: programs modelled and tied by the pa stream, end-to-end safety theorems pending (safe oracle)"],
    },
    "C06": {
        "streams": [
            {"name": "o_exp", "module": "pa", "quick": 3000, "thorough": 40000, "kind": "oracle", "profiles": ["debug", "release"],
             "args": {"kind": "expect"}},
            {"name": "limits", "module": "pa", "quick": 300, "thorough": 300, "kind": "oracle", "profiles": ["debug", "release"],
             "args": {"kind": "limits"}},
            {"name": "o_skip", "module": "pa", "quick": 2000, "thorough": 30000, "kind": "oracle", "profiles": ["debug", "release"],
             "args": {"kind": "skip"}},
            {"name": "tx_digits", "module": "tx", "quick": 2000, "thorough": 20000, "profiles": ["debug", "release"], "args": {"kind": "digits"}},
            {"name": "pa", "module": "pam", "quick": 2000, "thorough": 30000, "profiles": ["debug"], "oracle_prefix": ["o_c01", "o_rt", "o_c05"]},
        ],
        "rule": "values generated first, rendered with random layout, expected items computed independently of the parsers "
                "(Python big integers); limit cases: every declared limit and every type limit at value-1, value, value+1 (literals vs "
                "variable count, clause count vs clean end, groups, MAX_DIMACS per type, AIGER M/I/L/O/A/B/C/J/F and literal codes, "
                "binary deltas), with and without ignore_header; digit scanners against the model on boundary numerals; the AIGER "
                "streaming API taking at most N entries per section (the section-switch methods skip — and must still check — the rest)",
        "theorems_note": "Props/C06.v: scanners return exactly the decimal value or None (all admissible runs), limits of the literal "
                         "types fit, varint exact; token-level and end-to-end limit theorems for the DIMACS family and solver logs",
        "assumes": ["AIGER/BTOR2 limit enforcement: model = code (pa stream) + limits oracle, theorems pending (partial)"],
    },
    "C07": {
        "streams": [
            {"name": "o_exp", "module": "pa", "quick": 4000, "thorough": 60000, "kind": "oracle", "profiles": ["debug", "release"],
             "args": {"kind": "expect"}},
            {"name": "pa", "module": "pam", "quick": 2500, "thorough": 40000, "profiles": ["debug"], "oracle_prefix": ["o_c01", "o_rt", "o_c05"]},
        ],
        "rule": "abstract values (header, clauses, solver log status/assignment) rendered with random layout choices: runs of "
                "spaces/tabs, trailing blanks, blank lines, comment lines before the header / between clauses / inside a clause, "
                "clauses split over lines, LF/CRLF, missing final newline, leading zeros, '-0' terminators, value lines split anywhere, "
                "unknown lines when ignored; the parsed items must equal the abstract value; non-trivial = at least 16 bytes",
        "theorems_note": "Props/C07.v: blank runs skipped whole, LF and CRLF, leading zeros, -0, numerals independent of the following byte",
        "assumes": ["token-sequence dependence of the whole parsers: model = code (pa stream) + expectation oracle, not yet a theorem (partial)"],
    },
    "C08": {
        "streams": [
            {"name": "corrupt", "module": "pa", "quick": 3000, "thorough": 40000, "kind": "oracle", "profiles": ["debug", "release"],
             "args": {"kind": "corrupt"}},
            {"name": "limits", "module": "pa", "quick": 300, "thorough": 300, "kind": "oracle", "profiles": ["debug"],
             "args": {"kind": "limits"}},
            {"name": "o_new", "module": "pa", "quick": 2000, "thorough": 30000, "kind": "oracle", "profiles": ["debug", "release"],
             "args": {"kind": "new"}},
            {"name": "o_skip", "module": "pa", "quick": 1500, "thorough": 20000, "kind": "oracle", "profiles": ["debug"], "args": {"kind": "skip"}},
            {"name": "o_c05", "module": "pa", "quick": 2000, "thorough": 30000, "kind": "oracle", "profiles": ["debug"],
             "args": {"kind": "safe"}},
            {"name": "pa", "module": "pam", "quick": 2500, "thorough": 40000, "profiles": ["debug"], "oracle_prefix": ["o_c05", "o_c01", "o_rt"]},
            {"name": "pa_fixed", "module": "fixed", "quick": 0, "thorough": 0, "kind": "oracle", "profiles": ["debug"]},
        ],
        "rule": "well-formed documents of all seven formats with one known token replaced by garbage / an out-of-range number: the "
                "reported line must be the token's line and the column must lie on the token; every syntax error of every mutated "
                "document must lie inside the input (1 <= line <= lines+1, 1 <= column <= length of that line + 1); model and code must "
                "agree on every error location of the DIMACS family and solver logs; binary AIGER: a symbol-table / comment token "
                "corrupted behind an and-gate section that contains 0x0A bytes (delta 10, two-byte deltas ending in 0x0A): expected "
                "line = 1 + LF bytes before the token",
        "theorems_note": "Props/C08.v: column formula of give_up*, line_at_offset; end to end for the DIMACS family and solver logs: loc_ok for "
                         "every syntax error of every admissible run, bounds, executable loc_spec, pinned exception; end to end for "
                         "AIGER (ascii and binary) and BTOR2: loc_ok and the exact position (line_col_of) of every syntax error",
        "assumes": ["'on the offending token' (which position is reported): corruption oracle + model = code (pa stream)"],
    },
    "C03": {
        "streams": [
            {"name": "o_rt", "module": "pa", "quick": 3000, "thorough": 40000, "kind": "oracle", "profiles": ["debug", "release"],
             "args": {"kind": "rt"}},
            {"name": "o_exp", "module": "pa", "quick": 3000, "thorough": 40000, "kind": "oracle", "profiles": ["debug"],
             "args": {"kind": "expect"}},
            {"name": "pa", "module": "pam", "quick": 2500, "thorough": 40000, "profiles": ["debug"], "oracle_prefix": ["o_c01", "o_rt", "o_c05"]},
            {"name": "wr", "module": "wr", "quick": 1500, "thorough": 20000, "profiles": ["debug"], "oracle_prefix": "o_wr"},
            {"name": "tx_digits", "module": "tx", "quick": 1500, "thorough": 20000, "profiles": ["debug"], "args": {"kind": "digits"}},
            {"name": "pa_fixed", "module": "fixed", "quick": 0, "thorough": 0, "kind": "oracle", "profiles": ["debug"]},
        ],
        "rule": "abstract values rendered in the writer's plain layout and in fancy layouts must parse to exactly that value (o_exp); "
                "documents of all formats parsed, written with the crate's writer, parsed again: the two values must be equal and "
                "the second parse must end cleanly; values built through the public constructors (BTOR2 constants of all three "
                "radixes incl. invalid strings) written and parsed; writer and digit scanner compared with the model",
        "theorems_note": "Props/C03.v: decimal text read back exactly by every admissible scanner run; varint round trip; BTOR2 operator "
                         "names = keywords (regenerated table); BTOR2 whole-document and single-line round trip of the parser program and writer function; "
                         "AIGER ascii and binary whole-file round trip of the parser programs and writer functions (AigerWrite.v, AigerRt.v: "
                         "C03_aag_roundtrip, C03_aig_roundtrip), for the simple run, every admissible run and every concrete run "
                         "(RtAll.v: C03_aag/aig/btor2_roundtrip_all_runs, _concrete); AIGER and DIMACS writer functions tied to the code "
                         "by the pa stream (flag x)",
        "assumes": ["whole-document round trips of the DIMACS family: oracle on the implementation (partial)",
                    "BTOR2 round trip: values in the format's domain (line_ok); inputs below 2^62 bytes for the all-runs / concrete forms",
                    "AIGER round trip: values in the format's domain (aag_ok / aig_ok: what the parsers can return, up to "
                    "I+L+A = M = 2^63-1; binary: deltas < 2^56); inputs below 2^62 bytes for the all-runs / concrete forms"],
    },
}
