(* Parsed.v — model of flussab/src/parser.rs (Parsed<T,E>, ResultExt).
   Rust closures may have effects; here a closure is a function into the
   call-log monad [M], so "the closure ran" is "its log entries appear". *)
From Flussab Require Import Base.

Inductive parsed (T E : Type) :=
| Res (r : result T E)
| Fallthrough.
Arguments Res {T E} r.
Arguments Fallthrough {T E}.

Definition M (A : Type) : Type := A * list N.
Definition ret {A} (a : A) : M A := (a, []).
Definition bindM {A B} (m : M A) (f : A -> M B) : M B :=
  let '(a, l1) := m in let '(b, l2) := f a in (b, l1 ++ l2).

Section Combinators.
Context {T U E E2 : Type}.

Definition err_into (conv : E -> M E2) (p : parsed T E) : M (parsed T E2) :=
  match p with
  | Res (Ok v) => ret (Res (Ok v))
  | Res (Err e) => bindM (conv e) (fun e2 => ret (Res (Err e2)))
  | Fallthrough => ret Fallthrough
  end.

Definition or_give_up (p : parsed T E) (err : unit -> M E) : M (result T E) :=
  match p with
  | Res r => ret r
  | Fallthrough => bindM (err tt) (fun e => ret (Err e))
  end.

Definition optional (p : parsed T E) : result (option T) E :=
  match p with
  | Res (Ok v) => Ok (Some v)
  | Res (Err e) => Err e
  | Fallthrough => Ok None
  end.

Definition matches (p : parsed T E) : result bool E :=
  match p with
  | Res (Ok _) => Ok true
  | Res (Err e) => Err e
  | Fallthrough => Ok false
  end.

Definition or_parse (p : parsed T E) (parse : unit -> M (parsed T E)) : M (parsed T E) :=
  match p with
  | Fallthrough => parse tt
  | v => ret v
  end.

Definition or_always_parse (p : parsed T E) (parse : unit -> M (result T E)) : M (result T E) :=
  match p with
  | Fallthrough => parse tt
  | Res r => ret r
  end.

Definition and_then (p : parsed T E) (parse : T -> M (result U E)) : M (parsed U E) :=
  match p with
  | Res (Ok v) => bindM (parse v) (fun r => ret (Res r))
  | Res (Err e) => ret (Res (Err e))
  | Fallthrough => ret Fallthrough
  end.

(* [parse] receives [&mut T]: it returns the possibly modified value together
   with its own result. *)
Definition and_also (p : parsed T E) (parse : T -> M (T * result unit E)) : M (parsed T E) :=
  match p with
  | Res (Ok v) =>
      bindM (parse v) (fun '(v', r) =>
        match r with
        | Ok _ => ret (Res (Ok v'))
        | Err e => ret (Res (Err e))
        end)
  | other => ret other
  end.

Definition and_do (p : parsed T E) (action : T -> M T) : M (parsed T E) :=
  match p with
  | Res (Ok v) => bindM (action v) (fun v' => ret (Res (Ok v')))
  | other => ret other
  end.

Definition map (p : parsed T E) (f : T -> M U) : M (parsed U E) :=
  match p with
  | Res (Ok v) => bindM (f v) (fun u => ret (Res (Ok u)))
  | Res (Err e) => ret (Res (Err e))
  | Fallthrough => ret Fallthrough
  end.

Definition map_err (p : parsed T E) (f : E -> M E2) : M (parsed T E2) :=
  match p with
  | Res (Ok v) => ret (Res (Ok v))
  | Res (Err e) => bindM (f e) (fun e2 => ret (Res (Err e2)))
  | Fallthrough => ret Fallthrough
  end.

Definition from_result (r : result T E) : parsed T E := Res r.

(* ResultExt *)
Definition r_err_into (conv : E -> M E2) (r : result T E) : M (result T E2) :=
  match r with
  | Ok v => ret (Ok v)
  | Err e => bindM (conv e) (fun e2 => ret (Err e2))
  end.

Definition r_and_also (r : result T E) (f : T -> M (T * result unit E)) : M (result T E) :=
  match r with
  | Ok v =>
      bindM (f v) (fun '(v', r') =>
        match r' with
        | Ok _ => ret (Ok v')
        | Err e => ret (Err e)
        end)
  | Err e => ret (Err e)
  end.

Definition r_and_do (r : result T E) (action : T -> M T) : M (result T E) :=
  match r with
  | Ok v => bindM (action v) (fun v' => ret (Ok v'))
  | Err e => ret (Err e)
  end.

End Combinators.
