(* WriterProofs.v — C11 (and the writer half of C14): the buffered writer
   delivers exactly the written bytes, in order, once; deferred errors. *)
From Flussab Require Import Base Writer.
Ltac Zify.zify_post_hook ::= Z.to_euclidean_division_equations.

(* ---------- subsequences ---------- *)
Inductive subseq {A} : list A -> list A -> Prop :=
| sub_nil : subseq [] []
| sub_skip x l1 l2 : subseq l1 l2 -> subseq l1 (x :: l2)
| sub_take x l1 l2 : subseq l1 l2 -> subseq (x :: l1) (x :: l2).

Lemma subseq_refl {A} (l : list A) : subseq l l.
Proof. induction l; constructor; assumption. Qed.

Lemma subseq_nil_l {A} (l : list A) : subseq [] l.
Proof. induction l; constructor; assumption. Qed.

Lemma subseq_app {A} (a b c d : list A) : subseq a b -> subseq c d -> subseq (a ++ c) (b ++ d).
Proof. intros H1 H2. induction H1; cbn; try constructor; assumption. Qed.

Lemma subseq_firstn {A} n (l : list A) : subseq (firstn n l) l.
Proof.
  revert l. induction n as [|n IH]; intros l; cbn; [apply subseq_nil_l|].
  destruct l; [apply sub_nil | apply sub_take, IH].
Qed.

Lemma subseq_app_r {A} (a b c : list A) : subseq a b -> subseq a (b ++ c).
Proof. intros H. rewrite <- (app_nil_r a). apply subseq_app; [exact H | apply subseq_nil_l]. Qed.

Lemma subseq_trans {A} (a b c : list A) : subseq a b -> subseq b c -> subseq a c.
Proof.
  intros H1 H2. revert a H1. induction H2; intros a H1.
  - exact H1.
  - apply sub_skip. apply IHsubseq. exact H1.
  - inversion H1; subst.
    + apply sub_skip. apply IHsubseq. assumption.
    + apply sub_take. apply IHsubseq. assumption.
Qed.

(* ---------- write_all ---------- *)
Definition is_prefix {A} (p l : list A) : Prop := exists r, l = p ++ r.

Lemma write_all_spec fuel : forall sk bs r sk',
  (length (wevents sk) + length bs < fuel)%nat ->
  write_all fuel sk bs = (r, sk') ->
  r <> WAFuel /\
  exists p, received sk' = received sk ++ p /\ is_prefix p bs /\ (r = WAOk -> p = bs) /\
            wcalls sk <= wcalls sk' /\ (bs = [] -> sk' = sk).
Proof.
  induction fuel as [|f IH]; intros sk bs r sk' Hm H; [lia|].
  destruct bs as [|b bs].
  - cbn in H. inversion H; subst. split; [discriminate|]. exists []. rewrite app_nil_r.
    repeat split; auto. exists []; reflexivity. lia.
  - cbn [write_all] in H. destruct (wevents sk) as [|[k| |e] ev] eqn:Hev.
    + inversion H; subst. split; [discriminate|]. exists (b :: bs). cbn [received wcalls].
      repeat split; auto. exists []; symmetry; apply app_nil_r. lia. discriminate.
    + set (n := N.min k (nlen (b :: bs))) in *.
      destruct (n =? 0) eqn:Hn.
      * inversion H; subst. split; [discriminate|]. exists (nfirstn n (b :: bs)). cbn [received wcalls].
        repeat split; auto.
        -- exists (nskipn n (b :: bs)). symmetry. apply firstn_skipn.
        -- discriminate.
        -- lia.
        -- discriminate.
      * apply N.eqb_neq in Hn.
        match type of H with write_all f ?sk1 ?bs1 = _ => 
          destruct (IH sk1 bs1 r sk') as [Hr (p & Hp1 & Hp2 & Hp3 & Hp4 & _)]; [|exact H|] end.
        { cbn [wevents]. unfold nskipn. rewrite skipn_length. cbn [length] in *. unfold nlen in *. cbn [length] in *. lia. }
        split; [exact Hr|]. exists (nfirstn n (b :: bs) ++ p). cbn [received wcalls] in *.
        repeat split.
        -- rewrite Hp1. rewrite app_assoc. reflexivity.
        -- destruct Hp2 as [q Hq]. exists q. rewrite <- app_assoc, <- Hq. symmetry. apply firstn_skipn.
        -- intros Hok. rewrite (Hp3 Hok). apply firstn_skipn.
        -- lia.
        -- discriminate.
    + match type of H with write_all f ?sk1 ?bs1 = _ => 
        destruct (IH sk1 bs1 r sk') as [Hr (p & Hp1 & Hp2 & Hp3 & Hp4 & _)]; [|exact H|] end.
      { cbn [wevents length] in *. lia. }
      split; [exact Hr|]. exists p. cbn [received wcalls] in *. repeat split; auto. lia. discriminate.
    + inversion H; subst. split; [discriminate|]. exists []. cbn [received wcalls]. rewrite app_nil_r.
      repeat split; auto. exists (b :: bs); reflexivity. discriminate. lia. discriminate.
Qed.

(* a sink that never fails: no WFail and no Ok(0) *)
Fixpoint GoodSink (evs : list wevent) : Prop :=
  match evs with
  | [] => True
  | Accept k :: ev => k <> 0 /\ GoodSink ev
  | WInterrupt :: ev => GoodSink ev
  | WFail _ :: _ => False
  end.

Lemma write_all_good fuel : forall sk bs r sk',
  GoodSink (wevents sk) -> write_all fuel sk bs = (r, sk') -> r <> WAFuel ->
  r = WAOk /\ GoodSink (wevents sk').
Proof.
  induction fuel as [|f IH]; intros sk bs r sk' HG H Hr.
  - destruct bs; cbn in H; inversion H; subst; [split; auto | congruence].
  - destruct bs as [|b bs]; [cbn in H; inversion H; subst; split; auto|].
    cbn [write_all] in H. destruct (wevents sk) as [|[k| |e] ev] eqn:Hev; cbn [GoodSink] in HG.
    + inversion H; subst. split; [reflexivity|exact I].
    + destruct HG as [Hk HG]. set (n := N.min k (nlen (b :: bs))) in *.
      assert (Hn : (n =? 0) = false).
      { apply N.eqb_neq. unfold n, nlen. cbn [length]. lia. }
      rewrite Hn in H. eapply IH; [|exact H|exact Hr]. exact HG.
    + eapply IH; [|exact H|exact Hr]. exact HG.
    + contradiction.
Qed.

(* ---------- the writer invariants ---------- *)
(* (1) always: the sink has seen, and the buffer holds, an in-order selection of what was written *)
Record WInvAt (w : bytes) (s : wstate) : Prop := {
  wi_cap : nlen (wbuf s) <= wcap s;
  wi_sub : subseq (received (wsink s) ++ wbuf s) w;
  wi_pan : wpanicked s = false
}.
Definition WInv (s : wstate) : Prop := WInvAt (g_written s) s.

(* (2) while the sink has never failed: nothing is missing *)
Record WExact (s : wstate) : Prop := {
  we_good : GoodSink (wevents (wsink s));
  we_err : werr s = None;
  we_all : received (wsink s) ++ wbuf s = g_written s
}.

Lemma WInv_init evs : WInv (writer_init evs).
Proof.
  constructor; cbn [writer_init wbuf wcap wsink received g_written wpanicked app].
  - change (nlen (@nil byte)) with 0. unfold DEFAULT_CAP. lia.
  - constructor.
  - reflexivity.
Qed.

Lemma WExact_init evs : GoodSink evs -> WExact (writer_init evs).
Proof. intros H. constructor; cbn; auto. Qed.

Lemma wa_fuel_ok sk bs : (length (wevents sk) + length bs < wa_fuel sk bs)%nat.
Proof. unfold wa_fuel. lia. Qed.

(* send: the sink gains a prefix of bs; all of it if no error results *)
Lemma send_spec s bs s' oof :
  send s bs = (s', oof) ->
  oof = false /\ wbuf s' = wbuf s /\ wcap s' = wcap s /\ g_written s' = g_written s /\
  (wpanicked s = false -> wpanicked s' = false) /\
  exists p, received (wsink s') = received (wsink s) ++ p /\ is_prefix p bs /\
            (werr s = None -> werr s' = None -> p = bs) /\
            (werr s <> None -> s' = s) /\
            wcalls (wsink s) <= wcalls (wsink s').
Proof.
  unfold send. destruct (werr s) as [e|] eqn:He.
  - intros H; inversion H; subst. repeat split; auto. exists []. rewrite app_nil_r.
    repeat split; auto; try congruence. exists bs; reflexivity. lia.
  - destruct (write_all (wa_fuel (wsink s) bs) (wsink s) bs) as [r sk] eqn:Hw.
    destruct (write_all_spec _ _ _ _ _ (wa_fuel_ok _ _) Hw) as [Hr (p & Hp1 & Hp2 & Hp3 & Hp4 & _)].
    destruct r; [| |congruence]; intros H; inversion H; subst; cbn [wbuf wcap g_written wsink werr wpanicked];
      repeat split; auto; exists p; repeat split; auto; try congruence.
Qed.

Lemma WInv_flush w s s' oof :
  WInvAt w s -> flush_defer_err s = (s', oof) ->
  oof = false /\ WInvAt w s' /\ wbuf s' = [] /\ wcap s' = wcap s /\ g_written s' = g_written s.
Proof.
  intros [Hc Hs Hp] H. unfold flush_defer_err in H. destruct (send s (wbuf s)) as [s1 o1] eqn:Hsend.
  inversion H; subst; clear H.
  destruct (send_spec _ _ _ _ Hsend) as (-> & Hb & Hcap & Hw & Hpan & p & Hp1 & [q Hq] & _).
  repeat split; cbn [with_buf wbuf wcap g_written wsink wpanicked]; auto.
  - change (nlen (@nil byte)) with 0. lia.
  - rewrite app_nil_r, Hp1. eapply subseq_trans; [|exact Hs].
    apply subseq_app; [apply subseq_refl|]. rewrite Hq. apply subseq_app_r. apply subseq_refl.
Qed.

Lemma WInv_put s bs s' v :
  WInv s -> put s bs = (s', v) ->
  v = WUnit /\ nlen (wbuf s') <= wcap s' /\ wcap s' = wcap s /\ wpanicked s' = false /\
  g_written s' = g_written s /\
  subseq (received (wsink s') ++ wbuf s') (g_written s ++ bs).
Proof.
  intros HI H. pose proof HI as [Hc Hs Hp]. unfold put in H.
  destruct (nlen (wbuf s) + nlen bs <=? wcap s) eqn:Hfit.
  - inversion H; subst; clear H. apply N.leb_le in Hfit.
    cbn [with_buf wbuf wcap g_written wsink wpanicked]. rewrite nlen_app. repeat split; auto.
    rewrite app_assoc. apply subseq_app; [exact Hs | apply subseq_refl].
  - apply N.leb_gt in Hfit.
    (* name the state after topping up the buffer *)
    set (k := wcap s - nlen (wbuf s)) in *.
    destruct (nlen bs <? wcap s) eqn:Hsmall.
    + assert (Hnb : (wcap s <? nlen (wbuf s)) = false) by (apply N.ltb_ge; exact Hc).
      rewrite Hnb in H.
      set (s1 := with_buf s (wbuf s ++ nfirstn k bs)) in *.
      assert (HI1 : WInvAt (g_written s ++ nfirstn k bs) s1).
      { constructor; cbn [s1 with_buf wbuf wcap wsink g_written wpanicked]; auto.
        - rewrite nlen_app, nlen_nfirstn. lia.
        - rewrite app_assoc. apply subseq_app; [exact Hs | apply subseq_refl]. }
      destruct (flush_defer_err s1) as [s2 o2] eqn:Hfl.
      destruct (WInv_flush _ _ _ _ HI1 Hfl) as (-> & HI2 & Hb2 & Hc2 & Hw2).
      cbn [s1 with_buf wcap g_written] in Hc2, Hw2.
      assert (Hrest : (nlen (nskipn k bs) <? wcap s2) = true).
      { apply N.ltb_lt. rewrite nlen_nskipn, Hc2. apply N.ltb_lt in Hsmall. lia. }
      rewrite Hrest in H. inversion H; subst; clear H.
      cbn [with_buf wbuf wcap g_written wsink wpanicked]. rewrite Hb2. cbn [app].
      apply N.ltb_lt in Hrest. repeat split; auto; try (apply (wi_pan _ _ HI2)).
      * lia.
      * (* received s2 ++ rest  is a selection of  (written ++ firstn k bs) ++ skipn k bs *)
        pose proof (wi_sub _ _ HI2) as Hs2. rewrite Hb2, app_nil_r in Hs2.
        rewrite <- (firstn_skipn (N.to_nat k) bs) at 2. fold (nfirstn k bs). fold (nskipn k bs).
        rewrite (app_assoc (g_written s)). apply subseq_app; [exact Hs2|apply subseq_refl].
    + destruct (flush_defer_err s) as [s2 o2] eqn:Hfl.
      destruct (WInv_flush _ _ _ _ HI Hfl) as (-> & HI2 & Hb2 & Hc2 & Hw2).
      assert (Hbig : (nlen bs <? wcap s2) = false) by (rewrite Hc2; exact Hsmall).
      rewrite Hbig in H.
      destruct (send s2 bs) as [s3 o3] eqn:Hsend.
      destruct (send_spec _ _ _ _ Hsend) as (-> & Hb3 & Hc3 & Hw3 & Hpan3 & p & Hp1 & [q Hq] & _).
      inversion H; subst; clear H. rewrite Hb3, Hb2, Hc3, Hc2, Hw3, Hw2, Hp1.
      change (nlen (@nil byte)) with 0. repeat split; auto; try lia.
      * apply Hpan3. apply (wi_pan _ _ HI2).
      * rewrite app_nil_r. pose proof (wi_sub _ _ HI2) as Hs2. rewrite Hb2, app_nil_r in Hs2.
        apply subseq_app; [exact Hs2|]. apply subseq_app_r, subseq_refl.
Qed.

(* ---------- every operation ---------- *)
From Flussab Require Import DecimalProofs.

(* what the caller must guarantee: Rust's types give the first, the `unsafe`
   contract of advance_unchecked the second *)
Definition wop_ok (o : wop) : Prop :=
  match o with
  | WDigits t v => in_range t v = true
  | WDirect len bs => nlen bs <= len
  | _ => True
  end.

Definition wbad (v : wobs) : bool :=
  match v with WUB | WPanicked _ | WOutOfFuel => true | _ => false end.

Lemma WInv_write_all_defer_err s bs :
  WInv s -> WInv (fst (write_all_defer_err s bs)) /\ snd (write_all_defer_err s bs) = WUnit /\
            g_written (fst (write_all_defer_err s bs)) = g_written s ++ bs /\
            wcap (fst (write_all_defer_err s bs)) = wcap s.
Proof.
  intros HI. unfold write_all_defer_err. destruct (put s bs) as [s' v] eqn:Hp.
  destruct (WInv_put _ _ _ _ HI Hp) as (-> & Hc & Hcap & Hpan & Hw & Hs).
  cbn [fst snd]. repeat split; auto.
Qed.

Lemma WInv_step s o : WInv s -> wop_ok o -> WInv (fst (wstep s o)) /\ wbad (snd (wstep s o)) = false.
Proof.
  intros HI Hok. pose proof HI as [Hc Hs Hp]. destruct o; cbn [wstep].
  - destruct (WInv_write_all_defer_err s bs HI) as (H1 & H2 & _). rewrite H2. split; [exact H1|reflexivity].
  - unfold write_ascii_digits. cbn [wop_ok] in Hok.
    destruct (decimal_canonical v) as (_ & Hlen & _). specialize (Hlen t Hok).
    destruct (nlen (wbuf s) + max_len t <=? wcap s) eqn:Hfast.
    + apply N.leb_le in Hfast.
      assert ((nlen (wbuf s) + nlen (decimal v) <=? wcap s) = true) as -> by (apply N.leb_le; lia).
      cbn [fst snd]. split; [|reflexivity].
      constructor; cbn [with_written with_buf wbuf wcap wsink g_written wpanicked]; auto.
      * rewrite nlen_app. lia.
      * rewrite app_assoc. apply subseq_app; [exact Hs|apply subseq_refl].
    + destruct (WInv_write_all_defer_err s (decimal v) HI) as (H1 & H2 & _). rewrite H2.
      split; [exact H1|reflexivity].
  - cbn [wop_ok] in Hok. destruct (nlen (wbuf s) + len <=? wcap s) eqn:Hfit.
    + apply N.leb_le in Hfit. assert ((nlen bs <=? len) = true) as -> by (apply N.leb_le; exact Hok).
      cbn [fst snd]. split; [|reflexivity].
      constructor; cbn [with_written with_buf wbuf wcap wsink g_written wpanicked]; auto.
      * rewrite nlen_app. lia.
      * rewrite app_assoc. apply subseq_app; [exact Hs|apply subseq_refl].
    + split; [exact HI|reflexivity].
  - destruct (flush_defer_err s) as [s1 o1] eqn:Hf.
    destruct (WInv_flush _ _ _ _ HI Hf) as (-> & [H1 H2 H3] & Hb & Hcap & Hw). cbn [fst snd]. split; [|reflexivity].
    constructor; cbn [clear_err wbuf wcap wsink g_written wpanicked]; auto. rewrite Hw. exact H2.
  - destruct (flush_defer_err s) as [s1 o1] eqn:Hf.
    destruct (WInv_flush _ _ _ _ HI Hf) as (-> & [H1 H2 H3] & Hb & Hcap & Hw). cbn [fst snd]. split; [|reflexivity].
    constructor; auto. rewrite Hw. exact H2.
  - cbn [fst snd]. split; [|reflexivity]. constructor; cbn [clear_err wbuf wcap wsink g_written wpanicked]; auto.
  - rewrite Hp. destruct (flush_defer_err s) as [s1 o1] eqn:Hf.
    destruct (WInv_flush _ _ _ _ HI Hf) as (-> & [H1 H2 H3] & Hb & Hcap & Hw). cbn [fst snd]. split; [|reflexivity].
    constructor; auto. rewrite Hw. exact H2.
Qed.

Fixpoint wops_ok (ops : list wop) : Prop :=
  match ops with [] => True | o :: os => wop_ok o /\ wops_ok os end.

Lemma WInv_run ops : forall s, WInv s -> wops_ok ops ->
  WInv (fst (wrun s ops)) /\ forallb (fun v => negb (wbad v)) (snd (wrun s ops)) = true.
Proof.
  induction ops as [|o os IH]; intros s HI Hok; cbn [wrun]; [split; [exact HI|reflexivity]|].
  destruct Hok as [Ho Hos]. destruct (WInv_step s o HI Ho) as [H1 H2].
  destruct (wstep s o) as [s1 v]. cbn [fst snd] in *.
  destruct (IH s1 H1 Hos) as [H3 H4]. destruct (wrun s1 os) as [s2 vs]. cbn [fst snd forallb] in *.
  split; [exact H3|]. rewrite H2, H4. reflexivity.
Qed.

(* ---------- a sink that never fails: nothing is lost ---------- *)
Lemma send_good s bs :
  WExact s ->
  let s' := fst (send s bs) in
  GoodSink (wevents (wsink s')) /\ werr s' = None /\ received (wsink s') = received (wsink s) ++ bs /\
  wbuf s' = wbuf s /\ g_written s' = g_written s /\ wcap s' = wcap s.
Proof.
  intros [HG He Ha]. cbn zeta. unfold send. rewrite He.
  destruct (write_all (wa_fuel (wsink s) bs) (wsink s) bs) as [r sk] eqn:Hw.
  destruct (write_all_spec _ _ _ _ _ (wa_fuel_ok _ _) Hw) as [Hr (p & Hp1 & Hp2 & Hp3 & _)].
  destruct (write_all_good _ _ _ _ _ HG Hw Hr) as [-> HG'].
  cbn [fst wsink werr wbuf g_written wcap]. rewrite Hp1, (Hp3 eq_refl). repeat split; auto.
Qed.

Lemma WExact_flush s :
  WExact s ->
  let s' := fst (flush_defer_err s) in
  WExact s' /\ wbuf s' = [] /\ received (wsink s') = g_written s /\ g_written s' = g_written s /\ wcap s' = wcap s.
Proof.
  intros HE. cbn zeta. unfold flush_defer_err.
  pose proof (send_good s (wbuf s) HE) as (H1 & H2 & H3 & H4 & H5 & H6). cbn zeta in *.
  destruct (send s (wbuf s)) as [s1 o1]. cbn [fst] in *. cbn [with_buf wsink wbuf g_written wcap].
  destruct HE as [HG He Ha]. rewrite H3, Ha. repeat split; auto.
  cbn [with_buf wsink werr wbuf g_written]. rewrite app_nil_r, H3, H5. exact Ha.
Qed.

Lemma WExact_put s bs :
  WInv s -> WExact s ->
  let s' := fst (put s bs) in
  GoodSink (wevents (wsink s')) /\ werr s' = None /\
  received (wsink s') ++ wbuf s' = g_written s ++ bs /\ g_written s' = g_written s.
Proof.
  intros HI HE. pose proof HE as [HG He Ha]. pose proof HI as [Hc _ _]. cbn zeta. unfold put.
  destruct (nlen (wbuf s) + nlen bs <=? wcap s) eqn:Hfit.
  - cbn [fst with_buf wsink werr wbuf g_written]. rewrite app_assoc, Ha. repeat split; auto.
  - destruct (nlen bs <? wcap s) eqn:Hsmall.
    + assert (Hnb : (wcap s <? nlen (wbuf s)) = false) by (apply N.ltb_ge; exact Hc). rewrite Hnb.
      set (k := wcap s - nlen (wbuf s)).
      set (s1 := with_buf s (wbuf s ++ nfirstn k bs)).
      assert (HE1 : WExact (with_written s1 (g_written s ++ nfirstn k bs))).
      { constructor; cbn [s1 with_written with_buf wsink werr wbuf g_written]; auto.
        rewrite app_assoc, Ha. reflexivity. }
      (* flush does not look at the ghost *)
      pose proof (WExact_flush _ HE1) as (HE2 & Hb2 & Hr2 & Hw2 & Hc2). cbn zeta in *.
      assert (Hsame : forall x, fst (flush_defer_err (with_written x (g_written s ++ nfirstn k bs))) =
                                with_written (fst (flush_defer_err x)) (g_written s ++ nfirstn k bs)
                                /\ snd (flush_defer_err (with_written x (g_written s ++ nfirstn k bs))) = snd (flush_defer_err x)).
      { intros x. unfold flush_defer_err, send. cbn [with_written werr wsink wbuf].
        destruct (werr x); [split; reflexivity|].
        destruct (write_all _ _ _) as [[| |] sk]; split; reflexivity. }
      destruct (Hsame s1) as [Hf1 Hf2]. rewrite Hf1 in *.
      destruct (flush_defer_err s1) as [s2 o2] eqn:Hfl. cbn [fst snd] in *.
      assert (o2 = false) as ->.
      { destruct (WInv_flush (g_written s ++ nfirstn k bs) s1 s2 o2) as (-> & _); [|exact Hfl|reflexivity].
        constructor; cbn [s1 with_buf wbuf wcap wsink wpanicked]; auto.
        - rewrite nlen_app, nlen_nfirstn. unfold k. lia.
        - rewrite app_assoc, Ha. apply subseq_refl.
        - apply (wi_pan _ _ HI). }
      cbn [with_written wsink werr wbuf g_written wcap] in *.
      assert (Hrest : (nlen (nskipn k bs) <? wcap s2) = true).
      { apply N.ltb_lt. rewrite nlen_nskipn, Hc2. cbn [s1 with_buf wcap]. apply N.ltb_lt in Hsmall. lia. }
      rewrite Hrest. cbn [fst with_buf wsink werr wbuf g_written]. destruct HE2 as [HG2 He2 Ha2].
      cbn [with_written wsink werr wbuf g_written] in *.
      rewrite Hb2. cbn [app]. rewrite Hr2. repeat split; auto.
      * rewrite <- app_assoc. f_equal. apply firstn_skipn.
      * destruct (Hsame s1) as [_ _]. 
        assert (g_written s2 = g_written s1).
        { destruct (WInv_flush (g_written s ++ nfirstn k bs) s1 s2 false) as (_ & _ & _ & _ & Hg); [|exact Hfl|exact Hg].
          constructor; cbn [s1 with_buf wbuf wcap wsink wpanicked]; auto.
          - rewrite nlen_app, nlen_nfirstn. unfold k. lia.
          - rewrite app_assoc, Ha. apply subseq_refl.
          - apply (wi_pan _ _ HI). }
        rewrite H. reflexivity.
    + pose proof (WExact_flush _ HE) as (HE2 & Hb2 & Hr2 & Hw2 & Hc2). cbn zeta in *.
      destruct (flush_defer_err s) as [s2 o2] eqn:Hfl. cbn [fst] in *.
      destruct (WInv_flush _ _ _ _ HI Hfl) as (-> & _).
      assert (Hbig : (nlen bs <? wcap s2) = false) by (rewrite Hc2; exact Hsmall). rewrite Hbig.
      pose proof (send_good s2 bs HE2) as (H1 & H2 & H3 & H4 & H5 & H6). cbn zeta in *.
      destruct (send s2 bs) as [s3 o3] eqn:Hsend. cbn [fst] in *.
      destruct (send_spec _ _ _ _ Hsend) as (-> & _).
      cbn [fst]. rewrite H3, H4, Hb2, Hr2, H5, Hw2, app_nil_r. repeat split; auto.
Qed.

Lemma WExact_write_all_defer_err s bs :
  WInv s -> WExact s -> WExact (fst (write_all_defer_err s bs)).
Proof.
  intros HI HE. unfold write_all_defer_err.
  pose proof (WExact_put s bs HI HE) as (H1 & H2 & H3 & H4). cbn zeta in *.
  destruct (put s bs) as [s' v]. cbn [fst] in *.
  constructor; cbn [with_written wsink werr wbuf g_written]; auto.
Qed.

Lemma WExact_step s o : WInv s -> WExact s -> wop_ok o -> WExact (fst (wstep s o)).
Proof.
  intros HI HE Hok. pose proof HE as [HG He Ha]. destruct o; cbn [wstep].
  - apply WExact_write_all_defer_err; assumption.
  - unfold write_ascii_digits. destruct (nlen (wbuf s) + max_len t <=? wcap s).
    + destruct (nlen (wbuf s) + nlen (decimal v) <=? wcap s); [|exact HE].
      constructor; cbn [fst with_written with_buf wsink werr wbuf g_written]; auto.
      rewrite app_assoc, Ha. reflexivity.
    + apply WExact_write_all_defer_err; assumption.
  - destruct (nlen (wbuf s) + len <=? wcap s); [|exact HE].
    destruct (nlen bs <=? len); [|exact HE].
    constructor; cbn [fst with_written with_buf wsink werr wbuf g_written]; auto.
    rewrite app_assoc, Ha. reflexivity.
  - pose proof (WExact_flush s HE) as ([H1 H2 H3] & _). cbn zeta in *.
    destruct (flush_defer_err s) as [s1 o1]. cbn [fst] in *. destruct o1; cbn [fst]; [constructor; assumption|].
    constructor; cbn [clear_err wsink werr wbuf g_written]; auto.
  - pose proof (WExact_flush s HE) as (H1 & _). cbn zeta in *.
    destruct (flush_defer_err s) as [s1 o1]. cbn [fst] in *. destruct o1; exact H1.
  - constructor; cbn [fst clear_err wsink werr wbuf g_written]; auto.
  - destruct (wpanicked s); [exact HE|].
    pose proof (WExact_flush s HE) as (H1 & _). cbn zeta in *.
    destruct (flush_defer_err s) as [s1 o1]. cbn [fst] in *. destruct o1; exact H1.
Qed.

Lemma WExact_run ops : forall s, WInv s -> WExact s -> wops_ok ops -> WExact (fst (wrun s ops)).
Proof.
  induction ops as [|o os IH]; intros s HI HE Hok; cbn [wrun]; [exact HE|].
  destruct Hok as [Ho Hos]. pose proof (WExact_step s o HI HE Ho) as H1.
  destruct (WInv_step s o HI Ho) as [H2 _].
  destruct (wstep s o) as [s1 v]. cbn [fst] in *.
  specialize (IH s1 H2 H1 Hos). destruct (wrun s1 os) as [s2 vs]. exact IH.
Qed.

(* after a flush or drop the buffer is empty *)
Definition is_sync (o : wop) : bool :=
  match o with WFlush | WFlushDefer | WDrop => true | _ => false end.

Lemma sync_empties s o : WInv s -> is_sync o = true -> wbuf (fst (wstep s o)) = [].
Proof.
  intros HI Ho. destruct o; try discriminate; cbn [wstep].
  - destruct (flush_defer_err s) as [s1 o1] eqn:Hf.
    destruct (WInv_flush _ _ _ _ HI Hf) as (-> & _ & Hb & _). exact Hb.
  - destruct (flush_defer_err s) as [s1 o1] eqn:Hf.
    destruct (WInv_flush _ _ _ _ HI Hf) as (-> & _ & Hb & _). exact Hb.
  - rewrite (wi_pan _ _ HI). destruct (flush_defer_err s) as [s1 o1] eqn:Hf.
    destruct (WInv_flush _ _ _ _ HI Hf) as (-> & _ & Hb & _). exact Hb.
Qed.

(* C11, first half: with a sink that does not fail, after a flush or drop the sink
   holds exactly what was written, in order, once *)
Theorem good_sink_exact evs ops o :
  GoodSink evs -> wops_ok ops -> is_sync o = true ->
  let s := fst (wrun (writer_init evs) (ops ++ [o])) in
  received (wsink s) = g_written s /\ werr s = None.
Proof.
  intros HG Hok Ho. cbn zeta.
  assert (Hrun : forall s ops1 ops2, fst (wrun s (ops1 ++ ops2)) = fst (wrun (fst (wrun s ops1)) ops2)).
  { intros s ops1. revert s. induction ops1 as [|a l IH]; intros s ops2; cbn [wrun app]; [reflexivity|].
    destruct (wstep s a) as [s1 v]. specialize (IH s1 ops2).
    destruct (wrun s1 (l ++ ops2)) as [s2 vs]. destruct (wrun s1 l) as [s3 ws]. cbn [fst] in *. exact IH. }
  rewrite Hrun.
  destruct (WInv_run ops _ (WInv_init evs) Hok) as [HI _].
  pose proof (WExact_run ops _ (WInv_init evs) (WExact_init evs HG) Hok) as HE.
  set (s1 := fst (wrun (writer_init evs) ops)) in *.
  cbn [wrun]. destruct (wstep s1 o) as [s2 v] eqn:Hst. cbn [fst].
  assert (Hok_o : wop_ok o) by (destruct o; try discriminate; exact I).
  pose proof (WExact_step s1 o HI HE Hok_o) as [_ He2 Ha2]. rewrite Hst in *. cbn [fst] in *.
  pose proof (sync_empties s1 o HI Ho) as Hb. rewrite Hst in Hb. cbn [fst] in Hb.
  rewrite Hb, app_nil_r in Ha2. split; assumption.
Qed.

(* ---------- deferred errors ---------- *)
Lemma send_parked s bs e : werr s = Some e -> send s bs = (s, false).
Proof. intros H. unfold send. rewrite H. reflexivity. Qed.

(* while an error is parked the sink is not called, whatever the operation;
   flush and check_io_error report it and clear it, everything else keeps it *)
Theorem parked_error s o e :
  WInv s -> werr s = Some e ->
  let '(s', v) := wstep s o in
  wsink s' = wsink s /\
  match o with
  | WFlush | WCheck => v = WRes (Some e) /\ werr s' = None
  | _ => werr s' = Some e
  end.
Proof.
  intros HI He. pose proof HI as [Hc _ Hp].
  assert (Hfl : flush_defer_err s = (with_buf s [], false)).
  { unfold flush_defer_err. rewrite (send_parked _ _ _ He). reflexivity. }
  assert (Hput : forall bs, wsink (fst (put s bs)) = wsink s /\ werr (fst (put s bs)) = Some e).
  { intros bs. unfold put. destruct (nlen (wbuf s) + nlen bs <=? wcap s); [split; [reflexivity|exact He]|].
    destruct (nlen bs <? wcap s).
    - assert ((wcap s <? nlen (wbuf s)) = false) as -> by (apply N.ltb_ge; exact Hc).
      unfold flush_defer_err. rewrite send_parked with (e := e) by exact He.
      cbn [with_buf wcap wbuf].
      destruct (nlen (nskipn (wcap s - nlen (wbuf s)) bs) <? wcap s); [split; [reflexivity|exact He]|].
      rewrite send_parked with (e := e) by exact He. split; [reflexivity|exact He].
    - rewrite Hfl. cbn [with_buf wcap].
      destruct (nlen bs <? wcap s); [split; [reflexivity|exact He]|].
      rewrite send_parked with (e := e) by exact He. split; [reflexivity|exact He]. }
  destruct o; cbn [wstep].
  - unfold write_all_defer_err. destruct (Hput bs) as [H1 H2]. destruct (put s bs) as [s' v]. cbn [fst] in *.
    split; assumption.
  - unfold write_ascii_digits. destruct (nlen (wbuf s) + max_len t <=? wcap s).
    + destruct (nlen (wbuf s) + nlen (decimal v) <=? wcap s); split; try reflexivity; exact He.
    + unfold write_all_defer_err. destruct (Hput (decimal v)) as [H1 H2]. destruct (put s (decimal v)) as [s' v'].
      cbn [fst] in *. split; assumption.
  - destruct (nlen (wbuf s) + len <=? wcap s); [destruct (nlen bs <=? len)|]; split; try reflexivity; exact He.
  - rewrite Hfl. cbn [with_buf clear_err wsink werr]. rewrite He. repeat split.
  - rewrite Hfl. split; [reflexivity|exact He].
  - cbn [clear_err wsink werr]. rewrite He. repeat split.
  - rewrite Hp, Hfl. split; [reflexivity|exact He].
Qed.

(* an error appears only through a failing sink call, and write operations never fail themselves *)
Theorem writes_always_succeed s o :
  WInv s -> wop_ok o ->
  match o with WWrite _ | WDigits _ _ => snd (wstep s o) = WUnit | _ => True end.
Proof.
  intros HI Hok. destruct o; try exact I; cbn [wstep].
  - apply (WInv_write_all_defer_err s bs HI).
  - unfold write_ascii_digits. cbn [wop_ok] in Hok.
    destruct (decimal_canonical v) as (_ & Hlen & _). specialize (Hlen t Hok).
    destruct (nlen (wbuf s) + max_len t <=? wcap s) eqn:Hfast.
    + apply N.leb_le in Hfast.
      assert ((nlen (wbuf s) + nlen (decimal v) <=? wcap s) = true) as -> by (apply N.leb_le; lia). reflexivity.
    + apply (WInv_write_all_defer_err s (decimal v) HI).
Qed.
