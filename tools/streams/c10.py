"""stream o_c10: N bytes of well-formed cnf / btor2 lines (also: comment lines only, a direct reader user, a line
declaring a huge count) generated on the fly, streamed with various chunk and read sizes; peak live heap must stay below 8*chunk + 16*item + 64 KiB whatever N is."""
def gen(rng, n, tier, **kw):
    big = 4000000 if tier == "thorough" else 150000
    out = []
    for parser in ("cnf", "btor2", "btor2m"):
        for chunk, rs in ((16384, 16384), (16384, 100), (64, 7), (1, 1), (4096, 1 << 20), (3, 2)):
            for item in (20, 300, 5000):
                lines = max(50, (big if chunk > 8 else big // 20) // (item + 120 if parser == "btor2m" else item))
                out.append("o_c10 %s %d %d %d %d" % (parser, lines, chunk, rs, item))
    # comment-only preambles, a direct reader user that sets the mark once, a line declaring a huge count
    for chunk, rs in ((16384, 16384), (64, 7), (1, 1), (4096, 1 << 20)):
        for item in (20, 300):
            lines = max(50, (big * 4 if chunk > 8 else big // 10) // item)
            out.append("o_c10 cnfc %d %d %d %d" % (lines, chunk, rs, item))
            out.append("o_c10 rdr %d %d %d %d" % (lines, chunk, rs, item))
        out.append("o_c10 btor2j 1 %d %d 23" % (chunk, rs))
    # a source that hands out exactly one line per read (read size 0 = the line length): every refill happens on an
    # empty buffer
    for parser in ("cnf", "btor2", "cnfc", "btor2m"):
        for chunk in (16384, 64, 4096):
            for item in (20, 300):
                lines = max(50, (big * 4) // item)
                out.append("o_c10 %s %d %d 0 %d" % (parser, lines, chunk, item))
    return out
def category(case):
    t = case.split(); return "%s/chunk%s" % (t[1], t[3])
def nontrivial(case):
    return True
