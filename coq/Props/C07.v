(* C07 — DIMACS-family and solver-log parsing is independent of layout.
   Pinned statements at the level the model reaches today: the lexical facts every token relies on.  Blank runs of any
   length are skipped as a whole; LF and CRLF are both one line break; leading zeros do not change a numeral's value
   and "-0" is 0; a numeral's reading does not depend on what follows it as long as that is not a digit.
   That the whole parsers depend only on the token sequence is validated by the expect oracle (rendered values with
   random layout, all seven parsers) and the pa correspondence stream (partial). *)
From Flussab Require Import Base Reader Writer Prog Text TextSpec ProgProofs ScanProofs DecimalProofs DigitsProofs RoundTrip.

(* tabs_or_spaces: returns the offset behind the whole blank run, however long *)
Theorem C07_blank_runs_are_skipped_whole : forall fuel off v,
  (length (blank_prefix (rest_at v off)) < fuel)%nat ->
  exists v', srun (tabs_or_spaces fuel off) v = ADone (off + nlen (blank_prefix (rest_at v off))) v' /\
             peeked_to v v' (vcur v + off + nlen (blank_prefix (rest_at v off)) + 1).
Proof. exact tabs_or_spaces_spec. Qed.
Print Assumptions C07_blank_runs_are_skipped_whole.

(* newline: LF is a line break of length 1, CR LF one of length 2, nothing else is *)
Theorem C07_lf_and_crlf : forall off v,
  exists v', srun (newline off) v = ADone (off + newline_len (rest_at v off)) v' /\
             peeked_to v v' (vcur v + off + newline_look (rest_at v off)).
Proof. exact newline_spec. Qed.
Print Assumptions C07_lf_and_crlf.

Theorem C07_newline_len_cases : forall r,
  newline_len (10 :: r) = 1 /\ newline_len (13 :: 10 :: r) = 2 /\ newline_len [13] = 0 /\ newline_len [] = 0.
Proof. intros r. repeat split. Qed.
Print Assumptions C07_newline_len_cases.

(* numerals: leading zeros, "-0" *)
Theorem C07_leading_zeros : forall k l, dec_val (repeat 48 k ++ l) = dec_val l.
Proof. exact dec_val_leading_zeros. Qed.
Print Assumptions C07_leading_zeros.

Theorem C07_minus_zero : forall t rest, no_digit_ahead rest -> signed_spec t (45 :: 48 :: rest) = (Some 0%Z, 2).
Proof. exact signed_spec_minus_zero. Qed.
Print Assumptions C07_minus_zero.

(* a numeral reads the same whatever non-digit follows it: space, tab, CR, LF or the end of the input *)
Theorem C07_numeral_independent_of_what_follows : forall t z rest,
  in_range t z = true -> no_digit_ahead rest ->
  signed_spec t (decimal z ++ rest) = (Some z, nlen (decimal z)).
Proof. exact signed_reads_written. Qed.
Print Assumptions C07_numeral_independent_of_what_follows.

(* ------------------------------------------------------------------ *)
(* Whole parsers (Layout*.v).  doc = (optional header, list of (prefix, literals)) — what parse_dimacs returns;
   layout = plain data for every choice the property lists: blank runs between tokens and at line starts/ends, LF or
   CR LF per line end, comment / blank / whitespace-only filler lines before the header, between clauses and between the
   tokens of a clause (a clause spread over several lines), leading zeros per numeral, 0 or -0 as terminator, the end of
   the file (no final newline, final newline plus filler, a last comment line without LF); render k d lay : bytes.
   For every document in the format's domain (doc_ok) and every well-formed layout (lay_ok), EVERY admissible run of the
   parser program on the rendering returns exactly the document and a clean end — hence any two layouts of a document
   parse to the same value, for every honest source, schedule and chunk size.  Likewise the solver log: a log is a list of
   lines (comments, status, value lines split arbitrarily, other lines when unknown lines are ignored); its value
   depends only on log_value. *)
From Flussab Require Import Consts ReaderProofs Simulation Cnf CnfProofs Hoare CnfSafe Layout LayoutTok LayoutClause LayoutProofs LayoutLog.

Theorem C07_dimacs_parse_of_any_layout : forall fuel k maxd ih d lay r,
  (maxd <= max_dimacs_isize)%Z -> doc_ok ih k maxd d = true -> lay_ok k lay = true ->
  (length (render k d lay) < fuel)%nat -> nlen (render k d lay) < 2 ^ 62 ->
  aruns (parse_dimacs fuel k maxd ih lrs_init) (view_init (render k d lay) None) r ->
  exists lr' v', r = ADone (Some (d_hdr d), d_items d, FOk, lr') v'.
Proof. exact parse_render_all_runs. Qed.
Print Assumptions C07_dimacs_parse_of_any_layout.

Theorem C07_dimacs_layout_independence : forall fuel k maxd ih d lay1 lay2,
  (maxd <= max_dimacs_isize)%Z -> doc_ok ih k maxd d = true -> lay_ok k lay1 = true -> lay_ok k lay2 = true ->
  (length (render k d lay1) < fuel)%nat -> nlen (render k d lay1) < 2 ^ 62 ->
  (length (render k d lay2) < fuel)%nat -> nlen (render k d lay2) < 2 ^ 62 ->
  exists a lr1 v1 lr2 v2,
    srun (parse_dimacs fuel k maxd ih lrs_init) (view_init (render k d lay1) None) = ADone (a, lr1) v1 /\
    srun (parse_dimacs fuel k maxd ih lrs_init) (view_init (render k d lay2) None) = ADone (a, lr2) v2 /\
    a = (Some (d_hdr d), d_items d, FOk).
Proof. exact layout_independence. Qed.
Print Assumptions C07_dimacs_layout_independence.

Theorem C07_dimacs_layout_independence_concrete : forall fuel k maxd ih d lay1 lay2 (sr1 sr2 : source) (c1 c2 : N),
  (maxd <= max_dimacs_isize)%Z -> doc_ok ih k maxd d = true -> lay_ok k lay1 = true -> lay_ok k lay2 = true ->
  (length (render k d lay1) < fuel)%nat -> nlen (render k d lay1) < 2 ^ 62 ->
  (length (render k d lay2) < fuel)%nat -> nlen (render k d lay2) < 2 ^ 62 ->
  NoLie (events sr1) -> 1 <= c1 -> stream_of sr1 = (render k d lay1, None) ->
  NoLie (events sr2) -> 1 <= c2 -> stream_of sr2 = (render k d lay2, None) ->
  exists a lr1 s1 lr2 s2,
    crun (parse_dimacs fuel k maxd ih lrs_init) (set_chunk (reader_init sr1) c1) = CDone (a, lr1) s1 /\
    crun (parse_dimacs fuel k maxd ih lrs_init) (set_chunk (reader_init sr2) c2) = CDone (a, lr2) s2.
Proof. exact layout_independence_concrete. Qed.
Print Assumptions C07_dimacs_layout_independence_concrete.

Theorem C07_log_parse_of_any_line_arrangement : forall fuel maxd iu lines fnl r,
  (maxd <= max_dimacs_isize)%Z -> lines_ok maxd iu lines = true ->
  (S (length (log_text lines fnl)) < fuel)%nat -> nlen (log_text lines fnl) < 2 ^ 62 ->
  aruns (parse_log fuel maxd iu lrs_init) (view_init (log_text lines fnl) None) r ->
  exists lr' v', r = ADone (Ok (log_value lines), lr') v'.
Proof. exact parse_log_lines_all_runs. Qed.
Print Assumptions C07_log_parse_of_any_line_arrangement.

Theorem C07_log_layout_independence : forall fuel maxd iu lines1 fnl1 lines2 fnl2,
  (maxd <= max_dimacs_isize)%Z -> lines_ok maxd iu lines1 = true -> lines_ok maxd iu lines2 = true ->
  log_value lines1 = log_value lines2 ->
  (S (length (log_text lines1 fnl1)) < fuel)%nat -> nlen (log_text lines1 fnl1) < 2 ^ 62 ->
  (S (length (log_text lines2 fnl2)) < fuel)%nat -> nlen (log_text lines2 fnl2) < 2 ^ 62 ->
  exists a lr1 v1 lr2 v2,
    srun (parse_log fuel maxd iu lrs_init) (view_init (log_text lines1 fnl1) None) = ADone (a, lr1) v1 /\
    srun (parse_log fuel maxd iu lrs_init) (view_init (log_text lines2 fnl2) None) = ADone (a, lr2) v2 /\
    a = Ok (log_value lines1).
Proof. exact log_layout_independence. Qed.
Print Assumptions C07_log_layout_independence.

Theorem C07_log_concrete : forall fuel maxd iu lines fnl (sr : source) (c : N),
  (maxd <= max_dimacs_isize)%Z -> lines_ok maxd iu lines = true ->
  (S (length (log_text lines fnl)) < fuel)%nat -> nlen (log_text lines fnl) < 2 ^ 62 ->
  NoLie (events sr) -> 1 <= c -> stream_of sr = (log_text lines fnl, None) ->
  exists lr' s', crun (parse_log fuel maxd iu lrs_init) (set_chunk (reader_init sr) c) = CDone (Ok (log_value lines), lr') s'.
Proof. exact parse_log_lines_concrete. Qed.
Print Assumptions C07_log_concrete.

(* the hypotheses are satisfiable by non-trivial layouts and documents *)
Theorem C07_layout_examples : lay_ok KCnf ex_layout = true /\ doc_ok false KCnf max_dimacs_i32 ex_doc = true.
Proof. split; [exact ex_layout_ok|exact ex_doc_ok]. Qed.
Print Assumptions C07_layout_examples.
