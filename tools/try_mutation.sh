#!/bin/sh
# tools/try_mutation.sh <patch.diff> <Cxx> [tier]: apply a patch to /repo, run the check, undo the patch.
set -u
patch="$(realpath "$1")"; prop="$2"; tier="${3:-quick}"
cd /repo || exit 2
git diff --quiet || { echo "/repo working tree is not clean"; exit 2; }
git apply "$patch" || { echo "patch does not apply"; exit 2; }
cd /verif && ./check "$prop" --tier "$tier"
rc=$?
git -C /repo checkout -- .
echo "exit=$rc"
exit $rc
