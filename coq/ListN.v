(* ListN.v — facts about the N-indexed list helpers and the buffer primitives
   of Reader.v (window / copy_to_front / splice / grow). *)
From Flussab Require Import Base Reader.

Lemma firstn_app_exact {A} (a b : list A) n : length a = n -> firstn n (a ++ b) = a.
Proof. intros <-. rewrite firstn_app, Nat.sub_diag, firstn_all. cbn. apply app_nil_r. Qed.

Lemma skipn_app_exact {A} (a b : list A) n : length a = n -> skipn n (a ++ b) = b.
Proof. intros <-. rewrite skipn_app, Nat.sub_diag, skipn_all. reflexivity. Qed.

Lemma skipn_skipn {A} (l : list A) a b : skipn a (skipn b l) = skipn (a + b) l.
Proof.
  revert l. induction b as [|b IH]; intros l.
  - rewrite Nat.add_0_r. reflexivity.
  - destruct l as [|x l].
    + rewrite !skipn_nil. reflexivity.
    + rewrite Nat.add_succ_r. cbn [skipn]. apply IH.
Qed.

Lemma nlen_window b pos len : pos + len <= nlen b -> nlen (window b pos len) = len.
Proof. unfold window. rewrite nlen_nfirstn, nlen_nskipn. lia. Qed.

Lemma window_copy_to_front b pos len :
  pos + len <= nlen b -> window (copy_to_front b pos len) 0 len = window b pos len.
Proof.
  intros H. unfold copy_to_front. unfold window at 1. unfold nskipn at 1.
  change (N.to_nat 0) with 0%nat. cbn [skipn]. unfold nfirstn at 1.
  apply firstn_app_exact. pose proof (nlen_window b pos len H) as E. unfold nlen in E. lia.
Qed.

Lemma nlen_copy_to_front b pos len :
  pos + len <= nlen b -> nlen (copy_to_front b pos len) = nlen b.
Proof.
  intros H. unfold copy_to_front. rewrite nlen_app, nlen_window by assumption.
  rewrite nlen_nskipn. lia.
Qed.

Lemma window_truncate b m len : len <= m -> window (nfirstn m b) 0 len = window b 0 len.
Proof.
  intros H. unfold window, nskipn, nfirstn. change (N.to_nat 0) with 0%nat. cbn [skipn].
  rewrite firstn_firstn. f_equal. lia.
Qed.

Lemma window_grow b n pos len :
  pos + len <= nlen b -> window (grow b n) pos len = window b pos len.
Proof.
  intros H. unfold window, grow, nskipn, nfirstn. rewrite skipn_app, firstn_app.
  unfold nlen in H. rewrite skipn_length.
  replace (N.to_nat len - (length b - N.to_nat pos))%nat with 0%nat by lia.
  cbn. apply app_nil_r.
Qed.

Lemma nlen_grow b n : nlen b <= n -> nlen (grow b n) = n.
Proof. intros H. unfold grow. rewrite nlen_app, nlen_nrepeat. lia. Qed.

Lemma nlen_splice b at_ bs : at_ + nlen bs <= nlen b -> nlen (splice b at_ bs) = nlen b.
Proof.
  intros H. unfold splice. rewrite !nlen_app, nlen_nfirstn, nlen_nskipn. lia.
Qed.

Lemma window_splice_keep b pos len bs :
  pos + len <= nlen b -> window (splice b (pos + len) bs) pos len = window b pos len.
Proof.
  intros H. unfold window, splice, nskipn, nfirstn, nlen in *.
  rewrite skipn_app, firstn_app. rewrite skipn_length, firstn_length.
  replace (N.to_nat pos - Nat.min (N.to_nat (pos + len)) (length b))%nat with 0%nat by lia.
  replace (N.to_nat len - (Nat.min (N.to_nat (pos + len)) (length b) - N.to_nat pos))%nat with 0%nat by lia.
  cbn. rewrite app_nil_r.
  rewrite skipn_firstn_comm. rewrite firstn_firstn. f_equal. lia.
Qed.

Lemma window_splice_ext b pos len bs :
  pos + len + nlen bs <= nlen b ->
  window (splice b (pos + len) bs) pos (len + nlen bs) = window b pos len ++ bs.
Proof.
  intros H. unfold window, splice, nskipn, nfirstn, nlen in *.
  rewrite skipn_app. rewrite firstn_length.
  replace (N.to_nat pos - Nat.min (N.to_nat (pos + len)) (length b))%nat with 0%nat by lia.
  cbn [skipn]. rewrite skipn_firstn_comm.
  replace (N.to_nat (pos + len) - N.to_nat pos)%nat with (N.to_nat len) by lia.
  rewrite firstn_app. rewrite firstn_length, skipn_length.
  replace (Nat.min (N.to_nat len) (length b - N.to_nat pos)) with (N.to_nat len) by lia.
  rewrite firstn_firstn. replace (Nat.min (N.to_nat (len + N.of_nat (length bs))) (N.to_nat len)) with (N.to_nat len) by lia.
  f_equal.
  replace (N.to_nat (len + N.of_nat (length bs)) - N.to_nat len)%nat with (length bs) by lia.
  apply firstn_app_exact. reflexivity.
Qed.

Lemma window_nil b pos : window b pos 0 = [].
Proof. reflexivity. Qed.

Lemma nskipn_app_l {A} (a b : list A) n : n <= nlen a -> nskipn n (a ++ b) = nskipn n a ++ b.
Proof.
  intros H. unfold nskipn, nlen in *. rewrite skipn_app.
  replace (N.to_nat n - length a)%nat with 0%nat by lia. reflexivity.
Qed.

Lemma nskipn_nskipn {A} (l : list A) a b : nskipn a (nskipn b l) = nskipn (a + b) l.
Proof. unfold nskipn. rewrite skipn_skipn. f_equal. lia. Qed.

Lemma window_window_skip b pos len n :
  n <= len -> window b (pos + n) (len - n) = nskipn n (window b pos len).
Proof.
  intros H. unfold window, nskipn, nfirstn.
  rewrite skipn_firstn_comm. rewrite skipn_skipn. f_equal; [lia | f_equal; lia].
Qed.

Lemma window_window_take b pos len n :
  n <= len -> window b pos n = nfirstn n (window b pos len).
Proof.
  intros H. unfold window, nfirstn. rewrite firstn_firstn. f_equal. lia.
Qed.

Lemma nth_error_firstn {A} : forall n (l : list A) i, (i < n)%nat -> nth_error (firstn n l) i = nth_error l i.
Proof.
  induction n as [|n IH]; intros l i H; [lia|].
  destruct l as [|x l]; [reflexivity|]. destruct i as [|i]; [reflexivity|].
  cbn [firstn nth_error]. apply IH. lia.
Qed.

Lemma nth_error_skipn {A} : forall n (l : list A) i, nth_error (skipn n l) i = nth_error l (n + i).
Proof.
  induction n as [|n IH]; intros l i; [reflexivity|].
  destruct l as [|x l]; [destruct i; reflexivity|]. cbn [skipn Nat.add nth_error]. apply IH.
Qed.
