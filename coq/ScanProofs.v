(* ScanProofs.v — C16: the whitespace / newline / next-newline / fixed-sequence
   scanners return exactly the documented offset, consume nothing, and ask for no
   more input than is needed to decide. *)
From Flussab Require Import Base Reader ListN Writer Prog Text TextSpec ProgProofs.

(* v' is v after peeks whose highest requested absolute offset (+1) is m:
   nothing else about the view that a later operation can observe has changed *)
Definition peeked_to (v v' : view) (m : N) : Prop :=
  vS v' = vS v /\ vfail v' = vfail v /\ vcur v' = vcur v /\ vmark v' = vmark v /\ vtaken v' = vtaken v /\
  vreq v' = N.max (vreq v) m /\
  (* the end of the input has been seen iff some peek went beyond it *)
  vknown v' = vknown v || (nlen (vS v) <? m) /\
  (* what is known to be buffered: everything up to the highest offset asked for, or the whole stream *)
  vhwm v' = if nlen (vS v) <? m then nlen (vS v) else N.max (vhwm v) m.

Lemma vpeek_none_iff v k : vpeek v k = None <-> nlen (vS v) < vcur v + k + 1.
Proof.
  unfold vpeek, nnth, nlen. rewrite nth_error_None. lia.
Qed.

Lemma peeked_after_peek v k : peeked_to v (after_peek v k) (vcur v + k + 1).
Proof.
  unfold peeked_to. cbn [after_peek vS vfail vcur vmark vtaken vreq vknown vhwm].
  split; [reflexivity|]. split; [reflexivity|]. split; [reflexivity|]. split; [reflexivity|]. split; [reflexivity|].
  split; [reflexivity|].
  destruct (vpeek v k) eqn:E.
  - assert (H : ~ nlen (vS v) < vcur v + k + 1) by (rewrite <- vpeek_none_iff; congruence).
    assert ((nlen (vS v) <? vcur v + k + 1) = false) as -> by (apply N.ltb_ge; lia). rewrite orb_false_r. split; reflexivity.
  - apply vpeek_none_iff in E. apply N.ltb_lt in E. rewrite E. rewrite orb_true_r. split; reflexivity.
Qed.

Lemma peeked_trans v v1 v2 m1 m2 :
  peeked_to v v1 m1 -> peeked_to v1 v2 m2 -> peeked_to v v2 (N.max m1 m2).
Proof.
  intros (a1 & a2 & a3 & a4 & a5 & a6 & a7 & a8) (b1 & b2 & b3 & b4 & b5 & b6 & b7 & b8).
  unfold peeked_to.
  split; [congruence|]. split; [congruence|]. split; [congruence|]. split; [congruence|]. split; [congruence|].
  split; [rewrite b6, a6; lia|].
  rewrite a1 in b7, b8.
  split.
  - rewrite b7, a7. rewrite <- orb_assoc. f_equal.
    destruct (nlen (vS v) <? m1) eqn:E1; destruct (nlen (vS v) <? m2) eqn:E2;
      destruct (nlen (vS v) <? N.max m1 m2) eqn:E3; try reflexivity;
      rewrite ?N.ltb_lt, ?N.ltb_ge in *; lia.
  - rewrite b8, a8.
    destruct (nlen (vS v) <? m1) eqn:E1; destruct (nlen (vS v) <? m2) eqn:E2;
      destruct (nlen (vS v) <? N.max m1 m2) eqn:E3; try reflexivity;
      rewrite ?N.ltb_lt, ?N.ltb_ge in *; lia.
Qed.

Lemma peeked_weaken v v' m m' : peeked_to v v' m -> m = m' -> peeked_to v v' m'.
Proof. intros H <-. exact H. Qed.

Lemma rest_at_peeked v v' m off : peeked_to v v' m -> rest_at v' off = rest_at v off.
Proof. intros (a1 & _ & a3 & _). unfold rest_at. rewrite a1, a3. reflexivity. Qed.

Lemma vpeek_rest v off : vpeek v off = match rest_at v off with [] => None | x :: _ => Some x end.
Proof.
  unfold vpeek, rest_at. destruct (nskipn (vcur v + off) (vS v)) as [|x r] eqn:E.
  - apply nskipn_nil_nnth. exact E.
  - apply (nskipn_cons_nnth _ _ _ _ E).
Qed.

Lemma rest_at_succ v off x r : rest_at v off = x :: r -> rest_at v (off + 1) = r.
Proof.
  unfold rest_at. intros E. replace (vcur v + (off + 1)) with (vcur v + off + 1) by lia.
  apply (nskipn_cons_nnth _ _ _ _ E).
Qed.

(* ---------- tabs_or_spaces ---------- *)
Lemma tabs_or_spaces_spec fuel : forall off v,
  (length (blank_prefix (rest_at v off)) < fuel)%nat ->
  exists v', srun (tabs_or_spaces fuel off) v = ADone (off + nlen (blank_prefix (rest_at v off))) v' /\
             peeked_to v v' (vcur v + off + nlen (blank_prefix (rest_at v off)) + 1).
Proof.
  induction fuel as [|f IH]; intros off v Hf; [lia|].
  cbn [tabs_or_spaces srun]. rewrite vpeek_rest.
  destruct (rest_at v off) as [|x r] eqn:E; cbn [blank_prefix] in *.
  - exists (after_peek v off). change (nlen (@nil byte)) with 0. rewrite !N.add_0_r. split; [reflexivity|].
    apply peeked_after_peek.
  - destruct (is_blank x) eqn:Hb.
    + cbn [length] in Hf.
      pose proof (peeked_after_peek v off) as Hp.
      assert (Er : rest_at (after_peek v off) (off + 1) = r).
      { rewrite (rest_at_peeked _ _ _ _ Hp). eapply rest_at_succ; eauto. }
      destruct (IH (off + 1) (after_peek v off)) as (v' & Hrun & Hpk); [rewrite Er; lia|].
      rewrite Er in Hrun, Hpk. exists v'. split.
      * rewrite Hrun. f_equal. unfold nlen. cbn [length]. lia.
      * eapply peeked_weaken; [eapply peeked_trans; [exact Hp|exact Hpk]|].
        change (vcur (after_peek v off)) with (vcur v). unfold nlen. cbn [length]. lia.
    + exists (after_peek v off). change (nlen (@nil byte)) with 0. rewrite !N.add_0_r. split; [reflexivity|].
      apply peeked_after_peek.
Qed.

(* ---------- newline ---------- *)
Definition newline_look (l : bytes) : N :=
  match l with b :: _ => if b =? 10 then 1 else if b =? 13 then 2 else 1 | [] => 1 end.

Lemma newline_spec off v :
  exists v', srun (newline off) v = ADone (off + newline_len (rest_at v off)) v' /\
             peeked_to v v' (vcur v + off + newline_look (rest_at v off)).
Proof.
  unfold newline. cbn [srun]. rewrite vpeek_rest.
  destruct (rest_at v off) as [|x r] eqn:E; cbn [newline_len newline_look].
  - exists (after_peek v off). rewrite N.add_0_r. split; [reflexivity|apply peeked_after_peek].
  - destruct (x =? 10) eqn:H10.
    + exists (after_peek v off). cbn [srun]. split; [reflexivity|apply peeked_after_peek].
    + destruct (x =? 13) eqn:H13.
      * cbn [srun]. pose proof (peeked_after_peek v off) as Hp.
        rewrite vpeek_rest. rewrite (rest_at_peeked _ _ _ _ Hp). rewrite (rest_at_succ _ _ _ _ E).
        exists (after_peek (after_peek v off) (off + 1)). split.
        -- destruct r as [|y r']; [cbn [srun]; rewrite N.add_0_r; reflexivity|].
           destruct (y =? 10); cbn [srun]; rewrite ?N.add_0_r; reflexivity.
        -- eapply peeked_weaken; [eapply peeked_trans; [exact Hp|apply peeked_after_peek]|].
           change (vcur (after_peek v off)) with (vcur v). lia.
      * exists (after_peek v off). cbn [srun]. rewrite N.add_0_r. split; [reflexivity|apply peeked_after_peek].
Qed.

(* ---------- next_newline ---------- *)
Lemma next_newline_spec fuel : forall off v,
  (N.to_nat (before_newline (rest_at v off)) < fuel)%nat ->
  exists v', srun (next_newline fuel off) v = ADone (off + to_next_newline (rest_at v off)) v' /\
             peeked_to v v' (vcur v + off + before_newline (rest_at v off) + 1).
Proof.
  induction fuel as [|f IH]; intros off v Hf; [lia|].
  cbn [next_newline srun]. rewrite vpeek_rest.
  destruct (rest_at v off) as [|x r] eqn:E; cbn [to_next_newline before_newline] in *.
  - cbn [srun]. pose proof (peeked_after_peek v off) as Hp.
    rewrite vpeek_rest, (rest_at_peeked _ _ _ _ Hp), E.
    exists (after_peek (after_peek v off) off). split; [reflexivity|].
    eapply peeked_weaken; [eapply peeked_trans; [exact Hp|apply peeked_after_peek]|].
    change (vcur (after_peek v off)) with (vcur v). lia.
  - destruct (x =? 10) eqn:H10.
    + cbn [srun]. pose proof (peeked_after_peek v off) as Hp.
      rewrite vpeek_rest, (rest_at_peeked _ _ _ _ Hp), E.
      exists (after_peek (after_peek v off) off). split; [reflexivity|].
      eapply peeked_weaken; [eapply peeked_trans; [exact Hp|apply peeked_after_peek]|].
      change (vcur (after_peek v off)) with (vcur v). lia.
    + pose proof (peeked_after_peek v off) as Hp.
      assert (Er : rest_at (after_peek v off) (off + 1) = r).
      { rewrite (rest_at_peeked _ _ _ _ Hp). eapply rest_at_succ; eauto. }
      destruct (IH (off + 1) (after_peek v off)) as (v' & Hrun & Hpk); [rewrite Er; lia|].
      rewrite Er in Hrun, Hpk. exists v'. split.
      * rewrite Hrun. f_equal. lia.
      * eapply peeked_weaken; [eapply peeked_trans; [exact Hp|exact Hpk]|].
        change (vcur (after_peek v off)) with (vcur v). lia.
Qed.

(* ---------- fixed ---------- *)
Lemma fixed_from_spec pat : forall off i v,
  exists v', srun (fixed_from pat off i) v =
             ADone (if common_prefix pat (rest_at v (off + i)) =? nlen pat then off + i + nlen pat else off) v' /\
             peeked_to v v' (match pat with
                             | [] => 0
                             | _ => vcur v + off + i + N.min (common_prefix pat (rest_at v (off + i)) + 1) (nlen pat)
                             end).
Proof.
  induction pat as [|p ps IH]; intros off i v.
  - cbn [fixed_from srun common_prefix]. change (nlen (@nil byte)) with 0. cbn [N.eqb]. rewrite N.add_0_r.
    exists v. split; [reflexivity|].
    assert (E0 : (nlen (vS v) <? 0) = false) by (apply N.ltb_ge; lia).
    unfold peeked_to. rewrite E0, orb_false_r. repeat split; lia.
  - cbn [fixed_from srun]. rewrite vpeek_rest.
    pose proof (peeked_after_peek v (off + i)) as Hp.
    assert (Hlen : nlen (p :: ps) = 1 + nlen ps) by (unfold nlen; cbn [length]; lia).
    destruct (rest_at v (off + i)) as [|x r] eqn:E; cbn [common_prefix].
    + cbn [srun]. assert ((0 =? nlen (p :: ps)) = false) as -> by (apply N.eqb_neq; lia).
      exists (after_peek v (off + i)). split; [reflexivity|].
      eapply peeked_weaken; [exact Hp|]. lia.
    + destruct (x =? p) eqn:Hx.
      * assert (Er : rest_at (after_peek v (off + i)) (off + (i + 1)) = r).
        { rewrite (rest_at_peeked _ _ _ _ Hp). replace (off + (i + 1)) with (off + i + 1) by lia.
          eapply rest_at_succ; eauto. }
        destruct (IH off (i + 1) (after_peek v (off + i))) as (v' & Hrun & Hpk).
        rewrite Er in Hrun, Hpk. exists v'. split.
        -- rewrite Hrun. rewrite Hlen.
           destruct (common_prefix ps r =? nlen ps) eqn:Hc.
           ++ apply N.eqb_eq in Hc. assert ((1 + common_prefix ps r =? 1 + nlen ps) = true) as -> by (apply N.eqb_eq; lia).
              f_equal. lia.
           ++ apply N.eqb_neq in Hc. assert ((1 + common_prefix ps r =? 1 + nlen ps) = false) as -> by (apply N.eqb_neq; lia).
              reflexivity.
        -- eapply peeked_weaken; [eapply peeked_trans; [exact Hp|exact Hpk]|].
           change (vcur (after_peek v (off + i))) with (vcur v). rewrite Hlen.
           destruct ps as [|q qs]; [change (nlen (@nil byte)) with 0; cbn [common_prefix]; lia|]. lia.
      * cbn [srun]. assert ((0 =? nlen (p :: ps)) = false) as -> by (apply N.eqb_neq; lia).
        exists (after_peek v (off + i)). split; [reflexivity|].
        eapply peeked_weaken; [exact Hp|]. lia.
Qed.

Lemma fixed_spec off pat v :
  exists v', srun (fixed off pat) v =
             ADone (if common_prefix pat (rest_at v off) =? nlen pat then off + nlen pat else off) v' /\
             peeked_to v v' (match pat with
                             | [] => 0
                             | _ => vcur v + off + N.min (common_prefix pat (rest_at v off) + 1) (nlen pat)
                             end).
Proof.
  unfold fixed. destruct (fixed_from_spec pat off 0 v) as (v' & H1 & H2).
  rewrite !N.add_0_r in *. exists v'. split; assumption.
Qed.

(* all four are free of buffering questions: every admissible run is the simple run *)
Lemma det_tabs_or_spaces fuel : forall off, det (tabs_or_spaces fuel off).
Proof.
  induction fuel as [|f IH]; intros off; cbn [tabs_or_spaces det]; [exact I|].
  intros o. destruct (match o with Some b => is_blank b | None => false end); [apply IH|exact I].
Qed.

Lemma det_newline off : det (newline off).
Proof.
  unfold newline. cbn [det]. intros [b|]; [|exact I].
  destruct (b =? 10); [exact I|]. destruct (b =? 13); [|exact I].
  cbn [det]. intros o. destruct (match o with Some b1 => b1 =? 10 | None => false end); exact I.
Qed.

Lemma det_next_newline fuel : forall off, det (next_newline fuel off).
Proof.
  induction fuel as [|f IH]; intros off; cbn [next_newline det]; [exact I|].
  intros o. destruct (match o with Some b => b =? 10 | None => true end); [|apply IH].
  cbn [det]. intros o2. exact I.
Qed.

Lemma det_fixed_from pat : forall off i, det (fixed_from pat off i).
Proof.
  induction pat as [|p ps IH]; intros off i; cbn [fixed_from det]; [exact I|].
  intros [x|]; [|exact I]. destruct (x =? p); [apply IH|exact I].
Qed.
