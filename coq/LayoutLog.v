(* LayoutLog.v — C07 for the SAT solver log parser: a log is a sequence of lines — comment lines "c ...", the
   status line, value lines, and (when unknown lines are ignored) arbitrary other lines; its value (status and
   assignment) is computed by [run_lines]; every admissible run of parse_log on the text of a well-formed
   sequence of lines returns exactly that value, however the value lines are split and wherever the other lines
   are placed. *)
From Flussab Require Import Base Reader ListN Writer Parsed Prog Text TextSpec ProgProofs ScanProofs DecimalProofs DigitsProofs RoundTrip.
From Flussab Require Import ReaderProofs Simulation Consts Cnf CnfProofs ErrProofs Hoare CnfSafe Layout LayoutTok LayoutClause LayoutProofs.
Ltac Zify.zify_post_hook ::= Z.to_euclidean_division_equations.

(* ================================================================== *)
(* 1. logs as lines                                                     *)

(* a value line: "v " blanks, literals each followed by blanks, possibly the terminator "0" / "-0" and blanks *)
Record vline := {
  vl_lead : bytes;
  vl_lits : list (Z * nat * bytes);        (* literal, leading zeros, blanks after it *)
  vl_term : option (bool * nat * bytes);   (* "-0"?, leading zeros, blanks after it *)
  vl_crlf : bool
}.

Inductive lline :=
| LComment (body : bytes)                    (* "c " body LF *)
| LOther (body : bytes)                      (* any line that is none of the others: body LF *)
| LStatus (s : option bool) (crlf : bool)    (* "s SATISFIABLE" / "s UNSATISFIABLE" / "s UNKNOWN" *)
| LValue (vl : vline).

Definition status_word (s : option bool) : bytes :=
  match s with Some true => log_sat | Some false => log_unsat | None => log_unknown end.

Fixpoint vlits_text (lits : list (Z * nat * bytes)) : bytes :=
  match lits with
  | [] => []
  | x :: r => lit_numeral (snd (fst x)) (fst (fst x)) ++ snd x ++ vlits_text r
  end.
Definition vterm_text (term : option (bool * nat * bytes)) : bytes :=
  match term with Some t => numeral (fst (fst t)) (snd (fst t)) 0 ++ snd t | None => [] end.

(* a line without its line end *)
Definition line_text (l : lline) : bytes :=
  match l with
  | LComment body => log_comment ++ body
  | LOther body => body
  | LStatus s _ => log_s ++ status_word s
  | LValue vl => log_v ++ vl_lead vl ++ vlits_text (vl_lits vl) ++ vterm_text (vl_term vl)
  end.
Definition line_end (l : lline) : bytes :=
  match l with
  | LComment _ | LOther _ => [10]
  | LStatus _ crlf => eol_bytes crlf
  | LValue vl => eol_bytes (vl_crlf vl)
  end.

(* the text of a log; fnl: the last line has its line end *)
Fixpoint log_text (lines : list lline) (fnl : bool) : bytes :=
  match lines with
  | [] => []
  | l :: r => line_text l ++ (if match r with [] => fnl | _ => true end then line_end l else []) ++ log_text r fnl
  end.

(* ---------- the value of a log ---------- *)
Definition st0 : logstate := {| sat := None; assignment := []; started := false; finished := false |}.

Definition is_some {A} (o : option A) : bool := match o with Some _ => true | None => false end.

Definition step_line (st : logstate) (l : lline) : logstate :=
  match l with
  | LComment _ | LOther _ => st
  | LStatus s _ => {| sat := Some s; assignment := assignment st; started := started st; finished := finished st |}
  | LValue vl => {| sat := sat st; assignment := assignment st ++ List.map (fun x => fst (fst x)) (vl_lits vl);
                    started := true; finished := is_some (vl_term vl) |}
  end.
Definition run_lines (st : logstate) (lines : list lline) : logstate := fold_left step_line lines st.

Definition result_of (st : logstate) : option bool * list Z :=
  (match sat st with Some (Some b) => Some b | _ => None end, assignment st).

Definition log_value (lines : list lline) : option bool * list Z := result_of (run_lines st0 lines).

(* ---------- well-formed logs ---------- *)
Fixpoint starts_with (pat r : bytes) : bool :=
  match pat with
  | [] => true
  | p :: ps => match r with [] => false | x :: r' => (x =? p) && starts_with ps r' end
  end.

(* blanks after the tokens of a value line: non-empty between two tokens *)
Fixpoint seps_ok (l : list bytes) : bool :=
  match l with
  | [] => true
  | b :: r => match r with [] => blank_ok b | _ => sep_ok b && seps_ok r end
  end.
Definition seps (vl : vline) : list bytes :=
  List.map (fun x => snd x) (vl_lits vl) ++ match vl_term vl with Some t => [snd t] | None => [] end.

Definition vline_ok (maxd : Z) (vl : vline) : bool :=
  blank_ok (vl_lead vl) && forallb (fun x => lit_ok maxd (fst (fst x))) (vl_lits vl) && seps_ok (seps vl).

Definition other_ok (body : bytes) : bool :=
  body_ok body && negb (starts_with log_comment body) && negb (starts_with log_v body) && negb (starts_with log_s body).

Definition line_wf (maxd : Z) (iu : bool) (l : lline) : bool :=
  match l with
  | LComment body => body_ok body
  | LOther body => iu && other_ok body
  | LStatus _ _ => true
  | LValue vl => vline_ok maxd vl
  end.

(* one status line at most; no value line after the terminator; a terminator if there is a value line *)
Fixpoint flow_ok (st : logstate) (lines : list lline) : bool :=
  match lines with
  | [] => negb (started st && negb (finished st))
  | l :: r =>
      match l with
      | LComment _ | LOther _ => true
      | LStatus _ _ => negb (is_some (sat st))
      | LValue _ => negb (finished st)
      end && flow_ok (step_line st l) r
  end.

Definition lines_ok (maxd : Z) (iu : bool) (lines : list lline) : bool :=
  forallb (line_wf maxd iu) lines && flow_ok st0 lines.

(* ---------- an example: comments and unknown lines anywhere, the status between two value lines ---------- *)
Definition ex_log : list lline :=
  [ LComment [104; 105];
    LValue {| vl_lead := []; vl_lits := [(1%Z, 0%nat, [32]); ((-2)%Z, 1%nat, [])]; vl_term := None; vl_crlf := true |};
    LOther [111; 116; 104; 101; 114];
    LStatus (Some true) false;
    LOther [];
    LComment [];
    LValue {| vl_lead := [9]; vl_lits := [(3%Z, 0%nat, [32; 32])]; vl_term := Some (true, 1%nat, [32]); vl_crlf := false |};
    LComment [120] ].

Example ex_log_ok : lines_ok max_dimacs_i32 true ex_log = true.
Proof. vm_compute. reflexivity. Qed.

Example ex_log_value : log_value ex_log = (Some true, [1; -2; 3]%Z).
Proof. vm_compute. reflexivity. Qed.

Example ex_log_parses :
  exists lr' v', srun (parse_log 200 max_dimacs_i32 true lrs_init) (view_init (log_text ex_log false) None)
                 = ADone (Ok (log_value ex_log), lr') v'.
Proof. eexists. eexists. vm_compute. reflexivity. Qed.

(* ================================================================== *)
(* 2. facts about the text of lines                                     *)

Lemma starts_with_cp pat : forall r, starts_with pat r = false -> common_prefix pat r <> nlen pat.
Proof.
  induction pat as [|p ps IH]; intros r H; [discriminate|].
  assert (Hl : nlen (p :: ps) = 1 + nlen ps) by (unfold nlen; cbn [length]; lia).
  destruct r as [|x r]; cbn [starts_with common_prefix] in *; [lia|].
  destruct (x =? p); cbn [andb] in H; [|lia]. specialize (IH r H). lia.
Qed.

Lemma starts_with_app_false pat : forall (body r : bytes),
  starts_with pat body = false -> ~ In 10 pat -> starts_with pat (body ++ 10 :: r) = false.
Proof.
  induction pat as [|p ps IH]; intros body r H Hn; [discriminate|].
  destruct body as [|x body]; cbn [app starts_with] in *.
  - assert ((10 =? p) = false) as -> by (apply N.eqb_neq; intros E; apply Hn; left; congruence). reflexivity.
  - destruct (x =? p); cbn [andb] in *; [|reflexivity]. apply IH; [exact H|]. intros Hi. apply Hn. right. exact Hi.
Qed.

Lemma seps_ok_cons (b : bytes) l : seps_ok (b :: l) = true ->
  blank_ok b = true /\ (l <> [] -> b <> []) /\ seps_ok l = true.
Proof.
  cbn [seps_ok]. destruct l as [|c l]; intros H.
  - split; [exact H|]. split; [congruence|reflexivity].
  - apply andb_prop in H. destruct H as [H1 H2]. apply sep_ok_inv in H1. destruct H1 as [H1 H3].
    split; [exact H3|]. split; [intros _; exact H1|exact H2].
Qed.

Lemma vtext_nbl lits term (E : bytes) : nbl E -> nbl (vlits_text lits ++ vterm_text term ++ E).
Proof.
  intros HE. destruct lits as [|x lits]; cbn [vlits_text app].
  - destruct term as [t|]; cbn [vterm_text app]; [|exact HE]. rewrite <- app_assoc. apply numhd_nbl, numeral_numhd.
  - unfold lit_numeral. rewrite <- app_assoc. apply numhd_nbl, numeral_numhd.
Qed.

(* what ends a line: its line end and the following lines, or the end of the input *)
Definition rest_of (l : lline) (r : list lline) (fnl : bool) : bytes :=
  (if match r with [] => fnl | _ => true end then line_end l else []) ++ log_text r fnl.

Lemma log_text_cons l r fnl : log_text (l :: r) fnl = line_text l ++ rest_of l r fnl.
Proof. reflexivity. Qed.

Lemma rest_of_lineend s crlf r fnl : lineend (rest_of (LStatus s crlf) r fnl) (log_text r fnl).
Proof.
  unfold rest_of. destruct r as [|l r]; [destruct fnl|]; cbn [line_end].
  - right. exists crlf. reflexivity.
  - left. split; reflexivity.
  - right. exists crlf. reflexivity.
Qed.

Lemma rest_of_lineend_v vl r fnl : lineend (rest_of (LValue vl) r fnl) (log_text r fnl).
Proof.
  unfold rest_of. destruct r as [|l r]; [destruct fnl|]; cbn [line_end].
  - right. exists (vl_crlf vl). reflexivity.
  - left. split; reflexivity.
  - right. exists (vl_crlf vl). reflexivity.
Qed.

(* comment and other lines end with LF or with the input *)
Lemma rest_of_lf l r fnl : line_end l = [10] ->
  rest_of l r fnl = 10 :: log_text r fnl \/ (rest_of l r fnl = [] /\ log_text r fnl = []).
Proof.
  intros Hl. unfold rest_of. rewrite Hl. destruct r as [|l' r]; [destruct fnl|]; cbn [app]; auto.
Qed.

(* ================================================================== *)
Section Log.
Variable fuel : nat.
Local Notation At := (At fuel).
Local Notation Yields := (Yields fuel).

(* ================================================================== *)
(* 3. tokens of the log parser                                          *)

Lemma fixed_nomatch_At (pat r : bytes) lr v (Q : N -> lrs -> view -> Prop) :
  pat <> [] -> starts_with pat r = false -> At v r -> (forall v1, At v1 r -> Q 0 lr v1) ->
  prt (lift (fixed 0 pat)) lr v Q.
Proof.
  intros Hne Hs HA HQ. apply prt_fixed; [exact Hne|]. intros v1 Hpk.
  pose proof HA as (_ & _ & Hr). rewrite Hr in *.
  pose proof (starts_with_cp pat r Hs) as Hc. apply N.eqb_neq in Hc. rewrite Hc.
  apply HQ. eapply At_peeked; eassumption.
Qed.

Lemma tfixed_At (pat r : bytes) lr v :
  pat <> [] -> At v (pat ++ r) -> prt (tfixed pat) lr v (Yields (Res (Ok tt)) r).
Proof.
  intros Hne HA. unfold tfixed, tok_ok. apply prt_pbnd. eapply fixed_At; [exact Hne|exact HA|]. intros v1 HA1 Hh.
  rewrite N.add_0_l. rewrite (nlen_pos' pat Hne).
  apply prt_pbnd. eapply prt_adv_At; [exact HA1|reflexivity|exact Hh|]. intros v2 HA2. apply prt_ret_Y. exact HA2.
Qed.

Lemma tfixed_nomatch_At (pat r : bytes) lr v :
  pat <> [] -> starts_with pat r = false -> At v r -> prt (tfixed pat) lr v (Yields Fallthrough r).
Proof.
  intros Hne Hs HA. unfold tfixed, tok_ft. apply prt_pbnd. eapply fixed_nomatch_At; [exact Hne|exact Hs|exact HA|].
  intros v1 HA1. change (0 =? 0) with true. cbv iota. apply prt_ret_Y. exact HA1.
Qed.

(* token::interactive_strict_comment on "c " body LF, and on "c " body at the end of the input *)
Lemma strict_comment_At (body r : bytes) lr v :
  body_ok body = true -> At v (log_comment ++ body ++ 10 :: r) ->
  prt (interactive_strict_comment fuel) lr v (Yields (Res (Ok tt)) r).
Proof.
  intros Hb HA. unfold interactive_strict_comment, tok_ok.
  apply prt_pbnd. eapply fixed_At; [discriminate|exact HA|]. intros v1 HA1 _.
  change (0 + nlen log_comment =? 0) with false. cbv iota. change (0 + nlen log_comment) with 2.
  apply prt_pbnd. eapply (next_newline_At fuel 2 log_comment body r); [exact HA1|reflexivity|apply body_ok_nolf; exact Hb|].
  intros v2 HA2 Hh.
  apply prt_pbnd, (prt_line_at_offset fuel); [destruct HA2 as (H & _); exact H|].
  assert (E : log_comment ++ body ++ 10 :: r = (log_comment ++ body ++ [10]) ++ r) by (rewrite <- !app_assoc; reflexivity).
  rewrite E in HA2.
  apply prt_pbnd. eapply prt_adv_At; [exact HA2|rewrite ?nlen_app; reflexivity|exact Hh|].
  intros v3 HA3. apply prt_ret_Y. exact HA3.
Qed.

Lemma strict_comment_eof_At (body : bytes) lr v :
  body_ok body = true -> At v (log_comment ++ body) ->
  prt (interactive_strict_comment fuel) lr v (Yields (Res (Ok tt)) []).
Proof.
  intros Hb HA. unfold interactive_strict_comment, tok_ok.
  apply prt_pbnd. eapply fixed_At; [discriminate|exact HA|]. intros v1 HA1 _.
  change (0 + nlen log_comment =? 0) with false. cbv iota. change (0 + nlen log_comment) with 2.
  apply prt_pbnd. eapply (next_newline_eof_At fuel 2 log_comment body); [exact HA1|reflexivity|apply body_ok_nolf; exact Hb|].
  intros v2 HA2 Hh.
  apply prt_pbnd, (prt_line_at_offset fuel); [destruct HA2 as (H & _); exact H|].
  assert (E : log_comment ++ body = (log_comment ++ body) ++ []) by (rewrite app_nil_r; reflexivity).
  rewrite E in HA2.
  apply prt_pbnd. eapply prt_adv_At; [exact HA2|rewrite ?nlen_app; reflexivity|exact Hh|].
  intros v3 HA3. apply prt_ret_Y. exact HA3.
Qed.

Lemma strict_comment_ft_At (r : bytes) lr v :
  starts_with log_comment r = false -> At v r -> prt (interactive_strict_comment fuel) lr v (Yields Fallthrough r).
Proof.
  intros Hs HA. unfold interactive_strict_comment, tok_ft.
  apply prt_pbnd. eapply fixed_nomatch_At; [discriminate|exact Hs|exact HA|]. intros v1 HA1.
  change (0 =? 0) with true. cbv iota. apply prt_ret_Y. exact HA1.
Qed.

(* token::interactive_skip_line *)
Lemma skip_line_At (body r : bytes) lr v :
  body_ok body = true -> At v (body ++ 10 :: r) ->
  prt (interactive_skip_line fuel) lr v (Yields (Res (Ok tt)) r).
Proof.
  intros Hb HA. unfold interactive_skip_line, tok_ok.
  apply prt_pbnd. eapply (next_newline_At fuel 0 [] body r); [exact HA|reflexivity|apply body_ok_nolf; exact Hb|].
  intros v1 HA1 Hh.
  assert ((0 + (nlen body + 1) =? 0) = false) as -> by (apply N.eqb_neq; lia).
  apply prt_pbnd, (prt_line_at_offset fuel); [destruct HA1 as (H & _); exact H|].
  cbn [app] in HA1.
  assert (E : body ++ 10 :: r = (body ++ [10]) ++ r) by (rewrite <- app_assoc; reflexivity).
  rewrite E in HA1.
  apply prt_pbnd. eapply prt_adv_At; [exact HA1|rewrite ?nlen_app; reflexivity|exact Hh|].
  intros v3 HA3. apply prt_ret_Y. exact HA3.
Qed.

Lemma skip_line_eof_At (body : bytes) lr v :
  body_ok body = true -> body <> [] -> At v body ->
  prt (interactive_skip_line fuel) lr v (Yields (Res (Ok tt)) []).
Proof.
  intros Hb Hne HA. unfold interactive_skip_line, tok_ok.
  apply prt_pbnd. eapply (next_newline_eof_At fuel 0 [] body); [exact HA|reflexivity|apply body_ok_nolf; exact Hb|].
  intros v1 HA1 Hh.
  assert ((0 + nlen body =? 0) = false) as ->.
  { pose proof (nlen_pos' body Hne) as H. apply N.eqb_neq in H. apply N.eqb_neq. lia. }
  apply prt_pbnd, (prt_line_at_offset fuel); [destruct HA1 as (H & _); exact H|].
  cbn [app] in HA1. assert (E : body = body ++ []) by (rewrite app_nil_r; reflexivity). rewrite E in HA1.
  apply prt_pbnd. eapply prt_adv_At; [exact HA1|rewrite N.add_0_l; reflexivity|exact Hh|].
  intros v3 HA3. apply prt_ret_Y. exact HA3.
Qed.

(* the status word and the end of its line *)
Lemma status_tok_At s (E R : bytes) lr v :
  lineend E R -> At v (status_word s ++ E) -> prt (status_tok fuel) lr v (Yields (Res (Ok s)) R).
Proof.
  intros HE HA. unfold status_tok.
  assert (Hend : forall lr' v', At v' E ->
            prt (let* e := or_unexpected (interactive_end_of_line fuel) in
                 match e with Ok _ => tok_ok s | Err er => tok_err er end) lr' v' (Yields (Res (Ok s)) R)).
  { intros lr' v' HA'. eapply prt_bind_Y; [apply or_unexpected_At, (interactive_end_of_line_At fuel E R); assumption|].
    intros lr1 v1 HA1. cbv beta iota. unfold tok_ok. apply prt_ret_Y. exact HA1. }
  destruct s as [[|]|]; cbn [status_word] in HA.
  - eapply prt_bind_Y; [apply tfixed_At; [discriminate|exact HA]|]. intros lr1 v1 HA1. cbv beta iota.
    eapply prt_bind_Y; [unfold tok_ok; apply prt_ret_Y; exact HA1|]. intros lr2 v2 HA2. cbv beta iota.
    apply Hend. exact HA2.
  - eapply prt_bind_Y; [apply (tfixed_nomatch_At log_sat (log_unsat ++ E)); [discriminate|reflexivity|exact HA]|]. intros lr1 v1 HA1. cbv beta iota.
    eapply prt_bind_Y.
    { eapply prt_bind_Y; [apply tfixed_At; [discriminate|exact HA1]|]. intros lr2 v2 HA2. cbv beta iota.
      unfold tok_ok. apply prt_ret_Y. exact HA2. }
    intros lr2 v2 HA2. cbv beta iota. apply Hend. exact HA2.
  - eapply prt_bind_Y; [apply (tfixed_nomatch_At log_sat (log_unknown ++ E)); [discriminate|reflexivity|exact HA]|]. intros lr1 v1 HA1. cbv beta iota.
    eapply prt_bind_Y.
    { eapply prt_bind_Y; [apply (tfixed_nomatch_At log_unsat (log_unknown ++ E)); [discriminate|reflexivity|exact HA1]|]. intros lr2 v2 HA2. cbv beta iota.
      eapply prt_bind_Y; [apply tfixed_At; [discriminate|exact HA2]|]. intros lr3 v3 HA3. cbv beta iota.
      unfold tok_ok. apply prt_ret_Y. exact HA3. }
    intros lr2 v2 HA2. cbv beta iota. apply Hend. exact HA2.
Qed.

(* the literals of a value line *)
Lemma brk_nonnum (E : bytes) : brk E -> nonnum true E.
Proof. destruct E as [|x E]; [exact (fun H => H)|]. cbn. intros [-> | ->]; split; try reflexivity; intros _; lia. Qed.

Lemma value_lits_At maxd lits : forall term acc n (E : bytes) lr v,
  (maxd <= ity_max Isize)%Z ->
  forallb (fun x => lit_ok maxd (fst (fst x))) lits = true ->
  seps_ok (List.map (fun x => snd x) lits ++ match term with Some t => [snd t] | None => [] end) = true ->
  brk E -> nbl E ->
  At v (vlits_text lits ++ vterm_text term ++ E) -> (length lits < n)%nat ->
  prt (value_lits fuel n maxd acc) lr v (Yields (Ok (acc ++ List.map (fun x => fst (fst x)) lits, is_some term)) E).
Proof.
  induction lits as [|[[z zs] b] lits IH]; intros term acc n E lr v Hm Hl Hs HbE HnE HA Hn;
    (destruct n as [|n]; [lia|]); cbn [value_lits vlits_text List.map app] in *.
  - rewrite app_nil_r. apply prt_pbnd, prt_pset_mark. destruct term as [[[m tz] b]|]; cbn [vterm_text is_some fst snd app] in *.
    + cbn [seps_ok] in Hs.
      eapply prt_bind_Y.
      { eapply (lit_tok_At fuel m tz 0 b E); [apply At_setmark; rewrite <- app_assoc in HA; exact HA| |destruct m; reflexivity].
        split; [exact Hs|]. split; [exact HnE|right; exact HbE]. }
      intros lr1 v1 HA1. cbv beta iota.
      assert (E0 : sval m 0 = 0%Z) by (destruct m; reflexivity). rewrite E0. change (0 =? 0)%Z with true. cbv iota.
      apply prt_ret_Y. exact HA1.
    + eapply prt_bind_Y; [apply lit_tok_ft_At; [apply At_setmark; exact HA|apply brk_nonnum; exact HbE]|].
      intros lr1 v1 HA1. cbv beta iota. apply prt_ret_Y. exact HA1.
  - cbn [fst snd] in *. cbn [forallb fst snd] in Hl. apply andb_prop in Hl. destruct Hl as [Hz Hl].
    destruct (lit_ok_inv maxd Hm z Hz) as (Hnz & Hlim & Hin).
    destruct (seps_ok_cons b _ Hs) as (Hb & Hne & Hs').
    rewrite <- !app_assoc in HA. unfold lit_numeral in HA.
    apply prt_pbnd, prt_pset_mark.
    eapply prt_bind_Y.
    { eapply (lit_tok_At fuel (z <? 0)%Z zs (Z.abs_N z) b); [apply At_setmark; exact HA| |rewrite lit_numeral_sval; exact Hin].
      split; [exact Hb|]. split; [apply vtext_nbl; exact HnE|].
      destruct lits as [|x lits]; [destruct term as [t|]|].
      - left. apply Hne. discriminate.
      - right. cbn [vlits_text vterm_text app]. exact HbE.
      - left. apply Hne. discriminate. }
    intros lr1 v1 HA1. cbv beta iota. rewrite lit_numeral_sval. rewrite Hnz, Hlim. cbv iota.
    replace (acc ++ z :: List.map (fun x => fst (fst x)) lits) with ((acc ++ [z]) ++ List.map (fun x => fst (fst x)) lits)
      by (rewrite <- app_assoc; reflexivity).
    apply IH; try assumption. cbn [length] in Hn. lia.
Qed.

(* while interactive_strict_comment matches *)
Fixpoint drop_comments (lines : list lline) : list lline :=
  match lines with
  | LComment _ :: r => drop_comments r
  | _ => lines
  end.

Definition is_comment (l : lline) : bool := match l with LComment _ => true | _ => false end.

Lemma drop_comments_hd lines : match drop_comments lines with l :: _ => is_comment l = false | [] => True end.
Proof. induction lines as [|[| | |] r IH]; cbn [drop_comments is_comment]; auto. Qed.

Lemma drop_comments_len lines : (length (drop_comments lines) <= length lines)%nat.
Proof. induction lines as [|[| | |] r IH]; cbn [drop_comments length]; lia. Qed.

Lemma drop_comments_run st lines : run_lines st (drop_comments lines) = run_lines st lines.
Proof. revert st. induction lines as [|[| | |] r IH]; intros st; cbn [drop_comments]; try reflexivity. apply IH. Qed.

Lemma drop_comments_flow st lines : flow_ok st lines = true -> flow_ok st (drop_comments lines) = true.
Proof. revert st. induction lines as [|[| | |] r IH]; intros st H; cbn [drop_comments]; try exact H. apply IH. exact H. Qed.

Lemma drop_comments_wf maxd iu lines :
  forallb (line_wf maxd iu) lines = true -> forallb (line_wf maxd iu) (drop_comments lines) = true.
Proof.
  induction lines as [|[| | |] r IH]; intros H; cbn [drop_comments]; try exact H. apply IH.
  cbn [forallb] in H. apply andb_prop in H. tauto.
Qed.

(* the start of a line that is no comment line *)
Lemma line_no_comment maxd iu l r fnl :
  line_wf maxd iu l = true -> is_comment l = false -> starts_with log_comment (log_text (l :: r) fnl) = false.
Proof.
  intros Hw Hc. rewrite log_text_cons. destruct l as [body|body|s crlf|vl]; [discriminate| |reflexivity|reflexivity].
  cbn [line_wf line_text] in *. apply andb_prop in Hw. destruct Hw as [_ Hw]. unfold other_ok in Hw.
  apply andb_prop in Hw. destruct Hw as [Hw _]. apply andb_prop in Hw. destruct Hw as [Hw _]. apply andb_prop in Hw.
  destruct Hw as [_ Hw]. apply negb_true_iff in Hw.
  destruct (rest_of_lf (LOther body) r fnl eq_refl) as [-> |[-> _]].
  - apply starts_with_app_false; [exact Hw|]. cbv. intuition discriminate.
  - rewrite app_nil_r. exact Hw.
Qed.

Lemma strict_comments_At maxd iu lines : forall n fnl lr v,
  forallb (line_wf maxd iu) lines = true -> At v (log_text lines fnl) ->
  (length lines - length (drop_comments lines) < n)%nat ->
  prt (strict_comments fuel n) lr v (Yields (Ok tt) (log_text (drop_comments lines) fnl)).
Proof.
  induction lines as [|l r IH]; intros n fnl lr v Hw HA Hn; (destruct n as [|n]; [lia|]); cbn [strict_comments].
  - cbn [drop_comments log_text] in *.
    eapply prt_bind_Y; [apply matches_ft_At, (strict_comment_ft_At []); [reflexivity|exact HA]|].
    intros lr1 v1 HA1. cbv beta iota. apply prt_ret_Y. exact HA1.
  - pose proof Hw as Hw0. cbn [forallb] in Hw. apply andb_prop in Hw. destruct Hw as [Hl Hr]. cbn [length] in Hn.
    destruct (is_comment l) eqn:Ec.
    + destruct l as [body| | |]; try discriminate. cbn [drop_comments line_wf] in *.
      pose proof (drop_comments_len r) as Hdl.
      rewrite log_text_cons in HA. cbn [line_text] in HA. rewrite <- app_assoc in HA.
      destruct (rest_of_lf (LComment body) r fnl eq_refl) as [E|[E E2]]; rewrite E in HA.
      * eapply prt_bind_Y; [eapply matches_At, strict_comment_At; [exact Hl|exact HA]|].
        intros lr1 v1 HA1. cbv beta iota. apply IH; [exact Hr|exact HA1|lia].
      * rewrite app_nil_r in HA.
        eapply prt_bind_Y; [eapply matches_At, strict_comment_eof_At; [exact Hl|exact HA]|].
        intros lr1 v1 HA1. cbv beta iota. rewrite <- E2 in HA1. apply IH; [exact Hr|exact HA1|lia].
    + assert (Ed : drop_comments (l :: r) = l :: r) by (destruct l; try discriminate; reflexivity). rewrite Ed.
      eapply prt_bind_Y; [apply matches_ft_At, strict_comment_ft_At; [apply (line_no_comment maxd iu l r fnl); assumption|exact HA]|].
      intros lr1 v1 HA1. cbv beta iota. apply prt_ret_Y. exact HA1.
Qed.


Lemma lead_comments_len lines fnl :
  (2 * (length lines - length (drop_comments lines)) <= length (log_text lines fnl))%nat.
Proof.
  induction lines as [|l r IH]; [cbn; lia|]. destruct l as [body| | |]; cbn [drop_comments length]; try lia.
  pose proof (drop_comments_len r). rewrite log_text_cons. cbn [line_text]. unfold rest_of. rewrite !app_length.
  cbn [log_comment length]. lia.
Qed.

Lemma line_end_len l : (1 <= length (line_end l))%nat.
Proof.
  destruct l as [body|body|s crlf|vl]; cbn [line_end]; [cbn; lia|cbn; lia|destruct crlf; cbn; lia|destruct (vl_crlf vl); cbn; lia].
Qed.

Lemma lines_len lines fnl : (length lines <= S (length (log_text lines fnl)))%nat.
Proof.
  induction lines as [|l r IH]; [cbn; lia|]. cbn [length log_text]. rewrite !app_length.
  destruct r as [|l' r]; [cbn [length]; lia|].
  pose proof (line_end_len l). cbn [length] in *. lia.
Qed.

Lemma vlits_len lits : (length lits <= length (vlits_text lits))%nat.
Proof.
  induction lits as [|x lits IH]; [cbn; lia|]. cbn [vlits_text length]. rewrite !app_length.
  pose proof (numeral_nonempty (fst (fst x) <? 0)%Z (snd (fst x)) (Z.abs_N (fst (fst x)))) as H. unfold lit_numeral.
  destruct (numeral (fst (fst x) <? 0)%Z (snd (fst x)) (Z.abs_N (fst (fst x)))); [congruence|cbn [length]; lia].
Qed.

(* ================================================================== *)
(* 4. one iteration of the parser's loop                                *)

(* the loop body after the comment lines (the text of log_loop in Cnf.v) *)
Definition log_body (n : nat) (maxd : Z) (iu : bool) (st : logstate) : PM (result (option bool * list Z) perr) :=
  let* v := (if finished st then pret (Ok false) else matches_tok (tfixed log_v)) in
  match v with
  | Err e => pret (Err e)
  | Ok true =>
      skip_whitespace fuel ;;;;
      let* ls := value_lits fuel fuel maxd (assignment st) in
      match ls with
      | Err e => pret (Err e)
      | Ok (a, fin) =>
          let* e := or_unexpected (interactive_end_of_line fuel) in
          match e with
          | Err er => pret (Err er)
          | Ok _ => log_loop fuel n maxd iu {| sat := sat st; assignment := a; started := true; finished := fin |}
          end
      end
  | Ok false =>
      let* s := (match sat st with Some _ => pret (Ok false) | None => matches_tok (tfixed log_s) end) in
      match s with
      | Err e => pret (Err e)
      | Ok true =>
          let* r := or_unexpected (status_tok fuel) in
          match r with
          | Err e => pret (Err e)
          | Ok v => log_loop fuel n maxd iu
                      {| sat := Some v; assignment := assignment st; started := started st; finished := finished st |}
          end
      | Ok false =>
          let* ef := matches_tok teof in
          match ef with
          | Err e => pret (Err e)
          | Ok true =>
              if started st && negb (finished st) then let* e := unexpected in pret (Err e)
              else pret (Ok (match sat st with Some (Some b) => Some b | _ => None end, assignment st))
          | Ok false =>
              let* sk := (if iu then matches_tok (interactive_skip_line fuel) else pret (Ok false)) in
              match sk with
              | Err e => pret (Err e)
              | Ok true => log_loop fuel n maxd iu st
              | Ok false => let* e := unexpected in pret (Err e)
              end
          end
      end
  end.

Lemma log_unfold n maxd iu st :
  log_loop fuel (S n) maxd iu st =
  (let* c := strict_comments fuel fuel in
   match c with Err e => pret (Err e) | Ok _ => log_body n maxd iu st end).
Proof. reflexivity. Qed.

Lemma vcheck_ft st (r : bytes) lr v :
  starts_with log_v r = false -> At v r ->
  prt (if finished st then pret (Ok false) else matches_tok (tfixed log_v)) lr v (Yields (Ok false) r).
Proof.
  intros Hs HA. destruct (finished st); [apply prt_ret_Y; exact HA|].
  apply matches_ft_At, tfixed_nomatch_At; [discriminate|exact Hs|exact HA].
Qed.

Lemma scheck_ft st (r : bytes) lr v :
  starts_with log_s r = false -> At v r ->
  prt (match sat st with Some _ => pret (Ok false) | None => matches_tok (tfixed log_s) end) lr v (Yields (Ok false) r).
Proof.
  intros Hs HA. destruct (sat st); [apply prt_ret_Y; exact HA|].
  apply matches_ft_At, tfixed_nomatch_At; [discriminate|exact Hs|exact HA].
Qed.

Lemma teof_ft_At' (r : bytes) lr v : r <> [] -> At v r -> prt teof lr v (Yields Fallthrough r).
Proof. intros Hne HA. destruct r as [|x r]; [congruence|]. apply teof_ft_At. exact HA. Qed.

(* the end of the input *)
Lemma log_body_end n maxd iu st lr v :
  flow_ok st [] = true -> At v [] -> prt (log_body n maxd iu st) lr v (Yields (Ok (result_of st)) []).
Proof.
  intros Hfl HA. unfold log_body.
  eapply prt_bind_Y; [apply (vcheck_ft st []); [reflexivity|exact HA]|]. intros lr1 v1 HA1. cbv beta iota.
  eapply prt_bind_Y; [apply (scheck_ft st []); [reflexivity|exact HA1]|]. intros lr2 v2 HA2. cbv beta iota.
  eapply prt_bind_Y; [eapply matches_At, teof_At; exact HA2|]. intros lr3 v3 HA3. cbv beta iota.
  cbn [flow_ok] in Hfl. apply negb_true_iff in Hfl. rewrite Hfl. apply prt_ret_Y. exact HA3.
Qed.

(* a line that is none of the others *)
Lemma log_body_other n maxd st body (R : bytes) (rest : bytes) P lr v :
  other_ok body = true -> (rest = 10 :: R \/ (rest = [] /\ R = [] /\ body <> [])) ->
  At v (body ++ rest) ->
  (forall lr' v', At v' R -> prt (log_loop fuel n maxd true st) lr' v' P) ->
  prt (log_body n maxd true st) lr v P.
Proof.
  intros Ho Hrest HA Hloop. unfold other_ok in Ho.
  apply andb_prop in Ho. destruct Ho as [Ho Hs]. apply andb_prop in Ho. destruct Ho as [Ho Hv].
  apply andb_prop in Ho. destruct Ho as [Hb Hc]. apply negb_true_iff in Hs, Hv, Hc.
  assert (Hsw : starts_with log_v (body ++ rest) = false /\ starts_with log_s (body ++ rest) = false /\ body ++ rest <> []).
  { destruct Hrest as [-> |(-> & _ & Hne)].
    - split; [apply starts_with_app_false; [exact Hv|cbv; intuition discriminate]|].
      split; [apply starts_with_app_false; [exact Hs|cbv; intuition discriminate]|]. destruct body; discriminate.
    - rewrite app_nil_r. auto. }
  destruct Hsw as (Hv' & Hs' & Hne').
  unfold log_body.
  eapply prt_bind_Y; [apply (vcheck_ft st (body ++ rest)); [exact Hv'|exact HA]|]. intros lr1 v1 HA1. cbv beta iota.
  eapply prt_bind_Y; [apply (scheck_ft st (body ++ rest)); [exact Hs'|exact HA1]|]. intros lr2 v2 HA2. cbv beta iota.
  eapply prt_bind_Y; [apply matches_ft_At, teof_ft_At'; [exact Hne'|exact HA2]|]. intros lr3 v3 HA3. cbv beta iota.
  destruct Hrest as [-> |(-> & -> & Hne)].
  - eapply prt_bind_Y; [eapply matches_At, skip_line_At; [exact Hb|exact HA3]|]. intros lr4 v4 HA4. cbv beta iota.
    apply Hloop. exact HA4.
  - rewrite app_nil_r in HA3.
    eapply prt_bind_Y; [eapply matches_At, skip_line_eof_At; [exact Hb|exact Hne|exact HA3]|]. intros lr4 v4 HA4. cbv beta iota.
    apply Hloop. exact HA4.
Qed.

(* the status line *)
Lemma log_body_status n maxd iu st s (E R : bytes) P lr v :
  sat st = None -> lineend E R -> At v (log_s ++ status_word s ++ E) ->
  (forall lr' v', At v' R ->
     prt (log_loop fuel n maxd iu {| sat := Some s; assignment := assignment st; started := started st; finished := finished st |})
         lr' v' P) ->
  prt (log_body n maxd iu st) lr v P.
Proof.
  intros Hsat HE HA Hloop. unfold log_body.
  eapply prt_bind_Y; [apply (vcheck_ft st (log_s ++ status_word s ++ E)); [reflexivity|exact HA]|]. intros lr1 v1 HA1. cbv beta iota.
  rewrite Hsat.
  eapply prt_bind_Y; [eapply matches_At, tfixed_At; [discriminate|exact HA1]|]. intros lr2 v2 HA2. cbv beta iota.
  eapply prt_bind_Y; [apply or_unexpected_At, (status_tok_At s E R); assumption|]. intros lr3 v3 HA3. cbv beta iota.
  apply Hloop. exact HA3.
Qed.

(* a value line *)
Lemma log_body_value n maxd iu st vl (E R : bytes) P lr v :
  (maxd <= ity_max Isize)%Z -> finished st = false -> vline_ok maxd vl = true -> lineend E R ->
  At v (log_v ++ vl_lead vl ++ vlits_text (vl_lits vl) ++ vterm_text (vl_term vl) ++ E) ->
  (forall lr' v', At v' R ->
     prt (log_loop fuel n maxd iu {| sat := sat st; assignment := assignment st ++ List.map (fun x => fst (fst x)) (vl_lits vl);
                                     started := true; finished := is_some (vl_term vl) |}) lr' v' P) ->
  prt (log_body n maxd iu st) lr v P.
Proof.
  intros Hm Hfin Hvl HE HA Hloop. unfold vline_ok in Hvl.
  apply andb_prop in Hvl. destruct Hvl as [Hvl Hseps]. apply andb_prop in Hvl. destruct Hvl as [Hlead Hlits].
  destruct (lineend_brk E R HE) as [HbE HnE].
  unfold log_body. rewrite Hfin.
  eapply prt_bind_Y; [eapply matches_At, tfixed_At; [discriminate|exact HA]|]. intros lr1 v1 HA1. cbv beta iota.
  eapply prt_bind_Y; [apply (skip_whitespace_At fuel (vl_lead vl)); [exact Hlead|apply vtext_nbl; exact HnE|exact HA1]|].
  intros lr2 v2 HA2. cbv beta.
  eapply prt_bind_Y.
  { apply (value_lits_At maxd (vl_lits vl) (vl_term vl) (assignment st) fuel E); try assumption.
    pose proof (At_fuel _ _ _ HA2) as H. rewrite app_length in H. pose proof (vlits_len (vl_lits vl)). lia. }
  intros lr3 v3 HA3. cbv beta iota.
  eapply prt_bind_Y; [apply or_unexpected_At, (interactive_end_of_line_At fuel E R); assumption|].
  intros lr4 v4 HA4. cbv beta iota. apply Hloop. exact HA4.
Qed.

(* ================================================================== *)
(* 5. the whole log                                                     *)

Lemma log_loop_At maxd iu fnl : (maxd <= ity_max Isize)%Z -> forall n lines st lr v,
  forallb (line_wf maxd iu) lines = true -> flow_ok st lines = true ->
  At v (log_text lines fnl) -> (length lines < n)%nat ->
  prt (log_loop fuel n maxd iu st) lr v (Yields (Ok (result_of (run_lines st lines))) []).
Proof.
  intros Hm. induction n as [|n IH]; intros lines st lr v Hw Hfl HA Hn; [lia|]. rewrite log_unfold.
  eapply prt_bind_Y.
  { apply (strict_comments_At maxd iu lines fuel fnl); [exact Hw|exact HA|].
    pose proof (At_fuel _ _ _ HA). pose proof (lead_comments_len lines fnl). lia. }
  intros lr1 v1 HA1. cbv beta iota.
  rewrite <- (drop_comments_run st lines).
  pose proof (drop_comments_hd lines) as Hhd. pose proof (drop_comments_len lines) as Hlen.
  pose proof (drop_comments_flow st lines Hfl) as Hfl'. pose proof (drop_comments_wf maxd iu lines Hw) as Hw'.
  destruct (drop_comments lines) as [|l r].
  - apply log_body_end; assumption.
  - cbn [forallb] in Hw'. apply andb_prop in Hw'. destruct Hw' as [Hl Hr].
    cbn [flow_ok] in Hfl'. apply andb_prop in Hfl'. destruct Hfl' as [Hfl1 Hfl2].
    cbn [length] in Hlen. rewrite log_text_cons in HA1.
    assert (Hrec : forall lr' v', At v' (log_text r fnl) ->
              prt (log_loop fuel n maxd iu (step_line st l)) lr' v' (Yields (Ok (result_of (run_lines st (l :: r)))) [])).
    { intros lr' v' HA'. apply (IH r (step_line st l)); [exact Hr|exact Hfl2|exact HA'|lia]. }
    destruct l as [body|body|s crlf|vl]; cbn [is_comment line_wf line_text step_line] in *.
    + discriminate.
    + apply andb_prop in Hl. destruct Hl as [Hiu Ho]. subst iu.
      destruct (rest_of_lf (LOther body) r fnl eq_refl) as [E|[E E2]].
      * apply (log_body_other n maxd st body (log_text r fnl) (rest_of (LOther body) r fnl)); [exact Ho|left; exact E|exact HA1|exact Hrec].
      * destruct body as [|x body].
        -- rewrite E in HA1. cbn [app] in HA1.
           assert (Er : r = []).
           { unfold rest_of in E. destruct r as [|l' r']; [reflexivity|]. cbn [line_end app] in E. discriminate. }
           subst r. cbn [run_lines fold_left step_line]. apply log_body_end; [exact Hfl2|exact HA1].
        -- apply (log_body_other n maxd st (x :: body) (log_text r fnl) (rest_of (LOther (x :: body)) r fnl));
             [exact Ho|right; split; [exact E|split; [exact E2|discriminate]]|exact HA1|exact Hrec].
    + apply negb_true_iff in Hfl1. assert (Hsat : sat st = None) by (destruct (sat st); [discriminate|reflexivity]).
      rewrite <- app_assoc in HA1.
      apply (log_body_status n maxd iu st s (rest_of (LStatus s crlf) r fnl) (log_text r fnl));
        [exact Hsat|apply rest_of_lineend|exact HA1|exact Hrec].
    + apply negb_true_iff in Hfl1. rewrite <- !app_assoc in HA1.
      apply (log_body_value n maxd iu st vl (rest_of (LValue vl) r fnl) (log_text r fnl));
        [exact Hm|exact Hfl1|exact Hl|apply rest_of_lineend_v|exact HA1|exact Hrec].
Qed.

End Log.

(* ================================================================== *)
(* 6. the text of a well-formed log is a byte string                    *)

Lemma vlits_bok maxd lits :
  forallb (fun x => lit_ok maxd (fst (fst x))) lits = true -> (forall b, In b (List.map (fun x => snd x) lits) -> blank_ok b = true) ->
  bok (vlits_text lits).
Proof.
  induction lits as [|x lits IH]; intros Hl Hb; cbn [vlits_text]; [constructor|].
  apply bok_app; [apply numeral_bytes_ok|]. apply bok_app; [apply blank_bok, Hb; left; reflexivity|].
  cbn [forallb] in Hl. apply andb_prop in Hl. apply IH; [tauto|]. intros b Hi. apply Hb. right. exact Hi.
Qed.

Lemma seps_ok_all l : seps_ok l = true -> forall b, In b l -> blank_ok b = true.
Proof.
  induction l as [|c l IH]; intros H b Hi; [destruct Hi|]. destruct (seps_ok_cons c l H) as (H1 & _ & H3).
  destruct Hi as [<- |Hi]; [exact H1|apply IH; assumption].
Qed.

Lemma line_bok maxd iu l : line_wf maxd iu l = true -> bok (line_text l) /\ bok (line_end l).
Proof.
  destruct l as [body|body|s crlf|vl]; cbn [line_wf line_text line_end]; intros H.
  - split; [|repeat constructor; lia]. apply bok_app; [repeat constructor; lia|apply body_ok_bytes; exact H].
  - split; [|repeat constructor; lia]. apply andb_prop in H. destruct H as [_ H]. unfold other_ok in H.
    apply andb_prop in H. destruct H as [H _]. apply andb_prop in H. destruct H as [H _]. apply andb_prop in H.
    destruct H as [H _]. apply body_ok_bytes. exact H.
  - split; [|apply eol_bok]. apply bok_app; [repeat constructor; lia|]. destruct s as [[|]|]; repeat constructor; lia.
  - split; [|apply eol_bok]. unfold vline_ok in H. apply andb_prop in H. destruct H as [H Hs]. apply andb_prop in H.
    destruct H as [Hlead Hl]. pose proof (seps_ok_all _ Hs) as Hall. unfold seps in Hall.
    apply bok_app; [repeat constructor; lia|]. apply bok_app; [apply blank_bok; exact Hlead|].
    apply bok_app.
    + apply (vlits_bok maxd); [exact Hl|]. intros b Hi. apply Hall. apply in_or_app. left. exact Hi.
    + destruct (vl_term vl) as [t|]; cbn [vterm_text]; [|constructor].
      apply bok_app; [apply numeral_bytes_ok|]. apply blank_bok, Hall. apply in_or_app. right. left. reflexivity.
Qed.

Lemma log_text_bok maxd iu lines fnl : forallb (line_wf maxd iu) lines = true -> bok (log_text lines fnl).
Proof.
  induction lines as [|l r IH]; intros H; cbn [log_text]; [constructor|].
  cbn [forallb] in H. apply andb_prop in H. destruct H as [Hl Hr]. destruct (line_bok maxd iu l Hl) as [H1 H2].
  apply bok_app; [exact H1|]. apply bok_app; [|apply IH; exact Hr].
  destruct (match r with [] => fnl | _ :: _ => true end); [exact H2|constructor].
Qed.

(* ================================================================== *)
(* 7. the theorems                                                      *)

(* C07 for solver logs, for every admissible run: the result is the value of the log *)
Theorem parse_log_lines_all_runs fuel maxd iu lines fnl r :
  (maxd <= max_dimacs_isize)%Z -> lines_ok maxd iu lines = true ->
  (S (length (log_text lines fnl)) < fuel)%nat -> nlen (log_text lines fnl) < 2 ^ 62 ->
  aruns (parse_log fuel maxd iu lrs_init) (view_init (log_text lines fnl) None) r ->
  exists lr' v', r = ADone (Ok (log_value lines), lr') v'.
Proof.
  intros Hm Hok Hf Hlen Hr. unfold lines_ok in Hok. apply andb_prop in Hok. destruct Hok as [Hw Hfl].
  assert (HA : At fuel (view_init (log_text lines fnl) None) (log_text lines fnl)).
  { apply At_init; [apply (log_text_bok maxd iu); exact Hw|exact Hlen|lia]. }
  assert (Hp : prt (parse_log fuel maxd iu) lrs_init (view_init (log_text lines fnl) None)
                 (Yields fuel (Ok (log_value lines)) [])).
  { unfold parse_log. apply (log_loop_At fuel maxd iu fnl Hm fuel lines st0); [exact Hw|exact Hfl|exact HA|].
    pose proof (lines_len lines fnl). lia. }
  destruct (prt_elim _ _ _ _ _ Hp Hr) as (a & lr' & v' & -> & -> & _). exists lr', v'. reflexivity.
Qed.
Print Assumptions parse_log_lines_all_runs.

Theorem parse_log_lines fuel maxd iu lines fnl :
  (maxd <= max_dimacs_isize)%Z -> lines_ok maxd iu lines = true ->
  (S (length (log_text lines fnl)) < fuel)%nat -> nlen (log_text lines fnl) < 2 ^ 62 ->
  exists lr' v', srun (parse_log fuel maxd iu lrs_init) (view_init (log_text lines fnl) None)
                 = ADone (Ok (log_value lines), lr') v'.
Proof.
  intros Hm Hok Hf Hlen. apply (parse_log_lines_all_runs fuel maxd iu lines fnl _ Hm Hok Hf Hlen).
  apply srun_aruns. unfold WFV. cbn. lia.
Qed.
Print Assumptions parse_log_lines.

(* two logs with the same status and the same literals — however the value lines are split, wherever the comment
   lines, the status line and (when unknown lines are ignored) other lines are placed, with LF or CR LF, leading
   zeros, "-0", with or without the final line end — give the same result *)
Corollary log_layout_independence fuel maxd iu lines1 fnl1 lines2 fnl2 :
  (maxd <= max_dimacs_isize)%Z -> lines_ok maxd iu lines1 = true -> lines_ok maxd iu lines2 = true ->
  log_value lines1 = log_value lines2 ->
  (S (length (log_text lines1 fnl1)) < fuel)%nat -> nlen (log_text lines1 fnl1) < 2 ^ 62 ->
  (S (length (log_text lines2 fnl2)) < fuel)%nat -> nlen (log_text lines2 fnl2) < 2 ^ 62 ->
  exists a lr1 v1 lr2 v2,
    srun (parse_log fuel maxd iu lrs_init) (view_init (log_text lines1 fnl1) None) = ADone (a, lr1) v1 /\
    srun (parse_log fuel maxd iu lrs_init) (view_init (log_text lines2 fnl2) None) = ADone (a, lr2) v2 /\
    a = Ok (log_value lines1).
Proof.
  intros Hm H1 H2 Heq Hf1 Hn1 Hf2 Hn2.
  destruct (parse_log_lines fuel maxd iu lines1 fnl1 Hm H1 Hf1 Hn1) as (lr1 & v1 & E1).
  destruct (parse_log_lines fuel maxd iu lines2 fnl2 Hm H2 Hf2 Hn2) as (lr2 & v2 & E2).
  rewrite <- Heq in E2. exists (Ok (log_value lines1)), lr1, v1, lr2, v2. auto.
Qed.
Print Assumptions log_layout_independence.

(* every concrete run of the DeferredReader model on an honest source delivering the text *)
Corollary parse_log_lines_concrete fuel maxd iu lines fnl (sr : source) (c : N) :
  (maxd <= max_dimacs_isize)%Z -> lines_ok maxd iu lines = true ->
  (S (length (log_text lines fnl)) < fuel)%nat -> nlen (log_text lines fnl) < 2 ^ 62 ->
  NoLie (events sr) -> 1 <= c -> stream_of sr = (log_text lines fnl, None) ->
  exists lr' s', crun (parse_log fuel maxd iu lrs_init) (set_chunk (reader_init sr) c) = CDone (Ok (log_value lines), lr') s'.
Proof.
  intros Hm Hok Hf Hlen HN Hc Hs.
  pose proof Hok as Hok0. unfold lines_ok in Hok0. apply andb_prop in Hok0. destruct Hok0 as [Hw _].
  destruct (parse_log_any_chunking fuel maxd iu sr c HN Hc) as (a & v' & s' & E & C).
  - rewrite Hs. apply (log_text_bok maxd iu). exact Hw.
  - rewrite Hs. exact Hlen.
  - rewrite Hs. cbn [fst]. lia.
  - rewrite Hs in E. cbn [fst snd] in E.
    destruct (parse_log_lines fuel maxd iu lines fnl Hm Hok Hf Hlen) as (lr' & v1 & E1).
    rewrite E1 in E. inversion E; subst. exists lr', s'. exact C.
Qed.
Print Assumptions parse_log_lines_concrete.
