//! Shared helpers: hex, scripted Read sources, panic classification.
use std::cell::RefCell;
use std::io::{self, Read};
use std::rc::Rc;

pub fn unhex(s: &str) -> Vec<u8> {
    if s == "-" {
        return vec![];
    }
    (0..s.len() / 2)
        .map(|i| u8::from_str_radix(&s[2 * i..2 * i + 2], 16).unwrap())
        .collect()
}
pub fn hex(b: &[u8]) -> String {
    if b.is_empty() {
        return "-".into();
    }
    b.iter().map(|x| format!("{x:02x}")).collect()
}

#[derive(Clone, Debug)]
pub enum Ev {
    Deliver(usize),
    Interrupt,
    Fail(u64),
    Eof,
    Lie(usize),
}

pub fn parse_events(s: &str) -> Vec<Ev> {
    if s == "-" {
        return vec![];
    }
    s.split(',')
        .filter(|t| !t.is_empty())
        .map(|t| {
            let arg = || t[1..].parse::<u64>().unwrap();
            match t.as_bytes()[0] {
                b'd' => Ev::Deliver(arg() as usize),
                b'i' => Ev::Interrupt,
                b'f' => Ev::Fail(arg()),
                b'e' => Ev::Eof,
                b'l' => Ev::Lie(arg() as usize),
                _ => panic!("bad event {t}"),
            }
        })
        .collect()
}

/// Error payload carrying the scripted error id.
#[derive(Debug)]
pub struct Scripted(pub u64);
impl std::fmt::Display for Scripted {
    fn fmt(&self, f: &mut std::fmt::Formatter<'_>) -> std::fmt::Result {
        write!(f, "scripted error {}", self.0)
    }
}
impl std::error::Error for Scripted {}

pub fn err_id(e: &io::Error) -> String {
    match e.get_ref().and_then(|r| r.downcast_ref::<Scripted>()) {
        Some(Scripted(id)) => format!("e{id}"),
        None => format!("e?{:?}", e.kind()),
    }
}

#[derive(Default, Debug)]
pub struct Stats {
    pub calls: u64,
    pub delivered: u64,
    pub terminal: bool,
    pub calls_after_terminal: u64,
    /// bytes handed over by reads that kept the Read contract, in order
    pub stream: Vec<u8>,
    /// calls that returned something other than Interrupted
    pub effective_calls: u64,
    pub failed: Option<u64>,
}

/// A `Read` driven by a schedule of events; same semantics as `src_read` in Reader.v.
pub struct ScriptedSource {
    pub data: Vec<u8>,
    pub pos: usize,
    pub events: std::collections::VecDeque<Ev>,
    pub stats: Rc<RefCell<Stats>>,
}

impl ScriptedSource {
    pub fn new(data: Vec<u8>, events: Vec<Ev>) -> (Self, Rc<RefCell<Stats>>) {
        let stats = Rc::new(RefCell::new(Stats::default()));
        (
            ScriptedSource { data, pos: 0, events: events.into(), stats: stats.clone() },
            stats,
        )
    }
}

impl Read for ScriptedSource {
    fn read(&mut self, buf: &mut [u8]) -> io::Result<usize> {
        let mut st = self.stats.borrow_mut();
        st.calls += 1;
        if st.terminal {
            st.calls_after_terminal += 1;
        }
        let left = self.data.len() - self.pos;
        let room = buf.len();
        let ev = self.events.pop_front();
        if !matches!(ev, Some(Ev::Interrupt)) {
            st.effective_calls += 1;
        }
        let honest = !matches!(ev, Some(Ev::Lie(_)));
        let mut stream_add: Vec<u8> = vec![];
        let mut give = |k: usize, pos: &mut usize| {
            buf[..k].copy_from_slice(&self.data[*pos..*pos + k]);
            if honest {
                stream_add.extend_from_slice(&self.data[*pos..*pos + k]);
            }
            *pos += k;
            k
        };
        let mut carry: Option<Ev> = None;
        let res = match ev {
            None => {
                let k = give(room.min(left), &mut self.pos);
                st.delivered += k as u64;
                if k == 0 {
                    st.terminal = true;
                }
                Ok(k)
            }
            Some(Ev::Deliver(n)) => {
                let k = give(n.min(room).min(left), &mut self.pos);
                if k > 0 && k < n {
                    carry = Some(Ev::Deliver(n - k)); // the rest stays ready for the next call
                }
                st.delivered += k as u64;
                if k == 0 {
                    st.terminal = true;
                }
                Ok(k)
            }
            Some(Ev::Eof) => {
                st.terminal = true;
                Ok(0)
            }
            Some(Ev::Interrupt) => Err(io::Error::new(io::ErrorKind::Interrupted, "scripted interrupt")),
            Some(Ev::Fail(id)) => {
                st.terminal = true;
                st.failed = Some(id);
                Err(io::Error::new(io::ErrorKind::Other, Scripted(id)))
            }
            Some(Ev::Lie(n)) => {
                give(room.min(left), &mut self.pos);
                Ok(room + 1 + n)
            }
        };
        drop(give);
        st.stream.extend_from_slice(&stream_add);
        if let Some(c) = carry {
            self.events.push_front(c);
        }
        res
    }
}

/// Source whose first `read` hands over `first` (used to pre-fill a BufReader without
/// touching the schedule of `rest`).
pub struct Prefill<R: Read> {
    pub first: Option<Vec<u8>>,
    pub rest: R,
}
impl<R: Read> Read for Prefill<R> {
    fn read(&mut self, buf: &mut [u8]) -> io::Result<usize> {
        if let Some(f) = self.first.take() {
            assert!(f.len() <= buf.len());
            buf[..f.len()].copy_from_slice(&f);
            return Ok(f.len());
        }
        self.rest.read(buf)
    }
}

pub fn panic_kind(p: &(dyn std::any::Any + Send)) -> String {
    let msg = if let Some(s) = p.downcast_ref::<&str>() {
        s.to_string()
    } else if let Some(s) = p.downcast_ref::<String>() {
        s.clone()
    } else {
        "?".into()
    };
    if msg.contains("advanced past the current buffer size") {
        "!adv".into()
    } else if msg.contains("invariant of std::io::Read") {
        "!read".into()
    } else if msg.contains("overflow") && msg.contains("attempt to") {
        "!ovf".into()
    } else if msg.contains("out of range") || msg.contains("out of bounds") || msg.contains("index") {
        "!idx".into()
    } else if msg.contains("assertion") {
        "!assert".into()
    } else if msg.contains("capacity overflow") {
        "!cap".into()
    } else if msg.contains("unwrap") {
        "!unwrap".into()
    } else {
        format!("!other({})", msg.replace(' ', "_"))
    }
}
