(* Writer.v — executable model of flussab/src/deferred_writer.rs and
   flussab/src/write/text.rs (write_ascii_digits through itoap). *)
From Flussab Require Import Base.

(* ---- the sink: a schedule of results for Write::write calls ---- *)
Inductive wevent :=
| Accept (k : N)    (* Ok(min k len); Accept 0 is Ok(0) *)
| WInterrupt        (* Err(Interrupted) *)
| WFail (e : N).    (* Err(other) *)

Record sink := {
  received : bytes;         (* every byte the sink accepted, in order *)
  wevents : list wevent;
  wcalls : N;               (* Write::write calls made so far *)
  wlog : list N             (* length of the slice offered at each call, latest first *)
}.

Inductive wa_result := WAOk | WAErr (e : N) | WAFuel.
Definition ERR_WRITE_ZERO : N := 1000.    (* ErrorKind::WriteZero produced by write_all *)

(* std's Write::write_all: loop until everything is written, retry on Interrupted,
   Ok(0) is an error.  With an exhausted schedule the sink accepts everything. *)
Fixpoint write_all (fuel : nat) (sk : sink) (bs : bytes) : wa_result * sink :=
  match bs with
  | [] => (WAOk, sk)
  | _ :: _ =>
    match fuel with
    | O => (WAFuel, sk)
    | S f =>
      match wevents sk with
      | [] => (WAOk, {| received := received sk ++ bs; wevents := []; wcalls := wcalls sk + 1; wlog := nlen bs :: wlog sk |})
      | Accept k :: ev =>
          let n := N.min k (nlen bs) in
          let sk' := {| received := received sk ++ nfirstn n bs; wevents := ev; wcalls := wcalls sk + 1; wlog := nlen bs :: wlog sk |} in
          if n =? 0 then (WAErr ERR_WRITE_ZERO, sk') else write_all f sk' (nskipn n bs)
      | WInterrupt :: ev =>
          write_all f {| received := received sk; wevents := ev; wcalls := wcalls sk + 1; wlog := nlen bs :: wlog sk |} bs
      | WFail e :: ev =>
          (WAErr e, {| received := received sk; wevents := ev; wcalls := wcalls sk + 1; wlog := nlen bs :: wlog sk |})
      end
    end
  end.

Definition wa_fuel (sk : sink) (bs : bytes) : nat := (length (wevents sk) + length bs + 1)%nat.

(* ---- the writer ---- *)
Record wstate := {
  wsink : sink;
  wbuf : bytes;             (* Vec<u8>; len = length, capacity = wcap *)
  wcap : N;
  werr : option N;          (* io_error *)
  wpanicked : bool;
  (* ghost *)
  g_written : bytes         (* concatenation of everything written so far *)
}.

Definition DEFAULT_CAP : N := 16384.
Definition writer_init (evs : list wevent) : wstate :=
  {| wsink := {| received := []; wevents := evs; wcalls := 0; wlog := [] |}; wbuf := []; wcap := DEFAULT_CAP;
     werr := None; wpanicked := false; g_written := [] |}.

Inductive wobs :=
| WUnit
| WRes (e : option N)      (* io::Result<()> *)
| WNull (b : bool)         (* buf_write_ptr returned null? *)
| WUB
| WPanicked (k : panic_kind)
| WOutOfFuel.

Definition with_buf (s : wstate) (b : bytes) : wstate :=
  {| wsink := wsink s; wbuf := b; wcap := wcap s; werr := werr s; wpanicked := wpanicked s; g_written := g_written s |}.
Definition with_written (s : wstate) (w : bytes) : wstate :=
  {| wsink := wsink s; wbuf := wbuf s; wcap := wcap s; werr := werr s; wpanicked := wpanicked s; g_written := w |}.

(* send bs to the sink unless an error is parked; a new error gets parked *)
Definition send (s : wstate) (bs : bytes) : wstate * bool (* out of fuel? *) :=
  match werr s with
  | Some _ => (s, false)
  | None =>
      match write_all (wa_fuel (wsink s) bs) (wsink s) bs with
      | (WAOk, sk) => ({| wsink := sk; wbuf := wbuf s; wcap := wcap s; werr := None; wpanicked := false;
                          g_written := g_written s |}, false)
      | (WAErr e, sk) => ({| wsink := sk; wbuf := wbuf s; wcap := wcap s; werr := Some e; wpanicked := false;
                             g_written := g_written s |}, false)
      | (WAFuel, sk) => (s, true)
      end
  end.

Definition flush_defer_err (s : wstate) : wstate * bool :=
  let '(s1, oof) := send s (wbuf s) in (with_buf s1 [], oof).

(* write_all_defer_err without the ghost update *)
Definition put (s : wstate) (bs : bytes) : wstate * wobs :=
  let old_len := nlen (wbuf s) in
  let new_len := old_len + nlen bs in
  if new_len <=? wcap s then (with_buf s (wbuf s ++ bs), WUnit)    (* copy_nonoverlapping within capacity *)
  else
    (* cold path *)
    let '(s1, rest, bad) :=
      if nlen bs <? wcap s then
        let k := wcap s - nlen (wbuf s) in      (* usize subtraction: wbuf never exceeds wcap *)
        if wcap s <? nlen (wbuf s) then (s, bs, true)
        else (with_buf s (wbuf s ++ nfirstn k bs), nskipn k bs, false)
      else (s, bs, false) in
    if bad then (s, WPanicked POverflow) else
    let '(s2, oof1) := flush_defer_err s1 in
    if oof1 then (s2, WOutOfFuel) else
    if nlen rest <? wcap s2 then (with_buf s2 (wbuf s2 ++ rest), WUnit)
    else
      let '(s3, oof2) := send s2 rest in
      if oof2 then (s3, WOutOfFuel) else (s3, WUnit).

Definition write_all_defer_err (s : wstate) (bs : bytes) : wstate * wobs :=
  let '(s', v) := put s bs in (with_written s' (g_written s ++ bs), v).

(* ---- decimal text of integers (what itoap writes) ---- *)
Fixpoint dec_digits (fuel : nat) (n : N) (acc : bytes) : bytes :=
  match fuel with
  | O => acc
  | S f =>
      let acc' := (48 + n mod 10) :: acc in
      if n / 10 =? 0 then acc' else dec_digits f (n / 10) acc'
  end.
Definition decimal_N (n : N) : bytes := dec_digits (S (N.to_nat (N.log2 n))) n [].
Definition decimal (z : Z) : bytes :=
  match z with
  | Zneg p => 45 :: decimal_N (Npos p)
  | _ => decimal_N (Z.to_N z)
  end.

(* integer types: (bits, signed) and itoap's MAX_LEN *)
Inductive ity := I8 | U8 | I16 | U16 | I32 | U32 | I64 | U64 | I128 | U128 | Isize | Usize.
Definition max_len (t : ity) : N :=
  match t with
  | U8 => 3 | I8 => 4 | U16 => 5 | I16 => 6 | U32 => 10 | I32 => 11
  | U64 | Usize => 20 | I64 | Isize => 21 | U128 => 39 | I128 => 40
  end.
Definition ity_bits (t : ity) : N :=
  match t with
  | U8 | I8 => 8 | U16 | I16 => 16 | U32 | I32 => 32 | U64 | I64 | Usize | Isize => 64 | U128 | I128 => 128
  end.
Definition ity_signed (t : ity) : bool :=
  match t with I8 | I16 | I32 | I64 | I128 | Isize => true | _ => false end.
Definition ity_min (t : ity) : Z := if ity_signed t then (- 2 ^ (Z.of_N (ity_bits t) - 1))%Z else 0%Z.
Definition ity_max (t : ity) : Z :=
  if ity_signed t then (2 ^ (Z.of_N (ity_bits t) - 1) - 1)%Z else (2 ^ Z.of_N (ity_bits t) - 1)%Z.
Definition in_range (t : ity) (v : Z) : bool := ((ity_min t <=? v) && (v <=? ity_max t))%Z.

(* write::text::write_ascii_digits *)
Definition write_ascii_digits (s : wstate) (t : ity) (v : Z) : wstate * wobs :=
  let d := decimal v in
  if nlen (wbuf s) + max_len t <=? wcap s then
    (* buf_write_ptr(MAX_LEN) non-null; itoap::write_to_ptr; advance_unchecked(len) *)
    if nlen (wbuf s) + nlen d <=? wcap s
    then (with_written (with_buf s (wbuf s ++ d)) (g_written s ++ d), WUnit)
    else (s, WUB)
  else write_all_defer_err s d.     (* itoap::write -> Write::write -> write_all_defer_err *)

(* ---- the API as an operation language ---- *)
Inductive wop :=
| WWrite (bs : bytes)                 (* write / write_all / write_all_defer_err *)
| WDigits (t : ity) (v : Z)           (* write::text::write_ascii_digits *)
| WDirect (len : N) (bs : bytes)      (* buf_write_ptr(len), fill |bs| <= len bytes, advance_unchecked(|bs|) *)
| WFlush                              (* Write::flush = flush_defer_err + check_io_error *)
| WFlushDefer
| WCheck
| WDrop.                              (* drop: flush_defer_err unless panicked; the value is gone afterwards *)

Definition clear_err (s : wstate) : wstate :=
  {| wsink := wsink s; wbuf := wbuf s; wcap := wcap s; werr := None; wpanicked := wpanicked s; g_written := g_written s |}.

Definition wstep (s : wstate) (o : wop) : wstate * wobs :=
  match o with
  | WWrite bs => write_all_defer_err s bs
  | WDigits t v => write_ascii_digits s t v
  | WDirect len bs =>
      if nlen (wbuf s) + len <=? wcap s then
        if nlen bs <=? len
        then (with_written (with_buf s (wbuf s ++ bs)) (g_written s ++ bs), WNull false)
        else (s, WUB)                      (* the caller broke advance_unchecked's contract *)
      else (s, WNull true)
  | WFlush =>
      let '(s1, oof) := flush_defer_err s in
      if oof then (s1, WOutOfFuel) else (clear_err s1, WRes (werr s1))
  | WFlushDefer =>
      let '(s1, oof) := flush_defer_err s in
      if oof then (s1, WOutOfFuel) else (s1, WUnit)
  | WCheck => (clear_err s, WRes (werr s))
  | WDrop =>
      if wpanicked s then (s, WUnit) else
      let '(s1, oof) := flush_defer_err s in
      if oof then (s1, WOutOfFuel) else (s1, WUnit)
  end.

Fixpoint wrun (s : wstate) (ops : list wop) : wstate * list wobs :=
  match ops with
  | [] => (s, [])
  | o :: os =>
      let '(s1, v) := wstep s o in
      let '(s2, vs) := wrun s1 os in
      (s2, v :: vs)
  end.
