(* Renumber.v — the explicit-stack renumbering machine of flussab-aiger/src/aig.rs
   ([Renumber::{new, initialize, transfer, renumber_aig}]).

   The Rust control flow is kept: states Transfer / Input0 / Input1 / Return, continuations on an
   explicit stack, the test of the *middle* stack entry against the literal being transferred,
   polarity by xor with the low bit, inputs sorted descending by code, const_fold before
   structural_hash, and the same order of map insertions.

   Representation choices (not visible to callers):
   - the stack is a list whose head is the top (Vec::push / pop at the end); the Rust index
     [len / 2] counted from the bottom is index [len - 1 - len / 2] from the top;
   - [r_gates] is the Vec [and_gates] in reverse (newest first); [renumber_aig] reverses it once;
   - the [loop] of [transfer] runs on explicit fuel; running out is the distinct outcome
     [RnOutOfFuel];  [renumber_aig] supplies [transfer_fuel a] per call of [transfer].
   Arithmetic is on unbounded [N]: [last_code += 2] cannot overflow below 2^63 gates. *)
From stdpp Require Import gmap.
From Coq Require Import NArith List.
From Flussab Require Import Aig.
Import ListNotations.
Local Open Scope N_scope.

Record config := Config { c_trim : bool; c_strash : bool; c_fold : bool }.

Inductive cont :=
| KInput0 (l : lit) (d : and_gate)
| KInput1 (l : lit) (d : and_gate).

Inductive tstate :=
| STransfer (l : lit)
| SInput0 (l : lit) (d : and_gate) (t : lit)
| SInput1 (l : lit) (d : and_gate) (t : lit)
| SReturn (t : lit).

Record rstate := RState {
  r_cfg : config;
  r_defs : defs_t;
  r_map : litmap;
  r_last : N;
  r_stack : list cont;
  r_gates : list (lit * lit);          (* newest first *)
  r_index : gmap (N * N) N;
}.

Definition cont_lit (k : cont) : lit :=
  match k with KInput0 l _ | KInput1 l _ => l end.

(* n / 2 *)
Fixpoint half (n : nat) : nat :=
  match n with
  | S (S m) => S (half m)
  | _ => O
  end.

(* self.stack.get(self.stack.len() / 2), the stack's head being its top *)
Definition stack_mid (s : list cont) : option cont :=
  match s with
  | [] => None
  | _ => nth_error s (length s - 1 - half (length s))
  end.

Definition cycle_test (s : list cont) (l : lit) : bool :=
  match stack_mid s with
  | Some k => N.eqb l (cont_lit k)
  | None => false
  end.

(* for output in [lit, lit ^ 1] { if let Some(AndGate(inputs)) = defs.get(output) { def = Some(..) } } *)
Definition find_def (defs : defs_t) (l : lit) : option and_gate :=
  let d0 := match defs !! l with
            | Some (DGate a b) => Some (AndGate a b l)
            | _ => None
            end in
  match defs !! lneg l with
  | Some (DGate a b) => Some (AndGate a b (lneg l))
  | _ => d0
  end.

Definition push (k : cont) (r : rstate) : rstate :=
  RState (r_cfg r) (r_defs r) (r_map r) (r_last r) (k :: r_stack r) (r_gates r) (r_index r).

Definition set_stack (s : list cont) (r : rstate) : rstate :=
  RState (r_cfg r) (r_defs r) (r_map r) (r_last r) s (r_gates r) (r_index r).

Definition set_map (m : litmap) (r : rstate) : rstate :=
  RState (r_cfg r) (r_defs r) m (r_last r) (r_stack r) (r_gates r) (r_index r).

(* def.inputs.sort_unstable_by_key(|input| !input.code()) : descending by code *)
Definition sort2 (a b : lit) : lit * lit := if N.ltb a b then (b, a) else (a, b).

Definition fold_gate (a b : lit) : option lit :=
  if N.eqb a 0 || N.eqb b 0 then Some 0
  else if N.eqb a 1 || N.eqb a b then Some b
  else if N.eqb b 1 then Some a
  else None.

Inductive step_res :=
| Next (s : tstate) (r : rstate)
| Finished (t : lit) (r : rstate)
| Failed (e : aig_error).

(* a fresh gate: last_code += 2; and_gates.push(..) *)
Definition emit (a b : lit) (r : rstate) (idx : gmap (N * N) N) : N * rstate :=
  let code := r_last r + 2 in
  (code, RState (r_cfg r) (r_defs r) (r_map r) code (r_stack r) ((a, b) :: r_gates r) idx).

Definition rstep (s : tstate) (r : rstate) : step_res :=
  match s with
  | STransfer l =>
    match lm_get (r_map r) l with
    | Some t => Next (SReturn t) r
    | None =>
      if cycle_test (r_stack r) l then Failed (FoundCycle l)
      else match find_def (r_defs r) l with
           | None => Failed (LitNotDefined l)
           | Some d => Next (STransfer (g_in0 d)) (push (KInput0 l d) r)
           end
    end
  | SInput0 l d t =>
    let d' := AndGate t (g_in1 d) (g_out d) in
    Next (STransfer (g_in1 d')) (push (KInput1 l d') r)
  | SInput1 l d t =>
    let '(a, b) := sort2 (g_in0 d) t in
    let out := g_out d in
    match (if c_fold (r_cfg r) then fold_gate a b else None) with
    | Some folded =>
      Next (SReturn (N.lxor (N.lxor folded l) out)) (set_map (lm_insert (r_map r) out folded) r)
    | None =>
      let '(code, r') :=
        if c_strash (r_cfg r) then
          match r_index r !! (a, b) with
          | Some c => (c, r)
          | None => emit a b r (<[(a, b) := r_last r + 2]> (r_index r))
          end
        else emit a b r (r_index r) in
      Next (SReturn (N.lxor (N.lxor code l) out)) (set_map (lm_insert (r_map r') out code) r')
    end
  | SReturn t =>
    match r_stack r with
    | k :: rest =>
      let r' := set_stack rest r in
      match k with
      | KInput0 l d => Next (SInput0 l d t) r'
      | KInput1 l d => Next (SInput1 l d t) r'
      end
    | [] => Finished t r
    end
  end.

Inductive run_res :=
| TDone (t : lit) (r : rstate)
| TErr (e : aig_error)
| TOutOfFuel.

Fixpoint run (fuel : nat) (s : tstate) (r : rstate) : run_res :=
  match fuel with
  | O => TOutOfFuel
  | S f =>
    match rstep s r with
    | Next s' r' => run f s' r'
    | Finished t r' => TDone t r'
    | Failed e => TErr e
    end
  end.

Definition transfer (fuel : nat) (r : rstate) (l : lit) : run_res :=
  run fuel (STransfer l) r.

Inductive init_res :=
| IDone (r : rstate)
| IErr (e : aig_error)
| IOutOfFuel.

(* for &lit in lits { self.transfer(lit)?; } *)
Fixpoint transfer_all (fuel : nat) (r : rstate) (ls : list lit) : init_res :=
  match ls with
  | [] => IDone r
  | l :: rest =>
    match transfer fuel r l with
    | TDone _ r' => transfer_all fuel r' rest
    | TErr e => IErr e
    | TOutOfFuel => IOutOfFuel
    end
  end.

(* the second loop of [initialize]: every input gets the next code *)
Fixpoint map_fresh (m : litmap) (last : N) (ls : list lit) : litmap * N :=
  match ls with
  | [] => (m, last)
  | l :: rest => map_fresh (lm_insert m l (last + 2)) (last + 2) rest
  end.

(* the third loop of [initialize]: a latch whose state literal (in either polarity) is in the
   definition table, or whose variable already has a lit_map entry, is rejected; otherwise it
   gets the next code *)
Fixpoint latches_fresh (defs : defs_t) (m : litmap) (last : N) (ls : list lit) : res (litmap * N) :=
  match ls with
  | [] => ROk (m, last)
  | s :: rest =>
    if defs_contains defs s || defs_contains defs (lneg s) || lm_contains m s
    then RErr (LitAlreadyDefined s)
    else latches_fresh defs (lm_insert m s (last + 2)) (last + 2) rest
  end.

(* the literals handed to [transfer] by [initialize], in order *)
Definition roots (cfg : config) (a : aig) : list lit :=
  (if c_trim cfg then [] else map g_out (a_gates a))
  ++ map l_next (a_latches a)
  ++ a_outputs a ++ a_bad a ++ a_constraints a ++ a_fairness a
  ++ concat (a_justice a).

(* the first three loops of [initialize]: constant, inputs, latch states *)
Definition init_state (cfg : config) (defs : defs_t) (a : aig) : res rstate :=
  let m0 := lm_insert ∅ 0 0 in
  let '(m1, c1) := map_fresh m0 0 (a_inputs a) in
  match latches_fresh defs m1 c1 (map l_state (a_latches a)) with
  | ROk (m2, c2) => ROk (RState cfg defs m2 c2 [] [] ∅)
  | RErr e => RErr e
  end.

(* enough for every run, whatever the graph (RenumberTerm.renumber_terminates); a run that ends
   in [Ok] needs at most 7 steps per gate (RenumberProofs.renumber_terminates_acyclic) *)
Definition transfer_fuel (a : aig) : nat := 32 * (length (a_gates a) + 2).

(* Renumber::new *)
Definition renumber_new (cfg : config) (a : aig) : init_res :=
  match lit_defs a with
  | RErr e => IErr e
  | ROk defs =>
    match init_state cfg defs a with
    | RErr e => IErr e
    | ROk r0 => transfer_all (transfer_fuel a) r0 (roots cfg a)
    end
  end.

Inductive rn_res :=
| RnOk (o : ordered_aig) (r : rstate)
| RnErr (e : aig_error)
| RnPanic                      (* an [unwrap] of [lit_map.get] on None *)
| RnOutOfFuel.

Fixpoint map_lits (m : litmap) (ls : list lit) : option (list lit) :=
  match ls with
  | [] => Some []
  | l :: rest =>
    match lm_get m l, map_lits m rest with
    | Some t, Some ts => Some (t :: ts)
    | _, _ => None
    end
  end.

Fixpoint map_latches (m : litmap) (ls : list latch) : option (list (lit * option bool)) :=
  match ls with
  | [] => Some []
  | l :: rest =>
    match lm_get m (l_next l), map_latches m rest with
    | Some t, Some ts => Some ((t, l_init l) :: ts)
    | _, _ => None
    end
  end.

Fixpoint map_lits2 (m : litmap) (ls : list (list lit)) : option (list (list lit)) :=
  match ls with
  | [] => Some []
  | l :: rest =>
    match map_lits m l, map_lits2 m rest with
    | Some t, Some ts => Some (t :: ts)
    | _, _ => None
    end
  end.

Definition build_ordered (a : aig) (r : rstate) : option ordered_aig :=
  match map_latches (r_map r) (a_latches a), map_lits (r_map r) (a_outputs a),
        map_lits (r_map r) (a_bad a), map_lits (r_map r) (a_constraints a),
        map_lits2 (r_map r) (a_justice a), map_lits (r_map r) (a_fairness a) with
  | Some ls, Some os, Some bs, Some cs, Some js, Some fs =>
    Some (OrderedAig (N.shiftr (r_last r) 1) (N.of_nat (length (a_inputs a))) ls os bs cs js fs
                     (rev (r_gates r)))
  | _, _, _, _, _, _ => None
  end.

(* Renumber::renumber_aig *)
Definition renumber_aig (cfg : config) (a : aig) : rn_res :=
  match renumber_new cfg a with
  | IErr e => RnErr e
  | IOutOfFuel => RnOutOfFuel
  | IDone r =>
    match build_ordered a r with
    | Some o => RnOk o r
    | None => RnPanic
    end
  end.
