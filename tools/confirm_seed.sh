#!/bin/bash
# tools/confirm_seed.sh <src_dir(with patch.diff demo.rs notes.md)> <seed_id> <property> <demo_crate>
# Confirms in a scratch worktree of /repo's HEAD that: the patch applies and compiles, the existing
# test suite passes with it, the demo fails with it and passes without it.  Then stores it under /verif/seeded/<seed_id>/.
set -u
src="$1"; id="$2"; prop="$3"; crate="$4"
wt=/tmp/wt-confirm-$$
export CARGO_NET_OFFLINE=true
git -C /repo worktree add -q --detach "$wt" HEAD || exit 2
cleanup() { git -C /repo worktree remove --force "$wt" >/dev/null 2>&1; rm -rf "$wt"; }
trap cleanup EXIT
cd "$wt" || exit 2
res() { echo "$1"; }
git apply "$src/patch.diff" || { echo "CONFIRM $id: patch does not apply"; exit 1; }
suite=$(cargo test --workspace --offline 2>&1 | grep -E "^test result" | awk '{p+=$4; f+=$6} END {print p" passed "f" failed"}')
mkdir -p "$crate/tests"; cp "$src/demo.rs" "$crate/tests/demo.rs"
cargo test -p "$crate" --test demo --offline >/tmp/confirm-$$.log 2>&1; rc_mut=$?
git checkout -q -- . 
cargo test -p "$crate" --test demo --offline >/tmp/confirm-$$.clean.log 2>&1; rc_clean=$?
rm -f /tmp/confirm-$$.log /tmp/confirm-$$.clean.log
echo "CONFIRM $id: suite_with_patch=[$suite] demo_with_patch_rc=$rc_mut demo_clean_rc=$rc_clean"
case "$suite" in *" 0 failed") ok1=1;; *) ok1=0;; esac
if [ "$ok1" = 1 ] && [ "$rc_mut" != 0 ] && [ "$rc_clean" = 0 ]; then
  d=/verif/seeded/$id; mkdir -p "$d"
  cp "$src/patch.diff" "$d/patch.diff"; cp "$src/demo.rs" "$d/demo.rs"; cp "$src/notes.md" "$d/notes.md" 2>/dev/null
  python3 - "$d" "$id" "$prop" "$crate" "$suite" <<'PY'
import json, sys
d, sid, prop, crate, suite = sys.argv[1:6]
notes = ""
try: notes = open(d + "/notes.md").read()
except Exception: pass
json.dump({"id": sid, "property": prop, "demo_crate": crate,
           "needs_to_manifest": notes.strip().split("\n")[0][:400] if notes else "",
           "confirmed": {"base": "scratch worktree of /repo HEAD", "existing_suite_with_patch": suite,
                         "demo_with_patch": "fails", "demo_without_patch": "passes",
                         "commands": ["git apply patch.diff", "cargo test --workspace --offline",
                                      "cp demo.rs %s/tests/demo.rs; cargo test -p %s --test demo --offline" % (crate, crate),
                                      "git checkout -- .; cargo test -p %s --test demo --offline" % crate]},
           "detected_by": None}, open(d + "/meta.json", "w"), indent=1)
PY
  echo "CONFIRM $id: kept"
else
  echo "CONFIRM $id: REJECTED"
fi
