(* SwarProofs.v — correctness of the 8-byte SWAR decimal kernel of text.rs. *)
From Flussab Require Import Base Writer Prog Text TextSpec.

Local Open Scope N_scope.

(* ------------------------------------------------------------------ *)
(* finite checks by computation                                        *)

Lemma N_forall_lt (P : N -> bool) (n : nat) :
  forallb P (map N.of_nat (seq 0 n)) = true -> forall b, b < N.of_nat n -> P b = true.
Proof.
  intros H b Hb. rewrite forallb_forall in H. apply H.
  apply in_map_iff. exists (N.to_nat b). split; [lia|]. apply in_seq. lia.
Qed.

Lemma byte_forall (P : N -> bool) :
  forallb P (map N.of_nat (seq 0 256)) = true -> forall b, b < 256 -> P b = true.
Proof. intros H b Hb. apply (N_forall_lt P 256 H). exact Hb. Qed.

(* ------------------------------------------------------------------ *)
(* lane vectors: little-endian value of a list of w-bit lanes          *)

Fixpoint lv (w : N) (l : list N) : N :=
  match l with [] => 0 | b :: r => b + 2 ^ w * lv w r end.

Definition small (w : N) (l : list N) : Prop := Forall (fun b => b < 2 ^ w) l.

Fixpoint map2 (f : N -> N -> N) (l m : list N) : list N :=
  match l, m with
  | a :: l', b :: m' => f a b :: map2 f l' m'
  | _, _ => []
  end.

Lemma le_value_lv l : le_value l = lv 8 l.
Proof. induction l; cbn [le_value lv]; [reflexivity|]. rewrite IHl. reflexivity. Qed.

Lemma nlen_nil {A} : nlen (@nil A) = 0.
Proof. reflexivity. Qed.

Lemma nlen_cons {A} (a : A) l : nlen (a :: l) = 1 + nlen l.
Proof. unfold nlen. cbn [length]. lia. Qed.

Lemma pow2_nz k : 2 ^ k <> 0.
Proof. apply N.pow_nonzero. lia. Qed.

Lemma lv_bound w l : small w l -> lv w l < 2 ^ (w * nlen l).
Proof.
  induction 1 as [|b l Hb Hl IH]; cbn [lv].
  - change (nlen (@nil N)) with 0. rewrite N.mul_0_r. cbn. lia.
  - rewrite nlen_cons. replace (w * (1 + nlen l)) with (w + w * nlen l) by lia.
    rewrite N.pow_add_r.
    set (A := 2 ^ w) in *. set (P := 2 ^ (w * nlen l)) in *. set (X := lv w l) in *.
    assert (A * (X + 1) <= A * P) by (apply N.mul_le_mono_l; lia). lia.
Qed.

Lemma lv_app w a b : lv w (a ++ b) = lv w a + 2 ^ (w * nlen a) * lv w b.
Proof.
  induction a as [|x a IH]; cbn [lv app].
  - change (nlen (@nil N)) with 0. rewrite N.mul_0_r, N.pow_0_r. lia.
  - rewrite IH, nlen_cons. replace (w * (1 + nlen a)) with (w + w * nlen a) by lia.
    rewrite N.pow_add_r. lia.
Qed.

Lemma split_mod a b k : a < 2 ^ k -> (a + 2 ^ k * b) mod 2 ^ k = a.
Proof.
  intros H. rewrite (N.mul_comm (2 ^ k)), N.mod_add by apply pow2_nz.
  apply N.mod_small, H.
Qed.

Lemma split_div a b k : a < 2 ^ k -> (a + 2 ^ k * b) / 2 ^ k = b.
Proof.
  intros H. rewrite (N.mul_comm (2 ^ k)), N.div_add by apply pow2_nz.
  rewrite N.div_small by exact H. lia.
Qed.

Lemma lv_mod_app w a b n : small w a -> n = w * nlen a -> lv w (a ++ b) mod 2 ^ n = lv w a.
Proof. intros H ->. rewrite lv_app. apply split_mod, lv_bound, H. Qed.

Lemma lv_div_app w a b n : small w a -> n = w * nlen a -> lv w (a ++ b) / 2 ^ n = lv w b.
Proof. intros H ->. rewrite lv_app. apply split_div, lv_bound, H. Qed.

Lemma lv_shiftr_cons w b r : b < 2 ^ w -> N.shiftr (lv w (b :: r)) w = lv w r.
Proof. intros H. rewrite N.shiftr_div_pow2. cbn [lv]. apply split_div, H. Qed.

Lemma lv_repeat0 w n : lv w (repeat 0 n) = 0.
Proof. induction n; cbn [repeat lv]; [reflexivity|]. rewrite IHn. lia. Qed.

Lemma lv_add w l : forall m, length l = length m ->
  lv w l + lv w m = lv w (map2 N.add l m).
Proof.
  induction l as [|a l IH]; intros [|c m] Hlen; try discriminate; cbn [lv map2].
  - reflexivity.
  - rewrite <- IH by (injection Hlen; auto). lia.
Qed.

(* ------------------------------------------------------------------ *)
(* bitwise operations act lane-wise                                    *)

Section BitOp.
  Variable op : N -> N -> N.
  Hypothesis Hshr : forall a b n, N.shiftr (op a b) n = op (N.shiftr a n) (N.shiftr b n).
  Hypothesis Hmod : forall a b k, (op a b) mod 2 ^ k = op (a mod 2 ^ k) (b mod 2 ^ k).

  Lemma op_split k a b c d : a < 2 ^ k -> c < 2 ^ k ->
    op (a + 2 ^ k * b) (c + 2 ^ k * d) = op a c + 2 ^ k * op b d.
  Proof.
    intros Ha Hc.
    pose proof (N.div_mod' (op (a + 2 ^ k * b) (c + 2 ^ k * d)) (2 ^ k)) as E.
    rewrite <- N.shiftr_div_pow2, Hshr, !N.shiftr_div_pow2, !split_div in E by assumption.
    rewrite Hmod, !split_mod in E by assumption. lia.
  Qed.

  Lemma op_small k a c : a < 2 ^ k -> c < 2 ^ k -> op a c < 2 ^ k.
  Proof.
    intros Ha Hc.
    assert (E : op a c = (op a c) mod 2 ^ k)
      by (rewrite Hmod, !N.mod_small by assumption; reflexivity).
    rewrite E. apply N.mod_lt, pow2_nz.
  Qed.

  Lemma small_map2 w l : forall m, small w l -> small w m -> small w (map2 op l m).
  Proof.
    induction l as [|a l IH]; intros [|c m] Hl Hm; cbn [map2]; try constructor.
    - inversion Hl; inversion Hm; subst. apply op_small; assumption.
    - inversion Hl; inversion Hm; subst. apply IH; assumption.
  Qed.

  Lemma lv_op w l : forall m, op 0 0 = 0 -> length l = length m -> small w l -> small w m ->
    op (lv w l) (lv w m) = lv w (map2 op l m).
  Proof.
    induction l as [|a l IH]; intros [|c m] H0 Hlen Hl Hm; try discriminate; cbn [lv map2].
    - exact H0.
    - inversion Hl; inversion Hm; subst.
      rewrite op_split by assumption. rewrite IH; auto.
  Qed.
End BitOp.

Lemma land_mod a b k : (N.land a b) mod 2 ^ k = N.land (a mod 2 ^ k) (b mod 2 ^ k).
Proof.
  rewrite <- !N.land_ones. apply N.bits_inj. intro n. rewrite !N.land_spec.
  destruct (N.testbit a n), (N.testbit b n), (N.testbit (N.ones k) n); reflexivity.
Qed.

Lemma lor_mod a b k : (N.lor a b) mod 2 ^ k = N.lor (a mod 2 ^ k) (b mod 2 ^ k).
Proof.
  rewrite <- !N.land_ones. apply N.bits_inj. intro n.
  rewrite !N.land_spec, !N.lor_spec, !N.land_spec.
  destruct (N.testbit a n), (N.testbit b n), (N.testbit (N.ones k) n); reflexivity.
Qed.

Lemma lxor_mod a b k : (N.lxor a b) mod 2 ^ k = N.lxor (a mod 2 ^ k) (b mod 2 ^ k).
Proof.
  rewrite <- !N.land_ones. apply N.bits_inj. intro n.
  rewrite !N.land_spec, !N.lxor_spec, !N.land_spec.
  destruct (N.testbit a n), (N.testbit b n), (N.testbit (N.ones k) n); reflexivity.
Qed.

Lemma lv_lor w l m : length l = length m -> small w l -> small w m ->
  N.lor (lv w l) (lv w m) = lv w (map2 N.lor l m).
Proof. apply (lv_op N.lor N.shiftr_lor lor_mod); reflexivity. Qed.

Lemma lv_lxor w l m : length l = length m -> small w l -> small w m ->
  N.lxor (lv w l) (lv w m) = lv w (map2 N.lxor l m).
Proof. apply (lv_op N.lxor N.shiftr_lxor lxor_mod); reflexivity. Qed.

(* for land the lists may have different lengths: missing lanes are zero *)
Lemma lv_land w l : forall m, small w l -> small w m ->
  N.land (lv w l) (lv w m) = lv w (map2 N.land l m).
Proof.
  induction l as [|a l IH]; intros [|c m] Hl Hm; cbn [lv map2].
  - reflexivity.
  - reflexivity.
  - apply N.land_0_r.
  - inversion Hl; inversion Hm; subst.
    rewrite (op_split N.land N.shiftr_land land_mod) by assumption. rewrite IH; auto.
Qed.

Definition small_land := small_map2 N.land land_mod.
Definition small_lor := small_map2 N.lor lor_mod.
Definition small_lxor := small_map2 N.lxor lxor_mod.

Lemma land_ones_small a k : a < 2 ^ k -> N.land a (N.ones k) = a.
Proof. intros H. rewrite N.land_ones. apply N.mod_small, H. Qed.

(* ------------------------------------------------------------------ *)
(* trailing zeros                                                      *)

Lemma tz_double x : x <> 0 -> trailing_zeros64 (2 * x) = 1 + trailing_zeros64 x.
Proof. destruct x; [congruence|]. reflexivity. Qed.

Lemma tz_odd m : trailing_zeros64 (2 * m + 1) = 0.
Proof. destruct m; reflexivity. Qed.

Lemma tz_pow2_odd n m : trailing_zeros64 (2 ^ n * (2 * m + 1)) = n.
Proof.
  induction n using N.peano_ind.
  - rewrite N.pow_0_r, N.mul_1_l. apply tz_odd.
  - rewrite N.pow_succ_r', <- N.mul_assoc, tz_double, IHn; [lia|].
    apply N.neq_mul_0. split; [apply pow2_nz | lia].
Qed.

Lemma tz_decomp x : x <> 0 -> exists m, x = 2 ^ trailing_zeros64 x * (2 * m + 1).
Proof.
  destruct x as [|p]; [congruence|]. intros _.
  induction p as [p IH | p IH |].
  - exists (Npos p). reflexivity.
  - destruct IH as [m E]. exists m.
    change (trailing_zeros64 (Npos p~0)) with (1 + trailing_zeros64 (Npos p)).
    change (Npos p~0) with (2 * Npos p).
    rewrite N.pow_add_r, <- N.mul_assoc, <- E. reflexivity.
  - exists 0. reflexivity.
Qed.

Lemma tz_shift n x : x <> 0 -> trailing_zeros64 (2 ^ n * x) = n + trailing_zeros64 x.
Proof.
  intros Hx. destruct (tz_decomp x Hx) as [m E].
  remember (trailing_zeros64 x) as t. rewrite E, N.mul_assoc, <- N.pow_add_r.
  apply tz_pow2_odd.
Qed.

Lemma tz_low a b k : a <> 0 -> a < 2 ^ k ->
  trailing_zeros64 (a + 2 ^ k * b) = trailing_zeros64 a /\ trailing_zeros64 a < k.
Proof.
  intros Ha Hk. destruct (tz_decomp a Ha) as [m E].
  remember (trailing_zeros64 a) as t.
  assert (Ht : t < k).
  { apply (N.pow_lt_mono_r_iff 2); [lia|].
    assert (2 ^ t * 1 <= 2 ^ t * (2 * m + 1)) by (apply N.mul_le_mono_l; lia). lia. }
  split; [|exact Ht].
  replace (a + 2 ^ k * b) with (2 ^ t * (2 * (m + 2 ^ (k - t - 1) * b) + 1)).
  - apply tz_pow2_odd.
  - rewrite E. replace k with (t + (1 + (k - t - 1))) at 2 by lia.
    rewrite !N.pow_add_r. change (2 ^ 1) with 2. lia.
Qed.

(* ------------------------------------------------------------------ *)
(* the kernel, cut into pieces                                         *)

Definition matches_of (word : N) : N :=
  N.land (N.lor (N.lxor word 3472328296227680304)
                (wadd (N.land word 1085102592571150095) 434041037028460038))
         17361641481138401520.
Definition stage1 (x : N) : N := N.shiftr (wmul x 2561) 8.
Definition stage2 (p : N) : N := N.shiftr (wmul (N.land p 71777214294589695) 6553601) 16.
Definition stage3 (p : N) : N := N.shiftr (wmul (N.land p 281470681808895) 42949672960001) 32.
Definition value_of (x : N) : N := N.land (stage3 (stage2 (stage1 x))) 4294967295.

Lemma swar_unfold word :
  swar word =
  let shift := N.land (trailing_zeros64 (matches_of word)) 120 in
  if shift =? 0 then (0, 0)
  else (value_of (wshl (N.land word 1085102592571150095) (64 - shift)), shift / 8).
Proof. reflexivity. Qed.

(* per-byte functions *)
Definition g (b : N) : N := N.land (N.lor (N.lxor b 48) (N.land b 15 + 6)) 240.
Definition lo (b : N) : N := N.land b 15.

Lemma g_dig b : b < 256 -> is_dig b = true -> g b = 0.
Proof.
  intros Hb Hd.
  pose proof (byte_forall (fun b => implb (is_dig b) (g b =? 0))) as H.
  specialize (H ltac:(vm_compute; reflexivity) b Hb). cbv beta in H.
  rewrite Hd in H. apply N.eqb_eq, H.
Qed.

Lemma g_ndig b : b < 256 -> is_dig b = false -> g b <> 0.
Proof.
  intros Hb Hd.
  pose proof (byte_forall (fun b => implb (g b =? 0) (is_dig b))) as H.
  specialize (H ltac:(vm_compute; reflexivity) b Hb). cbv beta in H.
  intros E. rewrite E, Hd in H. discriminate H.
Qed.

Lemma g_lt b : b < 256 -> g b < 2 ^ 8.
Proof.
  intros Hb.
  pose proof (byte_forall (fun b => g b <? 256)) as H.
  specialize (H ltac:(vm_compute; reflexivity) b Hb). apply N.ltb_lt, H.
Qed.

Lemma lo_lt b : lo b < 16.
Proof.
  unfold lo. change 15 with (N.ones 4). rewrite N.land_ones.
  change 16 with (2 ^ 4). apply N.mod_lt, pow2_nz.
Qed.

Lemma lo_dig b : is_dig b = true -> lo b = b - 48.
Proof.
  intros Hd.
  assert (Hb : b < 256).
  { unfold is_dig in Hd. apply andb_prop in Hd as [_ H]. apply N.leb_le in H. lia. }
  pose proof (byte_forall (fun b => implb (is_dig b) (lo b =? b - 48))) as H.
  specialize (H ltac:(vm_compute; reflexivity) b Hb). cbv beta in H.
  rewrite Hd in H. apply N.eqb_eq, H.
Qed.

Ltac solve_small :=
  unfold small; repeat (apply Forall_cons || apply Forall_nil); lia.

Lemma wadd_mod a b : wadd a b = (a + b) mod 2 ^ 64.
Proof. unfold wadd. change M64 with (N.ones 64). apply N.land_ones. Qed.

Lemma wmul_mod a b : wmul a b = (a * b) mod 2 ^ 64.
Proof. unfold wmul. change M64 with (N.ones 64). apply N.land_ones. Qed.

Lemma lo_lanes l : length l = 8%nat -> small 8 l ->
  N.land (lv 8 l) 1085102592571150095 = lv 8 (map lo l).
Proof.
  intros Hlen Hs.
  do 8 (destruct l as [|? l]; try discriminate). destruct l; try discriminate. clear Hlen.
  change 1085102592571150095 with (lv 8 [15;15;15;15;15;15;15;15]).
  rewrite lv_land by (assumption || solve_small). reflexivity.
Qed.

Lemma matches_lanes l : length l = 8%nat -> small 8 l ->
  matches_of (lv 8 l) = lv 8 (map g l).
Proof.
  intros Hlen Hs. unfold matches_of. rewrite (lo_lanes l Hlen Hs).
  do 8 (destruct l as [|? l]; try discriminate). destruct l; try discriminate. clear Hlen.
  change 3472328296227680304 with (lv 8 [48;48;48;48;48;48;48;48]).
  change 434041037028460038 with (lv 8 [6;6;6;6;6;6;6;6]).
  change 17361641481138401520 with (lv 8 [240;240;240;240;240;240;240;240]).
  assert (Hc48 : small 8 [48;48;48;48;48;48;48;48]) by solve_small.
  assert (Hc240 : small 8 [240;240;240;240;240;240;240;240]) by solve_small.
  rewrite wadd_mod, lv_add by reflexivity.
  cbn [map map2].
  match goal with |- context [lv 8 ?L mod 2 ^ 64] =>
    assert (Hadd : small 8 L)
      by (unfold small; repeat (apply Forall_cons || apply Forall_nil);
          match goal with |- N.add (lo ?b) 6 < _ => pose proof (lo_lt b); lia end);
    rewrite (N.mod_small (lv 8 L) (2 ^ 64)) by (apply (lv_bound 8 L Hadd))
  end.
  rewrite lv_lxor by (reflexivity || assumption).
  rewrite lv_lor by (reflexivity || assumption || (apply small_lxor; assumption)).
  rewrite lv_land by (assumption || (apply small_lor; [apply small_lxor|]; assumption)).
  reflexivity.
Qed.

(* ------------------------------------------------------------------ *)
(* shift = 8 * number of leading digit bytes                           *)

Lemma land120 k t : k <= 7 -> t < 8 -> N.land (8 * k + t) 120 = 8 * k.
Proof.
  intros Hk Ht.
  pose proof (N_forall_lt (fun x => N.land x 120 =? 8 * (x / 8)) 64) as H.
  specialize (H ltac:(vm_compute; reflexivity) (8 * k + t) ltac:(change (N.of_nat 64) with 64; lia)).
  apply N.eqb_eq in H. rewrite H.
  rewrite (N.mul_comm 8 k), N.div_add_l, N.div_small by lia. lia.
Qed.

Lemma map_g_digits ds : small 8 ds -> Forall (fun b => is_dig b = true) ds ->
  map g ds = repeat 0 (length ds).
Proof.
  induction ds as [|d ds IH]; intros Hs Hd; cbn [map repeat length]; [reflexivity|].
  inversion Hs; inversion Hd; subst. rewrite g_dig, IH; auto.
Qed.

Lemma small_app w a b : small w (a ++ b) -> small w a /\ small w b.
Proof. apply Forall_app. Qed.

Lemma shift_spec ds rest :
  length (ds ++ rest) = 8%nat -> small 8 (ds ++ rest) ->
  Forall (fun b => is_dig b = true) ds ->
  match rest with [] => True | c :: _ => is_dig c = false end ->
  N.land (trailing_zeros64 (lv 8 (map g (ds ++ rest)))) 120 = 8 * nlen ds.
Proof.
  intros Hlen Hs Hd Hr. apply small_app in Hs as [Hs1 Hs2].
  rewrite map_app, lv_app, (map_g_digits ds Hs1 Hd), lv_repeat0, N.add_0_l.
  replace (nlen (repeat 0 (length ds))) with (nlen ds) by (unfold nlen; rewrite repeat_length; reflexivity).
  rewrite app_length in Hlen.
  destruct rest as [|c r].
  - cbn [map lv]. rewrite N.mul_0_r. cbn [length] in Hlen.
    unfold nlen. replace (length ds) with 8%nat by lia. reflexivity.
  - cbn [map lv]. cbn [length] in Hlen. inversion Hs2; subst.
    assert (Hg0 : g c <> 0) by (apply g_ndig; assumption).
    assert (Hg1 : g c < 2 ^ 8) by (apply g_lt; assumption).
    rewrite tz_shift by lia.
    destruct (tz_low (g c) (lv 8 (map g r)) 8 Hg0 Hg1) as [E1 E2]. rewrite E1.
    apply land120; [unfold nlen; lia | exact E2].
Qed.

(* ------------------------------------------------------------------ *)
(* the left shift moves the digits to the top lanes                    *)

Lemma small_map_lo l : small 8 (map lo l).
Proof.
  apply Forall_forall. intros x Hin. apply in_map_iff in Hin as (y & <- & _).
  pose proof (lo_lt y). lia.
Qed.

Lemma shl_spec ds rest : length (ds ++ rest) = 8%nat ->
  wshl (lv 8 (map lo (ds ++ rest))) (64 - 8 * nlen ds)
  = lv 8 (repeat 0 (length rest) ++ map lo ds).
Proof.
  intros Hlen. rewrite app_length in Hlen.
  unfold wshl. change M64 with (N.ones 64). rewrite N.land_ones, N.shiftl_mul_pow2.
  rewrite map_app, !lv_app, lv_repeat0, N.add_0_l.
  replace (nlen (repeat 0 (length rest))) with (nlen rest) by (unfold nlen; rewrite repeat_length; reflexivity).
  replace (nlen (map lo ds)) with (nlen ds) by (unfold nlen; rewrite map_length; reflexivity).
  replace (64 - 8 * nlen ds) with (8 * nlen rest) by (unfold nlen; lia).
  pose proof (lv_bound 8 (map lo ds) (small_map_lo ds)) as HA.
  replace (nlen (map lo ds)) with (nlen ds) in HA by (unfold nlen; rewrite map_length; reflexivity).
  set (A := lv 8 (map lo ds)) in *. set (B := lv 8 (map lo rest)).
  replace ((A + 2 ^ (8 * nlen ds) * B) * 2 ^ (8 * nlen rest))
    with (2 ^ (8 * nlen rest) * A + B * 2 ^ 64).
  - rewrite N.mod_add by apply pow2_nz. apply N.mod_small.
    replace 64 with (8 * nlen rest + 8 * nlen ds) by (unfold nlen; lia).
    rewrite N.pow_add_r. apply N.mul_lt_mono_pos_l; [|exact HA].
    pose proof (pow2_nz (8 * nlen rest)). lia.
  - replace 64 with (8 * nlen rest + 8 * nlen ds) by (unfold nlen; lia).
    rewrite N.pow_add_r. lia.
Qed.

(* ------------------------------------------------------------------ *)
(* the three multiply / mask / shift stages                            *)

Lemma stage1_spec e0 e1 e2 e3 e4 e5 e6 e7 :
  e0 <= 9 -> e1 <= 9 -> e2 <= 9 -> e3 <= 9 -> e4 <= 9 -> e5 <= 9 -> e6 <= 9 -> e7 <= 9 ->
  N.land (stage1 (lv 8 [e0;e1;e2;e3;e4;e5;e6;e7])) 71777214294589695
  = lv 16 [10*e0+e1; 10*e2+e3; 10*e4+e5; 10*e6+e7].
Proof.
  intros. unfold stage1. rewrite wmul_mod.
  replace (lv 8 [e0;e1;e2;e3;e4;e5;e6;e7] * 2561)
    with (lv 8 ([e0; 10*e0+e1; 10*e1+e2; 10*e2+e3; 10*e3+e4; 10*e4+e5; 10*e5+e6; 10*e6+e7] ++ [10*e7]))
    by (cbn [lv app]; lia).
  rewrite (lv_mod_app 8 _ _ 64) by (solve_small || reflexivity).
  rewrite lv_shiftr_cons by lia.
  change 71777214294589695 with (lv 8 [255;0;255;0;255;0;255;0]).
  rewrite lv_land by solve_small. cbn [map2].
  change 255 with (N.ones 8). rewrite !N.land_0_r, !land_ones_small by lia.
  cbn [lv]. lia.
Qed.

Lemma stage2_spec p0 p1 p2 p3 :
  p0 <= 99 -> p1 <= 99 -> p2 <= 99 -> p3 <= 99 ->
  N.land (stage2 (lv 16 [p0;p1;p2;p3])) 281470681808895
  = lv 32 [100*p0+p1; 100*p2+p3].
Proof.
  intros. unfold stage2.
  replace (N.land (lv 16 [p0;p1;p2;p3]) 71777214294589695) with (lv 16 [p0;p1;p2;p3]).
  2:{ change 71777214294589695 with (lv 16 [255;255;255;255]).
      rewrite lv_land by solve_small. cbn [map2].
      change 255 with (N.ones 8). rewrite !land_ones_small by lia. reflexivity. }
  rewrite wmul_mod.
  replace (lv 16 [p0;p1;p2;p3] * 6553601)
    with (lv 16 ([p0; 100*p0+p1; 100*p1+p2; 100*p2+p3] ++ [100*p3]))
    by (cbn [lv app]; lia).
  rewrite (lv_mod_app 16 _ _ 64) by (solve_small || reflexivity).
  rewrite lv_shiftr_cons by lia.
  change 281470681808895 with (lv 16 [65535;0;65535;0]).
  rewrite lv_land by solve_small. cbn [map2].
  change 65535 with (N.ones 16). rewrite !N.land_0_r, !land_ones_small by lia.
  cbn [lv]. lia.
Qed.

Lemma stage3_spec q0 q1 :
  q0 <= 9999 -> q1 <= 9999 ->
  N.land (stage3 (lv 32 [q0;q1])) 4294967295 = 10000*q0+q1.
Proof.
  intros. unfold stage3.
  replace (N.land (lv 32 [q0;q1]) 281470681808895) with (lv 32 [q0;q1]).
  2:{ change 281470681808895 with (lv 32 [65535;65535]).
      rewrite lv_land by solve_small. cbn [map2].
      change 65535 with (N.ones 16). rewrite !land_ones_small by lia. reflexivity. }
  rewrite wmul_mod.
  replace (lv 32 [q0;q1] * 42949672960001)
    with (lv 32 ([q0; 10000*q0+q1] ++ [10000*q1]))
    by (cbn [lv app]; lia).
  rewrite (lv_mod_app 32 _ _ 64) by (solve_small || reflexivity).
  rewrite lv_shiftr_cons by lia.
  cbn [lv]. rewrite N.mul_0_r, N.add_0_r.
  change 4294967295 with (N.ones 32). apply land_ones_small. lia.
Qed.

Definition dstep (a e : N) : N := 10 * a + e.

Lemma value_spec es : length es = 8%nat -> Forall (fun e => e <= 9) es ->
  value_of (lv 8 es) = fold_left dstep es 0.
Proof.
  intros Hlen He.
  do 8 (destruct es as [|? es]; try discriminate). destruct es; try discriminate. clear Hlen.
  repeat match goal with H : Forall _ (_ :: _) |- _ => inversion H; clear H; subst end.
  unfold value_of.
  (* stage 1: the mask is applied at the start of stage 2 *)
  assert (E1 : forall x, stage2 x = stage2 (N.land x 71777214294589695)).
  { intros x. unfold stage2. rewrite <- N.land_assoc, N.land_diag. reflexivity. }
  assert (E2 : forall x, stage3 x = stage3 (N.land x 281470681808895)).
  { intros x. unfold stage3. rewrite <- N.land_assoc, N.land_diag. reflexivity. }
  rewrite E1, stage1_spec by assumption.
  rewrite E2, stage2_spec by lia.
  rewrite stage3_spec by lia.
  cbn [fold_left]. unfold dstep. lia.
Qed.

(* ------------------------------------------------------------------ *)
(* the specification side                                              *)

Lemma digit_prefix_split l : exists rest,
  l = digit_prefix l ++ rest /\
  Forall (fun b => is_dig b = true) (digit_prefix l) /\
  match rest with [] => True | c :: _ => is_dig c = false end.
Proof.
  induction l as [|b l IH]; cbn [digit_prefix].
  - exists []. repeat split; constructor.
  - destruct (is_dig b) eqn:Hb.
    + destruct IH as (rest & E & Hd & Hr). exists rest. cbn [app].
      rewrite <- E. repeat split; [constructor|]; assumption.
    + exists (b :: l). repeat split; [constructor | exact Hb].
Qed.

Lemma fold_dstep_zeros n a : a = 0 -> fold_left dstep (repeat 0 n) a = 0.
Proof. intros ->. induction n; cbn [repeat fold_left]; [reflexivity|]. exact IHn. Qed.

Lemma fold_dstep_digits ds : Forall (fun b => is_dig b = true) ds ->
  forall a, fold_left dstep (map lo ds) a = fold_left dec_step ds a.
Proof.
  induction 1 as [|d ds Hd _ IH]; intros a; cbn [map fold_left]; [reflexivity|].
  rewrite IH. unfold dstep, dec_step. rewrite (lo_dig d Hd). reflexivity.
Qed.

Lemma lo_digit_le9 ds : Forall (fun b => is_dig b = true) ds ->
  Forall (fun e => e <= 9) (map lo ds).
Proof.
  induction 1 as [|d ds Hd _ IH]; cbn [map]; constructor; [|exact IH].
  rewrite (lo_dig d Hd). unfold is_dig in Hd. apply andb_prop in Hd as [_ H].
  apply N.leb_le in H. lia.
Qed.

Theorem swar_spec : forall l : bytes,
  length l = 8%nat -> Forall (fun b => b < 256) l ->
  swar (le_value l) = (dec_val (digit_prefix l), nlen (digit_prefix l)).
Proof.
  intros l Hlen Hb.
  assert (Hs : small 8 l) by exact Hb.
  rewrite le_value_lv, swar_unfold, (matches_lanes l Hlen Hs), (lo_lanes l Hlen Hs).
  destruct (digit_prefix_split l) as (rest & El & Hd & Hr).
  set (ds := digit_prefix l) in *. clearbody ds.
  subst l. cbv zeta. unfold bytes, byte in *.
  rewrite (shift_spec ds rest Hlen Hs Hd Hr).
  destruct ds as [|d ds'] eqn:Eds.
  - reflexivity.
  - rewrite <- Eds in *.
    assert (Hk : nlen ds <> 0) by (rewrite Eds, nlen_cons; lia).
    destruct (N.eqb_spec (8 * nlen ds) 0) as [E|_]; [lia|].
    rewrite shl_spec by exact Hlen.
    f_equal.
    + rewrite value_spec.
      * rewrite fold_left_app, fold_dstep_zeros by reflexivity.
        apply fold_dstep_digits, Hd.
      * rewrite app_length, repeat_length, map_length.
        rewrite app_length in Hlen. lia.
      * apply Forall_app. split; [|apply lo_digit_le9, Hd].
        apply Forall_forall. intros x Hx. apply repeat_spec in Hx. lia.
    + rewrite N.mul_comm. apply N.div_mul. lia.
Qed.

Print Assumptions swar_spec.
