(* C07 — DIMACS-family and solver-log parsing is independent of layout.
   Pinned statements at the level the model reaches today: the lexical facts every token relies on.  Blank runs of any
   length are skipped as a whole; LF and CRLF are both one line break; leading zeros do not change a numeral's value
   and "-0" is 0; a numeral's reading does not depend on what follows it as long as that is not a digit.
   That the whole parsers depend only on the token sequence is validated by the expect oracle (rendered values with
   random layout, all seven parsers) and the pa correspondence stream (partial). *)
From Flussab Require Import Base Reader Writer Prog Text TextSpec ProgProofs ScanProofs DecimalProofs DigitsProofs RoundTrip.

(* tabs_or_spaces: returns the offset behind the whole blank run, however long *)
Theorem C07_blank_runs_are_skipped_whole : forall fuel off v,
  (length (blank_prefix (rest_at v off)) < fuel)%nat ->
  exists v', srun (tabs_or_spaces fuel off) v = ADone (off + nlen (blank_prefix (rest_at v off))) v' /\
             peeked_to v v' (vcur v + off + nlen (blank_prefix (rest_at v off)) + 1).
Proof. exact tabs_or_spaces_spec. Qed.
Print Assumptions C07_blank_runs_are_skipped_whole.

(* newline: LF is a line break of length 1, CR LF one of length 2, nothing else is *)
Theorem C07_lf_and_crlf : forall off v,
  exists v', srun (newline off) v = ADone (off + newline_len (rest_at v off)) v' /\
             peeked_to v v' (vcur v + off + newline_look (rest_at v off)).
Proof. exact newline_spec. Qed.
Print Assumptions C07_lf_and_crlf.

Theorem C07_newline_len_cases : forall r,
  newline_len (10 :: r) = 1 /\ newline_len (13 :: 10 :: r) = 2 /\ newline_len [13] = 0 /\ newline_len [] = 0.
Proof. intros r. repeat split. Qed.
Print Assumptions C07_newline_len_cases.

(* numerals: leading zeros, "-0" *)
Theorem C07_leading_zeros : forall k l, dec_val (repeat 48 k ++ l) = dec_val l.
Proof. exact dec_val_leading_zeros. Qed.
Print Assumptions C07_leading_zeros.

Theorem C07_minus_zero : forall t rest, no_digit_ahead rest -> signed_spec t (45 :: 48 :: rest) = (Some 0%Z, 2).
Proof. exact signed_spec_minus_zero. Qed.
Print Assumptions C07_minus_zero.

(* a numeral reads the same whatever non-digit follows it: space, tab, CR, LF or the end of the input *)
Theorem C07_numeral_independent_of_what_follows : forall t z rest,
  in_range t z = true -> no_digit_ahead rest ->
  signed_spec t (decimal z ++ rest) = (Some z, nlen (decimal z)).
Proof. exact signed_reads_written. Qed.
Print Assumptions C07_numeral_independent_of_what_follows.
