(* AigLook.v — C09 for the binary AIGER and-gate section (binary.rs next_and_gate: two token::delta_code, each a
   token::binary_uint group encoding of at most 8 bytes).
   A binary gate is not a line: it is the bytes of its two codes and nothing else.  The exact bound is therefore
   stronger than that of a text line: when a gate is handed out, the last byte asked for is the last byte of the
   gate -- [vreq v' <= max (vreq v) (vcur v')], with the cursor v' just behind that byte.  binary_uint asks byte by
   byte: it looks at offset k + 1 only after the byte at offset k came back with its continuation bit set.
   Whatever the outcome (an error included) what the reader asked for lies in the line of its final cursor (Lk):
   the bytes of a group encoding before its last one carry the continuation bit and are no LF.
   Header, latches, outputs ... of the binary format are text lines: AigerLook.v (aag_header_lookahead,
   aig_entry_lookahead_latch, aag_entry_lookahead_lit_line, ...).  The framework is LookW.v (wrt, Pk, LkP). *)
From Flussab Require Import Base Reader ListN Writer Parsed Prog Text TextSpec ProgProofs ScanProofs DigitsProofs.
From Flussab Require Import ReaderProofs Simulation Consts Cnf CnfProofs ErrProofs Varint Aiger AigerProofs Hoare CnfSafe.
From Flussab Require Import Look LookProofs LookW AigerSafe AigerLook.
Ltac Zify.zify_post_hook ::= Z.to_euclidean_division_equations.
Local Open Scope N_scope.

(* ================================================================== *)
(* 1. the bound of a binary item                                        *)

(* bytes were consumed, and nothing beyond the last of them has been asked for *)
Definition ByteLk (v v' : view) : Prop := vcur v < vcur v' /\ vreq v' <= N.max (vreq v) (vcur v').

Lemma ByteLk_trans v1 v2 v3 : ByteLk v1 v2 -> ByteLk v2 v3 -> ByteLk v1 v3.
Proof. intros [a1 a2] [b1 b2]. split; lia. Qed.

(* ... and at most k of them *)
Definition ByteLkN (k : N) (v v' : view) : Prop := ByteLk v v' /\ vcur v' <= vcur v + k.

Lemma ByteLkN_trans j k v1 v2 v3 : ByteLkN j v1 v2 -> ByteLkN k v2 v3 -> ByteLkN (j + k) v1 v3.
Proof. intros [a1 a2] [b1 b2]. split; [eapply ByteLk_trans; eassumption|lia]. Qed.

(* what had been asked for before the item started stays where it was *)
Lemma ByteLk_after v0 v v' : vcur v0 <= vcur v -> vreq v <= N.max (vreq v0) (vcur v) -> vcur v0 < vcur v' -> ByteLk v v' ->
  vreq v' <= N.max (vreq v0) (vcur v').
Proof. intros H1 H2 H3 [b1 b2]. lia. Qed.

Section GLook.
Variable fuel : nat.

Local Notation Wv := (Wv fuel).
Local Notation wrt := (wrt fuel).
Local Notation LkP := (LkP fuel).

(* ================================================================== *)
(* 2. token::binary_uint                                                *)

(* the first loop: byte_len bytes with the continuation bit have been looked at; the byte at byte_len is looked at
   next.  On success the bytes looked at are exactly those of the group encoding. *)
Lemma varint_scan_w n : forall byte_len acc lr vi v,
  Pk v vi byte_len -> nlen acc = byte_len ->
  wrt (varint_scan n byte_len acc) lr vi (fun r _ v' =>
    match r with
    | Ok acc' => 0 < nlen acc' /\ nlen acc' <= byte_len + N.of_nat n /\ Pk v v' (nlen acc' - 1)
    | Err _ => Lk v v'
    end).
Proof.
  induction n as [|n IH]; intros byte_len acc lr vi v HP Hacc; cbn [varint_scan]; [apply wrt_pnofuel|].
  apply wrt_pbnd, wrt_ppeek. pose proof (Pk_peek _ _ _ _ HP (N.le_refl byte_len)) as HP1.
  assert (Hf1 : Fl v (after_peek vi byte_len)) by (eapply Pk_Fl; [exact HP1|reflexivity|reflexivity|lia]).
  assert (Herr : forall (err : PM perr), LkP err ->
            wrt (@fail_with bytes err) lr (after_peek vi byte_len)
                (fun r _ v' => match r with
                               | Ok acc' => 0 < nlen acc' /\ nlen acc' <= byte_len + N.of_nat (S n) /\ Pk v v' (nlen acc' - 1)
                               | Err _ => Lk v v'
                               end)).
  { intros err He. unfold fail_with. apply wrt_pbnd.
    eapply wrt_conseq; [apply (wrt_tail fuel err lr v _ Hf1 He)|]. intros e lr1 v1 Hl. apply wrt_pret. exact Hl. }
  destruct (vpeek vi byte_len) as [b|] eqn:Ep; [|apply Herr, LkP_unexpected].
  destruct (N.land b 128 =? 0) eqn:Eb.
  - apply wrt_pret. rewrite nlen_cons, Hacc. split; [lia|]. split; [lia|]. replace (1 + byte_len - 1) with byte_len by lia. exact HP1.
  - destruct (byte_len + 1 =? 8); [apply Herr, LkP_give_up|].
    eapply wrt_conseq; [apply (IH (byte_len + 1) (b :: acc) lr (after_peek vi byte_len) v); [|rewrite nlen_cons; lia]|].
    + apply (Pk_ext _ _ _ b); [exact HP1|rewrite vpeek_after_peek; exact Ep|apply cont_not_lf; exact Eb].
    + intros [acc'|e] lr1 v1 H; [|exact H]. destruct H as (h1 & h2 & h3). split; [exact h1|]. split; [lia|exact h3].
Qed.

Lemma binary_uint_w lr v :
  wrt binary_uint lr v (fun r _ v' => Lk v v' /\ forall x, r = Ok x -> ByteLkN 8 v v').
Proof.
  apply wrt_W. intros HW. unfold binary_uint, rbnd. apply wrt_pbnd.
  eapply wrt_conseq; [apply (varint_scan_w 8 0 [] lr v v (Pk_W fuel v HW) eq_refl)|].
  intros [acc|e] lr1 v1 H; [|apply wrt_pret; split; [exact H|intros x E; discriminate]].
  destruct H as (Hpos & Hlen & HP). change (0 + N.of_nat 8) with 8 in Hlen.
  destruct (varint_value acc 0) as [val|].
  - cbv zeta. apply wrt_pbnd, wrt_padvance, wrt_pret.
    pose proof HP as (a1 & a2 & a3 & a4 & a5).
    split; [eapply Pk_Lk; [exact HP|reflexivity|cbn [v_advance vcur]; lia]|].
    intros x _. unfold ByteLkN, ByteLk. cbn [v_advance vcur vreq]. rewrite a2. split; [split; lia|lia].
  - unfold fail_with. apply wrt_pbnd.
    eapply wrt_conseq; [apply (wrt_tail fuel give_up lr1 v v1); [|apply LkP_give_up]|].
    + eapply Pk_Fl; [exact HP|reflexivity|reflexivity|lia].
    + intros e lr2 v2 Hl. apply wrt_pret. split; [exact Hl|intros x E; discriminate].
Qed.

Lemma LkP_binary_uint : LkP binary_uint.
Proof. intros lr v. eapply wrt_conseq; [apply binary_uint_w|]. intros a lr' v' [H _]. exact H. Qed.

(* ================================================================== *)
(* 3. token::delta_code, binary next_and_gate                           *)

Lemma delta_code_w code lr v :
  wrt (delta_code code) lr v (fun r _ v' => Lk v v' /\ forall x, r = Ok x -> ByteLkN 8 v v').
Proof.
  unfold delta_code. apply wrt_pbnd, wrt_pset_mark. unfold rbnd. apply wrt_pbnd.
  eapply wrt_conseq; [apply wrt_Wpost, (binary_uint_w lr (v_setmark v))|].
  intros [[delta ends]|e] lr1 v1 (HW1 & Hfr & Hl & Hb); [|apply wrt_pret; split; [exact Hl|intros x E; discriminate]].
  assert (Hl0 : Lk v v1) by exact Hl.
  assert (Hb0 : ByteLkN 8 v v1) by (exact (Hb _ eq_refl)).
  assert (Hf1 : Fl v v1).
  { destruct Hfr as (a1 & _ & a3). split; [exact a1|]. split; [exact a3|exact Hl0]. }
  destruct (code <? delta).
  - unfold fail_with. apply wrt_pbnd.
    eapply wrt_conseq; [apply (wrt_tail fuel give_up_at_mark lr1 v v1 Hf1 (LkP_give_up_at_mark fuel))|].
    intros e lr2 v2 Hl2. apply wrt_pret. split; [exact Hl2|intros x E; discriminate].
  - apply wrt_pbnd. destruct ends.
    + apply wrt_line_at_offset. intros lr2. apply wrt_pret. split; [exact Hl0|intros x _; exact Hb0].
    + apply wrt_pret. apply wrt_pret. split; [exact Hl0|intros x _; exact Hb0].
Qed.

Lemma LkP_delta_code code : LkP (delta_code code).
Proof. intros lr v. eapply wrt_conseq; [apply delta_code_w|]. intros a lr' v' [H _]. exact H. Qed.

Lemma LkP_aig_and maxc code : LkP (aig_and maxc code).
Proof.
  unfold aig_and, code_plus_2. apply LkP_rbnd; [apply LkP_delta_code|]. intros in0.
  apply LkP_rbnd; [apply LkP_delta_code|]. intros in1. apply LkP_pret.
Qed.

(* a gate has been handed out: the two codes were consumed, nothing beyond the last byte of the second was asked for *)
Lemma aig_and_item maxc code lr v :
  wrt (aig_and maxc code) lr v (fun r _ v' => forall x, r = Ok x -> ByteLkN 16 v v' /\ snd x = (code + 2) mod W64).
Proof.
  unfold aig_and, code_plus_2, rbnd. apply wrt_pbnd.
  eapply wrt_conseq; [apply delta_code_w|]. intros [in0|e] lr1 v1 [_ Hb1]; [|apply wrt_pret; intros x E; discriminate].
  apply wrt_pbnd.
  eapply wrt_conseq; [apply delta_code_w|]. intros [in1|e] lr2 v2 [_ Hb2]; [|apply wrt_pret; intros x E; discriminate].
  apply wrt_pret. intros x E. inversion E; subst x. cbn [snd]. split; [|reflexivity].
  exact (ByteLkN_trans 8 8 _ _ _ (Hb1 _ eq_refl) (Hb2 _ eq_refl)).
Qed.

(* a whole section of gates: whatever the outcome it stays in the line of its cursor; when it ran to its end, nothing
   beyond the last byte of its last gate has been asked for *)
Lemma sloop_bytes {St : Type} (it : St -> PM (result (item * St) perr)) :
  (forall st lr v, wrt (it st) lr v (fun r _ v' => forall x, r = Ok x -> ByteLk v v')) ->
  forall n left st acc lr v0 v, vcur v0 <= vcur v -> vreq v <= N.max (vreq v0) (vcur v) ->
  wrt (sloop n it left st acc) lr v (fun r _ v' => snd r = None -> vcur v0 <= vcur v' /\ vreq v' <= N.max (vreq v0) (vcur v')).
Proof.
  intros Hit. induction n as [|n IH]; intros left st acc lr v0 v Hc Hq; cbn [sloop];
    (destruct (left =? 0); [apply wrt_pret; intros _; split; assumption|]).
  - apply wrt_pnofuel.
  - apply wrt_pbnd. eapply wrt_conseq; [apply Hit|]. intros [[x st']|e] lr1 v1 Hb.
    + destruct (Hb _ eq_refl) as [b1 b2]. apply IH; lia.
    + apply wrt_pret. cbn [snd]. intros E. discriminate.
Qed.

End GLook.

(* ================================================================== *)
(* L1: next_and_gate, one call, every admissible run from any state satisfying KM *)

(* Whatever the outcome, what the call asked for lies in the line of the new cursor (Lk).  When a gate is handed out
   the invariant holds again, bytes were consumed, and the highest offset ever asked for is that of the gate's last
   byte: nothing behind the gate has been requested. *)
Theorem aig_and_lookahead fuel maxc code lr v r :
  code < W64 -> KM fuel (vS v) lr v -> aruns (aig_and maxc code lr) v r ->
  exists res lr' v', r = ADone (res, lr') v' /\ vS v' = vS v /\ vcur v <= vcur v' /\ Lk v v' /\
    match res with
    | Ok x => EntryG fuel v x lr' v' /\ vreq v' <= N.max (vreq v) (vcur v') /\ vcur v' <= vcur v + 16 /\ snd x = (code + 2) mod W64
    | Err _ => True
    end.
Proof.
  intros Hcode HK Hr. pose proof (KM_Wv fuel lr v HK) as HW.
  assert (Hs : prt (aig_and maxc code) lr v (ItPost (KI fuel (vS v)) (CodeJ code (andsB maxc code)) (EP (vS v)) [] v)).
  { apply (aig_and_it fuel (vS v) maxc code code [] lr v HK). split; [exact I|].
    change (nlen (@nil item)) with 0. rewrite N.mul_0_r, N.add_0_r. symmetry. apply N.mod_small. exact Hcode. }
  destruct (prt_elim _ _ _ _ _ Hs Hr) as (res & lr' & v' & -> & (a1 & _ & a3) & Hres).
  exists res, lr', v'. split; [reflexivity|]. split; [exact a1|]. split; [exact a3|].
  split; [exact (LkP_aig_and fuel maxc code lr v HW res lr' v' Hr)|]. destruct res as [[x st']|e]; [|exact I].
  destruct Hres as (h1 & h2 & _). split; [split; [exact h1|exact h2]|].
  destruct (aig_and_item fuel maxc code lr v HW _ lr' v' Hr _ eq_refl) as [[[_ h3] h4] h5]. cbn [snd] in h5.
  split; [exact h3|]. split; [exact h4|exact h5].
Qed.
Print Assumptions aig_and_lookahead.

(* the same, spelled out *)
Corollary aig_and_lookahead_explicit fuel maxc code lr v x lr' v' :
  code < W64 -> KM fuel (vS v) lr v -> aruns (aig_and maxc code lr) v (ADone (Ok x, lr') v') ->
  vcur v < vcur v' /\ vreq v' <= N.max (vreq v) (vcur v').
Proof.
  intros Hcode HK Hr. destruct (aig_and_lookahead fuel maxc code lr v _ Hcode HK Hr) as (res & lr2 & v2 & E & _ & _ & _ & Hres).
  inversion E; subst. destruct Hres as ([_ Hlt] & Hq & _). split; assumption.
Qed.
Print Assumptions aig_and_lookahead_explicit.

(* a single code *)
Theorem delta_code_lookahead fuel code lr v r :
  KM fuel (vS v) lr v -> aruns (delta_code code lr) v r ->
  exists res lr' v', r = ADone (res, lr') v' /\ vS v' = vS v /\ vcur v <= vcur v' /\ Lk v v' /\
    match res with
    | Ok x => KM fuel (vS v) lr' v' /\ vcur v < vcur v' /\ vreq v' <= N.max (vreq v) (vcur v')
    | Err _ => True
    end.
Proof.
  intros HK Hr. pose proof (KM_Wv fuel lr v HK) as HW.
  destruct (prt_elim _ _ _ _ _ (delta_code_ok fuel (vS v) code lr v HK) Hr) as (res & lr' & v' & -> & (a1 & _ & a3) & Hres).
  exists res, lr', v'. split; [reflexivity|]. split; [exact a1|]. split; [exact a3|].
  destruct (delta_code_w fuel code lr v HW res lr' v' Hr) as [Hl Hb]. split; [exact Hl|].
  destruct res as [x|e]; [|exact I]. destruct Hres as (h1 & h2 & _). split; [exact h1|]. split; [exact h2|].
  exact (proj2 (proj1 (Hb _ eq_refl))).
Qed.
Print Assumptions delta_code_lookahead.

(* the and-gate section as a whole *)
Theorem aig_and_section_lookahead fuel maxc n left code lr v items st' oe lr' v' :
  Wv fuel v -> aruns (sloop n (aig_and maxc) left code [] lr) v (ADone ((items, st', oe), lr') v') ->
  Lk v v' /\ (oe = None -> vreq v' <= N.max (vreq v) (vcur v')).
Proof.
  intros HW Hr. split; [exact (LkP_sloop fuel (aig_and maxc) (LkP_aig_and fuel maxc) n left code [] lr v HW _ lr' v' Hr)|].
  intros Hoe.
  assert (Hit : forall st lr0 v0, wrt fuel (aig_and maxc st) lr0 v0 (fun r _ v1 => forall x, r = Ok x -> ByteLk v0 v1)).
  { intros st lr0 v0. eapply wrt_conseq; [apply aig_and_item|]. intros a lr1 v1 H x E. exact (proj1 (proj1 (H x E))). }
  assert (H := sloop_bytes fuel (aig_and maxc) Hit n left code [] lr v v (N.le_refl _) ltac:(lia) HW _ lr' v' Hr Hoe).
  exact (proj2 H).
Qed.
Print Assumptions aig_and_section_lookahead.

(* ================================================================== *)
(* L2: the concrete reader, any honest source delivering arbitrary pieces, any chunk size *)

(* The reader calls the source only inside a Peek whose offset is not buffered.  By L1 the call asks for nothing
   beyond the gate's last byte (position vcur v' = g_consumed s').  Hence: if what had been asked for before the call
   and the gate's last byte had been delivered when the call began, the call does not touch the source. *)
Theorem aig_and_no_read_when_delivered fuel maxc code lr s v x lr' s' :
  code < W64 -> Rel s v -> KM fuel (vS v) lr v -> crun (aig_and maxc code lr) s = CDone (Ok x, lr') s' ->
  exists v', aruns (aig_and maxc code lr) v (ADone (Ok x, lr') v') /\ Rel s' v' /\ KM fuel (vS v') lr' v' /\
             vcur v < vcur v' /\ vreq v' <= N.max (vreq v) (vcur v') /\
             (vreq v <= nlen (g_delivered s) -> g_consumed s' <= nlen (g_delivered s) ->
              g_delivered s' = g_delivered s /\ src s' = src s).
Proof.
  intros Hcode HR HK Hc.
  destruct (simulation_inv (PQ (g_delivered s) (src s)) (PQ_peek _ _) (PQ_same _ _) (aig_and maxc code lr) s v HR) as (r & Hr & Href);
    [intros _; split; reflexivity|].
  destruct (aig_and_lookahead fuel maxc code lr v r Hcode HK Hr) as (res & lr2 & v' & -> & a1 & a3 & a4 & Hres).
  destruct Href as (s2 & Hc2 & HR' & HP'). rewrite Hc in Hc2. inversion Hc2; subst res lr2 s2.
  exists v'. split; [exact Hr|]. destruct Hres as ([HK' Hlt] & Hq & _). rewrite <- a1 in HK'.
  split; [exact HR'|]. split; [exact HK'|]. split; [exact Hlt|]. split; [exact Hq|].
  intros H1 H2. apply HP'. rewrite <- (r_cur _ _ (proj1 HR')) in H2. lia.
Qed.
Print Assumptions aig_and_no_read_when_delivered.

(* The state between two gates of the and-gate section: nothing beyond the cursor has been asked for.  It holds at
   the start of the section when the line before it was handed out by one of the text readers (ItemLk, Near), and
   every gate establishes it again. *)
Definition SessionG (fuel : nat) (lr : lrs) (s : rstate) (v : view) : Prop :=
  Rel s v /\ KM fuel (vS v) lr v /\ vreq v <= vcur v.

Lemma SessionG_of_line fuel lr s v0 v :
  Rel s v -> KM fuel (vS v) lr v -> Near v0 -> ItemLk v0 v -> vcur v < nlen (vS v0) -> SessionG fuel lr s v.
Proof.
  intros HR HK HN Hi Hlt. split; [exact HR|]. split; [exact HK|].
  destruct (Near_ItemLk v0 v HN Hi) as [(c1 & _)|c1]; [exact c1|lia].
Qed.

(* a gate, read through a reader that receives its input in arbitrary pieces: the session invariant holds again, and no
   read is issued if the gate's last byte had been delivered when the call began *)
Theorem aig_and_piecewise fuel maxc code lr s v x lr' s' :
  code < W64 -> SessionG fuel lr s v -> crun (aig_and maxc code lr) s = CDone (Ok x, lr') s' ->
  exists v', aruns (aig_and maxc code lr) v (ADone (Ok x, lr') v') /\ SessionG fuel lr' s' v' /\
             g_consumed s < g_consumed s' /\ vreq v' <= vcur v' /\
             (g_consumed s' <= nlen (g_delivered s) -> g_delivered s' = g_delivered s /\ src s' = src s).
Proof.
  intros Hcode (HR & HK & Hq) Hc.
  destruct (aig_and_no_read_when_delivered fuel maxc code lr s v x lr' s' Hcode HR HK Hc) as (v' & Hr & HR' & HK' & Hlt & Hq' & Hno).
  exists v'. split; [exact Hr|]. split; [split; [exact HR'|split; [exact HK'|lia]]|].
  pose proof (r_cur _ _ (proj1 HR')) as Hcur'. pose proof (r_cur _ _ (proj1 HR)) as Hcur.
  split; [lia|]. split; [lia|].
  intros Hd. apply Hno; [|exact Hd].
  pose proof (inv_count s (r_inv _ _ (proj1 HR))) as Hcnt. lia.
Qed.
Print Assumptions aig_and_piecewise.

(* ================================================================== *)
(* examples: the bound is attained; the seeded change would break it    *)

(* two gates back to back, followed by other bytes: gate 1 = 02 02 (two one-byte codes), gate 2 = 81 00 01 (a two-byte
   code and a one-byte code): after each gate the cursor stands behind its last byte and nothing more has been asked for *)
Example look_aig_gates :
  let S := [2; 2; 129; 0; 1; 7; 7; 7; 7; 7; 7; 7; 7] in
  match srun (aig_and 255 6 lrs_init) (view_init S None) with
  | ADone (Ok (_, code'), lr) v1 =>
      (vcur v1, vreq v1, code') = (2, 2, 8) /\
      match srun (aig_and 255 200 lr) v1 with
      | ADone (Ok _, _) v2 => (vcur v2, vreq v2) = (5, 5)
      | _ => False
      end
  | _ => False
  end.
Proof. vm_compute. split; reflexivity. Qed.

(* a code whose last byte is an LF: a line break is recorded, nothing beyond it is asked for *)
Example look_aig_gate_lf :
  let S := [10; 0; 7; 7] in
  match srun (aig_and 255 20 lrs_init) (view_init S None) with
  | ADone (Ok _, lr) v1 => (vcur v1, vreq v1, l_line lr) = (2, 2, l_line lrs_init + 1)
  | _ => False
  end.
Proof. vm_compute. reflexivity. Qed.

(* the data of a gate arriving in pieces of one byte: the two reads that deliver the gate are the only ones *)
Example look_aig_bytewise :
  let sr := {| prebuf := []; data := [2; 2; 129; 0; 1]; events := [Deliver 1; Deliver 1; Deliver 1; Deliver 1; Deliver 1] |} in
  match crun (aig_and 255 6 lrs_init) (set_chunk (reader_init sr) 16384) with
  | CDone (Ok _, lr) s1 =>
      (nlen (g_delivered s1), g_calls s1, valid_len s1) = (2, 2, 0) /\
      match crun (aig_and 255 200 lr) s1 with
      | CDone (Ok _, _) s2 => (nlen (g_delivered s2), g_calls s2, valid_len s2) = (5, 5, 0)
      | _ => False
      end
  | _ => False
  end.
Proof. vm_compute. split; reflexivity. Qed.

(* the bound is exact because binary_uint asks byte by byte.  A first loop that, on seeing the continuation bit of the
   first byte, asked for the 8 bytes a group encoding can have at most ("request(8)": a look at offset 7) would hand out
   the gate 81 00 01 having asked for 5 bytes behind it: *)
Definition varint_scan_request8 : PM (result bytes perr) :=
  let* o := ppeek 0 in
  match o with
  | Some b =>
      if N.land b 128 =? 0 then pret (Ok [b])
      else (let* _ := ppeek 7 in varint_scan 7 1 [b])
  | None => fail_with unexpected
  end.
Definition binary_uint_request8 : PM (result (N * bool) perr) :=
  let? acc := varint_scan_request8 in
  match varint_value acc 0 with
  | None => fail_with give_up
  | Some v => padvance (nlen acc) ;;;; pret (Ok (v, is_byte (hd_error acc) 10))
  end.

Example request8_breaks_the_bound :
  let S := [129; 0; 1; 7; 7; 7; 7; 7; 7; 7; 7; 7; 7] in
  match srun (binary_uint lrs_init) (view_init S None), srun (binary_uint_request8 lrs_init) (view_init S None) with
  | ADone (Ok (a, _), _) v1, ADone (Ok (b, _), _) v2 => (a, vcur v1, vreq v1) = (1, 2, 2) /\ (b, vcur v2, vreq v2) = (1, 2, 8)
  | _, _ => False
  end.
Proof. vm_compute. split; reflexivity. Qed.
