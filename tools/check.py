#!/usr/bin/env python3
"""Orchestrator: ./check <Cxx> [--tier quick|thorough] [--replay FILE]

For one property:
  1. regenerate the translated tables from /repo (tools/translate.py);
  2. (re)build the Coq development up to Props/<Cxx>.v, re-run the Props file
     to collect `Print Assumptions`, audit the sources for forbidden commands;
  3. build the extracted-model driver and the Rust harness against /repo's
     current working tree (debug and release profiles);
  4. run the correspondence streams (model vs implementation, line-by-line
     diff of canonical traces) and the implementation-only property oracles;
  5. when a proof obligation or a correspondence stream breaks, search for a
     concrete failing input with the property oracle and report it;
  6. write evidence/<Cxx>.json.
Exit 0: property held on everything explored.  Exit 1: a line
`VIOLATION property=<id> replay=<path>` was printed.
"""
import argparse, fcntl, hashlib, importlib, json, os, random, re, shutil, subprocess, sys, time

ROOT = os.path.dirname(os.path.dirname(os.path.abspath(__file__)))
COQ = os.path.join(ROOT, "coq")
WORK = os.path.join(ROOT, ".work")
REPLAYS = os.path.join(ROOT, "replays")
sys.path.insert(0, os.path.join(ROOT, "tools"))

import props as PROPS  # per-property configuration

FORBIDDEN = re.compile(
    r"\b(Admitted|admit|Axiom|Axioms|Parameter|Parameters|Conjecture|Conjectures|Admit Obligations|"
    r"Unset Guard Checking|Unset Positivity Checking|Unset Universe Checking|bypass_check|"
    r"type-in-type|impredicative-set|native_compute)\b")
# standard-library axioms a theorem may depend on, by name (none expected)
ALL_PROPS = {"C%02d" % i for i in range(1, 17)}
_PARSER_PROPS = {"C01", "C03", "C04", "C05", "C06", "C07", "C08", "C09", "C10"}
# which properties' theorems or model streams depend on which generated section of coq/Consts.v
TRANSLATOR_SECTIONS = {
    "reader_writer": {"C01", "C02", "C09", "C10", "C11", "C14"},
    "dimacs_max": _PARSER_PROPS, "lit_max_code": _PARSER_PROPS, "dimacs_words": _PARSER_PROPS,
    "aiger_header": _PARSER_PROPS, "btor2_names": _PARSER_PROPS, "btor2_keywords": _PARSER_PROPS, "btor2_lowercase": _PARSER_PROPS,
    "prealloc": {"C05"},
}

AXIOM_ALLOW = {
    "functional_extensionality_dep", "FunctionalExtensionality.functional_extensionality_dep",
    "proof_irrelevance", "ProofIrrelevance.proof_irrelevance", "classic", "Classical_Prop.classic",
    "JMeq_eq", "JMeq.JMeq_eq", "Eqdep.Eq_rect_eq.eq_rect_eq",
}


def sh(cmd, cwd=None, timeout=3600, env=None, stdin=None):
    e = dict(os.environ)
    e["CARGO_NET_OFFLINE"] = "true"
    if env:
        e.update(env)
    p = subprocess.run(cmd, cwd=cwd, shell=isinstance(cmd, str), stdout=subprocess.PIPE,
                       stderr=subprocess.STDOUT, timeout=timeout, env=e, input=stdin)
    return p.returncode, p.stdout.decode("utf-8", "replace")


class Lock:
    def __init__(self, name):
        os.makedirs(WORK, exist_ok=True)
        self.path = os.path.join(WORK, name + ".lock")

    def __enter__(self):
        self.f = open(self.path, "w")
        fcntl.flock(self.f, fcntl.LOCK_EX)

    def __exit__(self, *a):
        fcntl.flock(self.f, fcntl.LOCK_UN)
        self.f.close()


# ----------------------------------------------------------------- Coq side

def coq_sources():
    out = []
    for d, _, fs in os.walk(COQ):
        if "extracted" in d:
            continue
        for f in fs:
            if f.endswith(".v"):
                out.append(os.path.join(d, f))
    return sorted(out)


def audit_sources():
    """grep for commands that would declare an axiom or disable a kernel check"""
    bad = []
    for p in coq_sources():
        txt = open(p).read()
        # strip comments (non-nested is enough: we never nest) before matching
        txt2 = re.sub(r"\(\*.*?\*\)", lambda m: "\n" * m.group(0).count("\n"), txt, flags=re.S)
        for i, line in enumerate(txt2.split("\n"), 1):
            if FORBIDDEN.search(line):
                bad.append("%s:%d: %s" % (os.path.relpath(p, ROOT), i, line.strip()))
    return bad


def build_coq(prop, log, tier="quick"):
    """returns (ok, obligations, discharged, assumptions, failing_theorems, output)"""
    with Lock("coq"):
        rc, out = sh([sys.executable, os.path.join(ROOT, "tools", "translate.py")], cwd=ROOT)
        log.append(out)
        stale = []
        if rc == 3:
            # some sections of the source no longer have the expected shape; the translator kept their last good text.
            # That is a broken obligation for the properties that depend on those constants, and only for them.
            secs = re.findall(r"translate\.py: section (\w+): ([^\n]*)", out)
            hit = [(n, e) for n, e in secs if prop in TRANSLATOR_SECTIONS.get(n, ALL_PROPS)]
            if hit:
                return False, 0, 0, [], ["translator: section %s: %s" % hit[0]], out
            stale = ["translator: section %s no longer matches the source (kept its last good text; not used by this property)" % n for n, _ in secs]
        elif rc != 0:
            return False, 0, 0, [], ["translator: " + out.strip().split("\n")[-1]], out
        if not os.path.exists(os.path.join(COQ, "Makefile")):
            sh("coq_makefile -f _CoqProject -o Makefile", cwd=COQ)
        os.makedirs(os.path.join(COQ, "extracted"), exist_ok=True)
        pf = "Props/%s.v" % prop
        text = open(os.path.join(COQ, pf)).read()
        theorems = re.findall(r"^Theorem\s+(\w+)", text, flags=re.M)
        def where_of(o):
            m = re.search(r'File "([^"]+)", line (\d+), characters [\d-]+:\s*\n\s*Error', o) or re.search(r'File "([^"]+)", line (\d+)', o)
            return ("%s:%s" % (m.group(1), m.group(2))) if m else "make"
        # the property's own theorems (and everything they depend on) first ...
        rc, out = sh("timeout 3000 make -j16 Props/%s.vo 2>&1" % prop, cwd=COQ, timeout=3100)
        log.append(out)
        if rc != 0:
            return False, len(theorems), 0, [], ["coq build failed at " + where_of(out)], out
        # ... then the extraction of the whole model.  A failure in a file this property's theorems do not depend on
        # (it would have shown above) is not this property's broken obligation: the last extracted model is used and
        # the fact is recorded; the properties that do depend on the file report it.
        rc, xout = sh("timeout 3000 make -j16 Extract.vo 2>&1", cwd=COQ, timeout=3100)
        log.append(xout)
        if rc != 0:
            if not os.path.exists(os.path.join(COQ, "extracted", "model.ml")):
                return False, len(theorems), 0, [], ["coq build failed at " + where_of(xout)], xout
            stale.append("extraction: the model no longer builds at %s (outside this property's theorems); the last extracted "
                         "model is used for the correspondence streams" % where_of(xout))
        # re-run the Props file itself to collect Print Assumptions every time
        os.makedirs(os.path.join(WORK, "props"), exist_ok=True)
        rc, out = sh("timeout 600 coqc -Q . Flussab -o %s/props/%s.vo %s 2>&1" % (WORK, prop, pf), cwd=COQ)
        log.append(out)
        if rc != 0:
            return False, len(theorems), 0, [], ["coqc %s failed" % pf], out
    # parse Print Assumptions blocks: one per theorem, in order
    blocks = re.split(r"(?=Closed under the global context|Axioms:)", out)
    blocks = [b for b in blocks if b.startswith("Closed") or b.startswith("Axioms:")]
    assumptions, failing, discharged = list(stale), [], 0
    if len(blocks) != len(theorems):
        failing.append("expected %d Print Assumptions blocks, saw %d" % (len(theorems), len(blocks)))
    for name, b in zip(theorems, blocks):
        if b.startswith("Closed"):
            discharged += 1
            continue
        axs = re.findall(r"^([\w.']+)\s*:", b, flags=re.M)
        axs = [a for a in axs if a != "Axioms"]
        notallowed = [a for a in axs if a not in AXIOM_ALLOW and a.split(".")[-1] not in AXIOM_ALLOW]
        assumptions += ["%s depends on %s" % (name, a) for a in axs]
        if notallowed:
            failing.append("%s depends on non-allowlisted %s" % (name, ",".join(notallowed)))
        else:
            discharged += 1
    bad = audit_sources()
    if bad:
        failing += ["forbidden command: " + b for b in bad]
        discharged = 0
    if tier == "thorough" and not failing:
        # independent re-check of the compiled closure of this property's theorems, with the axioms it relies on
        with Lock("coq"):
            rc, cout = sh("timeout 3000 coqchk -o -silent -Q . Flussab Flussab.Props.%s 2>&1" % prop, cwd=COQ, timeout=3100)
        log.append(cout)
        m = re.search(r"\* Axioms:(.*?)\n\s*\n\* ", cout, flags=re.S)
        axs = (m.group(1).strip() if m else "?")
        clean = all(k in cout for k in ("type-in-type: <none>", "unsafe (co)fixpoints: <none>", "positivity is assumed: <none>"))
        if rc != 0 or not m or not clean:
            failing.append("coqchk failed on Props/%s (or reports type-in-type / unsafe fixpoints / assumed positivity)" % prop)
            discharged = 0
        elif axs != "<none>":
            names = [a.strip() for a in axs.split("\n") if a.strip()]
            notallowed = [a for a in names if a not in AXIOM_ALLOW and a.split(".")[-1] not in AXIOM_ALLOW]
            assumptions += ["coqchk: closure of Props/%s relies on %s" % (prop, a) for a in names]
            if notallowed:
                failing.append("coqchk: non-allowlisted axioms " + ",".join(notallowed))
        else:
            assumptions += ["coqchk -o on Flussab.Props.%s: Axioms: <none>; no type-in-type, no unsafe fixpoints, positivity never assumed" % prop]
    return (not failing), len(theorems), discharged, assumptions, failing, out


def build_driver(log):
    with Lock("ocaml"):
        d = os.path.join(WORK, "ocaml")
        os.makedirs(d, exist_ok=True)
        srcs = [os.path.join(COQ, "extracted", "model.ml"), os.path.join(COQ, "extracted", "model.mli")]
        # further extracted modules (model_rn: C12), named in ocaml/ORDER
        srcs += [os.path.join(COQ, "extracted", f) for f in sorted(os.listdir(os.path.join(COQ, "extracted")))
                 if f.startswith("model_") and f.endswith((".ml", ".mli"))]
        mls = sorted(f for f in os.listdir(os.path.join(ROOT, "ocaml")) if f.endswith(".ml"))
        srcs += [os.path.join(ROOT, "ocaml", f) for f in mls]
        h = hashlib.sha256()
        for s in srcs:
            h.update(open(s, "rb").read())
        stamp = os.path.join(d, "stamp")
        if os.path.exists(stamp) and open(stamp).read() == h.hexdigest() and os.path.exists(os.path.join(d, "driver")):
            return True, ""
        for s in srcs:
            shutil.copy(s, d)
        order = [l.strip() for l in open(os.path.join(ROOT, "ocaml", "ORDER")) if l.strip()]
        for f in os.listdir(d):
            if f.endswith((".cmi", ".cmx", ".o", ".cmo")):
                os.unlink(os.path.join(d, f))
        rc, out = sh("ocamlfind ocamlopt -O3 -w -a -package zarith -linkpkg model.mli model.ml %s -o driver 2>&1"
                     % " ".join(order), cwd=d, timeout=900)
        log.append(out)
        if rc == 0:
            open(stamp, "w").write(h.hexdigest())
        return rc == 0, out


def build_harness(log, profiles=("debug", "release")):
    with Lock("cargo"):
        hd = os.path.join(ROOT, "harness")
        shutil.copy("/repo/Cargo.lock", os.path.join(hd, "Cargo.lock"))
        env = {"RUSTFLAGS": "--cfg flussab_verif -Awarnings"}
        for prof in profiles:
            flag = "--release" if prof == "release" else ""
            rc, out = sh("cargo build --offline -q %s 2>&1" % flag, cwd=hd, timeout=1800, env=env)
            log.append(out)
            if rc != 0:
                return False, out
        return True, ""


def harness_bin(profile):
    return os.path.join(WORK, "target", profile, "harness")


def _run_shard(binary, chunk, fn, timeout):
    """run one shard; a case that kills the process (abort, segfault, timeout) is reported as
    RUNNER-ABORTED and the run resumes with the next case"""
    lines = []
    start = 0
    timeouts = 0
    while start < len(chunk):
        with open(fn, "w") as f:
            f.write("\n".join(chunk[start:]) + "\n")
        try:
            p = subprocess.run(["timeout", str(timeout), binary, fn], stdout=subprocess.PIPE, stderr=subprocess.DEVNULL)
            out = p.stdout.decode("utf-8", "replace").split("\n")
            rc = p.returncode
        except Exception as e:  # pragma: no cover
            out, rc = [], -1
        if out and out[-1] == "":
            out.pop()
        want = len(chunk) - start
        if len(out) >= want:
            lines += out[:want]
            break
        lines += out
        if out and out[-1].startswith("HARNESS-TIMEOUT"):
            start += len(out)          # the watchdog reported the case itself, then left
            timeouts += 1
            if timeouts >= 3:          # a change that makes many cases hang: three reports are enough for this shard
                lines += ["HARNESS-SKIPPED after repeated timeouts"] * (len(chunk) - start)
                break
            continue
        lines.append("RUNNER-ABORTED rc=%s" % rc)
        start += len(out) + 1
    os.unlink(fn)
    return lines


def run_cases(binary, cases, tag, shards=16, timeout=1200):
    """run `binary casefile` over shards in parallel; returns output lines aligned with cases"""
    from concurrent.futures import ThreadPoolExecutor
    d = os.path.join(WORK, "cases")
    os.makedirs(d, exist_ok=True)
    n = len(cases)
    if n == 0:
        return []
    shards = max(1, min(shards, (n + 49) // 50))
    per = (n + shards - 1) // shards
    jobs = []
    for i in range(shards):
        chunk = cases[i * per:(i + 1) * per]
        if chunk:
            jobs.append((chunk, os.path.join(d, "%s.%d.%d.cases" % (tag, os.getpid(), i))))
    with ThreadPoolExecutor(max_workers=16) as ex:
        res = list(ex.map(lambda j: _run_shard(binary, j[0], j[1], timeout), jobs))
    return [l for r in res for l in r]


# ------------------------------------------------------------- main logic

def run_miri(cases, tag):
    """run the harness on `cases` under Miri; returns stats and, if Miri reports undefined behaviour, the case it
    was executing.  Infrastructure problems (no Miri, build failure, timeout) are recorded, never reported as violations."""
    if not cases:
        return {"stats": {"miri": "no cases in this tier"}}
    rc, out = sh("cargo +nightly miri --version", cwd=os.path.join(ROOT, "harness"))
    if rc != 0:
        return {"stats": {"miri": "not available: " + out.strip()[-200:]}}
    d = os.path.join(WORK, "cases")
    os.makedirs(d, exist_ok=True)
    fn = os.path.join(d, "%s.%d.miri.cases" % (tag, os.getpid()))
    open(fn, "w").write("\n".join(cases) + "\n")
    env = dict(os.environ, CARGO_NET_OFFLINE="true", CARGO_TARGET_DIR=os.path.join(WORK, "miri-target"),
               MIRIFLAGS="-Zmiri-disable-isolation -Zmiri-ignore-leaks", HARNESS_CASE_TIMEOUT="900", RUSTFLAGS="--cfg flussab_verif -Awarnings")
    try:
        p = subprocess.run(["timeout", "2400", "cargo", "+nightly", "miri", "run", "--offline", "--", fn],
                           cwd=os.path.join(ROOT, "harness"), env=env, stdout=subprocess.PIPE, stderr=subprocess.PIPE)
    except Exception as e:  # pragma: no cover
        return {"stats": {"miri": "could not run: %s" % e}}
    os.unlink(fn)
    lines = [l for l in p.stdout.decode("utf-8", "replace").split("\n") if l]
    err = p.stderr.decode("utf-8", "replace")
    m = re.search(r"error: Undefined Behavior: [^\n]*", err)
    if m:
        case = cases[len(lines)] if len(lines) < len(cases) else cases[-1]
        return {"stats": {"miri": "undefined behaviour", "completed": len(lines)}, "ub": m.group(0)[:300], "case": case}
    if p.returncode != 0 or len(lines) < len(cases):
        return {"stats": {"miri": "infrastructure problem (rc=%s, %d of %d cases completed): %s"
                                   % (p.returncode, len(lines), len(cases), err.strip()[-300:])}}
    return {"stats": {"miri": "no undefined behaviour reported", "completed": len(lines)}}


def load_known():
    p = os.path.join(ROOT, "known_findings.json")
    if not os.path.exists(p):
        return []
    return json.load(open(p)).get("findings", [])


def write_replay(prop, kind, what, cases, extra=None):
    os.makedirs(REPLAYS, exist_ok=True)
    name = "%s-%s-%d.txt" % (prop, kind, int(time.time() * 1000) % 10 ** 10)
    path = os.path.join(REPLAYS, name)
    with open(path, "w") as f:
        f.write("# property=%s kind=%s\n# %s\n" % (prop, kind, what.replace("\n", "\n# ")))
        if extra:
            for k, v in extra.items():
                f.write("# %s: %s\n" % (k, str(v).replace("\n", "\n#   ")))
        for c in cases:
            f.write(c + "\n")
    return path


def main():
    ap = argparse.ArgumentParser()
    ap.add_argument("prop")
    ap.add_argument("--tier", default=os.environ.get("VERIF_TIER", "quick"))
    ap.add_argument("--replay")
    ap.add_argument("--seed", type=int, default=int(os.environ.get("VERIF_SEED", "20260930")))
    args = ap.parse_args()
    prop = args.prop
    cfg = PROPS.PROPS[prop]
    t0 = time.time()
    log = []

    if args.replay:
        return replay(prop, cfg, args.replay)

    violations = []   # (what, replay_path, found_input)
    known_hits = []
    broken = []       # names of theorems / streams that no longer check

    # 1-2. proofs
    ok, obligations, discharged, assumptions, failing, out = build_coq(prop, log, args.tier)
    if not ok:
        broken += failing
    model_ok = ok or os.path.exists(os.path.join(COQ, "extracted", "model.ml"))

    # 3. executables
    drv_ok = False
    if model_ok:
        drv_ok, out = build_driver(log)
        if not drv_ok:
            broken.append("extracted driver does not build: " + out[-400:])
    h_ok, out = build_harness(log)
    if not h_ok:
        print("harness does not build against /repo:\n" + out[-3000:])
        path = write_replay(prop, "build", "harness build failed against /repo", [], {"output": out[-3000:]})
        print("VIOLATION property=%s replay=%s no-failing-input-found" % (prop, path))
        write_evidence(prop, cfg, args, t0, obligations, 0, assumptions, {}, [], 1, broken + ["harness build"])
        return 1

    rng = random.Random(args.seed)
    stats = {}
    samples = []
    total_eval = 0
    distinct = set()
    known = [k for k in load_known() if k.get("kind") == "finding"
             and (k.get("property") == prop or prop in k.get("also_suppressed_in", []))]

    for st in cfg["streams"]:
        mod = importlib.import_module("streams." + st["module"])
        n = st["thorough"] if args.tier == "thorough" else st["quick"]
        srng = random.Random(rng.getrandbits(64))
        cases = corpus_cases(st["name"]) + mod.gen(srng, n, args.tier, **st.get("args", {}))
        if st.get("kind") == "miri":     # Miri is slow: a sample of exactly n cases
            cases = srng.sample(cases, min(n, len(cases)))
        total_eval += len(cases)
        dist = {}
        for c in cases:
            cat = mod.category(c)
            dist[cat] = dist.get(cat, 0) + 1
            if mod.nontrivial(c):
                distinct.add(hashlib.md5(c.encode()).digest())
        stats[st["name"]] = {"cases": len(cases), "distribution": dist, "exhaustive": bool(st.get("exhaustive"))}
        samples += cases[:2] + cases[-1:]
        kind = st.get("kind", "corr")
        if kind == "miri":
            # supporting dynamic check (not a proof, not part of the correspondence): the same cases run on the real
            # code under Miri, which reports real undefined behaviour (out-of-bounds access, use of uninitialised memory)
            res = run_miri(cases, st["name"])
            stats[st["name"]].update(res["stats"])
            if res.get("ub"):
                what = "miri %s: %s" % (st["name"], res["ub"])
                violations.append((what, write_replay(prop, "input", what, [res["case"]], {"miri": res["ub"]}), True))
            continue
        outs = {}
        profiles = st.get("profiles", ["debug"])
        for prof in profiles:
            outs[prof] = run_cases(harness_bin(prof), cases, st["name"] + "." + prof)
        if kind == "corr":
            if not drv_ok:
                continue
            mouts = run_cases(os.path.join(WORK, "ocaml", "driver"), cases, st["name"] + ".model")
            nd = 0
            for prof in profiles:
                bad = [(c, i, m) for c, i, m in zip(cases, outs[prof], mouts) if i != m and not i.startswith("HARNESS-SKIPPED")]
                nd += len(bad)
                if bad:
                    bad.sort(key=lambda x: len(x[0]))
                    # a disagreement: model and implementation differ; is it a property failure?
                    c, i, m = bad[0]
                    name = "correspondence:%s[%s]" % (st["name"], prof)
                    broken.append(name)
                    stats[st["name"]]["first_disagreement"] = {"case": c, "impl": i, "model": m}
                    # known finding?
                    kh = match_known(known, c, i)
                    judge = getattr(mod, "judge", None)
                    verdict = judge(c, i, m) if judge else None
                    vcase = c
                    if not verdict and st.get("oracle_prefix"):
                        # search: hand the disagreeing cases to the implementation-only property oracle
                        prefixes = st["oracle_prefix"] if isinstance(st["oracle_prefix"], list) else [st["oracle_prefix"]]
                        for pre in prefixes:
                            ocs = [pre + x[0][x[0].index(" "):] for x in bad[:200]]
                            oouts = run_cases(harness_bin(prof), ocs, st["name"] + ".search")
                            for oc, oo in zip(ocs, oouts):
                                if not oo.startswith("PASS") and not oo.startswith("HARNESS-ERROR") and not match_known(known, oc, oo):
                                    verdict, vcase = "oracle on disagreeing case: " + oo, oc
                                    break
                            if verdict:
                                break
                    if kh and all(match_known(known, c2, i2) for c2, i2, _ in bad):
                        known_hits.append(kh)
                        broken.pop()
                    elif verdict:  # the implementation's trace itself violates the property
                        violations.append((verdict, write_replay(prop, "input", verdict, [vcase], {"impl": i, "model": m}), True))
                    else:
                        violations.append((name, write_replay(prop, "corr", name + " no longer checks", [x[0] for x in bad[:5]],
                                                               {"impl": i, "model": m}), False))
            stats[st["name"]]["disagreements"] = nd
        else:  # oracle stream: implementation-only property check, PASS / FAIL lines
            nf = 0
            for prof in profiles:
                bad = [(c, o) for c, o in zip(cases, outs[prof]) if not o.startswith("PASS") and not o.startswith("HARNESS-SKIPPED")]
                unknown_bad = []
                for c, o in bad:
                    kh = match_known(known, c, o)
                    if kh:
                        if kh not in known_hits:
                            known_hits.append(kh)
                    else:
                        unknown_bad.append((c, o))
                nf += len(unknown_bad)
                if unknown_bad:
                    unknown_bad.sort(key=lambda x: len(x[0]))
                    c, o = unknown_bad[0]
                    what = "oracle %s[%s]: %s" % (st["name"], prof, o)
                    violations.append((what, write_replay(prop, "input", what, [c], {"impl": o}), True))
            stats[st["name"]]["failures"] = nf

    # proof broke but nothing above produced a concrete input: report it
    if not ok and not any(v[2] for v in violations):
        what = "proof obligation no longer checks: " + "; ".join(failing)
        violations.append((what, write_replay(prop, "proof", what, [], {"coq_output": (log[-1] if log else "")[-3000:]}), False))

    for kh in known_hits:
        print("KNOWN-FINDING: property=%s %s" % (prop, kh["what"]))
    rc = 0
    seen = set()
    for what, path, found in violations:
        if path in seen:
            continue
        seen.add(path)
        rc = 1
        print("VIOLATION property=%s replay=%s%s" % (prop, path, "" if found else " no-failing-input-found"))
        print("  " + what.split("\n")[0][:300])
    write_evidence(prop, cfg, args, t0, obligations, discharged, assumptions, stats, samples, len(seen), broken,
                   total_eval, len(distinct), [k["what"] for k in known_hits])
    if rc == 0:
        print("OK property=%s tier=%s obligations=%d discharged=%d cases=%d wall=%.1fs"
              % (prop, args.tier, obligations, discharged, total_eval, time.time() - t0))
    return rc


def match_known(known, case, out):
    for k in known:
        pat = k.get("case_regex")
        opat = k.get("output_regex")
        if pat and not re.search(pat, case):
            continue
        if opat and not re.search(opat, out):
            continue
        if pat or opat:
            return k
    return None


def corpus_cases(stream):
    p = os.path.join(ROOT, "corpus", stream + ".cases")
    if not os.path.exists(p):
        return []
    return [l.rstrip("\n") for l in open(p) if l.strip() and not l.startswith("#")]


def write_evidence(prop, cfg, args, t0, obligations, discharged, assumptions, stats, samples, nviol, broken,
                   total_eval=0, distinct=0, known=()):
    os.makedirs(os.path.join(ROOT, "evidence"), exist_ok=True)
    ev = {
        "property_id": prop,
        "tier": args.tier if args.tier in ("quick", "thorough") else "quick",
        "seed": args.seed,
        "level": "proof",
        "coverage": {
            "obligations": obligations,
            "discharged": discharged,
            "checker_cmd": "cd /verif/coq && make -j16 Props/%s.vo && coqc -Q . Flussab Props/%s.v  (Print Assumptions parsed; "
                           "forbidden-command grep over coq/**/*.v); thorough tier additionally: coqchk -o -silent -Q . Flussab Flussab.Props.%s" % (prop, prop, prop),
            "trusted_base": PROPS.TRUSTED_BASE + cfg.get("trusted_extra", []),
            "theorems": cfg.get("theorems_note", ""),
            "evaluations": total_eval,
            "distinct_nontrivial": distinct,
            "rule": cfg.get("rule", ""),
            "samples": samples[:12],
            "streams": stats,
            "exhaustive": bool(stats) and all(s.get("exhaustive") for s in stats.values()),
            "broken_obligations_or_streams": broken,
            "known_findings_seen": list(known),
            "extraction_directives": ["Require Extraction", "Require Import ExtrOcamlBasic",
                                      "(no Extract Constant / Extract Inductive of our own)"],
        },
        "assumptions": ["Print Assumptions: Closed under the global context for every theorem"] * (not [a for a in assumptions if not a.startswith("coqchk")])
                       + assumptions + cfg.get("assumes", []),
        "wall_s": round(time.time() - t0, 2),
        "violations": nviol,
    }
    with open(os.path.join(ROOT, "evidence", prop + ".json"), "w") as f:
        json.dump(ev, f, indent=1)


def replay(prop, cfg, path):
    log = []
    build_coq(prop, log)
    build_driver(log)
    build_harness(log)
    cases = [l.rstrip("\n") for l in open(path) if l.strip() and not l.startswith("#")]
    for c in cases:
        print("case : " + c)
        for prof in ("debug", "release"):
            print("impl[%s]: %s" % (prof, run_cases(harness_bin(prof), [c], "replay")[0]))
        if not c.startswith("o_"):
            print("model: " + run_cases(os.path.join(WORK, "ocaml", "driver"), [c], "replay")[0])
    return 0


if __name__ == "__main__":
    sys.exit(main())
