"""Regenerates corpus/pa.cases (handcrafted AIGER edge cases for the pa correspondence stream):
   python3 tools/mk_pa_corpus.py > corpus/pa.cases"""
import sys
import os
sys.path.insert(0, os.path.dirname(os.path.abspath(__file__)))
from streams import docs
out = []
SCHEDS = [("-", 0, 16384, "r"), None, None]
def sched(i, n):
    k = i % 5
    if k == 0: return ("-", 0, 16384, "r")
    if k == 1: return (",".join(["d1"] * (n + 1)), 0, 1, "r")
    if k == 2: return (",".join(["d3", "i", "d2"] * (n // 5 + 1)), 0, 3, "b")
    if k == 3: return ("-", min(5, n), 7, "f")
    return (",".join(["d7", "d9"] * (n // 16 + 1)), 0, 8, "r")
cnt = [0]
def add(parser, ty, data, flags="-", sch=None):
    cnt[0] += 1
    if isinstance(data, str): data = data.encode()
    out.append("pa " + docs.setup(parser, ty, flags, data, sch or sched(cnt[0], len(data))))
U = 2 ** 64 - 1
SEQS = [b"\xc2\x80", b"\xdf\xbf", b"\xc1\x80", b"\xc0\xaf", b"\xe0\xa0\x80", b"\xe0\x9f\x80", b"\xe0\x80\x80", b"\xed\x9f\xbf", b"\xed\xa0\x80",
        b"\xee\x80\x80", b"\xef\xbf\xbf", b"\xf0\x90\x80\x80", b"\xf0\x8f\x80\x80", b"\xf4\x8f\xbf\xbf", b"\xf4\x90\x80\x80", b"\xf5\x80\x80\x80",
        b"\xf1\x80\x80\x80", b"\xf3\xbf\xbf\xbf", b"\x80", b"\xbf", b"\xff", b"\xfe", b"\xc2", b"\xe2\x82", b"\xf0\x9f\x98", b"\xf0\x9f", b"\xf0",
        b"\xc2\x41", b"\xe2\x41\x80", b"\xe2\x82\x41", b"\xf0\x9f\x41\x80", b"\xf0\x9f\x98\x41", b"\xe1\x80\x80", b"\xec\xbf\xbf", b"\x7f", b"\x00"]
for s in SEQS:
    add("aag", "u32", b"aag 1 1 0 0 0\n2\ni0 ab" + s + b"cd\n")
    add("aag", "u8", b"aag 0 0 0 0 0\nc\nline one\nline two\nxy" + s + b"z\nmore\n")
    add("aig", "u16", b"aig 1 0 1 0 0\n2\nl0 " + s + b"\nc\n" + s + b"\n", flags="w" if len(s) % 2 else "-")
    add("aag", "u64", b"aag 0 0 0 0 0\nc\n" + s)
# varints
def vi(n): return docs.varint(n)
for gates in (b"\x00\x00", b"\x02\x00", b"\x03\x00", b"\x01\x02", b"\x00", b"", b"\x80", b"\x80\x00", b"\x80" * 7 + b"\x00\x00", b"\x80" * 8 + b"\x00", b"\xff" * 7 + b"\x7f\x00",
              b"\xff" * 8, b"\x81\x80\x80\x80\x80\x80\x80\x00\x00", vi(2) + vi(0), vi(2 ** 56 - 1) + vi(0), b"\x82\x00\x00", b"\x02\x80\x00", b"\x0a\x0a", b"\x01\x0a", b"\x02\x0a"):
    add("aig", "u8", b"aig 1 0 0 0 1\n" + gates)
    add("aig", "usize", b"aig 3 1 1 0 1\n6\n" + gates + b"i0 x\nl0 y\nc\nfin\n")
    add("aig", "u32", b"aig 5 2 0 1 3 1\n10\n3\n" + b"\x01\x01\x02\x01" + gates + b"b0 bad\nz")
# headers
for ty, mx in docs.AIGER_TYPES.items():
    m = (mx - 1) // 2
    for M in (m, m + 1, m - 1):
        add("aag", ty, "aag %d 0 0 0 0\n" % M)
        add("aig", ty, "aig %d 0 0 1 0\n%d\n" % (M, 2 * M + 1))
        add("aig", ty, "aig %d 0 0 1 0\n%d\n" % (M, 2 * M + 2))
        add("aig", ty, "aig %d %d 0 0 0\n" % (M, M))
        add("aag", ty, "aag %d %d 0 0 0\n2\n" % (M, M))
        add("aig", ty, "aig %d %d 1 0 0\n0\n" % (M, M))
        add("aig", ty, "aig %d %d 0 0 1\n\x00\x00" % (M, M))
        # (for M = 2^63 - 1 = I + L + A the running code wraps behind the last definition: fixed defect D13)
        add("aig", ty, "aig %d %d 1 0 0\n0 %d\n" % (M, M - 1, 2 * M))
        add("aig", ty, "aig %d %d 0 0 1\n" % (M, M - 1) + "\x00\x00")
        add("aig", ty, "aig %d %d 1 0 0\n0\n" % (M, M - 1), flags="w")
        add("aig", ty, "aig %d %d 1 0 1\n0 1\n\x01\x01" % (M, M - 2))
for f in ("aag 0 0 0 %d 0\n" % U, "aag 0 0 0 %d 0\n" % (U + 1), "aag 0 0 0 0 0 %d\n" % U, "aag 0 0 0 0 0 0 %d\n" % U, "aag 0 0 0 0 0 0 0 %d\n" % U,
          "aag 0 0 0 0 0 0 0 2\n%d\n1\n" % U, "aag 0 0 0 0 0 0 0 2\n%d\n0\n" % U, "aag 0 0 0 0 0 0 0 2\n%d\n1\n" % (U - 1), "aag 0 0 0 0 0 0 0 0 %d\n" % U,
          "aag 0 0 0 0 0 0 0 0 0\n", "aag 0 0 0 0 0 0 0 0 0 0\n", "aag 0 0 0 0 0 0 0 0 \n", "aag 0 0 0 0 0 \n", "aag 0 0 0 0\n", "aag 0 0 0 0 0", "aag 0 0 0 0 0 0", "aag",
          "aag\n", "aag ", "aag  0 0 0 0 0\n", "aag 00 0 0 0 0\n", "aag 01 0 0 0 0\n", "aag 1 01 0 0 0\n", "aag -0 0 0 0 0\n", "aag +1 0 0 0 0\n", "aig 0 0 0 0 0\n", "aa", "",
          "aag 0 0 0 0 0\r\n", "aag 0 0 0 0 0 0\r\n", "aag 1 2 0 0 0\n", "aag 2 1 2 0 0\n", "aag 2 1 1 0 1\n", "aag 3 1 1 0 1\n2\n4 0\n6 2 4\n", "aag 000000000 0 0 0 0\n",
          "aag 12345678 0 0 0 0\n", "aag 123456789 0 0 0 0\n", "aag 1234567890123456789 0 0 0 0\n", "aag 99999999999999999999 0 0 0 0\n", "aag 0 0 0 0 0\tx\n", "aagx 0 0 0 0 0\n"):
    add("aag", "usize", f)
    add("aig", "u64", f.replace("aag", "aig", 1) if f.startswith("aag") else f)
# latches, literals
for body in ("2 3\n", "2 3 0\n", "2 3 1\n", "2 3 2\n", "2 3 3\n", "2 3 4\n", "2 3 02\n", "2 3  1\n", "2 3 1 \n", "2  3\n", "3 2\n", "0 2\n", "2 4\n", "2 3", "2 3 ", "2 3 2", "2\n", "2 \n", "02 3\n", "2 3\r\n", "4 0\n"):
    add("aag", "u8", "aag 1 0 1 0 0\n" + body + "l0 name\nc\n\n")
    add("aig", "u8", "aig 1 0 1 0 0\n" + body[2:] + "l0 name\nc\n\n")
    add("aig", "u16", "aig 2 1 1 0 0\n" + body[2:].replace("2", "4") + "i0 a\n")
for body in ("2\n", "0\n", "1\n", "3\n", "4\n", "2 \n", "2", "", "\n", "x\n", "2x\n", " 2\n", "22222222\n", "222222222\n", "18446744073709551616\n"):
    add("aag", "u32", "aag 1 1 0 0 0\n" + body)
    add("aag", "u32", "aag 1 0 0 1 0\n" + body, flags="w")
    add("aag", "usize", "aag 1 0 0 0 0 1 1 1 1\n" + body + body + "1\n" + body + body)
# and gates ascii
for body in ("2 0 1\n", "2 1 0\n", "2 2 2\n", "2 3 3\n", "2 4 0\n", "3 0 0\n", "0 0 0\n", "2 0\n", "2 0 0 0\n", "2  0 0\n", "2 0 0", "2 0 "):
    add("aag", "u16", "aag 1 0 0 0 1\n" + body)
# symbols
hdr = "aag 7 1 1 1 0 1 1 1 1\n2\n4 0\n0\n0\n0\n1\n0\n0\n"
hdrb = "aig 7 1 1 1 0 1 1 1 1\n0\n0\n0\n0\n1\n0\n0\n"
for sy in ("i0 a\n", "i1 a\n", "o0 a\n", "o1 a\n", "l0 a\n", "l1 a\n", "b0 a\n", "b1 a\n", "c0 a\n", "c1 a\n", "j0 a\n", "j1 a\n", "f0 a\n", "f1 a\n", "i0\n", "i0 \n", "i0  a\n", "i0 a", "i0 a\nc\n", "c\n", "c",
           "c \n", "c\nx", "c\n\n", "c\nx\n", "c\nx\ny", "c\n\n\n", "c0\n", "c00 a\n", "i00 a\n", "i a\n", "i-0 a\n", "i18446744073709551615 a\n", "i18446744073709551616 a\n", "k0 a\n", "I0 a\n", "i0 a\r\n",
           "i0 a\ni0 b\no0 c\nl0 d\nb0 e\nc0 f\nj0 g\nf0 h\nc\nend\n", "f0 h\ni0 a\n", "\n", " ", "c\n" + "l\n" * 30 + "\xff\n", "c\n" + "l\n" * 30 + "x"):
    add("aag", "u32", hdr + sy)
    add("aig", "u32", hdrb + sy, flags="w" if len(sy) % 3 == 0 else "-")
    add("aag", "u8", "aag 0 0 0 0 0\n" + sy)
    add("aig", "u8", "aig 0 0 0 0 0 0 1\n0\n" + sy)
# I/O errors and early ends at every offset of two documents
for parser, doc in (("aag", b"aag 3 1 1 1 1 1\n2\n4 6 1\n6\n5\n6 2 4\ni0 in\nl0 la\nc\ncomment\n"), ("aig", b"aig 3 1 1 1 1 1\n6 1\n6\n5\n\x02\x02i0 in\nl0 la\nc\ncomment\n")):
    for k in range(len(doc) + 1):
        ev = rng_ev = ("d%d," % k if k else "") + ("f%d" % (k % 9 + 1) if k % 3 else "e")
        add(parser, "u8", doc, flags="w" if k % 4 == 0 else "-", sch=(ev, 0, [1, 2, 3, 7, 8, 9, 64, 16384][k % 8], "rb"[k % 2]))
out.append("pa aig u64 - 616967203932323333373230333638353437373538303720393232333337323033363835343737353830362031203020300a300a - 0 16384 r")
out.append("pa aig usize - 616967203932323333373230333638353437373538303720393232333337323033363835343737353830362030203020310a0000 - 0 16384 r")
print("# handcrafted AIGER edge cases for the model correspondence (UTF-8 boundaries, varint limits, header limits per literal type,")
print("# latch / literal / and-gate / symbol / comment variants, I/O error or early end at every offset)")
print("\n".join(out))
