(* LookW.v — C09 at parser level for the BTOR2 and AIGER parsers: the common part.
   The look-ahead bound concerns [vreq] only, a field of the view that no operation reads.  It is therefore proved
   in a partial-correctness logic [wrt] over the admissible runs (what holds of every run that finishes normally);
   that every admissible run does finish normally, and the invariants of the parsers, are Btor2Safe.v / AigerSafe.v.
   [wrt] threads the few facts about a view the bounds need ([Wv]: what is claimed buffered exists, the cursor is
   within it, the stream consists of bytes and is shorter than the loop fuel), which every run preserves.
   [Pk v vi m]: vi is v after looking at (not consuming) offsets up to m, those before m holding no LF.
   [LkP m]: every finished run of m satisfies Lk (what it newly asked for lies in the line of its final cursor). *)
From Flussab Require Import Base Reader ListN Writer Parsed Prog Text TextSpec ProgProofs ScanProofs DigitsProofs.
From Flussab Require Import ReaderProofs Simulation Consts Cnf CnfProofs ErrProofs Hoare CnfSafe Look LookProofs.
Ltac Zify.zify_post_hook ::= Z.to_euclidean_division_equations.
Local Open Scope N_scope.

(* ================================================================== *)
(* 1. what every run preserves                                          *)

Section W.
Variable fuel : nat.

Definition Wv (v : view) : Prop :=
  WFV v /\ BytesOK v /\ (length (vS v) < fuel)%nat /\ vcur v <= vhwm v.

Lemma VOK_Wv v : VOK fuel v -> Wv v.
Proof.
  intros (Hw & (Hb & Hf & _) & Hc & _). split; [exact Hw|]. split; [exact Hb|]. split; [exact Hf|exact Hc].
Qed.

Lemma Wv_cur_le v : Wv v -> vcur v <= nlen (vS v).
Proof. intros (Hw & _ & _ & Hc). unfold WFV in Hw. lia. Qed.

Lemma aruns_Wv {A} (p : prog A) v r : aruns p v r -> Wv v -> forall a v', r = ADone a v' -> Wv v'.
Proof.
  induction 1; intros HW a0 v0 E; try discriminate.
  - inversion E; subst. exact HW.
  - apply (IHaruns) with (a := a0); [|exact E].
    destruct HW as (h1 & h2 & h3 & h4). split; [apply WFV_after_peek; exact h1|]. split; [exact h2|]. split; [exact h3|].
    cbn [after_peek vcur vhwm]. unfold WFV in h1. destruct (vpeek v k); lia.
  - apply (IHaruns) with (a := a0); [|exact E].
    destruct HW as (h1 & h2 & h3 & h4). split; [exact h1|]. split; [exact h2|]. split; [exact h3|].
    cbn [v_advance vcur vhwm]. exact H.
  - apply (IHaruns) with (a := a0); [|exact E].
    destruct HW as (h1 & h2 & h3 & h4). split; [apply WFV_loaded; assumption|]. split; [exact h2|]. split; [exact h3|].
    cbn [v_loaded vcur vhwm]. destruct o; lia.
  - exact (IHaruns HW a0 v0 E).
  - exact (IHaruns HW a0 v0 E).
  - exact (IHaruns HW a0 v0 E).
  - exact (IHaruns HW a0 v0 E).
  - exact (IHaruns HW a0 v0 E).
  - exact (IHaruns HW a0 v0 E).
Qed.

Lemma aruns_frame {A} (p : prog A) v a v' : aruns p v (ADone a v') -> Wv v -> frame v v'.
Proof.
  intros Hr (Hw & _). destruct (aruns_wf _ _ _ Hr Hw _ _ eq_refl) as [_ HS].
  destruct (aruns_mono _ _ _ Hr Hw _ _ eq_refl) as (_ & Hf & Hc).
  unfold frame. split; [exact HS|]. split; [exact Hf|exact Hc].
Qed.

(* ================================================================== *)
(* 2. partial correctness over the admissible runs                      *)

Definition wrt {A} (m : PM A) (lr : lrs) (v : view) (Q : A -> lrs -> view -> Prop) : Prop :=
  Wv v -> forall a lr' v', aruns (m lr) v (ADone (a, lr') v') -> Q a lr' v'.

Lemma wrt_conseq {A} (m : PM A) lr v (Q Q' : A -> lrs -> view -> Prop) :
  wrt m lr v Q -> (forall a lr' v', Q a lr' v' -> Q' a lr' v') -> wrt m lr v Q'.
Proof. intros H HQ HW a lr' v' Hr. apply HQ. exact (H HW a lr' v' Hr). Qed.

Lemma wrt_and {A} (m : PM A) lr v (Q1 Q2 : A -> lrs -> view -> Prop) :
  wrt m lr v Q1 -> wrt m lr v Q2 -> wrt m lr v (fun a lr' v' => Q1 a lr' v' /\ Q2 a lr' v').
Proof. intros H1 H2 HW a lr' v' Hr. split; [exact (H1 HW a lr' v' Hr)|exact (H2 HW a lr' v' Hr)]. Qed.

(* the precondition may be used *)
Lemma wrt_W {A} (m : PM A) lr v (Q : A -> lrs -> view -> Prop) : (Wv v -> wrt m lr v Q) -> wrt m lr v Q.
Proof. intros H HW. exact (H HW HW). Qed.

(* ... and holds again at the end *)
Lemma wrt_Wpost {A} (m : PM A) lr v (Q : A -> lrs -> view -> Prop) :
  wrt m lr v Q -> wrt m lr v (fun a lr' v' => Wv v' /\ frame v v' /\ Q a lr' v').
Proof.
  intros H HW a lr' v' Hr. split; [exact (aruns_Wv _ _ _ Hr HW _ _ eq_refl)|].
  split; [exact (aruns_frame _ _ _ _ Hr HW)|exact (H HW a lr' v' Hr)].
Qed.

Lemma wrt_pret {A} (a : A) lr v (Q : A -> lrs -> view -> Prop) : Q a lr v -> wrt (pret a) lr v Q.
Proof. intros H _ a' lr' v' Hr. unfold pret in Hr. apply aruns_ret_inv in Hr. inversion Hr; subst. exact H. Qed.

Lemma wrt_pbnd {A B} (m : PM A) (f : A -> PM B) lr v (Q : B -> lrs -> view -> Prop) :
  wrt m lr v (fun a lr1 v1 => wrt (f a) lr1 v1 Q) -> wrt (pbnd m f) lr v Q.
Proof.
  intros H HW b lr2 v2 Hr. unfold pbnd in Hr.
  destruct (aruns_bind_inv _ _ _ _ Hr) as [([a lr1] & v1 & H1 & H2)|(r0 & _ & Hab)].
  - exact (H HW a lr1 v1 H1 (aruns_Wv _ _ _ H1 HW _ _ eq_refl) b lr2 v2 H2).
  - destruct r0; cbn in Hab; contradiction.
Qed.

Lemma wrt_of_prt {A} (m : PM A) lr v (Q : A -> lrs -> view -> Prop) : prt m lr v Q -> wrt m lr v Q.
Proof.
  intros H _ a lr' v' Hr. destruct (H _ Hr) as (x & w & E & HQ). inversion E; subst. exact HQ.
Qed.

(* safety and an invariant from a total triple, the look-ahead bound from a partial one *)
Lemma prt_wrt {A} (m : PM A) lr v (Q1 Q2 : A -> lrs -> view -> Prop) :
  Wv v -> prt m lr v Q1 -> wrt m lr v Q2 -> prt m lr v (fun a lr' v' => Q1 a lr' v' /\ Q2 a lr' v').
Proof.
  intros HW H1 H2 r Hr. destruct (H1 r Hr) as ([a lr'] & v' & -> & q1). exists (a, lr'), v'.
  split; [reflexivity|]. split; [exact q1|exact (H2 HW a lr' v' Hr)].
Qed.

(* programs on the reader alone *)
Definition wt {A} (p : prog A) (v : view) (Q : A -> view -> Prop) : Prop :=
  Wv v -> forall a v', aruns p v (ADone a v') -> Q a v'.

Lemma wrt_lift {A} (p : prog A) lr v (Q : A -> lrs -> view -> Prop) :
  wt p v (fun a v' => Q a lr v') -> wrt (lift p) lr v Q.
Proof.
  intros H HW a lr' v' Hr. unfold lift in Hr.
  destruct (aruns_bind_inv _ _ _ _ Hr) as [(a1 & v1 & H1 & H2)|(r0 & _ & Hab)].
  - apply aruns_ret_inv in H2. inversion H2; subst. exact (H HW _ _ H1).
  - destruct r0; cbn in Hab; contradiction.
Qed.


Lemma Wv_after_peek v k : Wv v -> Wv (after_peek v k).
Proof.
  intros (h1 & h2 & h3 & h4). split; [apply WFV_after_peek; exact h1|]. split; [exact h2|]. split; [exact h3|].
  cbn [after_peek vcur vhwm]. unfold WFV in h1. destruct (vpeek v k); lia.
Qed.

Lemma wt_ret {A} (a : A) v (Q : A -> view -> Prop) : Q a v -> wt (Ret a) v Q.
Proof. intros H _ a' v' Hr. apply aruns_ret_inv in Hr. inversion Hr; subst. exact H. Qed.

Lemma wt_peek {A} k (c : option byte -> prog A) v (Q : A -> view -> Prop) :
  wt (c (vpeek v k)) (after_peek v k) Q -> wt (Peek k c) v Q.
Proof. intros H HW a v' Hr. inversion Hr; subst. apply (H (Wv_after_peek v k HW) a v'). assumption. Qed.

Lemma wt_conseq {A} (p : prog A) v (Q Q' : A -> view -> Prop) : wt p v Q -> (forall a v', Q a v' -> Q' a v') -> wt p v Q'.
Proof. intros H HQ HW a v' Hr. apply HQ. exact (H HW a v' Hr). Qed.

Lemma wt_W {A} (p : prog A) v (Q : A -> view -> Prop) : (Wv v -> wt p v Q) -> wt p v Q.
Proof. intros H HW. exact (H HW HW). Qed.

Lemma wrt_true {A} (m : PM A) lr v : wrt m lr v (fun _ _ _ => True).
Proof. intros _ a lr' v' _. exact I. Qed.

(* programs without a fast-path test: the one run is the simple run *)
Lemma wt_det {A} (p : prog A) v a0 v0 (Q : A -> view -> Prop) :
  det p -> srun p v = ADone a0 v0 -> Q a0 v0 -> wt p v Q.
Proof.
  intros Hd Hs HQ _ a v' Hr. pose proof (det_aruns _ _ _ Hr Hd) as E. rewrite Hs in E. inversion E; subst. exact HQ.
Qed.

Lemma wrt_ppeek k lr v (Q : option byte -> lrs -> view -> Prop) :
  Q (vpeek v k) lr (after_peek v k) -> wrt (ppeek k) lr v Q.
Proof. intros H. apply wrt_lift. eapply wt_det; [cbn [det]; intros; exact I|cbn [srun]; reflexivity|exact H]. Qed.

Lemma wrt_padvance n lr v (Q : unit -> lrs -> view -> Prop) :
  Q tt lr (v_advance v n) -> wrt (padvance n) lr v Q.
Proof.
  intros H. apply wrt_lift. intros _ a v' Hr.
  pose proof (det_aruns _ _ _ Hr ltac:(cbn [det]; exact I)) as E. cbn [srun] in E.
  destruct (vcur v + n <=? vhwm v); [|discriminate]. inversion E; subst. exact H.
Qed.

Lemma wrt_pset_mark lr v (Q : unit -> lrs -> view -> Prop) : Q tt lr (v_setmark v) -> wrt pset_mark lr v Q.
Proof. intros H. apply wrt_lift. eapply wt_det; [cbn [det]; exact I|cbn [srun]; reflexivity|exact H]. Qed.

Lemma wrt_get_lrs lr v (Q : lrs -> lrs -> view -> Prop) : Q lr lr v -> wrt get_lrs lr v Q.
Proof. intros H _ a lr' v' Hr. unfold get_lrs in Hr. apply aruns_ret_inv in Hr. inversion Hr; subst. exact H. Qed.

Lemma wrt_set_lrs s lr v (Q : unit -> lrs -> view -> Prop) : Q tt s v -> wrt (set_lrs s) lr v Q.
Proof. intros H _ a lr' v' Hr. unfold set_lrs in Hr. apply aruns_ret_inv in Hr. inversion Hr; subst. exact H. Qed.

Lemma wrt_getpos lr v (Q : N -> lrs -> view -> Prop) : Q (vcur v mod W64) lr v -> wrt (lift (GetPos Ret)) lr v Q.
Proof. intros H. apply wrt_lift. eapply wt_det; [cbn [det]; intros; exact I|cbn [srun]; reflexivity|exact H]. Qed.

Lemma wrt_getmark lr v (Q : N -> lrs -> view -> Prop) : Q (vmark v mod W64) lr v -> wrt (lift (GetMark Ret)) lr v Q.
Proof. intros H. apply wrt_lift. eapply wt_det; [cbn [det]; intros; exact I|cbn [srun]; reflexivity|exact H]. Qed.

Lemma wrt_isatend lr v (Q : bool -> lrs -> view -> Prop) : Q (s_atend v) lr v -> wrt (lift (IsAtEnd Ret)) lr v Q.
Proof. intros H. apply wrt_lift. eapply wt_det; [cbn [det]; intros; exact I|cbn [srun]; reflexivity|exact H]. Qed.

Lemma wrt_errparked lr v (Q : bool -> lrs -> view -> Prop) : Q (s_parked v) lr v -> wrt (lift (ErrParked Ret)) lr v Q.
Proof. intros H. apply wrt_lift. eapply wt_det; [cbn [det]; intros; exact I|cbn [srun]; reflexivity|exact H]. Qed.

Lemma wrt_takeerr lr v (Q : option N -> lrs -> view -> Prop) :
  Q (s_take v) lr (v_take v (s_take v)) -> wrt (lift (TakeErr Ret)) lr v Q.
Proof. intros H. apply wrt_lift. eapply wt_det; [cbn [det]; intros; exact I|cbn [srun]; reflexivity|exact H]. Qed.

Lemma wrt_pcrash {A} k lr v (Q : A -> lrs -> view -> Prop) : wrt (pcrash k) lr v Q.
Proof. intros _ a lr' v' Hr. unfold pcrash in Hr. inversion Hr. Qed.

Lemma wrt_pnofuel {A} lr v (Q : A -> lrs -> view -> Prop) : wrt pnofuel lr v Q.
Proof. intros _ a lr' v' Hr. unfold pnofuel in Hr. inversion Hr. Qed.

Lemma wrt_line_at_offset off lr v (Q : unit -> lrs -> view -> Prop) :
  (forall lr1, Q tt lr1 v) -> wrt (line_at_offset off) lr v Q.
Proof.
  intros H. unfold line_at_offset. apply wrt_pbnd, wrt_getpos. apply wrt_pbnd, wrt_get_lrs. apply wrt_set_lrs. apply H.
Qed.

(* ================================================================== *)
(* 3. looking without consuming                                         *)

Definition Pk (v vi : view) (m : N) : Prop :=
  vS vi = vS v /\ vcur vi = vcur v /\ vreq vi <= N.max (vreq v) (vcur v + m + 1) /\
  nolf (vS v) (vcur v) (vcur v + m) /\ vcur v + m <= nlen (vS v).

Lemma Pk_0 v : vcur v <= nlen (vS v) -> Pk v v 0.
Proof.
  intros H. unfold Pk. split; [reflexivity|]. split; [reflexivity|]. split; [lia|]. split; [apply nolf_empty; lia|lia].
Qed.

Lemma Pk_W v : Wv v -> Pk v v 0.
Proof. intros H. apply Pk_0. apply Wv_cur_le. exact H. Qed.

Lemma Pk_peek v vi m k : Pk v vi m -> k <= m -> Pk v (after_peek vi k) m.
Proof.
  intros (a1 & a2 & a3 & a4 & a5) Hk. unfold Pk. cbn [after_peek vS vcur vreq]. rewrite a2.
  split; [exact a1|]. split; [reflexivity|]. split; [lia|]. split; assumption.
Qed.

Lemma Pk_vpeek v vi m k : Pk v vi m -> vpeek vi k = nnth (vS v) (vcur v + k).
Proof. intros (a1 & a2 & _). unfold vpeek. rewrite a1, a2. reflexivity. Qed.

(* the byte at m is there and is not an LF: it may be looked beyond *)
Lemma Pk_ext v vi m b : Pk v vi m -> vpeek vi m = Some b -> b <> 10 -> Pk v vi (m + 1).
Proof.
  intros HP Hb Hne. rewrite (Pk_vpeek _ _ _ _ HP) in Hb. destruct HP as (a1 & a2 & a3 & a4 & a5). unfold Pk.
  split; [exact a1|]. split; [exact a2|]. split; [lia|]. split.
  - replace (vcur v + (m + 1)) with (vcur v + m + 1) by lia.
    eapply nolf_trans; [exact a4|]. apply (nolf_one _ _ b); assumption.
  - apply nnth_some_lt in Hb. lia.
Qed.

Lemma Pk_grow v vi m n : Pk v vi m -> m <= n -> span (vS v) (vcur v) n -> Pk v vi n.
Proof.
  intros (a1 & a2 & a3 & a4 & a5) Hmn Hsp. unfold Pk. split; [exact a1|]. split; [exact a2|]. split; [lia|].
  split; [apply span_nolf; exact Hsp|]. apply span_le; [exact Hsp|lia].
Qed.

Lemma Pk_trans v vi vj m n : Pk v vi m -> Pk vi vj n -> m <= n -> Pk v vj n.
Proof.
  intros (a1 & a2 & a3 & a4 & a5) (b1 & b2 & b3 & b4 & b5) Hmn. rewrite a1, a2 in *. unfold Pk.
  split; [congruence|]. split; [congruence|]. split; [lia|]. split; assumption.
Qed.

Lemma Pk_of_peeked v v1 M n :
  peeked_to v v1 M -> M <= vcur v + n + 1 -> span (vS v) (vcur v) n -> vcur v <= nlen (vS v) -> Pk v v1 n.
Proof.
  intros (a1 & _ & a3 & _ & _ & a6 & _) HM Hsp Hc. unfold Pk. split; [exact a1|]. split; [exact a3|].
  split; [lia|]. split; [apply span_nolf; exact Hsp|]. apply span_le; assumption.
Qed.

(* a state that differs from a looked-at state by consumption only *)
Lemma Pk_Lk v vi m v' : Pk v vi m -> vreq v' = vreq vi -> vcur vi <= vcur v' -> Lk v v'.
Proof.
  intros (a1 & a2 & a3 & a4 & a5) Hr Hc. exists (vcur v + m). split; [lia|]. split; [|exact a5].
  eapply nolf_weaken; [exact a4|lia|lia].
Qed.

(* Lk with the stream and the cursor: what composes *)
Definition Fl (v v' : view) : Prop := vS v' = vS v /\ vcur v <= vcur v' /\ Lk v v'.

Lemma Fl_refl v : Fl v v.
Proof. split; [reflexivity|]. split; [lia|apply Lk_refl]. Qed.

Lemma Fl_trans v1 v2 v3 : Fl v1 v2 -> Fl v2 v3 -> Fl v1 v3.
Proof.
  intros (a1 & a2 & a3) (b1 & b2 & b3). split; [congruence|]. split; [lia|].
  eapply Lk_trans; [exact a1|exact b2|exact a3|exact b3].
Qed.

Lemma Fl_of_frame v v' : frame v v' -> Lk v v' -> Fl v v'.
Proof. intros (a1 & _ & a3) H. split; [exact a1|]. split; [exact a3|exact H]. Qed.

Lemma Fl_Lk v v' : Fl v v' -> Lk v v'.
Proof. intros (_ & _ & H). exact H. Qed.

Lemma Fl_ItemLk v0 v v' : Fl v0 v -> ItemLk v v' -> ItemLk v0 v'.
Proof. intros (a1 & a2 & a3) H. eapply Lk_ItemLk; eassumption. Qed.

Lemma Pk_Fl v vi m v' : Pk v vi m -> vS v' = vS vi -> vreq v' = vreq vi -> vcur vi <= vcur v' -> Fl v v'.
Proof.
  intros HP HS Hr Hc. pose proof HP as (a1 & a2 & _). split; [congruence|]. split; [lia|].
  eapply Pk_Lk; eassumption.
Qed.

(* the byte at m is the LF that ends the item, and it is consumed *)
Lemma Pk_ItemLk v vi m v' :
  Pk v vi m -> vpeek vi m = Some 10 -> vreq v' = vreq vi -> vcur v' = vcur vi + m + 1 -> ItemLk v v'.
Proof.
  intros HP Hb Hr Hc. rewrite (Pk_vpeek _ _ _ _ HP) in Hb. destruct HP as (a1 & a2 & a3 & a4 & a5).
  left. split; [lia|]. split; [|lia]. replace (vcur v' - 1) with (vcur v + m) by lia. exact Hb.
Qed.

(* there is no byte at m: the input ends there *)
Lemma Pk_ItemLk_end v vi m v' :
  Pk v vi m -> vpeek vi m = None -> vreq v' = vreq vi -> vcur v' = vcur vi + m -> ItemLk v v'.
Proof.
  intros HP Hb Hr Hc. rewrite (Pk_vpeek _ _ _ _ HP) in Hb. destruct HP as (a1 & a2 & a3 & a4 & a5).
  assert (Hn : nlen (vS v) <= vcur v + m).
  { unfold nnth in Hb. apply nth_error_None in Hb. unfold nlen. lia. }
  right. split; [lia|]. assert (vcur v + m = nlen (vS v)) as E by lia. rewrite <- E. lia.
Qed.

(* ================================================================== *)
(* 4. programs whose every finished run stays in the line of its cursor *)

Definition LkP {A} (m : PM A) : Prop := forall lr v, wrt m lr v (fun _ _ v' => Lk v v').

Lemma LkP_Fl {A} (m : PM A) : LkP m -> forall lr v, wrt m lr v (fun _ _ v' => Fl v v').
Proof.
  intros H lr v. eapply wrt_conseq; [apply wrt_Wpost; apply H|]. intros a lr' v' (_ & Hf & Hl).
  apply Fl_of_frame; assumption.
Qed.

(* after a prefix that stayed in the line *)
Lemma wrt_tail {A} (m : PM A) lr v0 v : Fl v0 v -> LkP m -> wrt m lr v (fun _ _ v' => Lk v0 v').
Proof.
  intros Hf Hm. eapply wrt_conseq; [apply (LkP_Fl m Hm)|]. intros a lr' v' Hf2.
  apply Fl_Lk. eapply Fl_trans; eassumption.
Qed.

Lemma wrt_tail_Fl {A} (m : PM A) lr v0 v : Fl v0 v -> LkP m -> wrt m lr v (fun _ _ v' => Fl v0 v').
Proof.
  intros Hf Hm. eapply wrt_conseq; [apply (LkP_Fl m Hm)|]. intros a lr' v' Hf2. eapply Fl_trans; eassumption.
Qed.

(* one step of a sequence, carrying the way back to where the item started *)
Lemma wrt_step {A B} (m : PM A) (f : A -> PM B) lr v0 v (Q : B -> lrs -> view -> Prop) :
  Fl v0 v -> LkP m -> (forall a lr1 v1, Fl v0 v1 -> wrt (f a) lr1 v1 Q) -> wrt (pbnd m f) lr v Q.
Proof.
  intros Hf Hm Hk. apply wrt_pbnd. eapply wrt_conseq; [apply (wrt_tail_Fl m lr v0 v Hf Hm)|].
  intros a lr1 v1 Hf1. apply Hk. exact Hf1.
Qed.

(* the same with what the step establishes about its result *)
Lemma wrt_stepQ {A B} (m : PM A) (f : A -> PM B) lr v0 v (P : A -> lrs -> view -> Prop) (Q : B -> lrs -> view -> Prop) :
  Fl v0 v -> LkP m -> wrt m lr v P -> (forall a lr1 v1, Fl v0 v1 -> P a lr1 v1 -> wrt (f a) lr1 v1 Q) ->
  wrt (pbnd m f) lr v Q.
Proof.
  intros Hf Hm HP Hk. apply wrt_pbnd. eapply wrt_conseq; [apply wrt_and; [apply (wrt_tail_Fl m lr v0 v Hf Hm)|exact HP]|].
  intros a lr1 v1 [Hf1 Hp]. apply Hk; assumption.
Qed.

Lemma LkP_pret {A} (a : A) : LkP (pret a).
Proof. intros lr v. apply wrt_pret. apply Lk_refl. Qed.

Lemma LkP_pbnd {A B} (m : PM A) (f : A -> PM B) : LkP m -> (forall a, LkP (f a)) -> LkP (pbnd m f).
Proof.
  intros Hm Hf lr v. apply (wrt_step m f lr v v); [apply Fl_refl|exact Hm|].
  intros a lr1 v1 Hf1. apply wrt_tail; [exact Hf1|apply Hf].
Qed.


(* whatever was asked for lies before the new cursor, or is the one byte at it *)
Lemma LkP_upto {A} (m : PM A) :
  (forall lr v, wrt m lr v (fun _ _ v' => vreq v' <= N.max (vreq v) (vcur v' + 1))) -> LkP m.
Proof.
  intros H lr v. eapply wrt_conseq; [apply wrt_Wpost, H|]. intros a lr' v' (HW' & (e1 & _ & _) & Hq).
  apply Lk_upto; [exact Hq|rewrite <- e1; apply Wv_cur_le; exact HW'].
Qed.

Lemma LkP_pcrash {A} k : LkP (@pcrash A k).
Proof. intros lr v. apply wrt_pcrash. Qed.

Lemma LkP_pnofuel {A} : LkP (@pnofuel A).
Proof. intros lr v. apply wrt_pnofuel. Qed.

Lemma LkP_padvance n : LkP (padvance n).
Proof. intros lr v. apply wrt_padvance. apply Lk_noreq. cbn [v_advance vreq]. lia. Qed.

Lemma LkP_pset_mark : LkP pset_mark.
Proof. intros lr v. apply wrt_pset_mark. apply Lk_noreq. cbn [v_setmark vreq]. lia. Qed.

Lemma LkP_takeerr : LkP (lift (TakeErr Ret)).
Proof. intros lr v. apply wrt_takeerr. apply Lk_noreq. cbn [v_take vreq]. lia. Qed.

Lemma LkP_getpos : LkP (lift (GetPos Ret)).
Proof. intros lr v. apply wrt_getpos. apply Lk_refl. Qed.

Lemma LkP_getmark : LkP (lift (GetMark Ret)).
Proof. intros lr v. apply wrt_getmark. apply Lk_refl. Qed.

Lemma LkP_isatend : LkP (lift (IsAtEnd Ret)).
Proof. intros lr v. apply wrt_isatend. apply Lk_refl. Qed.

Lemma LkP_errparked : LkP (lift (ErrParked Ret)).
Proof. intros lr v. apply wrt_errparked. apply Lk_refl. Qed.

Lemma LkP_get_lrs : LkP get_lrs.
Proof. intros lr v. apply wrt_get_lrs. apply Lk_refl. Qed.

Lemma LkP_set_lrs s : LkP (set_lrs s).
Proof. intros lr v. apply wrt_set_lrs. apply Lk_refl. Qed.

(* looking at the byte at the cursor *)
Lemma LkP_ppeek0 : LkP (ppeek 0).
Proof.
  intros lr v. apply wrt_W. intros HW. apply wrt_ppeek.
  eapply (Pk_Lk v (after_peek v 0) 0); [apply Pk_peek; [apply Pk_W; exact HW|lia]|reflexivity|lia].
Qed.

Lemma LkP_line_at_offset off : LkP (line_at_offset off).
Proof. intros lr v. apply wrt_line_at_offset. intros _. apply Lk_refl. Qed.

Lemma LkP_give_up_at pos : LkP (give_up_at pos).
Proof.
  unfold give_up_at. apply LkP_pbnd; [apply LkP_takeerr|]. intros [io|]; [apply LkP_pret|].
  apply LkP_pbnd; [apply LkP_get_lrs|]. intros s. destruct (pos <? l_start s); [apply LkP_pcrash|apply LkP_pret].
Qed.

Lemma LkP_give_up : LkP give_up.
Proof. unfold give_up. apply LkP_pbnd; [apply LkP_getpos|]. intros pos. apply LkP_give_up_at. Qed.

Lemma LkP_give_up_at_mark : LkP give_up_at_mark.
Proof. unfold give_up_at_mark. apply LkP_pbnd; [apply LkP_getmark|]. intros pos. apply LkP_give_up_at. Qed.

Lemma LkP_located {A} (n : PM (parsed A unit)) (err : PM perr) : LkP n -> LkP err -> LkP (located n err).
Proof.
  intros Hn He. unfold located, tok_ok, tok_err, tok_ft. apply LkP_pbnd; [exact Hn|].
  intros [[x|u]|]; [apply LkP_pret| |apply LkP_pret]. apply LkP_pbnd; [exact He|]. intros e. apply LkP_pret.
Qed.

(* ---------- the scanners of text.rs ---------- *)
Lemma wrt_lift_det {A} (p : prog A) lr v a0 v0 (Q : A -> lrs -> view -> Prop) :
  det p -> srun p v = ADone a0 v0 -> Q a0 lr v0 -> wrt (lift p) lr v Q.
Proof. intros Hd Hs HQ. apply wrt_lift. eapply wt_det; eassumption. Qed.

(* token::newline's scan: LF, or CR and the byte behind it *)
Lemma wrt_newline lr v (Q : N -> lrs -> view -> Prop) :
  (forall v1, Pk v v1 (newline_look (rest_at v 0) - 1) -> Q (0 + newline_len (rest_at v 0)) lr v1) ->
  wrt (lift (newline 0)) lr v Q.
Proof.
  intros H. apply wrt_W. intros HW. destruct (newline_spec 0 v) as (v1 & Hrun & Hpk).
  eapply wrt_lift_det; [apply det_newline|exact Hrun|]. apply H.
  pose proof (newline_look_le (rest_at v 0)) as Hl.
  eapply Pk_of_peeked; [exact Hpk|lia|apply newline_look_span|apply Wv_cur_le; exact HW].
Qed.

(* token::fixed's scan: the matched bytes and, unless all matched, the one that did not *)
Lemma wrt_fixed (pat : bytes) lr v (Q : N -> lrs -> view -> Prop) :
  pat <> [] -> ~ In 10 pat ->
  (forall v1, Pk v v1 (common_prefix pat (rest_at v 0)) ->
              Q (if common_prefix pat (rest_at v 0) =? nlen pat then 0 + nlen pat else 0) lr v1) ->
  wrt (lift (fixed 0 pat)) lr v Q.
Proof.
  intros Hne H10 H. apply wrt_W. intros HW. destruct (fixed_spec 0 pat v) as (v1 & Hrun & Hpk).
  eapply wrt_lift_det; [apply det_fixed_from|exact Hrun|]. apply H.
  destruct pat as [|p ps]; [congruence|].
  pose proof (span_cp (p :: ps) v 0 H10) as Hsp. rewrite N.add_0_r in Hsp.
  eapply Pk_of_peeked; [exact Hpk|lia|exact Hsp|apply Wv_cur_le; exact HW].
Qed.

(* the decimal scanner with its fast path: the digits and the byte behind them *)
Lemma wrt_digits t lr v (Q : option Z * N -> lrs -> view -> Prop) :
  (forall val v1, Pk v v1 (nlen (digit_prefix (rest_at v 0))) -> Q (val, 0 + nlen (digit_prefix (rest_at v 0))) lr v1) ->
  wrt (lift (ascii_digits_multi fuel t 0)) lr v Q.
Proof.
  intros H. apply wrt_lift. intros HW [val o] v1 Hr. pose proof HW as (Hw & Hb & Hf & Hc).
  destruct (ascii_digits_multi_spec fuel t 0 v (ADone (val, o) v1) Hw Hb) as (v2 & E & Hcore); [pose proof (rest_len' v 0); lia|exact Hr|].
  inversion E; subst val o v2. unfold unsigned_spec. cbn [fst snd]. apply H.
  pose proof (multi_req fuel t 0 v _ _ v1 Hf Hr) as Hq. unfold unsigned_spec in Hq. cbn [snd] in Hq.
  unfold core, core_after in Hcore. injection Hcore as e1 e2 e3 e4 e5 e6.
  pose proof (span_digits v 0) as Hsp. rewrite N.add_0_r in Hsp.
  unfold Pk. split; [exact e1|]. split; [exact e3|]. split; [lia|]. split; [apply span_nolf; exact Hsp|].
  apply span_le; [exact Hsp|apply Wv_cur_le; exact HW].
Qed.

(* ---------- token::unexpected ---------- *)
Lemma unexpected_scan_w n : forall len lr vi v m,
  len <= m -> Pk v vi m -> (len = 0 -> vpeek vi 0 <> Some 10) ->
  wrt (unexpected_scan n len) lr vi (fun _ _ v' => exists m', Pk v v' m').
Proof.
  induction n as [|n IH]; intros len lr vi v m Hlen HP H0; cbn [unexpected_scan].
  - apply wrt_pret. exists m. exact HP.
  - apply wrt_pbnd, wrt_ppeek. pose proof (Pk_peek _ _ _ _ HP Hlen) as HP1.
    destruct (vpeek vi len) as [b|] eqn:Ep; [|apply wrt_pret; exists m; exact HP1].
    destruct (((b =? 10) || (b =? 13) || (b =? 9) || (b =? 32)) && negb (len =? 0)) eqn:Ec;
      [apply wrt_pret; exists m; exact HP1|].
    assert (Hb : b <> 10).
    { intros ->. change (10 =? 10) with true in Ec. cbn [orb andb] in Ec.
      destruct (len =? 0) eqn:El; [|discriminate]. apply N.eqb_eq in El. subst len. apply (H0 eq_refl). exact Ep. }
    apply (IH (len + 1) lr (after_peek vi len) v (N.max m (len + 1))); [lia| |intros; lia].
    destruct (N.eq_dec len m) as [->|Hne].
    + replace (N.max m (m + 1)) with (m + 1) by lia. apply (Pk_ext _ _ _ b); [exact HP1|exact Ep|exact Hb].
    + replace (N.max m (len + 1)) with m by lia. exact HP1.
Qed.

Lemma LkP_unexpected : LkP unexpected.
Proof.
  intros lr v. unfold unexpected. apply wrt_pbnd, wrt_newline. intros v1 HP1.
  assert (Hf1 : Fl v v1) by (eapply Pk_Fl; [exact HP1|reflexivity|reflexivity|lia]).
  destruct (negb (0 + newline_len (rest_at v 0) =? 0)) eqn:E0; [apply wrt_tail; [exact Hf1|apply LkP_give_up]|].
  apply negb_false_iff, N.eqb_eq in E0.
  apply wrt_pbnd, wrt_isatend. destruct (s_atend v1); [apply wrt_tail; [exact Hf1|apply LkP_give_up]|].
  apply wrt_pbnd. eapply wrt_conseq.
  - apply (unexpected_scan_w 60 0 lr v1 v _ (N.le_0_l _) HP1). intros _ Hn.
    rewrite (Pk_vpeek _ _ _ _ HP1) in Hn. rewrite N.add_0_r in Hn.
    destruct (nnth_nskipn_cons (vS v) (vcur v) 10 Hn) as [r Er]. unfold rest_at in E0. rewrite N.add_0_r in E0. rewrite Er in E0.
    cbn [newline_len] in E0. change (10 =? 10) with true in E0. cbv iota in E0. lia.
  - intros _ lr2 v2 (m' & HP2). apply wrt_tail; [|apply LkP_give_up].
    eapply Pk_Fl; [exact HP2|reflexivity|reflexivity|lia].
Qed.

Lemma LkP_or_unexpected {A} (t : tok A) : LkP t -> LkP (or_unexpected t).
Proof.
  intros Ht. unfold or_unexpected. apply LkP_pbnd; [exact Ht|]. intros [x|]; [apply LkP_pret|].
  apply LkP_pbnd; [apply LkP_unexpected|]. intros e. apply LkP_pret.
Qed.

(* ---------- token::eof, token::fixed ---------- *)
Lemma LkP_teof : LkP teof.
Proof.
  unfold teof, tok_ft, tok_ok. apply LkP_pbnd; [apply LkP_ppeek0|]. intros [b|]; [apply LkP_pret|].
  apply LkP_pbnd; [apply LkP_errparked|]. intros parked. destruct parked; apply LkP_pret.
Qed.

(* eof succeeds at the end of the input only; the one request beyond it is the one that found it *)
Lemma teof_item lr v : wrt teof lr v (fun a _ v' => forall u, a = Res (Ok u) -> ItemLk v v').
Proof.
  apply wrt_W. intros HW. unfold teof, tok_ft, tok_ok. apply wrt_pbnd, wrt_ppeek.
  pose proof (Pk_peek _ _ _ 0 (Pk_W v HW) (N.le_refl 0)) as HP.
  destruct (vpeek v 0) as [b|] eqn:Ep; [apply wrt_pret; intros u E; discriminate|].
  apply wrt_pbnd, wrt_errparked. destruct (s_parked (after_peek v 0)); [apply wrt_pret; intros u E; discriminate|].
  apply wrt_pret. intros u _. eapply (Pk_ItemLk_end v _ 0); [exact HP|exact Ep|reflexivity|cbn [after_peek vcur]; lia].
Qed.

Lemma LkP_tfixed (pat : bytes) : pat <> [] -> ~ In 10 pat -> LkP (tfixed pat).
Proof.
  intros Hne H10 lr v. unfold tfixed, tok_ft, tok_ok. apply wrt_pbnd, wrt_fixed; [exact Hne|exact H10|]. intros v1 HP.
  destruct (_ =? 0); [apply wrt_pret; eapply Pk_Lk; [exact HP|reflexivity|lia]|].
  apply wrt_pbnd, wrt_padvance, wrt_pret. eapply Pk_Lk; [exact HP|reflexivity|cbn [v_advance vcur]; lia].
Qed.

End W.
