(* C05 — Every input terminates with Ok or Err and bounded resources.
   Pinned statements at the level the model reaches today.  Reader: no history over the API makes the refill loop
   run forever, produces an index panic, an out-of-contract state or undefined behaviour; advance panics exactly when
   asked to pass the buffered data.  Numbers: overflow-aware accumulation returns None instead of wrapping, for every
   admissible run.  Renumbering (aig.rs): terminates on every graph of any depth, never panics.
   The parser programs' own obligations (advance only within scanned offsets, column subtraction, loop progress) are
   pinned in the CnfSafe section below once proved; the AIGER/BTOR2 parsers are covered by the safe oracle (partial). *)
From Flussab Require Import Base Reader Writer Prog Text TextSpec ProgProofs ReaderProofs ScanProofs DigitsProofs Varint.
From Flussab Require Import Aig Renumber RenumberProofs RenumberTerm.

(* the refill loop of request/peek terminates: the fuel the model gives it always suffices *)
Theorem C05_refill_loop_terminates : forall s need s',
  fill_until (loop_fuel s) need s <> LFuel s'.
Proof. intros s need s'. apply fill_until_no_fuel. apply loop_fuel_enough. Qed.
Print Assumptions C05_refill_loop_terminates.

(* no reachable state, no operation: undefined behaviour, internal panic other than the documented ones, fuel *)
Theorem C05_reader_histories_are_safe : forall ops s,
  Good s -> forallb (fun v => negb (bad_obs v)) (snd (Reader.run s ops)) = true.
Proof. exact run_safe. Qed.
Print Assumptions C05_reader_histories_are_safe.

(* advance panics exactly when asked to pass the buffered data, and then leaves the reader unchanged *)
Theorem C05_advance_panics_iff : forall s n,
  (snd (advance s n) = Some PAdvance <-> valid_len s < n) /\
  (snd (advance s n) = None \/ snd (advance s n) = Some PAdvance) /\
  (snd (advance s n) <> None -> fst (advance s n) = s).
Proof. exact advance_panics_iff. Qed.
Print Assumptions C05_advance_panics_iff.

(* digit accumulation: None when the numeral does not fit, never a wrapped value; offset always just past the run *)
Theorem C05_digits_never_wrap : forall fuel t off v r,
  WFV v -> BytesOK v ->
  (length (digit_prefix (rest_at v off)) < fuel)%nat ->
  aruns (ascii_digits_multi fuel t off) v r ->
  exists v', r = ADone (fst (unsigned_spec t (rest_at v off)), off + snd (unsigned_spec t (rest_at v off))) v' /\
             core v' = core_after v (vcur v + off + nlen (digit_prefix (rest_at v off)) + 1).
Proof. exact ascii_digits_multi_spec. Qed.
Print Assumptions C05_digits_never_wrap.

(* binary_uint reads at most 8 groups: a longer run of continuation bytes is rejected, not shifted out *)
Theorem C05_varint_at_most_8_groups : forall l,
  (8 <= length l)%nat -> Forall (fun b => 128 <= b) (firstn 8 l) -> varint_decode l = None.
Proof.
  intros l Hl Hf. unfold varint_decode.
  assert (G : forall k l, (k <= length l)%nat -> Forall (fun b => 128 <= b) (firstn k l) -> dec_groups k l = None).
  { induction k as [|k IH]; intros l0 Hk H0; [reflexivity|].
    destruct l0 as [|b r]; [cbn in Hk; lia|]. cbn [firstn] in H0. inversion H0; subst.
    cbn [dec_groups]. assert ((b <? 128) = false) as -> by (apply N.ltb_ge; assumption).
    rewrite IH; [reflexivity|cbn in Hk; lia|assumption]. }
  apply G; assumption.
Qed.
Print Assumptions C05_varint_at_most_8_groups.

(* renumbering: explicit-stack DFS terminates on every graph (cyclic or not, any depth) and never panics *)
Theorem C05_renumber_terminates : forall cfg a, renumber_aig cfg a <> RnOutOfFuel.
Proof. exact renumber_terminates. Qed.
Print Assumptions C05_renumber_terminates.

Theorem C05_renumber_never_panics : forall cfg a, renumber_aig cfg a <> RnPanic.
Proof. exact renumber_never_panics. Qed.
Print Assumptions C05_renumber_never_panics.

(* ------------------------------------------------------------------ *)
(* The DIMACS family and solver logs, end to end (CnfSafe.v): for every byte string (below 2^62 bytes) and every
   terminal event of the source, EVERY admissible run of the whole parser programs ends with a value: it is never
   stuck (no Advance beyond what the program has established to be buffered — the "advance only within scanned
   offsets" obligation), never panics (the unchecked column subtraction never underflows; no other Crash is reachable),
   and no loop runs out of fuel (every continuing iteration consumes at least one byte).  By the simulation theorem
   (Props/C01.v) this covers every concrete run under every schedule and chunk size. *)
From Flussab Require Import Simulation Cnf CnfProofs Hoare CnfSafe.

Theorem C05_dimacs_terminates_with_a_value : forall fuel k maxd ignore_header S fail r,
  Forall (fun b => b < 256) S -> nlen S < 2 ^ 62 -> (length S < fuel)%nat ->
  aruns (parse_dimacs fuel k maxd ignore_header lrs_init) (view_init S fail) r ->
  exists out lr' v', r = ADone (out, lr') v'.
Proof. exact parse_dimacs_safe. Qed.
Print Assumptions C05_dimacs_terminates_with_a_value.

Theorem C05_log_terminates_with_a_value : forall fuel maxd ignore_unknown S fail r,
  Forall (fun b => b < 256) S -> nlen S < 2 ^ 62 -> (length S < fuel)%nat ->
  aruns (parse_log fuel maxd ignore_unknown lrs_init) (view_init S fail) r ->
  exists out lr' v', r = ADone (out, lr') v'.
Proof. exact parse_log_safe. Qed.
Print Assumptions C05_log_terminates_with_a_value.

(* ... and the concrete runs: CDone for every honest source, schedule and chunk size *)
Theorem C05_dimacs_concrete_runs_finish : forall fuel k maxd ignore_header (sr : source) (c : N),
  NoLie (events sr) -> 1 <= c ->
  Forall (fun b => b < 256) (fst (stream_of sr)) -> nlen (fst (stream_of sr)) < 2 ^ 62 ->
  (length (fst (stream_of sr)) < fuel)%nat ->
  let p := parse_dimacs fuel k maxd ignore_header lrs_init in
  exists a v' s', srun p (view_init (fst (stream_of sr)) (snd (stream_of sr))) = ADone a v' /\
                  crun p (set_chunk (reader_init sr) c) = CDone a s'.
Proof. exact parse_dimacs_any_chunking. Qed.
Print Assumptions C05_dimacs_concrete_runs_finish.

(* ------------------------------------------------------------------ *)
(* AIGER (ascii, binary) and BTOR2, end to end (AigerSafe.v, Btor2Safe.v): every admissible run ends with a value. *)
From Flussab Require Import Aiger AigerProofs AigerSafe Btor2 Btor2Proofs Btor2Safe.

Theorem C05_aag_terminates_with_a_value : forall fuel maxc S fail r,
  Forall (fun b => b < 256) S -> nlen S < 2 ^ 62 -> (length S < fuel)%nat ->
  aruns (parse_aag fuel maxc lrs_init) (view_init S fail) r ->
  exists out lr' v', r = ADone (out, lr') v'.
Proof. exact parse_aag_safe. Qed.
Print Assumptions C05_aag_terminates_with_a_value.

Theorem C05_aig_terminates_with_a_value : forall fuel maxc S fail r,
  Forall (fun b => b < 256) S -> nlen S < 2 ^ 62 -> (length S < fuel)%nat ->
  aruns (parse_aig fuel maxc lrs_init) (view_init S fail) r ->
  exists out lr' v', r = ADone (out, lr') v'.
Proof. exact parse_aig_safe. Qed.
Print Assumptions C05_aig_terminates_with_a_value.

Theorem C05_btor2_terminates_with_a_value : forall fuel S fail r,
  Forall (fun b => b < 256) S -> nlen S < 2 ^ 62 -> (length S < fuel)%nat ->
  aruns (parse_btor2 fuel lrs_init) (view_init S fail) r ->
  exists out lr' v', r = ADone (out, lr') v'.
Proof. exact parse_btor2_safe. Qed.
Print Assumptions C05_btor2_terminates_with_a_value.


(* ------------------------------------------------------------------ *)
(* Pre-allocation of the AIGER whole-file parsers (Prealloc.v).  `prealloc_ascii` / `prealloc_binary` are regenerated
   from ascii.rs / binary.rs on every run (translator section `prealloc`, which also insists that the four crates contain
   no other size-driven allocation site besides the reader's and writer's modelled ones): whatever counts the header
   declares, the elements reserved before any item has been read are bounded by a constant — "regardless of the counts
   the input merely declares" — and never exceed what was declared. *)
From Flussab Require Import Prealloc.

Theorem C05_aag_preallocation_bounded_regardless_of_declared_counts : forall h,
  (sumN (prealloc_aag h) <= N.of_nat prealloc_sites * prealloc_cap /\
   Forall (fun n => n <= prealloc_cap /\ n <= declared h) (prealloc_aag h))%N.
Proof. exact prealloc_aag_bounded. Qed.
Print Assumptions C05_aag_preallocation_bounded_regardless_of_declared_counts.

Theorem C05_aig_preallocation_bounded_regardless_of_declared_counts : forall h,
  (sumN (prealloc_aig h) <= N.of_nat prealloc_sites * prealloc_cap /\
   Forall (fun n => n <= prealloc_cap /\ n <= declared h) (prealloc_aig h))%N.
Proof. exact prealloc_aig_bounded. Qed.
Print Assumptions C05_aig_preallocation_bounded_regardless_of_declared_counts.
