(* C13 — Decimal scanning is exact for every integer width; fast equals simple.
   Statements about every admissible abstract run (every stream, every cursor, every amount
   of buffered data — the answer to the `buf_len() >= offset + 8` question is any answer a
   real reader could give) of the scanner programs of Text.v.

   digit_prefix l      longest prefix of ASCII digits of l
   dec_val ds          the decimal value of the digit string ds (unbounded N)
   from_prim t x       Some x if x is representable in the integer type t, else None
   unsigned_spec t l   (from_prim t (dec_val (digit_prefix l)), length of the digit run)
   signed_spec t l     the same after an optional '-' that is followed by a digit; a lone '-'
                       is not consumed: (Some 0, 0)
   rest_at v off       the input from the scan offset on *)
From Flussab Require Import Base Reader Writer Prog Text TextSpec ProgProofs ScanProofs DigitsProofs.
From Flussab Require SwarProofs.

(* the 8-byte kernel, for every 64-bit word: value and length of the leading digit run *)
Theorem C13_swar_kernel : forall l : bytes,
  length l = 8%nat -> Forall (fun b => b < 256) l ->
  swar (le_value l) = (dec_val (digit_prefix l), nlen (digit_prefix l)).
Proof. exact SwarProofs.swar_spec. Qed.
Print Assumptions C13_swar_kernel.

(* simple unsigned scanner: offset just past the longest digit run, exact value iff representable *)
Theorem C13_ascii_digits_exact : forall fuel t off v r,
  (length (digit_prefix (rest_at v off)) < fuel)%nat ->
  aruns (ascii_digits fuel t off) v r ->
  exists v', r = ADone (fst (unsigned_spec t (rest_at v off)), off + snd (unsigned_spec t (rest_at v off))) v' /\
             vcur v' = vcur v /\ vS v' = vS v.
Proof.
  intros fuel t off v r Hf Hr. unfold ascii_digits in Hr.
  rewrite (det_aruns _ _ _ Hr (det_digits_loop _ _ _ _ _ _)).
  destruct (ascii_digits_spec fuel t off v Hf) as (v' & H1 & (a1 & _ & a3 & _)).
  exists v'. split; [exact H1|split; assumption].
Qed.
Print Assumptions C13_ascii_digits_exact.

(* simple signed scanner (signed integer types) *)
Theorem C13_signed_ascii_digits_exact : forall fuel t off v r,
  ity_signed t = true ->
  (length (digit_prefix (rest_at v off)) < fuel)%nat ->
  (length (digit_prefix (rest_at v (off + 1))) < fuel)%nat ->
  aruns (signed_ascii_digits fuel t off) v r ->
  exists v', r = ADone (fst (signed_spec t (rest_at v off)), off + snd (signed_spec t (rest_at v off))) v' /\
             vcur v' = vcur v /\ vS v' = vS v.
Proof.
  intros fuel t off v r Hs Hf Hf1 Hr.
  assert (Hdet : det (signed_ascii_digits fuel t off)).
  { unfold signed_ascii_digits. cbn [det]. intros o.
    destruct (match o with Some b => b =? 45 | None => false end); [|apply det_digits_loop].
    cbn [det]. intros [d|]; [|exact I]. destruct (is_dig d); [|exact I].
    destruct (in_range t (0 - Z.of_N (d - 48))); [apply det_digits_loop|exact I]. }
  rewrite (det_aruns _ _ _ Hr Hdet). destruct (signed_ascii_digits_spec fuel t off v Hs Hf Hf1) as (v' & H1 & H2).
  exists v'. split; [exact H1|exact (core_after_basic _ _ _ (peeked_core _ _ _ H2))].
Qed.
Print Assumptions C13_signed_ascii_digits_exact.

(* the optimised variants return the same value and offset, whatever is buffered *)
Theorem C13_multi_equals_simple : forall fuel t off v r,
  WFV v -> BytesOK v ->
  (length (digit_prefix (rest_at v off)) < fuel)%nat ->
  aruns (ascii_digits_multi fuel t off) v r ->
  exists v', r = ADone (fst (unsigned_spec t (rest_at v off)), off + snd (unsigned_spec t (rest_at v off))) v' /\
             vcur v' = vcur v /\ vS v' = vS v.
Proof.
  intros fuel t off v r Hw Hb Hf Hr. destruct (ascii_digits_multi_spec fuel t off v r Hw Hb Hf Hr) as (v' & H1 & H2).
  exists v'. split; [exact H1|exact (core_after_basic _ _ _ H2)].
Qed.
Print Assumptions C13_multi_equals_simple.

Theorem C13_signed_multi_equals_simple : forall fuel t off v r,
  ity_signed t = true -> WFV v -> BytesOK v ->
  (length (digit_prefix (rest_at v off)) < fuel)%nat ->
  (length (digit_prefix (rest_at v (off + 1))) < fuel)%nat ->
  aruns (signed_ascii_digits_multi fuel t off) v r ->
  exists v', r = ADone (fst (signed_spec t (rest_at v off)), off + snd (signed_spec t (rest_at v off))) v' /\
             vcur v' = vcur v /\ vS v' = vS v.
Proof.
  intros fuel t off v r Hs Hw Hb Hf Hf1 Hr.
  destruct (signed_ascii_digits_multi_spec fuel t off v r Hs Hw Hb Hf Hf1 Hr) as (v' & H1 & H2).
  exists v'. split; [exact H1|exact (core_after_basic _ _ _ H2)].
Qed.
Print Assumptions C13_signed_multi_equals_simple.

(* what "representable" means *)
Theorem C13_from_prim : forall t x,
  (from_prim t x = Some x <-> (ity_min t <= x <= ity_max t)%Z) /\
  (from_prim t x = None <-> ~ (ity_min t <= x <= ity_max t)%Z).
Proof.
  intros t x. unfold from_prim. pose proof (in_range_iff t x) as H. destruct (in_range t x) eqn:E.
  - split; split; intros; try congruence; try (apply H; reflexivity).
    exfalso. apply H0. apply H. reflexivity.
  - split; split; intros; try congruence.
    + apply H in H0. discriminate.
    + intros Hc. apply H in Hc. discriminate.
Qed.
Print Assumptions C13_from_prim.

(* non-vacuity: i8 at its limits, through the fast path *)
Example C13_example :
  let v := {| vS := [45;49;50;56;32;49;50;56;32]; vfail := None; vcur := 0; vmark := 0; vtaken := false; vknown := false;
              vhwm := 9; vreq := 0 |} in
  (exists v', srun (signed_ascii_digits_multi 20 I8 0) v = ADone (Some (-128)%Z, 4) v') /\
  (exists v', srun (signed_ascii_digits 20 I8 5) v = ADone (None, 8) v').
Proof. cbv zeta. split; eexists; vm_compute; reflexivity. Qed.
