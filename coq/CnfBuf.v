(* CnfBuf.v — C10 for the DIMACS-family parsers: the reader's buffer during Parser::new, during every
   Parser::next_clause, and during a whole parse is bounded by the chunk size and by the span of a single item,
   not by the length of the input or the number of items already parsed.

   The span of an item is the number of bytes one call consumes: for next_clause the blank and comment lines before
   the clause, the clause with its continuation lines, and its line break.  For a call that returns an item, nothing
   beyond that is ever asked for (plus one byte when the last line is unterminated), so every Peek of the call has
   an offset of at most the span (LookProofs.next_clause_window) and, by ProgBuf.crun_buf_window, the buffer never
   exceeds 4C + n + 1 for a span of at most n and a chunk size of at most C.  A call that ends otherwise (end of
   input, error) may have asked for the rest of the line its cursor stops in, so the length L of the longest line
   enters: 4C + n + L + 1. *)
From Flussab Require Import Base Reader ListN Writer Parsed Prog Text TextSpec ProgProofs ScanProofs DigitsProofs.
From Flussab Require Import ReaderProofs Simulation Consts Cnf CnfProofs ErrProofs Hoare CnfSafe Look LookProofs ProgBuf.
Ltac Zify.zify_post_hook ::= Z.to_euclidean_division_equations.

(* ================================================================== *)
(* 1. forgetting the requests of earlier calls                          *)

(* [vreq] only records what has been asked for; neither the simulation relation nor the parser invariant reads it.
   A call is therefore analysed from the view in which nothing beyond the cursor has been asked for yet: what the
   reader holds beyond the cursor is accounted for by [valid_len] on the concrete side. *)
Definition v_reqreset (v : view) : view :=
  {| vS := vS v; vfail := vfail v; vcur := vcur v; vmark := vmark v; vtaken := vtaken v; vknown := vknown v;
     vhwm := vhwm v; vreq := vcur v |}.

Lemma Rel_reqreset s v : Rel s v -> Rel s (v_reqreset v).
Proof.
  intros [[a1 a2 a3 a4 a5 a6 a7 a8 a9] Hk]. split; [|exact Hk]. constructor; assumption.
Qed.

Lemma K_reqreset fuel lr v : K fuel lr v -> K fuel lr (v_reqreset v).
Proof. intros H. exact H. Qed.

(* no line (maximal run of bytes other than LF) of S is longer than L *)
Definition LinesWithin (L : N) (S : bytes) : Prop :=
  forall a e, a <= e -> e <= nlen S -> nolf S a e -> e - a <= L.

(* ================================================================== *)
(* 2. one call whose requests stay within the line its cursor ends in   *)

(* the window of every intermediate view, from the look-ahead condition Lk of the whole run *)
Lemma window_of_Lk {A} (p : prog A) v vi a v' :
  aruns_via p v vi (ADone a v') -> Lk v v' ->
  exists e, nolf (vS v) (vcur v') e /\ e <= nlen (vS v) /\
            vreq vi - vcur vi <= N.max (vreq v - vcur v) (e + 1 - vcur v).
Proof.
  intros Hvia (e & a1 & a2 & a3).
  destruct (via_mono _ _ _ _ Hvia _ _ eq_refl) as (h1 & h2 & h3 & h4).
  exists e. split; [exact a2|]. split; [exact a3|lia].
Qed.

(* A call p all of whose admissible runs return, with the look-ahead condition Lk.  If it consumes at most n bytes
   and no line of the input is longer than L, its buffer never exceeds 4C + n + L + 1. *)
Lemma lk_call_buf {A} (p : prog A) s v C n L m :
  Rel s v -> vreq v = vcur v -> LinesWithin L (vS v) -> BufOK C (n + L + 1) s ->
  (forall r, aruns p v r -> exists a v', r = ADone a v' /\ vS v' = vS v /\ vcur v <= vcur v' /\ Lk v v') ->
  exists a s' v',
    crun p s = CDone a s' /\ Rel s' v' /\ aruns p v (ADone a v') /\
    (g_consumed s' - g_consumed s <= n ->
       snd (crun_buf p s m) <= N.max m (4 * C + (n + L + 1)) /\ BufOK C (n + L + 1) s').
Proof.
  intros HR Hreq HL HB Hall.
  destruct (crun_buf_window p (fun r => exists a v', r = ADone a v' /\ vcur v' - vcur v <= n) C (n + L + 1) s v m HR HB)
    as (r & Hr & Href & Hbound).
  { intros vi r Hvia (a & v' & -> & Hspan). split; [discriminate|].
    destruct (Hall _ (via_aruns _ _ _ _ Hvia)) as (a1 & v1 & E & HS & Hle & HLk). inversion E; subst a1 v1.
    destruct (window_of_Lk p v vi a v' Hvia HLk) as (e & b1 & b2 & b3).
    destruct (N.le_gt_cases e (vcur v')) as [Hev|Hev]; [lia|].
    pose proof (HL (vcur v') e ltac:(lia) b2 b1) as Hline. lia. }
  destruct (Hall r Hr) as (a & v' & -> & HS & Hle & HLk).
  destruct Href as (s' & Hc & HR'). exists a, s', v'. split; [exact Hc|]. split; [exact HR'|]. split; [exact Hr|].
  intros Hn. destruct Hbound as [H1 H2].
  - exists a, v'. split; [reflexivity|]. rewrite (r_cur _ _ (proj1 HR')), (r_cur _ _ (proj1 HR)). exact Hn.
  - split; [exact H1|exact (H2 a s' Hc)].
Qed.

(* ================================================================== *)
(* 3. Parser::next_clause                                               *)

(* G4, a call that returns an item of span at most n: every Peek of the call has an offset of at most n ... *)
Theorem next_clause_peeks fuel k st lr s v n item st' lr' s' :
  Rel s v -> K fuel lr v ->
  crun (next_clause fuel k st lr) s = CDone ((Ok (Some item), st'), lr') s' ->
  g_consumed s' - g_consumed s <= n ->
  PeekBound (n + 1) (next_clause fuel k st lr) s.
Proof.
  intros HR HK Hc Hn. set (v0 := v_reqreset v).
  assert (HR0 : Rel s v0) by (apply Rel_reqreset; exact HR).
  assert (HK0 : K fuel lr v0) by (apply K_reqreset; exact HK).
  destruct (window_peeks (next_clause fuel k st lr)
              (fun r => exists it st1 lr1 v1, r = ADone ((Ok (Some it), st1), lr1) v1 /\ vcur v1 - vcur v0 <= n)
              (n + 1) s v0 HR0) as (r & Hr & Href & HPB).
  { intros vi r Hvia (it & st1 & lr1 & v1 & -> & Hspan). split; [discriminate|].
    pose proof (next_clause_window fuel k st lr v0 vi it st1 lr1 v1 HK0 Hvia) as Hw.
    unfold v0 in Hw, Hspan. cbn [v_reqreset vreq vcur] in Hw, Hspan. lia. }
  destruct (next_clause_lookahead fuel k st lr v0 r HK0 Hr) as (res & st2 & lr2 & v' & -> & _).
  destruct Href as (s2 & Hc2 & HR'). rewrite Hc in Hc2. inversion Hc2; subst res st2 lr2 s2.
  apply HPB. exists item, st', lr', v'. split; [reflexivity|].
  rewrite (r_cur _ _ (proj1 HR')), (r_cur _ _ (proj1 HR0)). exact Hn.
Qed.

(* ... hence the buffer never exceeds 4C + n + 1 during the call, and the reader is left in a state in which the
   same holds for the next call *)
Theorem next_clause_buf fuel k st lr s v C n item st' lr' s' m :
  Rel s v -> K fuel lr v -> BufOK C (n + 1) s ->
  crun (next_clause fuel k st lr) s = CDone ((Ok (Some item), st'), lr') s' ->
  g_consumed s' - g_consumed s <= n ->
  snd (crun_buf (next_clause fuel k st lr) s m) <= N.max m (4 * C + n + 1) /\
  BufOK C (n + 1) s' /\
  exists v', Rel s' v' /\ K fuel lr' v' /\ vS v' = vS v.
Proof.
  intros HR HK HB Hc Hn.
  pose proof (next_clause_peeks fuel k st lr s v n item st' lr' s' HR HK Hc Hn) as HP.
  destruct (crun_buf_bound (next_clause fuel k st lr) C (n + 1) s m HB HP) as (h1 & h2 & _).
  split; [lia|]. split; [exact (h2 _ _ Hc)|].
  destruct (simulation (next_clause fuel k st lr) s v HR) as (r & Hr & Href).
  destruct (next_clause_lookahead fuel k st lr v r HK Hr) as (res & st2 & lr2 & v' & -> & HS & _ & _ & Hres).
  destruct Href as (s2 & Hc2 & HR'). rewrite Hc in Hc2. inversion Hc2; subst res st2 lr2 s2.
  destruct Hres as (HK' & _). exists v'. split; [exact HR'|]. split; [exact HK'|exact HS].
Qed.

(* whatever the call returns (an item, the end of the input, an error) *)
Theorem next_clause_buf_any fuel k st lr s v C n L m :
  Rel s v -> K fuel lr v -> LinesWithin L (vS v) -> BufOK C (n + L + 1) s ->
  exists res st' lr' s' v',
    crun (next_clause fuel k st lr) s = CDone ((res, st'), lr') s' /\ Rel s' v' /\ vS v' = vS v /\
    match res with Ok (Some _) => K fuel lr' v' | _ => True end /\
    (g_consumed s' - g_consumed s <= n ->
       snd (crun_buf (next_clause fuel k st lr) s m) <= N.max m (4 * C + (n + L + 1)) /\ BufOK C (n + L + 1) s').
Proof.
  intros HR HK HL HB. set (v0 := v_reqreset v).
  assert (HR0 : Rel s v0) by (apply Rel_reqreset; exact HR).
  assert (HK0 : K fuel lr v0) by (apply K_reqreset; exact HK).
  destruct (lk_call_buf (next_clause fuel k st lr) s v0 C n L m HR0 eq_refl HL HB) as (a & s' & v' & Hc & HR' & Hr & Hb).
  { intros r Hr. destruct (next_clause_lookahead fuel k st lr v0 r HK0 Hr) as (res & st2 & lr2 & v' & -> & HS & Hle & HLk & _).
    exists ((res, st2), lr2), v'. split; [reflexivity|]. split; [exact HS|]. split; [exact Hle|exact HLk]. }
  destruct (next_clause_lookahead fuel k st lr v0 _ HK0 Hr) as (res & st2 & lr2 & v2 & E & HS & _ & _ & Hres).
  inversion E; subst a v2. exists res, st2, lr2, s', v'.
  split; [exact Hc|]. split; [exact HR'|]. split; [exact HS|]. split; [|exact Hb].
  destruct res as [[it|]|e]; [exact (proj1 Hres)|exact I|exact I].
Qed.

(* ================================================================== *)
(* 4. Parser::new                                                       *)

Theorem parser_new_buf_any fuel k maxd ih lr s v C n L m :
  Rel s v -> K fuel lr v -> LinesWithin L (vS v) -> BufOK C (n + L + 1) s ->
  exists res lr' s' v',
    crun (parser_new fuel k maxd ih lr) s = CDone (res, lr') s' /\ Rel s' v' /\ vS v' = vS v /\
    match res with Ok _ => K fuel lr' v' | Err _ => True end /\
    (g_consumed s' - g_consumed s <= n ->
       snd (crun_buf (parser_new fuel k maxd ih lr) s m) <= N.max m (4 * C + (n + L + 1)) /\ BufOK C (n + L + 1) s').
Proof.
  intros HR HK HL HB. set (v0 := v_reqreset v).
  assert (HR0 : Rel s v0) by (apply Rel_reqreset; exact HR).
  assert (HK0 : K fuel lr v0) by (apply K_reqreset; exact HK).
  destruct (lk_call_buf (parser_new fuel k maxd ih lr) s v0 C n L m HR0 eq_refl HL HB) as (a & s' & v' & Hc & HR' & Hr & Hb).
  { intros r Hr. destruct (parser_new_lookahead fuel k maxd ih lr v0 r HK0 Hr) as (res & lr2 & v' & -> & HS & Hle & HLk & _).
    exists (res, lr2), v'. split; [reflexivity|]. split; [exact HS|]. split; [exact Hle|exact HLk]. }
  destruct (parser_new_lookahead fuel k maxd ih lr v0 _ HK0 Hr) as (res & lr2 & v2 & E & HS & _ & _ & Hres).
  inversion E; subst a v2. exists res, lr2, s', v'.
  split; [exact Hc|]. split; [exact HR'|]. split; [exact HS|]. split; [|exact Hb].
  destruct res as [st|e]; [exact (proj1 Hres)|exact I].
Qed.

(* a header line has been read: the sharper bound of an item *)
Theorem parser_new_buf fuel k maxd ih lr s v C n st lr' s' m :
  Rel s v -> K fuel lr v -> BufOK C (n + 1) s ->
  crun (parser_new fuel k maxd ih lr) s = CDone (Ok st, lr') s' -> phdr st <> None ->
  g_consumed s' - g_consumed s <= n ->
  snd (crun_buf (parser_new fuel k maxd ih lr) s m) <= N.max m (4 * C + n + 1) /\ BufOK C (n + 1) s'.
Proof.
  intros HR HK HB Hc Hh Hn. set (v0 := v_reqreset v).
  assert (HR0 : Rel s v0) by (apply Rel_reqreset; exact HR).
  assert (HK0 : K fuel lr v0) by (apply K_reqreset; exact HK).
  destruct (crun_buf_window (parser_new fuel k maxd ih lr)
              (fun r => exists st1 lr1 v1, r = ADone (Ok st1, lr1) v1 /\ phdr st1 <> None /\ vcur v1 - vcur v0 <= n)
              C (n + 1) s v0 m HR0 HB) as (r & Hr & Href & Hbound).
  { intros vi r Hvia (st1 & lr1 & v1 & -> & Hh1 & Hspan). split; [discriminate|].
    pose proof (parser_new_window fuel k maxd ih lr v0 vi st1 lr1 v1 HK0 Hvia Hh1) as Hw.
    unfold v0 in Hw, Hspan. cbn [v_reqreset vreq vcur] in Hw, Hspan. lia. }
  destruct (parser_new_lookahead fuel k maxd ih lr v0 r HK0 Hr) as (res & lr2 & v' & -> & _).
  destruct Href as (s2 & Hc2 & HR'). rewrite Hc in Hc2. inversion Hc2; subst res lr2 s2.
  destruct Hbound as [H1 H2].
  - exists st, lr', v'. split; [reflexivity|]. split; [exact Hh|].
    rewrite (r_cur _ _ (proj1 HR')), (r_cur _ _ (proj1 HR0)). exact Hn.
  - split; [lia|exact (H2 _ _ Hc)].
Qed.

(* ================================================================== *)
(* 5. a whole parse: any number of items                                *)

(* every call of the loop [drive] consumes at most n bytes (a statement about the concrete run: the item spans of
   the input as the parser sees them) *)
Fixpoint SpansWithin (fuel : nat) (n : N) (cnt : nat) (k : dkind) (st : pstate) (lr : lrs) (s : rstate) : Prop :=
  match cnt with
  | O => True
  | S c =>
      match crun (next_clause fuel k st lr) s with
      | CDone ((res, st'), lr') s' =>
          g_consumed s' - g_consumed s <= n /\
          match res with
          | Ok (Some _) => SpansWithin fuel n c k st' lr' s'
          | _ => True
          end
      | _ => True
      end
  end.

(* the loop that drives next_clause to the end of the input: however many items it parses, the buffer stays below
   a bound that depends on the chunk size, the largest span and the longest line only *)
Theorem drive_buf fuel C n L : forall cnt k st acc lr s v m,
  Rel s v -> K fuel lr v -> LinesWithin L (vS v) -> BufOK C (n + L + 1) s ->
  SpansWithin fuel n cnt k st lr s ->
  snd (crun_buf (drive fuel cnt k st acc lr) s m) <= N.max m (4 * C + (n + L + 1)).
Proof.
  induction cnt as [|c IH]; intros k st acc lr s v m HR HK HL HB Hsp.
  - cbn [drive]. unfold pnofuel. cbn [crun_buf snd]. destruct HB as (_ & _ & _ & Hb). lia.
  - cbn [drive]. unfold pbnd. rewrite crun_buf_pbind.
    destruct (next_clause_buf_any fuel k st lr s v C n L m HR HK HL HB) as (res & st' & lr' & s' & v' & Hc & HR' & HS & HK' & Hb).
    cbn [SpansWithin] in Hsp. rewrite Hc in Hsp. destruct Hsp as [Hn Hrest].
    destruct (Hb Hn) as [Hm HB'].
    pose proof (crun_buf_fst (next_clause fuel k st lr) s m) as Hf.
    destruct (crun_buf (next_clause fuel k st lr) s m) as [cr m']. cbn [fst snd] in Hf, Hm. rewrite Hc in Hf. subst cr.
    destruct res as [[it|]|e].
    + assert (HL' : LinesWithin L (vS v')) by (rewrite HS; exact HL).
      pose proof (IH k st' (it :: acc) lr' s' v' m' HR' HK' HL' HB' Hrest) as I1. lia.
    + unfold pret. cbn [crun_buf snd]. destruct HB' as (_ & _ & _ & b4). lia.
    + unfold pret. cbn [crun_buf snd]. destruct HB' as (_ & _ & _ & b4). lia.
Qed.

(* the spans of a whole parse: the header (with the comment lines before it), then every item *)
Definition ParseSpans (fuel : nat) (n : N) (k : dkind) (maxd : Z) (ih : bool) (lr : lrs) (s : rstate) : Prop :=
  match crun (parser_new fuel k maxd ih lr) s with
  | CDone (res, lr') s' =>
      g_consumed s' - g_consumed s <= n /\
      match res with
      | Ok st => SpansWithin fuel n fuel k st lr' s'
      | Err _ => True
      end
  | _ => True
  end.

Theorem parse_dimacs_buf fuel k maxd ih C n L lr s v m :
  Rel s v -> K fuel lr v -> LinesWithin L (vS v) -> BufOK C (n + L + 1) s ->
  ParseSpans fuel n k maxd ih lr s ->
  snd (crun_buf (parse_dimacs fuel k maxd ih lr) s m) <= N.max m (4 * C + (n + L + 1)).
Proof.
  intros HR HK HL HB Hsp. unfold parse_dimacs, pbnd. rewrite crun_buf_pbind.
  destruct (parser_new_buf_any fuel k maxd ih lr s v C n L m HR HK HL HB) as (res & lr' & s' & v' & Hc & HR' & HS & HK' & Hb).
  unfold ParseSpans in Hsp. rewrite Hc in Hsp. destruct Hsp as [Hn Hrest]. destruct (Hb Hn) as [Hm HB'].
  pose proof (crun_buf_fst (parser_new fuel k maxd ih lr) s m) as Hf.
  destruct (crun_buf (parser_new fuel k maxd ih lr) s m) as [cr m']. cbn [fst snd] in Hf, Hm. rewrite Hc in Hf. subst cr.
  destruct res as [st|e].
  - rewrite crun_buf_pbind.
    assert (HL' : LinesWithin L (vS v')) by (rewrite HS; exact HL).
    pose proof (drive_buf fuel C n L fuel k st [] lr' s' v' m' HR' HK' HL' HB' Hrest) as H1.
    pose proof (crun_buf_fst (drive fuel fuel k st [] lr') s' m') as Hf.
    destruct (crun_buf_ge (drive fuel fuel k st [] lr') s' m') as (_ & _ & H2 & _).
    destruct (crun_buf (drive fuel fuel k st [] lr') s' m') as [cr m2]. cbn [fst snd] in Hf, H1, H2.
    destruct cr as [[[items fin] lr2] s2|pk s2| |]; cbn [snd]; try lia.
    unfold pret. cbn [crun_buf snd]. symmetry in Hf. pose proof (H2 _ _ Hf) as b4. lia.
  - unfold pret. cbn [crun_buf snd]. destruct HB' as (_ & _ & _ & b4). lia.
Qed.

(* G4, from the start of the input: any honest source, any read schedule, any chunk size c >= 1, an input of any
   length with any number of clauses.  If the header and every item span at most n bytes and no line is longer
   than L, no reader state of the whole parse holds a buffer of more than 4c + n + L + 1 bytes. *)
Corollary parse_dimacs_buf_init fuel k maxd ih (sr : source) (c n L : N) :
  NoLie (events sr) -> 1 <= c ->
  Forall (fun b => b < 256) (fst (stream_of sr)) -> nlen (fst (stream_of sr)) < 2 ^ 62 ->
  (length (fst (stream_of sr)) < fuel)%nat ->
  LinesWithin L (fst (stream_of sr)) ->
  ParseSpans fuel n k maxd ih lrs_init (set_chunk (reader_init sr) c) ->
  snd (crun_buf (parse_dimacs fuel k maxd ih lrs_init) (set_chunk (reader_init sr) c) 0) <= 4 * c + (n + L + 1).
Proof.
  intros HN Hc Hb Hl Hf HL Hsp.
  pose proof (parse_dimacs_buf fuel k maxd ih c n L lrs_init (set_chunk (reader_init sr) c)
                (view_init (fst (stream_of sr)) (snd (stream_of sr))) 0
                (Rel_init sr c HN Hc) (K_init fuel _ _ Hb Hl Hf) HL (BufOK_init sr c _) Hsp) as H.
  lia.
Qed.

(* ================================================================== *)
(* 6. the hypotheses are satisfiable, the bound is met: concrete inputs *)

(* a checkable form of LinesWithin: every L + 1 consecutive positions contain a line break *)
Definition lines_withinb (L : N) (B : bytes) : bool :=
  forallb (fun a => existsb (fun i => match nnth B (N.of_nat a + N.of_nat i) with Some b => b =? 10 | None => false end)
                            (seq 0 (1 + N.to_nat L)))
          (seq 0 (N.to_nat (nlen B) - N.to_nat L)).

Lemma lines_withinb_ok L S : lines_withinb L S = true -> LinesWithin L S.
Proof.
  intros H a e Hae He Hn. destruct (N.le_gt_cases (e - a) L) as [Hle|Hgt]; [exact Hle|exfalso].
  unfold lines_withinb in H. rewrite forallb_forall in H.
  assert (Hin : In (N.to_nat a) (seq 0 (N.to_nat (nlen S) - N.to_nat L))) by (apply in_seq; lia).
  apply H in Hin. apply existsb_exists in Hin. destruct Hin as (i & Hi & Hb). apply in_seq in Hi.
  rewrite N2Nat.id in Hb. destruct (nnth S (a + N.of_nat i)) as [b|] eqn:E; [|discriminate].
  apply N.eqb_eq in Hb. subst b. apply (Hn (a + N.of_nat i)); [lia|lia|exact E].
Qed.

Lemma Forall_ltb (l : bytes) : forallb (fun b => b <? 256) l = true -> Forall (fun b => b < 256) l.
Proof.
  intros H. apply Forall_forall. intros x Hx. rewrite forallb_forall in H. apply N.ltb_lt. apply H. exact Hx.
Qed.

(* "p cnf 3 40\n" / "p cnf 3 160\n", followed by 40 / 160 clauses "1 -2 3 0\n" *)
Definition ex_cl : bytes := [49; 32; 45; 50; 32; 51; 32; 48; 10].
Definition ex_hdr40 : bytes := [112; 32; 99; 110; 102; 32; 51; 32; 52; 48; 10].
Definition ex_hdr160 : bytes := [112; 32; 99; 110; 102; 32; 51; 32; 49; 54; 48; 10].
Definition ex_src (h : bytes) (cnt : nat) : source :=
  {| prebuf := []; data := h ++ concat (repeat ex_cl cnt); events := [] |}.

(* measured: with chunk size 4 the largest buffer of the whole parse is 13 bytes, for 371 bytes of input as for 1452;
   with chunk size 100 it is 301 = 3 * 100 + 1 *)
Definition ex_run (h : bytes) (cnt : nat) (c : N) :=
  crun_buf (parse_dimacs 2000 KCnf max_dimacs_i32 false lrs_init) (set_chunk (reader_init (ex_src h cnt)) c) 0.

Example ex_measured :
  nlen (data (ex_src ex_hdr40 40)) = 371 /\ snd (ex_run ex_hdr40 40 4) = 13 /\
  nlen (data (ex_src ex_hdr160 160)) = 1452 /\ snd (ex_run ex_hdr160 160 4) = 13 /\
  snd (ex_run ex_hdr160 160 100) = 301 /\
  match fst (ex_run ex_hdr160 160 4) with
  | CDone (_, items, fin, _) _ => length items = 160%nat /\ fin = FOk
  | _ => False
  end.
Proof. vm_compute. repeat split. Qed.

(* all hypotheses of parse_dimacs_buf_init hold for the first input: chunk size 4, spans of at most 11 bytes (the header
   line; a clause line has 9), lines of at most 10 bytes: the theorem gives 4 * 4 + 11 + 10 + 1 = 38 *)
Example ex_bound :
  snd (crun_buf (parse_dimacs 2000 KCnf max_dimacs_i32 false lrs_init) (set_chunk (reader_init (ex_src ex_hdr40 40)) 4) 0)
  <= 4 * 4 + (11 + 10 + 1).
Proof.
  apply parse_dimacs_buf_init.
  - exact I.
  - lia.
  - apply Forall_ltb. vm_compute. reflexivity.
  - vm_compute. reflexivity.
  - apply Nat.ltb_lt. vm_compute. reflexivity.
  - apply lines_withinb_ok. vm_compute. reflexivity.
  - vm_compute. repeat split; discriminate.
Qed.

Print Assumptions next_clause_peeks.
Print Assumptions next_clause_buf.
Print Assumptions next_clause_buf_any.
Print Assumptions parser_new_buf.
Print Assumptions drive_buf.
Print Assumptions parse_dimacs_buf_init.
